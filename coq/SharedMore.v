(* SharedMore.v -- property C15: the remaining SharedCore methods as call types, WRITER core.

   SharedInst.v instantiates the lock theory of Shared.v with the calls {append, clear, get, has, info} of a
   writer core.  The trait methods of src/replication/shared_core.rs also include create_proof, missing_nodes and
   key_pair.  Here the call type is extended (xcall embeds SharedInst.scall) with

     SCreateProof block hash seek upgrade   -> Core.core_create_proof
     SMissingNodes index                    -> Core.core_missing_nodes
     SKeyPair                               -> the key pair field of the core

   and it is proved that
     * the new calls never change the core, the disk or the storage journal; the only trace they leave is the
       single EvGet that create_proof sends when the requested block is not held (xstep_new_frame);
     * every concurrent run over the extended call set equals its serialization in lock order (Shared.v,
       instantiated: xshared_serializable), for bodies with one micro-step per call and for bodies in which append
       is split at its storage operations and create_proof at its two await points (tree reads, block read);
     * the results of SharedInst.v about append / get / has / info (gap-free lengths, blocks readable at the implied
       indices, observations = list model) still hold in the presence of the new calls;
     * what a create_proof / missing_nodes / key_pair call returns in a concurrent run is what the call returns on
       a state satisfying the unified invariant FInv and the proof-content invariant PInv for the LIST-MODEL state
       reached by the serialization prefix: the proof is the honest proof of that model state (every node is the
       reference node, a block section carries the model's block and is served exactly when the block is held in
       the model, the upgrade signature is the writer's signature over the model's roots), missing_nodes returns
       0 on a writer, key_pair returns the initial key pair. *)
From HC Require Import Base NMap Codec CodecFacts Crypto FlatTree Storage Bitfield Oplog Merkle Core.
From HC Require Import FlatTreeFacts StorageFacts BitfieldFacts OplogFacts TreeRef OffsetFacts CoreFacts Crash Refine.
From HC Require Import ClearRefine Reopen ContigBridge Unified1 Unified2 Unified3.
From HC Require Import Replicate Replicate2D ProofContent.
From HC Require Shared.
From HC Require Import SharedInst.
From Coq Require Import FMapPositive ZifyN ZifyNat ZifyBool.
Ltac Zify.zify_post_hook ::= Z.div_mod_to_equations.
Arguments N.add : simpl never.
Arguments N.sub : simpl never.
Arguments N.mul : simpl never.
Arguments N.div : simpl never.
Arguments N.modulo : simpl never.
Arguments N.pow : simpl never.
Arguments N.eqb : simpl never.
Arguments N.ltb : simpl never.
Arguments N.leb : simpl never.
Arguments N.max : simpl never.
Arguments N.min : simpl never.
Arguments N.of_nat : simpl never.
Arguments N.to_nat : simpl never.

(* ====================================================================================== *)
(* A. The extended calls of a shared writer core and their atomic meaning                   *)
(* ====================================================================================== *)

Inductive xcall :=
| XOld (c : scall)                         (* append / clear / get / has / info, as in SharedInst.v *)
| SCreateProof (block hash : option req_block) (seek : option req_seek) (upgrade : option req_upgrade)
| SMissingNodes (index : N)
| SKeyPair.

Inductive xobs :=
| XOOld (o : uobs)
| XOProof (r : res (option proof))
| XOMissing (r : res N)
| XOKeyPair (k : keypair).

(* the Core.v operation behind each call, and what the caller observes *)
Definition xstep (cr : crypto) (c : xcall) (s : sstate) : sstate * xobs :=
  match c with
  | XOld c0 => let '(s', o) := sstep cr c0 s in (s', XOOld o)
  | SCreateProof b h k u =>
      let '(c', w', r) := core_create_proof b h k u (fst s) (snd s) in ((c', w'), XOProof r)
  | SMissingNodes i =>
      let '(c', w', r) := core_missing_nodes i (fst s) (snd s) in ((c', w'), XOMissing r)
  | SKeyPair => (s, XOKeyPair (c_keypair (fst s)))
  end.

Definition xnew (c : xcall) : bool := match c with XOld _ => false | _ => true end.

(* In the list model the new calls are reads: they are mapped to the model operation "info", which leaves the
   model state alone (ustate, uappended, wf_u, covers all skip it).  Mapping -- rather than erasing -- keeps the
   positions of a history and of its image aligned. *)
Definition xto_scall (c : xcall) : scall := match c with XOld c0 => c0 | _ => SInfo end.
Definition xto_uop (c : xcall) : uop := to_uop (xto_scall c).

Lemma map_xto_uop cs : map xto_uop cs = map to_uop (map xto_scall cs).
Proof. rewrite map_map. reflexivity. Qed.

Lemma ustate_new c bs cl : xnew c = true -> ustate [xto_uop c] bs cl = (bs, cl).
Proof. destruct c; [discriminate|reflexivity..]. Qed.

(* ====================================================================================== *)
(* B. The new calls leave core, disk and journal alone                                      *)
(* ====================================================================================== *)

(* the events a new call sends from state s: create_proof sends one EvGet when the valueless proof has a block
   section whose block is not held (CoreFacts.proof_missing_block); nothing else is ever sent *)
Definition xnew_events (c : xcall) (s : sstate) : list event :=
  match c with
  | SCreateProof b h k u =>
      match proof_missing_block b h k u (fst s) (snd s) with Some i => [EvGet i] | None => [] end
  | _ => []
  end.

Theorem xstep_new_frame cr c s s' o :
  xnew c = true -> xstep cr c s = (s', o) ->
  fst s' = fst s /\ w_disk (snd s') = w_disk (snd s) /\ w_journal (snd s') = w_journal (snd s) /\
  w_events (snd s') = xnew_events c s ++ w_events (snd s).
Proof.
  intros Hn H. destruct c as [c0|b h k u|i| ]; [discriminate Hn| | |]; cbn [xstep xnew_events] in *.
  - destruct (core_create_proof b h k u (fst s) (snd s)) as [[c' w'] r] eqn:E. injection H as <- _.
    cbn [fst snd]. destruct (create_proof_events b h k u _ _ _ _ _ E) as (Ev & _ & Ec & Ed & Ej).
    split; [exact Ec|]. split; [exact Ed|]. split; [exact Ej|exact Ev].
  - destruct (core_missing_nodes i (fst s) (snd s)) as [[c' w'] r] eqn:E. injection H as <- _.
    cbn [fst snd]. destruct (proj1 (core_missing_nodes_quiet i) _ _ _ _ _ E) as (Ec & Ed & Ej).
    pose proof (proj1 (missing_nodes_silent i) _ _ _ _ _ E) as Ev.
    split; [exact Ec|]. split; [exact Ed|]. split; [exact Ej|exact Ev].
  - injection H as <- _. repeat split; reflexivity.
Qed.

(* in particular: same core, same disk *)
Corollary xstep_new_state cr c s s' o :
  xnew c = true -> xstep cr c s = (s', o) -> fst s' = fst s /\ w_disk (snd s') = w_disk (snd s).
Proof. intros Hn H. destruct (xstep_new_frame cr c s s' o Hn H) as (A & B & _). split; assumption. Qed.

(* ====================================================================================== *)
(* C. Generic facts about sequential runs (Shared.seq_run)                                  *)
(* ====================================================================================== *)

Section SeqRun.
  Variables (St L R call : Type) (l0 : call -> L) (body : call -> list (St * L -> St * L)) (res : call -> L -> R).

  (* the i-th result of a sequential run is the result of the i-th call, run atomically from the state that the
     first i calls -- themselves a sequential run with the first i results -- left *)
  Lemma seq_run_at cs : forall s s' rs i c,
    Shared.seq_run l0 body res s cs = (s', rs) -> nth_error cs i = Some c ->
    exists si, Shared.seq_run l0 body res s (firstn i cs) = (si, firstn i rs) /\
               nth_error rs i = Some (snd (Shared.atomic l0 body res c si)).
  Proof.
    induction cs as [|a cs IH]; intros s s' rs i c H Hi; [destruct i; discriminate Hi|].
    cbn [Shared.seq_run] in H.
    destruct (Shared.atomic l0 body res a s) as [s1 r] eqn:E1.
    destruct (Shared.seq_run l0 body res s1 cs) as [s2 rs'] eqn:E2. injection H as <- <-.
    destruct i as [|i]; cbn [nth_error firstn] in *.
    - injection Hi as ->. exists s. rewrite E1. split; reflexivity.
    - destruct (IH _ _ _ _ _ E2 Hi) as (si & A & B). exists si. split; [|exact B].
      cbn [Shared.seq_run]. rewrite E1, A. reflexivity.
  Qed.
End SeqRun.

(* ====================================================================================== *)
(* D. One call, then a sequence of calls, against the list model                            *)
(* ====================================================================================== *)

Definition xframe_panic : xobs := XOOld frame_panic.

(* the list-model state reached by the first i completed calls of a completion log: blocks, cleared set *)
Definition xblocks_of {R : Type} (lg : list (nat * xcall * R)) (bs : list bytes) (i : nat) : list bytes :=
  bs ++ uappended (map xto_uop (firstn i (Shared.calls lg))).
Definition xcleared_of {R : Type} (lg : list (nat * xcall * R)) (bs : list bytes) (cl : N -> bool) (i : nat)
  : N -> bool :=
  snd (ustate (map xto_uop (firstn i (Shared.calls lg))) bs cl).

Section XSeq.
  Variable cr : crypto.
  Variable sk : bytes.                   (* the writer's signing key *)
  Hypothesis Hcrc : crc_ok cr.
  Hypothesis Hhash32 : forall x, length (cr_hash cr x) = 32%nat.
  Hypothesis Hnonblank : forall x, all_zero (cr_hash cr x) = false.
  Hypothesis Hhashbytes : forall x, bytes_ok (cr_hash cr x) = true.
  Hypothesis Hsig64 : forall k m, length (cr_sign cr k m) = 64%nat.
  Hypothesis Hsigbytes : forall k m, bytes_ok (cr_sign cr k m) = true.

  (* the invariant carried along a serialization: the unified invariant of Unified1.v (memory and disk refine the
     list model (bs, cl)) together with the proof-content invariant of ProofContent.v (every readable tree node is
     the reference node of bs, the stored signatures are the writer's) *)
  Definition XInv (c : core) (d : disk) (bs : list bytes) (cl : N -> bool) : Prop :=
    FInv cr c d bs cl /\ PInv cr sk c d bs.

  (* an old call keeps PInv (FInv: SharedInst.sstep_FInv) *)
  Lemma sstep_PInv call c d j ev bs cl s' o :
    let op := to_uop call in
    XInv c d bs cl -> kp_secret (c_keypair c) = Some sk ->
    wf_u [op] (N.of_nat (length bs)) ->
    sumN (map len (bs ++ uappended [op])) <= u64_max ->
    NODE_SIZE * (2 * N.of_nat (length (bs ++ uappended [op]))) <= u64_max ->
    sstep cr call (c, mkWorld d j ev) = (s', o) ->
    o = frame_panic \/ PInv cr sk (fst s') (w_disk (snd s')) (fst (ustate [op] bs cl)).
  Proof.
    intros op [D P] Hsk Hwf Hfit Hidx H.
    pose proof (FInv_CInv cr c d bs cl D) as W.
    destruct call as [f batch|f s e|i|i| ]; subst op;
      cbn [to_uop uappended wf_u ustate fst snd sstep] in *.
    - rewrite app_nil_r in Hfit, Hidx.
      destruct (core_append cr f batch c (mkWorld d j ev)) as [[c' w'] r] eqn:E.
      injection H as <- <-. cbn [fst snd].
      destruct (append_PInv cr sk Hcrc Hhash32 Hnonblank Hhashbytes Hsig64 Hsigbytes
                            f batch c d j ev bs cl sk c' w' r D P Hsk Hfit Hidx E) as [->|(_ & _ & P' & _)].
      + left. reflexivity.
      + right. exact P'.
    - destruct Hwf as [Hse _]. right.
      destruct (N.leb_spec e s) as [Les|Les].
      + rewrite (clear_noop cr f s e c _ Les) in H. injection H as <- _. cbn [fst snd w_disk]. exact P.
      + destruct Hse as [Hse|[Hse He]]; [lia|].
        destruct (core_clear cr f s e c (mkWorld d j ev)) as [[c' w'] r] eqn:E.
        injection H as <- _. cbn [fst snd].
        destruct (clear_PInv cr sk Hcrc Hhash32 Hnonblank Hhashbytes f c d j ev bs cl s e c' w' r D P Hse Les He E)
          as (_ & _ & P' & _). exact P'.
    - right. rewrite (get_correct_c cr c d bs cl j ev i W) in H.
      destruct (held (N.of_nat (length bs)) cl i); injection H as <- _; cbn [fst snd w_disk]; exact P.
    - right. injection H as <- _. cbn [fst snd w_disk]. exact P.
    - right. injection H as <- _. cbn [fst snd w_disk]. exact P.
  Qed.

  (* one call on a state satisfying the invariant: an append hits the 2^30 frame guard, or the invariant holds for
     the model's next state, the key pair is kept, an old call observes what the list model prescribes and a new
     call leaves core and disk as they are *)
  Lemma xstep_XInv call c d j ev bs cl s' o :
    let op := xto_uop call in
    XInv c d bs cl -> kp_secret (c_keypair c) = Some sk ->
    wf_u [op] (N.of_nat (length bs)) ->
    sumN (map len (bs ++ uappended [op])) <= u64_max ->
    NODE_SIZE * (2 * N.of_nat (length (bs ++ uappended [op]))) <= u64_max ->
    xstep cr call (c, mkWorld d j ev) = (s', o) ->
    (o = xframe_panic /\ exists f batch, call = XOld (SAppend f batch)) \/
    (XInv (fst s') (w_disk (snd s')) (fst (ustate [op] bs cl)) (snd (ustate [op] bs cl)) /\
     c_keypair (fst s') = c_keypair c /\
     (forall c0, call = XOld c0 -> o = XOOld (uobs_of (to_uop c0) bs cl)) /\
     (xnew call = true -> fst s' = c /\ w_disk (snd s') = d)).
  Proof.
    intros op X Hsk Hwf Hfit Hidx H.
    destruct (xnew call) eqn:Hn.
    - right. destruct (xstep_new_state cr call _ s' o Hn H) as [Ec Ed]. cbn [fst snd w_disk] in Ec, Ed.
      unfold op. rewrite (ustate_new call bs cl Hn), Ec, Ed. cbn [fst snd].
      split; [exact X|]. split; [reflexivity|]. split; [|intros _; split; reflexivity].
      intros c0 ->. discriminate Hn.
    - destruct call as [c0|b h k u|i| ]; try discriminate Hn. clear Hn.
      unfold op, xto_uop in *. cbn [xto_scall xstep] in *.
      destruct (sstep cr c0 (c, mkWorld d j ev)) as [s1 o1] eqn:E. injection H as <- <-.
      destruct X as [D P].
      destruct (sstep_FInv cr Hcrc Hhash32 Hnonblank Hhashbytes Hsig64 Hsigbytes c0 c d j ev bs cl sk s1 o1
                  D Hsk Hwf Hfit Hidx E) as [(-> & f & batch & ->)|(-> & D1 & K1)].
      + left. split; [reflexivity|]. exists f, batch. reflexivity.
      + destruct (sstep_PInv c0 c d j ev bs cl s1 _ (conj D P) Hsk Hwf Hfit Hidx E) as [Hp|P1].
        * exfalso. destruct c0 as [f batch|f s e|i|i| ]; cbn [to_uop uobs_of] in Hp; discriminate Hp.
        * right. split; [split; assumption|]. split; [exact K1|]. split; [|discriminate].
          intros c1 [= <-]. reflexivity.
  Qed.

  (* ---------- any method bodies whose atomic meaning is the Core.v operation ---------- *)
  Variable L : Type.
  Variable l0 : xcall -> L.
  Variable body : xcall -> list (sstate * L -> sstate * L).
  Variable res : xcall -> L -> xobs.
  Hypothesis Hatomic : forall c s, Shared.atomic l0 body res c s = xstep cr c s.

  (* the hypotheses on a history, split at its first call *)
  Lemma xhyps_cons a cs (bs : list bytes) (cl : N -> bool) :
    let op := xto_uop a in
    wf_u (map xto_uop (a :: cs)) (N.of_nat (length bs)) ->
    sumN (map len (bs ++ uappended (map xto_uop (a :: cs)))) <= u64_max ->
    NODE_SIZE * (2 * N.of_nat (length (bs ++ uappended (map xto_uop (a :: cs))))) <= u64_max ->
    (wf_u [op] (N.of_nat (length bs)) /\
     sumN (map len (bs ++ uappended [op])) <= u64_max /\
     NODE_SIZE * (2 * N.of_nat (length (bs ++ uappended [op]))) <= u64_max) /\
    (wf_u (map xto_uop cs) (N.of_nat (length (fst (ustate [op] bs cl)))) /\
     sumN (map len (fst (ustate [op] bs cl) ++ uappended (map xto_uop cs))) <= u64_max /\
     NODE_SIZE * (2 * N.of_nat (length (fst (ustate [op] bs cl) ++ uappended (map xto_uop cs)))) <= u64_max).
  Proof.
    clear Hcrc Hhash32 Hnonblank Hhashbytes Hsig64 Hsigbytes Hatomic.
    intros op Hwf Hfit Hidx. cbn [map] in *. fold op in Hwf, Hfit, Hidx.
    set (ops := map xto_uop cs) in *.
    destruct (wf_u_cons op ops bs cl Hwf) as [Hwf1 Hwf2].
    change (op :: ops) with ([op] ++ ops) in Hfit, Hidx. rewrite uappended_app, app_assoc in Hfit, Hidx.
    assert (Hfit1 : sumN (map len (bs ++ uappended [op])) <= u64_max).
    { rewrite map_app, TreeRef.sumN_app in Hfit. lia. }
    assert (Hidx1 : NODE_SIZE * (2 * N.of_nat (length (bs ++ uappended [op]))) <= u64_max).
    { rewrite (app_length (bs ++ uappended [op])) in Hidx. unfold NODE_SIZE in *. lia. }
    split; [split; [exact Hwf1|split; assumption]|].
    split; [exact Hwf2|]. rewrite (ustate_blocks [op] bs cl). split; assumption.
  Qed.

  (* a sequence of atomic calls: the final state satisfies the invariant for the model's final state and the key
     pair is the initial one -- or some append hit the frame guard *)
  Theorem xseq_inv cs : forall c d j ev bs cl s' rs,
    XInv c d bs cl -> kp_secret (c_keypair c) = Some sk ->
    wf_u (map xto_uop cs) (N.of_nat (length bs)) ->
    sumN (map len (bs ++ uappended (map xto_uop cs))) <= u64_max ->
    NODE_SIZE * (2 * N.of_nat (length (bs ++ uappended (map xto_uop cs)))) <= u64_max ->
    Shared.seq_run l0 body res (c, mkWorld d j ev) cs = (s', rs) ->
    (XInv (fst s') (w_disk (snd s')) (fst (ustate (map xto_uop cs) bs cl)) (snd (ustate (map xto_uop cs) bs cl)) /\
     c_keypair (fst s') = c_keypair c) \/
    (exists k f batch, nth_error cs k = Some (XOld (SAppend f batch)) /\ nth_error rs k = Some xframe_panic).
  Proof.
    induction cs as [|a cs IH]; intros c d j ev bs cl s' rs X Hsk Hwf Hfit Hidx H.
    - cbn [Shared.seq_run] in H. injection H as <- <-. left. cbn [map ustate fst snd w_disk].
      split; [exact X|reflexivity].
    - destruct (xhyps_cons a cs bs cl Hwf Hfit Hidx) as [(W1 & F1 & I1) (W2 & F2 & I2)].
      cbn [Shared.seq_run] in H. rewrite Hatomic in H.
      destruct (xstep cr a (c, mkWorld d j ev)) as [s1 o] eqn:E1.
      destruct (Shared.seq_run l0 body res s1 cs) as [s2 rs'] eqn:E2.
      injection H as <- <-.
      destruct (xstep_XInv a c d j ev bs cl s1 o X Hsk W1 F1 I1 E1) as [(-> & f & batch & ->)|(X1 & K1 & _)].
      + right. exists 0%nat, f, batch. split; reflexivity.
      + destruct s1 as [c1 [d1 j1 ev1]]. cbn [fst snd w_disk] in X1, K1.
        rewrite <- K1 in Hsk.
        destruct (IH c1 d1 j1 ev1 _ _ s2 rs' X1 Hsk W2 F2 I2 E2) as [(X2 & K2)|(k & f & batch & Hk & Hp)].
        * left. cbn [map]. rewrite (ustate_cons (xto_uop a)). split; [exact X2|congruence].
        * right. exists (Datatypes.S k), f, batch. split; assumption.
  Qed.

  (* ... and call by call: the i-th result is what the i-th call returns on a state that satisfies the invariant
     for the model state reached by the first i calls (unless an earlier append hit the frame guard) *)
  Theorem xseq_at cs : forall c d j ev bs cl s' rs,
    XInv c d bs cl -> kp_secret (c_keypair c) = Some sk ->
    wf_u (map xto_uop cs) (N.of_nat (length bs)) ->
    sumN (map len (bs ++ uappended (map xto_uop cs))) <= u64_max ->
    NODE_SIZE * (2 * N.of_nat (length (bs ++ uappended (map xto_uop cs)))) <= u64_max ->
    Shared.seq_run l0 body res (c, mkWorld d j ev) cs = (s', rs) ->
    forall i call r, nth_error cs i = Some call -> nth_error rs i = Some r ->
    (forall k, (k < i)%nat -> nth_error rs k <> Some xframe_panic) ->
    let ops := firstn i (map xto_uop cs) in
    exists ci di ji evi,
      XInv ci di (fst (ustate ops bs cl)) (snd (ustate ops bs cl)) /\
      c_keypair ci = c_keypair c /\
      Shared.seq_run l0 body res (c, mkWorld d j ev) (firstn i cs) = ((ci, mkWorld di ji evi), firstn i rs) /\
      r = snd (xstep cr call (ci, mkWorld di ji evi)) /\
      (* the hypotheses of the one-call lemma hold at this point *)
      wf_u [xto_uop call] (N.of_nat (length (fst (ustate ops bs cl)))) /\
      sumN (map len (fst (ustate ops bs cl) ++ uappended [xto_uop call])) <= u64_max /\
      NODE_SIZE * (2 * N.of_nat (length (fst (ustate ops bs cl) ++ uappended [xto_uop call]))) <= u64_max.
  Proof.
    induction cs as [|a cs IH]; intros c d j ev bs cl s' rs X Hsk Hwf Hfit Hidx H i call r Hc Hr Hno;
      [destruct i; discriminate Hc|].
    destruct (xhyps_cons a cs bs cl Hwf Hfit Hidx) as [(W1 & F1 & I1) (W2 & F2 & I2)].
    cbn [Shared.seq_run] in H. rewrite Hatomic in H.
    destruct (xstep cr a (c, mkWorld d j ev)) as [s1 o] eqn:E1.
    destruct (Shared.seq_run l0 body res s1 cs) as [s2 rs'] eqn:E2.
    injection H as <- <-.
    destruct i as [|i].
    - cbn [nth_error] in Hc, Hr. injection Hc as ->. injection Hr as <-.
      cbv zeta. cbn [firstn ustate fst snd Shared.seq_run].
      exists c, d, j, ev. rewrite E1. cbn [snd].
      split; [exact X|]. split; [reflexivity|]. split; [reflexivity|]. split; [reflexivity|].
      split; [exact W1|]. split; [exact F1|exact I1].
    - cbn [nth_error] in Hc, Hr.
      destruct (xstep_XInv a c d j ev bs cl s1 o X Hsk W1 F1 I1 E1) as [(-> & _)|(X1 & K1 & _)].
      + exfalso. apply (Hno 0%nat); [lia|reflexivity].
      + destruct s1 as [c1 [d1 j1 ev1]]. cbn [fst snd w_disk] in X1, K1.
        rewrite <- K1 in Hsk.
        assert (Hno' : forall k, (k < i)%nat -> nth_error rs' k <> Some xframe_panic).
        { intros k Hk. apply (Hno (Datatypes.S k)). lia. }
        destruct (IH c1 d1 j1 ev1 _ _ s2 rs' X1 Hsk W2 F2 I2 E2 i call r Hc Hr Hno')
          as (ci & di & ji & evi & Xi & Ki & Ri & Er & Wi).
        cbv zeta. cbn [map firstn]. rewrite (ustate_cons (xto_uop a)).
        exists ci, di, ji, evi. split; [exact Xi|]. split; [congruence|].
        split; [|split; [exact Er|exact Wi]].
        cbn [Shared.seq_run]. rewrite Hatomic, E1, Ri. reflexivity.
  Qed.

  (* ====================================================================================== *)
  (* E. What the new calls return on a state satisfying the invariant                         *)
  (* ====================================================================================== *)

  (* The honest proof of the list-model state (bs, cl) for a request: if a proof is returned, every node of every
     section is the reference node of bs at its flat index, the fork is 0, a block section carries block
     [db_index] of bs, which is held in (bs, cl) and is the requested one, an upgrade section is the requested
     range, inside bs, with the writer's signature over the reference roots of ALL of bs; and no proof is returned
     for a requested block that is not held in (bs, cl). *)
  Definition proof_honest (bs : list bytes) (cl : N -> bool) (block : option req_block)
             (upgrade : option req_upgrade) (r : Base.res (option proof)) : Prop :=
    let n := N.of_nat (length bs) in
    (forall pf, r = Ok (Some pf) ->
       (forall x, In x (proof_nodes pf) -> x = ref_at cr bs (n_index x) /\ refnode cr bs n x) /\
       p_fork pf = 0 /\
       (forall b, p_block pf = Some b ->
          held n cl (db_index b) = true /\ db_index b < n /\ db_value b = nth (N.to_nat (db_index b)) bs [] /\
          exists rb, block = Some rb /\ db_index b = rb_index rb) /\
       (block = None -> p_block pf = None) /\
       (forall u, p_upgrade pf = Some u ->
          0 < n /\
          du_signature u = cr_sign cr sk (signable (tree_hash cr (ref_roots cr bs n)) n 0) /\
          (exists ru, upgrade = Some ru /\ du_start u = ru_start ru /\ du_length u = ru_length ru) /\
          0 < du_length u /\ du_start u + du_length u <= n)) /\
    (forall rb, block = Some rb -> held n cl (rb_index rb) = false -> forall pf, r <> Ok (Some pf)).

  (* create_proof on a writer state: core, disk and journal stay; Ok None is returned exactly when one EvGet is
     sent, namely for the requested block, which is then not held in the model; the result is the honest proof *)
  Theorem writer_create_proof c d bs cl j ev block hash seek upgrade c' w' r :
    XInv c d bs cl ->
    core_create_proof block hash seek upgrade c (mkWorld d j ev) = (c', w', r) ->
    c' = c /\
    ((r <> Ok None /\ w' = mkWorld d j ev) \/
     (r = Ok None /\ exists rb, block = Some rb /\ held (N.of_nat (length bs)) cl (rb_index rb) = false /\
                                w' = mkWorld d j (EvGet (rb_index rb) :: ev))) /\
    proof_honest bs cl block upgrade r.
  Proof.
    intros [F P] H.
    assert (Hhon : proof_honest bs cl block upgrade r).
    { split.
      - intros pf ->.
        destruct (served_proof_is_reference cr sk Hnonblank c d bs cl j ev block hash seek upgrade c' w' pf F P H)
          as (A1 & A2 & A3 & A4 & _).
        split; [exact A1|]. split; [exact A2|]. split; [exact A3|]. split; [exact A4|].
        intros u Hu.
        destruct (served_upgrade_is_signed cr sk Hnonblank c d bs cl j ev block hash seek upgrade c' w' pf u F P H Hu)
          as (B1 & _ & B3 & B4 & B5 & B6 & _).
        split; [exact B1|]. split; [exact B3|]. split; [exact B4|]. split; [exact B5|exact B6].
      - intros rb -> Hh pf ->.
        destruct (unheld_block_yields_no_proof cr c d bs cl j ev rb hash seek upgrade c' w' _ F Hh H) as [_ []]. }
    split; [|split; [|exact Hhon]].
    - rewrite (create_proof_run cr c d bs cl j ev block hash seek upgrade F) in H.
      destruct (create_valueless_proof (c_tree c) (d_tree d) block hash seek upgrade) as [vp|e|s|];
        [|injection H as <- _ _; reflexivity..].
      destruct (vp_block vp) as [b|]; [|injection H as <- _ _; reflexivity].
      destruct (held (N.of_nat (length bs)) cl (dh_index b)); injection H as <- _ _; reflexivity.
    - rewrite (create_proof_run cr c d bs cl j ev block hash seek upgrade F) in H.
      destruct (create_valueless_proof (c_tree c) (d_tree d) block hash seek upgrade) as [vp|e|s|] eqn:E;
        [|injection H as _ <- <-; left; split; [discriminate|reflexivity]..].
      destruct (create_proof_no_fabrication _ _ _ _ _ _ _ E) as (_ & _ & Hblk & _).
      destruct (vp_block vp) as [b|]; [|injection H as _ <- <-; left; split; [discriminate|reflexivity]].
      destruct (Hblk b eq_refl) as (rb & -> & Hidx).
      destruct (held (N.of_nat (length bs)) cl (dh_index b)) eqn:Eh; injection H as _ <- <-.
      + left. split; [discriminate|reflexivity].
      + right. split; [reflexivity|]. exists rb. rewrite <- Hidx. split; [reflexivity|]. split; [exact Eh|reflexivity].
  Qed.

  (* missing_nodes on a writer state: every node below the length is stored, so nothing is missing; the index
     doubling [index * 2] is the crate's only failure (an arithmetic overflow, beyond 2^63) *)
  Theorem writer_missing_nodes c d bs cl j ev i :
    FInv cr c d bs cl ->
    core_missing_nodes i c (mkWorld d j ev) =
    (c, mkWorld d j ev, if fits_u64 (i * 2) then Ok 0 else Panic "index * 2").
  Proof.
    clear Hcrc Hhash32 Hnonblank Hhashbytes Hsig64 Hsigbytes.
    intros F. destruct (FInv_CInv cr c d bs cl F) as ((HL & _ & _ & _ & Hlook & _) & _).
    unfold core_missing_nodes. rewrite mbind_get_core, mbind_get_disk, mbind_lift. unfold mul64.
    destruct (fits_u64 (i * 2)); [|reflexivity]. unfold lift. cbn [w_disk]. f_equal.
    unfold missing_nodes. cbv zeta.
    assert (En : it_new (i * 2) = mkIter (i * 2) i 2).
    { unfold it_new. replace (N.odd (i * 2)) with false by (rewrite FlatTreeFacts.odd_mod; lia).
      f_equal. lia. }
    rewrite En. unfold it_right_span_index. cbn [it_index it_factor].
    destruct (N.leb_spec (2 * t_length (c_tree c)) (i * 2 + 2 / 2 - 1)) as [Hle|Hgt]; [reflexivity|].
    change CLIMB with (Datatypes.S 129). cbn [missing_loop]. unfold it_contains. cbn [it_index it_factor].
    assert (E1 : (i * 2 <? 2 * t_length (c_tree c)) = true) by lia. rewrite E1.
    assert (E2 : (2 * t_length (c_tree c) <? i * 2 + 2 / 2) = false) by lia. rewrite E2.
    assert (Hi : (i + 1) * p2 0 <= N.of_nat (length bs)) by (unfold p2; cbn; lia).
    pose proof (Hlook 0%nat i Hi) as Hr.
    replace (ft_index (N.of_nat 0) i) with (i * 2) in Hr.
    2:{ unfold ft_index. cbn. lia. }
    rewrite (required_optional _ _ _ _ Hr). reflexivity.
  Qed.

  (* ====================================================================================== *)
  (* F. Every concurrent run of a shared writer core over the extended calls                   *)
  (* ====================================================================================== *)

  (* the sequential semantics of a list of calls, by the Core.v operations themselves *)
  Fixpoint xrun (s : sstate) (cs : list xcall) : sstate * list xobs :=
    match cs with
    | [] => (s, [])
    | c :: cs' => let '(s1, r) := xstep cr c s in
                  let '(s2, rs) := xrun s1 cs' in (s2, r :: rs)
    end.

  Lemma xseq_run_eq cs : forall s, Shared.seq_run l0 body res s cs = xrun s cs.
  Proof.
    induction cs as [|a cs IH]; intros s; [reflexivity|].
    cbn [Shared.seq_run xrun]. rewrite Hatomic. destruct (xstep cr a s) as [s1 r]. rewrite IH. reflexivity.
  Qed.

  (* (a) SERIALIZABILITY over the extended call set.  Any number of tasks, any programs, EVERY schedule, any
     reachable configuration (also one in which a call is in progress): the results of the completed calls are
     those of the Core.v operations run one after the other in completion (= lock acquisition) order from the
     initial state, and -- whenever the lock is free -- the shared state is the state that run reaches. *)
  Theorem xshared_serializable progs cfg s0 :
    Shared.steps l0 body res (Shared.init s0 progs) cfg ->
    exists s1, xrun s0 (Shared.calls (Shared.log cfg)) = (s1, Shared.results (Shared.log cfg)) /\
               (Shared.holder cfg = None -> s1 = Shared.shared cfg).
  Proof.
    intros Hst. destruct (Shared.log_serial _ _ _ _ _ _ _ _ _ _ Hst) as [s1 H1].
    exists s1. split; [rewrite <- xseq_run_eq; exact H1|]. intros Hh.
    pose proof (Shared.serializable _ _ _ _ _ _ _ _ _ _ Hst Hh) as H2.
    unfold Shared.calls, Shared.call_of, Shared.results in *.
    rewrite H1 in H2. injection H2 as ->. reflexivity.
  Qed.

  (* blocks and bytes a call adds *)
  Definition xcblocks (c : xcall) : N := cblocks (xto_scall c).
  Definition xcbytes (c : xcall) : N := cbytes (xto_scall c).

  Lemma xuappended_blocks cs : N.of_nat (length (uappended (map xto_uop cs))) = sumN (map xcblocks cs).
  Proof. rewrite map_xto_uop, uappended_blocks, map_map. reflexivity. Qed.

  Lemma xuappended_bytes cs : sumN (map len (uappended (map xto_uop cs))) = sumN (map xcbytes cs).
  Proof. rewrite map_xto_uop, uappended_bytes, map_map. reflexivity. Qed.

  (* Schedule-independent hypotheses (as in SharedInst.v): each task's program, run alone, would be a well-formed
     history, and all programs together fit the u64 totals.  They imply the hypotheses on every serialization. *)
  Lemma xprogs_wf_log progs cfg s0 n0 :
    Shared.steps l0 body res (Shared.init s0 progs) cfg ->
    Forall (fun p => wf_u (map xto_uop p) n0) progs ->
    wf_u (map xto_uop (Shared.calls (Shared.log cfg))) n0.
  Proof.
    clear Hcrc Hhash32 Hnonblank Hhashbytes Hsig64 Hsigbytes Hatomic.
    intros Hst Hall. apply wf_u_nth. intros k f s e Hk.
    unfold Shared.calls in Hk. rewrite !nth_error_map in Hk.
    destruct (nth_error (Shared.log cfg) k) as [[[t c0] r]|] eqn:E; cbn [option_map] in Hk; [|discriminate].
    injection Hk as Hc. unfold Shared.call_of in Hc. cbn [fst snd] in Hc.
    destruct (log_entry_prefix _ _ _ _ _ _ _ _ _ _ Hst k t c0 r E) as [tl Ht].
    assert (Hin : In (nth t progs []) progs).
    { destruct (Nat.lt_ge_cases t (length progs)) as [Hlt|Hge]; [apply nth_In; exact Hlt|].
      rewrite nth_overflow in Ht by exact Hge. destruct (task_calls t (firstn k (Shared.log cfg))); discriminate. }
    pose proof (proj1 (Forall_forall _ _) Hall _ Hin) as Hw. rewrite Ht, map_app in Hw. cbn [map] in Hw.
    rewrite Hc in Hw.
    set (pre := map xto_uop (task_calls t (firstn k (Shared.log cfg)))) in *.
    pose proof (proj1 (wf_u_nth _ _) Hw (length pre) f s e) as X.
    rewrite nth_error_app2, Nat.sub_diag in X by lia. specialize (X eq_refl).
    rewrite firstn_app, Nat.sub_diag, firstn_all in X. cbn [firstn] in X. rewrite app_nil_r in X.
    destruct X as [X|[X1 X2]]; [left; exact X|right]. split; [|exact X2].
    unfold Shared.calls. rewrite !firstn_map. fold (Shared.calls (firstn k (Shared.log cfg))).
    unfold pre in X1. rewrite xuappended_blocks in *.
    assert (sumN (map xcblocks (task_calls t (firstn k (Shared.log cfg)))) <=
            sumN (map xcblocks (Shared.calls (firstn k (Shared.log cfg))))); [|lia].
    unfold task_calls, Shared.calls. rewrite !map_map. apply sumN_filter_le.
  Qed.

  Lemma xprogs_fit_log progs cfg s0 (bs : list bytes) :
    Shared.steps l0 body res (Shared.init s0 progs) cfg ->
    sumN (map len (bs ++ uappended (map xto_uop (concat progs)))) <= u64_max ->
    NODE_SIZE * (2 * N.of_nat (length (bs ++ uappended (map xto_uop (concat progs))))) <= u64_max ->
    sumN (map len (bs ++ uappended (map xto_uop (Shared.calls (Shared.log cfg))))) <= u64_max /\
    NODE_SIZE * (2 * N.of_nat (length (bs ++ uappended (map xto_uop (Shared.calls (Shared.log cfg)))))) <= u64_max.
  Proof.
    clear Hcrc Hhash32 Hnonblank Hhashbytes Hsig64 Hsigbytes Hatomic.
    intros Hst Hfit Hidx.
    pose proof (log_weight_le _ _ _ _ _ _ _ _ _ _ Hst xcbytes) as B1.
    pose proof (log_weight_le _ _ _ _ _ _ _ _ _ _ Hst xcblocks) as B2.
    rewrite map_app, TreeRef.sumN_app, xuappended_bytes in *.
    rewrite app_length, Nat2N.inj_add, xuappended_blocks in *.
    unfold NODE_SIZE in *. split; lia.
  Qed.

  (* The two possible outcomes of a serialization [cs] with results [rs] from model state (bs, cl).
     xmodel_end: the state [s1] reached satisfies the invariant for the model's final state and the key pair is
     the initial one (c0 = the initial core);  xframe_stop: some append hit the crate's 2^30 oplog-frame guard
     (nothing is claimed about later calls: the real task has panicked). *)
  Definition xmodel_end (c0 : core) (s1 : sstate) (cs : list xcall) (bs : list bytes) (cl : N -> bool) : Prop :=
    XInv (fst s1) (w_disk (snd s1)) (fst (ustate (map xto_uop cs) bs cl)) (snd (ustate (map xto_uop cs) bs cl)) /\
    c_keypair (fst s1) = c_keypair c0.
  Definition xframe_stop (cs : list xcall) (rs : list xobs) : Prop :=
    exists k f batch, nth_error cs k = Some (XOld (SAppend f batch)) /\ nth_error rs k = Some xframe_panic.

  (* MAIN THEOREM (state).  The state left by the last completed call -- the shared state itself whenever the lock
     is free -- satisfies the invariant for the serialized history; or an append hit the frame guard. *)
  Theorem xshared_unified progs cfg c d j ev bs cl :
    XInv c d bs cl -> kp_secret (c_keypair c) = Some sk ->
    Forall (fun p => wf_u (map xto_uop p) (N.of_nat (length bs))) progs ->
    sumN (map len (bs ++ uappended (map xto_uop (concat progs)))) <= u64_max ->
    NODE_SIZE * (2 * N.of_nat (length (bs ++ uappended (map xto_uop (concat progs))))) <= u64_max ->
    Shared.steps l0 body res (Shared.init (c, mkWorld d j ev) progs) cfg ->
    let cs := Shared.calls (Shared.log cfg) in
    exists s1, (Shared.holder cfg = None -> s1 = Shared.shared cfg) /\
      (xmodel_end c s1 cs bs cl \/ xframe_stop cs (Shared.results (Shared.log cfg))).
  Proof.
    intros X Hsk Hwf Hfit Hidx Hst cs.
    destruct (xprogs_fit_log progs cfg _ bs Hst Hfit Hidx) as [F1 F2].
    pose proof (xprogs_wf_log progs cfg _ _ Hst Hwf) as W.
    destruct (xshared_serializable _ _ _ Hst) as (s1 & Hrun & Hfree). rewrite <- xseq_run_eq in Hrun.
    exists s1. split; [exact Hfree|].
    exact (xseq_inv cs c d j ev bs cl s1 _ X Hsk W F1 F2 Hrun).
  Qed.

  (* all tasks have finished: every call of every program has completed exactly once, each task's completed calls
     are its program in program order, each task's outputs are its entries of the log, the lock is free and the
     shared state is the one described by the theorem above *)
  Theorem xshared_unified_finished progs cfg c d j ev bs cl :
    XInv c d bs cl -> kp_secret (c_keypair c) = Some sk ->
    Forall (fun p => wf_u (map xto_uop p) (N.of_nat (length bs))) progs ->
    sumN (map len (bs ++ uappended (map xto_uop (concat progs)))) <= u64_max ->
    NODE_SIZE * (2 * N.of_nat (length (bs ++ uappended (map xto_uop (concat progs))))) <= u64_max ->
    Shared.steps l0 body res (Shared.init (c, mkWorld d j ev) progs) cfg ->
    (forall tk, In tk (Shared.tasks cfg) -> Shared.st tk = Shared.Idle /\ Shared.prog tk = []) ->
    let cs := Shared.calls (Shared.log cfg) in
    length (Shared.log cfg) = list_sum (map (@length xcall) progs) /\
    (forall t, task_calls t (Shared.log cfg) = nth t progs []) /\
    (forall t tk, nth_error (Shared.tasks cfg) t = Some tk ->
       Shared.out tk = map snd (filter (fun e => Nat.eqb (fst (fst e)) t) (Shared.log cfg))) /\
    Shared.holder cfg = None /\
    (xmodel_end c (Shared.shared cfg) cs bs cl \/ xframe_stop cs (Shared.results (Shared.log cfg))).
  Proof.
    intros X Hsk Hwf Hfit Hidx Hst Hdone cs.
    destruct (Shared.finished_all_serial _ _ _ _ _ _ _ _ _ _ Hst Hdone) as (F1 & F2 & F3 & _).
    split; [exact F1|]. split; [exact F2|].
    split; [exact (Shared.results_match_log _ _ _ _ _ _ _ _ _ _ Hst)|]. split; [exact F3|].
    destruct (xshared_unified progs cfg c d j ev bs cl X Hsk Hwf Hfit Hidx Hst) as (s1 & Hs1 & Hout).
    rewrite (Hs1 F3) in Hout. exact Hout.
  Qed.

  (* ====================================================================================== *)
  (* G. What each call of a concurrent run returns                                            *)
  (* ====================================================================================== *)
  Section Run.
    Variables (progs : list (list xcall)) (cfg : Shared.config sstate L xobs xcall).
    Variables (c : core) (d : disk) (j : list sop) (ev : list event) (bs : list bytes) (cl : N -> bool).
    Hypothesis HX : XInv c d bs cl.
    Hypothesis Hsk : kp_secret (c_keypair c) = Some sk.
    Hypothesis Hwf : Forall (fun p => wf_u (map xto_uop p) (N.of_nat (length bs))) progs.
    Hypothesis Hfit : sumN (map len (bs ++ uappended (map xto_uop (concat progs)))) <= u64_max.
    Hypothesis Hidx : NODE_SIZE * (2 * N.of_nat (length (bs ++ uappended (map xto_uop (concat progs))))) <= u64_max.
    Hypothesis Hst : Shared.steps l0 body res (Shared.init (c, mkWorld d j ev) progs) cfg.

    (* the list-model state reached by the first i completed calls: blocks, cleared set *)
    Local Notation xblocks_at i := (xblocks_of (Shared.log cfg) bs i).
    Local Notation xcleared_at i := (xcleared_of (Shared.log cfg) bs cl i).

    (* THE STATE SEEN BY THE i-TH COMPLETED CALL.  It is the state (ci, di) that the Core.v operations of the i
       calls completed before it, run one after the other from the initial state, leave; it satisfies the
       invariant for the list-model state of that prefix; it has the initial key pair; and the result of the call
       is what its Core.v operation returns on it (unless an earlier append hit the frame guard). *)
    Theorem xshared_state_at i t call r :
      nth_error (Shared.log cfg) i = Some (t, call, r) ->
      (forall k, (k < i)%nat -> nth_error (Shared.results (Shared.log cfg)) k <> Some xframe_panic) ->
      exists ci di ji evi,
        XInv ci di (xblocks_at i) (xcleared_at i) /\
        c_keypair ci = c_keypair c /\
        xrun (c, mkWorld d j ev) (firstn i (Shared.calls (Shared.log cfg))) =
          ((ci, mkWorld di ji evi), firstn i (Shared.results (Shared.log cfg))) /\
        r = snd (xstep cr call (ci, mkWorld di ji evi)) /\
        wf_u [xto_uop call] (N.of_nat (length (xblocks_at i))) /\
        sumN (map len (xblocks_at i ++ uappended [xto_uop call])) <= u64_max /\
        NODE_SIZE * (2 * N.of_nat (length (xblocks_at i ++ uappended [xto_uop call]))) <= u64_max.
    Proof.
      intros Hi Hno.
      destruct (xprogs_fit_log progs cfg _ bs Hst Hfit Hidx) as [F1 F2].
      pose proof (xprogs_wf_log progs cfg _ _ Hst Hwf) as W.
      destruct (xshared_serializable _ _ _ Hst) as (s1 & Hrun & _). rewrite <- xseq_run_eq in Hrun.
      assert (Hc : nth_error (Shared.calls (Shared.log cfg)) i = Some call).
      { unfold Shared.calls. rewrite (map_nth_error _ _ _ Hi). reflexivity. }
      assert (Hr : nth_error (Shared.results (Shared.log cfg)) i = Some r).
      { unfold Shared.results. rewrite (map_nth_error _ _ _ Hi). reflexivity. }
      destruct (xseq_at _ c d j ev bs cl s1 _ HX Hsk W F1 F2 Hrun i call r Hc Hr Hno)
        as (ci & di & ji & evi & Xi & Ki & Ri & Er & Wi).
      cbv zeta in Xi, Wi. rewrite firstn_map in Xi, Wi. rewrite ustate_blocks in Xi, Wi.
      rewrite xseq_run_eq in Ri.
      exists ci, di, ji, evi. split; [exact Xi|]. split; [exact Ki|]. split; [exact Ri|]. split; [exact Er|exact Wi].
    Qed.

    (* ---------- (b) the old calls: the results of SharedInst.v in the presence of the new calls ---------- *)

    (* the i-th completed call, if it is an old call, returns what the list model prescribes in the model state
       reached by the i calls completed before it (unless an earlier call, or this append itself, hit the frame
       guard) *)
    Theorem xshared_obs_at i t c0 r :
      nth_error (Shared.log cfg) i = Some (t, XOld c0, r) ->
      (forall k, (k < i)%nat -> nth_error (Shared.results (Shared.log cfg)) k <> Some xframe_panic) ->
      r = XOOld (uobs_of (to_uop c0) (xblocks_at i) (xcleared_at i)) \/
      (r = xframe_panic /\ exists f batch, c0 = SAppend f batch).
    Proof.
      intros Hi Hno.
      destruct (xshared_state_at i t _ r Hi Hno) as (ci & di & ji & evi & Xi & Ki & _ & Er & W1 & F1 & I1).
      rewrite <- Ki in Hsk.
      destruct (xstep cr (XOld c0) (ci, mkWorld di ji evi)) as [s' o] eqn:E. cbn [snd] in Er. subst o.
      destruct (xstep_XInv (XOld c0) ci di ji evi _ _ s' r Xi Hsk W1 F1 I1 E)
        as [(-> & f & batch & [= ->])|(_ & _ & Ho & _)].
      - right. split; [reflexivity|]. exists f, batch. reflexivity.
      - left. apply Ho. reflexivity.
    Qed.

    (* append outcomes: the i-th completed call, if it is an append, returns the initial length plus the sizes of
       the batches of the appends completed before it plus its own -- a gap-free increasing sequence, whatever
       create_proof / missing_nodes / key_pair calls are interleaved *)
    Theorem xshared_append_outcome i t f batch r :
      nth_error (Shared.log cfg) i = Some (t, XOld (SAppend f batch), r) ->
      (forall k, (k < i)%nat -> nth_error (Shared.results (Shared.log cfg)) k <> Some xframe_panic) ->
      let before := firstn i (Shared.calls (Shared.log cfg)) in
      r = XOOld (UOAppend (Ok (N.of_nat (length bs) + sumN (map xcblocks before) + N.of_nat (length batch),
                               sumN (map len bs) + sumN (map xcbytes before) + sumN (map len batch)))) \/
      r = xframe_panic.
    Proof.
      intros Hi Hno before.
      destruct (xshared_obs_at i t _ r Hi Hno) as [->|[-> _]]; [left|right; reflexivity].
      cbn [to_uop uobs_of]. unfold xblocks_of. fold before.
      rewrite !app_length, !Nat2N.inj_add, xuappended_blocks, !map_app, !TreeRef.sumN_app, xuappended_bytes.
      reflexivity.
    Qed.

    (* reads: get idx returns the block the serialization put at idx, or None if idx is cleared or not yet
       appended AT THIS POINT of the serialization; has and info likewise follow the model state *)
    Theorem xshared_get_outcome i t idx r :
      nth_error (Shared.log cfg) i = Some (t, XOld (SGet idx), r) ->
      (forall k, (k < i)%nat -> nth_error (Shared.results (Shared.log cfg)) k <> Some xframe_panic) ->
      r = XOOld (UOGet (Ok (if held (N.of_nat (length (xblocks_at i))) (xcleared_at i) idx
                            then Some (nth (N.to_nat idx) (xblocks_at i) []) else None))).
    Proof.
      intros Hi Hno.
      destruct (xshared_obs_at i t _ r Hi Hno) as [->|[_ (f & batch & X)]]; [reflexivity|discriminate X].
    Qed.

    Theorem xshared_has_outcome i t idx r :
      nth_error (Shared.log cfg) i = Some (t, XOld (SHas idx), r) ->
      (forall k, (k < i)%nat -> nth_error (Shared.results (Shared.log cfg)) k <> Some xframe_panic) ->
      r = XOOld (UOHas (held (N.of_nat (length (xblocks_at i))) (xcleared_at i) idx)).
    Proof.
      intros Hi Hno.
      destruct (xshared_obs_at i t _ r Hi Hno) as [->|[_ (f & batch & X)]]; [reflexivity|discriminate X].
    Qed.

    Theorem xshared_info_outcome i t r :
      nth_error (Shared.log cfg) i = Some (t, XOld SInfo, r) ->
      (forall k, (k < i)%nat -> nth_error (Shared.results (Shared.log cfg)) k <> Some xframe_panic) ->
      r = XOOld (UOInfo (mkInfo (N.of_nat (length (xblocks_at i))) (sumN (map len (xblocks_at i)))
                                (spec_contig (xblocks_at i) (xcleared_at i)) 0 true)).
    Proof.
      intros Hi Hno.
      destruct (xshared_obs_at i t _ r Hi Hno) as [->|[_ (f & batch & X)]]; [reflexivity|discriminate X].
    Qed.

    (* afterwards: when the lock is free and no call hit the frame guard, the blocks of every completed append are
       in the shared core at the indices implied by its outcome (n = the returned length): has says true and get
       returns the block, unless a clear completed later covers the index -- whatever new calls are interleaved *)
    Theorem xshared_blocks_readable i t f batch n b k :
      Shared.holder cfg = None ->
      ~ In xframe_panic (Shared.results (Shared.log cfg)) ->
      nth_error (Shared.log cfg) i = Some (t, XOld (SAppend f batch), XOOld (UOAppend (Ok (n, b)))) ->
      (k < length batch)%nat ->
      let idx := n - N.of_nat (length batch) + N.of_nat k in
      covers (map xto_uop (skipn (Datatypes.S i) (Shared.calls (Shared.log cfg)))) idx = false ->
      let cF := fst (Shared.shared cfg) in
      let dF := w_disk (snd (Shared.shared cfg)) in
      core_has cF idx = true /\
      forall j' ev', core_get idx cF (mkWorld dF j' ev') = (cF, mkWorld dF j' ev', Ok (Some (nth k batch []))).
    Proof.
      intros Hfree Hnp Hi Hk idx Hcov cF dF.
      destruct (xshared_unified progs cfg c d j ev bs cl HX Hsk Hwf Hfit Hidx Hst) as (s1 & Hs1 & Hout).
      rewrite (Hs1 Hfree) in Hout.
      destruct Hout as [([DF _] & _)|(k0 & f0 & b0 & _ & Hp)];
        [|exfalso; apply Hnp; exact (nth_error_In _ _ Hp)].
      fold cF dF in DF.
      destruct (nth_error_split _ _ Hi) as (l1 & l2 & Hl & Hlen).
      set (ops1 := map xto_uop (Shared.calls l1)).
      set (ops2 := map xto_uop (Shared.calls l2)).
      assert (Hcs : Shared.calls (Shared.log cfg) = Shared.calls l1 ++ XOld (SAppend f batch) :: Shared.calls l2).
      { rewrite Hl. unfold Shared.calls. rewrite map_app. reflexivity. }
      assert (Hops : map xto_uop (Shared.calls (Shared.log cfg)) = ops1 ++ UAppend f batch :: ops2).
      { rewrite Hcs, map_app. reflexivity. }
      assert (Hl1 : length (Shared.calls l1) = i) by (unfold Shared.calls; rewrite map_length; exact Hlen).
      (* the returned length *)
      assert (Hn : n = N.of_nat (length ((bs ++ uappended ops1) ++ batch))).
      { assert (Hno : forall k1, (k1 < i)%nat -> nth_error (Shared.results (Shared.log cfg)) k1 <> Some xframe_panic).
        { intros k1 _ Hk1. apply Hnp. exact (nth_error_In _ _ Hk1). }
        destruct (xshared_obs_at i t _ _ Hi Hno) as [Hr|[Hr _]]; [|discriminate Hr].
        cbn [to_uop uobs_of] in Hr. injection Hr as Hr _. rewrite Hr. unfold xblocks_of.
        rewrite Hcs, firstn_split by exact Hl1. reflexivity. }
      assert (Hidx' : idx = N.of_nat (length (bs ++ uappended ops1)) + N.of_nat k).
      { unfold idx. rewrite Hn, app_length. lia. }
      rewrite Hcs, skipn_split in Hcov by exact Hl1. fold ops2 in Hcov.
      rewrite Hops in DF.
      destruct (ustate_appended ops1 f batch ops2 bs cl k Hk) as [Hnth Hheld].
      cbv zeta in Hnth, Hheld. rewrite <- Hidx' in Hnth, Hheld. rewrite Hcov in Hheld. cbn [negb] in Hheld.
      split.
      - rewrite (has_correct_U cr cF dF _ _ idx DF). exact Hheld.
      - intros j' ev'. rewrite (get_correct_U cr cF dF _ _ j' ev' idx DF), Hheld, Hnth. reflexivity.
    Qed.

    (* ---------- (c) the new calls ---------- *)

    (* create_proof: the i-th completed call, if it is create_proof, returns the honest proof of the list-model
       state reached by the i calls completed before it: every node is the reference node of the blocks appended
       so far, a block section carries the model's block and exists only for a block that is held at this point of
       the serialization (a block cleared, or not yet appended, at this point yields no proof, never a wrong one),
       an upgrade section carries the writer's signature over the reference roots of all blocks appended so far.
       The result is, moreover, the one of the sequential execution. *)
    Theorem xshared_create_proof_outcome i t block hash seek upgrade r :
      nth_error (Shared.log cfg) i = Some (t, SCreateProof block hash seek upgrade, r) ->
      (forall k, (k < i)%nat -> nth_error (Shared.results (Shared.log cfg)) k <> Some xframe_panic) ->
      exists ci di ji evi r0,
        r = XOProof r0 /\
        xrun (c, mkWorld d j ev) (firstn i (Shared.calls (Shared.log cfg))) =
          ((ci, mkWorld di ji evi), firstn i (Shared.results (Shared.log cfg))) /\
        XInv ci di (xblocks_at i) (xcleared_at i) /\
        r0 = snd (core_create_proof block hash seek upgrade ci (mkWorld di ji evi)) /\
        proof_honest (xblocks_at i) (xcleared_at i) block upgrade r0 /\
        (* Ok None = the requested block is not held at this point; exactly then one EvGet is sent *)
        (r0 = Ok None ->
           exists rb, block = Some rb /\
             held (N.of_nat (length (xblocks_at i))) (xcleared_at i) (rb_index rb) = false /\
             xnew_events (SCreateProof block hash seek upgrade) (ci, mkWorld di ji evi) = [EvGet (rb_index rb)]) /\
        (r0 <> Ok None ->
           xnew_events (SCreateProof block hash seek upgrade) (ci, mkWorld di ji evi) = []).
    Proof.
      intros Hi Hno.
      destruct (xshared_state_at i t _ r Hi Hno) as (ci & di & ji & evi & Xi & Ki & Ri & Er & _).
      cbn [xstep fst snd] in Er.
      destruct (core_create_proof block hash seek upgrade ci (mkWorld di ji evi)) as [[c' w'] r0] eqn:E.
      cbn [snd] in Er.
      exists ci, di, ji, evi, r0. split; [exact Er|]. split; [exact Ri|]. split; [exact Xi|].
      split; [rewrite E; reflexivity|].
      destruct (writer_create_proof ci di _ _ ji evi block hash seek upgrade c' w' r0 Xi E) as (_ & Hev & Hhon).
      split; [exact Hhon|].
      destruct (create_proof_events block hash seek upgrade _ _ _ _ _ E) as (Ev & _).
      cbn [xnew_events fst snd]. cbn [w_events] in Ev.
      assert (Hnil : forall l : list event, l ++ evi = evi -> l = []).
      { intros l Hl. apply (f_equal (@length event)) in Hl. rewrite app_length in Hl.
        destruct l; [reflexivity|cbn [length] in Hl; lia]. }
      split.
      - intros Hr0. destruct Hev as [[Hne _]|(_ & rb & Hb & Hh & Hw)]; [exfalso; exact (Hne Hr0)|].
        exists rb. split; [exact Hb|]. split; [exact Hh|].
        rewrite Hw in Ev. cbn [w_events] in Ev.
        destruct (proof_missing_block block hash seek upgrade ci (mkWorld di ji evi)) as [i0|];
          cbn [app] in Ev; [injection Ev as ->; reflexivity|].
        exfalso. apply (f_equal (@length event)) in Ev. cbn [length] in Ev. lia.
      - intros Hr0. destruct Hev as [[_ Hw]|(Hr1 & _)]; [|exfalso; exact (Hr0 Hr1)].
        rewrite Hw in Ev. cbn [w_events] in Ev. symmetry in Ev. exact (Hnil _ Ev).
    Qed.

    (* missing_nodes: on a writer nothing is ever missing (the doubling of the index is the only failure) *)
    Theorem xshared_missing_nodes_outcome i t index r :
      nth_error (Shared.log cfg) i = Some (t, SMissingNodes index, r) ->
      (forall k, (k < i)%nat -> nth_error (Shared.results (Shared.log cfg)) k <> Some xframe_panic) ->
      r = XOMissing (if fits_u64 (index * 2) then Ok 0 else Panic "index * 2").
    Proof.
      intros Hi Hno.
      destruct (xshared_state_at i t _ r Hi Hno) as (ci & di & ji & evi & [Fi _] & _ & _ & Er & _).
      cbn [xstep fst snd] in Er. rewrite (writer_missing_nodes ci di _ _ ji evi index Fi) in Er. exact Er.
    Qed.

    (* key_pair: always the key pair the core was shared with *)
    Theorem xshared_key_pair_outcome i t r :
      nth_error (Shared.log cfg) i = Some (t, SKeyPair, r) ->
      (forall k, (k < i)%nat -> nth_error (Shared.results (Shared.log cfg)) k <> Some xframe_panic) ->
      r = XOKeyPair (c_keypair c).
    Proof.
      intros Hi Hno.
      destruct (xshared_state_at i t _ r Hi Hno) as (ci & di & ji & evi & _ & Ki & _ & Er & _).
      cbn [xstep fst snd] in Er. rewrite Ki in Er. exact Er.
    Qed.
  End Run.

  (* The new calls change neither the core nor the disk nor the journal in ANY concurrent run (no invariant
     needed): the state after the i-th completed call, if it is a new call, is the state before it, up to the
     events listed by xnew_events (at most one EvGet, of create_proof). *)
  Theorem xshared_new_call_frame progs cfg s0 i t call r :
    Shared.steps l0 body res (Shared.init s0 progs) cfg ->
    nth_error (Shared.log cfg) i = Some (t, call, r) -> xnew call = true ->
    exists si si',
      xrun s0 (firstn i (Shared.calls (Shared.log cfg))) = (si, firstn i (Shared.results (Shared.log cfg))) /\
      xrun s0 (firstn (Datatypes.S i) (Shared.calls (Shared.log cfg))) =
        (si', firstn (Datatypes.S i) (Shared.results (Shared.log cfg))) /\
      r = snd (xstep cr call si) /\
      fst si' = fst si /\ w_disk (snd si') = w_disk (snd si) /\ w_journal (snd si') = w_journal (snd si) /\
      w_events (snd si') = xnew_events call si ++ w_events (snd si).
  Proof.
    clear Hcrc Hhash32 Hnonblank Hhashbytes Hsig64 Hsigbytes.
    intros Hst Hi Hn.
    destruct (xshared_serializable _ _ _ Hst) as (s1 & Hrun & _). rewrite <- xseq_run_eq in Hrun.
    assert (Hc : nth_error (Shared.calls (Shared.log cfg)) i = Some call).
    { unfold Shared.calls. rewrite (map_nth_error _ _ _ Hi). reflexivity. }
    assert (Hr : nth_error (Shared.results (Shared.log cfg)) i = Some r).
    { unfold Shared.results. rewrite (map_nth_error _ _ _ Hi). reflexivity. }
    destruct (seq_run_at _ _ _ _ _ _ _ _ _ _ _ _ _ Hrun Hc) as (si & Ri & Ei).
    rewrite Hatomic, Hr in Ei. injection Ei as Ei.
    destruct (xstep cr call si) as [si' o] eqn:E. cbn [snd] in Ei. subst o.
    exists si, si'. rewrite <- !xseq_run_eq. split; [exact Ri|].
    destruct (xstep_new_frame cr call si si' r Hn E) as (A & B & C & D).
    split; [|split; [rewrite E; reflexivity|split; [exact A|split; [exact B|split; [exact C|exact D]]]]].
    destruct (nth_error_split _ _ Hc) as (a1 & a2 & Hs & Hl).
    assert (F1 : firstn (Datatypes.S i) (Shared.calls (Shared.log cfg)) = firstn i (Shared.calls (Shared.log cfg)) ++ [call]).
    { rewrite Hs, <- Hl. rewrite firstn_app, firstn_all2 by lia.
      replace (Datatypes.S (length a1) - length a1)%nat with 1%nat by lia.
      rewrite firstn_app, Nat.sub_diag, firstn_all. cbn [firstn]. rewrite app_nil_r. reflexivity. }
    destruct (nth_error_split _ _ Hr) as (b1 & b2 & Hs' & Hl').
    assert (F2 : firstn (Datatypes.S i) (Shared.results (Shared.log cfg)) = firstn i (Shared.results (Shared.log cfg)) ++ [r]).
    { rewrite Hs', <- Hl'. rewrite firstn_app, firstn_all2 by lia.
      replace (Datatypes.S (length b1) - length b1)%nat with 1%nat by lia.
      rewrite firstn_app, Nat.sub_diag, firstn_all. cbn [firstn]. rewrite app_nil_r. reflexivity. }
    rewrite F1, F2, (Shared.seq_run_snoc _ _ _ _ _ _ _ _ _ _ _ _ Ri), Hatomic, E. reflexivity.
  Qed.

  (* the same with the ghost clock of Shared.v: the serialization order used above respects real time -- a call
     that finished before another one started precedes it in the completion log *)
  Theorem xshared_unified_realtime progs cfg k c d j ev bs cl :
    XInv c d bs cl -> kp_secret (c_keypair c) = Some sk ->
    Forall (fun p => wf_u (map xto_uop p) (N.of_nat (length bs))) progs ->
    sumN (map len (bs ++ uappended (map xto_uop (concat progs)))) <= u64_max ->
    NODE_SIZE * (2 * N.of_nat (length (bs ++ uappended (map xto_uop (concat progs))))) <= u64_max ->
    Shared.stepsT l0 body res (Shared.initT (c, mkWorld d j ev) progs) (cfg, k) ->
    let cs := Shared.calls (Shared.log cfg) in
    map fst (Shared.tlog k) = Shared.log cfg /\
    (forall i1 i2 a b, nth_error (Shared.tlog k) i1 = Some a -> nth_error (Shared.tlog k) i2 = Some b ->
       (Shared.fin a < Shared.sta b)%nat -> (i1 < i2)%nat) /\
    exists s1, (Shared.holder cfg = None -> s1 = Shared.shared cfg) /\
      (xmodel_end c s1 cs bs cl \/ xframe_stop cs (Shared.results (Shared.log cfg))).
  Proof.
    intros X Hsk Hwf Hfit Hidx HstT cs.
    destruct (Shared.realtime_respected _ _ _ _ _ _ _ _ _ _ _ HstT) as [R1 R2].
    split; [exact R1|]. split; [exact R2|].
    exact (xshared_unified progs cfg c d j ev bs cl X Hsk Hwf Hfit Hidx
             (Shared.timed_reachable_erase _ _ _ _ _ _ _ _ _ _ _ HstT)).
  Qed.
End XSeq.

(* ====================================================================================== *)
(* H. Instance 1: one micro-step per call                                                  *)
(* ====================================================================================== *)

(* the local state of a method body is the observation to return; the placeholder it starts with is overwritten
   by the single micro-step, which runs the whole Core.v operation under the lock *)
Definition xone_l0 (c : xcall) : xobs := XOOld (UOHas false).
Definition xone_body (cr : crypto) (c : xcall) : list (sstate * xobs -> sstate * xobs) :=
  [fun x => xstep cr c (fst x)].
Definition xone_res (c : xcall) (l : xobs) : xobs := l.

Lemma xone_atomic cr c s : Shared.atomic xone_l0 (xone_body cr) xone_res c s = xstep cr c s.
Proof.
  unfold Shared.atomic, xone_body, xone_res. cbn [fold_left fst]. destruct (xstep cr c s) as [s' o]. reflexivity.
Qed.

(* ====================================================================================== *)
(* I. Instance 2: append split at its storage operations, create_proof at its await points *)
(* ====================================================================================== *)

(* An append is the six micro-steps of SharedInst.split_body.  create_proof is two micro-steps, between which the
   scheduler may run other tasks (which cannot take the lock):
     1 valueless   build the valueless proof from the tree and the tree store        (reads only)
     2 value       read the block of the block section through get                   (may send EvGet)
   The other calls are one micro-step. *)
Inductive xlocal :=
| XLOld (l : slocal)                 (* an old call: the local state of SharedInst.split_body *)
| XLStart                            (* a new call that has not begun *)
| XLVp (vp : vproof)                 (* create_proof: the valueless proof has been built *)
| XLDone (o : xobs).

Definition lift_old (f : sstate * slocal -> sstate * slocal) (x : sstate * xlocal) : sstate * xlocal :=
  match snd x with
  | XLOld l => (fst (f (fst x, l)), XLOld (snd (f (fst x, l))))
  | _ => x
  end.

Definition cp_valueless (b h : option req_block) (k : option req_seek) (u : option req_upgrade)
           (x : sstate * xlocal) : sstate * xlocal :=
  match snd x with
  | XLStart =>
      match create_valueless_proof (c_tree (fst (fst x))) (d_tree (w_disk (snd (fst x)))) b h k u with
      | Ok vp => (fst x, XLVp vp)
      | Err e => (fst x, XLDone (XOProof (Err e)))
      | Panic s => (fst x, XLDone (XOProof (Panic s)))
      | OutOfFuel => (fst x, XLDone (XOProof OutOfFuel))
      end
  | _ => x
  end.

Definition cp_value (x : sstate * xlocal) : sstate * xlocal :=
  match snd x with
  | XLVp vp =>
      match vp_block vp with
      | Some b =>
          match core_get (dh_index b) (fst (fst x)) (snd (fst x)) with
          | (c', w', Ok None) => ((c', w'), XLDone (XOProof (Ok None)))
          | (c', w', Ok (Some value)) =>
              ((c', w'), XLDone (XOProof (Ok (Some (mkProof (vp_fork vp)
                                                     (Some (mkDataBlock (dh_index b) value (dh_nodes b)))
                                                     (vp_hash vp) (vp_seek vp) (vp_upgrade vp))))))
          | (c', w', Err e) => ((c', w'), XLDone (XOProof (Err e)))
          | (c', w', Panic s) => ((c', w'), XLDone (XOProof (Panic s)))
          | (c', w', OutOfFuel) => ((c', w'), XLDone (XOProof OutOfFuel))
          end
      | None => (fst x, XLDone (XOProof (Ok (Some (mkProof (vp_fork vp) None (vp_hash vp) (vp_seek vp)
                                                     (vp_upgrade vp))))))
      end
  | _ => x
  end.

Definition xsplit_l0 (c : xcall) : xlocal :=
  match c with XOld c0 => XLOld (split_l0 c0) | _ => XLStart end.
Definition xsplit_body (cr : crypto) (c : xcall) : list (sstate * xlocal -> sstate * xlocal) :=
  match c with
  | XOld c0 => map lift_old (split_body cr c0)
  | SCreateProof b h k u => [cp_valueless b h k u; cp_value]
  | _ => [fun x => (fst (xstep cr c (fst x)), XLDone (snd (xstep cr c (fst x))))]
  end.
Definition xsplit_res (c : xcall) (l : xlocal) : xobs :=
  match l with
  | XLOld l1 => XOOld (split_res (xto_scall c) l1)
  | XLDone o => o
  | _ => XOOld (UOHas false)
  end.

Lemma fold_lift_old fs : forall s l,
  fold_left (fun x f => f x) (map lift_old fs) (s, XLOld l) =
  (fst (fold_left (fun x f => f x) fs (s, l)), XLOld (snd (fold_left (fun x f => f x) fs (s, l)))).
Proof.
  induction fs as [|f fs IH]; intros s l; [reflexivity|].
  cbn [map fold_left]. unfold lift_old at 2. cbn [fst snd].
  destruct (f (s, l)) as [s1 l1]. cbn [fst snd]. apply IH.
Qed.

(* the micro-steps, run without interruption, are the Core.v operation *)
Lemma xsplit_atomic cr c s : Shared.atomic xsplit_l0 (xsplit_body cr) xsplit_res c s = xstep cr c s.
Proof.
  destruct c as [c0|b h k u|i| ].
  - pose proof (split_atomic cr c0 s) as Ha. unfold Shared.atomic in *.
    cbn [xsplit_body xsplit_l0 xstep]. rewrite fold_lift_old.
    destruct (fold_left (fun x f => f x) (split_body cr c0) (s, split_l0 c0)) as [s' l'].
    cbn [fst snd xsplit_res xto_scall]. rewrite <- Ha. reflexivity.
  - destruct s as [c w]. unfold Shared.atomic. cbn [xsplit_body xsplit_l0 xstep fold_left fst snd].
    unfold core_create_proof. rewrite mbind_get_core, mbind_get_disk, mbind_lift.
    unfold cp_valueless at 1. cbn [fst snd].
    destruct (create_valueless_proof (c_tree c) (d_tree (w_disk w)) b h k u) as [vp|e|m|]; try reflexivity.
    unfold cp_value. cbn [fst snd].
    destruct (vp_block vp) as [blk|]; [|reflexivity].
    unfold mbind. destruct (core_get (dh_index blk) c w) as [[c' w'] [[v|]|e|m|]]; reflexivity.
  - unfold Shared.atomic. cbn [xsplit_body xsplit_l0 fold_left fst snd xsplit_res].
    destruct (xstep cr (SMissingNodes i) s) as [s' o]. reflexivity.
  - unfold Shared.atomic. cbn [xsplit_body xsplit_l0 fold_left fst snd xsplit_res].
    destruct (xstep cr SKeyPair s) as [s' o]. reflexivity.
Qed.

(* ====================================================================================== *)
(* J. The theorems for the split instance (the one-step instance: replace xsplit by xone)    *)
(* ====================================================================================== *)

Section Instances.
  Variable cr : crypto.
  Variable sk : bytes.
  Hypothesis Hcrc : crc_ok cr.
  Hypothesis Hhash32 : forall x, length (cr_hash cr x) = 32%nat.
  Hypothesis Hnonblank : forall x, all_zero (cr_hash cr x) = false.
  Hypothesis Hhashbytes : forall x, bytes_ok (cr_hash cr x) = true.
  Hypothesis Hsig64 : forall k m, length (cr_sign cr k m) = 64%nat.
  Hypothesis Hsigbytes : forall k m, bytes_ok (cr_sign cr k m) = true.

  Variables (progs : list (list xcall)).
  Variables (c : core) (d : disk) (j : list sop) (ev : list event) (bs : list bytes) (cl : N -> bool).
  Hypothesis HX : XInv cr sk c d bs cl.
  Hypothesis Hsk : kp_secret (c_keypair c) = Some sk.
  Hypothesis Hwf : Forall (fun p => wf_u (map xto_uop p) (N.of_nat (length bs))) progs.
  Hypothesis Hfit : sumN (map len (bs ++ uappended (map xto_uop (concat progs)))) <= u64_max.
  Hypothesis Hidx : NODE_SIZE * (2 * N.of_nat (length (bs ++ uappended (map xto_uop (concat progs))))) <= u64_max.

  Local Notation s0 := (c, mkWorld d j ev).
  Local Notation xsteps := (Shared.steps xsplit_l0 (xsplit_body cr) xsplit_res).
  Local Notation no_panic_before cfg i :=
    (forall k, (k < i)%nat -> nth_error (Shared.results (Shared.log cfg)) k <> Some xframe_panic).

  Theorem xcore_split_serializable cfg :
    xsteps (Shared.init s0 progs) cfg ->
    exists s1, xrun cr s0 (Shared.calls (Shared.log cfg)) = (s1, Shared.results (Shared.log cfg)) /\
               (Shared.holder cfg = None -> s1 = Shared.shared cfg).
  Proof. exact (xshared_serializable cr _ _ _ _ (xsplit_atomic cr) progs cfg s0). Qed.

  Theorem xcore_one_serializable cfg :
    Shared.steps xone_l0 (xone_body cr) xone_res (Shared.init s0 progs) cfg ->
    exists s1, xrun cr s0 (Shared.calls (Shared.log cfg)) = (s1, Shared.results (Shared.log cfg)) /\
               (Shared.holder cfg = None -> s1 = Shared.shared cfg).
  Proof. exact (xshared_serializable cr _ _ _ _ (xone_atomic cr) progs cfg s0). Qed.

  Theorem xcore_split_unified cfg :
    xsteps (Shared.init s0 progs) cfg ->
    let cs := Shared.calls (Shared.log cfg) in
    exists s1, (Shared.holder cfg = None -> s1 = Shared.shared cfg) /\
      (xmodel_end cr sk c s1 cs bs cl \/ xframe_stop cs (Shared.results (Shared.log cfg))).
  Proof.
    exact (xshared_unified cr sk Hcrc Hhash32 Hnonblank Hhashbytes Hsig64 Hsigbytes _ _ _ _ (xsplit_atomic cr)
             progs cfg c d j ev bs cl HX Hsk Hwf Hfit Hidx).
  Qed.

  Theorem xcore_split_finished cfg :
    xsteps (Shared.init s0 progs) cfg ->
    (forall tk, In tk (Shared.tasks cfg) -> Shared.st tk = Shared.Idle /\ Shared.prog tk = []) ->
    let cs := Shared.calls (Shared.log cfg) in
    length (Shared.log cfg) = list_sum (map (@length xcall) progs) /\
    (forall t, task_calls t (Shared.log cfg) = nth t progs []) /\
    (forall t tk, nth_error (Shared.tasks cfg) t = Some tk ->
       Shared.out tk = map snd (filter (fun e => Nat.eqb (fst (fst e)) t) (Shared.log cfg))) /\
    Shared.holder cfg = None /\
    (xmodel_end cr sk c (Shared.shared cfg) cs bs cl \/ xframe_stop cs (Shared.results (Shared.log cfg))).
  Proof.
    exact (xshared_unified_finished cr sk Hcrc Hhash32 Hnonblank Hhashbytes Hsig64 Hsigbytes _ _ _ _
             (xsplit_atomic cr) progs cfg c d j ev bs cl HX Hsk Hwf Hfit Hidx).
  Qed.

  Theorem xcore_split_append_outcome cfg i t f batch r :
    xsteps (Shared.init s0 progs) cfg ->
    nth_error (Shared.log cfg) i = Some (t, XOld (SAppend f batch), r) -> no_panic_before cfg i ->
    let before := firstn i (Shared.calls (Shared.log cfg)) in
    r = XOOld (UOAppend (Ok (N.of_nat (length bs) + sumN (map xcblocks before) + N.of_nat (length batch),
                             sumN (map len bs) + sumN (map xcbytes before) + sumN (map len batch)))) \/
    r = xframe_panic.
  Proof.
    intros Hst.
    exact (xshared_append_outcome cr sk Hcrc Hhash32 Hnonblank Hhashbytes Hsig64 Hsigbytes _ _ _ _
             (xsplit_atomic cr) progs cfg c d j ev bs cl HX Hsk Hwf Hfit Hidx Hst i t f batch r).
  Qed.

  Theorem xcore_split_get_outcome cfg i t idx r :
    xsteps (Shared.init s0 progs) cfg ->
    nth_error (Shared.log cfg) i = Some (t, XOld (SGet idx), r) -> no_panic_before cfg i ->
    let bs_i := xblocks_of (Shared.log cfg) bs i in
    r = XOOld (UOGet (Ok (if held (N.of_nat (length bs_i)) (xcleared_of (Shared.log cfg) bs cl i) idx
                          then Some (nth (N.to_nat idx) bs_i []) else None))).
  Proof.
    intros Hst.
    exact (xshared_get_outcome cr sk Hcrc Hhash32 Hnonblank Hhashbytes Hsig64 Hsigbytes _ _ _ _
             (xsplit_atomic cr) progs cfg c d j ev bs cl HX Hsk Hwf Hfit Hidx Hst i t idx r).
  Qed.

  Theorem xcore_split_blocks_readable cfg i t f batch n b k :
    xsteps (Shared.init s0 progs) cfg ->
    Shared.holder cfg = None ->
    ~ In xframe_panic (Shared.results (Shared.log cfg)) ->
    nth_error (Shared.log cfg) i = Some (t, XOld (SAppend f batch), XOOld (UOAppend (Ok (n, b)))) ->
    (k < length batch)%nat ->
    let idx := n - N.of_nat (length batch) + N.of_nat k in
    covers (map xto_uop (skipn (Datatypes.S i) (Shared.calls (Shared.log cfg)))) idx = false ->
    let cF := fst (Shared.shared cfg) in
    let dF := w_disk (snd (Shared.shared cfg)) in
    core_has cF idx = true /\
    forall j' ev', core_get idx cF (mkWorld dF j' ev') = (cF, mkWorld dF j' ev', Ok (Some (nth k batch []))).
  Proof.
    intros Hst.
    exact (xshared_blocks_readable cr sk Hcrc Hhash32 Hnonblank Hhashbytes Hsig64 Hsigbytes _ _ _ _
             (xsplit_atomic cr) progs cfg c d j ev bs cl HX Hsk Hwf Hfit Hidx Hst i t f batch n b k).
  Qed.

  Theorem xcore_split_create_proof_outcome cfg i t block hash seek upgrade r :
    xsteps (Shared.init s0 progs) cfg ->
    nth_error (Shared.log cfg) i = Some (t, SCreateProof block hash seek upgrade, r) -> no_panic_before cfg i ->
    let bs_i := xblocks_of (Shared.log cfg) bs i in
    let cl_i := xcleared_of (Shared.log cfg) bs cl i in
    exists ci di ji evi r0,
      r = XOProof r0 /\
      xrun cr s0 (firstn i (Shared.calls (Shared.log cfg))) =
        ((ci, mkWorld di ji evi), firstn i (Shared.results (Shared.log cfg))) /\
      XInv cr sk ci di bs_i cl_i /\
      r0 = snd (core_create_proof block hash seek upgrade ci (mkWorld di ji evi)) /\
      proof_honest cr sk bs_i cl_i block upgrade r0 /\
      (r0 = Ok None ->
         exists rb, block = Some rb /\ held (N.of_nat (length bs_i)) cl_i (rb_index rb) = false /\
           xnew_events (SCreateProof block hash seek upgrade) (ci, mkWorld di ji evi) = [EvGet (rb_index rb)]) /\
      (r0 <> Ok None -> xnew_events (SCreateProof block hash seek upgrade) (ci, mkWorld di ji evi) = []).
  Proof.
    intros Hst.
    exact (xshared_create_proof_outcome cr sk Hcrc Hhash32 Hnonblank Hhashbytes Hsig64 Hsigbytes _ _ _ _
             (xsplit_atomic cr) progs cfg c d j ev bs cl HX Hsk Hwf Hfit Hidx Hst i t block hash seek upgrade r).
  Qed.

  Theorem xcore_split_missing_nodes_outcome cfg i t index r :
    xsteps (Shared.init s0 progs) cfg ->
    nth_error (Shared.log cfg) i = Some (t, SMissingNodes index, r) -> no_panic_before cfg i ->
    r = XOMissing (if fits_u64 (index * 2) then Ok 0 else Panic "index * 2").
  Proof.
    intros Hst.
    exact (xshared_missing_nodes_outcome cr sk Hcrc Hhash32 Hnonblank Hhashbytes Hsig64 Hsigbytes _ _ _ _
             (xsplit_atomic cr) progs cfg c d j ev bs cl HX Hsk Hwf Hfit Hidx Hst i t index r).
  Qed.

  Theorem xcore_split_key_pair_outcome cfg i t r :
    xsteps (Shared.init s0 progs) cfg ->
    nth_error (Shared.log cfg) i = Some (t, SKeyPair, r) -> no_panic_before cfg i ->
    r = XOKeyPair (c_keypair c).
  Proof.
    intros Hst.
    exact (xshared_key_pair_outcome cr sk Hcrc Hhash32 Hnonblank Hhashbytes Hsig64 Hsigbytes _ _ _ _
             (xsplit_atomic cr) progs cfg c d j ev bs cl HX Hsk Hwf Hfit Hidx Hst i t r).
  Qed.
End Instances.

Print Assumptions xstep_new_frame.
Print Assumptions seq_run_at.
Print Assumptions xstep_XInv.
Print Assumptions xseq_inv.
Print Assumptions xseq_at.
Print Assumptions writer_create_proof.
Print Assumptions writer_missing_nodes.
Print Assumptions xshared_serializable.
Print Assumptions xshared_unified.
Print Assumptions xshared_unified_finished.
Print Assumptions xshared_state_at.
Print Assumptions xshared_obs_at.
Print Assumptions xshared_append_outcome.
Print Assumptions xshared_get_outcome.
Print Assumptions xshared_has_outcome.
Print Assumptions xshared_info_outcome.
Print Assumptions xshared_blocks_readable.
Print Assumptions xshared_create_proof_outcome.
Print Assumptions xshared_missing_nodes_outcome.
Print Assumptions xshared_key_pair_outcome.
Print Assumptions xshared_new_call_frame.
Print Assumptions xshared_unified_realtime.
Print Assumptions xone_atomic.
Print Assumptions xsplit_atomic.
Print Assumptions xcore_split_serializable.
Print Assumptions xcore_one_serializable.
Print Assumptions xcore_split_unified.
Print Assumptions xcore_split_finished.
Print Assumptions xcore_split_append_outcome.
Print Assumptions xcore_split_get_outcome.
Print Assumptions xcore_split_blocks_readable.
Print Assumptions xcore_split_create_proof_outcome.
Print Assumptions xcore_split_missing_nodes_outcome.
Print Assumptions xcore_split_key_pair_outcome.

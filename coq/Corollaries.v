(* Corollaries.v — consequences of the unified invariant FInv (Unified1-3.v) and of the crash-tolerant invariants
   (CrashCore1-3.v) phrased for the properties C05, C06, C08. No new proof ideas: projections of the invariants. *)
From HC Require Import Base NMap Codec Crypto FlatTree Storage Bitfield Oplog Merkle Core.
From HC Require Import FlatTreeFacts TreeRef OffsetFacts Refine ClearRefine Reopen Unified1 Unified2 Unified3 CrashCore1 CrashCore2.
From Coq Require Import Lia.

Section Cor.
  Variable cr : crypto.

  (* C05: in every state reachable by appends, clears and reopens (FInv), the roots in memory are the reference roots and every
     full node of the tree over all appended blocks is found — in the unflushed map or in the tree STORE — with the reference
     value (size and hash): flush, reopen and replay carried the nodes to and from storage unchanged. *)
  Theorem tree_is_reference_everywhere c d bs cl :
    FInv cr c d bs cl ->
    let n := N.of_nat (length bs) in
    t_length (c_tree c) = n /\ t_byte_length (c_tree c) = sumN (map len bs) /\ t_fork (c_tree c) = 0 /\
    t_roots (c_tree c) = ref_roots cr bs n /\
    (forall dd o, (o + 1) * p2 dd <= n ->
       required_node (c_tree c) (d_tree d) (ft_index (N.of_nat dd) o) = Ok (ref_node cr bs dd o)).
  Proof.
    intros H. apply FInv_CInv in H. destruct H as ((H1 & H2 & H3 & H4 & H5 & _) & _).
    cbv zeta. split; [exact H1|]. split; [exact H2|]. split; [exact H3|]. split; [exact H4|].
    intros dd o Ho. apply H5. exact Ho.
  Qed.

  (* C08: has() is exact and no bit at or beyond the length is ever set, in every state reachable by appends, clears, reopens *)
  Theorem has_exact_everywhere c d bs cl :
    FInv cr c d bs cl ->
    (forall i, core_has c i = held (N.of_nat (length bs)) cl i) /\
    (forall i, N.of_nat (length bs) <= i -> core_has c i = false) /\
    i_contiguous (core_info c) = spec_contig bs cl.
  Proof.
    intros H. split; [intros i; eapply has_correct_U; eassumption|]. split.
    - intros i Hi. rewrite (has_correct_U cr c d bs cl i H). unfold held.
      destruct (N.ltb_spec i (N.of_nat (length bs))); [lia|reflexivity].
    - rewrite (info_correct_U cr c d bs cl H). reflexivity.
  Qed.
End Cor.

Print Assumptions tree_is_reference_everywhere.
Print Assumptions has_exact_everywhere.

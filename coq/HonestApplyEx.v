(* HonestApplyEx.v -- non-vacuity of HonestApply3.honest_round and HonestApply.honest_replicas_converge on the toy
   instance of SoundCore.v / AcceptAllEx.v (sc_cr, sc_blocks: a writer with six blocks, a replica created from the
   public key alone).  None of the requests below is in AcceptAllCore1.core_scope.
   History:  1. seek to byte 4 + PARTIAL upgrade 0..3 (forced flush): the proof carries a seek section and additional
                nodes; the replica ends at the writer's signed length 6;
             2. reopen;
             3. block 4 with the replica's own node count (native flush decision);
             4. HASH request for the leaf 2 with the replica's count 1 and a seek to byte 1 (no flush);
             5. block 0 with the count 0 (its leaf came with the hash proof) and a seek to byte 2 (no flush).
   Single round: HASH request for node 5 + PARTIAL upgrade 0..5 sent by the fresh replica. *)
From HC Require Import Base NMap Codec CodecFacts Crypto FlatTree Storage Bitfield Oplog Merkle Core.
From HC Require Import FlatTreeFacts Sound NoPanic TreeRef OffsetFacts CoreFacts Refine Replicate Replicate2 Replicate2Z Replicate2D Replicate2E.
From HC Require Import Unified1 SoundCoreLib SoundCore SoundCoreUp SoundCoreBU ReplicaDisk1 ReplicaDisk2 ReplicaDisk3 ReplicaDisk4 ReplicaDisk6.
From HC Require Import AcceptAll1 AcceptAll2 AcceptAll3 AcceptAll AcceptAllCore1 AcceptAllClo AcceptAllClo2 AcceptAllFlush AcceptAllCore2 AcceptAllCore3 AcceptAllHist AcceptAllEx.
From HC Require Import HonestApply1 HonestApply2 HonestApply3 HonestApply.
From Coq Require Import FMapPositive ZifyN ZifyNat ZifyBool.
Ltac Zify.zify_post_hook ::= Z.div_mod_to_equations.
Arguments N.add : simpl never.
Arguments N.sub : simpl never.
Arguments N.mul : simpl never.
Arguments N.div : simpl never.
Arguments N.modulo : simpl never.
Arguments N.pow : simpl never.
Arguments N.eqb : simpl never.
Arguments N.ltb : simpl never.
Arguments N.leb : simpl never.
Arguments N.of_nat : simpl never.
Arguments N.to_nat : simpl never.
Arguments N.log2 : simpl never.

Definition ha_ev (f : option bool) (rq : request) : revent :=
  EServe f rq scW_c (w_disk scW_w) (w_journal scW_w) (w_events scW_w) sc_blocks sc_sg.

Definition ha_rq1 : request := mkRequest None None (Some (mkReqSeek 4)) (Some (mkReqUpgrade 0 3)).
Definition ha_rq3 : request := mkRequest (Some (mkReqBlock 4 1)) None None None.
Definition ha_rq4 : request := mkRequest None (Some (mkReqBlock 2 1)) (Some (mkReqSeek 1)) None.
Definition ha_rq5 : request := mkRequest (Some (mkReqBlock 0 0)) None (Some (mkReqSeek 2)) None.

Definition ha_e1 := ha_ev (Some true) ha_rq1.
Definition ha_e3 := ha_ev None ha_rq3.
Definition ha_e4 := ha_ev (Some false) ha_rq4.
Definition ha_e5 := ha_ev (Some false) ha_rq5.
Definition ha_es : list revent := [ha_e1; EReopen; ha_e3; ha_e4; ha_e5].

(* none of the served requests lies in the scope of AcceptAllCore3.replication_round *)
Example ha_out_of_scope :
  ~ core_scope 6 ha_rq1 /\ ~ core_scope 6 ha_rq4 /\ ~ core_scope 6 ha_rq5.
Proof.
  repeat split; intros (S1 & S2 & S3); cbn in S1, S2, S3; try discriminate S1; try discriminate S2.
Qed.

(* the states of the history, computed *)
Definition ha_s1 : option (core * world) := Eval vm_compute in exec sc_cr scR_c scR_w ha_e1.
Definition ha1_c : core := Eval vm_compute in match ha_s1 with Some (c, _) => c | None => dummy_core end.
Definition ha1_w : world := Eval vm_compute in match ha_s1 with Some (_, w) => w | None => dummy_world end.
Lemma ha_exec1 : exec sc_cr scR_c scR_w ha_e1 = Some (ha1_c, ha1_w).
Proof. vm_compute. reflexivity. Qed.

Definition ha_s2 : option (core * world) := Eval vm_compute in exec sc_cr ha1_c ha1_w EReopen.
Definition ha2_c : core := Eval vm_compute in match ha_s2 with Some (c, _) => c | None => dummy_core end.
Definition ha2_w : world := Eval vm_compute in match ha_s2 with Some (_, w) => w | None => dummy_world end.
Lemma ha_exec2 : exec sc_cr ha1_c ha1_w EReopen = Some (ha2_c, ha2_w).
Proof. vm_compute. reflexivity. Qed.

Definition ha_s3 : option (core * world) := Eval vm_compute in exec sc_cr ha2_c ha2_w ha_e3.
Definition ha3_c : core := Eval vm_compute in match ha_s3 with Some (c, _) => c | None => dummy_core end.
Definition ha3_w : world := Eval vm_compute in match ha_s3 with Some (_, w) => w | None => dummy_world end.
Lemma ha_exec3 : exec sc_cr ha2_c ha2_w ha_e3 = Some (ha3_c, ha3_w).
Proof. vm_compute. reflexivity. Qed.

Definition ha_s4 : option (core * world) := Eval vm_compute in exec sc_cr ha3_c ha3_w ha_e4.
Definition ha4_c : core := Eval vm_compute in match ha_s4 with Some (c, _) => c | None => dummy_core end.
Definition ha4_w : world := Eval vm_compute in match ha_s4 with Some (_, w) => w | None => dummy_world end.
Lemma ha_exec4 : exec sc_cr ha3_c ha3_w ha_e4 = Some (ha4_c, ha4_w).
Proof. vm_compute. reflexivity. Qed.

Definition ha_s5 : option (core * world) := Eval vm_compute in exec sc_cr ha4_c ha4_w ha_e5.
Definition ha5_c : core := Eval vm_compute in match ha_s5 with Some (c, _) => c | None => dummy_core end.
Definition ha5_w : world := Eval vm_compute in match ha_s5 with Some (_, w) => w | None => dummy_world end.
Lemma ha_exec5 : exec sc_cr ha4_c ha4_w ha_e5 = Some (ha5_c, ha5_w).
Proof. vm_compute. reflexivity. Qed.

(* the whole history runs; the partial upgrade 0..3 already moves the replica to the writer's signed length 6 and
   byte length 11; the replica ends with blocks 4 and 0, read back byte-identical; the leaf 2 asked for by the
   hash request is stored with the writer's size *)
Example ha_run_computed :
  run sc_cr ha_es scR_c scR_w = Some (ha5_c, ha5_w) /\
  t_length (c_tree ha1_c) = 6 /\ t_byte_length (c_tree ha1_c) = 11 /\
  core_has ha5_c 4 = true /\ core_has ha5_c 0 = true /\ core_has ha5_c 1 = false /\
  t_length (c_tree ha5_c) = 6 /\
  snd (core_get 4 ha5_c ha5_w) = Ok (Some [9; 10]) /\ snd (core_get 0 ha5_c ha5_w) = Ok (Some [1; 2; 3]) /\
  required_node (c_tree ha5_c) (d_tree (w_disk ha5_w)) 2 = Ok (ref_at sc_cr sc_blocks 2).
Proof. vm_compute. repeat split. Qed.

(* what the proofs carry: 1. a seek section and additional nodes; 4. a hash section (the seek target lies under the
   sibling 0 of the path, which the section carries: no separate seek section) *)
Example ha_proofs_computed :
  (match create_valueless_proof (c_tree scW_c) (d_tree (w_disk scW_w)) None None (Some (mkReqSeek 4)) (Some (mkReqUpgrade 0 3)) with
   | Ok vp => option_map (fun s => map n_index (ds_nodes s)) (vp_seek vp) = Some [4] /\
              option_map (fun u => (map n_index (du_nodes u), map n_index (du_additional u))) (vp_upgrade vp) = Some ([1], [6; 9])
   | _ => False end) /\
  (match create_valueless_proof (c_tree scW_c) (d_tree (w_disk scW_w)) None (Some (mkReqBlock 2 1)) (Some (mkReqSeek 1)) None with
   | Ok vp => option_map (fun h => map n_index (dh_nodes h)) (vp_hash vp) = Some [2; 0] /\
              vp_seek vp = None
   | _ => False end).
Proof. vm_compute. repeat split; reflexivity. Qed.

(* ---------- every request of the history is well formed for the state it is sent from ---------- *)

Ltac ha_arith := first [exact I | reflexivity | (vm_compute; reflexivity) | (vm_compute; discriminate)].

Lemma ha_pre1 : pre_all sc_cr sc_blocks scR_c (w_disk scR_w) ha_e1.
Proof.
  unfold pre_all, ha_e1, ha_ev. cbv zeta.
  change (kp_public (c_keypair scR_c)) with sc_key.
  split; [exact sc_writer_at|]. split; [ha_arith|]. split.
  { split; [cbn; repeat split; ha_arith|]. cbn. ha_arith. }
  apply guard_check_ok. vm_compute. reflexivity.
Qed.

Lemma ha_pre3 : pre_all sc_cr sc_blocks ha2_c (w_disk ha2_w) ha_e3.
Proof.
  unfold pre_all, ha_e3, ha_ev. cbv zeta.
  change (kp_public (c_keypair ha2_c)) with sc_key.
  split; [exact sc_writer_at|]. split; [ha_arith|]. split.
  { split; [exact I|].
    cbn [ha_rq3 rq_block rq_hash rq_seek rq_upgrade rb_index rb_nodes rq_target].
    unfold wf_node. cbv zeta. split; [ha_arith|]. left.
    split; [ha_arith|]. split; [ha_arith|]. split; [ha_arith|exact I]. }
  apply guard_check_ok. vm_compute. reflexivity.
Qed.

Lemma ha_pre4 : pre_all sc_cr sc_blocks ha3_c (w_disk ha3_w) ha_e4.
Proof.
  unfold pre_all, ha_e4, ha_ev. cbv zeta.
  change (kp_public (c_keypair ha3_c)) with sc_key.
  split; [exact sc_writer_at|]. split; [ha_arith|]. split.
  { split; [exact I|].
    cbn [ha_rq4 rq_block rq_hash rq_seek rq_upgrade rb_index rb_nodes rq_target].
    unfold wf_node. cbv zeta. split; [ha_arith|]. left.
    split; [ha_arith|]. split; [ha_arith|]. split; [ha_arith|].
    unfold seek_ok, seek_in_range. cbn [rs_bytes]. split; [ha_arith|]. left. ha_arith. }
  apply guard_check_ok. vm_compute. reflexivity.
Qed.

Lemma ha_pre5 : pre_all sc_cr sc_blocks ha4_c (w_disk ha4_w) ha_e5.
Proof.
  unfold pre_all, ha_e5, ha_ev. cbv zeta.
  change (kp_public (c_keypair ha4_c)) with sc_key.
  split; [exact sc_writer_at|]. split; [ha_arith|]. split.
  { split; [exact I|].
    cbn [ha_rq5 rq_block rq_hash rq_seek rq_upgrade rb_index rb_nodes rq_target].
    unfold wf_node. cbv zeta. split; [ha_arith|]. left.
    split; [ha_arith|]. split; [ha_arith|]. split; [ha_arith|].
    unfold seek_ok, seek_in_range. cbn [rs_bytes]. split; [ha_arith|]. left. ha_arith. }
  apply guard_check_ok. vm_compute. reflexivity.
Qed.

Lemma ha_hist : hist_all sc_cr sc_blocks ha_es scR_c scR_w.
Proof.
  unfold ha_es. cbn [hist_all]. split; [exact ha_pre1|].
  intros c1 w1 E1. rewrite ha_exec1 in E1. injection E1 as <- <-. split; [exact I|].
  intros c2 w2 E2. rewrite ha_exec2 in E2. injection E2 as <- <-. split; [exact ha_pre3|].
  intros c3 w3 E3. rewrite ha_exec3 in E3. injection E3 as <- <-. split; [exact ha_pre4|].
  intros c4 w4 E4. rewrite ha_exec4 in E4. injection E4 as <- <-. split; [exact ha_pre5|].
  intros c5 w5 _. exact I.
Qed.

(* the history theorem applies to the instance: no escape clause in its conclusion *)
Example ha_replicas_converge_applies :
  exists c' w',
    run sc_cr ha_es scR_c scR_w = Some (c', w') /\
    RCInv sc_cr sc_blocks c' (w_disk w') (held_all (fun _ => false) ha_es) /\
    t_length (c_tree c') = 6 /\ t_byte_length (c_tree c') = prefix_size sc_blocks 6 /\
    core_has c' 4 = true /\ core_has c' 0 = true /\
    (forall i j2 ev2, core_has c' i = true ->
       core_get i c' (mkWorld (w_disk w') j2 ev2) = (c', mkWorld (w_disk w') j2 ev2, Ok (Some (blk sc_blocks i)))).
Proof.
  destruct scR_w as [d0 j0 ev0] eqn:Ew.
  pose proof sc_R0_RCInv as RC. pose proof ha_hist as Hh. rewrite Ew in RC, Hh. cbn [w_disk] in RC.
  destruct (honest_replicas_converge sc_cr sc_crc_ok sc_hash32 sc_nonblank sc_hashbytes sc_blocks sc_writer_fits ha_es
              scR_c d0 j0 ev0 (fun _ => false) RC Hh)
    as (c' & w' & Hrun & RC' & _ & Hl & Hb & _ & Hreq & _ & Hget).
  exists c', w'. split; [exact Hrun|]. split; [exact RC'|].
  assert (El : t_length (c_tree c') = 6) by (rewrite Hl; vm_compute; reflexivity).
  split; [exact El|]. split; [rewrite <- El; exact Hb|].
  split; [apply Hreq; cbn; right; left; eexists; split; reflexivity|].
  split; [apply Hreq; cbn; right; right; right; left; eexists; split; reflexivity|exact Hget].
Qed.

(* ---------- one round: hash of node 5 + PARTIAL upgrade 0..5, sent by the fresh replica ---------- *)

Definition ha_rqh : request := mkRequest None (Some (mkReqBlock 5 0)) None (Some (mkReqUpgrade 0 5)).

Example ha_rqh_wf : wf_request sc_blocks (c_tree scR_c) (d_tree (w_disk scR_w)) 6 ha_rqh /\ ~ core_scope 6 ha_rqh.
Proof.
  split.
  - split; [cbn; repeat split; ha_arith|].
    cbn [ha_rqh rq_block rq_hash rq_seek rq_upgrade rb_index rb_nodes rq_target ru_start ru_length].
    unfold wf_node. cbv zeta. split; [ha_arith|]. right. split; ha_arith.
  - intros (S1 & _). discriminate S1.
Qed.

Example ha_round_applies f j ev :
  exists pf cs c' w',
    core_create_proof None (Some (mkReqBlock 5 0)) None (Some (mkReqUpgrade 0 5)) scW_c scW_w = (scW_c, scW_w, Ok (Some pf)) /\
    verifier_says sc_cr scR_c (mkWorld (w_disk scR_w) j ev) pf = Ok cs /\
    core_apply_proof sc_cr f pf scR_c (mkWorld (w_disk scR_w) j ev) = (c', w', Ok true) /\
    RCInv sc_cr sc_blocks c' (w_disk w') (fun _ => false) /\
    (* the writer's signed length and byte length, although the request asked for the length 5 *)
    t_length (c_tree c') = 6 /\ t_byte_length (c_tree c') = prefix_size sc_blocks 6 /\
    (* the node asked for is stored with the writer's size *)
    required_node (c_tree c') (d_tree (w_disk w')) 5 = Ok (ref_at sc_cr sc_blocks 5).
Proof.
  destruct ha_rqh_wf as [Hwf _].
  destruct (honest_round sc_cr sc_crc_ok sc_hash32 sc_nonblank sc_hashbytes sc_blocks sc_writer_fits f
              scW_c (w_disk scW_w) sc_blocks sc_sg (w_journal scW_w) (w_events scW_w)
              scR_c (w_disk scR_w) j ev (fun _ => false) ha_rqh sc_writer_at sc_R0_RCInv
              ltac:(vm_compute; discriminate) Hwf
              (guard_check_ok sc_cr sc_blocks scW_c (w_disk scW_w) scR_c (w_disk scR_w) ha_rqh ltac:(vm_compute; reflexivity)))
    as (pf & cs & c' & w' & Hc & Hv & Ha & RC' & Hl & Hb & _ & _ & Hnode).
  exists pf, cs, c', w'. split; [exact Hc|]. split; [exact Hv|]. split; [exact Ha|].
  split; [exact RC'|]. cbn [ha_rqh rq_upgrade] in Hl.
  assert (El : t_length (c_tree c') = 6) by (rewrite Hl; reflexivity).
  split; [exact El|]. split; [rewrite <- El; exact Hb|]. apply Hnode. reflexivity.
Qed.

(* ---------- the replica created from the public key alone, then the history ---------- *)

Example ha_fresh_applies :
  exists d0 ops0 c0,
    core_open sc_cr (Some (mkKeypair sc_key None)) false disk_empty = (d0, ops0, Ok c0) /\
    exists c' w',
      run sc_cr ha_es c0 (mkWorld d0 [] []) = Some (c', w') /\
      RCInv sc_cr sc_blocks c' (w_disk w') (held_all (fun _ => false) ha_es) /\
      t_length (c_tree c') = 6 /\ core_has c' 4 = true /\ core_has c' 0 = true.
Proof.
  destruct (honest_fresh_replicas_converge sc_cr sc_crc_ok sc_hash32 sc_nonblank sc_hashbytes sc_blocks sc_writer_fits
              (mkKeypair sc_key None) ha_es ltac:(vm_compute; reflexivity) eq_refl)
    as (d0 & ops0 & c0 & Hopen & Himp).
  exists d0, ops0, c0. split; [exact Hopen|].
  assert (E : exists ops, core_open sc_cr (Some (mkKeypair sc_key None)) false disk_empty = (w_disk scR_w, ops, Ok scR_c))
    by (eexists; vm_compute; reflexivity).
  destruct E as (ops & E). rewrite E in Hopen. injection Hopen as <- _ <-.
  destruct (Himp ha_hist) as (c' & w' & Hrun & RC' & Hl & Hreq & _).
  exists c', w'. split; [exact Hrun|]. split; [exact RC'|]. split; [rewrite Hl; vm_compute; reflexivity|].
  split; [apply Hreq; cbn; right; left; eexists; split; reflexivity|].
  apply Hreq; cbn; right; right; right; left; eexists; split; reflexivity.
Qed.

(* ---------- supplied nodes: on the instance every node a served proof carries is a node of the changeset, hence
   (honest_round) stored with the writer's size; computed, not proved in general ---------- *)

Definition ha_supplied (pf : proof) : list N :=
  map n_index ((match p_block pf with Some b => db_nodes b | None => [] end) ++
               (match p_hash pf with Some h => dh_nodes h | None => [] end) ++
               (match p_seek pf with Some s => ds_nodes s | None => [] end) ++
               (match p_upgrade pf with Some u => du_nodes u ++ du_additional u | None => [] end)).

Definition ha_supplied_check (c : core) (w : world) (rq : request) : bool :=
  match core_create_proof (rq_block rq) (rq_hash rq) (rq_seek rq) (rq_upgrade rq) scW_c scW_w with
  | (_, _, Ok (Some pf)) =>
      match verify_proof sc_cr (c_tree c) (d_tree (w_disk w)) pf sc_key with
      | Ok cs => forallb (fun j => existsb (N.eqb j) (map n_index (cs_nodes cs))) (ha_supplied pf)
      | _ => false
      end
  | _ => false
  end.

Example ha_supplied_in_changeset :
  ha_supplied_check scR_c scR_w ha_rq1 = true /\ ha_supplied_check ha2_c ha2_w ha_rq3 = true /\
  ha_supplied_check ha3_c ha3_w ha_rq4 = true /\ ha_supplied_check ha4_c ha4_w ha_rq5 = true /\
  ha_supplied_check scR_c scR_w ha_rqh = true.
Proof. vm_compute. repeat split. Qed.

Print Assumptions ha_run_computed.
Print Assumptions ha_hist.
Print Assumptions ha_replicas_converge_applies.
Print Assumptions ha_round_applies.
Print Assumptions ha_fresh_applies.
Print Assumptions ha_supplied_in_changeset.

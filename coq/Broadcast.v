(* Broadcast.v — executable model of the event channel: async-broadcast 0.7.2 (src/lib.rs) as /repo configures it
   (src/replication/events.rs: `broadcast(32)`, `set_await_active(false)`, the kept receiver `deactivate()`d,
   `set_overflow(true)`; `Events::send` = `try_broadcast`, result ignored; `Hypercore::event_subscribe` =
   `channel.new_receiver()`; subscribers call `try_recv` / `recv`).
   Mirrors, statement by statement: `broadcast`, `Inner::{try_recv_at, close, close_channel}`,
   `Sender::{set_overflow, set_await_active, len, receiver_count, new_receiver, try_broadcast}`,
   `Receiver::{try_recv, deactivate}`, `Drop for Receiver`.

   Conventions.
   * `struct Inner<T>` is the record `inner`; the queue `VecDeque<(T, usize)>` (message, number of receivers that
     still have to read it) is a list, front first.  The wake-up lists `send_ops` / `recv_ops` are not modelled
     (`try_*` never waits; `recv().await` is `try_recv` retried after a wake-up, see Broadcast facts (d)).
   * `usize` / `u64` arithmetic is modelled by unbounded N.  The places where the Rust code can panic are results
     of their own (`RPanic`, `SPanic`): `assert_eq!(i, 0)` in `try_recv_at`, `*waiters -= 1` on 0 (overflow
     checks), `assert!(inactive_receiver_count != 0)` in `try_broadcast`.  BroadcastFacts.v proves that none of
     them is reachable.  `head_pos` is a u64 incremented once per dropped/popped message: no overflow below
     2^64 sends.
   * `Drop for Receiver` is a `loop` around `try_recv_at`; it runs here on explicit fuel (queue length + 2:
     at most one `Overflowed`, one step per queued message, one `Empty`).
   * A `Receiver` is its cursor `pos : u64` (the `listener` field only matters for waiting).  The system state
     `bsys` is the shared `Inner` plus the table of the receivers created so far (`None` = dropped), indexed by
     creation order: the identifiers used by the `bcx` command of the harness and of the model driver.
   No proofs in this file. *)
From HC Require Export Base.

Section Chan.
  Variable A : Type.

  (* struct Inner<T> (send_ops / recv_ops left out) *)
  Record inner := mkInner {
    bi_queue : list (A * N);
    bi_capacity : N;
    bi_receiver_count : N;
    bi_inactive_receiver_count : N;
    bi_sender_count : N;
    bi_head_pos : N;
    bi_overflow : bool;
    bi_await_active : bool;
    bi_is_closed : bool }.

  Definition set_queue_head (i : inner) (q : list (A * N)) (h : N) : inner :=
    mkInner q (bi_capacity i) (bi_receiver_count i) (bi_inactive_receiver_count i) (bi_sender_count i) h
            (bi_overflow i) (bi_await_active i) (bi_is_closed i).
  Definition set_receiver_count (i : inner) (n : N) : inner :=
    mkInner (bi_queue i) (bi_capacity i) n (bi_inactive_receiver_count i) (bi_sender_count i) (bi_head_pos i)
            (bi_overflow i) (bi_await_active i) (bi_is_closed i).
  Definition set_inactive_receiver_count (i : inner) (n : N) : inner :=
    mkInner (bi_queue i) (bi_capacity i) (bi_receiver_count i) n (bi_sender_count i) (bi_head_pos i)
            (bi_overflow i) (bi_await_active i) (bi_is_closed i).

  (* pub fn broadcast<T>(cap) -> (Sender<T>, Receiver<T>): the shared state and the cursor of the first receiver
     (`assert!(cap > 0)`: the model is total but only meaningful for cap > 0) *)
  Definition bc_broadcast (cap : N) : inner * N :=
    (mkInner [] cap 1 0 1 0 false true false, 0).

  (* Sender::set_await_active / InactiveReceiver::set_overflow *)
  Definition bc_set_await_active (b : bool) (i : inner) : inner :=
    mkInner (bi_queue i) (bi_capacity i) (bi_receiver_count i) (bi_inactive_receiver_count i) (bi_sender_count i)
            (bi_head_pos i) (bi_overflow i) b (bi_is_closed i).
  Definition bc_set_overflow (b : bool) (i : inner) : inner :=
    mkInner (bi_queue i) (bi_capacity i) (bi_receiver_count i) (bi_inactive_receiver_count i) (bi_sender_count i)
            (bi_head_pos i) b (bi_await_active i) (bi_is_closed i).

  (* Inner::close (only the flag; nobody waits in this model) and Inner::close_channel *)
  Definition bc_close (i : inner) : inner :=
    mkInner (bi_queue i) (bi_capacity i) (bi_receiver_count i) (bi_inactive_receiver_count i) (bi_sender_count i)
            (bi_head_pos i) (bi_overflow i) (bi_await_active i) true.
  Definition bc_close_channel (i : inner) : inner :=
    if (bi_receiver_count i =? 0) && (bi_inactive_receiver_count i =? 0) then bc_close i else i.

  (* Result<T, TryRecvError> of try_recv, plus the panic sites *)
  Inductive rres :=
  | RMsg (a : A)             (* Ok(msg) *)
  | ROverflowed (n : N)      (* Err(TryRecvError::Overflowed(n)) *)
  | REmpty                   (* Err(TryRecvError::Empty) *)
  | RClosed                  (* Err(TryRecvError::Closed) *)
  | RPanic.

  (* queue[i] = x *)
  Fixpoint l_set {B} (l : list B) (i : nat) (x : B) : list B :=
    match l with
    | [] => []
    | y :: r => match i with O => x :: r | S j => y :: l_set r j x end
    end.

  (* fn try_recv_at(&mut self, pos: &mut u64): new shared state, new cursor, result
     (the Ok(Ok(elt)) / Ok(Err(&elt)) distinction is "moved out" versus "cloned": the same message) *)
  Definition bc_try_recv_at (c : inner) (pos : N) : inner * N * rres :=
    if pos <? bi_head_pos c then
      (* pos.checked_sub(self.head_pos) = None *)
      let count := bi_head_pos c - pos in
      (c, bi_head_pos c, ROverflowed count)
    else
      let i := N.to_nat (pos - bi_head_pos c) in
      match nth_error (bi_queue c) i with
      | Some (elt, waiters) =>
          if waiters =? 0 then (c, pos + 1, RPanic)       (* *waiters -= 1 underflows *)
          else
            let waiters' := waiters - 1 in
            let q1 := l_set (bi_queue c) i (elt, waiters') in
            if waiters' =? 0 then
              (* last_waiter: "Only the first element of the queue should have 0 waiters" *)
              match i with
              | O => (set_queue_head c (tl q1) (bi_head_pos c + 1), pos + 1, RMsg elt)   (* pop_front; head_pos += 1 *)
              | S _ => (set_queue_head c q1 (bi_head_pos c), pos + 1, RPanic)            (* assert_eq!(i, 0) *)
              end
            else (set_queue_head c q1 (bi_head_pos c), pos + 1, RMsg elt)
      | None =>
          (c, pos, if bi_is_closed c then RClosed else REmpty)
      end.

  (* impl Drop for Receiver: the loop "remove ourself from each item's counter"; true = a panic site was hit *)
  Fixpoint bc_drop_loop (fuel : nat) (c : inner) (pos : N) : inner * N * bool :=
    match fuel with
    | O => (c, pos, false)
    | S f =>
        match bc_try_recv_at c pos with
        | (c', pos', RMsg _) => bc_drop_loop f c' pos'
        | (c', pos', ROverflowed _) => bc_drop_loop f c' pos'
        | (c', pos', RClosed) => (c', pos', false)
        | (c', pos', REmpty) => (c', pos', false)
        | (c', pos', RPanic) => (c', pos', true)
        end
    end.

  Definition bc_recv_drop (c : inner) (pos : N) : inner * bool :=
    let '(c1, _, p) := bc_drop_loop (S (S (length (bi_queue c)))) c pos in
    (bc_close_channel (set_receiver_count c1 (bi_receiver_count c1 - 1)), p).

  (* Receiver::deactivate(self): inactive_receiver_count += 1, then `self` is dropped *)
  Definition bc_deactivate (c : inner) (pos : N) : inner * bool :=
    bc_recv_drop (set_inactive_receiver_count c (bi_inactive_receiver_count c + 1)) pos.

  (* Sender::new_receiver: the new cursor is the current tail *)
  Definition bc_new_receiver (c : inner) : inner * N :=
    (set_receiver_count c (bi_receiver_count c + 1), bi_head_pos c + N.of_nat (length (bi_queue c))).

  (* Result<Option<T>, TrySendError<T>> of try_broadcast (the message inside the errors is the argument) *)
  Inductive sres :=
  | SOk (dropped : option A)    (* Ok(None) / Ok(Some(oldest message, removed to make room)) *)
  | SFull
  | SClosed
  | SInactive
  | SPanic.

  (* Sender::try_broadcast *)
  Definition bc_try_broadcast (c : inner) (msg : A) : inner * sres :=
    if bi_is_closed c then (c, SClosed)
    else if bi_receiver_count c =? 0 then
      (if bi_inactive_receiver_count c =? 0 then (c, SPanic) else (c, SInactive))
    else
      let full := N.of_nat (length (bi_queue c)) =? bi_capacity c in
      if full && negb (bi_overflow c) then (c, SFull)
      else
        (* Make room by popping a message *)
        let ret := if full then option_map fst (hd_error (bi_queue c)) else None in
        let q0 := if full then tl (bi_queue c) else bi_queue c in
        let q1 := q0 ++ [(msg, bi_receiver_count c)] in
        let h := match ret with Some _ => bi_head_pos c + 1 | None => bi_head_pos c end in
        (set_queue_head c q1 h, SOk ret).

  (* Sender::len / Sender::receiver_count *)
  Definition bc_len (c : inner) : N := N.of_nat (length (bi_queue c)).

  (* Events::new() of /repo/src/replication/events.rs with capacity `cap` (there: 32), in its statement order *)
  Definition events_new (cap : N) : inner :=
    let '(c0, receiver) := bc_broadcast cap in
    let c1 := bc_set_await_active false c0 in
    let '(c2, _) := bc_deactivate c1 receiver in
    bc_set_overflow true c2.

  (* ---------- the channel with its subscribers, on operation lists ---------- *)

  Record bsys := mkBsys { bs_inner : inner; bs_rcv : list (option N) }.

  Inductive bop :=
  | BSend (m : A)     (* Events::send(m): channel.try_broadcast(m) *)
  | BNew              (* event_subscribe(): channel.new_receiver(); its identifier is the number of earlier BNew *)
  | BRecv (k : N)     (* receiver k: try_recv() *)
  | BDrop (k : N)     (* receiver k goes out of scope *)
  | BLen.             (* channel.len(), channel.receiver_count() *)

  Inductive bobs :=
  | BoSent (dropped : option A)
  | BoFull
  | BoSendClosed
  | BoInactive
  | BoNew (id : N)
  | BoMsg (m : A)
  | BoOverflowed (n : N)
  | BoEmpty
  | BoRecvClosed
  | BoDropped
  | BoNoReceiver             (* no receiver with this identifier, or already dropped (a protocol answer, not the crate's) *)
  | BoLen (n rc : N)
  | BoPanic.

  Definition bsys_new (cap : N) : bsys := mkBsys (events_new cap) [].

  Definition bsys_step (s : bsys) (o : bop) : bsys * bobs :=
    match o with
    | BSend m =>
        let '(c, r) := bc_try_broadcast (bs_inner s) m in
        (mkBsys c (bs_rcv s),
         match r with
         | SOk d => BoSent d | SFull => BoFull | SClosed => BoSendClosed | SInactive => BoInactive | SPanic => BoPanic
         end)
    | BNew =>
        let '(c, pos) := bc_new_receiver (bs_inner s) in
        (mkBsys c (bs_rcv s ++ [Some pos]), BoNew (N.of_nat (length (bs_rcv s))))
    | BRecv k =>
        match nth_error (bs_rcv s) (N.to_nat k) with
        | Some (Some pos) =>
            let '(c, pos', r) := bc_try_recv_at (bs_inner s) pos in
            (mkBsys c (l_set (bs_rcv s) (N.to_nat k) (Some pos')),
             match r with
             | RMsg a => BoMsg a | ROverflowed n => BoOverflowed n | REmpty => BoEmpty | RClosed => BoRecvClosed
             | RPanic => BoPanic
             end)
        | _ => (s, BoNoReceiver)
        end
    | BDrop k =>
        match nth_error (bs_rcv s) (N.to_nat k) with
        | Some (Some pos) =>
            let '(c, p) := bc_recv_drop (bs_inner s) pos in
            (mkBsys c (l_set (bs_rcv s) (N.to_nat k) None), if p then BoPanic else BoDropped)
        | _ => (s, BoNoReceiver)
        end
    | BLen => (s, BoLen (bc_len (bs_inner s)) (bi_receiver_count (bs_inner s)))
    end.

  Fixpoint bsys_steps (s : bsys) (ops : list bop) : list bobs * bsys :=
    match ops with
    | [] => ([], s)
    | o :: rest => let so := bsys_step s o in
                   let k := bsys_steps (fst so) rest in
                   (snd so :: fst k, snd k)
    end.

  (* observations of an operation list on a fresh `Events::new()` channel of capacity `cap` *)
  Definition run_bc (cap : N) (ops : list bop) : list bobs :=
    fst (bsys_steps (bsys_new cap) ops).
End Chan.

Arguments mkInner {A}.
Arguments bi_queue {A}.
Arguments bi_capacity {A}.
Arguments bi_receiver_count {A}.
Arguments bi_inactive_receiver_count {A}.
Arguments bi_sender_count {A}.
Arguments bi_head_pos {A}.
Arguments bi_overflow {A}.
Arguments bi_await_active {A}.
Arguments bi_is_closed {A}.
Arguments set_queue_head {A}.
Arguments set_receiver_count {A}.
Arguments set_inactive_receiver_count {A}.
Arguments bc_broadcast {A}.
Arguments bc_set_await_active {A}.
Arguments bc_set_overflow {A}.
Arguments bc_close {A}.
Arguments bc_close_channel {A}.
Arguments RMsg {A}.
Arguments ROverflowed {A}.
Arguments REmpty {A}.
Arguments RClosed {A}.
Arguments RPanic {A}.
Arguments bc_try_recv_at {A}.
Arguments bc_drop_loop {A}.
Arguments bc_recv_drop {A}.
Arguments bc_deactivate {A}.
Arguments bc_new_receiver {A}.
Arguments SOk {A}.
Arguments SFull {A}.
Arguments SClosed {A}.
Arguments SInactive {A}.
Arguments SPanic {A}.
Arguments bc_try_broadcast {A}.
Arguments bc_len {A}.
Arguments events_new {A}.
Arguments mkBsys {A}.
Arguments bs_inner {A}.
Arguments bs_rcv {A}.
Arguments BSend {A}.
Arguments BNew {A}.
Arguments BRecv {A}.
Arguments BDrop {A}.
Arguments BLen {A}.
Arguments BoSent {A}.
Arguments BoFull {A}.
Arguments BoSendClosed {A}.
Arguments BoInactive {A}.
Arguments BoNew {A}.
Arguments BoMsg {A}.
Arguments BoOverflowed {A}.
Arguments BoEmpty {A}.
Arguments BoRecvClosed {A}.
Arguments BoDropped {A}.
Arguments BoNoReceiver {A}.
Arguments BoLen {A}.
Arguments BoPanic {A}.
Arguments bsys_new {A}.
Arguments bsys_step {A}.
Arguments bsys_steps {A}.
Arguments run_bc {A}.

(* the instance run by the `bcx` command: u64 messages *)
Definition run_bc_n (cap : N) (ops : list (@bop N)) : list (@bobs N) := run_bc cap ops.

(* ReplicaDisk1.v -- replicas end to end, part 1: ONE invariant over memory and the four stores.
   RDisk pk d H r : what the four stores of a replica (public key pk, no secret) look like between two calls or
                    after a crash: the oplog holds a header written by the last flush and the entries of the
                    proof applications accepted since (each entry: writer's nodes, optional upgrade to a length
                    m <= |bs|, optional bitfield set {i,1}); the tree store and the entries' nodes together make
                    SoundCore.RInv true for the tree a replay constructs; the bitfield store replays to H.
   RDInv c d H    : memory c and disk d between two calls: SoundCore.RInv + bitfield memory = H + exact
                    contiguous length + header/keypair/oplog state = what a replay of the disk gives.
   This file: definitions, RDInv -> RDisk, the observations under RDInv (goal 4), the fresh replica (goal 1). *)
From HC Require Import Base NMap Codec CodecFacts Crypto FlatTree Storage Bitfield Oplog Merkle Core.
From HC Require Import FlatTreeFacts StorageFacts BitfieldFacts OplogFacts TreeRef OffsetFacts CoreFacts Crash Refine.
From HC Require Import ClearRefine Reopen ContigBridge Unified1 Unified2 CrashCore1 CrashClear1.
From HC Require Import Sound NoPanic Replicate SoundCoreLib SoundCore SoundCoreUp SoundCoreBU.
From Coq Require Import FMapPositive ZifyN ZifyNat ZifyBool.
Ltac Zify.zify_post_hook ::= Z.div_mod_to_equations.
Arguments N.add : simpl never.
Arguments N.sub : simpl never.
Arguments N.mul : simpl never.
Arguments N.div : simpl never.
Arguments N.modulo : simpl never.
Arguments N.pow : simpl never.
Arguments N.eqb : simpl never.
Arguments N.ltb : simpl never.
Arguments N.leb : simpl never.
Arguments N.max : simpl never.
Arguments N.min : simpl never.
Arguments N.of_nat : simpl never.
Arguments N.to_nat : simpl never.

(* ====================================================================================== *)
(* A. Bit functions: the tolerant bitfield-store clause for an arbitrary held set           *)
(* ====================================================================================== *)

(* CrashClear1.BfY with the held set given as a function: the store replays to H under the pending updates,
   and there is a field B0 (the bitfield when the header was written) for which the header's hint c0 is exact
   and which replays to H as well *)
Definition BfH (f : file) (us : list bf_update) (c0 : N) (H : N -> bool) : Prop :=
  f_len f mod PAGE_BYTES = 0 /\
  (forall i, upds_fun (fbit f) us i = H i) /\
  exists B0 : N -> bool, fexact B0 c0 /\ forall i, upds_fun B0 us i = H i.

Lemma BfH_ext f us c0 H H' : (forall i, H' i = H i) -> BfH f us c0 H -> BfH f us c0 H'.
Proof.
  intros E (H1 & H2 & B0 & H3 & H4). split; [exact H1|]. split; [intros i; rewrite E; apply H2|].
  exists B0. split; [exact H3|]. intros i. rewrite E. apply H4.
Qed.

Lemma BfH_write_pages f (b : bitfield) ps us c0 H :
  BfH f us c0 H -> (forall i, bf_get b i = H i) -> BfH (write_pages f (bf_bits b) ps) us c0 H.
Proof.
  intros (Hm & Hrep & HB) Hb. split; [apply len_write_pages, Hm|]. split; [|exact HB].
  intros i. rewrite <- (Hrep i). apply upds_fun_mix.
  destruct (fbit_write_pages (bf_bits b) ps f i) as [I1 I2].
  destruct (in_dec N.eq_dec (i / PAGE_BITS) ps) as [Hin|Hnin].
  - right. rewrite (I1 Hin), Hrep. apply Hb.
  - left. apply I2, Hnin.
Qed.

Lemma BfH_snoc f us u c0 H H' :
  BfH f us c0 H -> (forall i, H' i = upd_fun H u i) -> BfH f (us ++ [u]) c0 H'.
Proof.
  intros (Hm & Hrep & B0 & Hex & HB) Hu. split; [exact Hm|]. split.
  - intros i. rewrite upds_fun_app. unfold upds_fun at 1. cbn [fold_left]. rewrite Hu. apply upd_fun_ext, Hrep.
  - exists B0. split; [exact Hex|].
    intros i. rewrite upds_fun_app. unfold upds_fun at 1. cbn [fold_left]. rewrite Hu. apply upd_fun_ext, HB.
Qed.

Lemma BfH_exact f H c0 :
  f_len f mod PAGE_BYTES = 0 -> (forall i, fbit f i = H i) -> fexact H c0 -> BfH f [] c0 H.
Proof.
  intros Hm Hf Hex. split; [exact Hm|]. split; [exact Hf|]. exists H. split; [exact Hex|reflexivity].
Qed.

Lemma fexact_unique g k k' : fexact g k -> fexact g k' -> k = k'.
Proof.
  intros [A1 A2] [B1 B2]. destruct (N.lt_trichotomy k k') as [L|[E|L]]; [exfalso|exact E|exfalso].
  - rewrite (B1 k L) in A2. discriminate A2.
  - rewrite (A1 k' L) in B2. discriminate B2.
Qed.

(* the first index not in H *)
Definition first_gap (H : N -> bool) (k : N) : Prop := fexact H k.

(* ====================================================================================== *)
(* B. Trees, headers and entries of a replica                                              *)
(* ====================================================================================== *)

(* the signature a tree carries, as MerkleTree::open reads it from a header *)
Definition sig_of (ht : header_tree) : option bytes :=
  match ht_signature ht with [] => None | s => Some s end.

(* a tree with only its unflushed map set: node lookups depend on nothing else *)
Definition tU (U : list node) : mtree := mkTree [] 0 0 0 None (add_nodes nm_empty U).

Lemma add_nodes_app m l1 l2 : add_nodes m (l1 ++ l2) = add_nodes (add_nodes m l1) l2.
Proof. unfold add_nodes. apply fold_left_app. Qed.

Lemma flat_map_snoc {A B} (f : A -> list B) l x : flat_map f (l ++ [x]) = flat_map f l ++ f x.
Proof. rewrite flat_map_app. cbn [flat_map]. rewrite app_nil_r. reflexivity. Qed.

Section Defs.
  Variable cr : crypto.
  Variable bs : list bytes.               (* the writer's blocks *)

  (* the tree a replay constructs: roots of the first r blocks, unflushed = the nodes of the entries *)
  Definition rtree (r : N) (sg : option bytes) (U : list node) : mtree :=
    mkTree (ref_roots cr bs r) r (prefix_size bs r) 0 sg (add_nodes nm_empty U).

  (* SoundCore.RInv with the tree, the two stores and the held set as arguments *)
  Definition RTree (t : mtree) (tf df : file) (H : N -> bool) : Prop :=
    let r := t_length t in
    r <= N.of_nat (length bs) /\ t_fork t = 0 /\
    t_roots t = ref_roots cr bs r /\ t_byte_length t = prefix_size bs r /\
    unfl_sound cr bs t r /\ file_sound cr bs tf r /\
    (forall x, In x (t_roots t) -> required_node t tf (n_index x) = Ok x) /\
    (forall i, H i = true ->
       i < r /\ required_node t tf (2 * i) = Ok (ref_node cr bs 0 i) /\ left_avail cr bs t tf i r /\
       (len (blk bs i) <> 0 ->
        f_read df (prefix_size bs i) (len (blk bs i)) = Some (blk bs i))).

  Lemma RInv_RTree c d :
    SoundCore.RInv cr bs c d <-> RTree (c_tree c) (d_tree d) (d_data d) (bf_get (c_bitfield c)).
  Proof. split; intros H; exact H. Qed.

  (* a header tree that describes the writer's log at length r: either the initial one, or root hash and
     signature of an accepted upgrade to length r *)
  Definition ht_desc (pk : bytes) (ht : header_tree) (r : N) : Prop :=
    ht_fork ht = 0 /\ ht_length ht = r /\ r <= N.of_nat (length bs) /\
    ((r = 0 /\ ht_root_hash ht = [] /\ ht_signature ht = []) \/
     (ht_root_hash ht = tree_hash cr (ref_roots cr bs r) /\
      length (ht_signature ht) = 64%nat /\ bytes_ok (ht_signature ht) = true /\
      cr_verify cr pk (signable (tree_hash cr (ref_roots cr bs r)) r 0) (ht_signature ht) = true)).

  (* a header of a replica with public key pk (no secret key) describing length r *)
  Definition hdr_rep (pk : bytes) (h : header) (r : N) : Prop :=
    header_ok h = true /\ hd_keypair h = mkKeypair pk None /\ ht_desc pk (hd_tree h) r.

  (* the header tree after an entry *)
  Definition ht_step (ht : header_tree) (e : entry) : header_tree :=
    match e_upgrade e with
    | Some u => mkHeaderTree (ht_fork ht) (tu_length u) (tree_hash cr (ref_roots cr bs (tu_length u)))
                             (tu_signature u)
    | None => ht
    end.

  (* the header in memory: the header hf of the last flush, its tree moved by the entries l, hint cg *)
  Definition hdr_after (hf : header) (l : list entry) (cg : N) : header :=
    set_contig (set_tree hf (fold_left ht_step l (hd_tree hf))) cg.

  (* the entry logged by an accepted proof application that took the replica from length a to length m;
     U = the nodes of the entries logged before it since the last flush, tf = the tree store *)
  Definition rdesc (pk : bytes) (tf : file) (U : list node) (a : N) (e : entry) (m : N) : Prop :=
    a <= m /\ m <= N.of_nat (length bs) /\
    Forall (authentic cr bs m) (e_nodes e) /\
    match e_upgrade e with
    | None => m = a
    | Some u =>
        tu_fork u = 0 /\ tu_length u = m /\ a <= tu_ancestors u /\
        length (tu_signature u) = 64%nat /\ bytes_ok (tu_signature u) = true /\
        cr_verify cr pk (signable (tree_hash cr (ref_roots cr bs m)) m 0) (tu_signature u) = true /\
        (* the roots of the new length can be looked up (the accepted proof brought them) *)
        (forall x, In x (ref_roots cr bs m) -> required_node (tU (U ++ e_nodes e)) tf (n_index x) = Ok x)
    end /\
    match e_bitfield e with
    | None => True
    | Some u => bu_drop u = false /\ bu_length u = 1 /\ bu_start u < m
    end.

  Fixpoint rchain (pk : bytes) (tf : file) (U : list node) (a : N) (l : list entry) (b : N) : Prop :=
    match l with
    | [] => a = b
    | e :: r => exists m, rdesc pk tf U a e m /\ rchain pk tf (U ++ e_nodes e) m r b
    end.

  (* the records of the roots of length kf are in the tree store (what MerkleTree::open reads) *)
  Definition store_roots (tf : file) (kf : N) : Prop :=
    forall x, In x (ref_roots cr bs kf) ->
      exists data, f_read tf (NODE_SIZE * n_index x) NODE_SIZE = Some data /\
                   node_from_bytes (n_index x) data = x.

  (* ---------- the disk alone (also what a crash leaves) ---------- *)

  Definition RDisk (pk : bytes) (d : disk) (H : N -> bool) (r : N) : Prop :=
    exists s0 s1 body st0 st1 bits hf l kf,
      f_content (d_oplog d) = s0 ++ s1 ++ body /\
      OplX cr s0 s1 body st0 st1 bits hf l /\
      hdr_rep pk hf kf /\
      rchain pk (d_tree d) [] kf l r /\
      store_roots (d_tree d) kf /\
      RTree (rtree r None (flat_map e_nodes l)) (d_tree d) (d_data d) H /\
      BfH (d_bitfield d) (updates_of l) (hd_contig hf) H.

  (* ---------- memory and disk between two calls ---------- *)

  Definition RDInv (c : core) (d : disk) (H : N -> bool) : Prop :=
    let r := t_length (c_tree c) in
    let pk := kp_public (c_keypair c) in
    SoundCore.RInv cr bs c d /\
    (forall i, bf_get (c_bitfield c) i = H i) /\
    fexact H (hd_contig (c_header c)) /\
    c_keypair c = hd_keypair (c_header c) /\
    t_signature (c_tree c) = sig_of (hd_tree (c_header c)) /\
    exists s0 s1 body st0 st1 hf l kf,
      f_content (d_oplog d) = s0 ++ s1 ++ body /\
      good cr s0 s1 body st0 st1 (ol_bits (c_oplog c)) hf l /\
      ol_entries_len (c_oplog c) = N.of_nat (length l) /\
      ol_entries_bytes (c_oplog c) = entries_size l /\
      hdr_rep pk hf kf /\
      c_header c = hdr_after hf l (hd_contig (c_header c)) /\
      rchain pk (d_tree d) [] kf l r /\
      t_unflushed (c_tree c) = add_nodes nm_empty (flat_map e_nodes l) /\
      store_roots (d_tree d) kf /\
      BfH (d_bitfield d) (updates_of l) (hd_contig hf) H /\
      BfSync (d_bitfield d) (c_bitfield c).
End Defs.

(* ====================================================================================== *)
(* C. Basic facts                                                                          *)
(* ====================================================================================== *)

Section Basic.
  Variable cr : crypto.
  Variable bs : list bytes.

  Lemma rchain_le pk tf l : forall U a b, rchain cr bs pk tf U a l b -> a <= b /\ (l <> [] -> b <= N.of_nat (length bs)).
  Proof.
    induction l as [|e l IH]; intros U a b H; cbn [rchain] in H.
    - subst. split; [lia|]. intros E. exfalso. apply E. reflexivity.
    - destruct H as (m & (H1 & H2 & _) & H). destruct (IH _ _ _ H) as [I1 I2]. split; [lia|]. intros _.
      destruct l as [|e' l']; [cbn [rchain] in H; lia|apply I2; discriminate].
  Qed.

  Lemma rchain_snoc pk tf l : forall U a m e b,
    rchain cr bs pk tf U a l m -> rdesc cr bs pk tf (U ++ flat_map e_nodes l) m e b ->
    rchain cr bs pk tf U a (l ++ [e]) b.
  Proof.
    induction l as [|e0 l IH]; intros U a m e b H He; cbn [rchain app flat_map] in *.
    - subst. rewrite app_nil_r in He. exists b. split; [exact He|reflexivity].
    - destruct H as (m0 & H0 & H). exists m0. split; [exact H0|].
      apply (IH _ _ m); [exact H|]. rewrite <- app_assoc. exact He.
  Qed.

  (* the chain does not look at the tree store beyond the lookups of its upgrade entries *)
  Lemma rchain_store pk tf tf' l : forall U a b,
    (forall V j x, required_node (tU V) tf j = Ok x -> x = ref_at cr bs j -> required_node (tU V) tf' j = Ok x) ->
    rchain cr bs pk tf U a l b -> rchain cr bs pk tf' U a l b.
  Proof.
    intros U a b Hmono. revert U a b.
    induction l as [|e l IH]; intros U a b H; cbn [rchain] in *; [exact H|].
    destruct H as (m & (H1 & H2 & H3 & H4 & H5) & H). exists m. split; [|apply IH, H].
    split; [exact H1|]. split; [exact H2|]. split; [exact H3|]. split; [|exact H5].
    destruct (e_upgrade e) as [u|]; [|exact H4].
    destruct H4 as (A1 & A2 & A3 & A4 & A5 & A6 & A7). repeat (split; [assumption|]).
    intros x Hx. apply Hmono; [apply A7, Hx|]. apply (in_ref_roots cr bs x m Hx).
  Qed.

  Lemma RTree_ext t t' tf df H H' :
    t_roots t' = t_roots t -> t_length t' = t_length t -> t_byte_length t' = t_byte_length t ->
    t_fork t' = t_fork t -> t_unflushed t' = t_unflushed t -> (forall i, H' i = H i) ->
    RTree cr bs t tf df H -> RTree cr bs t' tf df H'.
  Proof.
    intros Er El Eb Ef Eu EH (H1 & H2 & H3 & H4 & H5 & H6 & H7 & H8).
    assert (Rq : forall j, required_node t' tf j = required_node t tf j)
      by (intros j; apply required_node_same_unflushed; exact Eu).
    unfold RTree. cbv zeta. rewrite El, Ef, Er, Eb.
    split; [exact H1|]. split; [exact H2|]. split; [exact H3|]. split; [exact H4|].
    split. { intros j nd G. rewrite Eu in G. apply (H5 j nd G). }
    split; [exact H6|]. split. { intros x Hx. rewrite Rq. apply H7, Hx. }
    intros i Hi. rewrite EH in Hi. destruct (H8 i Hi) as (A1 & A2 & A3 & A4).
    split; [exact A1|]. split; [rewrite Rq; exact A2|]. split; [|exact A4].
    intros dd o C1 C2 C3. rewrite Rq. apply A3; assumption.
  Qed.

  Lemma RTree_held_lt t tf df H i : RTree cr bs t tf df H -> H i = true -> i < t_length t.
  Proof. intros (_ & _ & _ & _ & _ & _ & _ & H8) Hi. apply (H8 i Hi). Qed.

  (* ---------- headers ---------- *)

  Lemma hdr_after_fields hf l cg :
    hd_key (hdr_after cr bs hf l cg) = hd_key hf /\ hd_ns (hdr_after cr bs hf l cg) = hd_ns hf /\
    hd_mpk (hdr_after cr bs hf l cg) = hd_mpk hf /\ hd_keypair (hdr_after cr bs hf l cg) = hd_keypair hf /\
    hd_tree (hdr_after cr bs hf l cg) = fold_left (ht_step cr bs) l (hd_tree hf) /\
    hd_contig (hdr_after cr bs hf l cg) = cg.
  Proof. repeat split. Qed.

  Lemma hdr_after_nil hf : hdr_after cr bs hf [] (hd_contig hf) = hf.
  Proof. destruct hf; reflexivity. Qed.

  Lemma hdr_after_contig hf l cg cg' : set_contig (hdr_after cr bs hf l cg) cg' = hdr_after cr bs hf l cg'.
  Proof. reflexivity. Qed.

  Lemma hdr_after_snoc hf l e cg :
    hdr_after cr bs hf (l ++ [e]) cg =
    set_contig (set_tree (hdr_after cr bs hf l cg) (ht_step cr bs (hd_tree (hdr_after cr bs hf l cg)) e)) cg.
  Proof. unfold hdr_after. rewrite fold_left_app. reflexivity. Qed.

  Hypothesis Hhash32 : forall x, length (cr_hash cr x) = 32%nat.
  Hypothesis Hhashbytes : forall x, bytes_ok (cr_hash cr x) = true.

  Lemma ht_desc_step pk tf U ht a e m :
    ht_desc cr bs pk ht a -> rdesc cr bs pk tf U a e m -> ht_desc cr bs pk (ht_step cr bs ht e) m.
  Proof.
    intros (A1 & A2 & A3 & A4) (H1 & H2 & _ & H4 & _). unfold ht_step.
    destruct (e_upgrade e) as [u|].
    - destruct H4 as (B1 & B2 & _ & B4 & B5 & B6 & _). rewrite B2.
      split; [exact A1|]. split; [reflexivity|]. split; [exact H2|]. right.
      cbn [ht_root_hash ht_signature]. repeat split; assumption.
    - subst m. split; [exact A1|]. split; [exact A2|]. split; [exact A3|exact A4].
  Qed.

  Lemma ht_desc_chain pk tf l : forall U ht a b,
    ht_desc cr bs pk ht a -> rchain cr bs pk tf U a l b -> ht_desc cr bs pk (fold_left (ht_step cr bs) l ht) b.
  Proof.
    induction l as [|e l IH]; intros U ht a b Hd H; cbn [rchain fold_left] in *.
    - subst. exact Hd.
    - destruct H as (m & He & H). apply (IH (U ++ e_nodes e) _ m b); [|exact H]. apply (ht_desc_step pk tf U ht a e m Hd He).
  Qed.

  Lemma ht_desc_buffers pk ht r :
    ht_desc cr bs pk ht r -> r <= u64_max ->
    fits_u64 (ht_fork ht) = true /\ fits_u64 (ht_length ht) = true /\
    buffer_ok (ht_root_hash ht) = true /\ buffer_ok (ht_signature ht) = true /\
    len (ht_root_hash ht) <= 32 /\ len (ht_signature ht) <= 64 /\
    (ht_signature ht = [] \/ length (ht_signature ht) = 64%nat).
  Proof.
    intros (A1 & A2 & A3 & A4) Hr. rewrite A1, A2.
    split; [reflexivity|]. split; [apply fits_u64_intro, Hr|].
    destruct A4 as [(_ & -> & ->)|(-> & B2 & B3 & _)].
    - repeat split; try reflexivity; try (unfold len; cbn [length]; lia). left. reflexivity.
    - unfold tree_hash.
      split; [apply buffer_ok_intro; [unfold len; rewrite Hhash32; unfold u64_max; lia|apply Hhashbytes]|].
      split; [apply buffer_ok_intro; [unfold len; rewrite B2; unfold u64_max; lia|exact B3]|].
      split; [unfold len; rewrite Hhash32; lia|]. split; [unfold len; rewrite B2; lia|]. right. exact B2.
  Qed.

  (* the header in memory is well formed and describes the current length *)
  Lemma hdr_after_rep pk tf hf l kf r cg :
    hdr_rep cr bs pk hf kf -> rchain cr bs pk tf [] kf l r -> r <= u64_max -> cg <= u64_max ->
    hdr_rep cr bs pk (hdr_after cr bs hf l cg) r.
  Proof.
    intros (Hok & Hkp & Hd) Hch Hr Hcg.
    pose proof (ht_desc_chain pk tf l [] (hd_tree hf) kf r Hd Hch) as Hd'.
    destruct (ht_desc_buffers pk _ r Hd' Hr) as (F1 & F2 & F3 & F4 & _).
    split; [|split; [exact Hkp|exact Hd']].
    unfold header_ok in *. split_ok Hok.
    unfold hdr_after. cbn [set_contig set_tree hd_key hd_ns hd_mpk hd_keypair hd_tree hd_contig].
    rewrite Hok, Hok7, Hok6, Hok5, F1, F2, F3, F4. cbn [andb]. apply fits_u64_intro, Hcg.
  Qed.
End Basic.

(* ====================================================================================== *)
(* D. What RDInv determines: the tree in memory, the disk part, the observations (goal 4)   *)
(* ====================================================================================== *)

Section Obs.
  Variable cr : crypto.
  Hypothesis Hhash32 : forall x, length (cr_hash cr x) = 32%nat.
  Hypothesis Hnonblank : forall x, all_zero (cr_hash cr x) = false.
  Variable bs : list bytes.
  Hypothesis Hw : writer_fits bs.

  Lemma RDInv_RInv c d H : RDInv cr bs c d H -> SoundCore.RInv cr bs c d.
  Proof. intros [W _]. exact W. Qed.

  (* the replica holds no secret key *)
  Lemma RDInv_keypair c d H :
    RDInv cr bs c d H -> c_keypair c = mkKeypair (kp_public (c_keypair c)) None.
  Proof.
    intros (_ & _ & _ & Hk & _ & s0 & s1 & body & st0 & st1 & hf & l & kf & _ & _ & _ & _ & (_ & Hkp & _) & Hh & _).
    rewrite Hk at 1. rewrite Hh. destruct (hdr_after_fields cr bs hf l (hd_contig (c_header c))) as (_ & _ & _ & -> & _).
    exact Hkp.
  Qed.

  (* every held index lies below the replica's length *)
  Lemma RDInv_held_lt c d H i : RDInv cr bs c d H -> H i = true -> i < t_length (c_tree c).
  Proof.
    intros (W & Hb & _) Hi. destruct W as (_ & _ & _ & _ & _ & _ & _ & H8).
    rewrite <- Hb in Hi. apply (H8 i Hi).
  Qed.

  (* the tree in memory is the tree a replay of the disk constructs *)
  Lemma RDInv_tree c d H :
    RDInv cr bs c d H ->
    exists l, c_tree c = rtree cr bs (t_length (c_tree c)) (sig_of (hd_tree (c_header c))) (flat_map e_nodes l).
  Proof.
    intros ((_ & H2 & H3 & H4 & _) & _ & _ & _ & Hs & s0 & s1 & body & st0 & st1 & hf & l & kf &
            _ & _ & _ & _ & _ & _ & _ & Hu & _).
    exists l. unfold rtree. rewrite <- Hs, <- Hu, <- H3, <- H4, <- H2. destruct (c_tree c); reflexivity.
  Qed.

  (* the disk part alone *)
  Theorem RDInv_RDisk c d H :
    RDInv cr bs c d H -> RDisk cr bs (kp_public (c_keypair c)) d H (t_length (c_tree c)).
  Proof.
    intros (W & Hb & Hex & Hk & Hs & s0 & s1 & body & st0 & st1 & hf & l & kf &
            Hcont & G & Hlen & Hbytes & Hhf & Hh & Hch & Hu & Hst & Hbf & Hsync).
    exists s0, s1, body, st0, st1, (ol_bits (c_oplog c)), hf, l, kf.
    split; [exact Hcont|]. split; [left; exact G|]. split; [exact Hhf|]. split; [exact Hch|].
    split; [exact Hst|]. split; [|exact Hbf].
    apply (RTree_ext cr bs (c_tree c) _ _ _ (bf_get (c_bitfield c)) H); try reflexivity.
    - cbn [rtree t_roots]. destruct W as (_ & _ & -> & _). reflexivity.
    - cbn [rtree t_byte_length]. destruct W as (_ & _ & _ & -> & _). reflexivity.
    - cbn [rtree t_fork]. destruct W as (_ & -> & _). reflexivity.
    - cbn [rtree t_unflushed]. symmetry. exact Hu.
    - intros i. symmetry. apply Hb.
    - apply RInv_RTree, W.
  Qed.

  (* ---------- goal 4: observations, for every index (any number of bitfield pages) ---------- *)

  Theorem RD_has c d H i : RDInv cr bs c d H -> core_has c i = H i.
  Proof. intros (_ & Hb & _). unfold core_has. apply Hb. Qed.

  (* the reported contiguous length is the smallest index the replica does not hold *)
  Theorem RD_contiguous c d H :
    RDInv cr bs c d H ->
    (forall i, i < i_contiguous (core_info c) -> H i = true) /\ H (i_contiguous (core_info c)) = false.
  Proof. intros (_ & _ & Hex & _). exact Hex. Qed.

  Theorem RD_info c d H :
    RDInv cr bs c d H ->
    let r := t_length (c_tree c) in
    core_info c = mkInfo r (prefix_size bs r) (hd_contig (c_header c)) 0 false /\
    r <= N.of_nat (length bs) /\ fexact H (hd_contig (c_header c)).
  Proof.
    intros D. pose proof (RDInv_keypair c d H D) as K.
    destruct D as ((H1 & H2 & _ & H4 & _) & _ & Hex & _). cbv zeta.
    split; [|split; [exact H1|exact Hex]].
    unfold core_info. rewrite H4, H2, K. reflexivity.
  Qed.

  (* a read returns the writer's block exactly for the held indices, nothing otherwise *)
  Theorem RD_get c d H j ev i :
    RDInv cr bs c d H ->
    core_get i c (mkWorld d j ev) =
    if H i then (c, mkWorld d j ev, Ok (Some (blk bs i)))
    else (c, mkWorld d j (EvGet i :: ev), Ok None).
  Proof.
    intros (W & Hb & _). rewrite (get_replica cr bs Hw c d j ev i W), Hb. reflexivity.
  Qed.

  (* all observations as one predicate: what a replica that holds exactly the blocks in H out of the first
     r blocks of the writer shows *)
  Definition obs_replica (c : core) (d : disk) (H : N -> bool) (r : N) : Prop :=
    (exists cg, core_info c = mkInfo r (prefix_size bs r) cg 0 false /\ fexact H cg) /\
    (forall i, core_has c i = H i) /\
    (forall i j ev, core_get i c (mkWorld d j ev) =
                    if H i then (c, mkWorld d j ev, Ok (Some (blk bs i)))
                    else (c, mkWorld d j (EvGet i :: ev), Ok None)).

  Theorem RD_observations c d H : RDInv cr bs c d H -> obs_replica c d H (t_length (c_tree c)).
  Proof.
    intros D. split; [|split].
    - exists (hd_contig (c_header c)). destruct (RD_info c d H D) as (A & _ & B). split; assumption.
    - intros i. apply (RD_has c d H i D).
    - intros i j ev. apply (RD_get c d H j ev i D).
  Qed.

  (* two states with the same held set and length show the same observations *)
  Lemma obs_replica_same c d c' d' H r :
    obs_replica c d H r -> obs_replica c' d' H r ->
    core_info c' = core_info c /\ (forall i, core_has c' i = core_has c i) /\
    (forall i j ev, snd (core_get i c' (mkWorld d' j ev)) = snd (core_get i c (mkWorld d j ev))).
  Proof.
    intros ((cg & I & E) & Hh & Hg) ((cg' & I' & E') & Hh' & Hg').
    split; [rewrite I, I', (fexact_unique H cg cg' E E'); reflexivity|].
    split; [intros i; rewrite Hh, Hh'; reflexivity|].
    intros i j ev. rewrite Hg, Hg'. destruct (H i); reflexivity.
  Qed.
End Obs.

(* ====================================================================================== *)
(* E. Goal 1: the fresh replica                                                            *)
(* ====================================================================================== *)

Section Fresh.
  Variable cr : crypto.
  Hypothesis Hcrc : crc_ok cr.
  Hypothesis Hhash32 : forall x, length (cr_hash cr x) = 32%nat.
  Hypothesis Hnonblank : forall x, all_zero (cr_hash cr x) = false.
  Variable bs : list bytes.

  Lemma fexact_none : fexact (fun _ : N => false) 0.
  Proof. split; [intros i Hi; lia|reflexivity]. Qed.

  Lemma fbit_empty i : fbit file_empty i = false.
  Proof.
    unfold fbit, fbyte. cbn [file_empty f_len].
    destruct (N.ltb_spec (i / 8) 0); [lia|]. apply N.bits_0.
  Qed.

  (* creating a replica from the public key alone on empty storage *)
  Theorem RDInv_fresh kp :
    keypair_ok kp = true -> kp_secret kp = None ->
    exists d' ops c,
      core_open cr (Some kp) false disk_empty = (d', ops, Ok c) /\
      RDInv cr bs c d' (fun _ => false) /\ c_keypair c = kp /\ t_length (c_tree c) = 0.
  Proof.
    intros Hkp Hsec.
    destruct (oplog_fresh_then_open cr Hcrc kp Hkp) as (buf & s0 & Hf & _ & _ & Hca & G & _ & _).
    unfold core_open. cbv iota.
    change (f_content (d_oplog disk_empty)) with (@nil N).
    rewrite (oplog_open_empty cr kp _ _ _ Hf). cbn [oo_ops oo_header oo_entries oo_oplog].
    destruct (apply_sops disk_empty [SW Oplog 0 buf; ST Oplog (ENTRIES_OFFSET + 0)]) as [d1|] eqn:Ea;
      [|cbn in Ea; discriminate Ea].
    assert (Hcontent : f_content (d_oplog d1) = s0 ++ zeros (N.to_nat HEADER_SIZE) ++ []).
    { apply (c_apply_all_sound [SW Oplog 0 buf; ST Oplog (ENTRIES_OFFSET + 0)] disk_empty d1);
        [repeat constructor|exact Ea|exact Hca]. }
    assert (Htree : d_tree d1 = file_empty /\ d_bitfield d1 = file_empty /\ d_data d1 = file_empty).
    { cbn in Ea. injection Ea as <-. repeat split. }
    destruct Htree as (Ht & Hb & Hd). rewrite Ht, Hb.
    cbn [header_new hd_tree].
    assert (T : tree_open (mkHeaderTree 0 0 [] []) file_empty = Ok (mkTree [] 0 0 0 None nm_empty))
      by reflexivity.
    rewrite T. cbn [bind].
    assert (Bo : bf_open file_empty = mkBf nm_empty []) by reflexivity.
    rewrite Bo. cbn [replay_entries bind hd_keypair].
    do 3 eexists. split; [reflexivity|]. split; [|split; reflexivity].
    assert (Epk : kp = mkKeypair (kp_public kp) None) by (destruct kp as [p s]; cbn in Hsec; subst s; reflexivity).
    unfold RDInv. cbv zeta. cbn [c_tree c_bitfield c_header c_keypair c_oplog t_length t_signature t_unflushed].
    split.
    { unfold SoundCore.RInv. cbn [c_tree c_bitfield t_length t_byte_length t_fork t_roots].
      rewrite Ht, Hd.
      split; [lia|]. split; [reflexivity|]. split; [reflexivity|].
      split; [symmetry; apply prefix_size_0|].
      split. { intros i x H. cbn [t_unflushed] in H. rewrite nm_get_empty in H. discriminate H. }
      split. { split; [reflexivity|]. intros i data H. unfold f_read, file_empty in H. cbn [f_len] in H.
               destruct (N.leb_spec (NODE_SIZE * i + NODE_SIZE) 0); [unfold NODE_SIZE in *; lia|discriminate H]. }
      split. { intros x []. }
      intros i H. unfold bf_get in H. cbn [bf_bits] in H. rewrite nm_mem_empty in H. discriminate H. }
    split. { intros i. unfold bf_get. cbn [bf_bits]. apply nm_mem_empty. }
    split; [apply fexact_none|]. split; [reflexivity|]. split; [reflexivity|].
    exists s0, (zeros (N.to_nat HEADER_SIZE)), [], (SValid (header_new kp) false), SInvalid, (header_new kp), [], 0.
    cbn [ol_bits ol_entries_len ol_entries_bytes length flat_map updates_of].
    split; [exact Hcontent|]. split; [exact G|]. split; [reflexivity|]. split; [reflexivity|].
    split.
    { split; [apply header_new_ok, Hkp|]. split; [cbn [header_new hd_keypair]; exact Epk|].
      cbn [header_new hd_tree]. split; [reflexivity|]. split; [reflexivity|]. split; [lia|].
      left. repeat split. }
    split; [reflexivity|]. split; [reflexivity|]. split; [reflexivity|].
    split. { intros x []. }
    split.
    { rewrite Hb. apply BfH_exact; [reflexivity|intros i; apply fbit_empty|apply fexact_none]. }
    intros i Hne. exfalso. apply Hne. rewrite Hb, fbit_empty. unfold bf_get. cbn [bf_bits]. apply nm_mem_empty.
  Qed.
End Fresh.

Print Assumptions RDInv_RDisk.
Print Assumptions RD_has.
Print Assumptions RD_contiguous.
Print Assumptions RD_info.
Print Assumptions RD_get.
Print Assumptions RD_observations.
Print Assumptions RDInv_fresh.

(* NMap.v — finite maps keyed by N (thin wrapper over the standard library's PositiveMap trie). *)
From HC Require Export Base.
From Coq Require Import FMapPositive.

Definition nmap (A : Type) := PositiveMap.t A.
Definition nm_empty {A} : nmap A := PositiveMap.empty A.
Definition nm_get {A} (i : N) (m : nmap A) : option A := PositiveMap.find (N.succ_pos i) m.
Definition nm_set {A} (i : N) (v : A) (m : nmap A) : nmap A := PositiveMap.add (N.succ_pos i) v m.
Definition nm_del {A} (i : N) (m : nmap A) : nmap A := PositiveMap.remove (N.succ_pos i) m.
Definition nm_mem {A} (i : N) (m : nmap A) : bool :=
  match nm_get i m with Some _ => true | None => false end.
Definition nm_elements {A} (m : nmap A) : list (N * A) :=
  map (fun kv => (Pos.pred_N (fst kv), snd kv)) (PositiveMap.elements m).
Definition nm_is_empty {A} (m : nmap A) : bool := PositiveMap.is_empty m.

Lemma nm_get_empty {A} i : nm_get i (@nm_empty A) = None.
Proof. unfold nm_get, nm_empty. apply PositiveMap.gempty. Qed.

Lemma nm_get_set_same {A} i (v : A) m : nm_get i (nm_set i v m) = Some v.
Proof. unfold nm_get, nm_set. apply PositiveMap.gss. Qed.

Lemma succ_pos_inj i j : N.succ_pos i = N.succ_pos j -> i = j.
Proof.
  intros H. apply (f_equal Pos.pred_N) in H. now rewrite !N.pos_pred_succ in H.
Qed.

Lemma nm_get_set_other {A} i j (v : A) m : i <> j -> nm_get i (nm_set j v m) = nm_get i m.
Proof.
  unfold nm_get, nm_set. intros H. apply PositiveMap.gso. intros E. apply H. now apply succ_pos_inj.
Qed.

Lemma nm_get_del_same {A} i (m : nmap A) : nm_get i (nm_del i m) = None.
Proof. unfold nm_get, nm_del. apply PositiveMap.grs. Qed.

Lemma nm_get_del_other {A} i j (m : nmap A) : i <> j -> nm_get i (nm_del j m) = nm_get i m.
Proof.
  unfold nm_get, nm_del. intros H. apply PositiveMap.gro. intros E. apply H. now apply succ_pos_inj.
Qed.

Lemma nm_get_set {A} i j (v : A) m :
  nm_get i (nm_set j v m) = if i =? j then Some v else nm_get i m.
Proof.
  destruct (N.eqb_spec i j) as [->|Hne]; [apply nm_get_set_same | now apply nm_get_set_other].
Qed.

Lemma nm_get_del {A} i j (m : nmap A) :
  nm_get i (nm_del j m) = if i =? j then None else nm_get i m.
Proof.
  destruct (N.eqb_spec i j) as [->|Hne]; [apply nm_get_del_same | now apply nm_get_del_other].
Qed.

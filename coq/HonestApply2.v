(* HonestApply2.v -- C03 at the core level for every well-formed request, part 2:
   committing a changeset of reference nodes keeps the replica invariant -- directly, with no soundness reduction:
     commit_reference_changeset_keeps_RInv : SoundCore.RInv after tree_commit (+ the block's bit and bytes),
                                             the stored nodes stay closed, the nodes lie inside the new tree;
     apply_tail_honest                     : core_apply_proof on such a changeset returns Ok true and keeps
                                             RCInv (= ReplicaDisk1.RDInv + closed stored nodes), for every flush
                                             decision, no collision / forged-signature clause. *)
From HC Require Import Base NMap Codec CodecFacts Crypto FlatTree Storage Bitfield Oplog Merkle Core.
From HC Require Import FlatTreeFacts StorageFacts BitfieldFacts Sound NoPanic TreeRef OffsetFacts CoreFacts Refine Replicate Replicate2 Replicate2Z Replicate2D Replicate2E.
From HC Require Import Unified1 SoundCoreLib SoundCore SoundCoreUp SoundCoreBU ReplicaDisk1 ReplicaDisk2 ReplicaDisk3 ReplicaDisk4.
From HC Require Import AcceptAll1 AcceptAll2 AcceptAll3 AcceptAll AcceptAllCore1 AcceptAllClo AcceptAllClo2 AcceptAllFlush AcceptAllCore2 AcceptAllCore3.
From HC Require Import HonestApply1.
From Coq Require Import FMapPositive ZifyN ZifyNat ZifyBool.
Ltac Zify.zify_post_hook ::= Z.div_mod_to_equations.
Arguments N.add : simpl never.
Arguments N.sub : simpl never.
Arguments N.mul : simpl never.
Arguments N.div : simpl never.
Arguments N.modulo : simpl never.
Arguments N.pow : simpl never.
Arguments N.eqb : simpl never.
Arguments N.ltb : simpl never.
Arguments N.leb : simpl never.
Arguments N.of_nat : simpl never.
Arguments N.to_nat : simpl never.
Arguments N.log2 : simpl never.

Section Commit.
  Variable cr : crypto.
  Hypothesis Hhash32 : forall x, length (cr_hash cr x) = 32%nat.
  Hypothesis Hnonblank : forall x, all_zero (cr_hash cr x) = false.
  Variable bs : list bytes.
  Hypothesis Hw : writer_fits bs.

  Lemma path_reads_left_avail t tf i m :
    path_reads cr bs t tf m i -> left_avail cr bs t tf i m.
  Proof.
    intros P dd o C1 C2 C3. apply (P dd o); rewrite ?p2_S; pose proof (p2_pos dd); nia.
  Qed.

  (* the bit and the bytes of the block section, if there is one *)
  Definition block_stored (ob : option N) (cs : changeset) (c c2 : core) (d d2 : disk) : Prop :=
    match ob with
    | Some i =>
        In (ref_node cr bs 0 i) (cs_nodes cs) /\
        (forall i', bf_get (c_bitfield c2) i' = bf_get (bf_apply (c_bitfield c) (mkBfUpdate false i 1)) i') /\
        d_data d2 = f_write (d_data d) (prefix_size bs i) (blk bs i)
    | None =>
        (forall i', bf_get (c_bitfield c2) i' = bf_get (c_bitfield c) i') /\ d_data d2 = d_data d
    end.

  Theorem commit_reference_changeset_keeps_RInv c d c2 d2 pf pk cs ob :
    SoundCore.RInv cr bs c d -> ClosedR (c_tree c) (d_tree d) ->
    verify_proof cr (c_tree c) (d_tree d) pf pk = Ok cs ->
    tree_commit (c_tree c) cs = Ok (c_tree c2) ->
    Forall (is_ref cr bs) (cs_nodes cs) ->
    let r := t_length (c_tree c) in
    let m := if cs_upgraded cs then cs_length cs else r in
    r <= m -> m <= N.of_nat (length bs) ->
    (cs_upgraded cs = true ->
     cs_roots cs = ref_roots cr bs m /\ cs_byte_length cs = prefix_size bs m /\ cs_fork cs = 0) ->
    d_tree d2 = d_tree d ->
    block_stored ob cs c c2 d d2 ->
    SoundCore.RInv cr bs c2 d2 /\ ClosedR (c_tree c2) (d_tree d2) /\
    Forall (authentic cr bs m) (cs_nodes cs) /\ t_length (c_tree c2) = m /\
    (forall j, navail (c_tree c2) (d_tree d2) j <->
               navail (c_tree c) (d_tree d) j \/ In j (map n_index (cs_nodes cs))).
  Proof.
    intros W Hclo Hv TC Href r m Hrm Hmn Hup Edt Hblk.
    pose proof W as (H1 & H2 & H3 & H4 & H5 & H6 & H7 & H8).
    set (t := c_tree c) in *. set (tf := d_tree d) in *. set (t' := c_tree c2) in *.
    fold r in H1, H3, H4, H5, H6.
    destruct Hw as [Hw1 Hw2].
    assert (HRt : forall x, In x (t_roots t) -> navail t tf (n_index x)).
    { intros x Hx. exists x. apply H7, Hx. }
    destruct (verify_proof_good cr t tf pf pk cs Hclo HRt Hv) as (_ & _ & Hsame).
    destruct (tree_commit_inv t cs t' TC) as (Eu & Htcase).
    (* the fields of the committed tree *)
    assert (Hf : t_roots t' = ref_roots cr bs m /\ t_length t' = m /\ t_byte_length t' = prefix_size bs m /\
                 t_fork t' = 0 /\ cs_roots cs = ref_roots cr bs m).
    { unfold m in *. destruct Htcase as [(Up & Tr & Tl & Tb & Tf & _)|(Up & Tr & Tl & Tb & Tf & _)].
      - rewrite Tr, Tl, Tb, Tf, (Hsame Up), Up. fold r. rewrite H2, H3, H4. auto.
      - destruct (Hup Up) as (U1 & U2 & U3). rewrite Tr, Tl, Tb, Tf. rewrite Up in *. auto. }
    destruct Hf as (Tr & Tl & Tb & Tf & Ecr).
    (* the nodes *)
    assert (Hold : forall j n, required_node t tf j = Ok n -> in_len r j).
    { intros j n Hn. apply (required_node_sound cr bs t tf r j n H5 H6 Hn). }
    pose proof (nodes_authentic cr bs t tf pf pk cs r m Hv Hold Hrm Ecr Href) as Hauth.
    assert (Hnb : forall x, In x (cs_nodes cs) -> node_blank x = false).
    { intros x Hx. rewrite Forall_forall in Href. rewrite (Href x Hx). apply (T_nonblank cr Hnonblank bs). }
    destruct (verify_commit_closed_gen cr t tf pf pk cs t' Hclo HRt Hv Hnb TC) as (Hclo2 & Hrn & Hav).
    assert (Hu' : unfl_sound cr bs t' m).
    { apply (add_nodes_sound cr bs t t' m (cs_nodes cs)); [apply (unfl_sound_mono cr bs t r m Hrm H5)| |exact Eu].
      rewrite Forall_forall in Hauth. exact Hauth. }
    assert (Hf' : file_sound cr bs tf m) by (apply (file_sound_mono cr bs tf r m Hrm H6)).
    assert (Hsound' : forall j n, required_node t' tf j = Ok n -> n = ref_at cr bs j /\ in_len m j).
    { intros j n Hn. apply (required_node_sound cr bs t' tf m j n Hu' Hf' Hn). }
    assert (H64m : 2 * m <= u64_max) by (unfold NODE_SIZE in Hw2; lia).
    (* a stored node is looked up as the writer's node *)
    assert (Hlook : forall dd oo, navail t' tf (ft_index (N.of_nat dd) oo) ->
                      required_node t' tf (ft_index (N.of_nat dd) oo) = Ok (ref_node cr bs dd oo)).
    { intros dd oo (n & Hn). rewrite Hn. f_equal. destruct (Hsound' _ _ Hn) as [-> _]. apply ref_at_index. }
    split; [|split; [rewrite Edt; exact Hclo2|split; [exact Hauth|split; [exact Tl|rewrite Edt; exact Hav]]]].
    unfold SoundCore.RInv. cbv zeta. fold t'. rewrite Edt. fold tf. rewrite Tl, Tr, Tb, Tf.
    split; [exact Hmn|]. split; [reflexivity|]. split; [reflexivity|]. split; [reflexivity|].
    split; [exact Hu'|]. split; [exact Hf'|]. split.
    { intros x Hx. destruct (root_is_ref cr bs m x Hx) as (D & P & -> & _).
      rewrite ref_node_index. apply Hlook. rewrite <- (ref_node_index cr bs D P). apply Hrn.
      rewrite Tr. exact Hx. }
    (* the held blocks: the leaf is stored, hence (closed stored nodes) every left sibling above it *)
    assert (Hheld : forall i', navail t' tf (2 * i') ->
              i' < m /\ required_node t' tf (2 * i') = Ok (ref_node cr bs 0 i') /\ left_avail cr bs t' tf i' m).
    { intros i' Hn. replace (2 * i') with (ft_index (N.of_nat 0) i') in Hn |- *
        by (change (N.of_nat 0) with 0; apply ft_index_leaf).
      split; [|split; [apply Hlook, Hn|]].
      - destruct Hn as (n & Hn). destruct (Hsound' _ _ Hn) as [_ Hin]. apply in_len_index in Hin.
        rewrite p2_0 in Hin. lia.
      - apply path_reads_left_avail.
        pose proof (closed_path_reads cr bs t' tf m Hclo2 Tr Hsound' H64m 0 i' Hn) as P.
        rewrite p2_0, N.mul_1_r in P. exact P. }
    assert (Hkeep : forall i', bf_get (c_bitfield c) i' = true -> navail t' tf (2 * i')).
    { intros i' Hi'. apply Hav. left. destruct (H8 i' Hi') as (_ & A2 & _). eexists. exact A2. }
    intros i' Hi'. unfold block_stored in Hblk. destruct ob as [i|].
    - destruct Hblk as (Hleaf & Hb & Hdd). rewrite Hdd.
      rewrite Hb, bf_get_apply in Hi'. cbn [bu_start bu_length bu_drop negb] in Hi'.
      destruct (N.eq_dec i' i) as [->|Hne].
      + assert (Hn : navail t' tf (2 * i)).
        { apply Hav. right. apply in_map_iff. exists (ref_node cr bs 0 i). split; [|exact Hleaf].
          rewrite ref_node_index. change (N.of_nat 0) with 0. apply ft_index_leaf. }
        destruct (Hheld i Hn) as (A1 & A2 & A3).
        split; [exact A1|]. split; [exact A2|]. split; [exact A3|]. intros _. apply f_read_write_same.
      + assert (Hold' : bf_get (c_bitfield c) i' = true).
        { destruct ((i <=? i') && (i' <? i + 1)) eqn:E; [lia|exact Hi']. }
        destruct (Hheld i' (Hkeep i' Hold')) as (A1 & A2 & A3).
        split; [exact A1|]. split; [exact A2|]. split; [exact A3|].
        destruct (H8 i' Hold') as (_ & _ & _ & A4).
        intros Hlen. specialize (A4 Hlen). pose proof A4 as A4'. apply f_read_spec in A4'.
        destruct A4' as (Bd & _ & _).
        rewrite f_read_write_other; [exact A4|exact Bd|].
        destruct (N.lt_ge_cases i' i) as [L|L].
        * left. rewrite <- prefix_size_succ. apply prefix_size_le_mono. lia.
        * right. rewrite <- prefix_size_succ. apply prefix_size_le_mono. lia.
    - destruct Hblk as (Hb & Hdd). rewrite Hdd. rewrite Hb in Hi'.
      destruct (Hheld i' (Hkeep i' Hi')) as (A1 & A2 & A3).
      split; [exact A1|]. split; [exact A2|]. split; [exact A3|].
      destruct (H8 i' Hi') as (_ & _ & _ & A4). exact A4.
  Qed.
End Commit.


Section Apply.
  Variable cr : crypto.
  Hypothesis Hcrc : OplogFacts.crc_ok cr.
  Hypothesis Hhash32 : forall x, length (cr_hash cr x) = 32%nat.
  Hypothesis Hnonblank : forall x, all_zero (cr_hash cr x) = false.
  Hypothesis Hhashbytes : forall x, bytes_ok (cr_hash cr x) = true.
  Variable bs : list bytes.
  Hypothesis Hw : writer_fits bs.

  (* what the changeset of an honest proof looks like (all of it follows from AcceptAll.accepted) *)
  Definition honest_changeset (c : core) (pf : proof) (cs : changeset) : Prop :=
    Forall (is_ref cr bs) (cs_nodes cs) /\
    (forall b, p_block pf = Some b ->
       In (ref_node cr bs 0 (db_index b)) (cs_nodes cs) /\ db_index b * 2 <= u64_max /\
       db_value b = blk bs (db_index b)) /\
    (cs_upgraded cs = true ->
       cs_ancestors cs = t_length (c_tree c) /\ t_length (c_tree c) <= cs_length cs /\
       cs_length cs <= N.of_nat (length bs) /\
       cs_roots cs = ref_roots cr bs (cs_length cs) /\
       cs_byte_length cs = prefix_size bs (cs_length cs) /\ cs_fork cs = 0) /\
    (p_upgrade pf = None -> cs_upgraded cs = false) /\
    match p_upgrade pf with Some u => bytes_ok (du_signature u) = true | None => True end.

  (* the commit step on memory + disk: the entry is logged, the tree committed, the block's bit set *)
  Theorem commit_reference_changeset_keeps_RDInv pf c d d1 H cs bu j1 ev1 c2 w2 :
    RCInv cr bs c d H ->
    verify_proof cr (c_tree c) (d_tree d) pf (kp_public (c_keypair c)) = Ok cs ->
    honest_changeset c pf cs ->
    bu = match p_block pf with Some b => Some (mkBfUpdate false (db_index b) 1) | None => None end ->
    d_tree d1 = d_tree d -> d_oplog d1 = d_oplog d -> d_bitfield d1 = d_bitfield d ->
    d_data d1 = match p_block pf with
                | Some b => f_write (d_data d) (prefix_size bs (db_index b)) (blk bs (db_index b))
                | None => d_data d
                end ->
    log_and_commit cr cs bu c (mkWorld d1 j1 ev1) = (c2, w2, Ok tt) ->
    let m := if cs_upgraded cs then cs_length cs else t_length (c_tree c) in
    RCInv cr bs c2 (w_disk w2) (held_after H bu) /\
    t_length (c_tree c2) = m /\ c_keypair c2 = c_keypair c /\
    (forall j, navail (c_tree c2) (d_tree (w_disk w2)) j <->
               navail (c_tree c) (d_tree d) j \/ In j (map n_index (cs_nodes cs))).
  Proof.
    intros [X Hclo] V0 (Href & Hblk & Hup & Hnoup & Hsb) Ebu Et1 Eo1 Eb1 Ed1 Hlc m0.
    pose proof (RDInv_RInv cr bs c d H X) as W.
    pose proof W as (Wr & Wf & Wroots & Wbl & Wu & Wfs & Wrl & Wheld).
    set (r := t_length (c_tree c)) in *.
    set (m := if cs_upgraded cs then cs_length cs else r) in *.
    assert (Hrm : r <= m) by (unfold m; destruct (cs_upgraded cs); [apply (Hup eq_refl)|lia]).
    assert (Hmn : m <= N.of_nat (length bs)) by (unfold m; destruct (cs_upgraded cs); [apply (Hup eq_refl)|exact Wr]).
    assert (Hsig : cs_upgraded cs = true ->
                   exists sg, cs_signature cs = Some sg /\ length sg = 64%nat /\ bytes_ok sg = true /\
                     cs_hash cs = Some (tree_hash cr (cs_roots cs)) /\
                     cr_verify cr (kp_public (c_keypair c))
                       (signable (tree_hash cr (cs_roots cs)) (cs_length cs) (cs_fork cs)) sg = true).
    { intros Up. destruct (p_upgrade pf) as [u|] eqn:Eu.
      - destruct (verify_proof_upgrade_sig cr _ _ pf _ cs u Eu V0) as (L & S & Hh' & Hv & _).
        exists (du_signature u). repeat split; assumption.
      - rewrite (Hnoup eq_refl) in Up. discriminate Up. }
    assert (Hanc : cs_upgraded cs = true -> cs_ancestors cs = r) by (intros Up; apply (Hup Up)).
    destruct (log_and_commit_inv cr cs bu c _ c2 w2 tt Hlc) as (t' & TC & Et' & _ & Ebf & Edt & Edd).
    cbn [w_disk] in Edt, Edd.
    destruct (commit_reference_changeset_keeps_RInv cr Hhash32 Hnonblank bs Hw c d c2 (w_disk w2) pf _ cs
                (option_map db_index (p_block pf)) W Hclo V0 ltac:(rewrite Et'; exact TC) Href)
      as (W2' & Hclo2 & Hauth & Em2 & Hav2).
    { exact Hrm. }
    { exact Hmn. }
    { intros Up. fold r m. unfold m. rewrite Up. apply (Hup Up). }
    { rewrite Edt. exact Et1. }
    { unfold block_stored. rewrite Ebu in Ebf. destruct (p_block pf) as [b|]; cbn [option_map].
      - destruct (Hblk b eq_refl) as (Hleaf & _ & _). split; [exact Hleaf|].
        split; [intros i'; rewrite Ebf; reflexivity|]. rewrite Edd. exact Ed1.
      - split; [intros i'; rewrite Ebf; reflexivity|]. rewrite Edd. exact Ed1. }
    fold r m in Hauth, Em2.
    assert (Hbus : match bu with Some u => bu_drop u = false /\ bu_length u = 1 | None => True end).
    { rewrite Ebu. destruct (p_block pf); [split; reflexivity|exact I]. }
    destruct (RDInv_commit cr Hcrc Hhash32 Hnonblank Hhashbytes bs Hw c d d1 H cs bu j1 ev1 c2 w2 tt
                X Et1 Eo1 Eb1 Hlc W2' Hrm Hmn Hauth Hanc Hsig Hbus) as (X2 & Em & Ek2 & _).
    split; [split; [exact X2|exact Hclo2]|]. split; [exact Em|]. split; [exact Ek2|exact Hav2].
  Qed.

  Theorem apply_tail_honest f pf c d j ev H cs :
    RCInv cr bs c d H ->
    p_fork pf = t_fork (c_tree c) ->
    verifier_says cr c (mkWorld d j ev) pf = Ok cs ->
    commitable (c_tree c) cs = true ->
    honest_changeset c pf cs ->
    frame_guard cr c d pf ->
    exists c' w',
      core_apply_proof cr f pf c (mkWorld d j ev) = (c', w', Ok true) /\
      RCInv cr bs c' (w_disk w') (hold H (p_block pf)) /\
      t_length (c_tree c') = (if cs_upgraded cs then cs_length cs else t_length (c_tree c)) /\
      c_keypair c' = c_keypair c /\
      (* every supplied node is stored, with the writer's size and hash *)
      (forall x, In x (cs_nodes cs) ->
         required_node (c_tree c') (d_tree (w_disk w')) (n_index x) = Ok (ref_at cr bs (n_index x))).
  Proof.
    intros [X Hclo] Ef V Cm (Href & Hblk & Hup & Hnoup & Hsb) Hframe.
    pose proof (RDInv_RInv cr bs c d H X) as W.
    pose proof W as (Wr & Wf & Wroots & Wbl & Wu & Wfs & Wrl & Wheld).
    pose proof V as V0. unfold verifier_says in V0. cbn [w_disk] in V0.
    pose proof Hw as [Hw1 Hw2].
    set (r := t_length (c_tree c)) in *.
    set (m := if cs_upgraded cs then cs_length cs else r).
    assert (H64r : 2 * r <= u64_max) by (unfold NODE_SIZE in Hw2; lia).
    assert (Hrm : r <= m) by (unfold m; destruct (cs_upgraded cs); [apply (Hup eq_refl)|lia]).
    assert (Hmn : m <= N.of_nat (length bs)) by (unfold m; destruct (cs_upgraded cs); [apply (Hup eq_refl)|exact Wr]).
    assert (HRt : forall x, In x (t_roots (c_tree c)) -> navail (c_tree c) (d_tree d) (n_index x)).
    { intros x Hx. exists x. apply Wrl, Hx. }
    assert (Ecr : cs_roots cs = ref_roots cr bs m).
    { unfold m. destruct (cs_upgraded cs) eqn:Up; [apply (Hup eq_refl)|].
      destruct (verify_proof_good cr _ _ pf _ cs Hclo HRt V0) as (_ & _ & Hsame). rewrite (Hsame Up). exact Wroots. }
    (* 1. the block part: the block is written at the writer's offset *)
    assert (Hbp : exists w1 bu,
              block_part pf c d cs c (mkWorld d j ev) = (c, w1, Ok bu) /\
              bu = match p_block pf with Some b => Some (mkBfUpdate false (db_index b) 1) | None => None end /\
              d_tree (w_disk w1) = d_tree d /\ d_oplog (w_disk w1) = d_oplog d /\
              d_bitfield (w_disk w1) = d_bitfield d /\
              d_data (w_disk w1) = match p_block pf with
                                   | Some b => f_write (d_data d) (prefix_size bs (db_index b)) (blk bs (db_index b))
                                   | None => d_data d
                                   end).
    { unfold block_part. destruct (p_block pf) as [b|] eqn:Eb.
      - destruct (Hblk b eq_refl) as (Hleaf & Hb64 & Hval).
        pose proof (offset_value cr bs (c_tree c) (d_tree d) r Hclo Wroots Wbl eq_refl
                      (replica_sound cr bs c d H X) H64r Hw1 (db_index b) cs m Hb64 Href Hleaf Ecr
                      (verify_proof_parent_later cr _ _ pf _ cs V0)) as Hoff.
        rewrite mbind_lift, Hoff. rewrite mbind_emit_SW. unfold ret. eexists _, _. split; [reflexivity|].
        cbn [w_disk]. rewrite Hval. destruct d as [f1 f2 f3 f4]. repeat split.
      - unfold ret. eexists _, _. split; [reflexivity|]. repeat split. }
    destruct Hbp as (w1 & bu & Hbu & Ebu & Et1 & Eo1 & Eb1 & Ed1).
    (* the signature of an upgraded changeset *)
    assert (Hsig : cs_upgraded cs = true ->
                   exists sg, cs_signature cs = Some sg /\ length sg = 64%nat /\ bytes_ok sg = true /\
                     cs_hash cs = Some (tree_hash cr (cs_roots cs)) /\
                     cr_verify cr (kp_public (c_keypair c))
                       (signable (tree_hash cr (cs_roots cs)) (cs_length cs) (cs_fork cs)) sg = true).
    { intros Up. destruct (p_upgrade pf) as [u|] eqn:Eu.
      - destruct (verify_proof_upgrade_sig cr _ _ pf _ cs u Eu V0) as (L & S & Hh' & Hv & _).
        exists (du_signature u). repeat split; assumption.
      - rewrite (Hnoup eq_refl) in Up. discriminate Up. }
    (* 2. log_and_commit *)
    assert (H32 : forall x, In x (cs_nodes cs) -> length (n_hash x) = 32%nat).
    { intros x Hx. rewrite Forall_forall in Href. rewrite (Href x Hx). apply (T_hash32 cr Hhash32 bs). }
    assert (Hanc : cs_upgraded cs = true -> cs_ancestors cs = r) by (intros Up; apply (Hup Up)).
    assert (Hol : cs_upgraded cs = true -> cs_orig_length cs <= cs_ancestors cs).
    { intros Up. rewrite (Hanc Up). unfold commitable in Cm. rewrite Up in Cm.
      apply andb_true_iff in Cm. destruct Cm as [_ Cm]. fold r in Cm. lia. }
    destruct (log_and_commit_total cr Hhash32 Hnonblank cs bu c w1) as (c2 & w2 & Hlc);
      [intros Up; destruct (Hsig Up) as (sg & S1 & _ & _ & S2 & _); eauto|exact H32|exact Cm|exact Hol| |].
    { intros e h b He Hb. rewrite Ebu in He. apply (Hframe cs V0 e h b He Hb). }
    (* 3. the state after the commit satisfies the invariant -- directly *)
    destruct w1 as [d1 j1 ev1]. cbn [w_disk] in Et1, Eo1, Eb1, Ed1.
    destruct (commit_reference_changeset_keeps_RDInv pf c d d1 H cs bu j1 ev1 c2 w2 (conj X Hclo) V0
                (conj Href (conj Hblk (conj Hup (conj Hnoup Hsb)))) Ebu Et1 Eo1 Eb1 Ed1 Hlc)
      as ([X2 Hclo2] & Em & Ek2 & Hav2).
    fold r m in Em.
    (* 4. the flush decision *)
    destruct w2 as [d2 j2 ev2]. cbn [w_disk] in *.
    destruct (maybe_flush_R cr Hcrc Hhash32 Hnonblank Hhashbytes bs Hw f c2 d2 j2 ev2 _ X2)
      as (c' & d' & fl & Hmf & _ & X3 & El3 & Ek3 & _).
    destruct (sends_tail pf bu c' (mkWorld d' (rev fl ++ j2) ev2)) as (w' & Hsend & Edw).
    pose proof (RDInv_RInv cr bs c2 d2 _ X2) as W2''.
    pose proof (maybe_flush_navail cr Hhash32 Hnonblank bs Hw f c2 d2 j2 ev2 c' _ tt W2'' Hmf) as Hnav.
    cbn [w_disk] in Hnav.
    exists c', w'. split.
    { rewrite (apply_gates_pass cr f pf c _ cs Ef V Cm). unfold apply_tail.
      fold (block_part pf c (w_disk (mkWorld d j ev)) cs). cbn [w_disk].
      rewrite (mbind_eq _ _ _ _ _ _ _ Hbu), (mbind_eq _ _ _ _ _ _ _ Hlc), (mbind_eq _ _ _ _ _ _ _ Hmf).
      exact Hsend. }
    rewrite Edw. cbn [w_disk]. split; [split|].
    - apply (RDInv_ext cr bs c' d' (held_after H bu)); [|exact X3].
      intros i. unfold hold, held_after. rewrite Ebu. destruct (p_block pf) as [b|]; [|reflexivity].
      unfold upd_fun. cbn [bu_start bu_length bu_drop negb].
      destruct (N.eqb_spec i (db_index b)) as [->|Ne].
      + destruct (N.leb_spec (db_index b) (db_index b)) as [_|L]; [|lia].
        destruct (N.ltb_spec (db_index b) (db_index b + 1)) as [_|L]; [reflexivity|lia].
      + destruct ((db_index b <=? i) && (i <? db_index b + 1)) eqn:E; [lia|reflexivity].
    - (* the stored nodes are closed again *)
      destruct W2'' as (_ & _ & _ & _ & Hu2 & Hf2 & _).
      destruct (maybe_flush_inv cr Hhash32 Hnonblank bs Hw f c2 _ c' _ tt _ Hmf Hu2 Hf2) as (_ & _ & Hr3 & _).
      apply (ClosedR_ext (c_tree c2) (d_tree d2) (c_tree c') (d_tree d') Hr3 Hnav Hclo2).
    - split; [rewrite El3; exact Em|]. split; [rewrite Ek3; exact Ek2|].
      intros x Hx.
      assert (Hn : navail (c_tree c') (d_tree d') (n_index x)).
      { apply Hnav, Hav2. right. apply in_map, Hx. }
      destruct Hn as (n & Hn). rewrite Hn. f_equal.
      pose proof (RDInv_RInv cr bs c' d' _ X3) as (_ & _ & _ & _ & Hu3 & Hf3 & _).
      apply (required_node_sound cr bs _ _ _ _ n Hu3 Hf3 Hn).
  Qed.
End Apply.

Print Assumptions commit_reference_changeset_keeps_RInv.
Print Assumptions commit_reference_changeset_keeps_RDInv.
Print Assumptions apply_tail_honest.

(* HonestCrashEx.v -- non-vacuity of HonestCrash1.honest_round_crash_cuts, HonestCrash2.honest_round_crash_recovers and
   HonestCrash2.honest_crash_histories on the toy instance of SoundCore.v / AcceptAllEx.v / HonestApplyEx.v (sc_cr,
   sc_blocks: a writer with six blocks, a replica created from the public key alone).  None of the requests whose
   application is cut lies in AcceptAllCore1.core_scope (the scope of the crash-cut theorems of ReplicaDisk4).
   History:  1. seek to byte 4 + PARTIAL upgrade 0..3 (forced flush), the process dies before the first storage
                operation: nothing happened;
             2. the same request again, the process dies after 3 storage operations (entry write + two operations of
                the flush group): the upgrade IS committed, the reopened replica has the writer's signed length 6;
             3. block 4 (native flush decision), acknowledged;
             4. HASH request for the leaf 2 + seek to byte 1, the process dies after the entry write;
             5. block 0 with a seek to byte 2, the process dies after the data write alone: NOT committed;
             6. the same request again, acknowledged. *)
From HC Require Import Base NMap Codec CodecFacts Crypto FlatTree Storage Bitfield Oplog Merkle Core.
From HC Require Import FlatTreeFacts Sound NoPanic TreeRef OffsetFacts CoreFacts Refine Replicate Replicate2 Replicate2Z Replicate2D Replicate2E.
From HC Require Import CrashCore3.
From HC Require Import Unified1 SoundCoreLib SoundCore SoundCoreUp SoundCoreBU ReplicaDisk1 ReplicaDisk2 ReplicaDisk3 ReplicaDisk4 ReplicaDisk6.
From HC Require Import AcceptAll1 AcceptAll2 AcceptAll3 AcceptAll AcceptAllCore1 AcceptAllClo AcceptAllClo2 AcceptAllFlush AcceptAllCore2 AcceptAllCore3 AcceptAllHist AcceptAllEx.
From HC Require Import HonestApply1 HonestApply2 HonestApply3 HonestApply HonestApplyEx HonestCrash1 HonestCrash2.
From Coq Require Import FMapPositive ZifyN ZifyNat ZifyBool.
Ltac Zify.zify_post_hook ::= Z.div_mod_to_equations.
Arguments N.add : simpl never.
Arguments N.sub : simpl never.
Arguments N.mul : simpl never.
Arguments N.div : simpl never.
Arguments N.modulo : simpl never.
Arguments N.pow : simpl never.
Arguments N.eqb : simpl never.
Arguments N.ltb : simpl never.
Arguments N.leb : simpl never.
Arguments N.of_nat : simpl never.
Arguments N.to_nat : simpl never.
Arguments N.log2 : simpl never.

Definition hc_serve (f : option bool) (rq : request) : cevent :=
  CServe f rq scW_c (w_disk scW_w) (w_journal scW_w) (w_events scW_w) sc_blocks sc_sg.
Definition hc_crash (f : option bool) (rq : request) (k : nat) : cevent :=
  CCrash f rq scW_c (w_disk scW_w) (w_journal scW_w) (w_events scW_w) sc_blocks sc_sg k.

Definition hc_e1 := hc_crash (Some true) ha_rq1 0.
Definition hc_e2 := hc_crash (Some true) ha_rq1 3.
Definition hc_e3 := hc_serve None ha_rq3.
Definition hc_e4 := hc_crash (Some false) ha_rq4 1.
Definition hc_e5 := hc_crash (Some false) ha_rq5 1.
Definition hc_e6 := hc_serve (Some false) ha_rq5.
Definition hc_es : list cevent := [hc_e1; hc_e2; hc_e3; hc_e4; hc_e5; hc_e6].

(* the states of the history, computed *)
Definition hc_s1 : option (core * world) := Eval vm_compute in cexec sc_cr scR_c scR_w hc_e1.
Definition hc1_c : core := Eval vm_compute in match hc_s1 with Some (c, _) => c | None => dummy_core end.
Definition hc1_w : world := Eval vm_compute in match hc_s1 with Some (_, w) => w | None => dummy_world end.
Lemma hc_exec1 : cexec sc_cr scR_c scR_w hc_e1 = Some (hc1_c, hc1_w).
Proof. vm_compute. reflexivity. Qed.

Definition hc_s2 : option (core * world) := Eval vm_compute in cexec sc_cr hc1_c hc1_w hc_e2.
Definition hc2_c : core := Eval vm_compute in match hc_s2 with Some (c, _) => c | None => dummy_core end.
Definition hc2_w : world := Eval vm_compute in match hc_s2 with Some (_, w) => w | None => dummy_world end.
Lemma hc_exec2 : cexec sc_cr hc1_c hc1_w hc_e2 = Some (hc2_c, hc2_w).
Proof. vm_compute. reflexivity. Qed.

Definition hc_s3 : option (core * world) := Eval vm_compute in cexec sc_cr hc2_c hc2_w hc_e3.
Definition hc3_c : core := Eval vm_compute in match hc_s3 with Some (c, _) => c | None => dummy_core end.
Definition hc3_w : world := Eval vm_compute in match hc_s3 with Some (_, w) => w | None => dummy_world end.
Lemma hc_exec3 : cexec sc_cr hc2_c hc2_w hc_e3 = Some (hc3_c, hc3_w).
Proof. vm_compute. reflexivity. Qed.

Definition hc_s4 : option (core * world) := Eval vm_compute in cexec sc_cr hc3_c hc3_w hc_e4.
Definition hc4_c : core := Eval vm_compute in match hc_s4 with Some (c, _) => c | None => dummy_core end.
Definition hc4_w : world := Eval vm_compute in match hc_s4 with Some (_, w) => w | None => dummy_world end.
Lemma hc_exec4 : cexec sc_cr hc3_c hc3_w hc_e4 = Some (hc4_c, hc4_w).
Proof. vm_compute. reflexivity. Qed.

Definition hc_s5 : option (core * world) := Eval vm_compute in cexec sc_cr hc4_c hc4_w hc_e5.
Definition hc5_c : core := Eval vm_compute in match hc_s5 with Some (c, _) => c | None => dummy_core end.
Definition hc5_w : world := Eval vm_compute in match hc_s5 with Some (_, w) => w | None => dummy_world end.
Lemma hc_exec5 : cexec sc_cr hc4_c hc4_w hc_e5 = Some (hc5_c, hc5_w).
Proof. vm_compute. reflexivity. Qed.

Definition hc_s6 : option (core * world) := Eval vm_compute in cexec sc_cr hc5_c hc5_w hc_e6.
Definition hc6_c : core := Eval vm_compute in match hc_s6 with Some (c, _) => c | None => dummy_core end.
Definition hc6_w : world := Eval vm_compute in match hc_s6 with Some (_, w) => w | None => dummy_world end.
Lemma hc_exec6 : cexec sc_cr hc5_c hc5_w hc_e6 = Some (hc6_c, hc6_w).
Proof. vm_compute. reflexivity. Qed.

(* the whole history runs.  After the first crash the replica is still empty; after the second (3 operations of the
   application reached the storage) it has the writer's signed length 6 although the call never returned; the hash
   request cut after its entry write left the leaf 2 stored; the block request cut after its data write left the
   block 0 NOT held (has = false) until the request is served again *)
Example hc_run_computed :
  crun sc_cr hc_es scR_c scR_w = Some (hc6_c, hc6_w) /\
  t_length (c_tree hc1_c) = 0 /\
  t_length (c_tree hc2_c) = 6 /\ t_byte_length (c_tree hc2_c) = 11 /\
  core_has hc3_c 4 = true /\
  required_node (c_tree hc4_c) (d_tree (w_disk hc4_w)) 2 = Ok (ref_at sc_cr sc_blocks 2) /\
  core_has hc5_c 0 = false /\ core_has hc6_c 0 = true /\ core_has hc6_c 4 = true /\ core_has hc6_c 1 = false /\
  snd (core_get 4 hc6_c hc6_w) = Ok (Some [9; 10]) /\ snd (core_get 0 hc6_c hc6_w) = Ok (Some [1; 2; 3]).
Proof. vm_compute. repeat split. Qed.

(* how many storage operations the cut applications issue when they complete: the partial upgrade with a forced
   flush journals more than 3 operations (entry write, node writes, header slot, truncate), so the cut at 3 of
   event 2 lies strictly inside the flush group; the hash request without flush journals the entry write alone,
   the block request the data write and the entry write *)
Definition hc_journal_len (f : option bool) (rq : request) (c : core) (w : world) : option nat :=
  match core_create_proof (rq_block rq) (rq_hash rq) (rq_seek rq) (rq_upgrade rq) scW_c scW_w with
  | (_, _, Ok (Some pf)) =>
      match core_apply_proof sc_cr f pf c w with
      | (_, w', Ok true) => Some (length (journal_delta (w_journal w) (w_journal w')))
      | _ => None
      end
  | _ => None
  end.

Example hc_cut_positions :
  (exists n, hc_journal_len (Some true) ha_rq1 hc1_c hc1_w = Some n /\ (3 < n)%nat) /\
  hc_journal_len (Some false) ha_rq4 hc3_c hc3_w = Some 1%nat /\
  hc_journal_len (Some false) ha_rq5 hc4_c hc4_w = Some 2%nat.
Proof. split; [eexists; split; [vm_compute; reflexivity|vm_compute; lia]|split; vm_compute; reflexivity]. Qed.

(* ---------- every request of the history is well formed for the state it is sent from ---------- *)

Ltac hc_arith := first [exact I | reflexivity | (vm_compute; reflexivity) | (vm_compute; discriminate)].

Lemma hc_pre1 : cpre sc_cr sc_blocks scR_c (w_disk scR_w) hc_e1.
Proof. exact ha_pre1. Qed.

Lemma hc_pre2 : cpre sc_cr sc_blocks hc1_c (w_disk hc1_w) hc_e2.
Proof.
  unfold cpre, hc_e2, hc_crash, pre_all. cbv zeta.
  change (kp_public (c_keypair hc1_c)) with sc_key.
  split; [exact sc_writer_at|]. split; [hc_arith|]. split.
  { split; [cbn; repeat split; hc_arith|]. cbn. hc_arith. }
  apply guard_check_ok. vm_compute. reflexivity.
Qed.

Lemma hc_pre3 : cpre sc_cr sc_blocks hc2_c (w_disk hc2_w) hc_e3.
Proof.
  unfold cpre, hc_e3, hc_serve, pre_all. cbv zeta.
  change (kp_public (c_keypair hc2_c)) with sc_key.
  split; [exact sc_writer_at|]. split; [hc_arith|]. split.
  { split; [exact I|].
    cbn [ha_rq3 rq_block rq_hash rq_seek rq_upgrade rb_index rb_nodes rq_target].
    unfold wf_node. cbv zeta. split; [hc_arith|]. left.
    split; [hc_arith|]. split; [hc_arith|]. split; [hc_arith|exact I]. }
  apply guard_check_ok. vm_compute. reflexivity.
Qed.

Lemma hc_pre4 : cpre sc_cr sc_blocks hc3_c (w_disk hc3_w) hc_e4.
Proof.
  unfold cpre, hc_e4, hc_crash, pre_all. cbv zeta.
  change (kp_public (c_keypair hc3_c)) with sc_key.
  split; [exact sc_writer_at|]. split; [hc_arith|]. split.
  { split; [exact I|].
    cbn [ha_rq4 rq_block rq_hash rq_seek rq_upgrade rb_index rb_nodes rq_target].
    unfold wf_node. cbv zeta. split; [hc_arith|]. left.
    split; [hc_arith|]. split; [hc_arith|]. split; [hc_arith|].
    unfold seek_ok, seek_in_range. cbn [rs_bytes]. split; [hc_arith|]. left. hc_arith. }
  apply guard_check_ok. vm_compute. reflexivity.
Qed.

Lemma hc_pre5 : cpre sc_cr sc_blocks hc4_c (w_disk hc4_w) hc_e5.
Proof.
  unfold cpre, hc_e5, hc_crash, pre_all. cbv zeta.
  change (kp_public (c_keypair hc4_c)) with sc_key.
  split; [exact sc_writer_at|]. split; [hc_arith|]. split.
  { split; [exact I|].
    cbn [ha_rq5 rq_block rq_hash rq_seek rq_upgrade rb_index rb_nodes rq_target].
    unfold wf_node. cbv zeta. split; [hc_arith|]. left.
    split; [hc_arith|]. split; [hc_arith|]. split; [hc_arith|].
    unfold seek_ok, seek_in_range. cbn [rs_bytes]. split; [hc_arith|]. left. hc_arith. }
  apply guard_check_ok. vm_compute. reflexivity.
Qed.

Lemma hc_pre6 : cpre sc_cr sc_blocks hc5_c (w_disk hc5_w) hc_e6.
Proof.
  unfold cpre, hc_e6, hc_serve, pre_all. cbv zeta.
  change (kp_public (c_keypair hc5_c)) with sc_key.
  split; [exact sc_writer_at|]. split; [hc_arith|]. split.
  { split; [exact I|].
    cbn [ha_rq5 rq_block rq_hash rq_seek rq_upgrade rb_index rb_nodes rq_target].
    unfold wf_node. cbv zeta. split; [hc_arith|]. left.
    split; [hc_arith|]. split; [hc_arith|]. split; [hc_arith|].
    unfold seek_ok, seek_in_range. cbn [rs_bytes]. split; [hc_arith|]. left. hc_arith. }
  apply guard_check_ok. vm_compute. reflexivity.
Qed.

Lemma hc_hist : chist sc_cr sc_blocks hc_es scR_c scR_w.
Proof.
  unfold hc_es. cbn [chist]. split; [exact hc_pre1|].
  intros c1 w1 E1. rewrite hc_exec1 in E1. injection E1 as <- <-. split; [exact hc_pre2|].
  intros c2 w2 E2. rewrite hc_exec2 in E2. injection E2 as <- <-. split; [exact hc_pre3|].
  intros c3 w3 E3. rewrite hc_exec3 in E3. injection E3 as <- <-. split; [exact hc_pre4|].
  intros c4 w4 E4. rewrite hc_exec4 in E4. injection E4 as <- <-. split; [exact hc_pre5|].
  intros c5 w5 E5. rewrite hc_exec5 in E5. injection E5 as <- <-. split; [exact hc_pre6|].
  intros c6 w6 _. exact I.
Qed.

(* the history theorem applies to the instance *)
Example hc_crash_histories_applies :
  exists c' w',
    crun sc_cr hc_es scR_c scR_w = Some (c', w') /\
    RCInv sc_cr sc_blocks c' (w_disk w') (cheld_all (fun _ => false) hc_es) /\
    t_length (c_tree c') = 6 /\ t_byte_length (c_tree c') = prefix_size sc_blocks 6 /\
    core_has c' 4 = true /\ core_has c' 0 = true /\ core_has c' 1 = false /\
    (forall i j2 ev2, core_has c' i = true ->
       core_get i c' (mkWorld (w_disk w') j2 ev2) = (c', mkWorld (w_disk w') j2 ev2, Ok (Some (blk sc_blocks i)))).
Proof.
  destruct scR_w as [d0 j0 ev0] eqn:Ew.
  pose proof sc_R0_RCInv as RC. pose proof hc_hist as Hh. rewrite Ew in RC, Hh. cbn [w_disk] in RC.
  destruct (honest_crash_histories sc_cr sc_crc_ok sc_hash32 sc_nonblank sc_hashbytes sc_blocks sc_writer_fits hc_es
              scR_c d0 j0 ev0 (fun _ => false) RC Hh)
    as (c' & w' & Hrun & RC' & _ & Hl & Hb & _ & Hreq & _ & Hexact & Hget).
  exists c', w'. split; [exact Hrun|]. split; [exact RC'|].
  assert (El : t_length (c_tree c') = 6) by (rewrite Hl; vm_compute; reflexivity).
  split; [exact El|]. split; [rewrite <- El; exact Hb|].
  split; [apply Hreq; cbn; right; right; left; eexists; split; reflexivity|].
  split; [apply Hreq; cbn; do 5 right; left; eexists; split; reflexivity|].
  split; [rewrite Hexact; vm_compute; reflexivity|exact Hget].
Qed.

(* ---------- one round: hash of node 5 + PARTIAL upgrade 0..5, sent by the fresh replica: every cut ---------- *)

Example hc_round_cuts_apply f j ev :
  exists pf c' w' pre off fr fl,
    core_create_proof None (Some (mkReqBlock 5 0)) None (Some (mkReqUpgrade 0 5)) scW_c scW_w = (scW_c, scW_w, Ok (Some pf)) /\
    core_apply_proof sc_cr f pf scR_c (mkWorld (w_disk scR_w) j ev) = (c', w', Ok true) /\
    w_journal w' = rev (pre ++ SW Oplog off fr :: fl) ++ j /\ pre = [] /\
    RCInv sc_cr sc_blocks c' (w_disk w') (fun _ => false) /\ t_length (c_tree c') = 6 /\
    forall k, exists dk,
      apply_sops (w_disk scR_w) (firstn k (pre ++ SW Oplog off fr :: fl)) = Some dk /\
      if (k <=? 0)%nat then RCDisk sc_cr sc_blocks sc_key dk (fun _ => false) 0
      else RCDisk sc_cr sc_blocks sc_key dk (fun _ => false) 6.
Proof.
  destruct ha_rqh_wf as [Hwf _].
  destruct (honest_round_crash_cuts sc_cr sc_crc_ok sc_hash32 sc_nonblank sc_hashbytes sc_blocks sc_writer_fits f
              scW_c (w_disk scW_w) sc_blocks sc_sg (w_journal scW_w) (w_events scW_w)
              scR_c (w_disk scR_w) j ev (fun _ => false) ha_rqh sc_writer_at sc_R0_RCInv
              ltac:(vm_compute; discriminate) Hwf
              (guard_check_ok sc_cr sc_blocks scW_c (w_disk scW_w) scR_c (w_disk scR_w) ha_rqh ltac:(vm_compute; reflexivity)))
    as (pf & c' & w' & pre & off & fr & fl & Hc & Ha & Hj & Hpre & _ & _ & RC' & Hl & _ & Hcuts).
  exists pf, c', w', pre, off, fr, fl. split; [exact Hc|]. split; [exact Ha|]. split; [exact Hj|].
  split; [destruct pre; [reflexivity|discriminate Hpre]|]. split; [exact RC'|]. split; [exact Hl|].
  intros k. destruct (Hcuts k) as (dk & Ak & Pk). exists dk. split; [exact Ak|]. exact Pk.
Qed.

(* ... and every cut reopens *)
Example hc_round_recovers_applies f j ev k :
  exists pf c' w' ops dk c'' d'' rops,
    core_create_proof None (Some (mkReqBlock 5 0)) None (Some (mkReqUpgrade 0 5)) scW_c scW_w = (scW_c, scW_w, Ok (Some pf)) /\
    core_apply_proof sc_cr f pf scR_c (mkWorld (w_disk scR_w) j ev) = (c', w', Ok true) /\
    w_journal w' = rev ops ++ j /\
    apply_sops (w_disk scR_w) (firstn k ops) = Some dk /\
    core_open sc_cr None true dk = (d'', rops, Ok c'') /\
    RCInv sc_cr sc_blocks c'' d'' (fun _ => false) /\
    t_length (c_tree c'') = (if (k <=? 0)%nat then 0 else 6).
Proof.
  destruct ha_rqh_wf as [Hwf _].
  destruct (honest_round_crash_recovers sc_cr sc_crc_ok sc_hash32 sc_nonblank sc_hashbytes sc_blocks sc_writer_fits f
              scW_c (w_disk scW_w) sc_blocks sc_sg (w_journal scW_w) (w_events scW_w)
              scR_c (w_disk scR_w) j ev (fun _ => false) ha_rqh sc_writer_at sc_R0_RCInv
              ltac:(vm_compute; discriminate) Hwf
              (guard_check_ok sc_cr sc_blocks scW_c (w_disk scW_w) scR_c (w_disk scR_w) ha_rqh ltac:(vm_compute; reflexivity)))
    as (pf & c' & w' & ops & Hc & Ha & Hj & _ & _ & _ & Hcuts).
  destruct (Hcuts k) as (dk & Ak & c'' & d'' & rops & Eo & _ & Hcase).
  exists pf, c', w', ops, dk, c'', d'', rops.
  split; [exact Hc|]. split; [exact Ha|]. split; [exact Hj|]. split; [exact Ak|]. split; [exact Eo|].
  change (rq_commit_point ha_rqh) with 0%nat in Hcase.
  destruct (k <=? 0)%nat; destruct Hcase as (RC'' & _ & L''); split; assumption.
Qed.

Print Assumptions hc_run_computed.
Print Assumptions hc_cut_positions.
Print Assumptions hc_hist.
Print Assumptions hc_crash_histories_applies.
Print Assumptions hc_round_cuts_apply.
Print Assumptions hc_round_recovers_applies.

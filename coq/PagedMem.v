(* PagedMem.v — executable model of the in-memory backend: random-access-memory 3.0.0 (src/lib.rs).
   Mirrors, statement by statement: RandomAccessMemory::{new, page_num_and_index, zero, write, read, del,
   truncate, len}.  Pages are `IntMap<Vec<u8>>` (here `nmap (list N)`), allocated lazily, `page_size` bytes each.

   Conventions.
   * `usize`/`u64` arithmetic is modelled by unbounded N: the model agrees with the Rust code as long as no
     intermediate value overflows, which is the case when every offset, length and the page size are < 2^62
     (the largest intermediate values are `offset + length` and `(current_last_page_num + 1) * page_size`,
     both < 2^63).  `page_size = 0` makes the Rust code panic (division by zero); the model is total but only
     meaningful for `page_size > 0`.
   * Slice indexing out of bounds panics in Rust; the list helpers below are total (they ignore writes beyond
     the end of a page and read nothing there).  PagedMemFacts.v shows that under the representation
     invariant (every page has exactly `page_size` bytes) no access is ever out of bounds.
   * `while` loops run on explicit fuel (number of touched pages, computed from the data length);
     `for index in a..b { buffers.remove(index) }` is `N.iter (b - a)` (no unary numbers).
   No proofs in this file. *)
From HC Require Export Base NMap Storage.

(* ---------- Vec<u8> helpers, indexed by N ---------- *)

(* vec![0; n] *)
Definition zeros_n (n : N) : list N := N.iter n (cons 0) [].

(* &d[..n] and &d[n..] *)
Fixpoint l_take (n : N) (d : list N) : list N :=
  match d with
  | [] => []
  | x :: r => if n =? 0 then [] else x :: l_take (n - 1) r
  end.

Fixpoint l_drop (n : N) (d : list N) : list N :=
  match d with
  | [] => []
  | x :: r => if n =? 0 then d else l_drop (n - 1) r
  end.

(* for (index, buf_index) in (a .. a + d.len()).enumerate() { l[buf_index] = d[index] } *)
Fixpoint l_write (l : list N) (a : N) (d : list N) : list N :=
  match l with
  | [] => []
  | x :: r => match d with
              | [] => l
              | y :: d' => if a =? 0 then y :: l_write r 0 d' else x :: l_write r (a - 1) d
              end
  end.

(* for index in a..b { l[index] = 0 } *)
Fixpoint l_zero (l : list N) (a b : N) : list N :=
  match l with
  | [] => []
  | x :: r => if b =? 0 then l else (if a =? 0 then 0 else x) :: l_zero r (a - 1) (b - 1)
  end.

(* the values l[a], .., l[a + n - 1] *)
Fixpoint l_slice (l : list N) (a n : N) : list N :=
  match l with
  | [] => []
  | x :: r => if n =? 0 then []
              else if a =? 0 then x :: l_slice r 0 (n - 1)
              else l_slice r (a - 1) n
  end.

(* for index in a..b { m.remove(index) } *)
Definition nm_del_range {A} (a b : N) (m : nmap A) : nmap A :=
  snd (N.iter (b - a) (fun im : N * nmap A => (fst im + 1, nm_del (fst im) (snd im))) (a, m)).

(* ---------- the struct ---------- *)

Record ram := mkRam { r_page_size : N; r_pages : nmap (list N); r_length : N }.

(* RandomAccessMemory::new(page_size) *)
Definition ram_new (page_size : N) : ram := mkRam page_size nm_empty 0.

(* fn page_num_and_index(&self, offset, exclusive_end) -> (page_num, page_index) *)
Definition page_num_and_index (page_size offset : N) (exclusive_end : bool) : N * N :=
  let page_num := offset / page_size in
  let page_index := offset mod page_size in
  if (page_index =? 0) && exclusive_end
  then ((if 0 <? page_num then page_num - 1 else 0), page_size)
  else (page_num, page_index).

(* fn zero(&mut self, offset, length) *)
Definition ram_zero (r : ram) (offset length : N) : ram :=
  let ps := r_page_size r in
  let fp := page_num_and_index ps offset false in
  let lp := page_num_and_index ps (offset + length) true in
  let first_page_num := fst fp in
  let first_page_start := snd fp in
  let last_page_num := fst lp in
  let last_page_end := snd lp in
  (* Check if we need to zero bytes in the first page *)
  let pages1 :=
    if (0 <? first_page_start) || ((first_page_num =? last_page_num) && (0 <? last_page_end)) then
      match nm_get first_page_num (r_pages r) with
      | Some page =>
          let begin_page_end := first_page_start + N.min length (ps - first_page_start) in
          nm_set first_page_num (l_zero page first_page_start begin_page_end) (r_pages r)
      | None => r_pages r
      end
    else r_pages r in
  (* Delete intermediate pages *)
  let pages2 :=
    if (first_page_num + 1 <? last_page_num)
       || ((first_page_start =? 0) && (last_page_num =? first_page_num + 1)) then
      let first_page_to_drop := if first_page_start =? 0 then first_page_num else first_page_num + 1 in
      nm_del_range first_page_to_drop last_page_num pages1
    else pages1 in
  (* Finally zero the last page *)
  let pages3 :=
    if (first_page_num <? last_page_num) && (0 <? last_page_end) then
      match nm_get last_page_num pages2 with
      | Some page => nm_set last_page_num (l_zero page 0 last_page_end) pages2
      | None => pages2
      end
    else pages2 in
  mkRam ps pages3 (r_length r).

(* the body of `while data_cursor < data.len()` in write; `data` is &data[data_cursor..] and
   `data_bound` its length *)
Fixpoint write_loop (fuel : nat) (ps : N) (pages : nmap (list N)) (page_num page_cursor : N)
                    (data : bytes) (data_bound : N) : nmap (list N) :=
  match fuel with
  | O => pages
  | S fuel' =>
      if data_bound =? 0 then pages else
      let upper_bound := N.min ps (page_cursor + data_bound) in
      let range_len := upper_bound - page_cursor in
      (* Allocate buffer if needed *)
      let pages1 :=
        match nm_get page_num pages with
        | None => nm_set page_num (zeros_n ps) pages
        | Some _ => pages
        end in
      (* Copy data from the vec slice *)
      let buffer := match nm_get page_num pages1 with Some b => b | None => [] end in
      let buffer' := l_write buffer page_cursor (l_take range_len data) in
      write_loop fuel' ps (nm_set page_num buffer' pages1) (page_num + 1) 0
                 (l_drop range_len data) (data_bound - range_len)
  end.

(* number of loop iterations that certainly suffices for `n` bytes *)
Definition loop_fuel (ps n : N) : nat := S (S (N.to_nat (n / ps))).

(* async fn write(&mut self, offset, data) -> Ok(()) *)
Definition ram_write (r : ram) (offset : N) (data : bytes) : ram :=
  let ps := r_page_size r in
  let new_len := offset + len data in
  let length' := if r_length r <? new_len then new_len else r_length r in
  let page_num := offset / ps in
  let page_cursor := offset - page_num * ps in
  mkRam ps (write_loop (loop_fuel ps (len data)) ps (r_pages r) page_num page_cursor data (len data)) length'.

(* the body of `while res_cursor < res_capacity` in read; `res_bound` = res_capacity - res_cursor;
   the result is &res_buf[res_cursor..] *)
Fixpoint read_loop (fuel : nat) (ps : N) (pages : nmap (list N)) (page_num page_cursor res_bound : N) : bytes :=
  match fuel with
  | O => []
  | S fuel' =>
      if res_bound =? 0 then [] else
      let page_bound := ps - page_cursor in
      let relative_bound := N.min res_bound page_bound in
      let chunk :=
        match nm_get page_num pages with
        | Some buf => l_slice buf page_cursor relative_bound
        | None => zeros_n relative_bound
        end in
      chunk ++ read_loop fuel' ps pages (page_num + 1) 0 (res_bound - relative_bound)
  end.

(* async fn read(&mut self, offset, length); None = Err(OutOfBounds) *)
Definition ram_read (r : ram) (offset length : N) : option bytes :=
  let ps := r_page_size r in
  if r_length r <? offset + length then None
  else
    let page_num := offset / ps in
    let page_cursor := offset - page_num * ps in
    Some (read_loop (loop_fuel ps length) ps (r_pages r) page_num page_cursor length).

(* async fn truncate(&mut self, length) -> Ok(()) *)
Definition ram_truncate (r : ram) (length : N) : ram :=
  let ps := r_page_size r in
  let current_last_page_num := fst (page_num_and_index ps (r_length r) true) in
  let r1 :=
    if r_length r <? length then
      let truncate_page_num := length / ps in
      (* Remove all of the pages between the old length and this newer length *)
      mkRam ps (nm_del_range (current_last_page_num + 1) (truncate_page_num + 1) (r_pages r)) (r_length r)
    else if length <? r_length r then
      let delete_length := (current_last_page_num + 1) * ps - length in
      (* Make sure to zero the remainder *)
      ram_zero r length delete_length
    else r in
  (* Set new length *)
  mkRam ps (r_pages r1) length.

(* async fn del(&mut self, offset, length); None = Err(OutOfBounds) *)
Definition ram_del (r : ram) (offset length : N) : option ram :=
  if r_length r <? offset then None
  else if length =? 0 then Some r
  else if r_length r <=? offset + length then Some (ram_truncate r offset)
  else Some (ram_zero r offset length).

(* async fn len(&mut self) *)
Definition ram_len (r : ram) : N := r_length r.

(* ---------- operation histories ---------- *)

Inductive op :=
| W (off : N) (data : bytes)
| R (off n : N)
| D (off n : N)
| T (n : N)
| L.

Inductive obs :=
| ODone                  (* Ok(()) *)
| OBytes (bs : bytes)    (* Ok(vec) *)
| OOutOfBounds           (* Err(RandomAccessError::OutOfBounds) *)
| OLen (n : N).          (* Ok(len) *)

Definition ram_step (r : ram) (o : op) : ram * obs :=
  match o with
  | W off data => (ram_write r off data, ODone)
  | R off n => (r, match ram_read r off n with Some bs => OBytes bs | None => OOutOfBounds end)
  | D off n => match ram_del r off n with Some r' => (r', ODone) | None => (r, OOutOfBounds) end
  | T n => (ram_truncate r n, ODone)
  | L => (r, OLen (ram_len r))
  end.

Definition file_step (f : file) (o : op) : file * obs :=
  match o with
  | W off data => (f_write f off data, ODone)
  | R off n => (f, match f_read f off n with Some bs => OBytes bs | None => OOutOfBounds end)
  | D off n => match f_del f off n with Some f' => (f', ODone) | None => (f, OOutOfBounds) end
  | T n => (f_truncate f n, ODone)
  | L => (f, OLen (f_len f))
  end.

Fixpoint ram_steps (r : ram) (ops : list op) : list obs * ram :=
  match ops with
  | [] => ([], r)
  | o :: rest => let ro := ram_step r o in
                 let k := ram_steps (fst ro) rest in
                 (snd ro :: fst k, snd k)
  end.

Fixpoint file_steps (f : file) (ops : list op) : list obs * file :=
  match ops with
  | [] => ([], f)
  | o :: rest => let fo := file_step f o in
                 let k := file_steps (fst fo) rest in
                 (snd fo :: fst k, snd k)
  end.

(* the whole content, as read back through the public interface *)
Definition ram_content (r : ram) : bytes :=
  match ram_read r 0 (r_length r) with Some bs => bs | None => [] end.

(* observations of a history from the empty state, and the final content *)
Definition run_ram (page_size : N) (ops : list op) : list obs * bytes :=
  let k := ram_steps (ram_new page_size) ops in (fst k, ram_content (snd k)).

Definition run_file (ops : list op) : list obs * bytes :=
  let k := file_steps file_empty ops in (fst k, f_content (snd k)).

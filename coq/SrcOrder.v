(* generated on every run by tools/srcorder.py from /repo/src/core.rs: the order of the protocol steps inside the mutating
   calls as the source states it now, and the number of storage calls whose Result is not propagated with `?`
   (None = not found in a recognisable form). OrderTie.v ties them to the order the model implements. *)
From Coq Require Import List String NArith.
Import ListNotations.
Local Open Scope string_scope.

Definition src_order_append_batch : option (list string) := Some ["data"; "entry"; "bitfield"; "commit"; "checkpoint"; "events"].
Definition src_unpropagated_append_batch : option N := Some 0%N.
Definition src_order_clear : option (list string) := Some ["entry"; "bitfield"; "data"; "checkpoint"].
Definition src_unpropagated_clear : option N := Some 0%N.
Definition src_order_verify_and_apply_proof : option (list string) := Some ["data"; "entry"; "bitfield"; "commit"; "checkpoint"; "events"].
Definition src_unpropagated_verify_and_apply_proof : option N := Some 0%N.
Definition src_order_make_read_only : option (list string) := Some ["erase_secret"; "checkpoint"].
Definition src_unpropagated_make_read_only : option N := Some 0%N.
Definition src_order_flush_bitfield_and_tree_and_oplog : option (list string) := Some ["flush_bitfield"; "flush_tree"; "flush_oplog"].
Definition src_unpropagated_flush_bitfield_and_tree_and_oplog : option N := Some 0%N.

(* SoundCoreUp.v -- C04/C03 at the Core level, upgrade sections: an accepted upgrade keeps the replica
   consistent with the writer, or exhibits a hash collision, or a signature that verifies under the
   writer's key on a message the writer never signed.  The analysis reads the verifier's merge steps
   backwards from the signed roots; the only sizes it cannot bind one by one are those of two supplied
   nodes at sibling positions (hypothesis no_sibling_pair). *)
From HC Require Import Base NMap Codec CodecFacts Crypto FlatTree Storage Bitfield Oplog Merkle Core.
From HC Require Import FlatTreeFacts StorageFacts BitfieldFacts OplogFacts TreeRef OffsetFacts CoreFacts
                       Sound NoPanic Refine Replicate SoundCoreLib SoundCore.
From Coq Require Import FMapPositive ZifyN ZifyNat ZifyBool.
Ltac Zify.zify_post_hook ::= Z.div_mod_to_equations.
Arguments N.add : simpl never.
Arguments N.sub : simpl never.
Arguments N.mul : simpl never.
Arguments N.div : simpl never.
Arguments N.modulo : simpl never.
Arguments N.pow : simpl never.
Arguments N.eqb : simpl never.
Arguments N.ltb : simpl never.
Arguments N.leb : simpl never.
Arguments N.of_nat : simpl never.
Arguments N.to_nat : simpl never.

(* ====================================================================================== *)
(* U1. append_root / merge_roots, read backwards from authentic roots                        *)
(* ====================================================================================== *)

Lemma pow64_val : 2 ^ 64 = 18446744073709551616.
Proof. reflexivity. Qed.

(* the parent's flat index lies strictly between its children *)
Lemma parent_index_lt d o :
  ft_index (N.of_nat (S d)) (o / 2) < N.max (ft_index (N.of_nat d) o) (ft_index (N.of_nat d) (sib o)).
Proof.
  pose proof (ft_index_succ (N.of_nat (S d)) (o / 2)) as HP.
  pose proof (ft_index_succ (N.of_nat d) o) as HA. pose proof (ft_index_succ (N.of_nat d) (sib o)) as HB.
  rewrite !p2_N in *. rewrite p2_S in HP. pose proof (p2_pos d) as Hp. unfold sib in *.
  set (M := p2 d) in *.
  destruct (parity o) as [(E & _ & q & ->)|(E & _ & q & ->)]; rewrite E in *.
  - replace (2 * q / 2) with q in * by lia.
    assert (ft_index (N.of_nat (S d)) q < ft_index (N.of_nat d) (2 * q + 1)); [|lia].
    assert (2 * M * (2 * q + 1) = M * (4 * q + 2)) by lia.
    assert (M * (2 * (2 * q + 1) + 1) = M * (4 * q + 2) + M) by lia. lia.
  - replace ((2 * q + 1) / 2) with q in * by lia. replace (2 * q + 1 - 1) with (2 * q) in * by lia.
    assert (ft_index (N.of_nat (S d)) q < ft_index (N.of_nat d) (2 * q + 1)); [|lia].
    assert (2 * M * (2 * q + 1) = M * (4 * q + 2)) by lia.
    assert (M * (2 * (2 * q + 1) + 1) = M * (4 * q + 2) + M) by lia. lia.
Qed.

(* number of leaves below a node *)
Definition span (x : node) : N := 2 ^ ft_depth (n_index x).
Definition spans (l : list node) : N := sumN (map span l).

Lemma spans_cons x l : spans (x :: l) = span x + spans l.
Proof. reflexivity. Qed.
Lemma spans_app a b : spans (a ++ b) = spans a + spans b.
Proof. unfold spans. rewrite map_app. apply sumN_app. Qed.
Lemma spans_rev l : spans (rev l) = spans l.
Proof. unfold spans. rewrite map_rev. apply sumN_rev. Qed.

Section Backward.
  Variable cr : crypto.
  Hypothesis Hhash32 : forall x, length (cr_hash cr x) = 32%nat.
  Variable bs : list bytes.
  Hypothesis Hfit : sumN (map len bs) <= u64_max.
  Variable m : N.                       (* the length the accepted signature covers *)

  Let T := ref_at cr bs.
  Let R := ref_node cr bs.

  Definition Tn (x : node) : Prop := x = ref_at cr bs (n_index x).
  Definition auth (x : node) : Prop := authentic cr bs m x.

  (* x can vouch for its own size: once its hash is the writer's, the node is the writer's *)
  Definition SAp (x : node) : Prop :=
    n_hash x = n_hash (ref_at cr bs (n_index x)) -> Tn x \/ some_collision cr.

  (* a node computed by the verifier from two children at sibling positions *)
  Definition kC (x : node) : Prop :=
    exists d o a b,
      n_index a = ft_index (N.of_nat d) o /\ n_index b = ft_index (N.of_nat d) (sib o) /\
      x = mkNode (ft_index (N.of_nat (S d)) (o / 2)) (n_length a + n_length b) (parent_hash cr a b) /\
      n_length a + n_length b <= u64_max /\ length (n_hash a) = 32%nat /\ length (n_hash b) = 32%nat.

  Lemma Tn_SAp x : Tn x -> SAp x.
  Proof. intros H _. left. exact H. Qed.

  Lemma kC_SAp x : kC x -> SAp x.
  Proof.
    intros (d & o & a & b & Ia & Ib & -> & Hl & Ha & Hb) Hh. cbn [n_index n_hash] in Hh.
    unfold Tn. cbn [n_index]. rewrite ref_at_index in Hh.
    destruct (R_parent cr bs d o) as [Rh Rl]. rewrite Rh in Hh.
    pose proof Hh as Hh0. apply (parent_hash_binds_first cr) in Hh.
    - destruct Hh as [(A1 & A2 & A3)|C]; [left|right; exact C].
      rewrite ref_at_index. apply node_eq; cbn [n_index n_length n_hash].
      + symmetry. apply ref_node_index.
      + rewrite Rl. apply A3; apply u64_lt; [exact Hl|].
        rewrite <- Rl. apply (R_fits cr bs Hfit).
      + rewrite Rh. exact Hh0.
    - rewrite ref_node_index. exact Ia.
    - rewrite ref_node_index. exact Ib.
    - rewrite Ha. symmetry. apply (R_hash32 cr Hhash32).
  Qed.

  Lemma merge_one a b d o :
    n_index a = ft_index (N.of_nat d) o -> n_index b = ft_index (N.of_nat d) (sib o) ->
    length (n_hash a) = 32%nat -> length (n_hash b) = 32%nat ->
    auth (mkNode (ft_index (N.of_nat (S d)) (o / 2)) (n_length a + n_length b) (parent_hash cr a b)) ->
    SAp a \/ SAp b -> (auth a /\ auth b) \/ some_collision cr.
  Proof.
    intros Ia Ib Ha Hb [HT Hin] Hsa. unfold Tn in HT. cbn [n_index] in HT, Hin.
    rewrite ref_at_index in HT. destruct (R_parent cr bs d o) as [Rh Rl].
    assert (Hh : parent_hash cr a b = parent_hash cr (ref_node cr bs d o) (ref_node cr bs d (sib o))).
    { rewrite <- Rh. rewrite <- HT. reflexivity. }
    assert (Hl : n_length a + n_length b = n_length (ref_node cr bs d o) + n_length (ref_node cr bs d (sib o))).
    { rewrite <- Rl. rewrite <- HT. reflexivity. }
    apply in_len_index in Hin.
    assert (Hia : in_len m (n_index a)).
    { rewrite Ia. apply in_len_index. pose proof (span_end_parent d o). unfold span_end in *. lia. }
    assert (Hib : in_len m (n_index b)).
    { rewrite Ib. apply in_len_index. pose proof (span_end_sib d o). unfold span_end in *. lia. }
    apply (parent_hash_binds_first cr) in Hh;
      [|rewrite ref_node_index; exact Ia|rewrite ref_node_index; exact Ib
       |rewrite Ha; symmetry; apply (R_hash32 cr Hhash32)].
    destruct Hh as [(A1 & A2 & _)|C]; [|right; exact C].
    assert (Ea : ref_at cr bs (n_index a) = ref_node cr bs d o) by (rewrite Ia; apply ref_at_index).
    assert (Eb : ref_at cr bs (n_index b) = ref_node cr bs d (sib o)) by (rewrite Ib; apply ref_at_index).
    destruct Hsa as [Hsa|Hsa].
    - destruct Hsa as [Ta|C]; [rewrite Ea; exact A1| |right; exact C].
      left. split; [split; assumption|]. split; [|exact Hib].
      unfold Tn. rewrite Eb. apply node_eq; [rewrite ref_node_index; exact Ib| |exact A2].
      unfold Tn in Ta. rewrite Ea in Ta. pose proof (f_equal n_length Ta) as La. lia.
    - destruct Hsa as [Tb|C]; [rewrite Eb; exact A2| |right; exact C].
      left. split; [|split; assumption]. split; [|exact Hia].
      unfold Tn. rewrite Ea. apply node_eq; [rewrite ref_node_index; exact Ia| |exact A1].
      unfold Tn in Tb. rewrite Eb in Tb. pose proof (f_equal n_length Tb) as Lb. lia.
  Qed.

  Lemma span_at x d o : n_index x = ft_index (N.of_nat d) o -> span x = p2 d.
  Proof. intros H. unfold span. rewrite H, ft_depth_index. reflexivity. Qed.

  Lemma merge_back : forall fuel a rest nodes d o rr nodes' it',
    merge_roots cr fuel (a :: rest) nodes (it_at (N.of_nat d) o) = Ok (rr, nodes', it') ->
    n_index a = ft_index (N.of_nat d) o -> root_wf a -> Forall root_wf rest ->
    exists top rest' new consumed d' o',
      rr = top :: rest' /\ rest = consumed ++ rest' /\ nodes' = new ++ nodes /\
      it' = it_at (N.of_nat d') o' /\ n_index top = ft_index (N.of_nat d') o' /\ root_wf top /\
      n_length top = n_length a + lens consumed /\ span top = span a + spans consumed /\
      Forall kC new /\ d' = (d + length consumed)%nat /\ o' = o / p2 (length consumed) /\
      ((consumed = [] /\ top = a /\ new = []) \/
       (exists b1 tl, consumed = b1 :: tl /\ n_index b1 = ft_index (N.of_nat d) (sib o) /\
          kC top /\ In top new /\
          (auth top -> SAp a \/ SAp b1 ->
           (auth a /\ Forall auth consumed /\ Forall auth new) \/ some_collision cr))).
  Proof.
    induction fuel as [|f IH]; intros a rest nodes d o rr nodes' it' H Ia Wa Wr; [discriminate H|].
    assert (Hstop : (rr, nodes', it') = (a :: rest, nodes, it_at (N.of_nat d) o) ->
      exists top rest' new consumed d' o',
        rr = top :: rest' /\ rest = consumed ++ rest' /\ nodes' = new ++ nodes /\
        it' = it_at (N.of_nat d') o' /\ n_index top = ft_index (N.of_nat d') o' /\ root_wf top /\
        n_length top = n_length a + lens consumed /\ span top = span a + spans consumed /\
        Forall kC new /\ d' = (d + length consumed)%nat /\ o' = o / p2 (length consumed) /\
        ((consumed = [] /\ top = a /\ new = []) \/
         (exists b1 tl, consumed = b1 :: tl /\ n_index b1 = ft_index (N.of_nat d) (sib o) /\
            kC top /\ In top new /\
            (auth top -> SAp a \/ SAp b1 ->
             (auth a /\ Forall auth consumed /\ Forall auth new) \/ some_collision cr)))).
    { intros [= -> -> ->]. exists a, rest, [], [], d, o. cbn [app]. unfold lens, spans. cbn [map sumN].
      split; [reflexivity|]. split; [reflexivity|]. split; [reflexivity|]. split; [reflexivity|].
      split; [exact Ia|]. split; [exact Wa|]. split; [lia|]. split; [lia|]. split; [constructor|].
      cbn [length]. rewrite Nat.add_0_r, p2_0, N.div_1_r. split; [reflexivity|]. split; [reflexivity|].
      left. auto. }
    cbn [merge_roots] in H. destruct rest as [|b rest2].
    { apply Hstop. now injection H as <- <- <-. }
    rewrite it_sibling_at_sib in H. cbn [it_at it_index] in H.
    destruct (N.eqb_spec (ft_index (N.of_nat d) (sib o)) (n_index b)) as [Eb|Eb]; cbn [negb] in H.
    2:{ apply Hstop. now injection H as <- <- <-. }
    clear Hstop. fold (it_at (N.of_nat d) (sib o)) in H. rewrite it_parent_at, sib_div in H.
    replace (N.of_nat d + 1) with (N.of_nat (S d)) in H by lia.
    apply bind_ok in H. destruct H as (l & Hadd & H).
    unfold add64 in Hadd. destruct (fits_u64 (n_length a + n_length b)) eqn:F; [|discriminate Hadd].
    injection Hadd as <-. cbn [it_at it_index] in H. fold (it_at (N.of_nat (S d)) (o / 2)) in H.
    set (P := mkNode (ft_index (N.of_nat (S d)) (o / 2)) (n_length a + n_length b) (parent_hash cr a b)) in *.
    inversion Wr as [|? ? Wb Wr2]; subst.
    destruct Wa as (Wa1 & Wa2 & Wa3). destruct Wb as (Wb1 & Wb2 & Wb3).
    assert (Hl64 : n_length a + n_length b <= u64_max) by (unfold fits_u64 in F; lia).
    assert (WP : root_wf P).
    { split; [apply Hhash32|]. split; [|apply u64_lt; exact Hl64].
      pose proof (parent_index_lt d o) as Lt. unfold P. cbn [n_index]. rewrite <- Ia, Eb in Lt. lia. }
    assert (KP : kC P).
    { exists d, o, a, b. repeat split; auto. }
    destruct (IH P rest2 (P :: nodes) (S d) (o / 2) rr nodes' it' H eq_refl WP Wr2)
      as (top & rest' & new & consumed & d' & o' & -> & -> & -> & -> & It & Wt & Lt & St & Kn & Ed & Eo & Hcase).
    exists top, rest', (new ++ [P]), (b :: consumed), d', o'.
    split; [reflexivity|]. split; [reflexivity|]. split; [rewrite <- app_assoc; reflexivity|].
    split; [reflexivity|]. split; [exact It|]. split; [exact Wt|].
    split; [rewrite Lt, lens_cons; unfold P; cbn [n_length]; lia|].
    split.
    { rewrite St, spans_cons. rewrite (span_at P (S d) (o / 2) eq_refl), (span_at a d o Ia).
      rewrite (span_at b d (sib o)) by (symmetry; exact Eb). rewrite p2_S. lia. }
    split; [apply Forall_app; split; [exact Kn|constructor; [exact KP|constructor]]|].
    split; [cbn [length]; lia|]. split; [cbn [length]; rewrite <- div_p2_S; exact Eo|].
    right. exists b, consumed. split; [reflexivity|]. split; [symmetry; exact Eb|].
    destruct Hcase as [(-> & -> & ->)|(b2 & tl & -> & Ib2 & Kt & Hin & Hback)].
    - split; [exact KP|]. split; [left; reflexivity|].
      intros At Hsa.
      destruct (merge_one a b d o Ia (eq_sym Eb) Wa1 Wb1 At Hsa) as [[Aa Ab]|C]; [left|right; exact C].
      split; [exact Aa|]. split; [constructor; [exact Ab|constructor]|].
      cbn [app]. constructor; [exact At|constructor].
    - split; [exact Kt|]. split; [apply in_or_app; left; exact Hin|].
      intros At Hsa.
      destruct (Hback At (or_introl (kC_SAp P KP))) as [(AP & Ac & An)|C]; [|right; exact C].
      destruct (merge_one a b d o Ia (eq_sym Eb) Wa1 Wb1 AP Hsa) as [[Aa Ab]|C]; [left|right; exact C].
      split; [exact Aa|]. split; [constructor; [exact Ab|exact Ac]|].
      apply Forall_app. split; [exact An|constructor; [exact AP|constructor]].
  Qed.
End Backward.

(* ---------- the shape of a merge: who became whose parent ---------- *)

Lemma sib_invol o : sib (sib o) = o.
Proof.
  unfold sib. destruct (parity o) as [(E & _ & q & ->)|(E & _ & q & ->)]; rewrite E.
  - assert (N.even (2 * q + 1) = false) as -> by (rewrite even_mod; lia). lia.
  - replace (2 * q + 1 - 1) with (2 * q) by lia.
    assert (N.even (2 * q) = true) as -> by (rewrite even_mod; lia). lia.
Qed.

(* x sits at (d, o), s at its sibling position, P at their parent position *)
Definition family (x s P : node) : Prop :=
  exists d o, n_index x = ft_index (N.of_nat d) o /\ n_index s = ft_index (N.of_nat d) (sib o) /\
              n_index P = ft_index (N.of_nat (S d)) (o / 2).

Lemma family_sym x s P : family x s P -> family s x P.
Proof.
  intros (d & o & H1 & H2 & H3). exists d, (sib o). rewrite sib_invol, sib_div. auto.
Qed.

Section MergeShape.
  Variable cr : crypto.

  Lemma merge_shape : forall fuel a rest nodes d o rr nodes' it',
    merge_roots cr fuel (a :: rest) nodes (it_at (N.of_nat d) o) = Ok (rr, nodes', it') ->
    n_index a = ft_index (N.of_nat d) o ->
    exists top rest' new consumed,
      rr = top :: rest' /\ rest = consumed ++ rest' /\ nodes' = new ++ nodes /\
      Forall (fun x => x = top \/ exists s P, family x s P /\ In s (a :: consumed ++ new) /\ In P new)
             (a :: consumed ++ new) /\
      Forall (fun P => exists x s, family x s P /\ In x (a :: consumed ++ new) /\ In s (a :: consumed ++ new)) new.
  Proof.
    induction fuel as [|f IH]; intros a rest nodes d o rr nodes' it' H Ia; [discriminate H|].
    assert (Hstop : (rr, nodes', it') = (a :: rest, nodes, it_at (N.of_nat d) o) ->
      exists top rest' new consumed,
        rr = top :: rest' /\ rest = consumed ++ rest' /\ nodes' = new ++ nodes /\
        Forall (fun x => x = top \/ exists s P, family x s P /\ In s (a :: consumed ++ new) /\ In P new)
               (a :: consumed ++ new) /\
        Forall (fun P => exists x s, family x s P /\ In x (a :: consumed ++ new) /\ In s (a :: consumed ++ new)) new).
    { intros [= -> -> ->]. exists a, rest, [], []. cbn [app].
      split; [reflexivity|]. split; [reflexivity|]. split; [reflexivity|].
      split; [constructor; [left; reflexivity|constructor]|constructor]. }
    cbn [merge_roots] in H. destruct rest as [|b rest2].
    { apply Hstop. now injection H as <- <- <-. }
    rewrite it_sibling_at_sib in H. cbn [it_at it_index] in H.
    destruct (N.eqb_spec (ft_index (N.of_nat d) (sib o)) (n_index b)) as [Eb|Eb]; cbn [negb] in H.
    2:{ apply Hstop. now injection H as <- <- <-. }
    clear Hstop. fold (it_at (N.of_nat d) (sib o)) in H. rewrite it_parent_at, sib_div in H.
    replace (N.of_nat d + 1) with (N.of_nat (S d)) in H by lia.
    apply bind_ok in H. destruct H as (l & _ & H).
    cbn [it_at it_index] in H. fold (it_at (N.of_nat (S d)) (o / 2)) in H.
    set (P := mkNode (ft_index (N.of_nat (S d)) (o / 2)) l (parent_hash cr a b)) in *.
    destruct (IH P rest2 (P :: nodes) (S d) (o / 2) rr nodes' it' H eq_refl)
      as (top & rest' & new & consumed & -> & -> & -> & Hch & Hmd).
    exists top, rest', (new ++ [P]), (b :: consumed).
    split; [reflexivity|]. split; [reflexivity|]. split; [rewrite <- app_assoc; reflexivity|].
    set (L' := P :: consumed ++ new) in *. set (L := a :: (b :: consumed) ++ new ++ [P]).
    assert (Hsub : forall x, In x L' -> In x L).
    { intros x [<-|Hx].
      - right. right. apply in_or_app. right. apply in_or_app. right. left. reflexivity.
      - apply in_app_or in Hx. destruct Hx as [Hx|Hx].
        + right. right. apply in_or_app. left. exact Hx.
        + right. right. apply in_or_app. right. apply in_or_app. left. exact Hx. }
    assert (Hnew : forall x, In x new -> In x (new ++ [P])) by (intros x Hx; apply in_or_app; left; exact Hx).
    assert (HPnew : In P (new ++ [P])) by (apply in_or_app; right; left; reflexivity).
    assert (Fab : family a b P) by (exists d, o; repeat split; auto).
    assert (Hlift : forall x, (x = top \/ exists s P0, family x s P0 /\ In s L' /\ In P0 new) ->
                              (x = top \/ exists s P0, family x s P0 /\ In s L /\ In P0 (new ++ [P]))).
    { intros x [E|(s & P0 & F1 & F2 & F3)]; [left; exact E|right].
      exists s, P0. split; [exact F1|]. split; [apply Hsub, F2|apply Hnew, F3]. }
    split.
    - constructor.
      { right. exists b, P. split; [exact Fab|]. split; [right; left; reflexivity|exact HPnew]. }
      constructor.
      { right. exists a, P. split; [apply family_sym, Fab|]. split; [left; reflexivity|exact HPnew]. }
      inversion Hch as [|? ? HP Hrest]; subst.
      apply Forall_app in Hrest. destruct Hrest as [Hc Hn].
      apply Forall_app. split.
      + eapply Forall_impl; [|exact Hc]. exact Hlift.
      + apply Forall_app. split.
        * eapply Forall_impl; [|exact Hn]. exact Hlift.
        * constructor; [apply Hlift, HP|constructor].
    - apply Forall_app. split.
      + eapply Forall_impl; [|exact Hmd]. intros P0 (x & s & F1 & F2 & F3).
        exists x, s. split; [exact F1|]. split; apply Hsub; assumption.
      + constructor; [|constructor]. exists a, b. split; [exact Fab|].
        split; [left; reflexivity|right; left; reflexivity].
  Qed.
End MergeShape.

(* ====================================================================================== *)
(* U3. The iteration over the full roots of [to] stands on well-formed positions            *)
(* ====================================================================================== *)

Lemma p2_le_mono a b : (a <= b)%nat -> p2 a <= p2 b.
Proof.
  intros H. replace b with (a + (b - a))%nat by lia. rewrite p2_add. pose proof (p2_pos (b - a)).
  pose proof (p2_pos a). nia.
Qed.

Lemma p2_lt_inv a b : p2 a < p2 b -> (a < b)%nat.
Proof.
  intros H. destruct (Nat.lt_ge_cases a b) as [L|L]; [exact L|].
  pose proof (p2_le_mono b a L). lia.
Qed.

Lemma it_next_tree_at d o :
  it_next_tree (it_at (N.of_nat d) o) =
  mkIter (2 * ((o + 1) * p2 d)) (2 * ((o + 1) * p2 d) / 2) 2.
Proof.
  unfold it_next_tree, it_at. cbn [it_index it_factor].
  pose proof (ft_index_succ (N.of_nat d) o) as S. rewrite p2_N in S.
  rewrite pow2_succ, p2_N. pose proof (p2_pos d).
  replace (2 * p2 d / 2) with (p2 d) by lia.
  replace (ft_index (N.of_nat d) o + p2 d + 1) with (2 * ((o + 1) * p2 d)) by lia. reflexivity.
Qed.

Lemma it_full_root_loop_offset to : forall fuel it,
  exists j, it_factor (it_full_root_loop fuel it to) = it_factor it * p2 j /\
            it_offset (it_full_root_loop fuel it to) = it_offset it / p2 j.
Proof.
  induction fuel as [|f IH]; intros it; cbn [it_full_root_loop].
  - exists 0%nat. rewrite p2_0, N.div_1_r. lia.
  - destruct (it_index it + it_factor it + it_factor it / 2 <? to).
    + destruct (IH (mkIter (it_index it + it_factor it / 2) (it_offset it / 2) (it_factor it * 2)))
        as (j & F & O). cbn [it_factor it_offset] in F, O.
      exists (S j). rewrite F, O, p2_S, div_p2_S, p2_S. split; [lia|reflexivity].
    + exists 0%nat. rewrite p2_0, N.div_1_r. lia.
Qed.

(* x/2 is to/2 with its low bits cleared *)
Definition aligned (to x : N) : Prop := exists e, x / 2 = to / 2 / p2 e * p2 e.
Definition Jx (to x : N) : Prop := x mod 2 = 0 /\ (to <= x \/ aligned to x).

Lemma aligned_0 to : aligned to 0.
Proof.
  exists (N.size_nat (to / 2)). pose proof (size_nat_spec (to / 2)) as H. rewrite p2_N in H.
  rewrite (N.div_small (to / 2)) by exact H. reflexivity.
Qed.

Lemma aligned_step m' x2 e j :
  x2 = m' / p2 e * p2 e -> x2 + p2 j <= m' -> m' < x2 + 2 * p2 j ->
  exists o, o mod 2 = 0 /\ x2 = o * p2 j /\ x2 + p2 j = m' / p2 j * p2 j.
Proof.
  intros Hx H1 H2. pose proof (p2_pos e) as He. pose proof (p2_pos j) as Hj.
  pose proof (N.div_mod m' (p2 e) ltac:(lia)) as Dm. pose proof (N.mod_lt m' (p2 e) ltac:(lia)) as Lm.
  assert (Hje : (j < e)%nat) by (apply p2_lt_inv; nia).
  replace e with (j + S (e - S j))%nat in * by lia. set (t := (e - S j)%nat) in *. clearbody t.
  rewrite p2_add, p2_S in *. pose proof (p2_pos t) as Ht.
  set (q := m' / (p2 j * (2 * p2 t))) in *.
  exists (q * (2 * p2 t)). split; [|split].
  - replace (q * (2 * p2 t)) with (q * p2 t * 2) by lia. apply N.mod_mul. lia.
  - rewrite Hx. lia.
  - assert (Ed : m' / p2 j = q * (2 * p2 t) + 1).
    { symmetry. apply (N.div_unique m' (p2 j) _ (m' - x2 - p2 j)); nia. }
    rewrite Ed. rewrite Hx. lia.
Qed.

Lemma merged_end_beyond o d k :
  o mod 2 = 0 -> (0 < k)%nat -> (o + 2) * p2 d <= (o / p2 k + 1) * p2 (d + k).
Proof.
  intros Ho Hk. destruct k as [|k]; [lia|]. rewrite Nat.add_succ_r, <- div_p2_S.
  replace (S (d + k)) with (S d + k)%nat by lia.
  pose proof (span_end_up k (S d) (o / 2)) as U. unfold span_end in U.
  rewrite p2_S in U. assert (Eo : o = 2 * (o / 2)) by lia.
  assert ((o + 2) * p2 d = (o / 2 + 1) * (2 * p2 d)) by (rewrite Eo at 1; lia). lia.
Qed.

Lemma full_root_at to x found it1 :
  to mod 2 = 0 -> Jx to x ->
  it_full_root (mkIter x (x / 2) 2) to = (found, it1) ->
  found = false \/
  (found = true /\ exists d o, it1 = it_at (N.of_nat d) o /\ o mod 2 = 0 /\ x = 2 * (o * p2 d) /\
     to < x + 4 * p2 d /\ Jx to (x + 2 * p2 d)).
Proof.
  intros Hto [Hx HJ] H.
  destruct (it_full_root_tree x to found it1 Hx Hto H)
    as [(-> & _)|(-> & Hlt & h & Hh & Hi & Hf & Hfit & Hstop)]; [left; reflexivity|right].
  split; [reflexivity|].
  destruct HJ as [HJ|(e & He)]; [lia|].
  assert (Hit : it1 = it_full_root_loop (N.size_nat to) (mkIter x (x / 2) 2) to).
  { unfold it_full_root in H. cbn [it_index] in H.
    destruct ((to <=? x) || N.odd x); [discriminate H|]. now injection H as <-. }
  destruct (it_full_root_loop_offset to (N.size_nat to) (mkIter x (x / 2) 2)) as (j & Fj & Oj).
  rewrite <- Hit in Fj, Oj. cbn [it_factor it_offset] in Fj, Oj.
  assert (Ehj : h = p2 j) by lia. subst h.
  destruct (aligned_step (to / 2) (x / 2) e j He ltac:(lia) ltac:(lia)) as (o & Ho & Exo & Enext).
  exists j, o.
  assert (Ex : x = 2 * (o * p2 j)) by lia.
  split.
  - destruct it1 as [idx off fac]. cbn [it_index it_offset it_factor] in *. unfold it_at.
    pose proof (ft_index_succ (N.of_nat j) o) as S. rewrite p2_N in S. pose proof (p2_pos j).
    f_equal.
    + lia.
    + rewrite Oj, Exo. apply N.div_mul. lia.
    + rewrite pow2_succ, p2_N. lia.
  - split; [exact Ho|]. split; [exact Ex|]. split; [lia|].
    split; [pose proof (p2_pos j); lia|]. right. exists j.
    replace ((x + 2 * p2 j) / 2) with (x / 2 + p2 j) by lia. exact Enext.
Qed.

(* ====================================================================================== *)
(* U2. The changesets an upgrade goes through                                               *)
(* ====================================================================================== *)

Section UpgradeRun.
  Variable cr : crypto.
  Hypothesis Hhash32 : forall x, length (cr_hash cr x) = 32%nat.
  Variable bs : list bytes.
  Hypothesis Hfit : sumN (map len bs) <= u64_max.
  Variable m : N.                         (* length covered by the accepted signature *)
  Variable Sup : node -> Prop.            (* the nodes supplied by the upgrade section *)
  Hypothesis Sup_wf : forall x, Sup x -> length (n_hash x) = 32%nat /\ n_index x < 2 ^ 64.
  (* no two supplied nodes sit at sibling positions: these are the pairs whose sizes the scheme
     binds only in sum *)
  Hypothesis Sup_nosib : forall x y d o, Sup x -> Sup y ->
    n_index x = ft_index (N.of_nat d) o -> n_index y <> ft_index (N.of_nat d) (sib o).
  Variable Ex : node -> Prop.             (* the root of the block section, which vouches for its size *)
  Hypothesis Ex_wf : forall x, Ex x -> length (n_hash x) = 32%nat /\ n_index x < 2 ^ 64.
  Hypothesis Ex_SAp : forall x, Ex x -> SAp cr bs x.
  Variable c0 : changeset.                (* the changeset the upgrade starts from *)

  Definition kind (x : node) : Prop := Tn cr bs x \/ kC cr x \/ Sup x \/ Ex x.

  (* the nodes that were roots at some time: the roots at the start and the nodes pushed since *)
  Definition pool (new : list node) : list node := cs_roots c0 ++ new.

  Record UI (c : changeset) (new : list node) : Prop := mkUI {
    ui_bytes : cs_byte_length c = lens (cs_roots c);
    ui_len : cs_length c = spans (cs_roots c);
    ui_wf : Forall root_wf (cs_roots c);
    ui_kind : Forall kind (cs_roots c);
    ui_rnodes : cs_rnodes c = new ++ cs_rnodes c0;
    (* a pushed node was supplied, or computed from two nodes of the pool *)
    ui_made : Forall (fun P => Sup P \/ Ex P \/
                               exists x s, family x s P /\ In x (pool new) /\ In s (pool new)) new;
    ui_roots_in : Forall (fun x => In x (pool new)) (cs_roots c);
    (* a node of the pool is still a root, or was merged with its sibling into a pushed parent *)
    ui_closure : Forall (fun x => In x (cs_roots c) \/
                                  exists s P, family x s P /\ In s (pool new) /\ In P new) (pool new);
    ui_G : Forall (auth cr bs m) (cs_roots c) -> Forall (auth cr bs m) new \/ some_collision cr;
    ui_frame : cs_fork c = cs_fork c0 /\ cs_ancestors c = cs_ancestors c0 /\
               cs_orig_length c = cs_orig_length c0 /\ cs_orig_fork c = cs_orig_fork c0 /\
               cs_batch_length c = cs_batch_length c0;
    ui_grow : cs_length c0 <= cs_length c;
    ui_up : cs_upgraded c = false -> cs_roots c = cs_roots c0 /\ new = [] }.

  Lemma kind_SAp x : kind x -> Sup x \/ SAp cr bs x.
  Proof.
    intros [H|[H|[H|H]]].
    - right. apply Tn_SAp, H.
    - right. apply (kC_SAp cr Hhash32 bs Hfit), H.
    - left. exact H.
    - right. apply Ex_SAp, H.
  Qed.

  Lemma pool_incl new new0 x : In x (pool new) -> In x (pool (new0 ++ new)).
  Proof.
    unfold pool. intros H. apply in_app_or in H. apply in_or_app. destruct H as [H|H]; [left; exact H|right].
    apply in_or_app. right. exact H.
  Qed.

  Lemma append_root_back c new n d o c' it' :
    append_root cr c n (it_at (N.of_nat d) o) = Ok (c', it') ->
    n_index n = ft_index (N.of_nat d) o -> Sup n \/ Ex n -> UI c new ->
    exists new0, UI c' (new0 ++ n :: new) /\
      exists k, it' = it_at (N.of_nat (d + k)) (o / p2 k).
  Proof.
    intros H Hidx Sn [U1 U2 U3 U4 N1 Nmade Nin Ncl N4 U6 U7 _].
    unfold append_root in H. apply bind_ok in H. destruct H as (bl & Hbl & H).
    apply bind_ok in H. destruct H as ([[rr nr] it1] & Hm & H). injection H as <- <-.
    unfold add64 in Hbl. destruct (fits_u64 (cs_byte_length c + n_length n)) eqn:F; [|discriminate Hbl].
    injection Hbl as <-.
    assert (Sn_wf : length (n_hash n) = 32%nat /\ n_index n < 2 ^ 64)
      by (destruct Sn as [Sn|Sn]; [apply Sup_wf, Sn|apply Ex_wf, Sn]).
    destruct Sn_wf as [Sn1 Sn2].
    assert (Wn : root_wf n).
    { split; [exact Sn1|]. split; [exact Sn2|]. apply u64_lt. unfold fits_u64 in F. lia. }
    pose proof Hm as Hm2.
    destruct (merge_back cr Hhash32 bs Hfit m _ _ _ _ _ _ _ _ _ Hm Hidx Wn (Forall_rev U3))
      as (top & rest' & new0 & consumed & d' & o' & -> & Erest & -> & -> & It & Wt & Lt & St & Kn & Ed & Eo & Hcase).
    destruct (merge_shape cr _ _ _ _ _ _ _ _ _ Hm2 Hidx)
      as (top2 & rest2 & new2 & consumed2 & E1 & E2 & E3 & Hch & Hmd).
    injection E1 as <- <-.
    assert (consumed2 = consumed) by (rewrite Erest in E2; apply app_inv_tail in E2; now symmetry). subst consumed2.
    assert (new2 = new0).
    { replace (new0 ++ n :: cs_rnodes c) with (new0 ++ [n] ++ cs_rnodes c) in E3 by reflexivity.
      replace (new2 ++ n :: cs_rnodes c) with (new2 ++ [n] ++ cs_rnodes c) in E3 by reflexivity.
      rewrite !app_assoc in E3. apply app_inv_tail in E3. apply app_inv_tail in E3. now symmetry. }
    subst new2.
    assert (Eroots : cs_roots c = rev rest' ++ rev consumed).
    { rewrite <- rev_app_distr, <- Erest. symmetry. apply rev_involutive. }
    set (new' := new0 ++ n :: new).
    assert (Hpool : forall x, In x (pool new) -> In x (pool new')).
    { intros x Hx. unfold new'. replace (new0 ++ n :: new) with ((new0 ++ [n]) ++ new)
        by (rewrite <- app_assoc; reflexivity). apply pool_incl, Hx. }
    assert (Hcons_pool : forall x, In x consumed -> In x (pool new')).
    { intros x Hx. apply Hpool.
      rewrite Forall_forall in Nin. apply Nin. rewrite Eroots. apply in_or_app. right. apply -> in_rev. exact Hx. }
    assert (HL_pool : forall x, In x (n :: consumed ++ new0) -> In x (pool new')).
    { intros x [<-|Hx].
      - unfold pool, new'. apply in_or_app. right. apply in_or_app. right. left. reflexivity.
      - apply in_app_or in Hx. destruct Hx as [Hx|Hx]; [apply Hcons_pool, Hx|].
        unfold pool, new'. apply in_or_app. right. apply in_or_app. left. exact Hx. }
    assert (Hnew0 : forall x, In x new0 -> In x new') by (intros x Hx; apply in_or_app; left; exact Hx).
    exists new0. split.
    - constructor; cbn [cs_byte_length cs_length cs_roots cs_rnodes cs_fork cs_ancestors cs_orig_length
                        cs_orig_fork cs_batch_length rev cs_upgraded].
      + rewrite U1, Eroots, !lens_app, !lens_rev, lens_cons, Lt. change (lens []) with 0. lia.
      + rewrite U2, Eroots, !spans_app, !spans_rev, spans_cons, St. change (spans []) with 0.
        cbn [it_at it_factor]. rewrite (span_at n d o Hidx), pow2_succ, p2_N.
        pose proof (p2_pos d). replace (2 * p2 d / 2) with (p2 d) by lia. lia.
      + apply Forall_app. split; [|constructor; [exact Wt|constructor]].
        rewrite Eroots in U3. apply Forall_app in U3. apply U3.
      + apply Forall_app. split.
        * rewrite Eroots in U4. apply Forall_app in U4. apply U4.
        * constructor; [|constructor].
          destruct Hcase as [(_ & -> & _)|(b1 & tl0 & _ & _ & Kt & _)].
          -- destruct Sn as [Sn|Sn]; [right; right; left; exact Sn|right; right; right; exact Sn].
          -- right; left; exact Kt.
      + rewrite N1. unfold new'. rewrite <- app_assoc. reflexivity.
      + unfold new'. apply Forall_app. split.
        * eapply Forall_impl; [|exact Hmd]. intros P0 (x & s & F1 & F2 & F3). right. right.
          exists x, s. split; [exact F1|]. split; apply HL_pool; assumption.
        * constructor; [destruct Sn as [Sn|Sn]; [left; exact Sn|right; left; exact Sn]|].
          eapply Forall_impl; [|exact Nmade]. intros P0 [HP|[HP|(x & s & F1 & F2 & F3)]]; [left; exact HP|right; left; exact HP|].
          right. right. exists x, s. split; [exact F1|].
          split; apply Hpool; assumption.
      + apply Forall_app. split.
        * rewrite Eroots in Nin. apply Forall_app in Nin. destruct Nin as [Nin _].
          eapply Forall_impl; [|exact Nin]. intros x Hx. apply Hpool. exact Hx.
        * constructor; [|constructor].
          destruct Hcase as [(_ & -> & _)|(b1 & tl0 & _ & _ & _ & Hin & _)].
          -- apply HL_pool. left. reflexivity.
          -- apply HL_pool. right. apply in_or_app. right. exact Hin.
      + (* closure *)
        assert (Hchain : forall x, In x (n :: consumed ++ new0) ->
                  In x (rev rest' ++ [top]) \/
                  exists s P, family x s P /\ In s (pool new') /\ In P new').
        { intros x Hx. rewrite Forall_forall in Hch. destruct (Hch x Hx) as [->|(s & P & F1 & F2 & F3)].
          - left. apply in_or_app. right. left. reflexivity.
          - right. exists s, P. split; [exact F1|]. split; [apply HL_pool, F2|apply Hnew0, F3]. }
        apply Forall_forall. intros x Hx. unfold pool, new' in Hx.
        apply in_app_or in Hx. destruct Hx as [Hx|Hx].
        * (* an initial root *)
          rewrite Forall_forall in Ncl.
          destruct (Ncl x ltac:(unfold pool; apply in_or_app; left; exact Hx)) as [Hr|(s & P & F1 & F2 & F3)].
          -- rewrite Eroots in Hr. apply in_app_or in Hr. destruct Hr as [Hr|Hr].
             ++ left. apply in_or_app. left. exact Hr.
             ++ apply Hchain. right. apply in_or_app. left. apply in_rev. exact Hr.
          -- right. exists s, P. split; [exact F1|].
             split; [apply Hpool; exact F2|].
             apply in_or_app. right. right. exact F3.
        * apply in_app_or in Hx. destruct Hx as [Hx|[<-|Hx]].
          -- apply Hchain. right. apply in_or_app. right. exact Hx.
          -- apply Hchain. left. reflexivity.
          -- rewrite Forall_forall in Ncl.
             destruct (Ncl x ltac:(unfold pool; apply in_or_app; right; exact Hx)) as [Hr|(s & P & F1 & F2 & F3)].
             ++ rewrite Eroots in Hr. apply in_app_or in Hr. destruct Hr as [Hr|Hr].
                ** left. apply in_or_app. left. exact Hr.
                ** apply Hchain. right. apply in_or_app. left. apply in_rev. exact Hr.
             ++ right. exists s, P. split; [exact F1|].
                split; [apply Hpool; exact F2|].
                apply in_or_app. right. right. exact F3.
      + intros Hall. apply Forall_app in Hall. destruct Hall as [Hr' Ht]. inversion Ht as [|? ? At _]; subst.
        destruct Hcase as [(-> & -> & ->)|(b1 & tl0 & -> & Ib1 & Kt & Hin & Hback)].
        * cbn [rev app] in Eroots. rewrite app_nil_r in Eroots. rewrite Eroots in N4.
          destruct (N4 Hr') as [An|C]; [left|right; exact C].
          unfold new'. cbn [app]. constructor; [exact At|exact An].
        * assert (Kb1 : kind b1).
          { rewrite Eroots in U4. apply Forall_app in U4. destruct U4 as [_ U4].
            apply Forall_rev in U4. rewrite rev_involutive in U4. inversion U4; assumption. }
          assert (Hsa : SAp cr bs n \/ SAp cr bs b1).
          { destruct Sn as [Sn|Sn]; [|left; apply Ex_SAp, Sn].
            destruct (kind_SAp b1 Kb1) as [Sb|Sb]; [|right; exact Sb].
            exfalso. apply (Sup_nosib n b1 d o Sn Sb Hidx Ib1). }
          destruct (Hback At Hsa) as [(An & Ac & An0)|C]; [|right; exact C].
          assert (Hall : Forall (auth cr bs m) (cs_roots c)).
          { rewrite Eroots. apply Forall_app. split; [exact Hr'|apply Forall_rev, Ac]. }
          destruct (N4 Hall) as [Anew|C]; [left|right; exact C].
          unfold new'. apply Forall_app. split; [exact An0|constructor; [exact An|exact Anew]].
      + exact U6.
      + cbn [it_at it_factor]. lia.
      + discriminate.
    - exists (length consumed). rewrite <- Ed, <- Eo. reflexivity.
  Qed.

  (* what happens to the extra node of the queue *)
  Lemma q_shift_extra q i n q' e :
    q_shift q i = Ok (n, q') -> q_extra q = Some e ->
    q_extra q' = Some e \/ (n = e /\ q_extra q' = None).
  Proof.
    unfold q_shift. intros H He. rewrite He in H.
    destruct (n_index e =? i).
    - injection H as <- <-. right. auto.
    - destruct (q_nodes q) as [|x r]; [discriminate H|].
      destruct (n_index x =? i); [|discriminate H]. injection H as <- <-. left. reflexivity.
  Qed.

  Lemma q_shift_extra_none q i n q' :
    q_shift q i = Ok (n, q') -> q_extra q = None -> q_extra q' = None.
  Proof.
    unfold q_shift. intros H He. rewrite He in H.
    destruct (q_nodes q) as [|x r]; [discriminate H|].
    destruct (n_index x =? i); [|discriminate H]. injection H as <- <-. reflexivity.
  Qed.

  Definition qtrack (q q' : nodeq) (new' : list node) : Prop :=
    match q_extra q with
    | Some e => q_extra q' = Some e \/ (q_extra q' = None /\ In e new')
    | None => q_extra q' = None
    end.

  Lemma qtrack_refl q new : qtrack q q new.
  Proof. unfold qtrack. destruct (q_extra q); auto. Qed.

  Lemma qtrack_step q q1 q' n new' :
    (forall e, q_extra q = Some e -> q_extra q1 = Some e \/ (n = e /\ q_extra q1 = None)) ->
    (q_extra q = None -> q_extra q1 = None) ->
    In n new' -> qtrack q1 q' new' -> qtrack q q' new'.
  Proof.
    unfold qtrack. intros H1 H2 Hn H.
    destruct (q_extra q) as [e|].
    - destruct (H1 e eq_refl) as [E|[-> E]]; rewrite E in H; [exact H|]. right. split; assumption.
    - rewrite (H2 eq_refl) in H. exact H.
  Qed.

  Definition Sq (x : node) : Prop := Sup x \/ Ex x.

  Lemma grow_loop_UI : forall fuel c new q d o ri c' q' it',
    grow_loop cr fuel c q (it_at (N.of_nat d) o) ri = Ok (c', q', it') ->
    UI c new -> Forall Sq (q_list q) ->
    exists new1, UI c' (new1 ++ new) /\ Forall Sq (q_list q') /\ qtrack q q' (new1 ++ new) /\
    exists d' o', it' = it_at (N.of_nat d') o' /\ ft_index (N.of_nat d') o' = ri.
  Proof.
    induction fuel as [|f IH]; intros c new q d o ri c' q' it' H U Hq; [discriminate H|].
    cbn [grow_loop] in H. cbn [it_at it_index] in H.
    destruct (N.eqb_spec (ft_index (N.of_nat d) o) ri) as [E|E].
    - injection H as <- <- <-. exists []. split; [exact U|]. split; [exact Hq|].
      split; [apply qtrack_refl|]. exists d, o. split; [reflexivity|exact E].
    - fold (it_at (N.of_nat d) o) in H. rewrite it_sibling_at_sib in H.
      apply bind_ok in H. destruct H as ([n q1] & Hs & H).
      apply bind_ok in H. destruct H as ([c1 it1] & Ha & H).
      pose proof Hs as Hs0. apply q_shift_inv in Hs. destruct Hs as (Hn & _ & HF). cbn [it_at it_index] in Hn.
      apply HF in Hq. destruct Hq as [Sn Hq1].
      destruct (append_root_back c new n d (sib o) c1 it1 Ha Hn Sn U) as (new0 & U1 & k & ->).
      destruct (IH c1 (new0 ++ n :: new) q1 (d + k)%nat (sib o / p2 k) ri c' q' it' H U1 Hq1)
        as (new1 & U2 & Hq2 & Ht & Hit).
      exists (new1 ++ new0 ++ [n]).
      replace ((new1 ++ new0 ++ [n]) ++ new) with (new1 ++ new0 ++ n :: new)
        by (rewrite <- !app_assoc; reflexivity).
      split; [exact U2|]. split; [exact Hq2|]. split; [|exact Hit].
      apply (qtrack_step q q1 q' n); try assumption.
      + intros e He. apply (q_shift_extra _ _ _ _ _ Hs0 He).
      + intros He. apply (q_shift_extra_none _ _ _ _ Hs0 He).
      + apply in_or_app. right. apply in_or_app. right. left. reflexivity.
  Qed.

  Variable to : N.
  Hypothesis Hto : to mod 2 = 0.

  Lemma url_UI : forall fuel c new q x i (grow : bool) c' q' it',
    Jx to x ->
    upgrade_roots_loop cr fuel c q (mkIter x (x / 2) 2) to i grow = Ok (c', q', it') ->
    UI c new -> Forall Sq (q_list q) ->
    exists new1, UI c' (new1 ++ new) /\ Forall Sq (q_list q') /\ qtrack q q' (new1 ++ new).
  Proof.
    induction fuel as [|f IH]; intros c new q x i grow c' q' it' HJ H U Hq; [discriminate H|].
    cbn [upgrade_roots_loop] in H.
    destruct (it_full_root (mkIter x (x / 2) 2) to) as [found it1] eqn:Efr.
    destruct (full_root_at to x found it1 Hto HJ Efr) as [->|(-> & d & o & -> & Ho & Ex0 & Hstop & HJ')].
    { cbn [negb] in H. injection H as <- <- <-. exists []. split; [exact U|]. split; [exact Hq|apply qtrack_refl]. }
    cbn [negb] in H.
    assert (Hnext : it_next_tree (it_at (N.of_nat d) o) =
                    mkIter (x + 2 * p2 d) ((x + 2 * p2 d) / 2) 2).
    { rewrite it_next_tree_at. replace (2 * ((o + 1) * p2 d)) with (x + 2 * p2 d) by lia. reflexivity. }
    (* the step that takes a node from the queue and appends it at the full root *)
    assert (Happ : forall i0,
      ('(n, q1) <- q_shift q (it_index (it_at (N.of_nat d) o)) ;;
       '(c1, it2) <- append_root cr c n (it_at (N.of_nat d) o) ;;
       upgrade_roots_loop cr f c1 q1 (it_next_tree it2) to i0 false) = Ok (c', q', it') ->
      exists new1, UI c' (new1 ++ new) /\ Forall Sq (q_list q') /\ qtrack q q' (new1 ++ new)).
    { intros i0 H0.
      apply bind_ok in H0. destruct H0 as ([n q1] & Hs & H0).
      apply bind_ok in H0. destruct H0 as ([c1 it2] & Ha & H0).
      pose proof Hs as Hs0. apply q_shift_inv in Hs. destruct Hs as (Hn & _ & HF). cbn [it_at it_index] in Hn.
      pose proof Hq as Hq'. apply HF in Hq'. destruct Hq' as [Sn Hq1].
      destruct (append_root_back c new n d o c1 it2 Ha Hn Sn U) as (new0 & U1 & k & ->).
      assert (Hrec : exists new1, UI c' (new1 ++ new0 ++ n :: new) /\ Forall Sq (q_list q') /\
                                  qtrack q1 q' (new1 ++ new0 ++ n :: new)).
      { destruct k as [|k].
        - rewrite Nat.add_0_r, p2_0, N.div_1_r, Hnext in H0. apply (IH _ _ _ _ _ _ _ _ _ HJ' H0 U1 Hq1).
        - rewrite it_next_tree_at in H0.
          refine (IH _ _ _ _ _ _ _ _ _ _ H0 U1 Hq1).
          split; [lia|]. left.
          pose proof (merged_end_beyond o d (S k) Ho ltac:(lia)). lia. }
      destruct Hrec as (new1 & U2 & Hq2 & Ht).
      exists (new1 ++ new0 ++ [n]).
      replace ((new1 ++ new0 ++ [n]) ++ new) with (new1 ++ new0 ++ n :: new)
        by (rewrite <- !app_assoc; reflexivity).
      split; [exact U2|]. split; [exact Hq2|].
      apply (qtrack_step q q1 q' n); try assumption.
      + intros e He. apply (q_shift_extra _ _ _ _ _ Hs0 He).
      + intros He. apply (q_shift_extra_none _ _ _ _ Hs0 He).
      + apply in_or_app. right. apply in_or_app. right. left. reflexivity. }
    destruct (nth_error (cs_roots c) i) as [r0|].
    - destruct (n_index r0 =? it_index (it_at (N.of_nat d) o)).
      + rewrite Hnext in H. apply (IH _ _ _ _ _ _ _ _ _ HJ' H U Hq).
      + destruct grow.
        * apply bind_ok in H. destruct H as (li & Hli & H).
          apply bind_ok in H. destruct H as ([[c1 q1] it2] & Hg & H).
          rewrite it_new_at in Hg.
          replace (ft_depth li) with (N.of_nat (N.to_nat (ft_depth li))) in Hg by lia.
          destruct (grow_loop_UI _ _ _ _ _ _ _ _ _ _ Hg U Hq) as (new0 & U1 & Hq1 & Ht1 & d' & o' & -> & Ei).
          cbn [it_at it_index] in Ei. apply ft_index_inj in Ei. destruct Ei as [Ed ->].
          assert (d' = d) by lia. subst d'.
          rewrite Hnext in H.
          destruct (IH _ _ _ _ _ _ _ _ _ HJ' H U1 Hq1) as (new1 & U2 & Hq2 & Ht2).
          exists (new1 ++ new0). rewrite <- app_assoc. split; [exact U2|]. split; [exact Hq2|].
          unfold qtrack in *. destruct (q_extra q) as [e|].
          -- destruct Ht1 as [E|[E Hin]]; rewrite E in Ht2; [exact Ht2|].
             right. split; [exact Ht2|]. apply in_or_app. right. exact Hin.
          -- rewrite Ht1 in Ht2. exact Ht2.
        * apply (Happ i H).
    - apply (Happ i H).
  Qed.
End UpgradeRun.

(* ====================================================================================== *)
(* U4. The signature gate: the roots of an accepted upgrade are the writer's                 *)
(* ====================================================================================== *)

Lemma signable_hash_inj h l f h' l' f' :
  length h = length h' -> signable h l f = signable h' l' f' -> h = h'.
Proof.
  intros HL H. unfold signable in H. apply app_inv_head in H.
  apply app_inj_l in H; [tauto|exact HL].
Qed.

(* two supplied nodes at sibling positions: the only sizes an accepted proof does not bind one by one *)
Definition no_sibling_pair (l : list node) : Prop :=
  forall x y, In x l -> In y l -> n_index y <> ft_sibling (n_index x).

Lemma ft_sibling_index d o : ft_sibling (ft_index d o) = ft_index d (sib o).
Proof. unfold ft_sibling, sib. rewrite ft_depth_index, ft_offset_index. reflexivity. Qed.

Section SignatureGate.
  Variable cr : crypto.
  Hypothesis Hhash32 : forall x, length (cr_hash cr x) = 32%nat.
  Variable bs : list bytes.
  Hypothesis Hw : writer_fits bs.

  Lemma spans_tiles L : forall a b, tiles L a b -> a + spans (map (rn cr bs) L) = b.
  Proof.
    induction L as [|[d o] L IH]; intros a b Tl; cbn [tiles map] in *; [unfold spans; cbn; lia|].
    destruct Tl as [Ea Tl]. cbn [fst snd] in *. rewrite spans_cons.
    rewrite (span_at (rn cr bs (d, o)) d o) by apply ref_node_index.
    specialize (IH _ _ Tl). lia.
  Qed.

  Lemma spans_ref_roots r : spans (ref_roots cr bs r) = r.
  Proof.
    rewrite ref_roots_rrl. pose proof (tiles_rrl r 0) as Tl. rewrite p2_0, N.mul_1_r in Tl.
    pose proof (spans_tiles _ _ _ Tl). lia.
  Qed.

  Lemma ref_root_facts r x :
    r <= N.of_nat (length bs) -> In x (ref_roots cr bs r) ->
    root_wf x /\ Tn cr bs x /\ in_len r (n_index x).
  Proof.
    intros Hr Hx. destruct Hw as [Hw1 Hw2].
    destruct (root_is_ref cr bs _ _ Hx) as (D & P & -> & Hroot).
    destruct (is_root_bounds r D P Hroot) as [B1 _].
    split; [|split].
    - split; [apply (R_hash32 cr Hhash32)|]. split.
      + rewrite ref_node_index. pose proof (index_fits cr bs Hw D P r B1 Hr) as F.
        apply u64_lt. unfold NODE_SIZE in F. lia.
      + apply u64_lt, (R_fits cr bs Hw1).
    - unfold Tn. rewrite ref_node_index. symmetry. apply ref_at_index.
    - rewrite ref_node_index. apply in_len_index. exact B1.
  Qed.

  Lemma signed_by_writer_dec msg : signed_by_writer cr bs msg \/ ~ signed_by_writer cr bs msg.
  Proof.
    unfold signed_by_writer. generalize (length bs) as k.
    induction k as [|k IH].
    - destruct (bytes_eq_dec msg (signable (tree_hash cr (ref_roots cr bs 0)) 0 0)) as [E|E].
      + left. exists 0. split; [lia|exact E].
      + right. intros (m0 & Hm & Em). assert (m0 = 0) by lia. subst. auto.
    - destruct IH as [(m0 & Hm & Em)|IH].
      + left. exists m0. split; [lia|exact Em].
      + set (mk := N.of_nat (S k)).
        destruct (bytes_eq_dec msg (signable (tree_hash cr (ref_roots cr bs mk)) mk 0)) as [E|E].
        * left. exists mk. split; [lia|exact E].
        * right. intros (m0 & Hm & Em). destruct (N.eq_dec m0 mk) as [->|Hne]; [auto|].
          apply IH. exists m0. split; [lia|exact Em].
  Qed.

  (* the changeset of the replica's own tree is a valid starting point, for every target length *)
  Lemma UI_init m Sup Ex c1 r :
    r <= N.of_nat (length bs) ->
    cs_roots c1 = ref_roots cr bs r -> cs_length c1 = r -> cs_byte_length c1 = prefix_size bs r ->
    UI cr bs m Sup Ex c1 c1 [].
  Proof.
    intros Hr HR HL HB. constructor.
    - rewrite HB, HR. symmetry. apply ref_roots_size.
    - rewrite HL, HR. symmetry. apply spans_ref_roots.
    - rewrite HR. apply Forall_forall. intros x Hx. apply (ref_root_facts r x Hr Hx).
    - rewrite HR. apply Forall_forall. intros x Hx. left. apply (ref_root_facts r x Hr Hx).
    - reflexivity.
    - constructor.
    - apply Forall_forall. intros x Hx. unfold pool. rewrite app_nil_r. exact Hx.
    - apply Forall_forall. intros x Hx. unfold pool in Hx. rewrite app_nil_r in Hx. left. exact Hx.
    - intros _. left. constructor.
    - repeat split.
    - lia.
    - intros _. split; reflexivity.
  Qed.

  (* an accepted signature: the message is one of the writer's, hence the roots are the writer's
     roots at the signed length -- or a collision, or a forgery *)
  Lemma signature_gate c pk sg :
    Forall root_wf (cs_roots c) -> cs_length c = spans (cs_roots c) ->
    cr_verify cr pk (signable (tree_hash cr (cs_roots c)) (cs_length c) (cs_fork c)) sg = true ->
    (exists m, m <= N.of_nat (length bs) /\ cs_roots c = ref_roots cr bs m /\ cs_length c = m) \/
    some_collision cr \/ forged_signature cr bs pk.
  Proof.
    intros Wf Hl Hv.
    destruct (signed_by_writer_dec (signable (tree_hash cr (cs_roots c)) (cs_length c) (cs_fork c)))
      as [(m & Hm & Em)|Hn].
    2:{ right. right. eexists _, sg. split; [exact Hv|exact Hn]. }
    apply signable_hash_inj in Em; [|unfold tree_hash; now rewrite !Hhash32].
    unfold tree_hash in Em. apply hash_eq_cases in Em. destruct Em as [Em|C]; [|right; left; exact C].
    apply tree_preimage_inj_eq in Em; [|exact Wf|].
    - left. exists m. split; [exact Hm|]. split; [exact Em|]. rewrite Hl, Em. apply spans_ref_roots.
    - apply Forall_forall. intros x Hx. apply (ref_root_facts m x Hm Hx).
  Qed.
End SignatureGate.

(* ====================================================================================== *)
(* U5. verify_upgrade (no additional nodes)                                                 *)
(* ====================================================================================== *)

Section VerifyUpgrade.
  Variable cr : crypto.
  Hypothesis Hhash32 : forall x, length (cr_hash cr x) = 32%nat.
  Variable bs : list bytes.
  Hypothesis Hw : writer_fits bs.

  Lemma nodes_ok_wf l x : nodes_ok l = true -> In x l -> length (n_hash x) = 32%nat /\ n_index x < 2 ^ 64.
  Proof.
    unfold nodes_ok. intros H Hx. apply andb_true_iff in H. destruct H as [_ H].
    rewrite forallb_forall in H. specialize (H x Hx). unfold node_ok in H.
    apply andb_true_iff in H. destruct H as [H _]. apply andb_true_iff in H. destruct H as [H H3].
    apply andb_true_iff in H. destruct H as [H1 _].
    split; [apply Nat.eqb_eq, H3|]. apply u64_lt. unfold fits_u64 in H1. lia.
  Qed.

  Lemma no_sibling_pair_at l x y d o :
    no_sibling_pair l -> In x l -> In y l ->
    n_index x = ft_index (N.of_nat d) o -> n_index y <> ft_index (N.of_nat d) (sib o).
  Proof. intros H Hx Hy Ix. rewrite <- ft_sibling_index, <- Ix. apply (H x y Hx Hy). Qed.

  (* what is asked of the root of a block section that the upgrade may consume *)
  Definition extra_ok (root : option node) : Prop :=
    match root with
    | Some r0 => length (n_hash r0) = 32%nat /\ n_index r0 < 2 ^ 64 /\ SAp cr bs r0
    | None => True
    end.

  Lemma verify_upgrade_sound c1 r fork u root pk consumed c4 :
    r <= N.of_nat (length bs) ->
    cs_roots c1 = ref_roots cr bs r -> cs_length c1 = r -> cs_byte_length c1 = prefix_size bs r ->
    du_additional u = [] -> nodes_ok (du_nodes u) = true -> no_sibling_pair (du_nodes u) ->
    extra_ok root ->
    verify_upgrade cr fork u root pk c1 = Ok (consumed, c4) ->
    (exists m new,
       r <= m /\ m <= N.of_nat (length bs) /\
       cs_roots c4 = ref_roots cr bs m /\ cs_length c4 = m /\ cs_byte_length c4 = prefix_size bs m /\
       cs_fork c4 = fork /\ cs_rnodes c4 = new ++ cs_rnodes c1 /\
       Forall (authentic cr bs m) new /\
       Forall (fun x => In x (ref_roots cr bs r ++ new)) (ref_roots cr bs m) /\
       Forall (fun x => In x (ref_roots cr bs m) \/
                        exists s P, family x s P /\ In s (ref_roots cr bs r ++ new) /\ In P new)
              (ref_roots cr bs r ++ new) /\
       Forall (fun P => In P (du_nodes u) \/ Some P = root \/
                        exists x s, family x s P /\ In x (ref_roots cr bs r ++ new) /\
                                    In s (ref_roots cr bs r ++ new)) new /\
       cs_ancestors c4 = cs_ancestors c1 /\ cs_orig_length c4 = cs_orig_length c1 /\
       cs_orig_fork c4 = cs_orig_fork c1 /\
       (cs_upgraded c4 = false -> m = r /\ new = []) /\
       (exists sg h, cs_signature c4 = Some sg /\ cs_hash c4 = Some h) /\
       (forall r0, root = Some r0 -> consumed = true -> In r0 new)) \/
    some_collision cr \/ forged_signature cr bs pk.
  Proof.
    intros Hr HR HL HB Hadd Hok Hns Hex H. destruct Hw as [Hw1 Hw2].
    unfold verify_upgrade in H. rewrite Hadd in H.
    apply bind_ok in H. destruct H as (sl & _ & H).
    apply bind_ok in H. destruct H as (to & Hto & H).
    apply bind_ok in H. destruct H as ([[c2 q1] itx] & Hurl & H).
    apply bind_ok in H. destruct H as (li & _ & H).
    cbn [extra_siblings extra_rest bind] in H.
    apply bind_ok in H. destruct H as (c4' & Hsig & H). injection H as Econs <-.
    assert (Eto : to mod 2 = 0).
    { unfold mul64 in Hto. destruct (fits_u64 (2 * sl)); [|discriminate Hto]. injection Hto as <-. lia. }
    set (Sup := fun x => In x (du_nodes u)).
    set (Ex := fun x => Some x = root).
    assert (Sup_wf : forall x, Sup x -> length (n_hash x) = 32%nat /\ n_index x < 2 ^ 64)
      by (intros x Hx; apply (nodes_ok_wf _ x Hok Hx)).
    assert (Sup_ns : forall x y d o, Sup x -> Sup y -> n_index x = ft_index (N.of_nat d) o ->
                                     n_index y <> ft_index (N.of_nat d) (sib o))
      by (intros x y d o Hx Hy; apply (no_sibling_pair_at _ x y d o Hns Hx Hy)).
    assert (Ex_wf : forall x, Ex x -> length (n_hash x) = 32%nat /\ n_index x < 2 ^ 64).
    { intros x Hx. unfold Ex in Hx. rewrite <- Hx in Hex. cbn in Hex. tauto. }
    assert (Ex_sa : forall x, Ex x -> SAp cr bs x).
    { intros x Hx. unfold Ex in Hx. rewrite <- Hx in Hex. cbn in Hex. tauto. }
    assert (Hq0 : Forall (Sq Sup Ex) (q_list (mkQ (du_nodes u) root))).
    { unfold q_list. cbn [q_nodes q_extra]. apply Forall_app. split.
      - apply Forall_forall. intros x Hx. left. exact Hx.
      - destruct root as [r0|]; [constructor; [right; reflexivity|constructor]|constructor]. }
    change (it_new 0) with (mkIter 0 (0 / 2) 2) in Hurl.
    assert (HJ : Jx to 0) by (split; [reflexivity|right; apply aligned_0]).
    assert (Hrun : forall m, exists new, UI cr bs m Sup Ex c1 c2 new /\
                                         qtrack (mkQ (du_nodes u) root) q1 new).
    { intros m.
      destruct (url_UI cr Hhash32 bs Hw1 m Sup Sup_wf Sup_ns Ex Ex_wf Ex_sa c1 to Eto _ _ [] _ _ _ _ _ _ _ HJ Hurl)
        as (new1 & U & _ & Ht).
      - apply (UI_init cr Hhash32 bs (conj Hw1 Hw2) m Sup Ex c1 r Hr HR HL HB).
      - exact Hq0.
      - rewrite app_nil_r in U, Ht. exists new1. split; assumption. }
    unfold cs_verify_and_set_signature in Hsig.
    apply bind_ok in Hsig. destruct Hsig as (s & Hparse & Hsig).
    match type of Hsig with (if ?v then _ else _) = _ => destruct v eqn:Hv end; [|discriminate Hsig].
    injection Hsig as <-.
    unfold cs_signable, cs_tree_hash in Hv. cbn [cs_set_fork cs_roots cs_length cs_fork] in Hv.
    destruct (Hrun 0) as (new00 & U0 & _).
    destruct (signature_gate cr Hhash32 bs (conj Hw1 Hw2) (cs_set_fork c2 fork) pk s) as [(m & Hm & Em & El)|[C|F]].
    - cbn [cs_set_fork cs_roots]. apply (ui_wf _ _ _ _ _ _ _ _ U0).
    - cbn [cs_set_fork cs_roots cs_length]. apply (ui_len _ _ _ _ _ _ _ _ U0).
    - exact Hv.
    - cbn [cs_set_fork cs_roots cs_length] in Em, El.
      destruct (Hrun m) as (new & [U1 U2 U3 U4 N1 Nmade Nin Ncl N4 (F1 & F2 & F3 & F4 & F5) U6 U7] & Ht).
      assert (Hall : Forall (auth cr bs m) (cs_roots c2)).
      { rewrite Em. apply Forall_forall. intros x Hx.
        destruct (ref_root_facts cr Hhash32 bs (conj Hw1 Hw2) m x Hm Hx) as (_ & A & B). split; assumption. }
      destruct (N4 Hall) as [Anew|C]; [left|right; left; exact C].
      exists m, new. cbn [cs_set_hash_sig cs_set_fork cs_roots cs_length cs_byte_length cs_fork cs_rnodes
                          cs_ancestors cs_orig_length cs_orig_fork cs_upgraded cs_signature cs_hash].
      unfold pool in Nin, Ncl, Nmade. rewrite HR in Nin, Ncl, Nmade. rewrite Em in Nin, Ncl.
      split; [rewrite <- El, <- HL; exact U6|]. split; [exact Hm|]. split; [exact Em|]. split; [exact El|].
      split; [rewrite U1, Em; apply ref_roots_size|]. split; [reflexivity|]. split; [exact N1|].
      split; [exact Anew|]. split; [exact Nin|]. split; [exact Ncl|]. split; [exact Nmade|].
      split; [exact F2|]. split; [exact F3|]. split; [exact F4|].
      split.
      + intros Hup. destruct (U7 Hup) as [R1 R2]. split; [|exact R2].
        rewrite <- El, U2, R1, HR. apply spans_ref_roots.
      + split; [eexists _, _; split; reflexivity|].
        intros r0 -> Hc. unfold qtrack in Ht. cbn [q_extra] in Ht.
        destruct Ht as [E|[_ Hin]]; [|exact Hin]. rewrite E in Econs. subst consumed. discriminate Hc.
    - right. left. exact C.
    - right. right. exact F.
  Qed.
End VerifyUpgrade.

(* ====================================================================================== *)
(* U6. MAIN for upgrade sections: the replica stays consistent                               *)
(* ====================================================================================== *)

Section UpgradeMain.
  Variable cr : crypto.
  Hypothesis Hhash32 : forall x, length (cr_hash cr x) = 32%nat.
  Hypothesis Hnonblank : forall x, all_zero (cr_hash cr x) = false.
  Variable bs : list bytes.
  Hypothesis Hw : writer_fits bs.

  (* the replica's tree moves to the roots of a longer prefix of the writer's log, with authentic
     new nodes: everything held before stays readable *)
  Lemma RInv_upgrade_step c d c2 d2 m l :
    RInv cr bs c d ->
    t_length (c_tree c) <= m -> m <= N.of_nat (length bs) ->
    t_roots (c_tree c2) = ref_roots cr bs m -> t_length (c_tree c2) = m ->
    t_byte_length (c_tree c2) = prefix_size bs m -> t_fork (c_tree c2) = 0 ->
    t_unflushed (c_tree c2) = add_nodes (t_unflushed (c_tree c)) l ->
    (forall x, In x l -> authentic cr bs m x) ->
    Forall (fun x => In x (ref_roots cr bs (t_length (c_tree c))) \/ In x l) (ref_roots cr bs m) ->
    (forall i, bf_get (c_bitfield c2) i = bf_get (c_bitfield c) i) ->
    d_tree d2 = d_tree d -> d_data d2 = d_data d ->
    RInv cr bs c2 d2.
  Proof.
    intros (H1 & H2 & H3 & H4 & H5 & H6 & H7 & H8) Hrm Hmn Er El Eb Ef Eu Hauth Hroots Hb Hdt Hdd.
    set (t := c_tree c) in *. set (r := t_length t) in *.
    assert (Hlook : forall jx, (required_node t (d_tree d) jx = Ok (ref_at cr bs jx) \/
                                exists x, In x l /\ n_index x = jx) ->
                               required_node (c_tree c2) (d_tree d) jx = Ok (ref_at cr bs jx)).
    { intros jx. apply (add_nodes_lookup cr Hnonblank bs t (c_tree c2) (d_tree d) m l jx Hauth Eu). }
    unfold RInv. cbv zeta. rewrite El, Ef, Er, Eb, Hdt, Hdd.
    split; [exact Hmn|]. split; [reflexivity|]. split; [reflexivity|]. split; [reflexivity|].
    split; [apply (add_nodes_sound cr bs t (c_tree c2) m l (unfl_sound_mono cr bs t r m Hrm H5) Hauth Eu)|].
    split; [apply (file_sound_mono cr bs _ r m Hrm H6)|].
    split.
    { intros x Hx. rewrite Forall_forall in Hroots.
      destruct (root_is_ref cr bs _ _ Hx) as (D & P & Ex & _).
      assert (Exr : x = ref_at cr bs (n_index x)).
      { rewrite Ex, ref_node_index. symmetry. apply ref_at_index. }
      rewrite Exr at 2. apply Hlook.
      destruct (Hroots x Hx) as [Hold|Hnew].
      - left. rewrite <- Exr. apply H7. rewrite H3. exact Hold.
      - right. exists x. split; [exact Hnew|reflexivity]. }
    intros i Hi. rewrite Hb in Hi. destruct (H8 i Hi) as (A1 & A2 & A3 & A4). fold t r in A1, A2, A3.
    split; [lia|]. split; [|split; [|exact A4]].
    - replace (2 * i) with (ft_index (N.of_nat 0) i) in * by (change (N.of_nat 0) with 0; apply ft_index_leaf).
      rewrite <- (T_at cr bs 0 i) in *. apply Hlook. left. exact A2.
    - intros dd oo C1 C2 C3. rewrite <- (T_at cr bs dd (2 * oo)). apply Hlook. left.
      rewrite (T_at cr bs dd (2 * oo)).
      destruct (N.le_gt_cases ((2 * oo + 2) * p2 dd) r) as [L|L]; [apply A3; assumption|].
      (* the parent is not inside the old tree: its left half is an old root *)
      assert (Hroot : is_root r dd (2 * oo)) by (apply left_half_is_root; lia).
      assert (Hin : In (ref_node cr bs dd (2 * oo)) (t_roots t)).
      { rewrite H3, ref_roots_rrl. apply in_map_iff. exists (dd, 2 * oo). split; [reflexivity|].
        apply -> in_rev. apply rrl0_in. exact Hroot. }
      pose proof (H7 _ Hin) as Hr. rewrite ref_node_index in Hr. exact Hr.
  Qed.

  Theorem apply_keeps_replica_consistent_upgrade f fork u c d j ev c' w' :
    RInv cr bs c d ->
    du_additional u = [] -> nodes_ok (du_nodes u) = true -> no_sibling_pair (du_nodes u) ->
    core_apply_proof cr f (mkProof fork None None None (Some u)) c (mkWorld d j ev) = (c', w', Ok true) ->
    RInv cr bs c' (w_disk w') \/ some_collision cr \/ forged_signature cr bs (kp_public (c_keypair c)).
  Proof.
    intros W Hadd Hok Hns H. pose proof W as (H1 & H2 & H3 & H4 & H5 & H6 & H7 & H8).
    destruct (accepted_gates cr _ _ _ _ _ _ H) as (cs & Ef & V & Cm & Ht). clear H.
    apply apply_tail_inv in Ht. destruct Ht as (_ & bu & c1 & w1 & c2 & w2 & w3 & Hbu & Hlc & Hmf & Hd3).
    cbn [p_block] in Hbu. unfold ret in Hbu. inversion Hbu; subst c1 w1 bu. clear Hbu.
    unfold verifier_says in V. cbn [w_disk] in V. cbn [p_fork] in Ef.
    set (t := c_tree c) in *. set (r := t_length t) in *.
    (* the verifier *)
    unfold verify_proof in V. cbn [p_block p_hash p_seek p_upgrade p_fork] in V.
    change (verify_tree cr None None None (tree_changeset t)) with (Ok (@None node, tree_changeset t)) in V.
    cbn [bind] in V.
    apply bind_ok in V. destruct V as ([root2 cx] & Hvu & V).
    apply bind_ok in Hvu. destruct Hvu as ([consumed c4] & Hvu & E). 
    assert (root2 = None /\ cx = c4) as [-> ->] by (destruct consumed; injection E as <- <-; auto).
    injection V as <-.
    destruct (verify_upgrade_sound cr Hhash32 bs Hw (tree_changeset t) r fork u None _ consumed c4
                H1 H3 eq_refl H4 Hadd Hok Hns I Hvu)
      as [(m & new & Hrm & Hmn & Er & El & Eb & Efk & En & Hauth & Hroots & _ & _ & Ea & Eol & Eof & Hup & (sg & h & Es & Eh) & _)|[C|F]];
      [|right; left; exact C|right; right; exact F].
    cbn [tree_changeset cs_rnodes cs_ancestors cs_orig_length cs_orig_fork] in En, Ea, Eol, Eof.
    rewrite app_nil_r in En.
    (* the commit *)
    apply log_and_commit_inv in Hlc.
    destruct Hlc as (t' & Htc & Et' & _ & Ebf & Edt & Edd). cbn [w_disk] in Edt, Edd.
    fold t in Htc. unfold tree_commit in Htc. rewrite Cm in Htc. cbn [negb] in Htc.
    assert (W2 : RInv cr bs c2 (w_disk w2)).
    { apply (RInv_upgrade_step c d c2 (w_disk w2) m (cs_nodes c4) W); fold t r; try assumption.
      - rewrite Et'. destruct (cs_upgraded c4) eqn:Up.
        + rewrite Ea, Eol in Htc. fold r in Htc. rewrite N.ltb_irrefl in Htc. injection Htc as <-. exact Er.
        + injection Htc as <-. cbn [t_roots]. destruct (Hup eq_refl) as [-> _]. exact H3.
      - rewrite Et'. destruct (cs_upgraded c4) eqn:Up.
        + rewrite Ea, Eol in Htc. fold r in Htc. rewrite N.ltb_irrefl in Htc. injection Htc as <-. exact El.
        + injection Htc as <-. cbn [t_length]. destruct (Hup eq_refl) as [-> _]. reflexivity.
      - rewrite Et'. destruct (cs_upgraded c4) eqn:Up.
        + rewrite Ea, Eol in Htc. fold r in Htc. rewrite N.ltb_irrefl in Htc. injection Htc as <-. exact Eb.
        + injection Htc as <-. cbn [t_byte_length]. destruct (Hup eq_refl) as [-> _]. exact H4.
      - rewrite Et'. destruct (cs_upgraded c4) eqn:Up.
        + rewrite Ea, Eol in Htc. fold r in Htc. rewrite N.ltb_irrefl in Htc. injection Htc as <-.
          cbn [t_fork]. rewrite Efk, Ef. exact H2.
        + injection Htc as <-. cbn [t_fork]. exact H2.
      - rewrite Et'. destruct (cs_upgraded c4) eqn:Up.
        + rewrite Ea, Eol in Htc. fold r in Htc. rewrite N.ltb_irrefl in Htc. injection Htc as <-. reflexivity.
        + injection Htc as <-. reflexivity.
      - intros x Hx. apply in_cs_nodes in Hx. rewrite En in Hx. rewrite Forall_forall in Hauth. apply Hauth, Hx.
      - eapply Forall_impl; [|exact Hroots]. intros x Hx. apply in_app_or in Hx.
        destruct Hx as [Hx|Hx]; [left; exact Hx|right]. apply in_cs_nodes. rewrite En. exact Hx.
      - intros i. rewrite Ebf. reflexivity. }
    left. rewrite Hd3. destruct w2 as [d2 j2 ev2].
    apply (RInv_flush cr Hhash32 Hnonblank bs Hw f c2 d2 j2 ev2 c' w3 tt W2 Hmf).
  Qed.
End UpgradeMain.

(* ====================================================================================== *)
(* U7. Block and/or upgrade sections, one at a time; the empty proof                         *)
(* ====================================================================================== *)

Section Combined.
  Variable cr : crypto.
  Hypothesis Hhash32 : forall x, length (cr_hash cr x) = 32%nat.
  Hypothesis Hnonblank : forall x, all_zero (cr_hash cr x) = false.
  Variable bs : list bytes.
  Hypothesis Hw : writer_fits bs.

  (* a proof without any section changes nothing the invariant talks about *)
  Theorem apply_keeps_replica_consistent_empty f fork c d j ev c' w' :
    RInv cr bs c d ->
    core_apply_proof cr f (mkProof fork None None None None) c (mkWorld d j ev) = (c', w', Ok true) ->
    RInv cr bs c' (w_disk w').
  Proof.
    intros W H.
    destruct (accepted_gates cr _ _ _ _ _ _ H) as (cs & Ef & V & Cm & Ht). clear H.
    apply apply_tail_inv in Ht. destruct Ht as (_ & bu & c1 & w1 & c2 & w2 & w3 & Hbu & Hlc & Hmf & Hd3).
    cbn [p_block] in Hbu. unfold ret in Hbu. inversion Hbu; subst c1 w1 bu. clear Hbu.
    unfold verifier_says, verify_proof in V. cbn [w_disk p_block p_hash p_seek p_upgrade] in V.
    change (verify_tree cr None None None (tree_changeset (c_tree c)))
      with (Ok (@None node, tree_changeset (c_tree c))) in V.
    cbn [bind] in V. injection V as <-.
    apply log_and_commit_inv in Hlc.
    destruct Hlc as (t' & Htc & Et' & _ & Ebf & Edt & Edd). cbn [w_disk] in Edt, Edd.
    unfold tree_commit in Htc. rewrite Cm in Htc. cbn [negb tree_changeset cs_upgraded] in Htc.
    injection Htc as <-.
    assert (W2 : RInv cr bs c2 (w_disk w2)).
    { apply (RInv_ext cr bs c c2 d (w_disk w2)); try assumption.
      - rewrite Et'. destruct (c_tree c); reflexivity.
      - intros i. rewrite Ebf. reflexivity. }
    rewrite Hd3. destruct w2 as [d2 j2 ev2].
    apply (RInv_flush cr Hhash32 Hnonblank bs Hw f c2 d2 j2 ev2 c' w3 tt W2 Hmf).
  Qed.

  (* proofs with a block section or an upgrade section (not both, no hash / seek section, no
     additional nodes, no two upgrade nodes at sibling positions) *)
  Definition block_xor_upgrade (pf : proof) : Prop :=
    p_hash pf = None /\ p_seek pf = None /\
    match p_block pf, p_upgrade pf with
    | Some _, Some _ => False
    | _, Some u => du_additional u = [] /\ nodes_ok (du_nodes u) = true /\ no_sibling_pair (du_nodes u)
    | _, None => True
    end.

  Theorem apply_keeps_replica_consistent_block_xor_upgrade f pf c d j ev c' w' :
    RInv cr bs c d -> block_xor_upgrade pf ->
    core_apply_proof cr f pf c (mkWorld d j ev) = (c', w', Ok true) ->
    RInv cr bs c' (w_disk w') \/ some_collision cr \/ forged_signature cr bs (kp_public (c_keypair c)).
  Proof.
    intros W (Hh & Hs & Hshape) H. destruct pf as [fork ob oh os ou]. cbn [p_hash p_seek p_block p_upgrade] in *.
    subst oh os. destruct ob as [b|], ou as [u|].
    - destruct Hshape.
    - destruct (apply_keeps_replica_consistent_block cr Hhash32 Hnonblank bs Hw f fork b c d j ev c' w' W H)
        as [R|C]; [left; exact R|right; left; exact C].
    - destruct Hshape as (A1 & A2 & A3).
      apply (apply_keeps_replica_consistent_upgrade cr Hhash32 Hnonblank bs Hw f fork u c d j ev c' w' W A1 A2 A3 H).
    - left. apply (apply_keeps_replica_consistent_empty f fork c d j ev c' w' W H).
  Qed.
End Combined.

(* ====================================================================================== *)
(* U8. Non-vacuity on the toy instance of SoundCore.v                                       *)
(* ====================================================================================== *)

Definition sc_upgrade_proof : option proof :=
  match snd (ex_run sc_W (core_create_proof None None None (Some (mkReqUpgrade 0 6)))) with
  | Some (Ok (Some pf)) => Some pf
  | _ => None
  end.

(* the fresh replica satisfies RInv (RInv_fresh), the writer's upgrade proof 0..6 carries the two
   roots 3 and 9 (not siblings), it is accepted, and the theorem applies *)
Example sc_upgrade_theorem_applies :
  match sc_R0, sc_upgrade_proof with
  | Some (c, w), Some pf =>
      exists u c' w',
        pf = mkProof 0 None None None (Some u) /\ map n_index (du_nodes u) = [3; 9] /\
        du_additional u = [] /\ nodes_ok (du_nodes u) = true /\ no_sibling_pair (du_nodes u) /\
        RInv sc_cr sc_blocks c (w_disk w) /\
        core_apply_proof sc_cr (Some false) pf c w = (c', w', Ok true) /\
        (RInv sc_cr sc_blocks c' (w_disk w') \/ some_collision sc_cr \/
         forged_signature sc_cr sc_blocks (kp_public (c_keypair c)))
  | _, _ => False
  end.
Proof.
  assert (Hsmall : len (enc_header (header_new (mkKeypair sc_key None))) < 1073741824)
    by (vm_compute; reflexivity).
  destruct (RInv_fresh sc_cr sc_hash32 sc_nonblank sc_blocks _ Hsmall) as (d0 & ops & c & Hopen & HR & _).
  unfold sc_R0, sc_open. rewrite Hopen.
  destruct sc_upgrade_proof as [pf|] eqn:Ep; [|vm_compute in Ep; discriminate Ep].
  destruct (core_apply_proof sc_cr (Some false) pf c (mkWorld d0 [] [])) as [[c' w'] r] eqn:Ea.
  assert (Hshape : exists u, pf = mkProof 0 None None None (Some u) /\ map n_index (du_nodes u) = [3; 9] /\
                             du_additional u = [] /\ nodes_ok (du_nodes u) = true /\
                             no_sibling_pair (du_nodes u) /\ r = Ok true).
  { vm_compute in Hopen. injection Hopen as <- _ <-.
    vm_compute in Ep. injection Ep as <-. vm_compute in Ea. injection Ea as _ _ <-.
    eexists. split; [reflexivity|]. split; [reflexivity|]. split; [reflexivity|]. split; [reflexivity|].
    split; [|reflexivity].
    intros x y [<-|[<-|[]]] [<-|[<-|[]]]; vm_compute; intros E; discriminate E. }
  destruct Hshape as (u & -> & H1 & H2 & H3 & H4 & ->).
  exists u, c', w'. do 7 (split; [first [reflexivity|assumption]|]).
  apply (apply_keeps_replica_consistent_upgrade sc_cr sc_hash32 sc_nonblank sc_blocks sc_writer_fits
           (Some false) 0 u c d0 [] [] c' w' HR H2 H3 H4 Ea).
Qed.

Print Assumptions merge_back.
Print Assumptions append_root_back.
Print Assumptions url_UI.
Print Assumptions signature_gate.
Print Assumptions verify_upgrade_sound.
Print Assumptions RInv_upgrade_step.
Print Assumptions apply_keeps_replica_consistent_upgrade.
Print Assumptions apply_keeps_replica_consistent_empty.
Print Assumptions apply_keeps_replica_consistent_block_xor_upgrade.
Print Assumptions sc_upgrade_theorem_applies.

(* Codec.v — compact-encoding primitives and the hypercore wire messages.
   Mirrors: crate compact-encoding 2.2.0 (uint / buffer / fixed / vec) and src/encoding.rs,
   src/common/peer.rs, src/common/node.rs. *)
From HC Require Export Base.

(* ---------- compact-encoding primitives ---------- *)

Definition size_uint (v : N) : N :=
  if v <? 253 then 1 else if v <=? 65535 then 3 else if v <=? 4294967295 then 5 else 9.

Definition enc_uint (v : N) : bytes :=
  if v <? 253 then [v]
  else if v <=? 65535 then 253 :: le_bytes 2 v
  else if v <=? 4294967295 then 254 :: le_bytes 4 v
  else 255 :: le_bytes 8 v.

Definition dec_fixed (n : nat) (b : bytes) : res (bytes * bytes) :=
  match take n b with Some p => Ok p | None => Err EncodingErr end.

Definition dec_le (n : nat) (b : bytes) : res (N * bytes) :=
  '(h, r) <- dec_fixed n b ;; Ok (le_val h, r).

Definition dec_uint (b : bytes) : res (N * bytes) :=
  match b with
  | [] => Err EncodingErr
  | x :: r =>
      if x <? 253 then Ok (x, r)
      else if x =? 253 then dec_le 2 r
      else if x =? 254 then dec_le 4 r
      else dec_le 8 r
  end.

Definition size_buffer (v : bytes) : N := size_uint (len v) + len v.
Definition enc_buffer (v : bytes) : bytes := enc_uint (len v) ++ v.

(* get_slices_checked: the length prefix is data dependent and may be hostile; compare in N
   before converting to nat *)
Definition dec_buffer (b : bytes) : res (bytes * bytes) :=
  '(n, r) <- dec_uint b ;;
  if n <=? len r then dec_fixed (N.to_nat n) r else Err EncodingErr.

(* decode [cnt] items; [fuel] bounds the recursion (every item consumes at least one byte, the
   callers pass [S (length b)]) *)
Fixpoint dec_many {A} (dec : bytes -> res (A * bytes)) (fuel : nat) (cnt : N) (b : bytes)
  : res (list A * bytes) :=
  if cnt =? 0 then Ok ([], b)
  else match fuel with
       | O => Err EncodingErr
       | S f =>
           '(x, r) <- dec b ;;
           '(xs, r') <- dec_many dec f (cnt - 1) r ;;
           Ok (x :: xs, r')
       end.

Definition dec_vec {A} (dec : bytes -> res (A * bytes)) (b : bytes) : res (list A * bytes) :=
  '(n, r) <- dec_uint b ;; dec_many dec (S (length r)) n r.

Fixpoint enc_all {A} (enc : A -> res bytes) (l : list A) : res bytes :=
  match l with
  | [] => Ok []
  | x :: r => a <- enc x ;; b <- enc_all enc r ;; Ok (a ++ b)
  end.

(* ---------- Node ---------- *)

Record node := mkNode { n_index : N; n_length : N; n_hash : bytes }.

Definition node_blank (n : node) : bool := all_zero (n_hash n).

Definition node_eqb (a b : node) : bool :=
  (n_index a =? n_index b) && (n_length a =? n_length b) && bytes_eqb (n_hash a) (n_hash b).

Definition size_node (n : node) : N := size_uint (n_index n) + size_uint (n_length n) + 32.

(* as_array::<32>(&self.hash)? fails for a hash of another length *)
Definition enc_node (n : node) : res bytes :=
  if Nat.eqb (length (n_hash n)) 32
  then Ok (enc_uint (n_index n) ++ enc_uint (n_length n) ++ n_hash n)
  else Err EncodingErr.

Definition dec_node (b : bytes) : res (node * bytes) :=
  '(i, r) <- dec_uint b ;;
  '(l, r) <- dec_uint r ;;
  '(h, r) <- dec_fixed 32 r ;;
  Ok (mkNode i l h, r).

Definition size_nodes (l : list node) : N := size_uint (N.of_nat (length l)) + sumN (map size_node l).

Definition enc_nodes (l : list node) : res bytes :=
  b <- enc_all enc_node l ;; Ok (enc_uint (N.of_nat (length l)) ++ b).

Definition dec_nodes (b : bytes) : res (list node * bytes) := dec_vec dec_node b.

(* ---------- requests ---------- *)

Record req_block := mkReqBlock { rb_index : N; rb_nodes : N }.
Record req_seek := mkReqSeek { rs_bytes : N }.
Record req_upgrade := mkReqUpgrade { ru_start : N; ru_length : N }.

Definition size_req_block (x : req_block) : N := size_uint (rb_index x) + size_uint (rb_nodes x).
Definition enc_req_block (x : req_block) : res bytes :=
  Ok (enc_uint (rb_index x) ++ enc_uint (rb_nodes x)).
Definition dec_req_block (b : bytes) : res (req_block * bytes) :=
  '(i, r) <- dec_uint b ;; '(n, r) <- dec_uint r ;; Ok (mkReqBlock i n, r).

Definition size_req_seek (x : req_seek) : N := size_uint (rs_bytes x).
Definition enc_req_seek (x : req_seek) : res bytes := Ok (enc_uint (rs_bytes x)).
Definition dec_req_seek (b : bytes) : res (req_seek * bytes) :=
  '(i, r) <- dec_uint b ;; Ok (mkReqSeek i, r).

Definition size_req_upgrade (x : req_upgrade) : N := size_uint (ru_start x) + size_uint (ru_length x).
Definition enc_req_upgrade (x : req_upgrade) : res bytes :=
  Ok (enc_uint (ru_start x) ++ enc_uint (ru_length x)).
Definition dec_req_upgrade (b : bytes) : res (req_upgrade * bytes) :=
  '(i, r) <- dec_uint b ;; '(n, r) <- dec_uint r ;; Ok (mkReqUpgrade i n, r).

(* ---------- data messages ---------- *)

Record data_block := mkDataBlock { db_index : N; db_value : bytes; db_nodes : list node }.
Record data_hash := mkDataHash { dh_index : N; dh_nodes : list node }.
Record data_seek := mkDataSeek { ds_bytes : N; ds_nodes : list node }.
Record data_upgrade := mkDataUpgrade {
  du_start : N; du_length : N; du_nodes : list node; du_additional : list node;
  du_signature : bytes }.

Definition size_data_block (x : data_block) : N :=
  size_uint (db_index x) + size_buffer (db_value x) + size_nodes (db_nodes x).
Definition enc_data_block (x : data_block) : res bytes :=
  ns <- enc_nodes (db_nodes x) ;;
  Ok (enc_uint (db_index x) ++ enc_buffer (db_value x) ++ ns).
Definition dec_data_block (b : bytes) : res (data_block * bytes) :=
  '(i, r) <- dec_uint b ;; '(v, r) <- dec_buffer r ;; '(ns, r) <- dec_nodes r ;;
  Ok (mkDataBlock i v ns, r).

Definition size_data_hash (x : data_hash) : N := size_uint (dh_index x) + size_nodes (dh_nodes x).
Definition enc_data_hash (x : data_hash) : res bytes :=
  ns <- enc_nodes (dh_nodes x) ;; Ok (enc_uint (dh_index x) ++ ns).
Definition dec_data_hash (b : bytes) : res (data_hash * bytes) :=
  '(i, r) <- dec_uint b ;; '(ns, r) <- dec_nodes r ;; Ok (mkDataHash i ns, r).

Definition size_data_seek (x : data_seek) : N := size_uint (ds_bytes x) + size_nodes (ds_nodes x).
Definition enc_data_seek (x : data_seek) : res bytes :=
  ns <- enc_nodes (ds_nodes x) ;; Ok (enc_uint (ds_bytes x) ++ ns).
Definition dec_data_seek (b : bytes) : res (data_seek * bytes) :=
  '(i, r) <- dec_uint b ;; '(ns, r) <- dec_nodes r ;; Ok (mkDataSeek i ns, r).

Definition size_data_upgrade (x : data_upgrade) : N :=
  size_uint (du_start x) + size_uint (du_length x) + size_nodes (du_nodes x)
  + size_nodes (du_additional x) + size_buffer (du_signature x).
Definition enc_data_upgrade (x : data_upgrade) : res bytes :=
  ns <- enc_nodes (du_nodes x) ;;
  an <- enc_nodes (du_additional x) ;;
  Ok (enc_uint (du_start x) ++ enc_uint (du_length x) ++ ns ++ an ++ enc_buffer (du_signature x)).
Definition dec_data_upgrade (b : bytes) : res (data_upgrade * bytes) :=
  '(s, r) <- dec_uint b ;; '(l, r) <- dec_uint r ;; '(ns, r) <- dec_nodes r ;;
  '(an, r) <- dec_nodes r ;; '(sg, r) <- dec_buffer r ;;
  Ok (mkDataUpgrade s l ns an sg, r).

Record proof := mkProof {
  p_fork : N;
  p_block : option data_block;
  p_hash : option data_hash;
  p_seek : option data_seek;
  p_upgrade : option data_upgrade }.

(* ---------- well-formedness of values (what the Rust types guarantee) ---------- *)

Definition node_ok (n : node) : bool :=
  fits_u64 (n_index n) && fits_u64 (n_length n) && Nat.eqb (length (n_hash n)) 32
  && bytes_ok (n_hash n).
Definition nodes_ok (l : list node) : bool :=
  fits_u64 (N.of_nat (length l)) && forallb node_ok l.
Definition buffer_ok (v : bytes) : bool := fits_u64 (len v) && bytes_ok v.

Definition req_block_ok (x : req_block) : bool := fits_u64 (rb_index x) && fits_u64 (rb_nodes x).
Definition req_seek_ok (x : req_seek) : bool := fits_u64 (rs_bytes x).
Definition req_upgrade_ok (x : req_upgrade) : bool := fits_u64 (ru_start x) && fits_u64 (ru_length x).
Definition data_block_ok (x : data_block) : bool :=
  fits_u64 (db_index x) && buffer_ok (db_value x) && nodes_ok (db_nodes x).
Definition data_hash_ok (x : data_hash) : bool := fits_u64 (dh_index x) && nodes_ok (dh_nodes x).
Definition data_seek_ok (x : data_seek) : bool := fits_u64 (ds_bytes x) && nodes_ok (ds_nodes x).
Definition data_upgrade_ok (x : data_upgrade) : bool :=
  fits_u64 (du_start x) && fits_u64 (du_length x) && nodes_ok (du_nodes x)
  && nodes_ok (du_additional x) && buffer_ok (du_signature x).

(* ---------- the law every wire codec has to satisfy (statement of C11) ---------- *)

Definition codec_law {A} (ok : A -> bool) (size : A -> N) (enc : A -> res bytes)
  (dec : bytes -> res (A * bytes)) : Prop :=
  forall x, ok x = true ->
    exists b, enc x = Ok b                                  (* encoding succeeds *)
      /\ len b = size x                                      (* writes exactly the announced size *)
      /\ bytes_ok b = true                                   (* ... of genuine bytes *)
      /\ (forall r, dec (b ++ r) = Ok (x, r))                (* round trip, nothing left over *)
      /\ (forall p s, b = p ++ s -> s <> [] -> exists e, dec p = Err e). (* strict prefix: error *)

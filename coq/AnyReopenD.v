(* AnyReopenD.v -- library for AnyReopen1.v, part D: REOPEN at the hash level.
   core_open on the disk of a replica satisfying HDInvR succeeds without touching the disk and gives HDInvR
   for the same held set and the same length.  MerkleTree::open reads the roots of the header's length from
   the tree store: their records are there and not blank, so they carry the writer's hashes -- with whatever
   sizes were stored last; the byte length is their sum.  The replay of the pending entries adds their nodes
   to the unflushed map; for an upgrade entry tree_truncate keeps the roots whose index is unchanged and looks
   the others up (they are there because the accepted proof brought them): hashes the writer's, sizes free. *)
From HC Require Import Base NMap Codec CodecFacts Crypto FlatTree Storage Bitfield Oplog Merkle Core.
From HC Require Import FlatTreeFacts StorageFacts BitfieldFacts OplogFacts TreeRef OffsetFacts CoreFacts Crash Refine.
From HC Require Import ClearRefine Reopen ContigBridge Unified1 Unified2 CrashCore1 CrashCore2 CrashClear1.
From HC Require Import Sound NoPanic Replicate SoundCoreLib SoundCore SoundCoreUp SoundCoreBU NoPanic2.
From HC Require Import ReplicaDisk1 ReplicaDisk2 ReplicaDisk3 AnyProofLib AnyProofUp AnyProof
                       AnyReopenA AnyReopenB AnyReopenC.
From Coq Require Import FMapPositive ZifyN ZifyNat ZifyBool.
Ltac Zify.zify_post_hook ::= Z.div_mod_to_equations.
Arguments N.add : simpl never.
Arguments N.sub : simpl never.
Arguments N.mul : simpl never.
Arguments N.div : simpl never.
Arguments N.modulo : simpl never.
Arguments N.pow : simpl never.
Arguments N.eqb : simpl never.
Arguments N.ltb : simpl never.
Arguments N.leb : simpl never.
Arguments N.max : simpl never.
Arguments N.min : simpl never.
Arguments N.of_nat : simpl never.
Arguments N.to_nat : simpl never.

(* ====================================================================================== *)
(* A. Reading the roots back                                                               *)
(* ====================================================================================== *)

(* the node is the record of the tree store at its index *)
Definition is_record (tf : file) (n : node) : Prop :=
  exists data, f_read tf (NODE_SIZE * n_index n) NODE_SIZE = Some data /\ n = node_from_bytes (n_index n) data.

Lemma read_roots_h tf (pre : list (nat * N)) : forall a b acc bl,
  (forall x, In x pre -> exists data, f_read tf (NODE_SIZE * idx x) NODE_SIZE = Some data) ->
  tiles pre a b ->
  exists ns, read_roots tf (map idx pre) acc bl (2 * a) = Ok (rev acc ++ ns, bl + lens ns, 2 * b) /\
             map n_index ns = map idx pre /\ Forall (is_record tf) ns.
Proof.
  induction pre as [|[d o] pre IH]; intros a b acc bl Hl T; cbn [tiles map read_roots] in *.
  - subst. exists []. unfold lens. cbn [map sumN]. rewrite app_nil_r, N.add_0_r. repeat split. constructor.
  - cbn [fst snd] in T. destruct T as [E T].
    destruct (Hl (d, o) (or_introl eq_refl)) as (data & Rd).
    change (idx (d, o)) with (ft_index (N.of_nat d) o) in *.
    rewrite Rd. cbv zeta.
    set (n := node_from_bytes (ft_index (N.of_nat d) o) data).
    pose proof (ft_index_succ (N.of_nat d) o) as S. fold (p2 d) in S. pose proof (p2_pos d) as Hp.
    assert (Hft : ft_index (N.of_nat d) o = 2 * a + p2 d - 1) by (subst a; nia).
    unfold sub64. destruct (N.leb_spec (2 * a) (ft_index (N.of_nat d) o)) as [L|L]; [|lia].
    cbn [bind].
    replace (2 * a + 2 * (ft_index (N.of_nat d) o - 2 * a + 1)) with (2 * ((o + 1) * p2 d))
      by (rewrite Hft; subst a; lia).
    destruct (IH _ b (n :: acc) (bl + n_length n) (fun x Hx => Hl x (or_intror Hx)) T) as (ns & R & EI & HF).
    exists (n :: ns). rewrite R. cbn [rev map]. rewrite <- app_assoc. cbn [app].
    split; [unfold lens; cbn [map sumN]; rewrite N.add_assoc; reflexivity|].
    split; [rewrite EI; reflexivity|]. constructor; [|exact HF].
    exists data. split; [exact Rd|reflexivity].
Qed.

Lemma firstn_In' {A} (l : list A) i x : In x (firstn i l) -> In x l.
Proof. intros H. rewrite <- (firstn_skipn i l). apply in_or_app. left. exact H. Qed.

Lemma set_tree_contig h ht' cg :
  set_tree (set_contig h cg) ht' = set_contig (set_tree h ht') cg.
Proof. reflexivity. Qed.

Section OpenH.
  Variable cr : crypto.
  Hypothesis Hcrc : crc_ok cr.
  Hypothesis Hhash32 : forall x, length (cr_hash cr x) = 32%nat.
  Hypothesis Hnonblank : forall x, all_zero (cr_hash cr x) = false.
  Hypothesis Hhashbytes : forall x, bytes_ok (cr_hash cr x) = true.
  Variable bs : list bytes.
  Hypothesis Hw : writer_fits bs.

  (* a record of the store at a root position of kf carries the writer's hash and a u64 size *)
  Lemma record_root tf kf R n :
    store_rootsH tf kf -> hfile_sound cr bs tf R -> hfile_fit tf ->
    In (n_index n) (ft_full_roots (2 * kf)) -> is_record tf n ->
    hagree cr bs n /\ n_length n <= u64_max.
  Proof.
    intros Hst [_ Hfs] Hfit Hi (data & Rd & En).
    destruct (Hst _ Hi) as (data' & Rd' & B). rewrite Rd in Rd'. injection Rd' as <-.
    rewrite En. split; [apply (Hfs _ data Rd B)|apply (Hfit _ data Rd B)].
  Qed.

  Lemma tree_open_h tf ht kf R :
    store_rootsH tf kf -> hfile_sound cr bs tf R -> hfile_fit tf ->
    ht_length ht = kf -> (ht_signature ht = [] \/ length (ht_signature ht) = 64%nat) ->
    exists rs, tree_open ht tf = Ok (mkTree rs kf (lens rs) (ht_fork ht) (sig_of ht) nm_empty) /\
               hroots cr bs rs kf.
  Proof.
    intros Hst Hfs Hfit Hk Hs. unfold tree_open. rewrite Hk, ft_full_roots_rrl.
    pose proof (tiles_rrl kf 0) as T. rewrite p2_0, N.mul_1_r in T.
    assert (Hl' : forall x, In x (rev (rrl 0 kf)) ->
                   exists data, f_read tf (NODE_SIZE * idx x) NODE_SIZE = Some data).
    { intros x Hx. assert (Hi : In (idx x) (ft_full_roots (2 * kf))) by (rewrite ft_full_roots_rrl; apply in_map, Hx).
      destruct (Hst _ Hi) as (data & Rd & _). exists data. exact Rd. }
    destruct (read_roots_h tf _ 0 kf [] 0 Hl' T) as (rs & Rr & EI & HF).
    replace (2 * 0) with 0 in Rr by lia. rewrite Rr. cbn [bind rev app].
    rewrite N.add_0_l. replace (2 * kf / 2) with kf by lia.
    exists rs. split.
    - unfold sig_of. destruct (ht_signature ht) as [|s0 s] eqn:Es.
      + cbn [bind]. reflexivity.
      + destruct Hs as [Hs|Hs]; [discriminate Hs|]. unfold parse_signature. rewrite Hs. cbn [Nat.eqb bind].
        reflexivity.
    - split; [rewrite EI; symmetry; apply ft_full_roots_rrl|].
      apply Forall_forall. intros n Hn. rewrite Forall_forall in HF.
      apply (record_root tf kf R n Hst Hfs Hfit); [|apply HF, Hn].
      rewrite ft_full_roots_rrl, <- EI. apply in_map, Hn.
  Qed.

  (* tree_truncate at the hash level: the roots whose index is unchanged are kept, the others looked up *)
  Lemma truncate_roots_h (P : node -> Prop) t tf : forall full roots i,
    (i <= length roots)%nat -> Forall P roots ->
    (forall j, In j full -> exists x, required_node t tf j = Ok x) ->
    (forall j x, required_node t tf j = Ok x -> n_index x = j /\ P x) ->
    exists res, truncate_roots t tf full roots i = Ok res /\
                map n_index res = map n_index (firstn i roots) ++ full /\ Forall P res.
  Proof.
    induction full as [|r rest IH]; intros roots i Hi HP Hl Hs; cbn [truncate_roots].
    - exists (firstn i roots). split; [reflexivity|]. split; [rewrite app_nil_r; reflexivity|].
      apply Forall_forall. intros x Hx. rewrite Forall_forall in HP. apply HP. apply (firstn_In' roots i x Hx).
    - assert (Hrep : exists res,
                (n' <- required_node t tf r ;; truncate_roots t tf rest (firstn i roots ++ [n']) (S i)) = Ok res /\
                map n_index res = map n_index (firstn i roots) ++ r :: rest /\ Forall P res).
      { destruct (Hl r (or_introl eq_refl)) as (n' & Hn'). rewrite Hn'. cbn [bind].
        destruct (Hs r n' Hn') as [En' Pn'].
        assert (Hlen : length (firstn i roots) = i) by (apply firstn_length_le, Hi).
        destruct (IH (firstn i roots ++ [n']) (S i)) as (res & R & EI & HF).
        - rewrite app_length, Hlen. cbn [length]. lia.
        - apply Forall_app. split; [|constructor; [exact Pn'|constructor]].
          apply Forall_forall. intros x Hx. rewrite Forall_forall in HP. apply HP. apply (firstn_In' roots i x Hx).
        - intros j Hj. apply Hl. right. exact Hj.
        - exact Hs.
        - exists res. split; [exact R|]. split; [|exact HF].
          rewrite EI. replace (S i) with (length (firstn i roots ++ [n'])) by (rewrite app_length, Hlen; cbn [length]; lia).
          rewrite firstn_all, map_app. cbn [map]. rewrite En', <- app_assoc. reflexivity. }
      destruct (nth_error roots i) as [n|] eqn:En; [|exact Hrep].
      destruct (N.eqb_spec (n_index n) r) as [E|E]; [|exact Hrep].
      destruct (IH roots (S i)) as (res & R & EI & HF).
      + assert (Hlt : (i < length roots)%nat) by (apply nth_error_Some; rewrite En; discriminate). lia.
      + exact HP.
      + intros j Hj. apply Hl. right. exact Hj.
      + exact Hs.
      + exists res. split; [exact R|]. split; [|exact HF].
        rewrite EI, (firstn_S_nth_error roots i n En), map_app. cbn [map]. rewrite E, <- app_assoc. reflexivity.
  Qed.

  (* ---------- the tree a replay is building ---------- *)

  Definition rtreeH (pk : bytes) (t : mtree) (a : N) (U : list node) : Prop :=
    t_length t = a /\ t_fork t = 0 /\ hroots cr bs (t_roots t) a /\ t_byte_length t = lens (t_roots t) /\
    t_unflushed t = add_nodes nm_empty U /\ tsigH cr bs pk t.

  (* a header that describes length a, whatever its contiguous hint *)
  Definition hdrN (pk : bytes) (h : header) (a : N) : Prop := hdrH cr bs pk (set_contig h 0) a.

  Lemma hdrH_hdrN pk h a : hdrH cr bs pk h a -> hdrN pk h a.
  Proof.
    intros Hh. pose proof Hh as (_ & _ & F1 & F2 & L1 & Hs). destruct (hdrH_buffers cr bs pk h a Hh) as [B1 B2].
    unfold hdrN. rewrite <- (set_tree_id h).
    apply (hdrH_set cr bs pk h a (hd_tree h) 0 a Hh F1 F2); try assumption.
    - destruct Hh as (Hok & _). unfold header_ok in Hok. split_ok Hok. unfold fits_u64 in Hok3. rewrite F2 in Hok3. lia.
    - unfold u64_max. lia.
  Qed.

  Lemma hdrN_hdrH pk h a : hdrN pk h a -> hd_contig h <= u64_max -> a <= u64_max -> hdrH cr bs pk h a.
  Proof.
    intros Hh Hc Ha. pose proof Hh as (_ & _ & F1 & F2 & L1 & Hs). destruct (hdrH_buffers cr bs pk _ a Hh) as [B1 B2].
    rewrite <- (set_contig_id h), <- (set_tree_id h).
    apply (hdrH_set cr bs pk (set_contig h 0) a (hd_tree h) (hd_contig h) a Hh F1 F2 Ha Hc B1 B2 L1 Hs).
  Qed.

  Lemma unfl_of_list t R U :
    t_unflushed t = add_nodes nm_empty U -> Forall (fun x => hauth cr bs R x /\ node_fit x) U ->
    hunfl_sound cr bs t R.
  Proof.
    intros E HF. apply (add_nodes_hsound cr bs (mkTree [] 0 0 0 None nm_empty) t R U).
    - intros j nd G. cbn [t_unflushed] in G. rewrite nm_get_empty in G. discriminate G.
    - intros x Hx. rewrite Forall_forall in HF. destruct (HF x Hx) as [A [_ B]]. auto.
    - exact E.
  Qed.

  (* one entry *)
  Lemma replay_hdesc pk tf R U a e m t b h :
    hfile_sound cr bs tf R -> hfile_fit tf -> m <= R -> R <= N.of_nat (length bs) ->
    Forall (fun x => hauth cr bs R x /\ node_fit x) U ->
    rtreeH pk t a U -> hdrN pk h a -> hdesc cr bs pk tf U a e m ->
    exists t' b' h',
      replay_entry cr tf (t, b, h) e = Ok (t', b', h') /\ rtreeH pk t' m (U ++ e_nodes e) /\ hdrN pk h' m.
  Proof.
    intros Hfs Hfit HmR HR HU (T1 & T2 & T3 & T4 & T5 & T6) Hh (Ham & Hm & Hn & Hup & Hbu).
    pose proof (len_bs_u64 bs Hw) as L64.
    unfold replay_entry. rewrite fold_add_node. rewrite T5, <- add_nodes_app.
    set (t1 := mkTree (t_roots t) (t_length t) (t_byte_length t) (t_fork t) (t_signature t)
                      (add_nodes nm_empty (U ++ e_nodes e))).
    set (bh := match e_bitfield e with
               | Some u => (bf_apply b u, set_contig h (update_contig (hd_contig h) (bf_apply b u) u))
               | None => (b, h)
               end).
    assert (Ebh : exists cg, bh = (fst bh, set_contig h cg)).
    { unfold bh. destruct (e_bitfield e) as [u|].
      - eexists. reflexivity.
      - exists (hd_contig h). cbn [fst]. rewrite set_contig_id. reflexivity. }
    destruct Ebh as (cg & Ebh). rewrite Ebh.
    assert (Hh1 : hdrN pk (set_contig h cg) a) by exact Hh.
    assert (HU1 : Forall (fun x => hauth cr bs R x /\ node_fit x) (U ++ e_nodes e)).
    { apply Forall_app. split; [exact HU|]. eapply Forall_impl; [|exact Hn].
      intros x [A B]. split; [apply (hauth_mono cr bs m R x HmR A)|exact B]. }
    destruct (e_upgrade e) as [u|].
    - destruct Hup as (A1 & A2 & A3 & A4 & A5 & A6 & A7). rewrite A2, A1.
      pose proof (unfl_of_list t1 R _ eq_refl HU1) as Hu1.
      assert (Hsound : forall j x, required_node t1 tf j = Ok x ->
                         n_index x = j /\ (hagree cr bs x /\ n_length x <= u64_max)).
      { intros j x Hx. destruct (required_node_hsound cr bs t1 tf R j x Hu1 Hfs Hx) as [Ei [Ag _]].
        split; [exact Ei|]. split; [exact Ag|].
        unfold required_node in Hx. apply bind_ok in Hx. destruct Hx as ([y|] & Hg & Hx); [|discriminate Hx].
        injection Hx as <-. unfold node_get in Hg.
        destruct (nm_get j (t_unflushed t1)) as [n0|] eqn:G.
        - destruct (node_blank n0); [discriminate Hg|]. injection Hg as <-. apply (Hu1 j n0 G).
        - apply bind_ok in Hg. destruct Hg as (off & Hmul & Hg).
          unfold mul64 in Hmul. destruct (fits_u64 (NODE_SIZE * j)); [|discriminate Hmul]. injection Hmul as <-.
          destruct (f_read tf (NODE_SIZE * j) NODE_SIZE) as [data|] eqn:Rd; [|discriminate Hg]. cbv zeta in Hg.
          destruct (node_blank (node_from_bytes j data)) eqn:B; [discriminate Hg|]. injection Hg as <-.
          apply (Hfit j data Rd B). }
      assert (Hlook : forall j, In j (ft_full_roots (2 * m)) -> exists x, required_node t1 tf j = Ok x).
      { intros j Hj. destruct (A7 j Hj) as (x & Hx). exists x. rewrite <- Hx.
        apply required_node_same_unflushed. reflexivity. }
      destruct T3 as [TI TF].
      destruct (truncate_roots_h (fun x => hagree cr bs x /\ n_length x <= u64_max) t1 tf
                  (ft_full_roots (2 * m)) (t_roots t1) 0 (Nat.le_0_l _) TF Hlook Hsound) as (res & Rt & EI & HF).
      cbn [firstn map app] in EI.
      unfold tree_truncate. rewrite Rt. cbn [bind]. unfold parse_signature. rewrite A4. cbn [Nat.eqb bind].
      cbn [cs_length cs_byte_length cs_batch_length cs_fork cs_roots cs_rnodes cs_orig_length cs_orig_fork].
      unfold tree_commit, commitable.
      cbn [cs_orig_fork cs_upgraded cs_orig_length cs_ancestors cs_roots cs_length cs_byte_length cs_fork
           cs_signature cs_nodes cs_rnodes rev_append t1 t_fork t_length t_unflushed].
      rewrite T2, T1, !N.eqb_refl. cbn [andb negb].
      assert ((tu_ancestors u <? a) = false) as -> by lia.
      cbn [bind]. do 3 eexists. split; [reflexivity|]. split.
      + unfold rtreeH. cbn [t_length t_fork t_roots t_byte_length t_unflushed t_signature].
        split; [reflexivity|]. split; [reflexivity|]. split; [split; assumption|]. split; [reflexivity|].
        split; [reflexivity|]. right. cbn [t_signature t_length]. exists (tu_signature u). repeat split; assumption.
      + rewrite set_tree_contig. pose proof Hh as (_ & _ & F1 & _).
        cbn [set_contig hd_tree] in F1. cbn [set_contig hd_tree]. rewrite F1.
        unfold hdrN.
        assert (Bq1 : buffer_ok (tree_hash cr res) = true).
        { apply buffer_ok_intro; [unfold tree_hash, len; rewrite Hhash32; unfold u64_max; lia|apply Hhashbytes]. }
        assert (Bq2 : buffer_ok (tu_signature u) = true).
        { apply buffer_ok_intro; [unfold len; rewrite A4; unfold u64_max; lia|exact A5]. }
        assert (Lq : len (tree_hash cr res) <= 32) by (unfold tree_hash, len; rewrite Hhash32; lia).
        apply (hdrH_set cr bs pk (set_contig h 0) a (mkHeaderTree 0 m (tree_hash cr res) (tu_signature u)) 0 m Hh
                 eq_refl eq_refl ltac:(lia) ltac:(unfold u64_max; lia) Bq1 Bq2 Lq (or_intror (conj A4 A6))).
    - subst m. do 3 eexists. split; [reflexivity|]. split; [|exact Hh1].
      unfold rtreeH, t1. cbn [t_length t_fork t_roots t_byte_length t_unflushed].
      split; [exact T1|]. split; [exact T2|]. split; [exact T3|]. split; [exact T4|]. split; [reflexivity|].
      unfold tsigH in *. cbn [t_length t_signature]. exact T6.
  Qed.

  Lemma replay_hchain pk tf R (l : list entry) : forall U a n t b h,
    hfile_sound cr bs tf R -> hfile_fit tf -> n <= R -> R <= N.of_nat (length bs) ->
    Forall (fun x => hauth cr bs R x /\ node_fit x) U ->
    rtreeH pk t a U -> hdrN pk h a -> hchain cr bs pk tf U a l n ->
    exists t' b' h',
      replay_entries cr tf (t, b, h) l = Ok (t', b', h') /\ rtreeH pk t' n (U ++ flat_map e_nodes l) /\ hdrN pk h' n.
  Proof.
    induction l as [|e l IH]; intros U a n t b h Hfs Hfit HnR HR HU HT Hh C; cbn [hchain replay_entries flat_map] in *.
    - subst. exists t, b, h. rewrite app_nil_r. split; [reflexivity|]. split; assumption.
    - destruct C as (m & He & C). pose proof (hchain_le cr bs _ _ _ _ _ _ C) as Lmn.
      destruct (replay_hdesc pk tf R U a e m t b h Hfs Hfit ltac:(lia) HR HU HT Hh He) as (t1 & b1 & h1 & E1 & HT1 & Hh1).
      rewrite E1. cbn [bind].
      assert (HU1 : Forall (fun x => hauth cr bs R x /\ node_fit x) (U ++ e_nodes e)).
      { apply Forall_app. split; [exact HU|]. destruct He as (_ & _ & Hn & _). eapply Forall_impl; [|exact Hn].
        intros x [A B]. split; [apply (hauth_mono cr bs m R x ltac:(lia) A)|exact B]. }
      destruct (IH (U ++ e_nodes e) m n t1 b1 h1 Hfs Hfit HnR HR HU1 HT1 Hh1 C) as (t' & b' & h' & E & HT' & Hh').
      exists t', b', h'. rewrite <- app_assoc in HT'. split; [exact E|]. split; assumption.
  Qed.

  (* the roots of the final length can be looked up in the tree a replay builds *)
  Lemma store_roots_avail tf kf t :
    t_unflushed t = nm_empty -> kf <= N.of_nat (length bs) -> store_rootsH tf kf -> roots_avail t tf kf.
  Proof.
    intros E Hk Hst i Hi. destruct (Hst i Hi) as (data & Rd & B).
    exists (node_from_bytes i data). unfold required_node, node_get. rewrite E, nm_get_empty.
    pose proof (full_root_in_len cr Hhash32 bs Hw kf i Hk Hi) as Hin. apply in_len_lt in Hin.
    unfold mul64. rewrite fits_u64_intro by (destruct Hw as [_ Hw2]; unfold NODE_SIZE in *; lia).
    cbn [bind]. rewrite Rd. cbv zeta. rewrite B. reflexivity.
  Qed.

  Lemma hchain_avail pk tf l : forall U a b,
    roots_avail (tU U) tf a -> hchain cr bs pk tf U a l b -> roots_avail (tU (U ++ flat_map e_nodes l)) tf b.
  Proof.
    induction l as [|e l IH]; intros U a b Ha C; cbn [hchain flat_map] in *.
    - subst. rewrite app_nil_r. exact Ha.
    - destruct C as (m & (_ & _ & Hn & Hup & _) & C). rewrite app_assoc. apply (IH _ m b); [|exact C].
      destruct (e_upgrade e) as [u|].
      + destruct Hup as (_ & _ & _ & _ & _ & _ & A7). exact A7.
      + subst m. intros i Hi. destruct (Ha i Hi) as (x & Hx).
        apply (lookup_add_nodes (tU U) (tU (U ++ e_nodes e)) tf (e_nodes e) i x Hx).
        * intros y Hy. rewrite Forall_forall in Hn. destruct (Hn y Hy) as [[A _] _].
          apply (hagree_nonblank cr Hnonblank bs y A).
        * cbn [tU t_unflushed]. apply add_nodes_app.
  Qed.

  (* ---------- core_open ---------- *)

  Lemma open_tail_H pk d H r s0 s1 body st0 st1 bits hf l kf ops :
    f_content (d_oplog d) = s0 ++ s1 ++ body ->
    good cr s0 s1 body st0 st1 bits hf l ->
    hdrH cr bs pk hf kf -> hchain cr bs pk (d_tree d) [] kf l r -> r <= N.of_nat (length bs) ->
    store_rootsH (d_tree d) kf -> hfile_sound cr bs (d_tree d) r -> hfile_fit (d_tree d) ->
    (forall i, H i = true -> i < r) ->
    BfH (d_bitfield d) (updates_of l) (hd_contig hf) H ->
    exists c', open_tail cr d (mkOpenOutcome (mkOplog bits (N.of_nat (length l)) (entries_size l)) hf ops l) = Ok c' /\
      HDInvR cr bs c' d H /\ t_length (c_tree c') = r /\ c_keypair c' = mkKeypair pk None /\ c_skip c' = 0 /\
      c_oplog c' = mkOplog bits (N.of_nat (length l)) (entries_size l).
  Proof.
    intros Hcont G Hhf Hch Hr Hst Hfs Hfit Hbd Hbf.
    pose proof Hhf as (Hok & Hkp & Hfk & Hln & L1 & Hcase).
    pose proof (len_bs_u64 bs Hw) as L64.
    pose proof (hchain_le cr bs _ _ _ _ _ _ Hch) as Lkf.
    unfold open_tail. cbn [oo_header oo_entries oo_oplog].
    assert (Hsg : ht_signature (hd_tree hf) = [] \/ length (ht_signature (hd_tree hf)) = 64%nat).
    { destruct Hcase as [(_ & E)|[E _]]; [left|right]; exact E. }
    destruct (tree_open_h (d_tree d) (hd_tree hf) kf r Hst Hfs Hfit Hln Hsg) as (rs & Eo & HRs).
    rewrite Eo. cbn [bind]. rewrite Hfk.
    set (t0 := mkTree rs kf (lens rs) 0 (sig_of (hd_tree hf)) nm_empty).
    assert (HT0 : rtreeH pk t0 kf []).
    { unfold rtreeH, t0. cbn [t_length t_fork t_roots t_byte_length t_unflushed].
      repeat (split; [first [reflexivity|assumption]|]).
      unfold tsigH. cbn [t_length t_signature]. destruct Hcase as [(E0 & _)|[E Ew]]; [left; exact E0|right].
      exists (ht_signature (hd_tree hf)). split; [|split; [exact E|exact Ew]].
      unfold sig_of. destruct (ht_signature (hd_tree hf)); [discriminate E|reflexivity]. }
    destruct (replay_hchain pk (d_tree d) r l [] kf r t0 (bf_open (d_bitfield d)) hf Hfs Hfit (N.le_refl r) Hr
                (Forall_nil _) HT0 (hdrH_hdrN pk hf kf Hhf) Hch) as (t' & b' & h' & Hrepl & HT' & Hh').
    rewrite Hrepl. cbn [bind app] in *.
    destruct (replay_bitfield_H cr (d_tree d) l _ (d_bitfield d) hf _ b' _ H Hrepl
                (hchain_no_drops cr bs pk (d_tree d) l [] kf r Hch) Hbf) as (Hbf' & Hex' & Eb').
    destruct HT' as (T1 & T2 & T3 & T4 & T5 & T6).
    assert (Hcg : hd_contig h' <= r) by (apply (fexact_le H); assumption).
    pose proof (hdrN_hdrH pk h' r Hh' ltac:(lia) ltac:(lia)) as HhH.
    pose proof HhH as (_ & Hkp' & _).
    pose proof (hchain_nodes cr bs pk (d_tree d) l [] kf r Hch) as Hnodes. cbn [app] in Hnodes.
    eexists. split; [reflexivity|].
    split; [|split; [exact T1|split; [exact Hkp'|split; [reflexivity|reflexivity]]]].
    unfold HDInvR. cbv zeta. cbn [c_tree c_bitfield c_header c_keypair c_oplog].
    rewrite T1, Hkp'. cbn [kp_public].
    split.
    { unfold HInvR, HTreeR. cbv zeta. cbn [c_tree]. rewrite T1.
      split; [exact Hr|]. split; [exact T2|]. split; [exact T3|]. split; [exact T4|].
      split; [apply (unfl_of_list t' r _ T5 Hnodes)|exact Hfs]. }
    split; [exact Hfit|].
    split.
    { intros i Hi.
      pose proof (hchain_avail pk (d_tree d) l [] kf r
                    (store_roots_avail (d_tree d) kf (tU []) eq_refl ltac:(lia) Hst) Hch i Hi) as (x & Hx).
      exists x. rewrite <- Hx. apply required_node_same_unflushed. cbn [tU t_unflushed app]. exact T5. }
    split; [exact T6|]. split; [exact Hbd|]. split; [exact Hbf'|]. split; [exact Hex'|].
    split; [reflexivity|]. split; [exact HhH|].
    cbn [ol_bits ol_entries_len ol_entries_bytes].
    exists s0, s1, body, st0, st1, hf, l, kf.
    split; [exact Hcont|]. split; [exact G|]. split; [reflexivity|]. split; [reflexivity|].
    split; [exact Hhf|]. split; [exact Hch|]. split; [exact T5|].
    split; [exact Hst|]. split; [exact Hbf|].
    rewrite Eb'. apply BfSync_fold, BfSync_open. apply Hbf.
  Qed.

  (* (b): close and reopen.  The open succeeds, issues no storage operation, and re-establishes the invariant
     for the same held set; length, key pair, oplog state and held set are those before the reopen *)
  Theorem reopen_HDInvR c d H :
    HDInvR cr bs c d H ->
    exists c', core_open cr None true d = (d, [], Ok c') /\
      HDInvR cr bs c' d H /\
      t_length (c_tree c') = t_length (c_tree c) /\ c_keypair c' = c_keypair c /\
      c_oplog c' = c_oplog c /\ (forall i, core_has c' i = core_has c i) /\
      hd_contig (c_header c') = hd_contig (c_header c) /\ c_skip c' = 0.
  Proof.
    intros X.
    pose proof X as (W & Hfit & Hav & Hsg & Hbd & Hb & Hex & Hk & Hh & s0 & s1 & body & st0 & st1 & hf & l & kf &
                     Hcont & G & Hlen & Hbytes & Hhf & Hch & Hu & Hst & Hbf & Hsync).
    pose proof W as (W1 & W2 & W3 & W4 & W5 & W6).
    set (pk := kp_public (c_keypair c)) in *. set (r := t_length (c_tree c)) in *.
    assert (Hopen : oplog_open cr None (f_content (d_oplog d)) =
                    Ok (mkOpenOutcome (mkOplog (ol_bits (c_oplog c)) (N.of_nat (length l)) (entries_size l)) hf [] l)).
    { rewrite Hcont. apply (good_open cr Hcrc _ _ _ _ _ _ _ _ G). }
    rewrite (core_open_eq cr d _ d Hopen eq_refl). cbn [oo_ops].
    destruct (open_tail_H pk d H r s0 s1 body st0 st1 (ol_bits (c_oplog c)) hf l kf [] Hcont G Hhf Hch W1 Hst W6 Hfit
                Hbd Hbf) as (c' & E & X' & El & K & Sk & Eo).
    exists c'. split; [rewrite E; reflexivity|]. split; [exact X'|]. split; [exact El|].
    split; [rewrite K; symmetry; exact Hk|].
    split.
    { rewrite Eo. destruct (c_oplog c) as [b0 el eb]. cbn [ol_bits ol_entries_len ol_entries_bytes] in *.
      rewrite Hlen, Hbytes. reflexivity. }
    destruct X' as (_ & _ & _ & _ & _ & Hb' & Hex' & _).
    split; [intros i; unfold core_has; rewrite Hb', Hb; reflexivity|].
    split; [apply (fexact_unique H); assumption|exact Sk].
  Qed.
End OpenH.

Print Assumptions tree_open_h.
Print Assumptions truncate_roots_h.
Print Assumptions replay_hchain.
Print Assumptions open_tail_H.
Print Assumptions reopen_HDInvR.

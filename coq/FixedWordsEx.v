(* FixedWordsEx.v — concrete instances: non-vacuity of the hypotheses of FixedWords*.v, and the
   refuted statements about DynamicBitfield::last_index_of(false) / index_of(false). *)
From HC Require Import Base NMap Storage Bitfield BitfieldFacts FixedWords FixedWordsFacts FixedWordsBytes
  FixedWordsDyn FixedWordsDyn2 FixedWordsIndex.
From Coq Require Import List NArith Lia Bool.

(* a 4096-byte bitfield file of 0xff: page 0 completely set *)
Definition ex_full_content : bytes := repeat 255 (N.to_nat 4096).
Definition ex_full : dyn := dw_open 4096 ex_full_content.

Lemma ex_full_inv : dyn_inv ex_full.
Proof.
  destruct (dw_open_bits 4096 ex_full_content) as (H & _); [vm_compute; reflexivity | vm_compute; reflexivity | exact H].
Qed.

(* pages 0 and 1 empty, page 2 completely set *)
Definition ex_high_content : bytes := repeat 0 (N.to_nat 8192) ++ repeat 255 (N.to_nat 4096).
Definition ex_high : dyn := dw_open 12288 ex_high_content.

Lemma ex_high_inv : dyn_inv ex_high.
Proof.
  destruct (dw_open_bits 12288 ex_high_content) as (H & _); [vm_compute; reflexivity | vm_compute; reflexivity | exact H].
Qed.

Lemma get_false_of_dw_get d i : dyn_inv d -> dw_get d i = Ok false -> bf_get (dw_abs d) i = false.
Proof. intros Hinv H. rewrite dw_get_abs in H by exact Hinv. congruence. Qed.

(** REFUTED (debug build): last_index_of(false, pos) panics (`i -= 1` on i = 0) on a state satisfying the
    invariant, when every index 0..pos of page 0 is held. The honest answer is None. *)
Theorem dw_last_index_of_false_no_panic_refuted :
  exists d pos s, dyn_inv d /\ (forall k, k <= pos -> bf_get (dw_abs d) k = true) /\
                  dw_last_index_of d false pos = Panic s.
Proof.
  exists ex_full, 5. eexists. split; [apply ex_full_inv|]. split.
  - intros k Hk.
    assert (Hc : k = 0 \/ k = 1 \/ k = 2 \/ k = 3 \/ k = 4 \/ k = 5) by lia.
    destruct Hc as [->|[->|[->|[->|[->| ->]]]]]; vm_compute; reflexivity.
  - vm_compute. reflexivity.
Qed.

(** REFUTED: last_index_of(false, pos) = None although an index below pos is not held: only pages
    last_page and (when last_page = 1) 0 are ever looked at. *)
Theorem dw_last_index_of_false_complete_refuted :
  exists d pos j, dyn_inv d /\ j <= pos /\ bf_get (dw_abs d) j = false /\
                  dw_last_index_of d false pos = Ok None.
Proof.
  exists ex_high, 65541, 0. split; [apply ex_high_inv|]. split; [lia|]. split.
  - apply get_false_of_dw_get; [apply ex_high_inv | vm_compute; reflexivity].
  - vm_compute. reflexivity.
Qed.

(** index_of(false, pos) = None although a later index is not held (the page after biggest_page_index) *)
Theorem dw_index_of_false_complete_refuted :
  exists d pos j, dyn_inv d /\ pos <= j /\ bf_get (dw_abs d) j = false /\
                  dw_index_of d false pos = Ok None.
Proof.
  exists ex_full, 32760, 32768. split; [apply ex_full_inv|]. split; [lia|]. split.
  - apply get_false_of_dw_get; [apply ex_full_inv | vm_compute; reflexivity].
  - vm_compute. reflexivity.
Qed.

(* non-vacuity of the refinement theorems: a run over two pages from the empty bitfield *)
Example dw_refinement_ex :
  dyn_inv dw_empty /\ 32765 mod 32768 + 15 <= u64_max /\
  exists d', dw_set_range dw_empty 32765 15 true = Ok d' /\
             dw_get d' 32770 = Ok true /\ dw_get d' 32780 = Ok false /\ dw_unflushed d' = [0; 1] /\
             (forall id, In id (dw_unflushed d') -> id * 4096 <= u64_max) /\
             exists d'' ws, dw_flush d' = Ok (d'', ws) /\ map fst ws = [0; 4096] /\
                            dw_index_of d'' true 5 = Ok (Some 32765) /\
                            dw_last_index_of d'' true 100000 = Ok (Some 32779) /\
                            dw_index_of d'' false 32765 = Ok (Some 32780).
Proof.
  split; [apply dyn_inv_empty|]. split; [vm_compute; discriminate|].
  destruct (dw_set_range dw_empty 32765 15 true) as [d'| | |] eqn:E; try (vm_compute in E; discriminate).
  exists d'. split; [reflexivity|].
  assert (Hd : d' = match dw_set_range dw_empty 32765 15 true with Ok x => x | _ => dw_empty end) by (rewrite E; reflexivity).
  split; [rewrite Hd; vm_compute; reflexivity|]. split; [rewrite Hd; vm_compute; reflexivity|].
  split; [rewrite Hd; vm_compute; reflexivity|]. split.
  - assert (Hu : dw_unflushed d' = [0; 1]) by (rewrite Hd; vm_compute; reflexivity).
    rewrite Hu. intros id [<-|[<-|[]]]; vm_compute; discriminate.
  - destruct (dw_flush d') as [[d'' ws]| | |] eqn:E2; try (rewrite Hd in E2; vm_compute in E2; discriminate).
    exists d'', ws. split; [reflexivity|].
    assert (Hd2 : (d'', ws) = match dw_flush d' with Ok x => x | _ => (dw_empty, []) end) by (rewrite E2; reflexivity).
    assert (Hd'' : d'' = fst (match dw_flush d' with Ok x => x | _ => (dw_empty, []) end)) by (rewrite <- Hd2; reflexivity).
    assert (Hws : ws = snd (match dw_flush d' with Ok x => x | _ => (dw_empty, []) end)) by (rewrite <- Hd2; reflexivity).
    split; [rewrite Hws, Hd; vm_compute; reflexivity|].
    split; [rewrite Hd'', Hd; vm_compute; reflexivity|].
    split; [rewrite Hd'', Hd; vm_compute; reflexivity|].
    rewrite Hd'', Hd; vm_compute; reflexivity.
Qed.

(* non-vacuity of dw_open_refines: a file whose length is not a multiple of 4 *)
Example dw_open_refines_ex :
  let f := mkFile 7 (nm_set 0 1 (nm_set 4 255 (nm_set 6 9 nm_empty))) in
  bytes_ok (f_content f) = true /\ dw_open_request (f_len f) = 4 /\
  dw_get (dw_open (f_len f) (f_content f)) 0 = Ok true /\
  dw_get (dw_open (f_len f) (f_content f)) 32 = Ok false.
Proof. vm_compute. repeat split. Qed.

Print Assumptions dw_last_index_of_false_no_panic_refuted.
Print Assumptions dw_last_index_of_false_complete_refuted.
Print Assumptions dw_index_of_false_complete_refuted.
Print Assumptions dw_refinement_ex.

(* ClearBeyondTightEx.v — non-vacuity for ClearBeyondTight.v on the toy crypto instance:
   1. an FInv state that is NOT Tight (the bytes of a cleared last block are back in the data store) on which the
      succeeding out-of-range clear does issue its data delete: the delete branch of ClearBeyond.clear_beyond_succeeds
      is real, and Tight is exactly what excludes it;
   2. concrete reachable states meeting the premises of the Tight theorems. *)
From HC Require Import Base NMap Codec CodecFacts Crypto FlatTree Storage Bitfield Oplog Merkle Core.
From HC Require Import FlatTreeFacts StorageFacts BitfieldFacts OplogFacts TreeRef OffsetFacts CoreFacts Crash Refine.
From HC Require Import ClearRefine Reopen ContigBridge Unified1 Unified2 Unified3 ClearBeyond ClearBeyondTight.
From Coq Require Import FMapPositive ZifyN ZifyNat ZifyBool.
Ltac Zify.zify_post_hook ::= Z.div_mod_to_equations.
Arguments N.add : simpl never.
Arguments N.sub : simpl never.
Arguments N.mul : simpl never.
Arguments N.div : simpl never.
Arguments N.modulo : simpl never.
Arguments N.pow : simpl never.
Arguments N.eqb : simpl never.
Arguments N.ltb : simpl never.
Arguments N.leb : simpl never.
Arguments N.max : simpl never.
Arguments N.min : simpl never.
Arguments N.of_nat : simpl never.
Arguments N.to_nat : simpl never.

Definition toy2 : list bytes := [[1; 2; 3]; [4]].

(* the writer appends [1;2;3] and [4] and clears block 1 (the delete reaches the end of the data store and
   truncates it to 3 bytes: the state is FInv and Tight).  Then a byte is written behind the end of the data
   store, where block 1 was: the state is still FInv (no held block is touched, the store is not longer than all
   blocks), it is no longer Tight, and clear(2, 3) now deletes that byte *)
Example toy_beyond_delete_branch :
  exists d0 ops0 c0 c1 w1 c2 d2 j2 ev2 c3 w3 o' fr,
    let cl := cl_clear (cl_mask (fun _ => false) 0) 1 2 in
    let d2' := d_set d2 Data (f_write (d_data d2) 3 [9]) in
    core_open toy_cr (Some toy_keypair) false disk_empty = (d0, ops0, Ok c0) /\
    core_append toy_cr (Some false) toy2 c0 (mkWorld d0 [] []) = (c1, w1, Ok (2, 4)) /\
    core_clear toy_cr (Some false) 1 2 c1 w1 = (c2, mkWorld d2 j2 ev2, Ok tt) /\
    FInv toy_cr c2 d2 toy2 cl /\ Tight d2 toy2 cl /\
    FInv toy_cr c2 d2' toy2 cl /\ ~ Tight d2' toy2 cl /\
    core_clear toy_cr (Some false) 2 3 c2 (mkWorld d2' j2 ev2) = (c3, w3, Ok tt) /\
    w_journal w3 = SD Data 3 1 :: SW Oplog (ENTRIES_OFFSET + ol_entries_bytes (c_oplog c2)) fr :: j2 /\
    oplog_append toy_cr (c_oplog c2) (mkEntry [] None (Some (mkBfUpdate true 2 1))) =
      Ok (o', [SW Oplog (ENTRIES_OFFSET + ol_entries_bytes (c_oplog c2)) fr]) /\
    FInv toy_cr c3 (w_disk w3) toy2 cl /\ Tight (w_disk w3) toy2 cl.
Proof.
  destruct (FInvT_init toy_cr toy_crc_ok' toy_hash32 toy_nonblank toy_hashbytes toy_keypair eq_refl)
    as (d0 & ops0 & c0 & Ho & D0 & K).
  pose proof Ho as Ho'. vm_compute in Ho'. injection Ho' as Ed0 Eops0 Ec0.
  destruct (core_append toy_cr (Some false) toy2 c0 (mkWorld d0 [] [])) as [[c1 w1] r1] eqn:E1.
  assert (Hr1 : r1 = Ok (2, 4)).
  { rewrite <- Ed0, <- Ec0 in E1. vm_compute in E1. injection E1 as _ _ <-. reflexivity. }
  subst r1.
  assert (Hsk : kp_secret (c_keypair c0) = Some (repeat 2 32%nat)) by (rewrite K; reflexivity).
  destruct (append_FInvT toy_cr toy_crc_ok' toy_hash32 toy_nonblank toy_hashbytes toy_sig64 toy_sigbytes
              (Some false) toy2 c0 d0 [] [] [] (fun _ => false) _ c1 w1 _
              D0 Hsk ltac:(vm_compute; discriminate) ltac:(vm_compute; discriminate) E1)
    as [Hp|(_ & D1 & K1)]; [discriminate Hp|].
  cbn [app length] in D1. change (N.of_nat 0) with 0 in D1.
  destruct w1 as [d1 j1 ev1]. cbn [w_disk] in *.
  set (cl1 := cl_mask (fun _ => false) 0) in *.
  destruct (core_clear toy_cr (Some false) 1 2 c1 (mkWorld d1 j1 ev1)) as [[c2 w2] r2] eqn:E2.
  destruct (clear_any_FInvT toy_cr toy_crc_ok' toy_hash32 toy_nonblank toy_hashbytes (Some false) c1 d1 j1 ev1 toy2 cl1
              1 2 c2 w2 r2 D1 ltac:(right; unfold u64_max; lia) E2) as (R2 & [D2 T2] & _).
  change (clear_result toy2 cl1 1 2) with (@Ok unit tt) in R2. subst r2.
  change (cl_after cl1 (N.of_nat (length toy2)) 1 2) with (cl_clear cl1 1 2) in D2, T2.
  destruct w2 as [d2 j2 ev2]. cbn [w_disk] in *.
  set (cl := cl_clear cl1 1 2) in *.
  set (d2' := d_set d2 Data (f_write (d_data d2) 3 [9])).
  assert (Edata : d_data d2' = f_write (d_data d2) 3 [9]) by (destruct d2; reflexivity).
  (* the modified disk still satisfies the invariant *)
  assert (W2' : CInv toy_cr c2 d2' toy2 cl).
  { pose proof (FInv_CInv _ _ _ _ _ D2) as (T & Hbf & Hcg & Hd & Hl).
    unfold CInv. cbv zeta.
    assert (d_tree d2' = d_tree d2) as -> by (destruct d2; reflexivity). rewrite Edata.
    split; [exact T|]. split; [exact Hbf|]. split; [exact Hcg|]. split.
    - intros i Hi Hpos.
      assert (i = 0) as ->.
      { unfold held, cl, cl_clear, cl1, cl_mask in Hi. cbn [toy2 length] in Hi.
        destruct (N.eq_dec i 0) as [Z|NZ]; [exact Z|exfalso].
        destruct (N.eq_dec i 1) as [O|NO]; [subst i; discriminate Hi|].
        assert ((i <? N.of_nat 2) = false) as X by lia. rewrite X in Hi. discriminate Hi. }
      pose proof (Hd 0 Hi Hpos) as R. pose proof R as R'. apply f_read_spec in R' as (R1' & _).
      rewrite f_read_write_other; [exact R|exact R1'|left; vm_compute; discriminate].
    - rewrite f_write_len. change (sumN (map len toy2)) with 4 in *. change (len [9]) with 1. lia. }
  assert (D2' : FInv toy_cr c2 d2' toy2 cl).
  { apply (FInv_data toy_cr c2 d2 d2' toy2 cl D2 W2'); destruct d2; reflexivity. }
  assert (NT : ~ Tight d2' toy2 cl).
  { intros Ht. specialize (Ht 1 ltac:(cbn [toy2 length]; lia)). rewrite Edata, f_write_len in Ht.
    change (prefix_size toy2 1) with 3 in Ht. change (len [9]) with 1 in Ht.
    assert (X : N.max (f_len (d_data d2)) (3 + 1) <= 3); [|lia].
    apply Ht. intros i A B. cbn [toy2 length] in B. assert (i = 1) as -> by lia. reflexivity. }
  (* the out-of-range clear on the modified disk *)
  destruct (core_clear toy_cr (Some false) 2 3 c2 (mkWorld d2' j2 ev2)) as [[c3 w3] r3] eqn:E3.
  destruct (clear_beyond_succeeds toy_cr toy_crc_ok' toy_hash32 toy_nonblank toy_hashbytes (Some false) c2 d2' j2 ev2
              toy2 cl 2 3 c3 w3 r3 D2' ltac:(cbn [toy2 length]; lia) ltac:(lia) ltac:(unfold u64_max; lia)
              ltac:(cbn [toy2 length]; lia) eq_refl E3)
    as (-> & o' & fr & s' & OA & _).
  destruct (clear_beyond_FInv toy_cr toy_crc_ok' toy_hash32 toy_nonblank toy_hashbytes (Some false) c2 d2' j2 ev2
              toy2 cl 2 3 c3 w3 _ D2' ltac:(cbn [toy2 length]; lia) ltac:(lia) ltac:(unfold u64_max; lia) E3)
    as (_ & D3 & _).
  assert (J3 : w_journal w3 = SD Data 3 1 :: SW Oplog (ENTRIES_OFFSET + ol_entries_bytes (c_oplog c2)) fr :: j2 /\
               f_len (d_data (w_disk w3)) = 3).
  { clear - Ed0 Ec0 E1 E2 E3 OA.
    rewrite <- Ed0, <- Ec0 in E1. vm_compute in E1. injection E1 as <- <- <- <-.
    vm_compute in E2. injection E2 as <- <- <- <-.
    vm_compute in OA. injection OA as _ <-.
    vm_compute in E3. injection E3 as _ <-. split; reflexivity. }
  destruct J3 as [J3 L3].
  assert (T3 : Tight (w_disk w3) toy2 cl).
  { intros s Hs Hun. rewrite L3. cbn [toy2 length] in Hs, Hun.
    destruct (N.eq_dec s 0) as [Z|NZ].
    - subst s. specialize (Hun 0 ltac:(lia) ltac:(lia)). discriminate Hun.
    - apply (N.le_trans _ (prefix_size toy2 1)); [vm_compute; discriminate|apply prefix_size_mono; lia]. }
  exists d0, ops0, c0, c1, (mkWorld d1 j1 ev1), c2, d2, j2, ev2, c3, w3, o', fr. cbv zeta.
  split; [exact Ho|]. split; [exact E1|]. split; [exact E2|]. split; [exact D2|]. split; [exact T2|].
  split; [exact D2'|]. split; [exact NT|]. split; [exact E3|]. split; [exact J3|]. split; [exact OA|].
  split; [exact D3|exact T3].
Qed.

(* a reachable state with a cleared last block (and a pending failed out-of-range clear before it): the history
   reaches it, and the out-of-range clear answers Ok, writes its entry and nothing else *)
Definition toy_reach_ops : list uop :=
  [UAppend (Some false) toy2; UClear (Some false) 5 6; UClear (Some false) 1 2; UReopen; UClear (Some false) 2 9].

Example toy_reachable_no_data_op :
  wf_a toy_reach_ops /\
  match core_open toy_cr (Some toy_keypair) false disk_empty with
  | (d0, _, Ok c0) =>
      match afinal toy_cr toy_reach_ops c0 (mkWorld d0 [] []) with
      | Some (c, w) =>
          N.of_nat (length (uappended toy_reach_ops)) <= 2 /\
          match core_clear toy_cr (Some false) 2 3 c w with
          | (c', w', r) =>
              r = Ok tt /\ d_data (w_disk w') = d_data (w_disk w) /\ w_events w' = w_events w /\
              exists fr, w_journal w' = SW Oplog (ENTRIES_OFFSET + ol_entries_bytes (c_oplog c)) fr :: w_journal w
          end
      | None => False
      end
  | _ => False
  end.
Proof.
  split; [cbn [wf_a toy_reach_ops]; unfold u64_max; lia|].
  vm_compute. split; [discriminate|]. split; [reflexivity|]. split; [reflexivity|]. split; [reflexivity|].
  eexists. reflexivity.
Qed.

(* the instance of the reachability theorem for the toy crypto *)
Example toy_instance_reachable sk ops c w f start end_ c' w' r d0 ops0 c0 :
  kp_secret toy_keypair = Some sk -> wf_a ops ->
  sumN (map len (uappended ops)) <= u64_max ->
  NODE_SIZE * (2 * N.of_nat (length (uappended ops))) <= u64_max ->
  core_open toy_cr (Some toy_keypair) false disk_empty = (d0, ops0, Ok c0) ->
  afinal toy_cr ops c0 (mkWorld d0 [] []) = Some (c, w) ->
  N.of_nat (length (uappended ops)) <= start -> start < end_ -> end_ <= u64_max ->
  core_clear toy_cr f start end_ c w = (c', w', r) ->
  d_data (w_disk w') = d_data (w_disk w) /\ w_events w' = w_events w.
Proof.
  intros Hsk Hwf Hfit Hidx Ho Hfin Hns Hse Hend H.
  destruct (reachable_clear_beyond_no_data_op toy_cr toy_crc_ok' toy_hash32 toy_nonblank toy_hashbytes
              toy_sig64 toy_sigbytes toy_keypair sk ops c w f start end_ c' w' r eq_refl Hsk Hwf Hfit Hidx
              d0 ops0 c0 Ho Hfin Hns Hse Hend H) as (_ & _ & _ & X). exact X.
Qed.

Print Assumptions toy_beyond_delete_branch.
Print Assumptions toy_reachable_no_data_op.
Print Assumptions toy_instance_reachable.

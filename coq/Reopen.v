(* Reopen.v — C01, second half: closing and reopening a writer changes no observation.
   A disk-level invariant DInv (memory, the four files, list of blocks) strengthens Refine.WInv, holds
   after creation, is preserved by core_append for every flush decision, and is re-established (with
   the same block list) by core_open in open mode. *)
From HC Require Import Base NMap Codec CodecFacts Crypto FlatTree Storage Bitfield Oplog Merkle Core.
From HC Require Import FlatTreeFacts StorageFacts BitfieldFacts OplogFacts TreeRef OffsetFacts CoreFacts Crash Refine.
From Coq Require Import FMapPositive ZifyN ZifyNat ZifyBool.
Ltac Zify.zify_post_hook ::= Z.div_mod_to_equations.
Arguments N.add : simpl never.
Arguments N.sub : simpl never.
Arguments N.mul : simpl never.
Arguments N.div : simpl never.
Arguments N.modulo : simpl never.
Arguments N.pow : simpl never.
Arguments N.eqb : simpl never.
Arguments N.ltb : simpl never.
Arguments N.leb : simpl never.
Arguments N.of_nat : simpl never.
Arguments N.to_nat : simpl never.

(* ====================================================================================== *)
(* A. The nodes of an append: which reference nodes, and how many                          *)
(* ====================================================================================== *)

Lemma rrl_length_p2 (m : N) : forall d, p2 (length (rrl d m)) <= m + 1.
Proof.
  induction m as [|n IH|n IH] using N_bin_ind; intros d.
  - cbn [rrl length]. rewrite p2_0. lia.
  - rewrite rrl_even. specialize (IH (S d)). lia.
  - rewrite rrl_odd. cbn [length]. rewrite p2_S. specialize (IH (S d)). lia.
Qed.

Lemma rrl_length_64 (d : nat) (m : N) : m + 1 <= 2 ^ 64 -> (length (rrl d m) <= 64)%nat.
Proof.
  intros H. apply p2_le_64. pose proof (rrl_length_p2 m d). lia.
Qed.

Section Shape.
  Variable cr : crypto.
  Variable blocks : list bytes.

  Lemma merge_shape (m : N) :
    forall (d fuel : nat) (nodes rr nr : list node) (it' : fiter),
      (length (rrl d m) < fuel)%nat ->
      merge_roots cr fuel (ref_node cr blocks d m :: map (rn cr blocks) (rrl d m)) nodes
                  (it_at (N.of_nat d) m) = Ok (rr, nr, it') ->
      exists new, nr = new ++ nodes /\ (length new <= length (rrl d m))%nat /\
        forall x, In x new ->
          exists j q, (1 <= j)%nat /\ x = ref_node cr blocks (d + j) q /\ (q + 1) * p2 j = m + 1.
  Proof.
    induction m as [|n IH|n IH] using N_bin_ind; intros d fuel nodes rr nr it' Hfuel H.
    - destruct fuel as [|f]; [lia|]. cbn [rrl map] in H.
      rewrite merge_stop in H by exact I. injection H as <- <- <-.
      exists []. split; [reflexivity|]. split; [cbn; lia|]. intros x [].
    - destruct fuel as [|f]; [lia|].
      rewrite merge_stop in H.
      + injection H as <- <- <-. exists []. split; [reflexivity|]. split; [cbn; lia|]. intros x [].
      + destruct (rrl d (2 * n)) as [|b rest] eqn:Eb; [exact I|]. cbn [map].
        assert (Hb : (S d <= fst b)%nat).
        { apply (rrl_depth (S d) n). rewrite <- rrl_even, Eb. left. reflexivity. }
        rewrite it_sibling_at_even by (rewrite even_mod; lia).
        unfold rn. rewrite ref_node_index. cbn [it_at it_index].
        intros Heq. apply ft_index_inj in Heq. lia.
    - destruct fuel as [|f]; [lia|].
      rewrite rrl_odd in *. cbn [map length] in *. unfold rn at 1 in H. cbn [fst snd] in H.
      assert (Hsib : it_sibling (it_at (N.of_nat d) (2 * n + 1)) = it_at (N.of_nat d) (2 * n)).
      { rewrite it_sibling_at_odd by (rewrite odd_mod; lia). f_equal. lia. }
      assert (Hidx : it_index (it_sibling (it_at (N.of_nat d) (2 * n + 1))) =
                     n_index (ref_node cr blocks d (2 * n))).
      { rewrite Hsib, ref_node_index. reflexivity. }
      destruct (fits_u64 (n_length (ref_node cr blocks d (2 * n + 1)) +
                          n_length (ref_node cr blocks d (2 * n)))) eqn:F.
      + rewrite merge_step in H by assumption.
        rewrite Hsib, it_parent_at in H. replace (2 * n / 2) with n in H by lia.
        assert (Hnode : mkNode (it_index (it_at (N.of_nat d + 1) n))
                          (n_length (ref_node cr blocks d (2 * n + 1)) + n_length (ref_node cr blocks d (2 * n)))
                          (parent_hash cr (ref_node cr blocks d (2 * n + 1)) (ref_node cr blocks d (2 * n)))
                        = ref_node cr blocks (S d) n).
        { cbn [ref_node]. unfold parent_node. cbn [it_at it_index].
          rewrite Nat2N.inj_succ, <- N.add_1_r. f_equal; [lia|].
          apply parent_hash_comm. rewrite !ref_node_index.
          pose proof (ft_index_lt_offset (N.of_nat d) (2 * n) (2 * n + 1)). lia. }
        rewrite Hnode in H.
        replace (N.of_nat d + 1) with (N.of_nat (S d)) in H by (rewrite Nat2N.inj_succ; lia).
        destruct (IH (S d) f _ _ _ _ ltac:(lia) H) as (new & -> & Hlen & Hall).
        exists (new ++ [ref_node cr blocks (S d) n]). split; [rewrite <- app_assoc; reflexivity|].
        split; [rewrite app_length; cbn [length]; lia|].
        intros x Hx. apply in_app_or in Hx as [Hx|[<-|[]]].
        * destruct (Hall x Hx) as (j & q & Hj & -> & E).
          exists (S j), q. split; [lia|]. split; [f_equal; lia|]. rewrite p2_S. lia.
        * exists 1%nat, n. split; [lia|]. split; [f_equal; lia|]. rewrite p2_S, p2_0. lia.
      + destruct (merge_panic cr f _ _ (map (rn cr blocks) (rrl (S d) n)) nodes _ Hidx F) as [s Hs].
        rewrite Hs in H. discriminate H.
  Qed.

  Lemma cs_append_shape (c c' : changeset) (k : N) :
    cs_roots c = ref_roots cr blocks (cs_length c) -> cs_length c = k ->
    cs_append cr c (blk blocks k) = Ok c' ->
    exists new, cs_rnodes c' = new ++ cs_rnodes c /\ (length new <= S (length (rrl 0 k)))%nat /\
      forall x, In x new -> exists j q, x = ref_node cr blocks j q /\ (q + 1) * p2 j = k + 1.
  Proof.
    intros Hroots Hk H. unfold cs_append in H.
    apply bind_ok in H as ([c1 it1] & H1 & H). injection H as <-.
    unfold append_root in H1.
    apply bind_ok in H1 as (bl & Hbl & H1).
    apply bind_ok in H1 as ([[rr nr] it'] & Hm & H1). injection H1 as <- <-.
    cbn [cs_rnodes].
    rewrite Hroots, Hk in Hm.
    rewrite leaf_is_ref_node, it_new_leaf, rev_ref_roots, length_ref_roots in Hm.
    destruct (merge_shape k 0 _ _ _ _ _ (Nat.lt_succ_diag_r _) Hm) as (new & -> & Hlen & Hall).
    exists (new ++ [ref_node cr blocks 0 k]). split; [rewrite <- app_assoc; reflexivity|].
    split; [rewrite app_length; cbn [length]; lia|].
    intros x Hx. apply in_app_or in Hx as [Hx|[<-|[]]].
    - destruct (Hall x Hx) as (j & q & _ & -> & E). exists j, q. split; [reflexivity|exact E].
    - exists 0%nat, k. split; [reflexivity|]. rewrite p2_0. lia.
  Qed.

  Lemma cs_append_all_shape (batch : list bytes) :
    forall (c c' : changeset) (k : N),
      cs_roots c = ref_roots cr blocks k -> cs_length c = k ->
      (forall j, (j < length batch)%nat -> nth j batch [] = blk blocks (k + N.of_nat j)) ->
      k + N.of_nat (length batch) <= 2 ^ 64 ->
      cs_append_all cr c batch = Ok c' ->
      exists new, cs_rnodes c' = new ++ cs_rnodes c /\ (length new <= 65 * length batch)%nat /\
        forall x, In x new -> exists j q, x = ref_node cr blocks j q /\
                                          k < (q + 1) * p2 j /\ (q + 1) * p2 j <= k + N.of_nat (length batch).
  Proof.
    induction batch as [|d r IH]; intros c c' k Hroots Hk Hb Hbound H.
    - cbn [cs_append_all] in H. injection H as <-. exists []. split; [reflexivity|].
      split; [cbn; lia|]. intros x [].
    - cbn [cs_append_all] in H. apply bind_ok in H as (c1 & H1 & H).
      assert (Hd : d = blk blocks k).
      { specialize (Hb 0%nat). cbn [nth length] in Hb. replace (k + N.of_nat 0) with k in Hb by lia.
        apply Hb. lia. }
      subst d. rewrite <- Hk in Hroots. cbn [length] in Hbound.
      destruct (cs_append_ref cr blocks c c1 k Hroots Hk H1) as (R1 & L1 & _).
      destruct (cs_append_shape c c1 k Hroots Hk H1) as (new1 & E1 & Len1 & All1).
      assert (Hb' : forall j, (j < length r)%nat -> nth j r [] = blk blocks (k + 1 + N.of_nat j)).
      { intros j Hj. specialize (Hb (S j)). cbn [nth length] in Hb.
        replace (k + 1 + N.of_nat j) with (k + N.of_nat (S j)) by lia. apply Hb. lia. }
      destruct (IH c1 c' (k + 1) R1 L1 Hb' ltac:(lia) H) as (new2 & E2 & Len2 & All2).
      exists (new2 ++ new1). split; [rewrite E2, E1, app_assoc; reflexivity|].
      pose proof (rrl_length_64 0 k ltac:(lia)) as L64.
      split; [rewrite app_length; cbn [length]; lia|].
      intros x Hx. cbn [length]. apply in_app_or in Hx as [Hx|Hx].
      + destruct (All2 x Hx) as (j & q & -> & A & B). exists j, q. split; [reflexivity|]. lia.
      + destruct (All1 x Hx) as (j & q & -> & A). exists j, q. split; [reflexivity|]. lia.
  Qed.
End Shape.

(* ====================================================================================== *)
(* B. Reading the tree back: tree_open, truncate_roots, added nodes                        *)
(* ====================================================================================== *)

(* a tree with nothing in memory: lookups go to the store *)
Definition tE : mtree := mkTree [] 0 0 0 None nm_empty.

Lemma required_node_same_unflushed t t' tf i :
  t_unflushed t' = t_unflushed t -> required_node t' tf i = required_node t tf i.
Proof. intros H. unfold required_node. f_equal. apply node_get_unflushed_eq. rewrite H. reflexivity. Qed.

Lemma required_node_store_inv t tf i x :
  t_unflushed t = nm_empty -> required_node t tf i = Ok x ->
  exists data, f_read tf (NODE_SIZE * i) NODE_SIZE = Some data /\ node_from_bytes i data = x.
Proof.
  intros Hu H. unfold required_node, node_get in H. rewrite Hu, nm_get_empty in H.
  unfold mul64 in H. destruct (fits_u64 (NODE_SIZE * i)); [|discriminate H]. cbn [bind] in H.
  destruct (f_read tf (NODE_SIZE * i) NODE_SIZE) as [data|]; [|discriminate H].
  exists data. split; [reflexivity|].
  destruct (node_blank (node_from_bytes i data)); [discriminate H|]. cbn [bind] in H.
  injection H as <-. reflexivity.
Qed.

Lemma firstn_S_nth_error {A} (l : list A) : forall i x,
  nth_error l i = Some x -> firstn (S i) l = firstn i l ++ [x].
Proof.
  induction l as [|y l IH]; intros i x H; destruct i as [|i]; cbn [nth_error] in H; try discriminate H.
  - injection H as <-. reflexivity.
  - cbn [firstn app]. f_equal. apply IH, H.
Qed.

Lemma in_firstn {A} (l : list A) : forall i x, In x (firstn i l) -> In x l.
Proof.
  induction l as [|y l IH]; intros i x H; destruct i as [|i]; cbn [firstn] in H; try contradiction.
  destruct H as [<-|H]; [left; reflexivity|right; eapply IH; exact H].
Qed.

Lemma fold_add_node (l : list node) : forall t,
  fold_left tree_add_node l t =
  mkTree (t_roots t) (t_length t) (t_byte_length t) (t_fork t) (t_signature t) (add_nodes (t_unflushed t) l).
Proof.
  induction l as [|x l IH]; intros t.
  - destruct t; reflexivity.
  - cbn [fold_left]. rewrite IH. unfold tree_add_node, add_nodes.
    cbn [t_roots t_length t_byte_length t_fork t_signature t_unflushed fold_left]. reflexivity.
Qed.

Section TreeReopen.
  Variable cr : crypto.
  Hypothesis Hnonblank : forall x, all_zero (cr_hash cr x) = false.
  Variable bs : list bytes.

  Lemma in_ref_roots x n : In x (ref_roots cr bs n) -> x = ref_at cr bs (n_index x).
  Proof.
    unfold ref_roots. intros H. apply in_map_iff in H as (i & <- & _). rewrite ref_at_index_id. reflexivity.
  Qed.

  Lemma read_roots_tiles tf n (pre : list (nat * N)) : forall a b acc bl,
    lookups cr tE tf bs n -> tiles pre a b -> b <= n ->
    read_roots tf (map idx pre) acc bl (2 * a) =
      Ok (rev acc ++ map (rn cr bs) pre, bl + sumN (map n_length (map (rn cr bs) pre)), 2 * b).
  Proof.
    induction pre as [|[d o] pre IH]; intros a b acc bl Hl T Hb; cbn [tiles map read_roots sumN] in *.
    - subst. rewrite app_nil_r, N.add_0_r. reflexivity.
    - cbn [fst snd] in T. destruct T as [E T]. pose proof (tiles_le _ _ _ T) as Le.
      change (idx (d, o)) with (ft_index (N.of_nat d) o).
      pose proof (Hl d o ltac:(lia)) as R.
      apply required_node_store_inv in R as (data & Rd & Rn); [|reflexivity].
      rewrite Rd. cbv zeta. rewrite Rn.
      pose proof (ft_index_succ (N.of_nat d) o) as S. fold (p2 d) in S. pose proof (p2_pos d) as Hp.
      assert (Hft : ft_index (N.of_nat d) o = 2 * a + p2 d - 1) by (subst a; nia).
      unfold sub64. destruct (N.leb_spec (2 * a) (ft_index (N.of_nat d) o)) as [L|L]; [|lia].
      cbn [bind].
      replace (2 * a + 2 * (ft_index (N.of_nat d) o - 2 * a + 1)) with (2 * ((o + 1) * p2 d))
        by (rewrite Hft; subst a; lia).
      rewrite (IH _ b _ _ Hl T Hb). cbn [rev]. rewrite <- app_assoc. cbn [app].
      change (rn cr bs (d, o)) with (ref_node cr bs d o). rewrite N.add_assoc. reflexivity.
  Qed.

  Lemma tree_open_ref tf ht kf :
    lookups cr tE tf bs kf -> ht_length ht = kf ->
    (ht_signature ht = [] \/ length (ht_signature ht) = 64%nat) ->
    exists sg, tree_open ht tf =
               Ok (mkTree (ref_roots cr bs kf) kf (prefix_size bs kf) (ht_fork ht) sg nm_empty).
  Proof.
    intros Hl Hk Hs. unfold tree_open. rewrite Hk, ft_full_roots_rrl.
    pose proof (tiles_rrl kf 0) as T. rewrite p2_0, N.mul_1_r in T.
    pose proof (read_roots_tiles tf kf _ 0 kf [] 0 Hl T (N.le_refl _)) as R.
    replace (2 * 0) with 0 in R by lia. rewrite R. cbn [bind rev app].
    rewrite <- ref_roots_rrl, N.add_0_l, ref_roots_size.
    replace (2 * kf / 2) with kf by lia.
    destruct (ht_signature ht) as [|s0 s] eqn:Es.
    - cbn [bind]. eexists. reflexivity.
    - destruct Hs as [Hs|Hs]; [discriminate Hs|]. unfold parse_signature. rewrite Hs. cbn [Nat.eqb bind].
      eexists. reflexivity.
  Qed.

  Lemma truncate_roots_ref t tf (full : list N) : forall roots i,
    (forall x, In x roots -> x = ref_at cr bs (n_index x)) ->
    (i <= length roots)%nat ->
    (forall r, In r full -> required_node t tf r = Ok (ref_at cr bs r)) ->
    truncate_roots t tf full roots i = Ok (firstn i roots ++ map (ref_at cr bs) full).
  Proof.
    induction full as [|r rest IH]; intros roots i Hroots Hi Hreq; cbn [truncate_roots map].
    - rewrite app_nil_r. reflexivity.
    - assert (Hfetch : forall (X : res (list node)),
                (n' <- required_node t tf r ;; truncate_roots t tf rest (firstn i roots ++ [n']) (S i)) = X ->
                X = Ok (firstn i roots ++ ref_at cr bs r :: map (ref_at cr bs) rest)).
      { intros X <-. rewrite (Hreq r) by (left; reflexivity). cbn [bind].
        assert (Li : length (firstn i roots) = i) by (rewrite firstn_length; lia).
        rewrite IH.
        - rewrite firstn_all2 by (rewrite app_length, Li; cbn [length]; lia).
          rewrite <- app_assoc. reflexivity.
        - intros x Hx. apply in_app_or in Hx as [Hx|[<-|[]]].
          + apply Hroots. eapply in_firstn. exact Hx.
          + rewrite ref_at_index_id. reflexivity.
        - rewrite app_length, Li. cbn [length]. lia.
        - intros r' Hr'. apply Hreq. right. exact Hr'. }
      destruct (nth_error roots i) as [n|] eqn:En.
      + destruct (N.eqb_spec (n_index n) r) as [E|E].
        * rewrite IH.
          -- rewrite (firstn_S_nth_error _ _ _ En), <- app_assoc. cbn [app].
             rewrite (Hroots n) by (eapply nth_error_In; exact En). rewrite E. reflexivity.
          -- exact Hroots.
          -- apply (proj1 (nth_error_Some roots i)). rewrite En. discriminate.
          -- intros r' Hr'. apply Hreq. right. exact Hr'.
        * apply Hfetch. reflexivity.
      + apply Hfetch. reflexivity.
  Qed.

  Lemma lookups_full_roots t tf m r :
    lookups cr t tf bs m -> In r (ft_full_roots (2 * m)) -> required_node t tf r = Ok (ref_at cr bs r).
  Proof.
    intros Hl Hr. rewrite ft_full_roots_rrl in Hr. apply in_map_iff in Hr as ([d o] & <- & Hin).
    pose proof (tiles_rrl m 0) as T. rewrite p2_0, N.mul_1_r in T.
    destruct (tiles_in _ _ _ _ T Hin) as [_ H2]. cbn [fst snd] in H2.
    unfold idx. cbn [fst snd]. rewrite ref_at_index. apply Hl, H2.
  Qed.

  Lemma tree_truncate_ref t tf m fork :
    (forall x, In x (t_roots t) -> x = ref_at cr bs (n_index x)) ->
    lookups cr t tf bs m ->
    tree_truncate t tf m fork =
    Ok (mkCs m m (prefix_size bs m) 0 fork (ref_roots cr bs m) [] None None true (t_length t) (t_fork t)).
  Proof.
    intros Hroots Hl. unfold tree_truncate.
    rewrite (truncate_roots_ref t tf _ (t_roots t) 0 Hroots (Nat.le_0_l _)).
    - cbn [firstn app bind]. fold (ref_roots cr bs m). rewrite ref_roots_size. reflexivity.
    - intros r Hr. apply (lookups_full_roots t tf m r Hl Hr).
  Qed.

  (* lookups after adding the reference nodes between two lengths *)
  Lemma lookups_add t t' tf (l : list node) a m :
    (forall x, In x l -> x = ref_at cr bs (n_index x)) ->
    (forall j q, a < (q + 1) * p2 j -> (q + 1) * p2 j <= m -> In (ref_node cr bs j q) l) ->
    t_unflushed t' = add_nodes (t_unflushed t) l ->
    lookups cr t tf bs a -> lookups cr t' tf bs m.
  Proof.
    intros Hsound Hcomplete Hu Hold d o Hfull.
    destruct (required_node_add cr Hnonblank bs t t' tf l (ft_index (N.of_nat d) o) Hsound Hu) as [[_ H]|[Hno H]].
    - rewrite H, ref_at_index. reflexivity.
    - destruct (N.le_gt_cases ((o + 1) * p2 d) a) as [Le|Gt].
      + rewrite H. apply Hold, Le.
      + exfalso. apply (Hno (ref_node cr bs d o)); [apply Hcomplete; assumption|apply ref_node_index].
  Qed.
End TreeReopen.

(* ====================================================================================== *)
(* C. Headers and entries of the append-only fragment, and their replay                    *)
(* ====================================================================================== *)

(* a header of a writer with key pair kp describing a tree of n blocks *)
Definition hdr_desc (kp : keypair) (h : header) (n : N) : Prop :=
  header_ok h = true /\ hd_keypair h = kp /\ ht_fork (hd_tree h) = 0 /\ ht_length (hd_tree h) = n /\
  hd_contig h = n /\ len (ht_root_hash (hd_tree h)) <= 32 /\
  (ht_signature (hd_tree h) = [] \/ length (ht_signature (hd_tree h)) = 64%nat).

Lemma buffer_ok_intro v : len v <= u64_max -> bytes_ok v = true -> buffer_ok v = true.
Proof. intros H1 H2. unfold buffer_ok, fits_u64. rewrite H2. apply andb_true_intro. split; [lia|reflexivity]. Qed.

Lemma hdr_desc_upd kp h a h' m hash sg :
  hdr_desc kp h a ->
  hd_key h' = hd_key h -> hd_ns h' = hd_ns h -> hd_mpk h' = hd_mpk h -> hd_keypair h' = hd_keypair h ->
  hd_tree h' = mkHeaderTree 0 m hash sg -> hd_contig h' = m ->
  m <= u64_max -> length hash = 32%nat -> bytes_ok hash = true ->
  length sg = 64%nat -> bytes_ok sg = true ->
  hdr_desc kp h' m.
Proof.
  intros (H & Hkp & _) E1 E2 E3 E4 E5 E6 Hm Hh Hhb Hs Hsb.
  unfold hdr_desc. rewrite E4, E5, E6. cbn [ht_fork ht_length ht_root_hash ht_signature].
  split.
  - unfold header_ok in *. split_ok H.
    rewrite E1, E2, E3, E4, E5, E6. cbn [ht_fork ht_length ht_root_hash ht_signature].
    rewrite H, Hok6, Hok5, Hok4. cbn [andb].
    rewrite (buffer_ok_intro hash), (buffer_ok_intro sg); try assumption;
      try (unfold len, u64_max; lia).
    unfold fits_u64. cbn [andb].
    destruct (N.leb_spec 0 u64_max) as [_|A]; [|unfold u64_max in A; lia].
    destruct (N.leb_spec m u64_max) as [_|A]; [reflexivity|lia].
  - split; [exact Hkp|]. split; [reflexivity|]. split; [reflexivity|]. split; [reflexivity|].
    split; [unfold len; lia|]. right. exact Hs.
Qed.

Section Replay.
  Variable cr : crypto.
  Hypothesis Hhash32 : forall x, length (cr_hash cr x) = 32%nat.
  Hypothesis Hnonblank : forall x, all_zero (cr_hash cr x) = false.
  Hypothesis Hhashbytes : forall x, bytes_ok (cr_hash cr x) = true.

  (* the entry logged by an append that took the tree from a to m blocks *)
  Definition edesc (bs : list bytes) (a : N) (e : entry) (m : N) : Prop :=
    a < m /\
    (exists sg, e_upgrade e = Some (mkTreeUpgrade 0 a m sg) /\ length sg = 64%nat /\ bytes_ok sg = true) /\
    e_bitfield e = Some (mkBfUpdate false a (m - a)) /\
    (forall x, In x (e_nodes e) -> exists j q, x = ref_node cr bs j q /\ (q + 1) * p2 j <= m) /\
    (forall j q, a < (q + 1) * p2 j -> (q + 1) * p2 j <= m -> In (ref_node cr bs j q) (e_nodes e)).

  Fixpoint echain (bs : list bytes) (a : N) (l : list entry) (b : N) : Prop :=
    match l with
    | [] => a = b
    | e :: r => exists m, edesc bs a e m /\ echain bs m r b
    end.

  Lemma echain_le bs l : forall a b, echain bs a l b -> a <= b.
  Proof.
    induction l as [|e l IH]; intros a b H; cbn [echain] in H.
    - lia.
    - destruct H as (m & (Hlt & _) & H). apply IH in H. lia.
  Qed.

  Lemma echain_snoc bs l : forall a m e b, echain bs a l m -> edesc bs m e b -> echain bs a (l ++ [e]) b.
  Proof.
    induction l as [|e0 l IH]; intros a m e b H He; cbn [echain app] in *.
    - subst. exists b. split; [exact He|reflexivity].
    - destruct H as (m0 & H0 & H). exists m0. split; [exact H0|]. eapply IH; eassumption.
  Qed.

  Lemma edesc_app bs batch a e m :
    m <= N.of_nat (length bs) -> edesc bs a e m -> edesc (bs ++ batch) a e m.
  Proof.
    intros Hm (H1 & H2 & H3 & H4 & H5). split; [exact H1|]. split; [exact H2|]. split; [exact H3|]. split.
    - intros x Hx. destruct (H4 x Hx) as (j & q & -> & Hq). exists j, q. split; [|exact Hq].
      symmetry. apply ref_node_app. lia.
    - intros j q A B. rewrite ref_node_app by lia. apply H5; assumption.
  Qed.

  Lemma echain_app bs batch l : forall a b,
    b <= N.of_nat (length bs) -> echain bs a l b -> echain (bs ++ batch) a l b.
  Proof.
    induction l as [|e l IH]; intros a b Hb H; cbn [echain] in *.
    - exact H.
    - destruct H as (m & He & H). exists m. pose proof (echain_le _ _ _ _ H).
      split; [apply edesc_app; [lia|exact He]|apply IH; assumption].
  Qed.

  (* the state of a replay that has reached length a; kf = the length the replay started from *)
  Definition RInv (bs : list bytes) (tf : file) (kp : keypair) (kf : N)
             (st : mtree * bitfield * header) (a : N) : Prop :=
    let '(t, b, h) := st in
    t_length t = a /\ t_byte_length t = prefix_size bs a /\ t_fork t = 0 /\
    t_roots t = ref_roots cr bs a /\ lookups cr t tf bs a /\ unflushed_ok t /\
    (forall i, bf_get b i = (i <? a)) /\
    (forall i, kf <= i -> i < a -> In (i / PAGE_BITS) (bf_dirty b)) /\
    hdr_desc kp h a.

  Lemma replay_entry_ok bs tf kp kf t b h e a m :
    sumN (map len bs) <= u64_max -> m <= u64_max ->
    RInv bs tf kp kf (t, b, h) a -> edesc bs a e m ->
    exists t' b' h', replay_entry cr tf (t, b, h) e = Ok (t', b', h') /\ RInv bs tf kp kf (t', b', h') m.
  Proof.
    intros Hfit Hm (HL & HB & HF & HR & Hlook & Hun & Hbf & Hdirty & Hh)
           (Hlt & (sg & Hup & Hsg & Hsgb) & Hbu & Hsound & Hcompl).
    assert (Sound : forall x, In x (e_nodes e) -> x = ref_at cr bs (n_index x)).
    { intros x Hx. destruct (Hsound x Hx) as (j & q & -> & _). apply ref_node_is_ref. }
    unfold replay_entry. rewrite fold_add_node, Hbu, Hup.
    cbn [tu_length tu_fork tu_signature tu_ancestors].
    set (t1 := mkTree (t_roots t) (t_length t) (t_byte_length t) (t_fork t) (t_signature t)
                      (add_nodes (t_unflushed t) (e_nodes e))).
    set (u := mkBfUpdate false a (m - a)).
    assert (L1 : lookups cr t1 tf bs m).
    { apply (lookups_add cr Hnonblank bs t t1 tf (e_nodes e) a m Sound Hcompl); [reflexivity|exact Hlook]. }
    rewrite (tree_truncate_ref cr Hnonblank bs t1 tf m 0).
    2:{ intros x Hx. unfold t1 in Hx. cbn [t_roots] in Hx. rewrite HR in Hx. eapply in_ref_roots. exact Hx. }
    2:{ exact L1. }
    cbn [bind]. unfold parse_signature. rewrite Hsg. cbn [Nat.eqb bind].
    cbn [cs_length cs_byte_length cs_batch_length cs_fork cs_roots cs_rnodes cs_orig_length cs_orig_fork].
    unfold tree_commit, commitable.
    cbn [cs_orig_fork cs_upgraded cs_orig_length cs_ancestors cs_roots cs_length cs_byte_length cs_fork
         cs_signature cs_nodes cs_rnodes rev_append].
    rewrite !N.eqb_refl. cbn [andb negb].
    assert ((a <? t_length t1) = false) as ->.
    { unfold t1. cbn [t_length]. rewrite HL. apply N.ltb_irrefl. }
    cbn [bind]. do 3 eexists. split; [reflexivity|].
    unfold RInv. cbn [t_length t_byte_length t_fork t_roots].
    split; [reflexivity|]. split; [reflexivity|]. split; [reflexivity|]. split; [reflexivity|].
    split.
    { intros d o Hfull. rewrite <- (L1 d o Hfull). apply required_node_same_unflushed. reflexivity. }
    split.
    { apply (commit_unflushed_ok cr Hhash32 bs t _ (e_nodes e) Hfit Sound); [reflexivity|exact Hun]. }
    destruct (contig_after b a (m - a) Hbf ltac:(lia)) as [G1 G2]. fold u in G1, G2.
    replace (a + (m - a)) with m in G1, G2 by lia.
    split; [exact G1|].
    split.
    { intros i Hi1 Hi2. unfold u, bf_apply. cbn [bu_start bu_length bu_drop negb].
      destruct (N.lt_ge_cases i a) as [Lt|Ge].
      - apply bf_dirty_set_range_mono. apply Hdirty; assumption.
      - apply bf_dirty_set_range_sound.
        fold (bf_apply b u). rewrite G1, Hbf.
        destruct (N.ltb_spec i m), (N.ltb_spec i a); try lia; discriminate. }
    destruct Hh as (Hok & Hkp & Hfk & Hln & Hcg & Hrh & Hsgn).
    apply (hdr_desc_upd kp h a _ m (tree_hash cr (ref_roots cr bs m)) sg);
      try reflexivity; try assumption.
    - repeat split; assumption.
    - cbn [set_tree set_contig hd_tree hd_contig ht_fork]. rewrite Hfk. reflexivity.
    - cbn [set_tree set_contig hd_contig]. rewrite Hcg. exact G2.
    - apply Hhash32.
    - apply Hhashbytes.
  Qed.

  Lemma replay_entries_ok bs tf kp kf (l : list entry) : forall t b h a n,
    sumN (map len bs) <= u64_max -> n <= u64_max ->
    RInv bs tf kp kf (t, b, h) a -> echain bs a l n ->
    exists t' b' h', replay_entries cr tf (t, b, h) l = Ok (t', b', h') /\ RInv bs tf kp kf (t', b', h') n.
  Proof.
    induction l as [|e l IH]; intros t b h a n Hfit Hn R C; cbn [echain replay_entries] in *.
    - subst. do 3 eexists. split; [reflexivity|exact R].
    - destruct C as (m & He & C). pose proof (echain_le _ _ _ _ C) as Le.
      destruct (replay_entry_ok bs tf kp kf t b h e a m Hfit ltac:(lia) R He) as (t1 & b1 & h1 & E1 & R1).
      rewrite E1. cbn [bind]. apply (IH t1 b1 h1 m n Hfit Hn R1 C).
  Qed.
End Replay.

(* ====================================================================================== *)
(* D. The bitfield store                                                                   *)
(* ====================================================================================== *)

(* byte k of the content of a file, 0 beyond its end; bit i of the content *)
Definition fbyte (f : file) (k : N) : N := if k <? f_len f then f_byte f k else 0.
Definition fbit (f : file) (i : N) : bool := N.testbit (fbyte f (i / 8)) (i mod 8).

(* the bitfield file holds exactly the bits [0, kf), in whole pages *)
Definition BfDisk (f : file) (kf : N) : Prop :=
  f_len f mod PAGE_BYTES = 0 /\ forall i, fbit f i = (i <? kf).

Lemma BfDisk_empty : BfDisk file_empty 0.
Proof.
  split; [reflexivity|]. intros i. unfold fbit, fbyte. cbn [file_empty f_len].
  destruct (N.ltb_spec (i / 8) 0); [lia|]. rewrite N.bits_0. destruct (N.ltb_spec i 0); [lia|reflexivity].
Qed.

Lemma bf_open_get f i : f_len f mod PAGE_BYTES = 0 -> bf_get (bf_open f) i = fbit f i.
Proof.
  intros Hm. unfold bf_open.
  assert (f_len f mod 4 = 0) as -> by (unfold PAGE_BYTES in Hm; lia).
  rewrite N.sub_0_r. rewrite f_read_some by lia.
  unfold bf_get. cbn [bf_bits]. rewrite load_bits_spec_gen, nm_mem_empty. cbn [orb].
  unfold len. rewrite map_length, nrange_length, N2Nat.id.
  unfold fbit, fbyte.
  destruct (N.ltb_spec (i / 8) (f_len f)) as [L|L].
  - assert ((8 * 0 <=? i) && (i <? 8 * (0 + f_len f)) = true) as -> by lia. cbn [andb].
    rewrite map_nrange_nth by lia. f_equal. f_equal. lia.
  - assert ((i <? 8 * (0 + f_len f)) = false) as -> by lia.
    rewrite andb_false_r, N.bits_0. reflexivity.
Qed.

Lemma bf_open_dirty f : bf_dirty (bf_open f) = [].
Proof. unfold bf_open. destruct (f_read f 0 _); reflexivity. Qed.

Lemma BfDisk_open f kf i : BfDisk f kf -> bf_get (bf_open f) i = (i <? kf).
Proof. intros [Hm Hb]. rewrite bf_open_get by exact Hm. apply Hb. Qed.

Lemma fbyte_write f off data k :
  fbyte (f_write f off data) k =
  if (off <=? k) && (k <? off + len data) then nth (N.to_nat (k - off)) data 0 else fbyte f k.
Proof.
  unfold fbyte. rewrite f_write_len, f_write_byte. bcase; try reflexivity; lia.
Qed.

Definition page_write (m : nmap unit) (f : file) (p : N) : file :=
  f_write f (p * PAGE_BYTES) (page_bytes m p).

Definition write_pages (f : file) (m : nmap unit) (ps : list N) : file := fold_left (page_write m) ps f.

Lemma len_page_bytes m p : len (page_bytes m p) = PAGE_BYTES.
Proof. unfold len. rewrite length_page_bytes. reflexivity. Qed.

Lemma fbit_page_write m f p i :
  fbit (page_write m f p) i = if i / PAGE_BITS =? p then nm_mem i m else fbit f i.
Proof.
  unfold fbit, page_write. rewrite fbyte_write, len_page_bytes.
  destruct (N.eqb_spec (i / PAGE_BITS) p) as [E|E].
  - assert ((p * PAGE_BYTES <=? i / 8) && (i / 8 <? p * PAGE_BYTES + PAGE_BYTES) = true) as ->
      by (unfold PAGE_BITS, PAGE_BYTES in *; lia).
    unfold page_bytes. rewrite nth_map_nrange by (unfold PAGE_BITS, PAGE_BYTES in *; lia).
    rewrite testbit_bits_byte by lia. f_equal. unfold PAGE_BITS, PAGE_BYTES in *. lia.
  - assert ((p * PAGE_BYTES <=? i / 8) && (i / 8 <? p * PAGE_BYTES + PAGE_BYTES) = false) as ->
      by (unfold PAGE_BITS, PAGE_BYTES in *; lia).
    reflexivity.
Qed.

Lemma fbit_write_pages m (ps : list N) : forall f i,
  (In (i / PAGE_BITS) ps -> fbit (write_pages f m ps) i = nm_mem i m) /\
  (~ In (i / PAGE_BITS) ps -> fbit (write_pages f m ps) i = fbit f i).
Proof.
  induction ps as [|p ps IH]; intros f i.
  - split; [intros []|reflexivity].
  - unfold write_pages. cbn [fold_left]. fold (write_pages (page_write m f p) m ps).
    destruct (IH (page_write m f p) i) as [I1 I2].
    destruct (in_dec N.eq_dec (i / PAGE_BITS) ps) as [Hin|Hnin].
    + split; [intros _; apply I1, Hin|]. intros Hn. exfalso. apply Hn. right. exact Hin.
    + rewrite (I2 Hnin), fbit_page_write. split.
      * intros [<-|Hin]; [|contradiction]. rewrite N.eqb_refl. reflexivity.
      * intros Hn. destruct (N.eqb_spec (i / PAGE_BITS) p) as [E|E]; [|reflexivity].
        exfalso. apply Hn. left. symmetry. exact E.
Qed.

Lemma len_write_pages m (ps : list N) : forall f,
  f_len f mod PAGE_BYTES = 0 -> f_len (write_pages f m ps) mod PAGE_BYTES = 0.
Proof.
  induction ps as [|p ps IH]; intros f H; [exact H|].
  unfold write_pages. cbn [fold_left]. fold (write_pages (page_write m f p) m ps).
  apply (IH (page_write m f p)).
  unfold page_write. rewrite f_write_len.
  replace (len (page_bytes m p)) with PAGE_BYTES by (symmetry; apply len_page_bytes). clear IH.
  destruct (N.max_spec (f_len f) (p * PAGE_BYTES + PAGE_BYTES)) as [[_ ->]|[_ ->]]; [|exact H].
  replace (p * PAGE_BYTES + PAGE_BYTES) with ((p + 1) * PAGE_BYTES) by lia.
  apply N.mod_mul. discriminate.
Qed.

Lemma apply_page_writes m (ps : list N) : forall d,
  apply_sops d (map (fun p => SW Bitfield (p * PAGE_BYTES) (page_bytes m p)) ps) =
  Some (d_set d Bitfield (write_pages (d_bitfield d) m ps)).
Proof.
  induction ps as [|p ps IH]; intros d.
  - destruct d; reflexivity.
  - cbn [map apply_sops apply_sop]. rewrite IH. destruct d; reflexivity.
Qed.

(* flushing the dirty pages of a bitfield holding [0, n), when every page with a bit of [kf, n) is dirty *)
Lemma BfDisk_flush f kf (b : bitfield) n :
  BfDisk f kf -> kf <= n ->
  (forall i, bf_get b i = (i <? n)) ->
  (forall i, kf <= i -> i < n -> In (i / PAGE_BITS) (bf_dirty b)) ->
  BfDisk (write_pages f (bf_bits b) (bf_dirty b)) n.
Proof.
  intros [Hm Hb] Hle Hg Hd. split; [apply len_write_pages, Hm|].
  intros i. destruct (fbit_write_pages (bf_bits b) (bf_dirty b) f i) as [I1 I2].
  destruct (in_dec N.eq_dec (i / PAGE_BITS) (bf_dirty b)) as [Hin|Hnin].
  - rewrite (I1 Hin). apply Hg.
  - rewrite (I2 Hnin), Hb.
    destruct (N.ltb_spec i kf) as [A|A], (N.ltb_spec i n) as [B|B]; try reflexivity; try lia.
    exfalso. apply Hnin, Hd; assumption.
Qed.

(* ====================================================================================== *)
(* E. The disk-level invariant; creation; reopen                                           *)
(* ====================================================================================== *)

Lemma choose_header_ok cr s0 s1 st0 st1 bits hc :
  slot_is cr s0 st0 -> slot_is cr s1 st1 -> choose st0 st1 = Some (bits, hc) -> header_ok hc = true.
Proof.
  destruct st0 as [h0 b0|], st1 as [h1 b1|]; cbn [slot_is choose]; intros H0 H1 E; try discriminate E;
    injection E as <- <-.
  - destruct (Bool.eqb b0 b1); [apply H0|apply H1].
  - apply H0.
  - apply H1.
Qed.

Section Disk.
  Variable cr : crypto.
  Hypothesis Hcrc : crc_ok cr.
  Hypothesis Hhash32 : forall x, length (cr_hash cr x) = 32%nat.
  Hypothesis Hnonblank : forall x, all_zero (cr_hash cr x) = false.
  Hypothesis Hhashbytes : forall x, bytes_ok (cr_hash cr x) = true.

  (* memory c, disk d, list of all blocks bs.  hf = the header written by the last flush (or by
     creation), describing the first kf blocks; l = the entries logged since. *)
  Definition DInv (c : core) (d : disk) (bs : list bytes) : Prop :=
    let n := N.of_nat (length bs) in
    WInv cr c d bs /\
    exists s0 s1 body st0 st1 hf l kf,
      f_content (d_oplog d) = s0 ++ s1 ++ body /\
      good cr s0 s1 body st0 st1 (ol_bits (c_oplog c)) hf l /\
      ol_entries_len (c_oplog c) = N.of_nat (length l) /\
      ol_entries_bytes (c_oplog c) = entries_size l /\
      hdr_desc (c_keypair c) hf kf /\
      hdr_desc (c_keypair c) (c_header c) n /\
      echain cr bs kf l n /\
      lookups cr tE (d_tree d) bs kf /\
      BfDisk (d_bitfield d) kf /\
      (forall i, kf <= i -> i < n -> In (i / PAGE_BITS) (bf_dirty (c_bitfield c))).

  Lemma DInv_WInv c d bs : DInv c d bs -> WInv cr c d bs.
  Proof. intros [W _]. exact W. Qed.

  (* ---------- creation ---------- *)

  Theorem DInv_init kp :
    keypair_ok kp = true ->
    exists d' ops c,
      core_open cr (Some kp) false disk_empty = (d', ops, Ok c) /\
      DInv c d' [] /\ c_keypair c = kp.
  Proof.
    intros Hkp.
    destruct (oplog_fresh_then_open cr Hcrc kp Hkp) as (buf & s0 & Hf & _ & _ & Hca & G & _ & _).
    unfold core_open. cbv iota.
    change (f_content (d_oplog disk_empty)) with (@nil N).
    rewrite (oplog_open_empty cr kp _ _ _ Hf). cbn [oo_ops oo_header oo_entries oo_oplog].
    destruct (apply_sops disk_empty [SW Oplog 0 buf; ST Oplog (ENTRIES_OFFSET + 0)]) as [d1|] eqn:Ea;
      [|cbn in Ea; discriminate Ea].
    assert (Hcontent : f_content (d_oplog d1) = s0 ++ zeros (N.to_nat HEADER_SIZE) ++ []).
    { apply (c_apply_all_sound [SW Oplog 0 buf; ST Oplog (ENTRIES_OFFSET + 0)] disk_empty d1);
        [repeat constructor|exact Ea|exact Hca]. }
    assert (Htree : d_tree d1 = file_empty /\ d_bitfield d1 = file_empty /\ d_data d1 = file_empty).
    { cbn in Ea. injection Ea as <-. repeat split. }
    destruct Htree as (Ht & Hb & Hd). rewrite Ht, Hb.
    cbn [header_new hd_tree].
    assert (T : tree_open (mkHeaderTree 0 0 [] []) file_empty = Ok (mkTree [] 0 0 0 None nm_empty))
      by reflexivity.
    rewrite T. cbn [bind].
    assert (Bo : bf_open file_empty = mkBf nm_empty []) by reflexivity.
    rewrite Bo. cbn [replay_entries bind hd_keypair].
    do 3 eexists. split; [reflexivity|]. split; [|reflexivity].
    assert (L0 : lookups cr tE file_empty [] 0).
    { intros dd o H. pose proof (p2_pos dd). nia. }
    split.
    { unfold WInv. cbn [c_tree c_bitfield c_header t_length t_byte_length t_fork t_roots
                        length map sumN concat hd_contig].
      rewrite Ht, Hd.
      split; [reflexivity|]. split; [reflexivity|]. split; [reflexivity|]. split; [reflexivity|].
      split. { exact L0. }
      split. { intros i n H. cbn [t_unflushed] in H. rewrite nm_get_empty in H. discriminate H. }
      split. { intros i. unfold bf_get. cbn [bf_bits]. rewrite nm_mem_empty.
               change (N.of_nat 0) with 0. destruct (N.ltb_spec i 0); [lia|reflexivity]. }
      split; [reflexivity|]. split; [reflexivity|].
      split; [unfold u64_max; lia|]. change (N.of_nat 0) with 0. unfold NODE_SIZE, u64_max. lia. }
    cbn [c_oplog c_keypair c_header c_bitfield ol_bits ol_entries_len ol_entries_bytes length].
    change (N.of_nat 0) with 0.
    assert (HD : hdr_desc kp (header_new kp) 0).
    { split; [apply header_new_ok, Hkp|]. cbn [header_new hd_keypair hd_tree hd_contig ht_fork ht_length
                                                 ht_root_hash ht_signature].
      repeat split; try reflexivity. unfold len. cbn [length]. lia. left. reflexivity. }
    exists s0, (zeros (N.to_nat HEADER_SIZE)), [], (SValid (header_new kp) false), SInvalid, (header_new kp), [], 0.
    split; [exact Hcontent|]. split; [exact G|]. split; [reflexivity|]. split; [reflexivity|].
    split; [exact HD|]. split; [exact HD|]. split; [reflexivity|].
    split; [rewrite Ht; exact L0|]. split; [rewrite Hb; apply BfDisk_empty|].
    intros i H1 H2. lia.
  Qed.

  (* ---------- reopen ---------- *)

  Theorem reopen_correct c d bs :
    DInv c d bs ->
    exists c', core_open cr None true d = (d, [], Ok c') /\
               DInv c' d bs /\ c_keypair c' = c_keypair c /\
               core_info c' = core_info c /\ (forall i, core_has c' i = core_has c i).
  Proof.
    intros (W & s0 & s1 & body & st0 & st1 & hf & l & kf & Hcont & G & Hlen & Hbytes & Hhf & Hhc & Hch &
            Hstore & Hbfd & Hdirty).
    pose proof W as (HL & HB & HF & HR & Hlook & Hun & Hbf & Hcg & Hd & Hs & Hn).
    set (n := N.of_nat (length bs)) in *.
    unfold core_open. cbv iota. rewrite Hcont.
    rewrite (good_open cr Hcrc _ _ _ _ _ _ _ _ G).
    cbn [stable_result oo_ops oo_header oo_entries oo_oplog apply_sops].
    destruct Hhf as (Hok & Hkp & Hfk & Hln & Hcgf & Hrh & Hsg).
    destruct (tree_open_ref cr Hnonblank bs (d_tree d) (hd_tree hf) kf Hstore Hln Hsg) as [sg0 Hto].
    rewrite Hto. cbn [bind]. rewrite Hfk.
    set (t0 := mkTree (ref_roots cr bs kf) kf (prefix_size bs kf) 0 sg0 nm_empty).
    assert (R0 : RInv cr bs (d_tree d) (c_keypair c) kf (t0, bf_open (d_bitfield d), hf) kf).
    { unfold RInv, t0. cbn [t_length t_byte_length t_fork t_roots].
      split; [reflexivity|]. split; [reflexivity|]. split; [reflexivity|]. split; [reflexivity|].
      split. { intros dd o Hfull. rewrite <- (Hstore dd o Hfull). apply required_node_same_unflushed. reflexivity. }
      split. { intros i x H. cbn [t_unflushed] in H. rewrite nm_get_empty in H. discriminate H. }
      split. { intros i. apply BfDisk_open, Hbfd. }
      split. { intros i H1 H2. lia. }
      repeat split; assumption. }
    assert (Hn64 : n <= u64_max) by (unfold NODE_SIZE in Hn; lia).
    destruct (replay_entries_ok cr Hhash32 Hnonblank Hhashbytes bs (d_tree d) (c_keypair c) kf l
                t0 (bf_open (d_bitfield d)) hf kf n Hs Hn64 R0 Hch) as (t' & b' & h' & Hrep & R').
    rewrite Hrep. cbn [bind].
    destruct R' as (HL' & HB' & HF' & HR' & Hlook' & Hun' & Hbf' & Hdirty' & Hh').
    pose proof Hh' as (Hok' & Hkp' & Hfk' & Hln' & Hcg' & _).
    eexists. split; [reflexivity|].
    assert (W' : WInv cr (mkCore (hd_keypair h') (mkOplog (ol_bits (c_oplog c)) (N.of_nat (length l)) (entries_size l))
                                 t' b' h' 0) d bs).
    { unfold WInv. cbn [c_tree c_bitfield c_header]. fold n.
      split; [exact HL'|]. split; [rewrite HB'; unfold n; apply prefix_size_all|].
      split; [exact HF'|]. split; [exact HR'|]. split; [exact Hlook'|]. split; [exact Hun'|].
      split; [exact Hbf'|]. split; [exact Hcg'|]. split; [exact Hd|]. split; [exact Hs|exact Hn]. }
    split.
    { split; [exact W'|]. cbn [c_oplog c_keypair c_header c_bitfield ol_bits ol_entries_len ol_entries_bytes].
      fold n. rewrite Hkp'.
      exists s0, s1, body, st0, st1, hf, l, kf.
      split; [exact Hcont|]. split; [exact G|]. split; [reflexivity|]. split; [reflexivity|].
      split; [repeat split; assumption|]. split; [exact Hh'|]. split; [exact Hch|].
      split; [exact Hstore|]. split; [exact Hbfd|exact Hdirty']. }
    cbn [c_keypair]. split; [exact Hkp'|].
    split.
    { rewrite (info_correct cr _ d bs W'), (info_correct cr c d bs W). cbn [c_keypair]. rewrite Hkp'. reflexivity. }
    intros i. rewrite (has_correct cr _ d bs i W'), (has_correct cr c d bs i W). reflexivity.
  Qed.

  (* all three observations at once: info, has, and get (result, events, disk and journal) *)
  Corollary reopen_observations c d bs :
    DInv c d bs ->
    exists c', core_open cr None true d = (d, [], Ok c') /\ DInv c' d bs /\
      core_info c' = core_info c /\ (forall i, core_has c' i = core_has c i) /\
      (forall i j ev, snd (core_get i c' (mkWorld d j ev)) = snd (core_get i c (mkWorld d j ev)) /\
                      snd (fst (core_get i c' (mkWorld d j ev))) = snd (fst (core_get i c (mkWorld d j ev)))).
  Proof.
    intros D. destruct (reopen_correct c d bs D) as (c' & E & D' & K & I & Hh).
    exists c'. split; [exact E|]. split; [exact D'|]. split; [exact I|]. split; [exact Hh|].
    intros i j ev.
    rewrite (get_correct cr c' d bs j ev i (DInv_WInv c' d bs D')), (get_correct cr c d bs j ev i (DInv_WInv c d bs D)).
    destruct (i <? N.of_nat (length bs)); split; reflexivity.
  Qed.
End Disk.

(* ====================================================================================== *)
(* F. core_append preserves the disk-level invariant                                       *)
(* ====================================================================================== *)

Lemma ref_node_hash_bytes (cr : crypto) (bs : list bytes) :
  (forall x, bytes_ok (cr_hash cr x) = true) ->
  forall d o, bytes_ok (n_hash (ref_node cr bs d o)) = true.
Proof.
  intros H d o. destruct d; cbn [ref_node]; unfold block_node, parent_node, leaf_hash, parent_hash;
    cbn [n_hash]; apply H.
Qed.

Lemma length_cs_nodes (c : changeset) : length (cs_nodes c) = length (cs_rnodes c).
Proof. unfold cs_nodes. rewrite rev_append_rev, app_nil_r. apply rev_length. Qed.

Section EntryOk.
  Variable cr : crypto.
  Hypothesis Hhash32 : forall x, length (cr_hash cr x) = 32%nat.
  Hypothesis Hhashbytes : forall x, bytes_ok (cr_hash cr x) = true.

  Lemma append_entry_ok (B : list bytes) (l : list node) (n n' : N) (sg : bytes) :
    sumN (map len B) <= u64_max -> NODE_SIZE * (2 * n') <= u64_max -> n <= n' ->
    N.of_nat (length l) <= 65 * (n' - n) ->
    (forall x, In x l -> exists j q, x = ref_node cr B j q /\ (q + 1) * p2 j <= n') ->
    length sg = 64%nat -> bytes_ok sg = true ->
    entry_ok (mkEntry l (Some (mkTreeUpgrade 0 n n' sg)) (Some (mkBfUpdate false n (n' - n)))) = true.
  Proof.
    intros Hfit Hidx Hle Hcount Hshape Hsg Hsgb. unfold NODE_SIZE in Hidx.
    unfold entry_ok. cbn [e_nodes e_upgrade e_bitfield tu_fork tu_ancestors tu_length tu_signature bu_start bu_length].
    assert (F : forall v, v <= u64_max -> fits_u64 v = true) by (intros v Hv; unfold fits_u64; lia).
    rewrite !F by (unfold u64_max in *; lia).
    rewrite (buffer_ok_intro sg) by (try assumption; unfold len, u64_max; lia).
    cbn [andb]. rewrite andb_true_r.
    unfold nodes_ok. rewrite F by lia. cbn [andb]. rewrite ?andb_true_r.
    apply forallb_forall. intros x Hx. destruct (Hshape x Hx) as (j & q & -> & Hq).
    unfold node_ok. rewrite ref_node_index, (ref_node_fits cr B Hfit), (ref_node_hash_length cr B Hhash32),
      (ref_node_hash_bytes cr B Hhashbytes).
    cbn [Nat.eqb andb]. rewrite !andb_true_r. apply F.
    pose proof (ft_index_succ (N.of_nat j) q) as S. fold (p2 j) in S. pose proof (p2_pos j). nia.
  Qed.
End EntryOk.

Section Steps.
  Variable cr : crypto.
  Hypothesis Hhash32 : forall x, length (cr_hash cr x) = 32%nat.
  Hypothesis Hnonblank : forall x, all_zero (cr_hash cr x) = false.

  Lemma log_and_commit_panic (cs : changeset) (u : bf_update) (c : core) (w : world) (hash sg : bytes) s :
    cs_upgraded cs = true -> cs_hash cs = Some hash -> cs_signature cs = Some sg ->
    oplog_append cr (c_oplog c)
      (mkEntry (cs_nodes cs) (Some (mkTreeUpgrade (cs_fork cs) (cs_ancestors cs) (cs_length cs) sg)) (Some u))
      = Panic s ->
    log_and_commit cr cs (Some u) c w = (c, w, Panic s).
  Proof.
    intros Hup Hh Hs OA.
    unfold log_and_commit. rewrite mbind_get_core, mbind_lift.
    unfold entry_of_changeset. rewrite Hup, Hh, Hs. rewrite mbind_lift, OA. reflexivity.
  Qed.

  Lemma log_and_commit_detail (cs : changeset) (u : bf_update) (c : core) (w : world) (hash sg : bytes)
        o' off fr :
    cs_upgraded cs = true -> cs_hash cs = Some hash -> cs_signature cs = Some sg ->
    cs_orig_fork cs = t_fork (c_tree c) -> cs_orig_length cs = t_length (c_tree c) ->
    cs_ancestors cs = t_length (c_tree c) ->
    oplog_append cr (c_oplog c)
      (mkEntry (cs_nodes cs) (Some (mkTreeUpgrade (cs_fork cs) (cs_ancestors cs) (cs_length cs) sg)) (Some u))
      = Ok (o', [SW Oplog off fr]) ->
    log_and_commit cr cs (Some u) c w =
      (mkCore (c_keypair c) o'
              (mkTree (cs_roots cs) (cs_length cs) (cs_byte_length cs) (cs_fork cs) (Some sg)
                      (add_nodes (t_unflushed (c_tree c)) (cs_nodes cs)))
              (bf_apply (c_bitfield c) u)
              (set_contig (set_tree (c_header c)
                                    (mkHeaderTree (ht_fork (hd_tree (c_header c))) (cs_length cs) hash sg))
                          (update_contig (hd_contig (c_header c)) (bf_apply (c_bitfield c) u) u))
              (c_skip c),
       mkWorld (d_set (w_disk w) Oplog (f_write (d_oplog (w_disk w)) off fr))
               (SW Oplog off fr :: w_journal w) (w_events w),
       Ok tt).
  Proof.
    intros Hup Hh Hs Hof Hol Han OA.
    unfold log_and_commit. rewrite mbind_get_core, mbind_lift.
    unfold entry_of_changeset. rewrite Hup, Hh, Hs. rewrite mbind_lift, OA.
    assert (HT : tree_commit (c_tree c) cs =
                 Ok (mkTree (cs_roots cs) (cs_length cs) (cs_byte_length cs) (cs_fork cs) (cs_signature cs)
                       (add_nodes (t_unflushed (c_tree c)) (cs_nodes cs)))).
    { unfold tree_commit, commitable. rewrite Hup, Hof, Hol, Han, !N.eqb_refl. cbn [andb negb].
      rewrite N.ltb_irrefl. reflexivity. }
    rewrite Hs in HT.
    rewrite mbind_put_oplog. cbn [emit].
    unfold mbind at 1. cbn [emit apply_sop w_disk w_journal w_events d_get].
    unfold ret at 1. rewrite mbind_put_header.
    unfold mbind at 1. rewrite mbind_get_core. cbn [c_bitfield c_header].
    rewrite mbind_put_bitfield. cbn [c_keypair c_oplog c_tree c_header c_skip c_bitfield].
    unfold put_header at 1. cbn [c_keypair c_oplog c_tree c_header c_skip c_bitfield].
    rewrite mbind_get_core. cbn [c_tree]. rewrite mbind_lift, HT.
    unfold put_tree. cbn [c_keypair c_oplog c_tree c_header c_skip c_bitfield].
    reflexivity.
  Qed.

  Lemma flush_all_detail (c : core) (w : world) :
    unflushed_ok (c_tree c) ->
    (exists c' w', flush_all cr false c w = (c', w', Panic frame_msg)) \/
    exists o' ops t' tops d2 d3 jn,
      oplog_flush cr (c_oplog c) (c_header c) false = Ok (o', ops) /\
      Forall (fun o => sop_store o = Oplog) ops /\
      tree_flush (c_tree c) = Ok (t', tops) /\
      apply_sops (d_set (w_disk w) Bitfield
                        (write_pages (d_bitfield (w_disk w)) (bf_bits (c_bitfield c)) (bf_dirty (c_bitfield c))))
                 tops = Some d2 /\
      apply_sops d2 ops = Some d3 /\
      flush_all cr false c w =
        (mkCore (c_keypair c) o' t' (mkBf (bf_bits (c_bitfield c)) []) (c_header c) (c_skip c),
         mkWorld d3 jn (w_events w), Ok tt).
  Proof.
    intros Hok. unfold flush_all. rewrite mbind_get_core. unfold bf_flush. cbv iota.
    rewrite mbind_put_bitfield.
    match goal with |- context [mbind (emit ?ops) ?f ?c1 ?w1] =>
      destruct (emit_total ops c1 w1) as (d1 & A1 & E1);
        [apply Forall_forall; intros o Ho; apply in_map_iff in Ho as (p & <- & _); exact I|];
        rewrite (mbind_eq _ f _ _ _ _ _ E1)
    end.
    rewrite apply_page_writes in A1. injection A1 as <-.
    rewrite mbind_lift, (tree_flush_ok (c_tree c) Hok). cbv iota.
    rewrite mbind_put_tree.
    match goal with |- context [mbind (emit ?ops) ?f ?c1 ?w1] =>
      destruct (emit_total ops c1 w1) as (d2 & A2 & E2);
        [apply Forall_forall; intros o Ho; apply in_map_iff in Ho as (p & <- & _); exact I|];
        rewrite (mbind_eq _ f _ _ _ _ _ E2)
    end.
    rewrite mbind_get_core, mbind_lift. cbn [c_oplog c_header].
    destruct (oplog_flush_cases cr Hhash32 Hnonblank (c_oplog c) (c_header c)) as [OF|(o' & slot & hb & OF)]; rewrite OF.
    - left. do 2 eexists. reflexivity.
    - right. cbv iota. rewrite mbind_put_oplog.
      match goal with |- context [emit ?ops ?c1 ?w1] =>
        destruct (emit_total ops c1 w1) as (d3 & A3 & E3);
          [repeat constructor|]; rewrite E3
      end.
      cbn [w_disk w_journal w_events c_keypair c_oplog c_tree c_bitfield c_header c_skip] in *.
      exists o'. eexists. eexists. eexists. exists d2, d3. eexists.
      split; [reflexivity|]. split; [repeat constructor|]. split; [reflexivity|].
      split; [exact A2|]. split; [exact A3|]. reflexivity.
  Qed.
End Steps.

Section AppendDisk.
  Variable cr : crypto.
  Hypothesis Hcrc : crc_ok cr.
  Hypothesis Hhash32 : forall x, length (cr_hash cr x) = 32%nat.
  Hypothesis Hnonblank : forall x, all_zero (cr_hash cr x) = false.
  Hypothesis Hhashbytes : forall x, bytes_ok (cr_hash cr x) = true.
  Hypothesis Hsig64 : forall sk m, length (cr_sign cr sk m) = 64%nat.
  Hypothesis Hsigbytes : forall sk m, bytes_ok (cr_sign cr sk m) = true.

  (* only the skip counter differs *)
  Lemma DInv_skip c d bs s :
    DInv cr c d bs ->
    DInv cr (mkCore (c_keypair c) (c_oplog c) (c_tree c) (c_bitfield c) (c_header c) s) d bs.
  Proof.
    intros (W & D). split; [|exact D].
    apply (WInv_ext cr c _ d d bs); try reflexivity. exact W.
  Qed.

  Lemma flush_all_DInv c d j ev bs c' w' r :
    DInv cr c d bs ->
    flush_all cr false c (mkWorld d j ev) = (c', w', r) ->
    r = Panic frame_msg \/ (r = Ok tt /\ DInv cr c' (w_disk w') bs /\ c_keypair c' = c_keypair c).
  Proof.
    intros (W & s0 & s1 & body & st0 & st1 & hf & l & kf & Hcont & G & Hlen & Hbytes & Hhf & Hhc & Hch &
            Hstore & Hbfd & Hdirty) H.
    pose proof W as (HL & HB & HF & HR & Hlook & Hun & Hbf & Hcg & Hd & Hs & Hn).
    set (n := N.of_nat (length bs)) in *.
    destruct (flush_all_preserves cr Hhash32 Hnonblank c d j ev bs c' w' r W H) as [->|(-> & W' & K')];
      [left; reflexivity|]. right. split; [reflexivity|]. split; [|exact K'].
    destruct (flush_all_detail cr Hhash32 Hnonblank c (mkWorld d j ev) Hun)
      as [(c1 & w1 & E)|(o' & ops & t' & tops & d2 & d3 & jn & OF & Hops & TF & A2 & A3 & E)];
      rewrite E in H; [discriminate H|]. injection H as <- <-.
    cbn [w_disk] in *.
    split; [exact W'|].
    cbn [c_oplog c_keypair c_header c_bitfield c_tree] in *.
    destruct Hhc as (Hok & Hkp & Hfk & Hln & Hcgc & Hrh & Hsg).
    assert (Hfits : hdr_fits false (c_header c)).
    { apply hdr_fits_real; [exact Hok|exact Hrh|]. destruct Hsg as [->|Hsg]; unfold len; [cbn; lia|rewrite Hsg; lia]. }
    destruct (flush_crash cr Hcrc s0 s1 body st0 st1 _ hf l (c_header c) (c_oplog c) o' ops G Hok Hfits eq_refl OF)
      as (wr & s0' & s1' & st0' & st1' & Eops & _ & C1 & _ & C2 & G' & _ & Eo').
    (* the other stores during the flush *)
    set (d1 := d_set d Bitfield (write_pages (d_bitfield d) (bf_bits (c_bitfield c)) (bf_dirty (c_bitfield c)))) in *.
    destruct (tree_flush_other_stores (c_tree c) t' tops d1 d2 TF A2 Hun) as (_ & B2 & O2 & _).
    assert (O1 : d_oplog d1 = d_oplog d) by (destruct d; reflexivity).
    assert (B1 : d_bitfield d1 = write_pages (d_bitfield d) (bf_bits (c_bitfield c)) (bf_dirty (c_bitfield c)))
      by (destruct d; reflexivity).
    assert (S3 : forall s, s <> Oplog -> d_get d3 s = d_get d2 s).
    { intros s Hs'. apply (apply_sops_other _ _ _ _ A3). intros o Ho Heq.
      rewrite Forall_forall in Hops. rewrite (Hops o Ho) in Heq. apply Hs'. symmetry. exact Heq. }
    assert (Hcont' : f_content (d_oplog d3) = s0' ++ s1' ++ []).
    { apply (c_apply_all_sound ops d2 d3 _ Hops A3). rewrite O2, O1, Hcont, Eops.
      cbn [c_apply_all]. rewrite C1, C2. reflexivity. }
    rewrite (tree_flush_ok (c_tree c) Hun) in TF. injection TF as <- <-.
    exists s0', s1', [], st0', st1', (c_header c), [], n.
    split; [exact Hcont'|]. split; [exact G'|].
    split; [rewrite Eo'; reflexivity|]. split; [rewrite Eo'; reflexivity|].
    split; [repeat split; assumption|]. split; [repeat split; assumption|].
    split; [reflexivity|].
    split.
    { pose proof W' as (_ & _ & _ & _ & Hlook' & _). cbn [c_tree] in Hlook'.
      intros dd o Hfull. rewrite <- (Hlook' dd o Hfull). apply required_node_same_unflushed. reflexivity. }
    split.
    { change (d_bitfield d3) with (d_get d3 Bitfield). rewrite (S3 Bitfield) by discriminate.
      change (d_get d2 Bitfield) with (d_bitfield d2). rewrite B2, B1.
      apply (BfDisk_flush _ kf (c_bitfield c) n Hbfd); [|exact Hbf|exact Hdirty].
      apply (echain_le cr bs l kf n Hch). }
    intros i H1 H2. lia.
  Qed.

  Lemma maybe_flush_DInv f c d j ev bs c' w' r :
    DInv cr c d bs ->
    maybe_flush cr f c (mkWorld d j ev) = (c', w', r) ->
    r = Panic frame_msg \/ (r = Ok tt /\ DInv cr c' (w_disk w') bs /\ c_keypair c' = c_keypair c).
  Proof.
    intros D. unfold maybe_flush. rewrite mbind_get_core.
    match goal with |- (if ?b then _ else _) _ _ = _ -> _ => destruct b end.
    - rewrite mbind_put_skip. intros H.
      apply (flush_all_DInv _ d j ev bs) in H; [exact H|]. apply DInv_skip, D.
    - intros H. unfold put_skip in H. injection H as <- <- <-. right.
      split; [reflexivity|]. split; [|reflexivity]. cbn [w_disk]. apply DInv_skip, D.
  Qed.

  Lemma append_body_DInv f batch c d j ev bs sk c' w' r :
    DInv cr c d bs -> batch <> [] ->
    sumN (map len (bs ++ batch)) <= u64_max ->
    NODE_SIZE * (2 * N.of_nat (length (bs ++ batch))) <= u64_max ->
    append_body cr f batch sk c c (mkWorld d j ev) = (c', w', r) ->
    r = Panic frame_msg \/
    (r = Ok tt /\ DInv cr c' (w_disk w') (bs ++ batch) /\ c_keypair c' = c_keypair c).
  Proof.
    intros D Hne Hfit Hidx H.
    pose proof D as (W & s0 & s1 & body & st0 & st1 & hf & l & kf & Hcont & G & Hlen & Hbytes & Hhf & Hhc & Hch &
                     Hstore & Hbfd & Hdirty).
    pose proof W as (HL & HB & HF & HR & Hlook & Hun & Hbf & Hcg & Hd & Hs & Hn).
    set (B := bs ++ batch) in *. set (n := N.of_nat (length bs)) in *.
    set (k := N.of_nat (length batch)).
    assert (Hk : 0 < k) by (destruct batch; [congruence|unfold k; cbn [length]; lia]).
    assert (HlenB : N.of_nat (length B) = n + k) by (unfold B, n, k; rewrite app_length; lia).
    assert (HsumB : sumN (map len B) = sumN (map len bs) + sumN (map len batch))
      by (unfold B; rewrite map_app; apply TreeRef.sumN_app).
    set (cs0 := tree_changeset (c_tree c)) in *.
    assert (R0 : cs_roots cs0 = ref_roots cr B n).
    { unfold cs0, B. cbn [tree_changeset cs_roots]. rewrite HR. symmetry. apply ref_roots_app. unfold n. lia. }
    assert (L0 : cs_length cs0 = n) by exact HL.
    assert (Hblk : forall i, (i < length batch)%nat -> nth i batch [] = blk B (n + N.of_nat i))
      by (intros i Hi; apply batch_blk, Hi).
    destruct (cs_append_all_no_panic cr B Hfit batch cs0 n R0 L0 Hblk) as [cs1 Hcs].
    { unfold cs0. cbn [tree_changeset cs_byte_length]. rewrite HB. lia. }
    destruct (cs_append_all_ref cr B batch cs0 cs1 n R0 L0 Hblk Hcs)
      as (R1 & L1 & B1 & BL1 & A1 & F1 & U1 & Sound1).
    destruct (cs_append_all_complete cr B batch cs0 cs1 n R0 L0 Hblk Hcs) as (_ & OL1 & OF1 & Compl1).
    assert (Hn64 : n + k <= 2 ^ 64).
    { rewrite HlenB in Hidx. unfold NODE_SIZE, u64_max in Hidx. change (2 ^ 64) with 18446744073709551616. lia. }
    destruct (cs_append_all_shape cr B batch cs0 cs1 n R0 L0 Hblk Hn64 Hcs) as (new & Enew & Lnew & Shape1).
    unfold cs0 in B1, BL1, A1, F1, OL1, OF1, Sound1, Enew.
    cbn [tree_changeset cs_byte_length cs_batch_length cs_ancestors cs_fork cs_orig_length cs_orig_fork cs_nodes
         cs_rnodes rev_append] in B1, BL1, A1, F1, OL1, OF1, Sound1, Enew.
    rewrite app_nil_r in Enew.
    assert (Sound : forall x, In x (cs_nodes cs1) -> x = ref_at cr B (n_index x)).
    { intros x Hx. destruct (Sound1 x Hx) as [[]|E]. exact E. }
    assert (Shape : forall x, In x (cs_nodes cs1) -> exists jj q, x = ref_node cr B jj q /\ (q + 1) * p2 jj <= n + k).
    { intros x Hx. apply in_cs_nodes in Hx. rewrite Enew in Hx.
      destruct (Shape1 x Hx) as (jj & q & -> & _ & Q2). exists jj, q. split; [reflexivity|exact Q2]. }
    unfold append_body in H. rewrite mbind_lift in H. fold cs0 in H. rewrite Hcs in H. cbv zeta in H.
    rewrite mbind_emit_SW in H. cbn [w_disk w_journal w_events d_get] in H.
    set (cs := cs_hash_and_sign cr cs1 sk) in *.
    set (bu := mkBfUpdate false (cs_ancestors cs) (cs_batch_length cs)) in *.
    assert (Hbu : bu = mkBfUpdate false n k).
    { unfold bu, cs, cs_hash_and_sign, cs_set_hash_sig. cbn [cs_ancestors cs_batch_length].
      rewrite A1, BL1, HL. f_equal; lia. }
    assert (P1 : cs_upgraded cs = true).
    { unfold cs, cs_hash_and_sign, cs_set_hash_sig. cbn [cs_upgraded]. apply U1, Hne. }
    assert (P5 : cs_orig_fork cs = t_fork (c_tree c)).
    { unfold cs, cs_hash_and_sign, cs_set_hash_sig. cbn [cs_orig_fork]. exact OF1. }
    assert (P6 : cs_orig_length cs = t_length (c_tree c)).
    { unfold cs, cs_hash_and_sign, cs_set_hash_sig. cbn [cs_orig_length]. exact OL1. }
    assert (P7 : cs_ancestors cs = t_length (c_tree c)).
    { unfold cs, cs_hash_and_sign, cs_set_hash_sig. cbn [cs_ancestors]. exact A1. }
    set (hash := cs_tree_hash cr cs1) in *.
    set (sg := cr_sign cr sk (cs_signable cs1 hash)) in *.
    assert (Ecs : cs_nodes cs = cs_nodes cs1 /\ cs_fork cs = 0 /\ cs_length cs = n + k /\
                  cs_roots cs = ref_roots cr B (n + k) /\ cs_byte_length cs = sumN (map len B) /\
                  cs_hash cs = Some hash /\ cs_signature cs = Some sg).
    { unfold cs, cs_hash_and_sign, cs_set_hash_sig.
      cbn [cs_nodes cs_rnodes cs_fork cs_length cs_roots cs_byte_length cs_hash cs_signature].
      fold (cs_nodes cs1). rewrite F1, HF, L1, R1, B1, HB, HsumB. repeat split; reflexivity. }
    destruct Ecs as (EN & EF & EL & ER & EB & EH & ES).
    set (e := mkEntry (cs_nodes cs) (Some (mkTreeUpgrade (cs_fork cs) (cs_ancestors cs) (cs_length cs) sg)) (Some bu)).
    assert (Ee : e = mkEntry (cs_nodes cs1) (Some (mkTreeUpgrade 0 n (n + k) sg)) (Some (mkBfUpdate false n (n + k - n)))).
    { unfold e. rewrite EN, EF, EL, P7, HL, Hbu. replace (n + k - n) with k by lia. reflexivity. }
    assert (Heok : entry_ok e = true).
    { rewrite Ee. apply (append_entry_ok cr Hhash32 Hhashbytes B); try assumption.
      - rewrite <- HlenB. exact Hidx.
      - lia.
      - rewrite length_cs_nodes, Enew. replace (n + k - n) with k by lia. unfold k. lia.
      - apply Hsig64.
      - apply Hsigbytes. }
    assert (P4 : forall x, In x (e_nodes e) -> length (n_hash x) = 32%nat).
    { intros x Hx. unfold e in Hx. cbn [e_nodes] in Hx. rewrite EN in Hx. rewrite (Sound x Hx).
      apply ref_at_hash_length, Hhash32. }
    destruct (oplog_append_cases cr (c_oplog c) e P4) as [OA|(o' & fr & OA)].
    { match type of H with
      | mbind (log_and_commit _ _ _) _ ?c0 ?w0 = _ =>
          pose proof (log_and_commit_panic cr cs bu c0 w0 hash sg frame_msg P1 EH ES OA) as E
      end.
      rewrite (mbind_panic _ _ _ _ _ _ _ E) in H. injection H as <- <- <-. left. reflexivity. }
    match type of H with
    | mbind (log_and_commit _ _ _) _ ?c0 ?w0 = _ =>
        pose proof (log_and_commit_detail cr cs bu c0 w0 hash sg o' _ fr P1 EH ES P5 P6 P7 OA) as E
    end.
    rewrite (mbind_eq _ _ _ _ _ _ _ E) in H. clear E.
    cbn [w_disk w_journal w_events] in H.
    rewrite EN, EF, EL, ER, EB in H.
    (* the oplog file after the append *)
    assert (Eol : c_oplog c = oo_oplog (stable_result (ol_bits (c_oplog c)) hf l)).
    { cbn [stable_result oo_oplog]. destruct (c_oplog c) as [bits el eb]. cbn [ol_bits ol_entries_len ol_entries_bytes] in *.
      rewrite Hlen, Hbytes. reflexivity. }
    rewrite Eol in OA.
    destruct (append_crash cr Hcrc s0 s1 body st0 st1 _ hf l e o' _ G Heok OA)
      as (fr' & Eops & _ & Cw & G' & _ & Eo' & _).
    injection Eops as Eoff <-. cbn [stable_result oo_oplog ol_entries_bytes] in Eoff.
    (* the state after the commit satisfies the invariant for the longer list *)
    match type of H with
    | mbind (maybe_flush _ _) _ ?c2 (mkWorld ?d2 ?j2 ?ev2) = _ =>
        assert (D2 : DInv cr c2 d2 B); [|set (c2' := c2) in *; set (d2' := d2) in *]
    end.
    { set (dd := d_set d Data (f_write (d_data d) (t_byte_length (c_tree c)) (concat batch))).
      set (off := ENTRIES_OFFSET + ol_entries_bytes (c_oplog c)) in *.
      assert (Tsame : d_tree (d_set dd Oplog (f_write (d_oplog dd) off fr)) = d_tree d) by (destruct d; reflexivity).
      assert (Dsame : d_data (d_set dd Oplog (f_write (d_oplog dd) off fr))
                      = f_write (d_data d) (t_byte_length (c_tree c)) (concat batch)) by (destruct d; reflexivity).
      assert (Bsame : d_bitfield (d_set dd Oplog (f_write (d_oplog dd) off fr)) = d_bitfield d) by (destruct d; reflexivity).
      assert (Osame : d_oplog (d_set dd Oplog (f_write (d_oplog dd) off fr)) = f_write (d_oplog d) off fr)
        by (destruct d; reflexivity).
      destruct (contig_after (c_bitfield c) n k Hbf Hk) as [G1 G2].
      split.
      { unfold WInv. cbn [c_tree c_bitfield c_header t_length t_byte_length t_fork t_roots].
        rewrite Tsame, Dsame.
        split; [symmetry; exact HlenB|].
        split; [reflexivity|].
        split; [reflexivity|].
        split; [rewrite HlenB; reflexivity|].
        split.
        { apply (commit_lookups cr Hnonblank bs batch (c_tree c) _ (d_tree d) (cs_nodes cs1)).
          - exact Sound.
          - intros jj q Q1 Q2. apply Compl1; [exact Q1|]. fold B in Q2. rewrite HlenB in Q2. exact Q2.
          - reflexivity.
          - exact Hlook. }
        split.
        { apply (commit_unflushed_ok cr Hhash32 B (c_tree c) _ (cs_nodes cs1) Hfit Sound); [reflexivity|exact Hun]. }
        split; [intros i; rewrite Hbu, HlenB; apply G1|].
        split; [cbn [set_contig hd_contig]; rewrite Hcg, Hbu, HlenB; exact G2|].
        split.
        { assert (t_byte_length (c_tree c) = f_len (d_data d)) as ->.
          { rewrite HB, <- f_len_content, Hd. symmetry. apply len_concat. }
          rewrite f_content_write_append, Hd. unfold B. symmetry. apply concat_app. }
        split; [exact Hfit|exact Hidx]. }
      cbn [c_oplog c_keypair c_header c_bitfield c_tree].
      rewrite Tsame, Bsame, Osame, HlenB.
      destruct Hhc as (Hok & Hkp & Hfk & Hln & Hcgc & Hrh & Hsgc).
      exists s0, s1, (body ++ fr), st0, st1, hf, (l ++ [e]), kf.
      split.
      { rewrite f_content_write, Hcont. unfold off. rewrite Hbytes, Eoff. exact Cw. }
      split; [rewrite Eo'; exact G'|].
      split; [rewrite Eo'; reflexivity|]. split; [rewrite Eo'; reflexivity|].
      split; [exact Hhf|].
      split.
      { apply (hdr_desc_upd (c_keypair c) (c_header c) n _ (n + k) hash sg); try reflexivity.
        - repeat split; assumption.
        - cbn [set_contig set_tree hd_tree]. rewrite Hfk. reflexivity.
        - cbn [set_contig hd_contig]. rewrite Hcg, Hbu. exact G2.
        - rewrite <- HlenB. unfold NODE_SIZE in Hidx. lia.
        - apply Hhash32.
        - apply Hhashbytes.
        - apply Hsig64.
        - apply Hsigbytes. }
      split.
      { apply (echain_snoc cr B l kf n e (n + k)).
        - apply echain_app; [apply N.le_refl|exact Hch].
        - rewrite Ee. split; [lia|]. split.
          { exists sg. split; [reflexivity|]. split; [apply Hsig64|apply Hsigbytes]. }
          split; [reflexivity|]. cbn [e_nodes]. split; [exact Shape|].
          intros jj q Q1 Q2. apply Compl1; assumption. }
      split.
      { intros dd0 o Hfull. rewrite (Hstore dd0 o Hfull). f_equal. symmetry. apply ref_node_app.
        pose proof (echain_le cr bs l kf n Hch). fold n. lia. }
      split; [exact Hbfd|].
      intros i Hi1 Hi2. rewrite Hbu. unfold bf_apply. cbn [bu_start bu_length bu_drop negb].
      destruct (N.lt_ge_cases i n) as [Lt|Ge].
      - apply bf_dirty_set_range_mono. apply Hdirty; assumption.
      - apply bf_dirty_set_range_sound.
        change (bf_set_range (c_bitfield c) n k true) with (bf_apply (c_bitfield c) (mkBfUpdate false n k)).
        rewrite G1, Hbf.
        destruct (N.ltb_spec i (n + k)), (N.ltb_spec i n); try lia; discriminate. }
    mstep H.
    - apply (maybe_flush_DInv f c2' d2' _ _ B) in Hm; [|exact D2].
      destruct Hm as [Hm|(_ & D3 & K3)]; [discriminate Hm|].
      rewrite mbind_send in H. unfold send in H. injection H as <- <- <-.
      right. split; [reflexivity|]. cbn [w_disk]. split; [exact D3|]. rewrite K3. reflexivity.
    - apply (maybe_flush_DInv f c2' d2' _ _ B) in Hm; [|exact D2].
      destruct Hm as [Hm|(Hm & _)]; discriminate Hm.
    - apply (maybe_flush_DInv f c2' d2' _ _ B) in Hm; [|exact D2].
      destruct Hm as [Hm|(Hm & _)]; [|discriminate Hm]. left. exact Hm.
    - apply (maybe_flush_DInv f c2' d2' _ _ B) in Hm; [|exact D2].
      destruct Hm as [Hm|(Hm & _)]; discriminate Hm.
  Qed.

  Theorem append_DInv f batch c d j ev bs sk c' w' r :
    DInv cr c d bs -> kp_secret (c_keypair c) = Some sk ->
    sumN (map len (bs ++ batch)) <= u64_max ->
    NODE_SIZE * (2 * N.of_nat (length (bs ++ batch))) <= u64_max ->
    core_append cr f batch c (mkWorld d j ev) = (c', w', r) ->
    r = Panic frame_msg \/
    (r = Ok (N.of_nat (length (bs ++ batch)), sumN (map len (bs ++ batch))) /\
     DInv cr c' (w_disk w') (bs ++ batch) /\ c_keypair c' = c_keypair c).
  Proof.
    intros D Hsk Hfit Hidx H.
    unfold core_append in H. rewrite mbind_get_core, Hsk in H.
    destruct batch as [|b0 rest].
    - rewrite mbind_ret, mbind_get_core in H. unfold ret in H. injection H as <- <- <-.
      right. rewrite app_nil_r. pose proof (DInv_WInv cr c d bs D) as (HL & HB & _). rewrite HL, HB.
      split; [reflexivity|]. split; [|reflexivity]. cbn [w_disk]. exact D.
    - cbv iota in H. fold (append_body cr f (b0 :: rest) sk c) in H.
      mstep H.
      + apply (append_body_DInv f (b0 :: rest) c d j ev bs sk) in Hm; try assumption; [|discriminate].
        destruct Hm as [Hm|(_ & D1 & K1)]; [discriminate Hm|].
        rewrite mbind_get_core in H. unfold ret in H. injection H as <- <- <-.
        right. pose proof (DInv_WInv cr _ _ _ D1) as (HL & HB & _). rewrite HL, HB. auto.
      + apply (append_body_DInv f (b0 :: rest) c d j ev bs sk) in Hm; try assumption; [|discriminate].
        destruct Hm as [Hm|(Hm & _)]; discriminate Hm.
      + apply (append_body_DInv f (b0 :: rest) c d j ev bs sk) in Hm; try assumption; [|discriminate].
        destruct Hm as [Hm|(Hm & _)]; [|discriminate Hm]. left. injection Hm as ->. reflexivity.
      + apply (append_body_DInv f (b0 :: rest) c d j ev bs sk) in Hm; try assumption; [|discriminate].
        destruct Hm as [Hm|(Hm & _)]; discriminate Hm.
  Qed.
End AppendDisk.

(* ====================================================================================== *)
(* G. Histories with reopen                                                                *)
(* ====================================================================================== *)

Inductive rop :=
| RAppend (f : option bool) (batch : list bytes)   (* f: the forced flush decision *)
| RGet (i : N)
| RHas (i : N)
| RInfo
| RReopen.                                          (* drop the writer, open the same storage again *)

Inductive robs :=
| ROAppend (r : res (N * N))
| ROGet (r : res (option bytes))
| ROHas (b : bool)
| ROInfo (i : info)
| ROReopen (r : res unit).

(* the list model: reopening is the identity *)
Fixpoint rspec_obs (ops : list rop) (bs : list bytes) : list robs :=
  match ops with
  | [] => []
  | RAppend _ batch :: rest =>
      ROAppend (Ok (N.of_nat (length (bs ++ batch)), sumN (map len (bs ++ batch)))) :: rspec_obs rest (bs ++ batch)
  | RGet i :: rest =>
      ROGet (Ok (if i <? N.of_nat (length bs) then Some (nth (N.to_nat i) bs []) else None)) :: rspec_obs rest bs
  | RHas i :: rest => ROHas (i <? N.of_nat (length bs)) :: rspec_obs rest bs
  | RInfo :: rest =>
      ROInfo (mkInfo (N.of_nat (length bs)) (sumN (map len bs)) (N.of_nat (length bs)) 0 true) :: rspec_obs rest bs
  | RReopen :: rest => ROReopen (Ok tt) :: rspec_obs rest bs
  end.

Fixpoint rappended (ops : list rop) : list bytes :=
  match ops with
  | [] => []
  | RAppend _ batch :: rest => batch ++ rappended rest
  | _ :: rest => rappended rest
  end.

Definition res_unit {A} (r : res A) : res unit :=
  match r with Ok _ => Ok tt | Err e => Err e | Panic s => Panic s | OutOfFuel => OutOfFuel end.

Section HistoryReopen.
  Variable cr : crypto.
  Hypothesis Hcrc : crc_ok cr.
  Hypothesis Hhash32 : forall x, length (cr_hash cr x) = 32%nat.
  Hypothesis Hnonblank : forall x, all_zero (cr_hash cr x) = false.
  Hypothesis Hhashbytes : forall x, bytes_ok (cr_hash cr x) = true.
  Hypothesis Hsig64 : forall sk m, length (cr_sign cr sk m) = 64%nat.
  Hypothesis Hsigbytes : forall sk m, bytes_ok (cr_sign cr sk m) = true.

  (* the model; a history stops after an append or a reopen that does not return a value.
     Reopen: the in-memory core is discarded, core_open (open mode, no key pair) runs on the disk. *)
  Fixpoint rrun_obs (ops : list rop) (c : core) (w : world) : list robs :=
    match ops with
    | [] => []
    | RAppend f batch :: rest =>
        let '(c', w', r) := core_append cr f batch c w in
        ROAppend r :: (match r with Ok _ => rrun_obs rest c' w' | _ => [] end)
    | RGet i :: rest =>
        let '(c', w', r) := core_get i c w in ROGet r :: rrun_obs rest c' w'
    | RHas i :: rest => ROHas (core_has c i) :: rrun_obs rest c w
    | RInfo :: rest => ROInfo (core_info c) :: rrun_obs rest c w
    | RReopen :: rest =>
        let '(d', sops, r) := core_open cr None true (w_disk w) in
        ROReopen (res_unit r) ::
        (match r with
         | Ok c' => rrun_obs rest c' (mkWorld d' (rev sops ++ w_journal w) (w_events w))
         | _ => []
         end)
    end.

  Theorem history_with_reopen_correct (ops : list rop) : forall c d j ev bs sk,
    DInv cr c d bs -> kp_secret (c_keypair c) = Some sk ->
    sumN (map len (bs ++ rappended ops)) <= u64_max ->
    NODE_SIZE * (2 * N.of_nat (length (bs ++ rappended ops))) <= u64_max ->
    rrun_obs ops c (mkWorld d j ev) = rspec_obs ops bs \/
    exists k, rrun_obs ops c (mkWorld d j ev) = firstn k (rspec_obs ops bs) ++ [ROAppend (Panic frame_msg)].
  Proof.
    induction ops as [|op ops IH]; intros c d j ev bs sk D Hsk Hfit Hidx.
    - left. reflexivity.
    - pose proof (DInv_WInv cr c d bs D) as W.
      destruct op as [f batch|i|i| |]; cbn [rrun_obs rspec_obs rappended] in *.
      + destruct (core_append cr f batch c (mkWorld d j ev)) as [[c' w'] r] eqn:E.
        rewrite app_assoc in Hfit, Hidx.
        assert (Hfit1 : sumN (map len (bs ++ batch)) <= u64_max).
        { rewrite map_app, TreeRef.sumN_app in Hfit. lia. }
        assert (Hidx1 : NODE_SIZE * (2 * N.of_nat (length (bs ++ batch))) <= u64_max).
        { rewrite (app_length (bs ++ batch)) in Hidx. unfold NODE_SIZE in *. lia. }
        destruct (append_DInv cr Hcrc Hhash32 Hnonblank Hhashbytes Hsig64 Hsigbytes
                              f batch c d j ev bs sk c' w' r D Hsk Hfit1 Hidx1 E)
          as [->|(-> & D' & K')].
        * right. exists 0%nat. reflexivity.
        * destruct w' as [d' j' ev']. cbn [w_disk] in D'. rewrite <- K' in Hsk.
          destruct (IH c' d' j' ev' (bs ++ batch) sk D' Hsk Hfit Hidx) as [->|[k ->]].
          -- left. reflexivity.
          -- right. exists (S k). reflexivity.
      + rewrite (get_correct cr c d bs j ev i W).
        destruct (i <? N.of_nat (length bs)).
        * destruct (IH c d j ev bs sk D Hsk Hfit Hidx) as [->|[k ->]];
            [left; reflexivity|right; exists (S k); reflexivity].
        * destruct (IH c d j (EvGet i :: ev) bs sk D Hsk Hfit Hidx) as [->|[k ->]];
            [left; reflexivity|right; exists (S k); reflexivity].
      + rewrite (has_correct cr c d bs i W).
        destruct (IH c d j ev bs sk D Hsk Hfit Hidx) as [->|[k ->]];
          [left; reflexivity|right; exists (S k); reflexivity].
      + rewrite (info_correct cr c d bs W), Hsk.
        destruct (IH c d j ev bs sk D Hsk Hfit Hidx) as [->|[k ->]];
          [left; reflexivity|right; exists (S k); reflexivity].
      + destruct (reopen_correct cr Hcrc Hhash32 Hnonblank Hhashbytes c d bs D) as (c' & E & D' & K' & _).
        cbn [w_disk w_journal w_events]. rewrite E. cbn [res_unit rev app]. rewrite <- K' in Hsk.
        destruct (IH c' d j ev bs sk D' Hsk Hfit Hidx) as [->|[k ->]];
          [left; reflexivity|right; exists (S k); reflexivity].
  Qed.

  (* from creation *)
  Theorem fresh_history_with_reopen_correct kp sk ops :
    keypair_ok kp = true -> kp_secret kp = Some sk ->
    sumN (map len (rappended ops)) <= u64_max ->
    NODE_SIZE * (2 * N.of_nat (length (rappended ops))) <= u64_max ->
    exists d0 ops0 c0,
      core_open cr (Some kp) false disk_empty = (d0, ops0, Ok c0) /\
      (rrun_obs ops c0 (mkWorld d0 [] []) = rspec_obs ops [] \/
       exists k, rrun_obs ops c0 (mkWorld d0 [] []) =
                 firstn k (rspec_obs ops []) ++ [ROAppend (Panic frame_msg)]).
  Proof.
    intros Hkp Hsk Hfit Hidx.
    destruct (DInv_init cr Hcrc Hhash32 Hnonblank Hhashbytes kp Hkp) as (d0 & ops0 & c0 & Ho & D & K).
    exists d0, ops0, c0. split; [exact Ho|].
    apply (history_with_reopen_correct ops c0 d0 [] [] [] sk D); [rewrite K; exact Hsk|exact Hfit|exact Hidx].
  Qed.

  (* when no append hits the 30-bit frame guard, every observation is the list model's *)
  Corollary fresh_history_with_reopen_no_frame_panic kp sk ops :
    keypair_ok kp = true -> kp_secret kp = Some sk ->
    sumN (map len (rappended ops)) <= u64_max ->
    NODE_SIZE * (2 * N.of_nat (length (rappended ops))) <= u64_max ->
    exists d0 ops0 c0,
      core_open cr (Some kp) false disk_empty = (d0, ops0, Ok c0) /\
      (~ In (ROAppend (Panic frame_msg)) (rrun_obs ops c0 (mkWorld d0 [] [])) ->
       rrun_obs ops c0 (mkWorld d0 [] []) = rspec_obs ops []).
  Proof.
    intros Hkp Hsk Hfit Hidx.
    destruct (fresh_history_with_reopen_correct kp sk ops Hkp Hsk Hfit Hidx) as (d0 & ops0 & c0 & Ho & [E|[k E]]);
      exists d0, ops0, c0; (split; [exact Ho|]); intros Hno; [exact E|].
    exfalso. apply Hno. rewrite E. apply in_or_app. right. left. reflexivity.
  Qed.
End HistoryReopen.

(* ====================================================================================== *)
(* H. Non-vacuity                                                                          *)
(* ====================================================================================== *)

Lemma toy_crc_ok' : crc_ok toy_cr.
Proof. intros b. reflexivity. Qed.
Lemma toy_hashbytes : forall x, bytes_ok (cr_hash toy_cr x) = true.
Proof. reflexivity. Qed.
Lemma toy_sig64 : forall sk m, length (cr_sign toy_cr sk m) = 64%nat.
Proof. reflexivity. Qed.
Lemma toy_sigbytes : forall sk m, bytes_ok (cr_sign toy_cr sk m) = true.
Proof. reflexivity. Qed.

Definition toy_rops : list rop :=
  [RAppend (Some false) [[1; 2; 3]; []; [4]]; RAppend (Some false) [[5; 6]]; RReopen;
   RGet 0; RGet 1; RGet 2; RGet 3; RGet 4; RInfo; RHas 3; RHas 4;
   RAppend None [[7]]; RReopen; RGet 4; RInfo;
   RAppend (Some true) [[8]; [9; 10]]; RReopen; RReopen; RGet 6; RGet 5; RHas 6; RHas 7; RInfo;
   RAppend (Some false) [[11]]; RGet 7].

Example toy_history_with_reopen :
  keypair_ok toy_keypair = true /\
  match core_open toy_cr (Some toy_keypair) false disk_empty with
  | (d0, _, Ok c0) => rrun_obs toy_cr toy_rops c0 (mkWorld d0 [] []) = rspec_obs toy_rops []
  | _ => False
  end.
Proof. split; vm_compute; reflexivity. Qed.

(* the instance of the theorem for the toy crypto *)
Example toy_instance ops sk :
  kp_secret toy_keypair = Some sk ->
  sumN (map len (rappended ops)) <= u64_max ->
  NODE_SIZE * (2 * N.of_nat (length (rappended ops))) <= u64_max ->
  exists d0 ops0 c0,
    core_open toy_cr (Some toy_keypair) false disk_empty = (d0, ops0, Ok c0) /\
    (rrun_obs toy_cr ops c0 (mkWorld d0 [] []) = rspec_obs ops [] \/
     exists k, rrun_obs toy_cr ops c0 (mkWorld d0 [] []) =
               firstn k (rspec_obs ops []) ++ [ROAppend (Panic frame_msg)]).
Proof.
  apply (fresh_history_with_reopen_correct toy_cr toy_crc_ok' toy_hash32 toy_nonblank toy_hashbytes
           toy_sig64 toy_sigbytes toy_keypair sk ops). reflexivity.
Qed.

Print Assumptions merge_shape.
Print Assumptions cs_append_all_shape.
Print Assumptions tree_open_ref.
Print Assumptions truncate_roots_ref.
Print Assumptions tree_truncate_ref.
Print Assumptions replay_entry_ok.
Print Assumptions replay_entries_ok.
Print Assumptions bf_open_get.
Print Assumptions BfDisk_flush.
Print Assumptions DInv_init.
Print Assumptions reopen_correct.
Print Assumptions reopen_observations.
Print Assumptions append_entry_ok.
Print Assumptions flush_all_DInv.
Print Assumptions maybe_flush_DInv.
Print Assumptions append_body_DInv.
Print Assumptions append_DInv.
Print Assumptions history_with_reopen_correct.
Print Assumptions fresh_history_with_reopen_correct.
Print Assumptions fresh_history_with_reopen_no_frame_panic.
Print Assumptions toy_history_with_reopen.
Print Assumptions toy_instance.

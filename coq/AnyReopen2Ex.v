(* AnyReopen2Ex.v -- non-vacuity of AnyReopen2.v on the toy instance sc_cr of SoundCore.v (writer: six blocks
   [1;2;3] [] [4] [5;6;7;8] [9;10] [11]; replica created from the public key alone and synced by the writer's upgrade
   proof: length 6, byte length 11, roots flat 3 (size 8) and flat 9 (size 3)), and three observations about what
   stored sizes chosen by a peer do to the UNCHECKED u64 sums of the crate (the model computes in N and does not
   flag them):
   1. a history with two reopens after a one-node hash section that overwrites the stored size of root 3: the
      history theorem, the creation theorem and the apply theorem of AnyReopen2.v apply; info after it: (6, 103);
   2. apply_after_hostile_reopen_panics_refuted: the side condition announced_sizes_fit_any of C09_apply_any_returns
      speaks about the byte length in memory.  Before any reopen that is the writer's byte length; after a reopen it
      is a sum of sizes a peer stored.  With the writer's byte length in its place the statement is FALSE: after
      [rogue root size 2^64 - 4; reopen] an upgrade section with ONE node of size 1 (all fields tiny) makes
      core_apply_proof return Panic "byte_length += node.length" -- not the frame guard;
   3. offset_sum_exceeds_u64_observed, reopen_byte_length_exceeds_u64_observed: the model's byte offset of a held
      block, resp. the byte length computed by open, exceed 2^64 - 1: the crate's `offset += node.length`
      (merkle_tree.rs, byte_offset_from_nodes) resp. `byte_length += node.length` (MerkleTree::open) are plain u64
      additions on these operands. *)
From HC Require Import Base NMap Codec CodecFacts Crypto FlatTree Storage Bitfield Oplog Merkle Core.
From HC Require Import FlatTreeFacts StorageFacts BitfieldFacts OplogFacts TreeRef OffsetFacts CoreFacts Crash Refine.
From HC Require Import ClearRefine Reopen ContigBridge Unified1 Unified2 CrashCore1 CrashCore2 CrashClear1.
From HC Require Import Sound NoPanic Replicate SoundCoreLib SoundCore SoundCoreUp SoundCoreBU NoPanic2
                       EventsAvail CacheModel CacheOps ReplicaCor ReplicaCorA.
From HC Require Import ReplicaDisk1 ReplicaDisk2 ReplicaDisk3 ReplicaDisk6 ReplicaDisk7
                       AnyProofLib AnyProofUp AnyProof AnyProofEx AnyProofCorLib
                       AnyReopenA AnyReopenB AnyReopenC AnyReopenD AnyReopen1 AnyReopen1Ex AnyReopen2.
From Coq Require Import FMapPositive ZifyN ZifyNat ZifyBool.
Ltac Zify.zify_post_hook ::= Z.div_mod_to_equations.
Arguments N.add : simpl never.
Arguments N.sub : simpl never.
Arguments N.mul : simpl never.
Arguments N.div : simpl never.
Arguments N.modulo : simpl never.
Arguments N.pow : simpl never.
Arguments N.eqb : simpl never.
Arguments N.ltb : simpl never.
Arguments N.leb : simpl never.
Arguments N.of_nat : simpl never.
Arguments N.to_nat : simpl never.

(* ====================================================================================== *)
(* 1. A history with reopens: the theorems apply                                           *)
(* ====================================================================================== *)

(* a read that misses; the one-node hash section (flat 3 with the stored hash, size 100 instead of 8; flush forced):
   accepted; close and reopen; info; has; close and reopen *)
Definition hx_hist (pf : proof) : list hop :=
  [HGet 3; HApply (Some true) pf; HReopen; HInfo; HHas 3; HReopen].

Definition hx_req : option req_block := Some (mkReqBlock 4 0).

(* everything the example needs to know about the run, as one closed term *)
Definition hx_obs (s : option (core * world)) :=
  match s with
  | Some (c, w) =>
      match lone_proof s 3 100 with
      | Some pf =>
          let '(c1, w1) := run_hops sc_cr (hx_hist pf) c w in
          match sc_block_proof (Some (c1, w1)) 4 with
          | Some pf4 =>
              Some (proof_okb pf, p_upgrade pf,
                    i_length (core_info c1), i_byte_length (core_info c1),
                    proof_okb pf4, p_upgrade pf4,
                    block_lim (p_block pf4) && hash_lim (p_hash pf4) && seek_lim (p_seek pf4),
                    snd (core_apply_proof sc_cr (Some false) pf4 c1 w1),
                    snd (core_create_proof hx_req None None None c1 w1))
          | None => None
          end
      | None => None
      end
  | None => None
  end.

Lemma hx_obs_sc :
  exists vp, hx_obs (fst sc_R1) = Some (true, None, 6, 103, true, None, true, Ok true, Ok vp).
Proof. eexists. vm_compute. reflexivity. Qed.

Example sc_history_with_reopen_theorems_apply :
  match fst sc_R1 with
  | Some (c, w) =>
      exists pf c1 w1 pf4,
        lone_proof (Some (c, w)) 3 100 = Some pf /\
        Forall hop_ok (hx_hist pf) /\ run_hops sc_cr (hx_hist pf) c w = (c1, w1) /\
        HDInvR sc_cr sc_blocks c (w_disk w) (fun _ => false) /\
        (* what the replica reports after the history: the byte length is not the writer's (11) *)
        (i_length (core_info c1), i_byte_length (core_info c1)) = (6, 103) /\
        (* 1. the history theorem *)
        ((exists H', c04_content sc_cr sc_blocks c1 (w_disk w1) H' /\ hist_rel c (fun _ => false) c1 H' /\
                     exists c2, core_open sc_cr None true (w_disk w1) = (w_disk w1, [], Ok c2) /\
                                t_length (c_tree c2) = t_length (c_tree c1) /\
                                (forall i, core_has c2 i = core_has c1 i)) \/
         some_collision sc_cr \/ forged_signature sc_cr sc_blocks (kp_public (c_keypair c))) /\
        (* 2. creation returns: the request "block 4" is answered *)
        (exists vp, snd (core_create_proof hx_req None None None c1 w1) = Ok vp) /\
        ((returns (snd (core_create_proof hx_req None None None c1 w1)) = true) \/
         some_collision sc_cr \/ forged_signature sc_cr sc_blocks (kp_public (c_keypair c))) /\
        (* 3. apply returns: the writer's proof for block 4 is accepted *)
        sc_block_proof (Some (c1, w1)) 4 = Some pf4 /\
        snd (core_apply_proof sc_cr (Some false) pf4 c1 w1) = Ok true /\
        ((returns (snd (core_apply_proof sc_cr (Some false) pf4 c1 w1)) = true \/
          snd (core_apply_proof sc_cr (Some false) pf4 c1 w1) = Panic frame_msg) \/
         some_collision sc_cr \/ forged_signature sc_cr sc_blocks (kp_public (c_keypair c)))
  | None => False
  end.
Proof.
  pose proof sc_synced_HDInvR as HX. destruct hx_obs_sc as (vp & O).
  destruct (fst sc_R1) as [[c w]|]; [|exact HX]. destruct HX as [X _].
  cbn [hx_obs] in O. destruct (lone_proof (Some (c, w)) 3 100) as [pf|]; [|discriminate O].
  destruct (run_hops sc_cr (hx_hist pf) c w) as [c1 w1] eqn:Hrun.
  destruct (sc_block_proof (Some (c1, w1)) 4) as [pf4|] eqn:Ep4; [|discriminate O].
  injection O as Hok Hup Hinfo1 Hinfo2 Hok4 Hup4 Hlim4 Hr4 Hcp.
  assert (Hinfo : (i_length (core_info c1), i_byte_length (core_info c1)) = (6, 103)) by (cbn [core_info i_length i_byte_length] in *; rewrite Hinfo1, Hinfo2; reflexivity).
  assert (Hrb : rblock_lim hx_req = true) by reflexivity.
  assert (Hwire : proof_wireS pf).
  { split; [apply proof_okb_wire, Hok|]. intros u Eu. rewrite Hup in Eu. discriminate Eu. }
  assert (Hwire4 : proof_wireS pf4).
  { split; [apply proof_okb_wire, Hok4|]. intros u Eu. rewrite Hup4 in Eu. discriminate Eu. }
  assert (Hops : Forall hop_ok (hx_hist pf)).
  { unfold hx_hist. constructor; [exact I|]. constructor; [exact Hwire|].
    repeat (constructor; [exact I|]). constructor. }
  assert (Hn : N.of_nat (length sc_blocks) < LIM) by (vm_compute; reflexivity).
  apply andb_prop in Hlim4 as [Hlim4 Hl3]. apply andb_prop in Hlim4 as [Hl1 Hl2].
  exists pf, c1, w1, pf4. split; [reflexivity|]. split; [exact Hops|]. split; [exact Hrun|].
  split; [exact X|]. split; [exact Hinfo|]. split.
  { apply (any_history_with_reopen_content sc_cr sc_crc_ok sc_hash32 sc_nonblank sc_hashbytes sc_blocks sc_writer_fits
             (hx_hist pf) (hx_hist pf) [] c w _ c1 w1 X Hops); [rewrite app_nil_r; reflexivity|exact Hrun]. }
  split; [exists vp; exact Hcp|]. split.
  { destruct (core_create_proof hx_req None None None c1 w1) as [[c' w'] r] eqn:Ec. cbn [snd].
    destruct (history_create_proof_returns sc_cr sc_crc_ok sc_hash32 sc_nonblank sc_hashbytes sc_blocks sc_writer_fits
                (hx_hist pf) c w _ c1 w1 hx_req None None None c' w' r X Hn Hops Hrun Hrb eq_refl eq_refl Ec)
      as [(R & _)|[C|F]]; [left; exact R|right; left; exact C|right; right; exact F]. }
  split; [exact Ep4|]. split; [exact Hr4|].
  destruct (core_apply_proof sc_cr (Some false) pf4 c1 w1) as [[c' w'] r] eqn:Ea. cbn [snd].
  destruct (history_apply_returns sc_cr sc_crc_ok sc_hash32 sc_nonblank sc_hashbytes sc_blocks sc_writer_fits
              (hx_hist pf) c w _ c1 w1 (Some false) pf4 c' w' r X Hn Hops Hrun Hwire4 Hl1 Hl2 Hl3)
    as [R|[P|[C|F]]]; try exact Ea.
  - intros u Eu. rewrite Hup4 in Eu. discriminate Eu.
  - intros u Eu. rewrite Hup4 in Eu. discriminate Eu.
  - left. left. exact R.
  - left. right. exact P.
  - right. left. exact C.
  - right. right. exact F.
Qed.

(* ====================================================================================== *)
(* 2. The side condition on the byte length is, after a reopen, a condition on stored sizes  *)
(* ====================================================================================== *)

(* an upgrade section with one node: start 6, length 1, node flat 12 of size 1, every field tiny *)
Definition hy_up : proof :=
  mkProof 0 None None None (Some (mkDataUpgrade 6 1 [mkNode 12 1 (repeat 7 32)] [] (repeat 9 64))).

(* the history: synced replica; the one-node hash section for root 3 with size 2^64 - 4 (accepted; flush forced);
   close and reopen (succeeds: byte length 2^64 - 1); the upgrade section above *)
Definition hy_hist :=
  let s0 := fst sc_R1 in
  let a1 := sx_apply s0 (Some true) 3 (18446744073709551615 - 3) in
  let s2 := sx_reopen (fst a1) in
  let a3 := ex_run s2 (core_apply_proof sc_cr None hy_up) in
  (snd a1, sx_info s0, sx_info s2, snd a3).

(* The statement asked for: "core_apply_proof for any wire proof under the bounds used in C09_apply_any_returns still
   returns after histories with reopen".  It is TRUE when announced_sizes_fit_any is read on the state the proof is
   applied to (AnyReopen2.history_apply_returns).  It is FALSE when that bound is read as in AnyProofCor.v before any
   reopen, where the byte length in memory is the writer's (here 11):
     11 + (announced sizes: 1) + 87 * 2^40 <= 2^64 - 1
   holds, every other bound holds (wire proof, fields below 2^40), the writer has six blocks -- and the result is
   Panic "byte_length += node.length": the byte length MerkleTree::open summed from the stored roots is 2^64 - 1.
   /repo/src/tree/merkle_tree_changeset.rs append_root executes `self.byte_length += node.length` on the same
   operands (u64, unchecked: a panic in a build with overflow checks, a wrap-around otherwise). *)
Example apply_after_hostile_reopen_panics_refuted :
  hy_hist = (Some (Ok true), Some (6, 11), Some (6, 18446744073709551615),
             Some (Panic "byte_length += node.length")) /\
  proof_okb hy_up = true /\
  (forall u, p_upgrade hy_up = Some u -> bytes_ok (du_signature u) = true) /\
  block_lim (p_block hy_up) = true /\ hash_lim (p_hash hy_up) = true /\ seek_lim (p_seek hy_up) = true /\
  upgrade_nodes_lim hy_up /\
  (forall u, p_upgrade hy_up = Some u ->
     prefix_size sc_blocks 6 + lens (du_nodes u) + lens (du_additional u) + 87 * LIM <= u64_max) /\
  Panic "byte_length += node.length" <> @Panic bool frame_msg.
Proof.
  split; [vm_compute; reflexivity|]. split; [vm_compute; reflexivity|].
  split; [intros u [= <-]; vm_compute; reflexivity|].
  split; [reflexivity|]. split; [reflexivity|]. split; [reflexivity|].
  split; [intros u [= <-]; repeat split; vm_compute; reflexivity|].
  split; [intros u [= <-]; vm_compute; discriminate|].
  unfold frame_msg. intros E. discriminate E.
Qed.

(* ====================================================================================== *)
(* 3. Unchecked u64 sums over stored sizes                                                  *)
(* ====================================================================================== *)

(* history: synced replica; the writer's honest proof for block 3 (accepted: nodes 6, 4, 5, 1 stored); the one-node
   hash section for flat 1 (blocks 0-1) with the stored hash and size 2^64 - 1 (accepted); get 3.
   The model's byte range of block 3 is (2^64, 4): offset = size of node 1 + size of node 4 = (2^64 - 1) + 1.
   The model answers Err InvalidOperation (nothing to read there); the crate computes the same sum with
   `offset += node.length` in byte_offset_from_nodes (u64, unchecked). *)
Definition hz_offset :=
  let s0 := fst sc_R1 in
  let a1 := sc_fetch s0 3 in
  let a2 := sx_apply (fst a1) (Some false) 1 18446744073709551615 in
  let g := ex_run (fst a2) (core_get 3) in
  let br := match fst a2 with
            | Some (c, w) => Some (byte_range (c_tree c) (d_tree (w_disk w)) 3)
            | None => None
            end in
  (snd a1, snd a2, br, snd g).

Example offset_sum_exceeds_u64_observed :
  hz_offset = (Some (Ok true), Some (Ok true), Some (Ok (18446744073709551616, 4)), Some (Err InvalidOperation)) /\
  u64_max < 18446744073709551616.
Proof. split; [vm_compute; reflexivity|vm_compute; reflexivity]. Qed.

(* history: synced replica; the one-node hash section for root 3 with size 2^64 - 1 (accepted; flush forced);
   close and reopen.  The model's open reports byte length 2^64 + 2 = (2^64 - 1) + 3; MerkleTree::open computes the
   same sum with `byte_length += node.length` (u64, unchecked): a replica that panics when it is opened in a build
   with overflow checks, and reports byte length 2 otherwise. *)
Definition hz_open :=
  let s0 := fst sc_R1 in
  let a1 := sx_apply s0 (Some true) 3 18446744073709551615 in
  let s2 := sx_reopen (fst a1) in
  (snd a1, sx_info s2).

Example reopen_byte_length_exceeds_u64_observed :
  hz_open = (Some (Ok true), Some (6, 18446744073709551618)) /\ u64_max < 18446744073709551618.
Proof. split; [vm_compute; reflexivity|vm_compute; reflexivity]. Qed.

Print Assumptions sc_history_with_reopen_theorems_apply.
Print Assumptions apply_after_hostile_reopen_panics_refuted.
Print Assumptions offset_sum_exceeds_u64_observed.
Print Assumptions reopen_byte_length_exceeds_u64_observed.

(* FixedWordsIndex.v — part d: index_of / last_index_of of the word-level model.
   Fixed pages: both values. Dynamic: value = true finds exactly the first/last held index
   (first_true_at / last_true_at of the abstraction, the characterisation of Bitfield.bf_index_of_true /
   bf_last_index_of_true proved in ClearRefine.v); value = false: what index_of returns, and two
   defects of last_index_of(false) exhibited as *_refuted. Mirrors src/bitfield/{fixed,dynamic}.rs. *)
From HC Require Import Base NMap Storage Bitfield BitfieldFacts FixedWords FixedWordsFacts FixedWordsBytes FixedWordsDyn.
From Coq Require Import FMapPositive.
From Coq Require Import List NArith ZArith Lia Bool PeanoNat.
From Coq Require Import ZifyN ZifyNat ZifyBool.
Ltac Zify.zify_post_hook ::= Z.div_mod_to_equations.
#[local] Arguments N.add : simpl never.
#[local] Arguments N.sub : simpl never.
#[local] Arguments N.mul : simpl never.
#[local] Arguments N.div : simpl never.
#[local] Arguments N.modulo : simpl never.
#[local] Arguments N.pow : simpl never.
#[local] Arguments N.eqb : simpl never.
#[local] Arguments N.ltb : simpl never.
#[local] Arguments N.leb : simpl never.
#[local] Arguments N.min : simpl never.
#[local] Arguments N.land : simpl never.
#[local] Arguments N.testbit : simpl never.
#[local] Arguments N.to_nat : simpl never.
#[local] Arguments N.of_nat : simpl never.

(* ------------------------------------------------------------------ *)
(** * 1. fixed pages *)

Lemma eqb_bool_neq (a v : bool) : Bool.eqb a v = false -> a <> v.
Proof. intros H E. subst. rewrite eqb_reflx in H. discriminate. Qed.

Lemma fw_find_up_spec p v n : forall i,
  i + N.of_nat n <= 32768 ->
  exists o, fw_find_up p v i n = Ok o /\
    match o with
    | Some r => i <= r < i + N.of_nat n /\ fw_bits p r = v /\ (forall k, i <= k < r -> fw_bits p k <> v)
    | None => forall k, i <= k < i + N.of_nat n -> fw_bits p k <> v
    end.
Proof.
  induction n as [|n IH]; intros i Hi; cbn [fw_find_up].
  - exists None. split; [reflexivity|]. intros k Hk. lia.
  - rewrite fw_get_bits by lia. cbn [bind]. destruct (Bool.eqb (fw_bits p i) v) eqn:E.
    + exists (Some i). split; [reflexivity|]. split; [lia|]. split; [apply eqb_prop; exact E|]. intros k Hk. lia.
    + destruct (IH (i + 1)) as (o & Ho & Hs); [lia|]. exists o. split; [exact Ho|].
      apply eqb_bool_neq in E. destruct o as [r|].
      * destruct Hs as (H1 & H2 & H3). split; [lia|]. split; [exact H2|].
        intros k Hk. destruct (N.eq_dec k i) as [->|Hne]; [exact E | apply H3; lia].
      * intros k Hk. destruct (N.eq_dec k i) as [->|Hne]; [exact E | apply Hs; lia].
Qed.

(** index_of on a fixed page: never panics (any position); the first index >= pos below 32768 whose bit is v *)
Theorem fw_index_of_spec p v pos :
  exists o, fw_index_of p v pos = Ok o /\
    match o with
    | Some r => pos <= r < 32768 /\ fw_bits p r = v /\ (forall k, pos <= k < r -> fw_bits p k <> v)
    | None => forall k, pos <= k < 32768 -> fw_bits p k <> v
    end.
Proof.
  unfold fw_index_of, FW_BITS.
  destruct (N.le_gt_cases pos 32768) as [Hle|Hgt].
  2:{ replace (N.to_nat (32768 - pos)) with 0%nat by lia. exists None. split; [reflexivity|]. intros k Hk. lia. }
  destruct (fw_find_up_spec p v (N.to_nat (32768 - pos)) pos) as (o & Ho & Hs); [lia|].
  exists o. split; [exact Ho|]. destruct o as [r|].
  - destruct Hs as (H1 & H2 & H3). split; [lia|]. split; assumption.
  - intros k Hk. apply Hs. lia.
Qed.

Lemma fw_find_down_spec p v n :
  N.of_nat n <= 32768 ->
  exists o, fw_find_down p v n = Ok o /\
    match o with
    | Some r => r < N.of_nat n /\ fw_bits p r = v /\ (forall k, r < k < N.of_nat n -> fw_bits p k <> v)
    | None => forall k, k < N.of_nat n -> fw_bits p k <> v
    end.
Proof.
  induction n as [|n IH]; intros Hn; cbn [fw_find_down].
  - exists None. split; [reflexivity|]. intros k Hk. lia.
  - rewrite fw_get_bits by lia. cbn [bind]. destruct (Bool.eqb (fw_bits p (N.of_nat n)) v) eqn:E.
    + exists (Some (N.of_nat n)). split; [reflexivity|]. split; [lia|]. split; [apply eqb_prop; exact E|].
      intros k Hk. lia.
    + destruct IH as (o & Ho & Hs); [lia|]. exists o. split; [exact Ho|].
      apply eqb_bool_neq in E. destruct o as [r|].
      * destruct Hs as (H1 & H2 & H3). split; [lia|]. split; [exact H2|].
        intros k Hk. destruct (N.eq_dec k (N.of_nat n)) as [->|Hne]; [exact E | apply H3; lia].
      * intros k Hk. destruct (N.eq_dec k (N.of_nat n)) as [->|Hne]; [exact E | apply Hs; lia].
Qed.

(** last_index_of on a fixed page, position inside the page: the last index <= pos whose bit is v *)
Theorem fw_last_index_of_spec p v pos :
  pos < 32768 ->
  exists o, fw_last_index_of p v pos = Ok o /\
    match o with
    | Some r => r <= pos /\ fw_bits p r = v /\ (forall k, r < k <= pos -> fw_bits p k <> v)
    | None => forall k, k <= pos -> fw_bits p k <> v
    end.
Proof.
  intros Hp. unfold fw_last_index_of, fits_u32, u32_max, FW_BITS.
  assert (pos + 1 <=? 4294967295 = true) as -> by lia. assert (32768 <=? pos = false) as -> by lia.
  cbn [negb]. destruct (fw_find_down_spec p v (N.to_nat (pos + 1))) as (o & Ho & Hs); [lia|].
  exists o. split; [exact Ho|]. destruct o as [r|].
  - destruct Hs as (H1 & H2 & H3). split; [lia|]. split; [exact H2|]. intros k Hk. apply H3. lia.
  - intros k Hk. apply Hs. lia.
Qed.

(** ... and a position at or beyond the page end panics (the first `get(position)`) *)
Theorem fw_last_index_of_panics p v pos : 32768 <= pos -> exists s, fw_last_index_of p v pos = Panic s.
Proof.
  intros Hp. unfold fw_last_index_of, FW_BITS. destruct (negb (fits_u32 (pos + 1))); [eexists; reflexivity|].
  assert (32768 <=? pos = true) as -> by lia. eexists; reflexivity.
Qed.

(* ------------------------------------------------------------------ *)
(** * 2. sorting the page keys *)

Fixpoint ssorted (l : list N) : Prop :=
  match l with
  | [] => True
  | x :: r => (forall y, In y r -> x <= y) /\ ssorted r
  end.

Lemma In_ninsert x l y : In y (ninsert x l) <-> y = x \/ In y l.
Proof.
  induction l as [|a l IH]; cbn [ninsert In].
  - split; [intros [H|[]]; auto | intros [H|[]]; auto].
  - destruct (x <=? a); cbn [In]; [|rewrite IH]; split; intros H; intuition auto.
Qed.

Lemma ssorted_ninsert x l : ssorted l -> ssorted (ninsert x l).
Proof.
  induction l as [|a l IH]; intros Hs; cbn [ninsert].
  - cbn. split; [intros y []|exact I].
  - destruct Hs as [H1 H2]. destruct (N.leb_spec x a) as [Hc|Hc].
    + cbn [ssorted]. split; [|split; assumption].
      intros y [<-|Hy]; [exact Hc|]. specialize (H1 y Hy). lia.
    + cbn [ssorted]. split; [|apply IH; exact H2].
      intros y Hy. apply In_ninsert in Hy. destruct Hy as [->|Hy]; [lia | apply H1; exact Hy].
Qed.

Lemma In_nsort l y : In y (nsort l) <-> In y l.
Proof.
  induction l as [|a l IH]; cbn [nsort fold_right In]; [reflexivity|].
  fold (nsort l). rewrite In_ninsert, IH. intuition auto.
Qed.

Lemma ssorted_nsort l : ssorted (nsort l).
Proof.
  induction l as [|a l IH]; cbn [nsort fold_right]; [exact I|]. apply ssorted_ninsert. exact IH.
Qed.

Lemma ssorted_app_l a x b : ssorted (a ++ x :: b) -> forall y, In y a -> y <= x.
Proof.
  induction a as [|h a IH]; intros Hs y Hy; [destruct Hy|].
  cbn [app ssorted] in Hs. destruct Hs as [H1 H2]. destruct Hy as [<-|Hy].
  - apply H1. apply in_or_app. right. left. reflexivity.
  - apply IH; assumption.
Qed.

Lemma ssorted_app_r a x b : ssorted (a ++ x :: b) -> forall y, In y b -> x <= y.
Proof.
  induction a as [|h a IH]; intros Hs y Hy.
  - cbn [app ssorted] in Hs. apply Hs. exact Hy.
  - cbn [app ssorted] in Hs. apply IH; [apply Hs | exact Hy].
Qed.

Lemma In_dw_keys d k : In k (dw_keys d) <-> exists p, nm_get k (dw_pages d) = Some p.
Proof.
  unfold dw_keys. rewrite in_map_iff. split.
  - intros ([k' p] & E & Hin). cbn [fst] in E. subst k'. exists p. apply nm_elements_in'. exact Hin.
  - intros (p & Hp). exists (k, p). split; [reflexivity | apply nm_elements_in'; exact Hp].
Qed.

(* ------------------------------------------------------------------ *)
(** * 3. dynamic, value = true *)

Definition page_empty (p : page) : Prop := forall t, t < 32768 -> fw_bits p t = false.

(* the walk over a key list stopped at [key] (index idx in its page); the pages of the keys before it are empty *)
Definition walk_post (pages : nmap page) (ok : page -> N -> Prop) (keys : list N) (o : option N) : Prop :=
  match o with
  | Some r => exists l1 key l2 p idx,
      keys = l1 ++ key :: l2 /\ nm_get key pages = Some p /\ r = key * 32768 + idx /\ idx < 32768 /\
      ok p idx /\ (forall key' p', In key' l1 -> nm_get key' pages = Some p' -> page_empty p')
  | None => forall key' p', In key' keys -> nm_get key' pages = Some p' -> page_empty p'
  end.

Lemma walk_post_cons pages ok key keys o :
  (forall p', nm_get key pages = Some p' -> page_empty p') ->
  walk_post pages ok keys o -> walk_post pages ok (key :: keys) o.
Proof.
  intros Hk Hs. destruct o as [r|]; cbn [walk_post] in *.
  - destruct Hs as (l1 & key0 & l2 & p & idx & E & H1 & H2 & H3 & H4 & H5).
    exists (key :: l1), key0, l2, p, idx. split; [cbn [app]; rewrite E; reflexivity|].
    repeat (split; [assumption|]). intros key' p' [<-|Hin] Hg; [apply Hk; exact Hg | eapply H5; eassumption].
  - intros key' p' [<-|Hin] Hg; [apply Hk; exact Hg | eapply Hs; eassumption].
Qed.

Definition first_ok (p : page) (idx : N) : Prop :=
  fw_bits p idx = true /\ forall t, t < idx -> fw_bits p t = false.
Definition last_ok (p : page) (idx : N) : Prop :=
  fw_bits p idx = true /\ forall t, idx < t < 32768 -> fw_bits p t = false.

Lemma not_true_false (b : bool) : b <> true -> b = false.
Proof. destruct b; congruence. Qed.

Lemma dw_first_true_spec pages : forall keys,
  exists o, dw_first_true pages keys = Ok o /\ walk_post pages first_ok keys o.
Proof.
  induction keys as [|key keys IH]; cbn [dw_first_true].
  - exists None. split; [reflexivity|]. intros key' p' [].
  - destruct IH as (o & Ho & Hs). destruct (nm_get key pages) as [p|] eqn:Eg.
    + destruct (fw_index_of_spec p true 0) as (o1 & Ho1 & Hs1). rewrite Ho1. cbn [bind].
      destruct o1 as [idx|].
      * exists (Some (key * 32768 + idx)). split; [reflexivity|].
        destruct Hs1 as (H1 & H2 & H3).
        exists [], key, keys, p, idx. split; [reflexivity|]. split; [exact Eg|]. split; [reflexivity|].
        split; [lia|]. split; [|intros key' p' []].
        split; [exact H2|]. intros t Ht. apply not_true_false. apply H3. lia.
      * exists o. split; [exact Ho|]. apply walk_post_cons; [|exact Hs].
        intros p' Hp'. rewrite Eg in Hp'. injection Hp' as <-. intros t Ht. apply not_true_false. apply Hs1. lia.
    + exists o. split; [exact Ho|]. apply walk_post_cons; [|exact Hs]. intros p' Hp'. rewrite Eg in Hp'. discriminate.
Qed.

Lemma dw_last_true_spec pages : forall keys,
  exists o, dw_last_true pages keys = Ok o /\ walk_post pages last_ok keys o.
Proof.
  induction keys as [|key keys IH]; cbn [dw_last_true].
  - exists None. split; [reflexivity|]. intros key' p' [].
  - destruct IH as (o & Ho & Hs). destruct (nm_get key pages) as [p|] eqn:Eg.
    + destruct (fw_last_index_of_spec p true (FW_BITS - 1)) as (o1 & Ho1 & Hs1); [unfold FW_BITS; lia|].
      rewrite Ho1. cbn [bind]. unfold FW_BITS in Hs1.
      destruct o1 as [idx|].
      * exists (Some (key * 32768 + idx)). split; [reflexivity|].
        destruct Hs1 as (H1 & H2 & H3).
        exists [], key, keys, p, idx. split; [reflexivity|]. split; [exact Eg|]. split; [reflexivity|].
        split; [lia|]. split; [|intros key' p' []].
        split; [exact H2|]. intros t Ht. apply not_true_false. apply H3. lia.
      * exists o. split; [exact Ho|]. apply walk_post_cons; [|exact Hs].
        intros p' Hp'. rewrite Eg in Hp'. injection Hp' as <-. intros t Ht. apply not_true_false. apply Hs1. lia.
    + exists o. split; [exact Ho|]. apply walk_post_cons; [|exact Hs]. intros p' Hp'. rewrite Eg in Hp'. discriminate.
Qed.

(* the abstraction's get, page-wise *)
Lemma dw_abs_get d k :
  dyn_inv d ->
  bf_get (dw_abs d) k = match nm_get (k / 32768) (dw_pages d) with
                        | Some p => fw_bits p (k mod 32768)
                        | None => false
                        end.
Proof. intros Hinv. unfold bf_get, dw_abs. cbn [bf_bits]. apply dw_bits_spec. apply (di_wf _ Hinv). Qed.

(* same definitions as ClearRefine.first_true_at / last_true_at *)
Definition first_true_at' (b : bitfield) (pos j : N) : Prop :=
  bf_get b j = true /\ pos <= j /\ forall i, pos <= i -> bf_get b i = true -> j <= i.
Definition last_true_at' (b : bitfield) (pos j : N) : Prop :=
  bf_get b j = true /\ j <= pos /\ forall i, i <= pos -> bf_get b i = true -> i <= j.

(** index_of(true, pos): never panics; Some j exactly when j is the smallest held index >= pos, None exactly
    when nothing is held from pos on — for all positions and all page indices *)
Theorem dw_index_of_true_spec d pos :
  dyn_inv d ->
  exists o, dw_index_of d true pos = Ok o /\
    match o with
    | Some j => first_true_at' (dw_abs d) pos j
    | None => forall i, pos <= i -> bf_get (dw_abs d) i = false
    end.
Proof.
  intros Hinv. unfold dw_index_of, FW_BITS. rewrite land32767, page_idx.
  set (fp := pos / 32768). set (fi := pos mod 32768).
  pose proof (dw_abs_get d) as Hget.
  (* phase 1: the page of pos *)
  assert (Hph1 : exists o1,
     match nm_get fp (dw_pages d) with
     | Some p => o <- fw_index_of p true fi;;
                 Ok match o with Some index => Some (fp * 32768 + index) | None => None end
     | None => Ok None
     end = Ok o1 /\
     match o1 with
     | Some j => first_true_at' (dw_abs d) pos j
     | None => forall i, pos <= i < (fp + 1) * 32768 -> bf_get (dw_abs d) i = false
     end).
  { destruct (nm_get fp (dw_pages d)) as [p|] eqn:Eg.
    - destruct (fw_index_of_spec p true fi) as (o1 & Ho1 & Hs1). rewrite Ho1. cbn [bind].
      destruct o1 as [idx|].
      + eexists. split; [reflexivity|]. destruct Hs1 as (H1 & H2 & H3). split; [|split].
        * rewrite Hget by exact Hinv. replace ((fp * 32768 + idx) / 32768) with fp by lia. rewrite Eg.
          replace ((fp * 32768 + idx) mod 32768) with idx by lia. exact H2.
        * unfold fp, fi in *. lia.
        * intros i Hi Hb. destruct (N.lt_ge_cases i (fp * 32768 + idx)) as [Hlt|Hge]; [|exact Hge].
          exfalso. rewrite Hget in Hb by exact Hinv.
          replace (i / 32768) with fp in Hb by (unfold fp, fi in *; lia). rewrite Eg in Hb.
          apply (H3 (i mod 32768)); [unfold fp, fi in *; lia | exact Hb].
      + eexists. split; [reflexivity|]. intros i Hi. rewrite Hget by exact Hinv.
        replace (i / 32768) with fp by (unfold fp in *; lia). rewrite Eg.
        apply not_true_false. apply Hs1. unfold fp, fi in *. lia.
    - eexists. split; [reflexivity|]. intros i Hi. rewrite Hget by exact Hinv.
      replace (i / 32768) with fp by (unfold fp in *; lia). rewrite Eg. reflexivity. }
  destruct Hph1 as (o1 & Ho1 & Hs1). rewrite Ho1. cbn [bind].
  destruct o1 as [j|]; [exists (Some j); split; [reflexivity | exact Hs1]|].
  (* phase 2: the later pages, in key order *)
  set (keys := nsort (filter (fun key => fp <? key) (dw_keys d))).
  destruct (dw_first_true_spec (dw_pages d) keys) as (o & Ho & Hs). exists o. split; [exact Ho|].
  assert (Hkeys : forall k, In k keys <-> fp < k /\ exists p, nm_get k (dw_pages d) = Some p).
  { intros k. unfold keys. rewrite In_nsort, filter_In, In_dw_keys. split.
    - intros [H1 H2]. split; [lia | exact H1].
    - intros [H1 H2]. split; [exact H2 | lia]. }
  destruct o as [r|]; cbn [walk_post] in Hs.
  - destruct Hs as (l1 & key & l2 & p & idx & E & H1 & H2 & H3 & [H4 H4'] & H5).
    assert (Hin : In key keys) by (rewrite E; apply in_or_app; right; left; reflexivity).
    apply Hkeys in Hin. destruct Hin as [Hfp _].
    split; [|split].
    + rewrite Hget by exact Hinv. subst r. replace ((key * 32768 + idx) / 32768) with key by lia. rewrite H1.
      replace ((key * 32768 + idx) mod 32768) with idx by lia. exact H4.
    + subst r. unfold fp in *. lia.
    + intros i Hi Hb. destruct (N.lt_ge_cases i r) as [Hlt|Hge]; [|exact Hge]. exfalso.
      destruct (N.lt_ge_cases i ((fp + 1) * 32768)) as [Hc|Hc].
      { rewrite Hs1 in Hb by lia. discriminate. }
      rewrite Hget in Hb by exact Hinv.
      destruct (nm_get (i / 32768) (dw_pages d)) as [q|] eqn:Eq; [|discriminate].
      destruct (N.eq_dec (i / 32768) key) as [Ek|Ek].
      * rewrite Ek, H1 in Eq. injection Eq as <-. rewrite H4' in Hb; [discriminate | subst r; lia].
      * assert (Hik : In (i / 32768) keys) by (apply Hkeys; split; [lia | exists q; exact Eq]).
        rewrite E in Hik. apply in_app_or in Hik. destruct Hik as [Hik|[Hik|Hik]].
        -- rewrite (H5 _ _ Hik Eq) in Hb by lia. discriminate.
        -- congruence.
        -- pose proof (ssorted_nsort (filter (fun key => fp <? key) (dw_keys d))) as Hso. fold keys in Hso.
           rewrite E in Hso. pose proof (ssorted_app_r _ _ _ Hso _ Hik). subst r. lia.
  - intros i Hi. destruct (N.lt_ge_cases i ((fp + 1) * 32768)) as [Hc|Hc]; [apply Hs1; lia|].
    rewrite Hget by exact Hinv. destruct (nm_get (i / 32768) (dw_pages d)) as [q|] eqn:Eq; [|reflexivity].
    apply (Hs (i / 32768) q); [|exact Eq | lia]. apply Hkeys. split; [lia | exists q; exact Eq].
Qed.

(** last_index_of(true, pos): never panics; Some j exactly when j is the largest held index <= pos *)
Theorem dw_last_index_of_true_spec d pos :
  dyn_inv d ->
  exists o, dw_last_index_of d true pos = Ok o /\
    match o with
    | Some j => last_true_at' (dw_abs d) pos j
    | None => forall i, i <= pos -> bf_get (dw_abs d) i = false
    end.
Proof.
  intros Hinv. unfold dw_last_index_of, FW_BITS. rewrite land32767, page_idx.
  set (lp := pos / 32768). set (li := pos mod 32768).
  pose proof (dw_abs_get d) as Hget.
  assert (Hph1 : exists o1,
     match nm_get lp (dw_pages d) with
     | Some p => o <- fw_last_index_of p true li;;
                 Ok match o with Some index => Some (lp * 32768 + index) | None => None end
     | None => Ok None
     end = Ok o1 /\
     match o1 with
     | Some j => last_true_at' (dw_abs d) pos j
     | None => forall i, lp * 32768 <= i <= pos -> bf_get (dw_abs d) i = false
     end).
  { destruct (nm_get lp (dw_pages d)) as [p|] eqn:Eg.
    - destruct (fw_last_index_of_spec p true li) as (o1 & Ho1 & Hs1); [unfold li; lia|]. rewrite Ho1. cbn [bind].
      destruct o1 as [idx|].
      + eexists. split; [reflexivity|]. destruct Hs1 as (H1 & H2 & H3). split; [|split].
        * rewrite Hget by exact Hinv. replace ((lp * 32768 + idx) / 32768) with lp by lia. rewrite Eg.
          replace ((lp * 32768 + idx) mod 32768) with idx by lia. exact H2.
        * unfold lp, li in *. lia.
        * intros i Hi Hb. destruct (N.le_gt_cases i (lp * 32768 + idx)) as [Hle|Hgt]; [exact Hle|].
          exfalso. rewrite Hget in Hb by exact Hinv.
          replace (i / 32768) with lp in Hb by (unfold lp, li in *; lia). rewrite Eg in Hb.
          apply (H3 (i mod 32768)); [unfold lp, li in *; lia | exact Hb].
      + eexists. split; [reflexivity|]. intros i Hi. rewrite Hget by exact Hinv.
        replace (i / 32768) with lp by (unfold lp in *; lia). rewrite Eg.
        apply not_true_false. apply Hs1. unfold lp, li in *. lia.
    - eexists. split; [reflexivity|]. intros i Hi. rewrite Hget by exact Hinv.
      replace (i / 32768) with lp by (unfold lp in *; lia). rewrite Eg. reflexivity. }
  destruct Hph1 as (o1 & Ho1 & Hs1). rewrite Ho1. cbn [bind].
  destruct o1 as [j|]; [exists (Some j); split; [reflexivity | exact Hs1]|].
  set (L := filter (fun key => key <? lp) (dw_keys d)).
  set (keys := rev (nsort L)).
  destruct (dw_last_true_spec (dw_pages d) keys) as (o & Ho & Hs). exists o. split; [exact Ho|].
  assert (Hkeys : forall k, In k keys <-> k < lp /\ exists p, nm_get k (dw_pages d) = Some p).
  { intros k. unfold keys, L. rewrite <- in_rev, In_nsort, filter_In, In_dw_keys. split.
    - intros [H1 H2]. split; [lia | exact H1].
    - intros [H1 H2]. split; [exact H2 | lia]. }
  destruct o as [r|]; cbn [walk_post] in Hs.
  - destruct Hs as (l1 & key & l2 & p & idx & E & H1 & H2 & H3 & [H4 H4'] & H5).
    assert (Hin : In key keys) by (rewrite E; apply in_or_app; right; left; reflexivity).
    apply Hkeys in Hin. destruct Hin as [Hlp _].
    split; [|split].
    + rewrite Hget by exact Hinv. subst r. replace ((key * 32768 + idx) / 32768) with key by lia. rewrite H1.
      replace ((key * 32768 + idx) mod 32768) with idx by lia. exact H4.
    + subst r. unfold lp in *. lia.
    + intros i Hi Hb. destruct (N.le_gt_cases i r) as [Hle|Hgt]; [exact Hle|]. exfalso.
      destruct (N.le_gt_cases (lp * 32768) i) as [Hc|Hc].
      { rewrite Hs1 in Hb by lia. discriminate. }
      rewrite Hget in Hb by exact Hinv.
      destruct (nm_get (i / 32768) (dw_pages d)) as [q|] eqn:Eq; [|discriminate].
      destruct (N.eq_dec (i / 32768) key) as [Ek|Ek].
      * rewrite Ek, H1 in Eq. injection Eq as <-. rewrite H4' in Hb; [discriminate | subst r; lia].
      * assert (Hik : In (i / 32768) keys) by (apply Hkeys; split; [lia | exists q; exact Eq]).
        rewrite E in Hik. apply in_app_or in Hik. destruct Hik as [Hik|[Hik|Hik]].
        -- rewrite (H5 _ _ Hik Eq) in Hb by lia. discriminate.
        -- congruence.
        -- pose proof (ssorted_nsort L) as Hso.
           assert (Es : nsort L = rev l2 ++ key :: rev l1).
           { rewrite <- (rev_involutive (nsort L)). fold keys. rewrite E, rev_app_distr. cbn [rev].
             rewrite <- app_assoc. reflexivity. }
           rewrite Es in Hso. apply in_rev in Hik.
           pose proof (ssorted_app_l _ _ _ Hso _ Hik). subst r. lia.
  - intros i Hi. destruct (N.le_gt_cases (lp * 32768) i) as [Hc|Hc]; [apply Hs1; lia|].
    rewrite Hget by exact Hinv. destruct (nm_get (i / 32768) (dw_pages d)) as [q|] eqn:Eq; [|reflexivity].
    apply (Hs (i / 32768) q); [|exact Eq | lia]. apply Hkeys. split; [lia | exists q; exact Eq].
Qed.

(* ------------------------------------------------------------------ *)
(** * 4. dynamic, value = false *)

Lemma not_false_true (b : bool) : b <> false -> b = true.
Proof. destruct b; congruence. Qed.

Lemma dw_index_false_loop_spec d fp : dyn_inv d -> forall fuel i j,
  let M := N.max fp (dw_biggest d) in
  fp <= i -> i <= M + 1 -> j < 32768 -> M + 2 <= i + N.of_nat fuel ->
  exists o, dw_index_false_loop fuel d fp i j = Ok o /\
    match o with
    | Some r => i * 32768 + j <= r /\ bf_get (dw_abs d) r = false /\
                (forall k, i * 32768 + j <= k < r -> bf_get (dw_abs d) k = true)
    | None => forall k, i * 32768 + j <= k < (M + 1) * 32768 -> bf_get (dw_abs d) k = true
    end.
Proof.
  intros Hinv. pose proof (dw_abs_get d) as Hget.
  induction fuel as [|f IH]; intros i j M Hi1 Hi2 Hj Hf; [lia|].
  cbn [dw_index_false_loop]. unfold FW_BITS.
  destruct ((i =? fp) || (i <=? dw_biggest d)) eqn:Ec.
  - assert (HiM : i <= M) by (unfold M; lia).
    destruct (nm_get i (dw_pages d)) as [p|] eqn:Eg.
    + destruct (fw_index_of_spec p false j) as (o1 & Ho1 & Hs1). rewrite Ho1. cbn [bind].
      destruct o1 as [idx|].
      * eexists. split; [reflexivity|]. destruct Hs1 as (H1 & H2 & H3). split; [lia|]. split.
        -- rewrite Hget by exact Hinv. replace ((i * 32768 + idx) / 32768) with i by lia. rewrite Eg.
           replace ((i * 32768 + idx) mod 32768) with idx by lia. exact H2.
        -- intros k Hk. rewrite Hget by exact Hinv. replace (k / 32768) with i by lia. rewrite Eg.
           apply not_false_true. apply H3. lia.
      * destruct (IH (i + 1) 0) as (o & Ho & Hs); [lia | fold M; lia | lia | fold M; lia |].
        exists o. split; [exact Ho|].
        assert (Hpage : forall k, i * 32768 + j <= k < (i + 1) * 32768 -> bf_get (dw_abs d) k = true).
        { intros k Hk. rewrite Hget by exact Hinv. replace (k / 32768) with i by lia. rewrite Eg.
          apply not_false_true. apply Hs1. lia. }
        destruct o as [r|].
        -- destruct Hs as (S1 & S2 & S3). split; [lia|]. split; [exact S2|].
           intros k Hk. destruct (N.lt_ge_cases k ((i + 1) * 32768)); [apply Hpage; lia | apply S3; lia].
        -- fold M in Hs. intros k Hk. destruct (N.lt_ge_cases k ((i + 1) * 32768)); [apply Hpage; lia | apply Hs; lia].
    + eexists. split; [reflexivity|]. split; [lia|]. split.
      * rewrite Hget by exact Hinv. replace ((i * 32768 + j) / 32768) with i by lia. rewrite Eg. reflexivity.
      * intros k Hk. lia.
  - exists None. split; [reflexivity|]. intros k Hk. unfold M in *. lia.
Qed.

(** index_of(false, pos): never panics. Some j: j is the first index >= pos that is not held. None: every index
    from pos up to the end of page max(page of pos, biggest_page_index) is held — the search gives up there
    although the next page is absent (its first index is not held). *)
Theorem dw_index_of_false_spec d pos :
  dyn_inv d ->
  exists o, dw_index_of d false pos = Ok o /\
    match o with
    | Some j => pos <= j /\ bf_get (dw_abs d) j = false /\ (forall k, pos <= k < j -> bf_get (dw_abs d) k = true)
    | None => forall k, pos <= k < (N.max (pos / 32768) (dw_biggest d) + 1) * 32768 -> bf_get (dw_abs d) k = true
    end.
Proof.
  intros Hinv. unfold dw_index_of, FW_BITS. rewrite land32767, page_idx.
  destruct (dw_index_false_loop_spec d (pos / 32768) Hinv
              (S (S (N.to_nat (dw_biggest d - pos / 32768)))) (pos / 32768) (pos mod 32768))
    as (o & Ho & Hs); [lia | lia | lia | lia |].
  exists o. split; [exact Ho|].
  replace (pos / 32768 * 32768 + pos mod 32768) with pos in Hs by lia. exact Hs.
Qed.

Print Assumptions fw_index_of_spec.
Print Assumptions fw_last_index_of_spec.
Print Assumptions fw_last_index_of_panics.
Print Assumptions dw_index_of_true_spec.
Print Assumptions dw_last_index_of_true_spec.
Print Assumptions dw_index_of_false_spec.

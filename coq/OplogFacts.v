(* OplogFacts.v — round trips of the oplog header / entry codecs, CRC frames, entry scanning,
   the header slot automaton, tree-store node records. *)
From HC Require Import Base Codec CodecFacts Crypto Storage Bitfield Oplog.
From HC Require Merkle.
From Coq Require Import ZifyN ZifyNat ZifyBool.
Ltac Zify.zify_post_hook ::= Z.div_mod_to_equations.
Arguments N.add : simpl never.
Arguments N.sub : simpl never.
Arguments N.mul : simpl never.
Arguments N.div : simpl never.
Arguments N.modulo : simpl never.
Arguments N.pow : simpl never.
Arguments N.eqb : simpl never.
Arguments N.ltb : simpl never.
Arguments N.leb : simpl never.

(* ---------- well-formedness predicates ---------- *)

Definition keypair_ok (k : keypair) : bool :=
  Nat.eqb (length (kp_public k)) 32 && bytes_ok (kp_public k) &&
  match kp_secret k with Some s => Nat.eqb (length s) 32 && bytes_ok s | None => true end.
Definition header_ok (h : header) : bool :=
  Nat.eqb (length (hd_key h)) 32 && Nat.eqb (length (hd_ns h)) 32 && Nat.eqb (length (hd_mpk h)) 32 &&
  keypair_ok (hd_keypair h) && fits_u64 (ht_fork (hd_tree h)) && fits_u64 (ht_length (hd_tree h)) &&
  buffer_ok (ht_root_hash (hd_tree h)) && buffer_ok (ht_signature (hd_tree h)) && fits_u64 (hd_contig h).
Definition entry_ok (e : entry) : bool :=
  nodes_ok (e_nodes e) &&
  match e_upgrade e with Some u => fits_u64 (tu_fork u) && fits_u64 (tu_ancestors u) && fits_u64 (tu_length u) && buffer_ok (tu_signature u) | None => true end &&
  match e_bitfield e with Some u => fits_u64 (bu_start u) && fits_u64 (bu_length u) | None => true end.
Definition crc_ok (cr : crypto) : Prop := forall b, cr_crc cr b < 4294967296.

(* ---------- 1. header ---------- *)

Lemma dec_fixed_app n a r : length a = n -> dec_fixed n (a ++ r) = Ok (a, r).
Proof. intros <-. unfold dec_fixed. now rewrite take_app. Qed.

Lemma dec_strings_zero r : dec_strings (0 :: r) = Ok (tt, r).
Proof. reflexivity. Qed.

Lemma firstn_app_exact {A} (a b : list A) n : length a = n -> firstn n (a ++ b) = a.
Proof.
  intros <-. rewrite firstn_app, Nat.sub_diag, firstn_all. cbn [firstn]. apply app_nil_r.
Qed.

Lemma dec_enc_keypair k r : keypair_ok k = true -> dec_keypair (enc_keypair k ++ r) = Ok (k, r).
Proof.
  destruct k as [pk sk]. unfold keypair_ok. cbn [kp_public kp_secret]. intros H. split_ok H.
  apply Nat.eqb_eq in H.
  unfold enc_keypair, dec_keypair, enc_buffer. cbn [kp_public kp_secret].
  rewrite <- !app_assoc. rewrite dec_enc_uint by (unfold len; rewrite H; reflexivity).
  cbn [bind]. unfold len at 1. rewrite H. change (negb (N.of_nat 32 =? 32)) with false. cbv iota.
  rewrite dec_fixed_app by assumption. cbn [bind].
  destruct sk as [s|].
  - split_ok Hok. apply Nat.eqb_eq in Hok.
    assert (Hl : len (s ++ pk) = 64). { unfold len. rewrite app_length, Hok, H. reflexivity. }
    rewrite <- !app_assoc. rewrite dec_enc_uint by (rewrite Hl; reflexivity).
    cbn [bind]. rewrite Hl. change (64 =? 0) with false. change (64 =? 64) with true. cbv iota.
    rewrite app_assoc. rewrite dec_fixed_app by (rewrite app_length, Hok, H; reflexivity).
    cbn [bind]. rewrite firstn_app_exact by assumption. reflexivity.
  - cbn [app]. reflexivity.
Qed.

Lemma dec_enc_header_tree t r :
  fits_u64 (ht_fork t) = true -> fits_u64 (ht_length t) = true ->
  buffer_ok (ht_root_hash t) = true -> buffer_ok (ht_signature t) = true ->
  dec_header_tree (enc_header_tree t ++ r) = Ok (t, r).
Proof.
  intros H1 H2 H3 H4. unfold enc_header_tree, dec_header_tree.
  rewrite <- !app_assoc, dec_enc_uint by assumption. cbn [bind].
  rewrite dec_enc_uint by assumption. cbn [bind].
  rewrite dec_enc_buffer by now apply buffer_ok_inv. cbn [bind].
  rewrite dec_enc_buffer by now apply buffer_ok_inv. cbn [bind]. now destruct t.
Qed.

Lemma dec_manifest_enc ns pk r : length ns = 32%nat -> length pk = 32%nat ->
  dec_manifest (([0; 0; 1] ++ [0] ++ ns ++ pk) ++ r) = Ok (ns, pk, r).
Proof.
  intros H1 H2. rewrite <- !app_assoc. cbn [app]. unfold dec_manifest. cbn [dec_byte bind].
  change (negb (0 =? 0)) with false. change (negb (1 =? 1)) with false. cbv iota.
  rewrite dec_fixed_app by assumption. cbn [bind].
  rewrite dec_fixed_app by assumption. reflexivity.
Qed.

Lemma dec_enc_header h r : header_ok h = true -> dec_header (enc_header h ++ r) = Ok (h, r).
Proof.
  unfold header_ok. intros H. split_ok H.
  apply Nat.eqb_eq in H, Hok6, Hok5.
  unfold enc_header, dec_header.
  rewrite <- (app_assoc [1; 6]). rewrite (dec_fixed_app 2 [1; 6]) by reflexivity. cbn [bind].
  rewrite <- (app_assoc (hd_key h)). rewrite dec_fixed_app by assumption. cbn [bind].
  rewrite <- (app_assoc ([0; 0; 1] ++ _)). rewrite dec_manifest_enc by assumption. cbn [bind].
  rewrite <- (app_assoc (enc_keypair _)). rewrite dec_enc_keypair by assumption. cbn [bind].
  rewrite <- (app_assoc [0]). cbn [app]. rewrite dec_strings_zero. cbn [bind].
  rewrite <- (app_assoc (enc_header_tree _)). rewrite dec_enc_header_tree by assumption. cbn [bind].
  cbn [app]. rewrite dec_strings_zero. cbn [bind].
  rewrite dec_enc_uint by assumption. cbn [bind]. now destruct h.
Qed.

Lemma bytes_ok_enc_keypair k : keypair_ok k = true -> bytes_ok (enc_keypair k) = true.
Proof.
  destruct k as [pk sk]. unfold keypair_ok, enc_keypair, enc_buffer. cbn [kp_public kp_secret].
  intros H. split_ok H. apply Nat.eqb_eq in H.
  rewrite !bytes_ok_app, Hok0.
  rewrite bytes_ok_enc_uint by (unfold len; rewrite H; reflexivity). cbn [andb].
  destruct sk as [s|]; [|reflexivity]. split_ok Hok. apply Nat.eqb_eq in Hok.
  rewrite !bytes_ok_app, Hok1, Hok0.
  rewrite bytes_ok_enc_uint by (unfold len; rewrite app_length, Hok, H; reflexivity). reflexivity.
Qed.

Lemma buffer_ok_bytes v : buffer_ok v = true -> bytes_ok v = true.
Proof. unfold buffer_ok. intros H. now apply andb_prop in H. Qed.

(* header_ok does not constrain the contents of key / namespace / manifest public key (only their
   lengths), hence the three extra hypotheses *)
Lemma enc_header_bytes_ok h : header_ok h = true ->
  bytes_ok (hd_key h) = true -> bytes_ok (hd_ns h) = true -> bytes_ok (hd_mpk h) = true ->
  bytes_ok (enc_header h) = true.
Proof.
  unfold header_ok. intros H Hk Hn Hm. split_ok H.
  unfold enc_header, enc_header_tree. rewrite !bytes_ok_app, Hk, Hn, Hm.
  rewrite (bytes_ok_enc_keypair _ Hok4).
  rewrite !bytes_ok_enc_uint by assumption.
  rewrite !bytes_ok_enc_buffer by assumption. reflexivity.
Qed.

(* ---------- 2. entries ---------- *)

Definition tree_upgrade_ok (u : tree_upgrade) : bool :=
  fits_u64 (tu_fork u) && fits_u64 (tu_ancestors u) && fits_u64 (tu_length u) && buffer_ok (tu_signature u).
Definition bf_update_ok (u : bf_update) : bool := fits_u64 (bu_start u) && fits_u64 (bu_length u).

Lemma dec_enc_tree_upgrade u r : tree_upgrade_ok u = true ->
  dec_tree_upgrade (enc_tree_upgrade u ++ r) = Ok (u, r).
Proof.
  unfold tree_upgrade_ok. intros H. split_ok H. unfold enc_tree_upgrade, dec_tree_upgrade.
  rewrite <- !app_assoc, dec_enc_uint by assumption. cbn [bind].
  rewrite dec_enc_uint by assumption. cbn [bind].
  rewrite dec_enc_uint by assumption. cbn [bind].
  rewrite dec_enc_buffer by now apply buffer_ok_inv. cbn [bind]. now destruct u.
Qed.

Lemma dec_enc_bf_update u r : bf_update_ok u = true ->
  dec_bf_update (enc_bf_update u ++ r) = Ok (u, r).
Proof.
  unfold bf_update_ok. intros H. split_ok H. unfold enc_bf_update, dec_bf_update.
  rewrite <- !app_assoc. cbn [app dec_byte bind].
  rewrite dec_enc_uint by assumption. cbn [bind].
  rewrite dec_enc_uint by assumption. cbn [bind].
  destruct u as [d s l]. cbn [bu_drop bu_start bu_length]. now destruct d.
Qed.

Lemma bytes_ok_enc_tree_upgrade u : tree_upgrade_ok u = true -> bytes_ok (enc_tree_upgrade u) = true.
Proof.
  unfold tree_upgrade_ok. intros H. split_ok H. unfold enc_tree_upgrade.
  rewrite !bytes_ok_app, !bytes_ok_enc_uint by assumption.
  now rewrite bytes_ok_enc_buffer.
Qed.

Lemma bytes_ok_enc_bf_update u : bf_update_ok u = true -> bytes_ok (enc_bf_update u) = true.
Proof.
  unfold bf_update_ok. intros H. split_ok H. unfold enc_bf_update.
  rewrite !bytes_ok_app, !bytes_ok_enc_uint by assumption. now destruct (bu_drop u).
Qed.

Ltac closed_testbits :=
  repeat match goal with
         | |- context [N.testbit ?f ?i] =>
             let v := eval vm_compute in (N.testbit f i) in change (N.testbit f i) with v
         end.

Lemma dec_enc_entry e b r : entry_ok e = true -> enc_entry e = Ok b -> dec_entry (b ++ r) = Ok (e, r).
Proof.
  destruct e as [ns up bu]. unfold entry_ok, enc_entry, entry_flags.
  cbn [e_nodes e_upgrade e_bitfield]. intros H He. split_ok H.
  apply bind_ok in He as (nb & Hn & He). injection He as <-.
  unfold dec_entry. cbn [app]. rewrite <- !app_assoc. cbn [app dec_byte bind].
  destruct ns as [|n ns]; [injection Hn as <-|]; destruct up as [u|]; destruct bu as [bf|];
    closed_testbits; cbv iota; cbn [app bind];
    try (rewrite (dec_enc_nodes _ _ _ H Hn); cbn [bind]);
    try (rewrite dec_enc_tree_upgrade by assumption; cbn [bind]);
    try (rewrite dec_enc_bf_update by assumption; cbn [bind]);
    reflexivity.
Qed.

Lemma enc_entry_ok e : entry_ok e = true -> exists b, enc_entry e = Ok b /\ bytes_ok b = true.
Proof.
  destruct e as [ns up bu]. unfold entry_ok, enc_entry, entry_flags.
  cbn [e_nodes e_upgrade e_bitfield]. intros H. split_ok H.
  assert (exists nb, (match ns with [] => Ok [] | n :: l0 => enc_nodes (n :: l0) end) = Ok nb
                     /\ bytes_ok nb = true) as (nb & Hn & Hb).
  { destruct ns as [|n ns]; [eauto|]. destruct (enc_nodes_ok _ H) as [nb Hn].
    exists nb. split; [exact Hn|]. exact (bytes_ok_enc_nodes _ _ H Hn). }
  rewrite Hn. cbn [bind]. eexists. split; [reflexivity|].
  rewrite !bytes_ok_app, Hb.
  destruct up as [u|]; destruct bu as [bf|];
    rewrite ?bytes_ok_enc_tree_upgrade, ?bytes_ok_enc_bf_update by assumption;
    destruct ns; reflexivity.
Qed.

(* OplogFacts.v — round trips of the oplog header / entry codecs, CRC frames, entry scanning,
   the header slot automaton, tree-store node records. *)
From HC Require Import Base Codec CodecFacts Crypto Storage Bitfield Oplog.
From HC Require Merkle.
From Coq Require Import ZifyN ZifyNat ZifyBool.
Ltac Zify.zify_post_hook ::= Z.div_mod_to_equations.
Arguments N.add : simpl never.
Arguments N.sub : simpl never.
Arguments N.mul : simpl never.
Arguments N.div : simpl never.
Arguments N.modulo : simpl never.
Arguments N.pow : simpl never.
Arguments N.eqb : simpl never.
Arguments N.ltb : simpl never.
Arguments N.leb : simpl never.

(* ---------- well-formedness predicates ---------- *)

Definition keypair_ok (k : keypair) : bool :=
  Nat.eqb (length (kp_public k)) 32 && bytes_ok (kp_public k) &&
  match kp_secret k with Some s => Nat.eqb (length s) 32 && bytes_ok s | None => true end.
Definition header_ok (h : header) : bool :=
  Nat.eqb (length (hd_key h)) 32 && Nat.eqb (length (hd_ns h)) 32 && Nat.eqb (length (hd_mpk h)) 32 &&
  keypair_ok (hd_keypair h) && fits_u64 (ht_fork (hd_tree h)) && fits_u64 (ht_length (hd_tree h)) &&
  buffer_ok (ht_root_hash (hd_tree h)) && buffer_ok (ht_signature (hd_tree h)) && fits_u64 (hd_contig h).
Definition entry_ok (e : entry) : bool :=
  nodes_ok (e_nodes e) &&
  match e_upgrade e with Some u => fits_u64 (tu_fork u) && fits_u64 (tu_ancestors u) && fits_u64 (tu_length u) && buffer_ok (tu_signature u) | None => true end &&
  match e_bitfield e with Some u => fits_u64 (bu_start u) && fits_u64 (bu_length u) | None => true end.
Definition crc_ok (cr : crypto) : Prop := forall b, cr_crc cr b < 4294967296.

(* ---------- 1. header ---------- *)

Lemma dec_fixed_app n a r : length a = n -> dec_fixed n (a ++ r) = Ok (a, r).
Proof. intros <-. unfold dec_fixed. now rewrite take_app. Qed.

Lemma dec_strings_zero r : dec_strings (0 :: r) = Ok (tt, r).
Proof. reflexivity. Qed.

Lemma firstn_app_exact {A} (a b : list A) n : length a = n -> firstn n (a ++ b) = a.
Proof.
  intros <-. rewrite firstn_app, Nat.sub_diag, firstn_all. cbn [firstn]. apply app_nil_r.
Qed.

Lemma dec_enc_keypair k r : keypair_ok k = true -> dec_keypair (enc_keypair k ++ r) = Ok (k, r).
Proof.
  destruct k as [pk sk]. unfold keypair_ok. cbn [kp_public kp_secret]. intros H. split_ok H.
  apply Nat.eqb_eq in H.
  unfold enc_keypair, dec_keypair, enc_buffer. cbn [kp_public kp_secret].
  rewrite <- !app_assoc. rewrite dec_enc_uint by (unfold len; rewrite H; reflexivity).
  cbn [bind]. unfold len at 1. rewrite H. change (negb (N.of_nat 32 =? 32)) with false. cbv iota.
  rewrite dec_fixed_app by assumption. cbn [bind].
  destruct sk as [s|].
  - split_ok Hok. apply Nat.eqb_eq in Hok.
    assert (Hl : len (s ++ pk) = 64). { unfold len. rewrite app_length, Hok, H. reflexivity. }
    rewrite <- !app_assoc. rewrite dec_enc_uint by (rewrite Hl; reflexivity).
    cbn [bind]. rewrite Hl. change (64 =? 0) with false. change (64 =? 64) with true. cbv iota.
    rewrite app_assoc. rewrite dec_fixed_app by (rewrite app_length, Hok, H; reflexivity).
    cbn [bind]. rewrite firstn_app_exact by assumption. reflexivity.
  - cbn [app]. reflexivity.
Qed.

Lemma dec_enc_header_tree t r :
  fits_u64 (ht_fork t) = true -> fits_u64 (ht_length t) = true ->
  buffer_ok (ht_root_hash t) = true -> buffer_ok (ht_signature t) = true ->
  dec_header_tree (enc_header_tree t ++ r) = Ok (t, r).
Proof.
  intros H1 H2 H3 H4. unfold enc_header_tree, dec_header_tree.
  rewrite <- !app_assoc, dec_enc_uint by assumption. cbn [bind].
  rewrite dec_enc_uint by assumption. cbn [bind].
  rewrite dec_enc_buffer by now apply buffer_ok_inv. cbn [bind].
  rewrite dec_enc_buffer by now apply buffer_ok_inv. cbn [bind]. now destruct t.
Qed.

Lemma dec_manifest_enc ns pk r : length ns = 32%nat -> length pk = 32%nat ->
  dec_manifest (([0; 0; 1] ++ [0] ++ ns ++ pk) ++ r) = Ok (ns, pk, r).
Proof.
  intros H1 H2. rewrite <- !app_assoc. cbn [app]. unfold dec_manifest. cbn [dec_byte bind].
  change (negb (0 =? 0)) with false. change (negb (1 =? 1)) with false. cbv iota.
  rewrite dec_fixed_app by assumption. cbn [bind].
  rewrite dec_fixed_app by assumption. reflexivity.
Qed.

Lemma dec_enc_header h r : header_ok h = true -> dec_header (enc_header h ++ r) = Ok (h, r).
Proof.
  unfold header_ok. intros H. split_ok H.
  apply Nat.eqb_eq in H, Hok6, Hok5.
  unfold enc_header, dec_header.
  rewrite <- (app_assoc [1; 6]). rewrite (dec_fixed_app 2 [1; 6]) by reflexivity. cbn [bind].
  rewrite <- (app_assoc (hd_key h)). rewrite dec_fixed_app by assumption. cbn [bind].
  rewrite <- (app_assoc ([0; 0; 1] ++ _)). rewrite dec_manifest_enc by assumption. cbn [bind].
  rewrite <- (app_assoc (enc_keypair _)). rewrite dec_enc_keypair by assumption. cbn [bind].
  rewrite <- (app_assoc [0]). cbn [app]. rewrite dec_strings_zero. cbn [bind].
  rewrite <- (app_assoc (enc_header_tree _)). rewrite dec_enc_header_tree by assumption. cbn [bind].
  cbn [app]. rewrite dec_strings_zero. cbn [bind].
  rewrite dec_enc_uint by assumption. cbn [bind]. now destruct h.
Qed.

Lemma bytes_ok_enc_keypair k : keypair_ok k = true -> bytes_ok (enc_keypair k) = true.
Proof.
  destruct k as [pk sk]. unfold keypair_ok, enc_keypair, enc_buffer. cbn [kp_public kp_secret].
  intros H. split_ok H. apply Nat.eqb_eq in H.
  rewrite !bytes_ok_app, Hok0.
  rewrite bytes_ok_enc_uint by (unfold len; rewrite H; reflexivity). cbn [andb].
  destruct sk as [s|]; [|reflexivity]. split_ok Hok. apply Nat.eqb_eq in Hok.
  rewrite !bytes_ok_app, Hok1, Hok0.
  rewrite bytes_ok_enc_uint by (unfold len; rewrite app_length, Hok, H; reflexivity). reflexivity.
Qed.

Lemma buffer_ok_bytes v : buffer_ok v = true -> bytes_ok v = true.
Proof. unfold buffer_ok. intros H. now apply andb_prop in H. Qed.

(* header_ok does not constrain the contents of key / namespace / manifest public key (only their
   lengths), hence the three extra premises *)
Lemma enc_header_bytes_ok h : header_ok h = true ->
  bytes_ok (hd_key h) = true -> bytes_ok (hd_ns h) = true -> bytes_ok (hd_mpk h) = true ->
  bytes_ok (enc_header h) = true.
Proof.
  unfold header_ok. intros H Hk Hn Hm. split_ok H.
  unfold enc_header, enc_header_tree. rewrite !bytes_ok_app, Hk, Hn, Hm.
  rewrite (bytes_ok_enc_keypair _ Hok4).
  rewrite !bytes_ok_enc_uint by assumption.
  rewrite !bytes_ok_enc_buffer by assumption. reflexivity.
Qed.

(* ---------- 2. entries ---------- *)

Definition tree_upgrade_ok (u : tree_upgrade) : bool :=
  fits_u64 (tu_fork u) && fits_u64 (tu_ancestors u) && fits_u64 (tu_length u) && buffer_ok (tu_signature u).
Definition bf_update_ok (u : bf_update) : bool := fits_u64 (bu_start u) && fits_u64 (bu_length u).

Lemma dec_enc_tree_upgrade u r : tree_upgrade_ok u = true ->
  dec_tree_upgrade (enc_tree_upgrade u ++ r) = Ok (u, r).
Proof.
  unfold tree_upgrade_ok. intros H. split_ok H. unfold enc_tree_upgrade, dec_tree_upgrade.
  rewrite <- !app_assoc, dec_enc_uint by assumption. cbn [bind].
  rewrite dec_enc_uint by assumption. cbn [bind].
  rewrite dec_enc_uint by assumption. cbn [bind].
  rewrite dec_enc_buffer by now apply buffer_ok_inv. cbn [bind]. now destruct u.
Qed.

Lemma dec_enc_bf_update u r : bf_update_ok u = true ->
  dec_bf_update (enc_bf_update u ++ r) = Ok (u, r).
Proof.
  unfold bf_update_ok. intros H. split_ok H. unfold enc_bf_update, dec_bf_update.
  rewrite <- !app_assoc. cbn [app dec_byte bind].
  rewrite dec_enc_uint by assumption. cbn [bind].
  rewrite dec_enc_uint by assumption. cbn [bind].
  destruct u as [d s l]. cbn [bu_drop bu_start bu_length]. now destruct d.
Qed.

Lemma bytes_ok_enc_tree_upgrade u : tree_upgrade_ok u = true -> bytes_ok (enc_tree_upgrade u) = true.
Proof.
  unfold tree_upgrade_ok. intros H. split_ok H. unfold enc_tree_upgrade.
  rewrite !bytes_ok_app, !bytes_ok_enc_uint by assumption.
  now rewrite bytes_ok_enc_buffer.
Qed.

Lemma bytes_ok_enc_bf_update u : bf_update_ok u = true -> bytes_ok (enc_bf_update u) = true.
Proof.
  unfold bf_update_ok. intros H. split_ok H. unfold enc_bf_update.
  rewrite !bytes_ok_app, !bytes_ok_enc_uint by assumption. now destruct (bu_drop u).
Qed.

Ltac closed_testbits :=
  repeat match goal with
         | |- context [N.testbit ?f ?i] =>
             let v := eval vm_compute in (N.testbit f i) in change (N.testbit f i) with v
         end.

Lemma dec_enc_entry e b r : entry_ok e = true -> enc_entry e = Ok b -> dec_entry (b ++ r) = Ok (e, r).
Proof.
  destruct e as [ns up bu]. unfold entry_ok, enc_entry, entry_flags.
  cbn [e_nodes e_upgrade e_bitfield]. intros H He. split_ok H.
  apply bind_ok in He as (nb & Hn & He). injection He as <-.
  unfold dec_entry. cbn [app]. rewrite <- !app_assoc. cbn [app dec_byte bind].
  destruct ns as [|n ns]; [injection Hn as <-|]; destruct up as [u|]; destruct bu as [bf|];
    closed_testbits; cbv iota; cbn [app bind];
    try (rewrite (dec_enc_nodes _ _ _ H Hn); cbn [bind]);
    try (rewrite dec_enc_tree_upgrade by assumption; cbn [bind]);
    try (rewrite dec_enc_bf_update by assumption; cbn [bind]);
    reflexivity.
Qed.

Lemma enc_entry_ok e : entry_ok e = true -> exists b, enc_entry e = Ok b /\ bytes_ok b = true.
Proof.
  destruct e as [ns up bu]. unfold entry_ok, enc_entry, entry_flags.
  cbn [e_nodes e_upgrade e_bitfield]. intros H. split_ok H.
  assert (exists nb, (match ns with [] => Ok [] | n :: l0 => enc_nodes (n :: l0) end) = Ok nb
                     /\ bytes_ok nb = true) as (nb & Hn & Hb).
  { destruct ns as [|n ns]; [eauto|]. destruct (enc_nodes_ok _ H) as [nb Hn].
    exists nb. split; [exact Hn|]. exact (bytes_ok_enc_nodes _ _ H Hn). }
  rewrite Hn. cbn [bind]. eexists. split; [reflexivity|].
  rewrite !bytes_ok_app, Hb.
  destruct up as [u|]; destruct bu as [bf|];
    rewrite ?bytes_ok_enc_tree_upgrade, ?bytes_ok_enc_bf_update by assumption;
    destruct ns; reflexivity.
Qed.

(* ---------- 3. frames ---------- *)

Lemma take_app_n n a r : length a = n -> take n (a ++ r) = Some (a, r).
Proof. intros <-. apply take_app. Qed.

Lemma take_short n b : (length b < n)%nat -> take n b = None.
Proof.
  revert b; induction n as [|n IH]; intros b Hb; [lia|]. cbn [take].
  destruct b as [|x b]; [reflexivity|]. cbn [length] in Hb. rewrite IH by lia. reflexivity.
Qed.

Lemma len_field_arith n bb pp : n < 1073741824 -> bb < 2 -> pp < 2 ->
  n * 4 + 2 * pp + bb < 4294967296 /\ (n * 4 + 2 * pp + bb) / 4 = n /\
  n * 4 + 2 * pp + bb = bb + 2 * (2 * n + pp) /\ (n * 4 + 2 * pp + bb) / 2 = pp + 2 * n.
Proof. intros Hn Hb Hp. repeat split; lia. Qed.

Lemma len_field_facts n b p : n < 1073741824 ->
  len_field n b p < 4294967296 /\ len_field n b p / 4 = n /\
  N.odd (len_field n b p) = b /\ N.odd (len_field n b p / 2) = p.
Proof.
  intros Hn. unfold len_field.
  assert (Hb : (if b then 1 else 0) < 2) by (destruct b; lia).
  assert (Hp : (if p then 2 else 0) = 2 * (if p then 1 else 0)) by (destruct p; lia).
  assert (Hp' : (if p then 1 else 0) < 2) by (destruct p; lia).
  rewrite Hp.
  destruct (len_field_arith n _ _ Hn Hb Hp') as (H1 & H2 & H3 & H4).
  split; [exact H1|]. split; [exact H2|]. split.
  - rewrite H3, N.odd_add_mul_2. now destruct b.
  - rewrite H4, N.odd_add_mul_2. now destruct p.
Qed.

Lemma len_le_bytes n v : len (le_bytes n v) = N.of_nat n.
Proof. unfold len. now rewrite length_le_bytes. Qed.

Lemma frame_inv cr bit partial payload fr : frame cr bit partial payload = Ok fr ->
  len payload < 1073741824 /\
  fr = le_bytes 4 (cr_crc cr (le_bytes 4 (len_field (len payload) bit partial) ++ payload))
       ++ le_bytes 4 (len_field (len payload) bit partial) ++ payload.
Proof.
  unfold frame. destruct (1073741824 <=? len payload) eqn:E; [discriminate|].
  intros [= <-]. split; [lia | reflexivity].
Qed.

Lemma validate_frame cr bit partial payload fr r :
  crc_ok cr -> payload <> [] -> frame cr bit partial payload = Ok fr ->
  validate_leader cr (fr ++ r) = Some (mkLeader bit partial (len payload) (payload ++ r)).
Proof.
  intros Hcrc Hne Hfr. apply frame_inv in Hfr as [Hlen ->].
  destruct (len_field_facts (len payload) bit partial Hlen) as (Hlf & Hdiv & Hodd & Hodd2).
  set (lf := le_bytes 4 (len_field (len payload) bit partial)) in *.
  unfold validate_leader. rewrite <- !app_assoc.
  rewrite (take_app_n 4) by apply length_le_bytes.
  rewrite (take_app_n 4) by apply length_le_bytes.
  assert (Hv : le_val lf = len_field (len payload) bit partial).
  { subst lf. apply le_val_le_bytes. exact Hlf. }
  rewrite Hv, Hdiv, Hodd, Hodd2.
  assert (len payload =? 0 = false) as ->.
  { destruct payload; [contradiction|]. rewrite len_cons. lia. }
  assert (len (payload ++ r) <? len payload = false) as -> by (rewrite len_app; lia).
  cbn [orb]. unfold len at 1. rewrite Nat2N.id, firstn_app_exact by reflexivity.
  rewrite le_val_le_bytes by apply Hcrc. rewrite N.eqb_refl. reflexivity.
Qed.

Lemma frame_length cr bit partial payload fr :
  frame cr bit partial payload = Ok fr -> len fr = 8 + len payload.
Proof.
  intros Hfr. apply frame_inv in Hfr as [_ ->]. rewrite !len_app, !len_le_bytes. lia.
Qed.

Lemma validate_short cr buf : (length buf < 8)%nat -> validate_leader cr buf = None.
Proof.
  intros Hb. unfold validate_leader. destruct (take 4 buf) as [[c r1]|] eqn:E; [|reflexivity].
  apply take_length in E as [-> Hc]. rewrite app_length in Hb.
  rewrite take_short by lia. reflexivity.
Qed.

(* a torn frame with nothing after it is never a frame: no CRC argument needed *)
Lemma validate_torn_entry_strong cr bit partial payload fr t :
  frame cr bit partial payload = Ok fr -> (t < length fr)%nat ->
  validate_leader cr (firstn t fr) = None.
Proof.
  intros Hfr Ht. destruct (Nat.lt_ge_cases t 8) as [Hs|Hs].
  { apply validate_short. rewrite firstn_length. lia. }
  apply frame_inv in Hfr as [Hlen ->].
  destruct (len_field_facts (len payload) bit partial Hlen) as (Hlf & Hdiv & _).
  set (lf := le_bytes 4 (len_field (len payload) bit partial)) in *.
  set (c := le_bytes 4 (cr_crc cr (lf ++ payload))) in *.
  assert (Hlc : length c = 4%nat) by apply length_le_bytes.
  assert (Hll : length lf = 4%nat) by apply length_le_bytes.
  rewrite !app_length, Hlc, Hll in Ht.
  rewrite firstn_app, Hlc, (firstn_all2 c) by lia.
  rewrite firstn_app, Hll, (firstn_all2 lf) by lia.
  unfold validate_leader.
  rewrite (take_app_n 4) by assumption. rewrite (take_app_n 4) by assumption.
  assert (Hv : le_val lf = len_field (len payload) bit partial).
  { subst lf. apply le_val_le_bytes. exact Hlf. }
  rewrite Hv, Hdiv.
  assert (len (firstn (t - 4 - 4) payload) <? len payload = true) as ->.
  { unfold len. rewrite firstn_length. lia. }
  rewrite orb_true_r. reflexivity.
Qed.

Lemma validate_torn_entry cr bit partial payload fr t :
  frame cr bit partial payload = Ok fr -> (t < length fr)%nat ->
  validate_leader cr (firstn t fr) = None \/ (exists x y, x <> y /\ cr_crc cr x = cr_crc cr y).
Proof. intros Hfr Ht. left. eapply validate_torn_entry_strong; eauto. Qed.

(* ---------- 6. node records of the tree store ---------- *)

Lemma skipn_app_exact {A} (a b : list A) n : length a = n -> skipn n (a ++ b) = b.
Proof.
  intros <-. rewrite skipn_app, Nat.sub_diag, skipn_all. reflexivity.
Qed.

Lemma node_to_bytes_length n : Nat.eqb (length (n_hash n)) 32 = true ->
  length (Merkle.node_to_bytes n) = 40%nat.
Proof.
  intros H. apply Nat.eqb_eq in H. unfold Merkle.node_to_bytes.
  rewrite app_length, length_le_bytes, H. reflexivity.
Qed.

Lemma node_bytes_roundtrip n : Nat.eqb (length (n_hash n)) 32 = true -> n_length n < 2 ^ 64 ->
  Merkle.node_from_bytes (n_index n) (Merkle.node_to_bytes n) = n.
Proof.
  intros _ Hl. change (2 ^ 64) with 18446744073709551616 in Hl.
  unfold Merkle.node_from_bytes, Merkle.node_to_bytes.
  rewrite firstn_app_exact by apply length_le_bytes.
  rewrite skipn_app_exact by apply length_le_bytes.
  rewrite le_val_le_bytes by (change (256 ^ N.of_nat 8) with 18446744073709551616; exact Hl).
  now destruct n.
Qed.

(* ---------- 5. the slot / bit automaton ---------- *)

Lemma next_slot_current : forall bits, let '(slot, bit, bits') := next_slot bits in
  current_bit bits' = negb (current_bit bits) /\
  (slot = 0 \/ slot = HEADER_SIZE) /\
  (slot = 0 -> fst bits' = bit /\ snd bits' = snd bits) /\
  (slot = HEADER_SIZE -> snd bits' = bit /\ fst bits' = fst bits).
Proof.
  intros [[] []]; vm_compute; repeat split; auto; discriminate.
Qed.

(* oplog_open with two valid slots carrying bits (b0, b1) decodes slot 0 iff b0 = b1 *)
Lemma slot_choice : forall bits, let '(slot, _, bits') := next_slot bits in
  (slot = 0 <-> fst bits <> snd bits) /\
  (Bool.eqb (fst bits') (snd bits') = true <-> slot = 0).
Proof.
  intros [[] []]; vm_compute; repeat split; auto; try discriminate; try congruence;
    intros H; exfalso; apply H; reflexivity.
Qed.

Inductive reachable : bool * bool -> Prop :=
| reach_init : reachable INITIAL_HEADER_BITS
| reach_next bits : reachable bits -> reachable (snd (next_slot bits)).

Lemma reachable_all bits : reachable bits.
Proof.
  pose proof reach_init as H0.
  pose proof (reach_next _ H0) as H1.
  pose proof (reach_next _ H1) as H2.
  pose proof (reach_next _ H2) as H3.
  destruct bits as [[] []]; [exact H3 | exact H0 | exact H2 | exact H1].
Qed.

(* what oplog_open reconstructs when only one slot validates *)
Definition only_slot0_bits (b : bool) : bool * bool := (b, b).
Definition only_slot1_bits (b : bool) : bool * bool := (negb b, b).

(* bits as seen by an open after the write chosen by [next_slot bits] was torn: the written
   (non-current) slot is invalid, the other slot still has its old bit *)
Definition torn_bits (bits : bool * bool) : bool * bool :=
  let '(slot, _, _) := next_slot bits in
  if slot =? 0 then only_slot1_bits (snd bits) else only_slot0_bits (fst bits).

Lemma invalid_other_slot : forall bits, reachable bits ->
  let '(slot, bit, bits') := next_slot bits in
  torn_bits bits = bits /\
  current_bit (torn_bits bits) = current_bit bits /\
  (* the pair designates the old slot, i.e. the one that was not written *)
  (Bool.eqb (fst (torn_bits bits)) (snd (torn_bits bits)) = true <-> slot = HEADER_SIZE).
Proof.
  intros [[] []] _; vm_compute; repeat split; auto; discriminate.
Qed.

(* ---------- 4. scanning entries ---------- *)

(* the concatenated frames of a list of (entry, partial flag), all carrying header bit [bit] *)
Fixpoint frames (cr : crypto) (bit : bool) (l : list (entry * bool)) : res bytes :=
  match l with
  | [] => Ok []
  | (e, p) :: r =>
      payload <- enc_entry e ;;
      fr <- frame cr bit p payload ;;
      rest <- frames cr bit r ;;
      Ok (fr ++ rest)
  end.

(* frame size of an entry: 8 bytes of leader + its encoding *)
Definition entry_size (e : entry) : N :=
  match enc_entry e with Ok b => 8 + len b | _ => 0 end.

Definition scanned_of (l : list (entry * bool)) : list (entry * bool * N) :=
  map (fun x => (fst x, snd x, entry_size (fst x))) l.

(* [rest] does not start with a valid frame of the current epoch *)
Definition no_frame_here (cr : crypto) (bit : bool) (rest : bytes) : Prop :=
  validate_leader cr rest = None \/
  exists ld, validate_leader cr rest = Some ld /\ ld_bit ld <> bit.

Lemma enc_entry_nonempty e b : enc_entry e = Ok b -> b <> [].
Proof.
  unfold enc_entry. intros H. apply bind_ok in H as (ns & _ & H). injection H as <-.
  cbn [app]. discriminate.
Qed.

Lemma scan_entries_app_acc cr bit rest : crc_ok cr -> no_frame_here cr bit rest ->
  forall l fuel body acc,
    forallb (fun x => entry_ok (fst x)) l = true ->
    frames cr bit l = Ok body -> (length l < fuel)%nat ->
    scan_entries cr fuel bit (body ++ rest) acc = Ok (rev acc ++ scanned_of l).
Proof.
  intros Hcrc Hrest. induction l as [|[e p] l IH]; intros fuel body acc Hok Hfr Hfuel.
  - injection Hfr as <-. cbn [app scanned_of map]. rewrite app_nil_r.
    destruct fuel as [|f]; [cbn in Hfuel; lia|]. cbn [scan_entries].
    destruct Hrest as [-> | (ld & -> & Hbit)]; [reflexivity|].
    destruct (ld_bit ld), bit; try reflexivity; exfalso; apply Hbit; reflexivity.
  - cbn [frames] in Hfr. apply bind_ok in Hfr as (payload & Hp & Hfr).
    apply bind_ok in Hfr as (fr & Hf & Hfr). apply bind_ok in Hfr as (body' & Hb & Hfr).
    injection Hfr as <-.
    cbn [forallb fst] in Hok. apply andb_prop in Hok as [He Hl].
    destruct fuel as [|f]; [cbn in Hfuel; lia|]. cbn [scan_entries].
    rewrite <- app_assoc.
    rewrite (validate_frame cr bit p payload fr (body' ++ rest) Hcrc
               (enc_entry_nonempty _ _ Hp) Hf).
    cbn [ld_bit ld_state ld_partial]. rewrite Bool.eqb_reflx. cbn [negb].
    rewrite (dec_enc_entry e payload (body' ++ rest) He Hp). cbn [lift_enc bind].
    rewrite (IH f body' _ Hl Hb) by (cbn [length] in Hfuel; lia).
    cbn [rev scanned_of map fst snd]. rewrite <- app_assoc. cbn [app].
    unfold entry_size. rewrite Hp.
    replace (len (fr ++ body' ++ rest) - len (body' ++ rest)) with (8 + len payload); [reflexivity|].
    rewrite (len_app fr), (frame_length _ _ _ _ _ Hf). lia.
Qed.

Lemma scan_entries_app cr fuel bit l body rest :
  crc_ok cr -> forallb (fun x => entry_ok (fst x)) l = true ->
  frames cr bit l = Ok body -> no_frame_here cr bit rest -> (length l < fuel)%nat ->
  scan_entries cr fuel bit (body ++ rest) [] = Ok (scanned_of l).
Proof.
  intros Hcrc Hok Hfr Hrest Hfuel.
  exact (scan_entries_app_acc cr bit rest Hcrc Hrest l fuel body [] Hok Hfr Hfuel).
Qed.

(* the fuel oplog_open passes, [S (length buf)], is always enough *)
Lemma frames_length cr bit l body : frames cr bit l = Ok body -> (length l <= length body)%nat.
Proof.
  revert body; induction l as [|[e p] l IH]; intros body Hfr; [cbn; lia|].
  cbn [frames] in Hfr. apply bind_ok in Hfr as (payload & Hp & Hfr).
  apply bind_ok in Hfr as (fr & Hf & Hfr). apply bind_ok in Hfr as (body' & Hb & Hfr).
  injection Hfr as <-. specialize (IH _ Hb). rewrite app_length. cbn [length].
  pose proof (frame_length _ _ _ _ _ Hf) as Hl. unfold len in Hl. lia.
Qed.

Lemma scan_entries_open_fuel cr bit l body rest :
  crc_ok cr -> forallb (fun x => entry_ok (fst x)) l = true ->
  frames cr bit l = Ok body -> no_frame_here cr bit rest ->
  scan_entries cr (S (length (body ++ rest))) bit (body ++ rest) [] = Ok (scanned_of l).
Proof.
  intros Hcrc Hok Hfr Hrest. apply scan_entries_app; auto.
  pose proof (frames_length _ _ _ _ Hfr). rewrite app_length. lia.
Qed.

(* drop_trailing_partials *)

Definition is_partial (x : entry * bool * N) : bool := snd (fst x).

Lemma drop_trailing_partials_rev rl : exists removed,
  rl = removed ++ drop_trailing_partials rl /\
  Forall (fun x => is_partial x = true) removed /\
  match drop_trailing_partials rl with [] => True | x :: _ => is_partial x = false end.
Proof.
  induction rl as [|[[e p] n] rl IH].
  - exists []. cbn. auto.
  - destruct p.
    + cbn [drop_trailing_partials]. destruct IH as (rm & H1 & H2 & H3).
      exists ((e, true, n) :: rm). split; [cbn [app]; now rewrite <- H1|]. split; [|exact H3].
      constructor; [reflexivity | exact H2].
    + exists []. cbn. auto.
Qed.

Lemma drop_trailing_partials_spec l : exists removed,
  l = rev (drop_trailing_partials (rev l)) ++ removed /\
  Forall (fun x => is_partial x = true) removed /\
  (forall k x, rev (drop_trailing_partials (rev l)) = k ++ [x] -> is_partial x = false).
Proof.
  destruct (drop_trailing_partials_rev (rev l)) as (rm & H1 & H2 & H3).
  exists (rev rm). split; [|split].
  - rewrite <- rev_app_distr, <- H1. symmetry. apply rev_involutive.
  - apply Forall_rev. exact H2.
  - intros k x Hk. apply (f_equal (@rev _)) in Hk. rewrite rev_involutive, rev_app_distr in Hk.
    cbn [rev app] in Hk. rewrite Hk in H3. exact H3.
Qed.

Print Assumptions dec_enc_header.
Print Assumptions enc_header_bytes_ok.
Print Assumptions dec_enc_entry.
Print Assumptions enc_entry_ok.
Print Assumptions validate_frame.
Print Assumptions frame_length.
Print Assumptions validate_short.
Print Assumptions validate_torn_entry_strong.
Print Assumptions validate_torn_entry.
Print Assumptions node_to_bytes_length.
Print Assumptions node_bytes_roundtrip.
Print Assumptions next_slot_current.
Print Assumptions slot_choice.
Print Assumptions reachable_all.
Print Assumptions invalid_other_slot.
Print Assumptions scan_entries_app.
Print Assumptions scan_entries_open_fuel.
Print Assumptions drop_trailing_partials_spec.

(* OrderTie.v — tie between the ORDER of the protocol steps in the crate's mutating calls (SrcOrder.v, regenerated from
   /repo/src/core.rs on every run by tools/srcorder.py) and the order the model implements. The model's order is fixed by the
   definitions of Core.v (core_append, core_clear, core_apply_proof, core_make_read_only, flush_all) and is what the journal
   theorems state: C01_append_journal_order (data write, entry write, then the flush group), CrashClear2.clear_Y (entry write, data
   hole, flush group), ReadOnly.make_read_only_correct (pages, nodes, slot, truncate, slot, truncate), CoreFacts.append_events /
   apply_events (events after the last storage operation). A reordering in the source (checkpoint before the entry, events before
   the checkpoint, oplog flushed before the bitfield …) or a storage Result that is no longer propagated with `?` breaks these
   obligations even if no generated history happens to expose it; a function that was renamed or restructured beyond recognition
   yields None and the clause is trivially true.
   This file holds the vocabulary; the obligations are split by the property they matter to (a change fails the gate of no other property):
   OrderTieStorage.v (C02: order of the storage steps), OrderTieResult.v (C10: every storage Result propagated),
   OrderTieEvents.v (C13: events sent after the checkpoint, as the last step). *)
From Coq Require Import List String NArith.
From HC Require Import SrcOrder.
Import ListNotations.
Local Open Scope string_scope.

Definition tied_order {A} (src : option A) (model : A) : Prop :=
  match src with Some v => v = model | None => True end.

(* the order of the model, step by step (names as in tools/srcorder.py) *)
Definition model_order_append : list string := ["data"; "entry"; "bitfield"; "commit"; "checkpoint"; "events"].
Definition model_order_clear : list string := ["entry"; "bitfield"; "data"; "checkpoint"].
Definition model_order_apply : list string := ["data"; "entry"; "bitfield"; "commit"; "checkpoint"; "events"].
Definition model_order_read_only : list string := ["erase_secret"; "checkpoint"].
Definition model_order_flush : list string := ["flush_bitfield"; "flush_tree"; "flush_oplog"].

Ltac tie := vm_compute; first [reflexivity | exact I].

(* the storage-relevant part of an order: everything but the sending of events *)
Definition storage_steps (l : list string) : list string := filter (fun s => negb (String.eqb s "events")) l.
(* the position of the events: what follows the first "events" step (must be nothing), and whether "checkpoint" precedes it *)
Fixpoint after_events (l : list string) : option (list string) :=
  match l with [] => None | s :: r => if String.eqb s "events" then Some r else after_events r end.
Fixpoint before_events (l : list string) : list string :=
  match l with [] => [] | s :: r => if String.eqb s "events" then [] else s :: before_events r end.
Definition events_last_after_checkpoint (l : list string) : bool :=
  match after_events l with
  | Some [] => existsb (String.eqb "checkpoint") (before_events l)
  | _ => false
  end.

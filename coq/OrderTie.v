(* OrderTie.v — tie between the ORDER of the protocol steps in the crate's mutating calls (SrcOrder.v, regenerated from
   /repo/src/core.rs on every run by tools/srcorder.py) and the order the model implements. The model's order is fixed by the
   definitions of Core.v (core_append, core_clear, core_apply_proof, core_make_read_only, flush_all) and is what the journal
   theorems state: C01_append_journal_order (data write, entry write, then the flush group), CrashClear2.clear_Y (entry write, data
   hole, flush group), ReadOnly.make_read_only_correct (pages, nodes, slot, truncate, slot, truncate), CoreFacts.append_events /
   apply_events (events after the last storage operation). A reordering in the source (checkpoint before the entry, events before
   the checkpoint, oplog flushed before the bitfield …) or a storage Result that is no longer propagated with `?` breaks these
   obligations even if no generated history happens to expose it; a function that was renamed or restructured beyond recognition
   yields None and the clause is trivially true. *)
From Coq Require Import List String NArith.
From HC Require Import SrcOrder.
Import ListNotations.
Local Open Scope string_scope.

Definition tied_order {A} (src : option A) (model : A) : Prop :=
  match src with Some v => v = model | None => True end.

(* the order of the model, step by step (names as in tools/srcorder.py) *)
Definition model_order_append : list string := ["data"; "entry"; "bitfield"; "commit"; "checkpoint"; "events"].
Definition model_order_clear : list string := ["entry"; "bitfield"; "data"; "checkpoint"].
Definition model_order_apply : list string := ["data"; "entry"; "bitfield"; "commit"; "checkpoint"; "events"].
Definition model_order_read_only : list string := ["erase_secret"; "checkpoint"].
Definition model_order_flush : list string := ["flush_bitfield"; "flush_tree"; "flush_oplog"].

Ltac tie := vm_compute; first [reflexivity | exact I].

Theorem source_order_is_the_models :
  tied_order src_order_append_batch model_order_append /\
  tied_order src_order_clear model_order_clear /\
  tied_order src_order_verify_and_apply_proof model_order_apply /\
  tied_order src_order_make_read_only model_order_read_only /\
  tied_order src_order_flush_bitfield_and_tree_and_oplog model_order_flush.
Proof. repeat split; tie. Qed.

(* Storage::flush_info(s) and the checkpoint return a Result: in the model a failing storage operation ends the call with the error
   (Core.emit; Fault.v / CrashClear4.fault_is_cut). In the source every such call must be followed by `.await?`. *)
Theorem source_propagates_every_storage_result :
  tied_order src_unpropagated_append_batch 0%N /\
  tied_order src_unpropagated_clear 0%N /\
  tied_order src_unpropagated_verify_and_apply_proof 0%N /\
  tied_order src_unpropagated_make_read_only 0%N /\
  tied_order src_unpropagated_flush_bitfield_and_tree_and_oplog 0%N.
Proof. repeat split; tie. Qed.

Print Assumptions source_order_is_the_models.
Print Assumptions source_propagates_every_storage_result.

(* AcceptAllHist.v -- C03 at the core level, part 4: histories ("replicas converge").
   A history of a replica is a list of events:
     EServe f rq cw dw jw evw bw sg : the writer, in the state (cw, dw) it has when its log is the prefix bw of bs
                                      (writer appends between two events simply make bw longer), serves the request rq
                                      with core_create_proof; the replica applies the proof with flush decision f;
     EReopen                        : the replica is closed and opened again (core_open).
   If every request is well formed for the state in which it is sent (wf_request, core_scope: block and / or full
   upgrade), then every step of the history succeeds (create returns a proof, apply returns Ok true, reopen returns the
   core), the replica invariant (memory + disk, closed stored nodes) holds at the end, every block requested on the way
   is held, nothing held is lost, and every held block reads byte-identical to the writer's -- or a hash collision /
   a signature on a message the writer never signed is exhibited. *)
From HC Require Import Base NMap Codec CodecFacts Crypto FlatTree Storage Bitfield Oplog Merkle Core.
From HC Require Import FlatTreeFacts Sound NoPanic TreeRef OffsetFacts CoreFacts Refine Replicate Replicate2 Replicate2Z Replicate2D Replicate2E.
From HC Require Import Unified1 SoundCoreLib SoundCore SoundCoreUp SoundCoreBU ReplicaDisk1 ReplicaDisk2 ReplicaDisk3 ReplicaDisk4.
From HC Require Import AcceptAll1 AcceptAll2 AcceptAll3 AcceptAll AcceptAllCore1 AcceptAllClo AcceptAllClo2 AcceptAllFlush AcceptAllCore2 AcceptAllCore3.
From Coq Require Import FMapPositive ZifyN ZifyNat ZifyBool.
Ltac Zify.zify_post_hook ::= Z.div_mod_to_equations.
Arguments N.add : simpl never.
Arguments N.sub : simpl never.
Arguments N.mul : simpl never.
Arguments N.div : simpl never.
Arguments N.modulo : simpl never.
Arguments N.pow : simpl never.
Arguments N.eqb : simpl never.
Arguments N.ltb : simpl never.
Arguments N.leb : simpl never.
Arguments N.of_nat : simpl never.
Arguments N.to_nat : simpl never.
Arguments N.log2 : simpl never.

Inductive revent :=
| EServe (f : option bool) (rq : request) (cw : core) (dw : disk) (jw : list sop) (evw : list event)
         (bw : list bytes) (sg : bytes)
| EReopen.

Section Histories.
  Variable cr : crypto.
  Hypothesis Hcrc : OplogFacts.crc_ok cr.
  Hypothesis Hhash32 : forall x, length (cr_hash cr x) = 32%nat.
  Hypothesis Hnonblank : forall x, all_zero (cr_hash cr x) = false.
  Hypothesis Hhashbytes : forall x, bytes_ok (cr_hash cr x) = true.
  Variable bs : list bytes.
  Hypothesis Hw : writer_fits bs.

  (* one event, executed: None = some call failed or refused *)
  Definition exec (c : core) (w : world) (e : revent) : option (core * world) :=
    match e with
    | EServe f rq cw dw jw evw bw sg =>
        match core_create_proof (rq_block rq) (rq_hash rq) (rq_seek rq) (rq_upgrade rq) cw (mkWorld dw jw evw) with
        | (_, _, Ok (Some pf)) =>
            match core_apply_proof cr f pf c w with
            | (c', w', Ok true) => Some (c', w')
            | _ => None
            end
        | _ => None
        end
    | EReopen =>
        match core_open cr None true (w_disk w) with
        | (d', _, Ok c') => Some (c', mkWorld d' (w_journal w) (w_events w))
        | _ => None
        end
    end.

  Fixpoint run (es : list revent) (c : core) (w : world) : option (core * world) :=
    match es with
    | [] => Some (c, w)
    | e :: rest => match exec c w e with Some (c', w') => run rest c' w' | None => None end
    end.

  (* the request of an event is well formed for the replica state it is sent from *)
  Definition pre (c : core) (d : disk) (e : revent) : Prop :=
    match e with
    | EServe f rq cw dw jw evw bw sg =>
        let w := N.of_nat (length bw) in
        writer_at cr bs cw dw bw (kp_public (c_keypair c)) sg /\
        t_length (c_tree c) <= w /\
        wf_request bs (c_tree c) (d_tree d) w rq /\ core_scope w rq /\
        (forall vp, create_valueless_proof (c_tree cw) (d_tree dw) (rq_block rq) (rq_hash rq) (rq_seek rq) (rq_upgrade rq) = Ok vp ->
                    frame_guard cr c d (vp_to_proof vp (rq_value bs rq)))
    | EReopen => True
    end.

  (* the held set after an event *)
  Definition held1 (H : N -> bool) (e : revent) : N -> bool :=
    match e with
    | EServe _ rq _ _ _ _ _ _ =>
        fun i => match rq_block rq with Some b => (i =? rb_index b) || H i | None => H i end
    | EReopen => H
    end.

  Definition held_all (H : N -> bool) (es : list revent) : N -> bool := fold_left held1 es H.

  (* every request is well formed for the state reached so far *)
  Fixpoint hist (es : list revent) (c : core) (w : world) : Prop :=
    match es with
    | [] => True
    | e :: rest => pre c (w_disk w) e /\ forall c' w', exec c w e = Some (c', w') -> hist rest c' w'
    end.

  Lemma held1_mono H e i : H i = true -> held1 H e i = true.
  Proof.
    intros Hi. destruct e as [f rq cw dw jw evw bw sg|]; cbn [held1]; [|exact Hi].
    destruct (rq_block rq); [rewrite Hi; apply orb_true_r|exact Hi].
  Qed.

  Lemma held_all_mono es : forall H i, H i = true -> held_all H es i = true.
  Proof.
    induction es as [|e es IH]; intros H i Hi; cbn [held_all fold_left]; [exact Hi|].
    apply IH, held1_mono, Hi.
  Qed.

  Lemma RCInv_ext c d H H' : (forall i, H' i = H i) -> RCInv cr bs c d H -> RCInv cr bs c d H'.
  Proof.
    intros E [X Hc]. split; [|exact Hc].
    apply (RDInv_ext cr bs c d H H' E X).
  Qed.

  (* one event *)
  Lemma event_step c d j ev H e :
    RCInv cr bs c d H -> pre c d e ->
    (exists c' w', exec c (mkWorld d j ev) e = Some (c', w') /\ RCInv cr bs c' (w_disk w') (held1 H e) /\
                   c_keypair c' = c_keypair c /\ t_length (c_tree c) <= t_length (c_tree c')) \/
    some_collision cr \/ forged_signature cr bs (kp_public (c_keypair c)).
  Proof.
    intros RC Hpre. destruct e as [f rq cw dw jw evw bw sg|].
    - destruct Hpre as (Hwa & Hrw & Hwf & Hsc & Hfr). cbv zeta in *.
      destruct (replication_round cr Hcrc Hhash32 Hnonblank Hhashbytes bs Hw f cw dw bw sg jw evw c d j ev H rq
                  Hwa RC Hrw Hwf Hsc Hfr) as (pf & Hcreate & Hheld & [(c' & w' & Happ & RC' & Hlen & Hk)|Esc]).
      + left. exists c', w'. cbn [exec]. rewrite Hcreate, Happ. split; [reflexivity|]. split.
        * apply (RCInv_ext c' (w_disk w') (hold H (p_block pf))); [|exact RC'].
          intros i. cbn [held1]. symmetry. apply Hheld.
        * split; [exact Hk|]. rewrite Hlen. unfold rq_target. destruct Hwf as [Hup _]. unfold wf_upgrade in Hup.
          destruct (rq_upgrade rq) as [[s l]|]; cbn [ru_start ru_length] in *; lia.
      + right. exact Esc.
    - left. destruct RC as [X Hc].
      destruct (reopen_RDInv cr Hcrc Hnonblank bs Hw c d H X) as (c' & Hopen & X' & Et & _ & Ek & _).
      exists c', (mkWorld d j ev). cbn [exec w_disk w_journal w_events]. rewrite Hopen.
      split; [reflexivity|]. cbn [held1 w_disk]. split; [split; [exact X'|rewrite Et; exact Hc]|].
      split; [exact Ek|rewrite Et; lia].
  Qed.

  (* every block requested in the history *)
  Fixpoint requested (es : list revent) (i : N) : Prop :=
    match es with
    | [] => False
    | EServe _ rq _ _ _ _ _ _ :: rest => (exists b, rq_block rq = Some b /\ rb_index b = i) \/ requested rest i
    | EReopen :: rest => requested rest i
    end.

  Lemma held_requested es : forall H i, requested es i -> held_all H es i = true.
  Proof.
    induction es as [|e es IH]; intros H i Hr; cbn [requested] in Hr; [destruct Hr|].
    cbn [held_all fold_left]. destruct e as [f rq cw dw jw evw bw sg|].
    - destruct Hr as [(b & Eb & Ei)|Hr]; [|apply IH, Hr].
      apply held_all_mono. cbn [held1]. rewrite Eb, Ei, N.eqb_refl. reflexivity.
    - apply IH, Hr.
  Qed.

  Theorem replicas_converge es : forall c d j ev H,
    RCInv cr bs c d H -> hist es c (mkWorld d j ev) ->
    (exists c' w',
       run es c (mkWorld d j ev) = Some (c', w') /\
       RCInv cr bs c' (w_disk w') (held_all H es) /\
       c_keypair c' = c_keypair c /\ t_length (c_tree c) <= t_length (c_tree c') /\
       (* every requested block is held, nothing held is lost *)
       (forall i, requested es i -> core_has c' i = true) /\
       (forall i, H i = true -> core_has c' i = true) /\
       (* every held block reads byte-identical to the writer's block *)
       (forall i j2 ev2, core_has c' i = true ->
          core_get i c' (mkWorld (w_disk w') j2 ev2) = (c', mkWorld (w_disk w') j2 ev2, Ok (Some (blk bs i))))) \/
    some_collision cr \/ forged_signature cr bs (kp_public (c_keypair c)).
  Proof.
    induction es as [|e es IH]; intros c d j ev H RC Hh.
    - left. exists c, (mkWorld d j ev). cbn [run held_all fold_left w_disk].
      split; [reflexivity|]. split; [exact RC|]. split; [reflexivity|]. split; [lia|].
      destruct RC as [X _]. split; [intros i []|]. split.
      + intros i Hi. rewrite (RD_has cr bs c d H i X). exact Hi.
      + intros i j2 ev2 Hi. rewrite (RD_has cr bs c d H i X) in Hi.
        rewrite (RD_get cr bs Hw c d H j2 ev2 i X), Hi. reflexivity.
    - cbn [hist] in Hh. destruct Hh as [Hpre Hrest]. cbn [w_disk] in Hpre.
      destruct (event_step c d j ev H e RC Hpre) as [(c1 & w1 & Hex & RC1 & Hk1 & Hl1)|Esc]; [|right; exact Esc].
      destruct w1 as [d1 j1 ev1]. cbn [w_disk] in RC1.
      destruct (IH c1 d1 j1 ev1 (held1 H e) RC1 (Hrest _ _ Hex))
        as [(c' & w' & Hrun & RC' & Hk & Hl & Hreq & Hmono & Hget)|Esc].
      + left. exists c', w'. cbn [run]. rewrite Hex. split; [exact Hrun|]. cbn [held_all fold_left].
        split; [exact RC'|]. split; [congruence|]. split; [lia|]. split; [|split; [|exact Hget]].
        * intros i Hr. destruct RC' as [X' _]. rewrite (RD_has cr bs c' (w_disk w') _ i X').
          apply (held_requested (e :: es) H i Hr).
        * intros i Hi. apply Hmono. apply held1_mono, Hi.
      + right. rewrite <- Hk1. exact Esc.
  Qed.

  (* a replica of length 0 stores no node at all: its stored nodes are trivially closed *)
  Lemma RCInv_length0 c d H : RDInv cr bs c d H -> t_length (c_tree c) = 0 -> RCInv cr bs c d H.
  Proof.
    intros X L0. split; [exact X|]. intros j (n & Hn). exfalso.
    destruct (replica_sound cr bs c d H X j n Hn) as [_ Hin]. rewrite L0 in Hin. unfold in_len in Hin.
    pose proof (pow2_pos (ft_depth j)). nia.
  Qed.

  (* a replica created from the public key alone, then any well-formed history *)
  Theorem fresh_replicas_converge kp es :
    OplogFacts.keypair_ok kp = true -> kp_secret kp = None ->
    exists d0 ops0 c0,
      core_open cr (Some kp) false disk_empty = (d0, ops0, Ok c0) /\
      (hist es c0 (mkWorld d0 [] []) ->
       (exists c' w',
          run es c0 (mkWorld d0 [] []) = Some (c', w') /\
          RCInv cr bs c' (w_disk w') (held_all (fun _ => false) es) /\
          (forall i, requested es i -> core_has c' i = true) /\
          (forall i j2 ev2, core_has c' i = true ->
             core_get i c' (mkWorld (w_disk w') j2 ev2) = (c', mkWorld (w_disk w') j2 ev2, Ok (Some (blk bs i))))) \/
       some_collision cr \/ forged_signature cr bs (kp_public kp)).
  Proof.
    intros Hk Hs.
    destruct (RDInv_fresh cr Hcrc Hhash32 Hnonblank bs kp Hk Hs) as (d0 & ops0 & c0 & Hopen & X & K & L0).
    exists d0, ops0, c0. split; [exact Hopen|]. intros Hh.
    destruct (replicas_converge es c0 d0 [] [] (fun _ => false) (RCInv_length0 c0 d0 _ X L0) Hh)
      as [(c' & w' & Hrun & RC' & _ & _ & Hreq & _ & Hget)|Esc].
    - left. exists c', w'. auto.
    - right. rewrite <- K. exact Esc.
  Qed.
End Histories.

Print Assumptions replicas_converge.
Print Assumptions fresh_replicas_converge.

(* ProofContent.v — C05 / C03: what a writer serves in a proof IS the reference tree, and it verifies.
   Composition of Replicate.no_fabrication, the unified invariant FInv (Unified1-3.v) and a new invariant PInv
   (this file) that records what FInv does not: (1) every node that can be READ from the writer's tree (unflushed map
   or tree store) is a full node of the reference tree over the appended blocks, (2) the signature held in memory, the
   signature and root hash in the header in memory, the header on disk and every pending oplog entry carry the
   writer's signature over (tree namespace, hash of the reference roots, length, fork 0). *)
From HC Require Import Base NMap Codec CodecFacts Crypto FlatTree Storage Bitfield Oplog Merkle Core.
From HC Require Import FlatTreeFacts StorageFacts BitfieldFacts OplogFacts TreeRef OffsetFacts CoreFacts Crash Refine.
From HC Require Import ClearRefine Reopen ContigBridge Replicate Unified1 Unified2 Unified3.
From Coq Require Import FMapPositive ZifyN ZifyNat ZifyBool.
Ltac Zify.zify_post_hook ::= Z.div_mod_to_equations.
Arguments N.add : simpl never.
Arguments N.sub : simpl never.
Arguments N.mul : simpl never.
Arguments N.div : simpl never.
Arguments N.modulo : simpl never.
Arguments N.pow : simpl never.
Arguments N.eqb : simpl never.
Arguments N.ltb : simpl never.
Arguments N.leb : simpl never.
Arguments N.max : simpl never.
Arguments N.min : simpl never.
Arguments N.of_nat : simpl never.
Arguments N.to_nat : simpl never.

(* ====================================================================================== *)
(* A. Files as zero-padded byte arrays; the 40-byte slots of the tree store                 *)
(* ====================================================================================== *)

(* the byte at position i, 0 beyond the length: writes are pointwise updates of this function *)
Definition zb (f : file) (i : N) : N := if i <? f_len f then f_byte f i else 0.

Lemma zb_write f off data i :
  zb (f_write f off data) i =
  if (off <=? i) && (i <? off + len data) then nth (N.to_nat (i - off)) data 0 else zb f i.
Proof.
  unfold zb. rewrite f_write_len, f_write_byte.
  destruct (N.leb_spec off i), (N.ltb_spec i (off + len data)), (N.ltb_spec i (f_len f)),
    (N.leb_spec (f_len f) i), (N.ltb_spec i (N.max (f_len f) (off + len data)));
    cbn [andb]; try reflexivity; lia.
Qed.

Definition slot (f : file) (k : N) : bytes := map (zb f) (nrange (NODE_SIZE * k) 40).

Lemma slot_write_other f k j data :
  len data = NODE_SIZE -> j <> k -> slot (f_write f (NODE_SIZE * j) data) k = slot f k.
Proof.
  intros Hl Hne. unfold slot. apply map_nrange_ext. intros i Hi. rewrite zb_write, Hl.
  unfold NODE_SIZE in *.
  destruct (N.leb_spec (40 * j) (40 * k + i)), (N.ltb_spec (40 * k + i) (40 * j + 40));
    cbn [andb]; try reflexivity; lia.
Qed.

Lemma slot_write_same f k data :
  length data = 40%nat -> slot (f_write f (NODE_SIZE * k) data) k = data.
Proof.
  intros Hl. unfold slot.
  transitivity (map (fun i => nth (N.to_nat (i - NODE_SIZE * k)) data 0) (nrange (NODE_SIZE * k) (length data))).
  - rewrite Hl. apply map_nrange_ext. intros i Hi. rewrite zb_write. unfold len. rewrite Hl.
    unfold NODE_SIZE in *.
    destruct (N.leb_spec (40 * k) (40 * k + i)), (N.ltb_spec (40 * k + i) (40 * k + N.of_nat 40));
      cbn [andb]; try reflexivity; lia.
  - apply map_nrange_data.
Qed.

(* a successful read of slot k returns the slot *)
Lemma f_read_slot f k data : f_read f (NODE_SIZE * k) NODE_SIZE = Some data -> data = slot f k.
Proof.
  intros E. assert (L : NODE_SIZE * k + NODE_SIZE <= f_len f) by (apply f_read_spec in E; tauto).
  rewrite (f_read_some f _ _ L) in E.
  assert (E3 : map (f_byte f) (nrange (NODE_SIZE * k) (N.to_nat NODE_SIZE)) = data) by congruence.
  rewrite <- E3. unfold slot. change (N.to_nat NODE_SIZE) with 40%nat.
  apply map_nrange_ext. intros i Hi. unfold zb. unfold NODE_SIZE in *.
  destruct (N.ltb_spec (40 * k + i) (f_len f)); [reflexivity|lia].
Qed.

(* ====================================================================================== *)
(* B. Readable nodes are reference nodes                                                   *)
(* ====================================================================================== *)

Section Clean.
  Variable cr : crypto.
  Hypothesis Hhash32 : forall x, length (cr_hash cr x) = 32%nat.
  Hypothesis Hnonblank : forall x, all_zero (cr_hash cr x) = false.

  (* x is a full node of the reference tree over the first n blocks of bs *)
  Definition refnode (bs : list bytes) (n : N) (x : node) : Prop :=
    exists j q, x = ref_node cr bs j q /\ (q + 1) * p2 j <= n.

  Lemma refnode_is_ref bs n x : refnode bs n x -> x = ref_at cr bs (n_index x).
  Proof. intros (j & q & -> & _). apply ref_node_is_ref. Qed.

  Lemma refnode_app bs batch n n' x :
    n <= N.of_nat (length bs) -> n <= n' -> refnode bs n x -> refnode (bs ++ batch) n' x.
  Proof.
    intros Hn Hn' (j & q & -> & Hq). exists j, q. split; [|lia]. symmetry. apply ref_node_app. lia.
  Qed.

  Lemma refnode_mono bs n n' x : n <= n' -> refnode bs n x -> refnode bs n' x.
  Proof. intros Hn (j & q & E & Hq). exists j, q. split; [exact E|lia]. Qed.

  Lemma refnode_nonblank bs n x : refnode bs n x -> node_blank x = false.
  Proof. intros (j & q & -> & _). apply ref_node_nonblank, Hnonblank. Qed.

  Lemma refnode_hash32 bs n x : refnode bs n x -> length (n_hash x) = 32%nat.
  Proof. intros (j & q & -> & _). apply ref_node_hash_length, Hhash32. Qed.

  (* every node in the unflushed map is a full reference node *)
  Definition UClean (bs : list bytes) (n : N) (t : mtree) : Prop :=
    forall i x, nm_get i (t_unflushed t) = Some x -> refnode bs n x.

  (* every 40-byte slot of the tree store is blank or holds a full reference node *)
  Definition FClean (bs : list bytes) (n : N) (tf : file) : Prop :=
    forall k, node_blank (node_from_bytes k (slot tf k)) = true \/ refnode bs n (node_from_bytes k (slot tf k)).

  Lemma UClean_app bs batch n n' t :
    n <= N.of_nat (length bs) -> n <= n' -> UClean bs n t -> UClean (bs ++ batch) n' t.
  Proof. intros A B H i x G. apply (refnode_app bs batch n n' x A B), (H i x G). Qed.

  Lemma FClean_app bs batch n n' tf :
    n <= N.of_nat (length bs) -> n <= n' -> FClean bs n tf -> FClean (bs ++ batch) n' tf.
  Proof. intros A B H k. destruct (H k) as [E|E]; [left; exact E|right; apply (refnode_app bs batch n n' _ A B E)]. Qed.

  Lemma FClean_empty bs n : FClean bs n file_empty.
  Proof.
    intros k. left. unfold slot.
    rewrite (map_nrange_ext (zb file_empty) (fun _ => 0) 40 (NODE_SIZE * k)).
    - cbn [nrange map]. reflexivity.
    - intros i _. unfold zb. cbn [file_empty f_len]. destruct (N.ltb_spec (NODE_SIZE * k + i) 0); [lia|reflexivity].
  Qed.

  (* THE READ LEMMA: whatever index is looked up, a node that is found is the reference node *)
  Lemma read_is_reference bs n t tf i x :
    UClean bs n t -> FClean bs n tf -> required_node t tf i = Ok x -> refnode bs n x.
  Proof.
    intros HU HF H. unfold required_node, node_get in H.
    destruct (nm_get i (t_unflushed t)) as [v|] eqn:G.
    - destruct (node_blank v); [discriminate H|]. cbn [bind] in H. injection H as <-. apply (HU i v G).
    - unfold mul64 in H. destruct (fits_u64 (NODE_SIZE * i)); [|discriminate H]. cbn [bind] in H.
      destruct (f_read tf (NODE_SIZE * i) NODE_SIZE) as [data|] eqn:R; [|discriminate H].
      apply f_read_slot in R. subst data. cbv zeta in H.
      destruct (HF i) as [E|E]; [rewrite E in H; discriminate H|].
      rewrite (refnode_nonblank _ _ _ E) in H. cbn [bind] in H. injection H as <-. exact E.
  Qed.

  (* ---------- adding reference nodes to the unflushed map ---------- *)

  Lemma UClean_add bs n t t' (l : list node) :
    (forall x, In x l -> refnode bs n x) ->
    t_unflushed t' = add_nodes (t_unflushed t) l ->
    UClean bs n t -> UClean bs n t'.
  Proof.
    intros Hl Hu H i x G. rewrite Hu in G.
    destruct (add_nodes_get l (t_unflushed t) i) as [(v & Hin & _ & Hg)|[_ Hg]]; rewrite Hg in G.
    - injection G as <-. apply Hl, Hin.
    - apply (H i x G).
  Qed.

  Lemma UClean_empty bs n t : t_unflushed t = nm_empty -> UClean bs n t.
  Proof. intros E i x G. rewrite E, nm_get_empty in G. discriminate G. Qed.

  (* ---------- flushing the unflushed nodes to the store ---------- *)

  Lemma FClean_write bs n tf v :
    refnode bs n v -> n_length v <= u64_max ->
    FClean bs n tf -> FClean bs n (f_write tf (NODE_SIZE * n_index v) (node_to_bytes v)).
  Proof.
    intros Hv Hl H k.
    assert (L40 : length (node_to_bytes v) = 40%nat).
    { apply node_to_bytes_length. rewrite (refnode_hash32 _ _ _ Hv). reflexivity. }
    destruct (N.eq_dec (n_index v) k) as [E|E].
    - right. rewrite <- E, slot_write_same by exact L40.
      rewrite node_bytes_roundtrip; [exact Hv|rewrite (refnode_hash32 _ _ _ Hv); reflexivity|unfold u64_max in Hl; lia].
    - rewrite slot_write_other; [apply H| |exact E]. unfold len. rewrite L40. reflexivity.
  Qed.

  Lemma FClean_write_nodes bs n (ws : list node) : forall tf,
    (forall v, In v ws -> refnode bs n v /\ n_length v <= u64_max) ->
    FClean bs n tf -> FClean bs n (write_nodes tf ws).
  Proof.
    induction ws as [|v ws IH]; intros tf Hws H; [exact H|].
    unfold write_nodes. cbn [fold_left].
    apply IH; [intros v' Hv'; apply Hws; right; exact Hv'|].
    destruct (Hws v (or_introl eq_refl)) as [A B]. apply FClean_write; assumption.
  Qed.
End Clean.

(* ====================================================================================== *)
(* C. The invariant: readable nodes and signatures                                         *)
(* ====================================================================================== *)

Section Inv.
  Variable cr : crypto.
  Variable sk : bytes.     (* the writer's signing key (it stays the reference also after make_read_only erased it) *)

  (* the writer's signature over (tree namespace, hash of the reference roots of the first m blocks, m, fork 0) *)
  Definition sigof (bs : list bytes) (m : N) : bytes :=
    cr_sign cr sk (signable (tree_hash cr (ref_roots cr bs m)) m 0).

  (* a header describing a non-empty tree carries that signature and the hash of the reference roots *)
  Definition hsig (bs : list bytes) (h : header) : Prop :=
    0 < ht_length (hd_tree h) ->
    ht_signature (hd_tree h) = sigof bs (ht_length (hd_tree h)) /\
    ht_root_hash (hd_tree h) = tree_hash cr (ref_roots cr bs (ht_length (hd_tree h))).

  (* an oplog entry that upgrades the tree carries the signature for the length it upgrades to *)
  Definition esig (bs : list bytes) (e : entry) : Prop :=
    forall u, e_upgrade e = Some u -> tu_signature u = sigof bs (tu_length u).

  Definition PInv (c : core) (d : disk) (bs : list bytes) : Prop :=
    let n := N.of_nat (length bs) in
    (forall k, kp_secret (c_keypair c) = Some k -> k = sk) /\
    (0 < n -> t_signature (c_tree c) = Some (sigof bs n)) /\
    hsig bs (c_header c) /\
    UClean cr bs n (c_tree c) /\
    FClean cr bs n (d_tree d) /\
    (* what a reopen will read: the stored header and the pending entries *)
    (forall oo, oplog_open cr None (f_content (d_oplog d)) = Ok oo ->
       hsig bs (oo_header oo) /\ Forall (esig bs) (oo_entries oo)).

  Lemma sigof_app bs batch m : m <= N.of_nat (length bs) -> sigof (bs ++ batch) m = sigof bs m.
  Proof. intros H. unfold sigof. rewrite ref_roots_app by exact H. reflexivity. Qed.

  Lemma hsig_app bs batch h :
    ht_length (hd_tree h) <= N.of_nat (length bs) -> hsig bs h -> hsig (bs ++ batch) h.
  Proof.
    intros Hm H Hpos. destruct (H Hpos) as [A B]. rewrite sigof_app, ref_roots_app by exact Hm. split; assumption.
  Qed.

  Lemma esig_app bs batch e :
    (forall u, e_upgrade e = Some u -> tu_length u <= N.of_nat (length bs)) -> esig bs e -> esig (bs ++ batch) e.
  Proof. intros Hm H u Hu. rewrite sigof_app by (apply Hm, Hu). apply H, Hu. Qed.
End Inv.

(* ====================================================================================== *)
(* D. What create_proof serves                                                             *)
(* ====================================================================================== *)

Definition proof_nodes (pf : proof) : list node :=
  (match p_block pf with Some b => db_nodes b | None => [] end) ++
  (match p_hash pf with Some h => dh_nodes h | None => [] end) ++
  (match p_seek pf with Some s => ds_nodes s | None => [] end) ++
  (match p_upgrade pf with Some u => du_nodes u ++ du_additional u | None => [] end).

Definition vproof_nodes (vp : vproof) : list node :=
  (match vp_block vp with Some b => dh_nodes b | None => [] end) ++
  (match vp_hash vp with Some h => dh_nodes h | None => [] end) ++
  (match vp_seek vp with Some s => ds_nodes s | None => [] end) ++
  (match vp_upgrade vp with Some u => du_nodes u ++ du_additional u | None => [] end).

Lemma vp_all_nodes (P : node -> Prop) vp : vp_all P vp -> forall x, In x (vproof_nodes vp) -> P x.
Proof.
  intros (Hb & Hh & Hs & Hu) x Hx. unfold vproof_nodes in Hx.
  apply in_app_or in Hx as [Hx|Hx].
  { destruct (vp_block vp) as [b|]; [|destruct Hx]. exact (proj1 (Forall_forall _ _) (Hb b eq_refl) x Hx). }
  apply in_app_or in Hx as [Hx|Hx].
  { destruct (vp_hash vp) as [h|]; [|destruct Hx]. exact (proj1 (Forall_forall _ _) (Hh h eq_refl) x Hx). }
  apply in_app_or in Hx as [Hx|Hx].
  { destruct (vp_seek vp) as [s|]; [|destruct Hx]. exact (proj1 (Forall_forall _ _) (Hs s eq_refl) x Hx). }
  destruct (vp_upgrade vp) as [u|]; [|destruct Hx]. destruct (Hu u eq_refl) as [A B].
  apply in_app_or in Hx as [Hx|Hx]; [exact (proj1 (Forall_forall _ _) A x Hx)|exact (proj1 (Forall_forall _ _) B x Hx)].
Qed.

(* a request with a block section gives a valueless proof with a block section for that index *)
Lemma create_block_section t tf rb hash seek upgrade vp :
  create_valueless_proof t tf (Some rb) hash seek upgrade = Ok vp ->
  exists ns, vp_block vp = Some (mkDataHash (rb_index rb) ns).
Proof.
  intros H. unfold create_valueless_proof in H.
  apply bind_ok in H. destruct H as ([from to] & _ & H).
  apply bind_ok in H. destruct H as (ixo & _ & H).
  destruct ((to <=? from) || (2 * t_length t <? to)); [discriminate H|].
  apply bind_ok in H. destruct H as ([[sub_tree p0] untrusted] & _ & H).
  apply bind_ok in H. destruct H as (sub_tree' & _ & H).
  apply bind_ok in H. destruct H as (p & _ & H).
  apply bind_ok in H. destruct H as ([dblock dhash] & Hbh & H).
  apply bind_ok in H. destruct H as (dup & _ & H). injection H as <-. cbn [vp_block].
  destruct (lp_nodes p) as [ns|]; [|discriminate Hbh]. injection Hbh as <- _. exists ns. reflexivity.
Qed.

Section Served.
  Variable cr : crypto.
  Variable sk : bytes.
  Hypothesis Hnonblank : forall x, all_zero (cr_hash cr x) = false.

  (* the complete behaviour of create_proof in a writer state: the valueless proof is computed from the tree; a block
     section is completed with the block exactly when the block is held, otherwise NO proof is returned and one EvGet
     is sent; core, disk and journal never change *)
  Theorem create_proof_run c d bs cl j ev block hash seek upgrade :
    FInv cr c d bs cl ->
    core_create_proof block hash seek upgrade c (mkWorld d j ev) =
    match create_valueless_proof (c_tree c) (d_tree d) block hash seek upgrade with
    | Ok vp =>
        match vp_block vp with
        | Some b =>
            if held (N.of_nat (length bs)) cl (dh_index b)
            then (c, mkWorld d j ev,
                  Ok (Some (mkProof (vp_fork vp)
                              (Some (mkDataBlock (dh_index b) (nth (N.to_nat (dh_index b)) bs []) (dh_nodes b)))
                              (vp_hash vp) (vp_seek vp) (vp_upgrade vp))))
            else (c, mkWorld d j (EvGet (dh_index b) :: ev), Ok None)
        | None => (c, mkWorld d j ev,
                   Ok (Some (mkProof (vp_fork vp) None (vp_hash vp) (vp_seek vp) (vp_upgrade vp))))
        end
    | Err e => (c, mkWorld d j ev, Err e)
    | Panic s => (c, mkWorld d j ev, Panic s)
    | OutOfFuel => (c, mkWorld d j ev, OutOfFuel)
    end.
  Proof.
    intros F. unfold core_create_proof. rewrite mbind_get_core, mbind_get_disk, mbind_lift. cbn [w_disk].
    destruct (create_valueless_proof (c_tree c) (d_tree d) block hash seek upgrade) as [vp|e|s|]; try reflexivity.
    destruct (vp_block vp) as [b|]; [|reflexivity].
    unfold mbind. rewrite (get_correct_U cr c d bs cl j ev (dh_index b) F).
    destruct (held (N.of_nat (length bs)) cl (dh_index b)); reflexivity.
  Qed.

  (* every node of the valueless proof is a full node of the reference tree *)
  Lemma vproof_nodes_reference c d bs cl block hash seek upgrade vp :
    FInv cr c d bs cl -> PInv cr sk c d bs ->
    create_valueless_proof (c_tree c) (d_tree d) block hash seek upgrade = Ok vp ->
    forall x, In x (vproof_nodes vp) -> refnode cr bs (N.of_nat (length bs)) x.
  Proof.
    intros F (_ & _ & _ & HU & HF & _) H x Hx.
    destruct (create_proof_no_fabrication _ _ _ _ _ _ _ H) as (A & _).
    destruct (vp_all_nodes _ vp A x Hx) as [i Hi].
    apply (read_is_reference cr Hnonblank bs _ (c_tree c) (d_tree d) i x HU HF Hi).
  Qed.

  (* C05, served proofs: every node of every section is the reference node at its flat index (index, size and hash) and
     spans only appended blocks; the fork is 0; a block section carries the appended block, which is held; nothing changes *)
  Theorem served_proof_is_reference c d bs cl j ev block hash seek upgrade c' w' pf :
    FInv cr c d bs cl -> PInv cr sk c d bs ->
    core_create_proof block hash seek upgrade c (mkWorld d j ev) = (c', w', Ok (Some pf)) ->
    let n := N.of_nat (length bs) in
    (forall x, In x (proof_nodes pf) -> x = ref_at cr bs (n_index x) /\ refnode cr bs n x) /\
    p_fork pf = 0 /\
    (forall b, p_block pf = Some b ->
       held n cl (db_index b) = true /\ db_index b < n /\ db_value b = nth (N.to_nat (db_index b)) bs [] /\
       exists rb, block = Some rb /\ db_index b = rb_index rb) /\
    (block = None -> p_block pf = None) /\
    c' = c /\ w' = mkWorld d j ev.
  Proof.
    intros F P H n. rewrite (create_proof_run c d bs cl j ev block hash seek upgrade F) in H.
    destruct (create_valueless_proof (c_tree c) (d_tree d) block hash seek upgrade) as [vp|e|s|] eqn:E;
      try discriminate H.
    pose proof (vproof_nodes_reference c d bs cl block hash seek upgrade vp F P E) as Hn.
    destruct (create_proof_no_fabrication _ _ _ _ _ _ _ E) as (_ & Hfork & Hblk & _).
    assert (HF0 : vp_fork vp = 0).
    { rewrite Hfork. apply FInv_CInv in F. destruct F as ((_ & _ & HF0 & _) & _). exact HF0. }
    unfold vproof_nodes in Hn.
    destruct (vp_block vp) as [b|] eqn:Eb.
    - destruct (held (N.of_nat (length bs)) cl (dh_index b)) eqn:Eh; [|discriminate H].
      injection H as <- <- <-. unfold proof_nodes. cbn [p_block p_hash p_seek p_upgrade p_fork db_nodes db_index db_value].
      split; [intros x Hx; split; [apply (refnode_is_ref cr bs n), Hn, Hx|apply Hn, Hx]|].
      split; [exact HF0|]. split.
      + intros b0 [= <-]. cbn [db_index db_value]. split; [exact Eh|]. split; [apply (held_lt _ _ _ Eh)|].
        split; [reflexivity|]. apply (Hblk b eq_refl).
      + split; [|split; reflexivity]. intros ->. destruct (Hblk b eq_refl) as (rb & Hrb & _). discriminate Hrb.
    - injection H as <- <- <-. unfold proof_nodes. cbn [p_block p_hash p_seek p_upgrade p_fork].
      split; [intros x Hx; split; [apply (refnode_is_ref cr bs n), Hn, Hx|apply Hn, Hx]|].
      split; [exact HF0|]. split; [intros b0 [=]|]. split; [reflexivity|split; reflexivity].
  Qed.

  (* C03, cleared blocks: a request with a block section for an index that is not held — cleared, or at or beyond the
     length — never yields a proof: the result is Ok None with exactly one EvGet for that index, or the error of the
     valueless-proof construction with no event at all; never a proof with a wrong value *)
  Theorem unheld_block_yields_no_proof c d bs cl j ev rb hash seek upgrade c' w' r :
    FInv cr c d bs cl ->
    held (N.of_nat (length bs)) cl (rb_index rb) = false ->
    core_create_proof (Some rb) hash seek upgrade c (mkWorld d j ev) = (c', w', r) ->
    c' = c /\
    match r with
    | Ok (Some _) => False
    | Ok None => w' = mkWorld d j (EvGet (rb_index rb) :: ev)
    | _ => w' = mkWorld d j ev /\
           r = match create_valueless_proof (c_tree c) (d_tree d) (Some rb) hash seek upgrade with
               | Ok _ => r | Err e => Err e | Panic s => Panic s | OutOfFuel => OutOfFuel end
    end.
  Proof.
    intros F Hh H. rewrite (create_proof_run c d bs cl j ev (Some rb) hash seek upgrade F) in H.
    destruct (create_valueless_proof (c_tree c) (d_tree d) (Some rb) hash seek upgrade) as [vp|e|s|] eqn:E.
    - destruct (create_block_section _ _ _ _ _ _ _ E) as [ns Eb]. rewrite Eb in H. cbn [dh_index] in H.
      rewrite Hh in H. injection H as <- <- <-. split; reflexivity.
    - injection H as <- <- <-. split; [reflexivity|split; reflexivity].
    - injection H as <- <- <-. split; [reflexivity|split; reflexivity].
    - injection H as <- <- <-. split; [reflexivity|split; reflexivity].
  Qed.

  (* ... and when the valueless proof can be built (the request is well formed for the tree), the answer IS Ok None *)
  Corollary unheld_block_none c d bs cl j ev rb hash seek upgrade vp :
    FInv cr c d bs cl ->
    held (N.of_nat (length bs)) cl (rb_index rb) = false ->
    create_valueless_proof (c_tree c) (d_tree d) (Some rb) hash seek upgrade = Ok vp ->
    core_create_proof (Some rb) hash seek upgrade c (mkWorld d j ev) =
      (c, mkWorld d j (EvGet (rb_index rb) :: ev), Ok None).
  Proof.
    intros F Hh E. rewrite (create_proof_run c d bs cl j ev (Some rb) hash seek upgrade F), E.
    destruct (create_block_section _ _ _ _ _ _ _ E) as [ns Eb]. rewrite Eb. cbn [dh_index]. rewrite Hh. reflexivity.
  Qed.
End Served.

(* ====================================================================================== *)
(* E. The upgrade section: range and signature                                             *)
(* ====================================================================================== *)

(* a served upgrade is a non-empty range inside the tree *)
Lemma create_upgrade_range t tf block hash seek ru vp :
  create_valueless_proof t tf block hash seek (Some ru) = Ok vp ->
  0 < ru_length ru /\ ru_start ru + ru_length ru <= t_length t.
Proof.
  intros H. unfold create_valueless_proof in H.
  apply bind_ok in H. destruct H as ([from to] & H0 & H).
  apply bind_ok in H. destruct H as (ixo & _ & H).
  destruct ((to <=? from) || (2 * t_length t <? to)) eqn:G; [discriminate H|]. clear H.
  apply bind_ok in H0. destruct H0 as (f & Hf & H0).
  apply bind_ok in H0. destruct H0 as (l2 & Hl & H0).
  apply bind_ok in H0. destruct H0 as (tt & Ht & H0). injection H0 as <- <-.
  unfold mul64 in Hf, Hl. unfold add64 in Ht.
  destruct (fits_u64 (ru_start ru * 2)); [|discriminate Hf]. injection Hf as <-.
  destruct (fits_u64 (ru_length ru * 2)); [|discriminate Hl]. injection Hl as <-.
  destruct (fits_u64 (ru_start ru * 2 + ru_length ru * 2)); [|discriminate Ht]. injection Ht as <-.
  lia.
Qed.

Section ServedUpgrade.
  Variable cr : crypto.
  Variable sk : bytes.
  Hypothesis Hnonblank : forall x, all_zero (cr_hash cr x) = false.

  (* C05, served signature: the signature of an upgrade section is the tree's signature, and that is the writer's
     signature over (tree namespace, hash of the reference roots of ALL appended blocks, their number, fork 0); the
     upgrade range is the requested one, non-empty and inside the tree; when it reaches the head the signature
     verifies, under any public key matching sk, for exactly the message a verifier rebuilds from honest roots *)
  Theorem served_upgrade_is_signed c d bs cl j ev block hash seek upgrade c' w' pf u :
    FInv cr c d bs cl -> PInv cr sk c d bs ->
    core_create_proof block hash seek upgrade c (mkWorld d j ev) = (c', w', Ok (Some pf)) ->
    p_upgrade pf = Some u ->
    let n := N.of_nat (length bs) in
    0 < n /\
    t_signature (c_tree c) = Some (du_signature u) /\
    du_signature u = cr_sign cr sk (signable (tree_hash cr (ref_roots cr bs n)) n 0) /\
    (exists ru, upgrade = Some ru /\ du_start u = ru_start ru /\ du_length u = ru_length ru) /\
    0 < du_length u /\ du_start u + du_length u <= n /\
    (forall pk, (forall m, cr_verify cr pk m (cr_sign cr sk m) = true) ->
       du_start u + du_length u = n ->
       cr_verify cr pk (signable (tree_hash cr (ref_roots cr bs (du_start u + du_length u)))
                                 (du_start u + du_length u) (p_fork pf)) (du_signature u) = true).
  Proof.
    intros F P H Hu n. pose proof (served_proof_is_reference cr sk Hnonblank c d bs cl j ev block hash seek
                                     upgrade c' w' pf F P H) as (_ & Hfk & _).
    rewrite (create_proof_run cr c d bs cl j ev block hash seek upgrade F) in H.
    destruct (create_valueless_proof (c_tree c) (d_tree d) block hash seek upgrade) as [vp|e|s|] eqn:E;
      try discriminate H.
    assert (Hvu : vp_upgrade vp = Some u).
    { destruct (vp_block vp) as [b|].
      - destruct (held (N.of_nat (length bs)) cl (dh_index b)); [|discriminate H].
        injection H as _ _ <-. exact Hu.
      - injection H as _ _ <-. exact Hu. }
    destruct (create_proof_no_fabrication _ _ _ _ _ _ _ E) as (_ & _ & _ & _ & _ & Hup & _).
    destruct (Hup u Hvu) as (ru & -> & Hs & Hl & Hsig).
    destruct (create_upgrade_range _ _ _ _ _ _ _ E) as [R1 R2].
    pose proof (FInv_CInv cr c d bs cl F) as ((HL & _) & _). fold n in HL. rewrite HL in R2.
    destruct P as (_ & Psig & _).
    assert (Hn : 0 < n) by lia. specialize (Psig Hn). fold n in Psig.
    assert (Es : du_signature u = sigof cr sk bs n) by (rewrite Psig in Hsig; injection Hsig as ->; reflexivity).
    split; [exact Hn|]. split; [exact Hsig|]. split; [exact Es|].
    split; [exists ru; auto|]. split; [lia|]. split; [lia|].
    intros pk Hpk Hhead. rewrite Hhead, Hfk, Es. apply Hpk.
  Qed.
End ServedUpgrade.

(* ====================================================================================== *)
(* F. PInv is preserved: flush                                                             *)
(* ====================================================================================== *)

Section StepsP.
  Variable cr : crypto.
  Variable sk : bytes.
  Hypothesis Hcrc : crc_ok cr.
  Hypothesis Hhash32 : forall x, length (cr_hash cr x) = 32%nat.
  Hypothesis Hnonblank : forall x, all_zero (cr_hash cr x) = false.
  Hypothesis Hhashbytes : forall x, bytes_ok (cr_hash cr x) = true.

  Lemma PInv_skip c d bs s :
    PInv cr sk c d bs ->
    PInv cr sk (mkCore (c_keypair c) (c_oplog c) (c_tree c) (c_bitfield c) (c_header c) s) d bs.
  Proof. intros P. exact P. Qed.

  (* the pending entries and stored header that FInv describes are what oplog_open returns *)
  Lemma FInv_open c d bs cl :
    FInv cr c d bs cl ->
    exists bits hf l kf,
      oplog_open cr None (f_content (d_oplog d)) = Ok (stable_result bits hf l) /\
      hdr_desc' (c_keypair c) hf kf /\ gchain cr bs kf l (N.of_nat (length bs)) /\
      hdr_desc' (c_keypair c) (c_header c) (N.of_nat (length bs)).
  Proof.
    intros (_ & s0 & s1 & body & st0 & st1 & hf & l & kf & Hcont & G & _ & _ & Hhf & Hhc & Hch & _).
    exists (ol_bits (c_oplog c)), hf, l, kf. rewrite Hcont.
    split; [apply (good_open cr Hcrc _ _ _ _ _ _ _ _ G)|]. auto.
  Qed.

  Lemma flush_all_PInv c d j ev bs cl c' w' r :
    FInv cr c d bs cl -> PInv cr sk c d bs ->
    flush_all cr false c (mkWorld d j ev) = (c', w', r) ->
    PInv cr sk c' (w_disk w') bs.
  Proof.
    intros F P H.
    destruct (flush_all_FInv cr Hcrc Hhash32 Hnonblank Hhashbytes c d j ev bs cl c' w' r F H) as (-> & _ & _).
    pose proof F as (W & s0 & s1 & body & st0 & st1 & hf & l & kf & Hcont & G & Hlen & Hbytes & Hhf & Hhc & Hch & _).
    pose proof W as ((HL & HB & HF & HR & Hlook & Hun & Hs & Hn) & _).
    destruct P as (PK & PS & PH & PU & PF & PD).
    set (n := N.of_nat (length bs)) in *.
    pose proof Hhc as (Hok & Hkp & Hfk & Hln & Hrh & Hsg).
    assert (Hfits : hdr_fits false (c_header c)).
    { apply hdr_fits_real; [exact Hok|exact Hrh|]. destruct Hsg as [->|Hsg']; unfold len; [cbn; lia|rewrite Hsg'; lia]. }
    destruct (flush_all_detail cr Hhash32 Hnonblank c (mkWorld d j ev) Hun)
      as [(c1 & w1 & E)|(o' & ops & t' & tops & d2 & d3 & jn & OF & Hops & TF & A2 & A3 & E)];
      rewrite E in H; [discriminate H|]. injection H as <- <-.
    cbn [w_disk] in *.
    destruct (flush_crash cr Hcrc s0 s1 body st0 st1 _ hf l (c_header c) (c_oplog c) o' ops G Hok Hfits eq_refl OF)
      as (wr & s0' & s1' & st0' & st1' & Eops & _ & C1 & _ & C2 & G' & Eopen & Eo').
    set (d1 := d_set d Bitfield (write_pages (d_bitfield d) (bf_bits (c_bitfield c)) (bf_dirty (c_bitfield c)))) in *.
    destruct (tree_flush_other_stores (c_tree c) t' tops d1 d2 TF A2 Hun) as (_ & B2 & O2 & _).
    assert (O1 : d_oplog d1 = d_oplog d) by (destruct d; reflexivity).
    assert (T1 : d_tree d1 = d_tree d) by (destruct d; reflexivity).
    assert (S3 : forall s, s <> Oplog -> d_get d3 s = d_get d2 s).
    { intros s Hs'. apply (apply_sops_other _ _ _ _ A3). intros o Ho Heq.
      rewrite Forall_forall in Hops. rewrite (Hops o Ho) in Heq. apply Hs'. symmetry. exact Heq. }
    assert (Hcont' : f_content (d_oplog d3) = s0' ++ s1' ++ []).
    { apply (c_apply_all_sound ops d2 d3 _ Hops A3). rewrite O2, O1, Hcont, Eops.
      cbn [c_apply_all]. rewrite C1, C2. reflexivity. }
    rewrite (tree_flush_ok (c_tree c) Hun) in TF. injection TF as <- <-.
    rewrite apply_node_writes in A2. injection A2 as <-.
    assert (T3 : d_tree d3 = write_nodes (d_tree d) (map snd (nm_elements (t_unflushed (c_tree c))))).
    { change (d_tree d3) with (d_get d3 Tree). rewrite (S3 Tree) by discriminate.
      cbn [d_get d_set d_tree]. try rewrite T1. destruct d; reflexivity. }
    unfold PInv. cbn [c_keypair c_tree c_header t_signature]. fold n.
    split; [exact PK|]. split; [exact PS|]. split; [exact PH|].
    split; [apply UClean_empty; reflexivity|].
    split.
    { rewrite T3. apply (FClean_write_nodes cr Hhash32); [|exact PF].
      intros v Hv. apply in_map_iff in Hv as ([k v'] & Ev & Hv). cbn [snd] in Ev. subst v'.
      apply nm_elements_in in Hv. split; [apply (PU k v Hv)|]. destruct (Hun k v Hv) as (_ & _ & Hl). exact Hl. }
    intros oo Hoo. rewrite Hcont', Eopen in Hoo. injection Hoo as <-.
    cbn [stable_result oo_header oo_entries]. split; [exact PH|constructor].
  Qed.

  Lemma maybe_flush_PInv f c d j ev bs cl c' w' r :
    FInv cr c d bs cl -> PInv cr sk c d bs ->
    maybe_flush cr f c (mkWorld d j ev) = (c', w', r) ->
    PInv cr sk c' (w_disk w') bs.
  Proof.
    intros F P. unfold maybe_flush. rewrite mbind_get_core.
    match goal with |- (if ?b then _ else _) _ _ = _ -> _ => destruct b end.
    - rewrite mbind_put_skip. intros H.
      apply (flush_all_PInv _ d j ev bs cl) in H; [exact H| |].
      + apply (FInv_skip cr), F.
      + exact P.
    - intros H. unfold put_skip in H. injection H as <- <- <-. exact P.
  Qed.
End StepsP.

(* ====================================================================================== *)
(* G. PInv is preserved: logging an entry, append, clear                                   *)
(* ====================================================================================== *)

Section LogP.
  Variable cr : crypto.
  Variable sk : bytes.
  Hypothesis Hcrc : crc_ok cr.
  Hypothesis Hhash32 : forall x, length (cr_hash cr x) = 32%nat.
  Hypothesis Hnonblank : forall x, all_zero (cr_hash cr x) = false.
  Hypothesis Hhashbytes : forall x, bytes_ok (cr_hash cr x) = true.

  (* upgrades logged in a chain that ends at b do not exceed b *)
  Lemma gchain_upgrade_le bs l : forall a b,
    gchain cr bs a l b -> Forall (fun e => forall u, e_upgrade e = Some u -> tu_length u <= b) l.
  Proof.
    induction l as [|e l IH]; intros a b H; cbn [gchain] in H; [constructor|].
    destruct H as [(m & (_ & (sg & Hup & _) & _) & H)|((s & k & -> & _) & H)].
    - constructor; [|apply (IH m b H)]. intros u Hu. rewrite Hup in Hu. injection Hu as <-.
      cbn [tu_length]. apply (gchain_le cr bs l m b H).
    - constructor; [|apply (IH a b H)]. intros u Hu. discriminate Hu.
  Qed.

  Lemma Forall_esig_app bs batch l a :
    gchain cr bs a l (N.of_nat (length bs)) -> Forall (esig cr sk bs) l -> Forall (esig cr sk (bs ++ batch)) l.
  Proof.
    intros G H. pose proof (gchain_upgrade_le bs l a _ G) as B.
    rewrite Forall_forall in *. intros e He. apply esig_app; [apply B, He|apply H, He].
  Qed.

  (* the oplog file before and after an entry has been appended *)
  Lemma log_entry_open c d bs cl e o' fr (f2 : file) :
    FInv cr c d bs cl -> entry_ok e = true ->
    oplog_append cr (c_oplog c) e = Ok (o', [SW Oplog (ENTRIES_OFFSET + ol_entries_bytes (c_oplog c)) fr]) ->
    f2 = f_write (d_oplog d) (ENTRIES_OFFSET + ol_entries_bytes (c_oplog c)) fr ->
    exists bits hf l kf,
      oplog_open cr None (f_content (d_oplog d)) = Ok (stable_result bits hf l) /\
      oplog_open cr None (f_content f2) = Ok (stable_result bits hf (l ++ [e])) /\
      hdr_desc' (c_keypair c) hf kf /\ gchain cr bs kf l (N.of_nat (length bs)).
  Proof.
    intros (W & s0 & s1 & body & st0 & st1 & hf & l & kf & Hcont & G & Hlen & Hbytes & Hhf & Hhc & Hch & _) Hok OA ->.
    set (off := ENTRIES_OFFSET + ol_entries_bytes (c_oplog c)) in *.
    assert (Eol : c_oplog c = oo_oplog (stable_result (ol_bits (c_oplog c)) hf l)).
    { cbn [stable_result oo_oplog]. destruct (c_oplog c) as [bits el eb]. cbn [ol_bits ol_entries_len ol_entries_bytes] in *.
      rewrite Hlen, Hbytes. reflexivity. }
    assert (OA' : oplog_append cr (oo_oplog (stable_result (ol_bits (c_oplog c)) hf l)) e = Ok (o', [SW Oplog off fr]))
      by (rewrite <- Eol; exact OA).
    destruct (append_crash cr Hcrc s0 s1 body st0 st1 _ hf l e o' _ G Hok OA')
      as (fr' & Eops & Eold & Cw & G' & Enew & _).
    injection Eops as Eoff <-.
    exists (ol_bits (c_oplog c)), hf, l, kf.
    split; [rewrite Hcont; exact Eold|]. split; [|split; assumption].
    rewrite f_content_write, Hcont, Eoff. exact Enew.
  Qed.
End LogP.

Section AppendP.
  Variable cr : crypto.
  Variable sk : bytes.
  Hypothesis Hcrc : crc_ok cr.
  Hypothesis Hhash32 : forall x, length (cr_hash cr x) = 32%nat.
  Hypothesis Hnonblank : forall x, all_zero (cr_hash cr x) = false.
  Hypothesis Hhashbytes : forall x, bytes_ok (cr_hash cr x) = true.
  Hypothesis Hsig64 : forall sk m, length (cr_sign cr sk m) = 64%nat.
  Hypothesis Hsigbytes : forall sk m, bytes_ok (cr_sign cr sk m) = true.

  (* the proof of Unified2.append_body_FInv, carrying PInv along *)
  Lemma append_body_FP f batch c d j ev bs cl sk0 c' w' r :
    FInv cr c d bs cl -> PInv cr sk c d bs -> kp_secret (c_keypair c) = Some sk0 -> batch <> [] ->
    sumN (map len (bs ++ batch)) <= u64_max ->
    NODE_SIZE * (2 * N.of_nat (length (bs ++ batch))) <= u64_max ->
    append_body cr f batch sk0 c c (mkWorld d j ev) = (c', w', r) ->
    r = Panic frame_msg \/
    (r = Ok tt /\ FInv cr c' (w_disk w') (bs ++ batch) (cl_mask cl (N.of_nat (length bs))) /\
     PInv cr sk c' (w_disk w') (bs ++ batch) /\
     c_keypair c' = c_keypair c).
  Proof.
    intros D P Hsk0 Hne Hfit Hidx H.
    pose proof P as (PK & PS & PH & PU & PF & PD).
    assert (Esk : sk0 = sk) by (apply PK, Hsk0). subst sk0.
    pose proof D as (W & s0 & s1 & body & st0 & st1 & hf & l & kf & Hcont & G & Hlen & Hbytes & Hhf & Hhc & Hch &
                     Hstore & Hbm & Hbnd & Hbex & Hrep & Hdirty).
    pose proof W as ((HL & HB & HF & HR & Hlook & Hun & Hs & Hn) & Hbf & Hcg & Hd & Hdl).
    set (B := bs ++ batch) in *. set (n := N.of_nat (length bs)) in *.
    set (k := N.of_nat (length batch)).
    assert (Hk : 0 < k) by (destruct batch; [congruence|unfold k; cbn [length]; lia]).
    assert (HlenB : N.of_nat (length B) = n + k) by (unfold B, n, k; rewrite app_length; lia).
    assert (HsumB : sumN (map len B) = sumN (map len bs) + sumN (map len batch))
      by (unfold B; rewrite map_app; apply TreeRef.sumN_app).
    set (cs0 := tree_changeset (c_tree c)) in *.
    assert (R0 : cs_roots cs0 = ref_roots cr B n).
    { unfold cs0, B. cbn [tree_changeset cs_roots]. rewrite HR. symmetry. apply ref_roots_app. unfold n. lia. }
    assert (L0 : cs_length cs0 = n) by exact HL.
    assert (Hblk : forall i, (i < length batch)%nat -> nth i batch [] = blk B (n + N.of_nat i))
      by (intros i Hi; apply batch_blk, Hi).
    destruct (cs_append_all_no_panic cr B Hfit batch cs0 n R0 L0 Hblk) as [cs1 Hcs].
    { unfold cs0. cbn [tree_changeset cs_byte_length]. rewrite HB. lia. }
    destruct (cs_append_all_ref cr B batch cs0 cs1 n R0 L0 Hblk Hcs)
      as (R1 & L1 & B1 & BL1 & A1 & F1 & U1 & Sound1).
    destruct (cs_append_all_complete cr B batch cs0 cs1 n R0 L0 Hblk Hcs) as (_ & OL1 & OF1 & Compl1).
    assert (Hn64 : n + k <= 2 ^ 64).
    { rewrite HlenB in Hidx. unfold NODE_SIZE, u64_max in Hidx. change (2 ^ 64) with 18446744073709551616. lia. }
    destruct (cs_append_all_shape cr B batch cs0 cs1 n R0 L0 Hblk Hn64 Hcs) as (new & Enew & Lnew & Shape1).
    unfold cs0 in B1, BL1, A1, F1, OL1, OF1, Sound1, Enew.
    cbn [tree_changeset cs_byte_length cs_batch_length cs_ancestors cs_fork cs_orig_length cs_orig_fork cs_nodes
         cs_rnodes rev_append] in B1, BL1, A1, F1, OL1, OF1, Sound1, Enew.
    rewrite app_nil_r in Enew.
    assert (Sound : forall x, In x (cs_nodes cs1) -> x = ref_at cr B (n_index x)).
    { intros x Hx. destruct (Sound1 x Hx) as [[]|E]. exact E. }
    assert (Shape : forall x, In x (cs_nodes cs1) -> exists jj q, x = ref_node cr B jj q /\ (q + 1) * p2 jj <= n + k).
    { intros x Hx. apply in_cs_nodes in Hx. rewrite Enew in Hx.
      destruct (Shape1 x Hx) as (jj & q & -> & _ & Q2). exists jj, q. split; [reflexivity|exact Q2]. }
    unfold append_body in H. rewrite mbind_lift in H. fold cs0 in H. rewrite Hcs in H. cbv zeta in H.
    rewrite mbind_emit_SW in H. cbn [w_disk w_journal w_events d_get] in H.
    set (cs := cs_hash_and_sign cr cs1 sk) in *.
    set (bu := mkBfUpdate false (cs_ancestors cs) (cs_batch_length cs)) in *.
    assert (Hbu : bu = mkBfUpdate false n k).
    { unfold bu, cs, cs_hash_and_sign, cs_set_hash_sig. cbn [cs_ancestors cs_batch_length].
      rewrite A1, BL1, HL. f_equal; lia. }
    assert (P1 : cs_upgraded cs = true).
    { unfold cs, cs_hash_and_sign, cs_set_hash_sig. cbn [cs_upgraded]. apply U1, Hne. }
    assert (P5 : cs_orig_fork cs = t_fork (c_tree c)).
    { unfold cs, cs_hash_and_sign, cs_set_hash_sig. cbn [cs_orig_fork]. exact OF1. }
    assert (P6 : cs_orig_length cs = t_length (c_tree c)).
    { unfold cs, cs_hash_and_sign, cs_set_hash_sig. cbn [cs_orig_length]. exact OL1. }
    assert (P7 : cs_ancestors cs = t_length (c_tree c)).
    { unfold cs, cs_hash_and_sign, cs_set_hash_sig. cbn [cs_ancestors]. exact A1. }
    set (hash := cs_tree_hash cr cs1) in *.
    set (sg := cr_sign cr sk (cs_signable cs1 hash)) in *.
    assert (Ecs : cs_nodes cs = cs_nodes cs1 /\ cs_fork cs = 0 /\ cs_length cs = n + k /\
                  cs_roots cs = ref_roots cr B (n + k) /\ cs_byte_length cs = sumN (map len B) /\
                  cs_hash cs = Some hash /\ cs_signature cs = Some sg).
    { unfold cs, cs_hash_and_sign, cs_set_hash_sig.
      cbn [cs_nodes cs_rnodes cs_fork cs_length cs_roots cs_byte_length cs_hash cs_signature].
      fold (cs_nodes cs1). rewrite F1, HF, L1, R1, B1, HB, HsumB. repeat split; reflexivity. }
    destruct Ecs as (EN & EF & EL & ER & EB & EH & ES).
    set (e := mkEntry (cs_nodes cs) (Some (mkTreeUpgrade (cs_fork cs) (cs_ancestors cs) (cs_length cs) sg)) (Some bu)).
    assert (Ee : e = mkEntry (cs_nodes cs1) (Some (mkTreeUpgrade 0 n (n + k) sg)) (Some (mkBfUpdate false n (n + k - n)))).
    { unfold e. rewrite EN, EF, EL, P7, HL, Hbu. replace (n + k - n) with k by lia. reflexivity. }
    assert (Heok : entry_ok e = true).
    { rewrite Ee. apply (append_entry_ok cr Hhash32 Hhashbytes B); try assumption.
      - rewrite <- HlenB. exact Hidx.
      - lia.
      - rewrite length_cs_nodes, Enew. replace (n + k - n) with k by lia. unfold k. lia.
      - apply Hsig64.
      - apply Hsigbytes. }
    assert (P4 : forall x, In x (e_nodes e) -> length (n_hash x) = 32%nat).
    { intros x Hx. unfold e in Hx. cbn [e_nodes] in Hx. rewrite EN in Hx. rewrite (Sound x Hx).
      apply ref_at_hash_length, Hhash32. }
    destruct (oplog_append_cases cr (c_oplog c) e P4) as [OA|(o' & fr & OA)].
    { match type of H with
      | mbind (log_and_commit _ _ _) _ ?c0 ?w0 = _ =>
          pose proof (log_and_commit_panic cr cs bu c0 w0 hash sg frame_msg P1 EH ES OA) as E
      end.
      rewrite (mbind_panic _ _ _ _ _ _ _ E) in H. injection H as <- <- <-. left. reflexivity. }
    match type of H with
    | mbind (log_and_commit _ _ _) _ ?c0 ?w0 = _ =>
        pose proof (log_and_commit_detail cr cs bu c0 w0 hash sg o' _ fr P1 EH ES P5 P6 P7 OA) as E
    end.
    rewrite (mbind_eq _ _ _ _ _ _ _ E) in H. clear E.
    cbn [w_disk w_journal w_events] in H.
    rewrite EN, EF, EL, ER, EB in H.
    (* the state after the commit satisfies the invariant for the longer list *)
    match type of H with
    | mbind (maybe_flush _ _) _ ?c2 (mkWorld ?d2 ?j2 ?ev2) = _ =>
        assert (D2 : FInv cr c2 d2 B (cl_mask cl n)); [|set (c2' := c2) in *; set (d2' := d2) in *]
    end.
    { set (dd := d_set d Data (f_write (d_data d) (t_byte_length (c_tree c)) (concat batch))).
      set (off := ENTRIES_OFFSET + ol_entries_bytes (c_oplog c)) in *.
      assert (Tsame : d_tree (d_set dd Oplog (f_write (d_oplog dd) off fr)) = d_tree d) by (destruct d; reflexivity).
      assert (Dsame : d_data (d_set dd Oplog (f_write (d_oplog dd) off fr))
                      = f_write (d_data d) (t_byte_length (c_tree c)) (concat batch)) by (destruct d; reflexivity).
      assert (Bsame : d_bitfield (d_set dd Oplog (f_write (d_oplog dd) off fr)) = d_bitfield d) by (destruct d; reflexivity).
      assert (Osame : d_oplog (d_set dd Oplog (f_write (d_oplog dd) off fr)) = f_write (d_oplog d) off fr)
        by (destruct d; reflexivity).
      assert (GG : forall i, bf_get (bf_apply (c_bitfield c) bu) i = held (N.of_nat (length B)) (cl_mask cl n) i).
      { intros i. rewrite bf_get_apply, Hbu, HlenB. cbn [bu_start bu_length bu_drop negb]. rewrite Hbf.
        unfold held, cl_mask. fold n.
        destruct (N.leb_spec n i), (N.ltb_spec i (n + k)), (N.ltb_spec i n); cbn [andb];
          rewrite ?andb_false_r, ?andb_true_r; cbn [negb]; try reflexivity; lia. }
      assert (Hex2 : exact_contig (bf_apply (c_bitfield c) bu)
                                  (update_contig (hd_contig (c_header c)) (bf_apply (c_bitfield c) bu) bu)).
      { apply update_contig_exact; [exact Hcg|]. rewrite Hbu. cbn [bu_length]. exact Hk. }
      match goal with |- FInv cr ?c2 ?d2 B _ => assert (W2 : CInv cr c2 d2 B (cl_mask cl n)) end.
      { unfold CInv, TInv. cbv zeta. cbn [c_tree c_bitfield c_header t_length t_byte_length t_fork t_roots].
        rewrite Tsame, Dsame. rewrite HB.
        split.
        { split; [symmetry; exact HlenB|].
          split; [reflexivity|].
          split; [reflexivity|].
          split; [rewrite HlenB; reflexivity|].
          split.
          { apply (commit_lookups cr Hnonblank bs batch (c_tree c) _ (d_tree d) (cs_nodes cs1)).
            - exact Sound.
            - intros jj q Q1 Q2. apply Compl1; [exact Q1|]. fold B in Q2. rewrite HlenB in Q2. exact Q2.
            - reflexivity.
            - exact Hlook. }
          split.
          { apply (commit_unflushed_ok cr Hhash32 B (c_tree c) _ (cs_nodes cs1) Hfit Sound); [reflexivity|exact Hun]. }
          split; [exact Hfit|exact Hidx]. }
        split; [exact GG|].
        split; [cbn [set_contig hd_contig]; exact Hex2|].
        split.
        { intros i Hi Hpos. rewrite <- GG in Hi. rewrite bf_get_apply, Hbu in Hi.
          cbn [bu_start bu_length bu_drop negb] in Hi.
          destruct (N.lt_ge_cases i n) as [A|A].
          - assert ((n <=? i) && (i <? n + k) = false) as E by lia. rewrite E in Hi. rewrite Hbf in Hi.
            assert (Hnth : nth (N.to_nat i) B [] = nth (N.to_nat i) bs []) by (unfold B; apply app_nth1; lia).
            rewrite Hnth in *. unfold B. rewrite prefix_size_app_l by (fold n; lia).
            pose proof (Hd i Hi Hpos) as R. pose proof R as R'. apply f_read_spec in R' as (R1' & _).
            rewrite f_read_write_other; [exact R|exact R1'|left; lia].
          - destruct (N.lt_ge_cases i (n + k)) as [A2|A2].
            2:{ assert ((n <=? i) && (i <? n + k) = false) as E by lia. rewrite E in Hi. rewrite Hbf in Hi.
                unfold held in Hi. fold n in Hi. lia. }
            set (jn := (N.to_nat i - length bs)%nat).
            assert (Hjn : (jn < length batch)%nat) by (unfold jn, n, k in *; lia).
            assert (Hi' : i = n + N.of_nat jn) by (unfold jn, n in *; lia).
            assert (Hnth : nth (N.to_nat i) B [] = nth jn batch []).
            { unfold B. rewrite app_nth2 by (unfold n in A; lia). reflexivity. }
            rewrite Hnth in *. rewrite Hi'. unfold B, n. rewrite prefix_size_app_r.
            rewrite (concat_split batch jn Hjn) at 1. apply f_read_write_part. }
        rewrite f_write_len, len_concat. lia. }
      apply (log_entry_FInv cr Hcrc Hhash32 Hnonblank Hhashbytes c d bs cl batch e bu o' fr _ _ (cl_mask cl n) D);
        try reflexivity; try assumption.
      - intros kf0 l0 Hch0. apply (gchain_snoc_append cr B l0 kf0 n e).
        + apply gchain_app; [apply N.le_refl|exact Hch0].
        + fold B. rewrite HlenB. rewrite Ee. split; [lia|]. split.
          { exists sg. split; [reflexivity|]. split; [apply Hsig64|apply Hsigbytes]. }
          split; [reflexivity|]. cbn [e_nodes]. split; [exact Shape|].
          intros jj q Q1 Q2. apply Compl1; assumption.
      - cbn [c_header]. fold B. rewrite HlenB.
        destruct Hhc as (Hok & Hkp & Hfk & Hln & Hrh & Hsgc).
        apply (hdr_desc'_upd (c_keypair c) (c_header c) n _ (n + k) hash sg); try reflexivity.
        + repeat split; assumption.
        + cbn [set_contig set_tree hd_tree]. rewrite Hfk. reflexivity.
        + cbn [set_contig hd_contig].
          assert (update_contig (hd_contig (c_header c)) (bf_apply (c_bitfield c) bu) bu <= n + k); [|unfold NODE_SIZE in Hidx; lia].
          apply (fexact_le (bf_get (bf_apply (c_bitfield c) bu))); [|apply exact_contig_fexact, Hex2].
          intros i Hi. rewrite GG, HlenB in Hi. apply (held_lt _ _ _ Hi).
        + rewrite <- HlenB. unfold NODE_SIZE in Hidx. lia.
        + apply Hhash32.
        + apply Hhashbytes.
        + apply Hsig64.
        + apply Hsigbytes. }
    assert (P2 : PInv cr sk c2' d2' B).
    { assert (Esg : sg = sigof cr sk B (n + k)).
      { unfold sg, sigof, cs_signable, hash, cs_tree_hash. rewrite R1, L1, F1, HF. reflexivity. }
      assert (Ehash : hash = tree_hash cr (ref_roots cr B (n + k))).
      { unfold hash, cs_tree_hash. rewrite R1. reflexivity. }
      assert (Hnodes : forall x, In x (cs_nodes cs1) -> refnode cr B (n + k) x).
      { intros x Hx. destruct (Shape x Hx) as (jj & q & Ex & Hq). exists jj, q. split; assumption. }
      unfold PInv. rewrite HlenB. unfold c2', d2'.
      cbn [c_keypair c_tree c_header t_signature].
      split; [exact PK|]. split; [intros _; rewrite Esg; reflexivity|].
      split.
      { intros _. cbn [set_contig set_tree hd_tree ht_length ht_signature ht_root_hash].
        split; [exact Esg|exact Ehash]. }
      split.
      { apply (UClean_add cr B (n + k) (c_tree c) _ (cs_nodes cs1) Hnodes); [reflexivity|].
        apply (UClean_app cr bs batch n (n + k)); [unfold n; lia|lia|exact PU]. }
      split.
      { match goal with |- FClean _ _ _ (d_tree ?dd) => assert (d_tree dd = d_tree d) as -> by (destruct d; reflexivity) end.
        apply (FClean_app cr bs batch n (n + k)); [unfold n; lia|lia|exact PF]. }
      match goal with |- forall oo, oplog_open _ _ (f_content (d_oplog ?dd)) = _ -> _ =>
        assert (Od : d_oplog dd = f_write (d_oplog d) (ENTRIES_OFFSET + ol_entries_bytes (c_oplog c)) fr)
          by (destruct d; reflexivity)
      end.
      destruct (log_entry_open cr Hcrc c d bs cl e o' fr _ D Heok OA Od) as (bits & hf0 & l0 & kf0 & Eold & Eopn & Hhf0 & Hch0).
      intros oo Hoo. rewrite Eopn in Hoo. injection Hoo as <-. cbn [stable_result oo_header oo_entries].
      destruct (PD _ Eold) as [PDh PDe]. cbn [stable_result oo_header oo_entries] in PDh, PDe.
      split.
      { apply hsig_app; [|exact PDh]. destruct Hhf0 as (_ & _ & _ & -> & _). apply (gchain_le cr bs l0 kf0 _ Hch0). }
      apply Forall_app. split; [apply (Forall_esig_app cr sk bs batch l0 kf0 Hch0 PDe)|].
      constructor; [|constructor]. intros u Hu. rewrite Ee in Hu. cbn [e_upgrade] in Hu. injection Hu as <-.
      cbn [tu_signature tu_length]. exact Esg. }
    mstep H.
    - pose proof (maybe_flush_PInv cr sk Hcrc Hhash32 Hnonblank Hhashbytes f c2' d2' _ _ B (cl_mask cl n) _ _ _ D2 P2 Hm) as P3.
      apply (maybe_flush_FInv cr Hcrc Hhash32 Hnonblank Hhashbytes f c2' d2' _ _ B (cl_mask cl n)) in Hm; [|exact D2].
      destruct Hm as (_ & D3 & K3).
      rewrite mbind_send in H. unfold send in H. injection H as <- <- <-.
      right. split; [reflexivity|]. cbn [w_disk]. split; [exact D3|]. split; [exact P3|]. rewrite K3. reflexivity.
    - apply (maybe_flush_FInv cr Hcrc Hhash32 Hnonblank Hhashbytes f c2' d2' _ _ B (cl_mask cl n)) in Hm; [|exact D2].
      destruct Hm as (Hm & _). discriminate Hm.
    - apply (maybe_flush_FInv cr Hcrc Hhash32 Hnonblank Hhashbytes f c2' d2' _ _ B (cl_mask cl n)) in Hm; [|exact D2].
      destruct Hm as (Hm & _). discriminate Hm.
    - apply (maybe_flush_FInv cr Hcrc Hhash32 Hnonblank Hhashbytes f c2' d2' _ _ B (cl_mask cl n)) in Hm; [|exact D2].
      destruct Hm as (Hm & _). discriminate Hm.
  Qed.

  (* core_append: both invariants are preserved, for every forced flush decision and every batch *)
  Theorem append_PInv f batch c d j ev bs cl sk0 c' w' r :
    FInv cr c d bs cl -> PInv cr sk c d bs -> kp_secret (c_keypair c) = Some sk0 ->
    sumN (map len (bs ++ batch)) <= u64_max ->
    NODE_SIZE * (2 * N.of_nat (length (bs ++ batch))) <= u64_max ->
    core_append cr f batch c (mkWorld d j ev) = (c', w', r) ->
    r = Panic frame_msg \/
    (r = Ok (N.of_nat (length (bs ++ batch)), sumN (map len (bs ++ batch))) /\
     FInv cr c' (w_disk w') (bs ++ batch) (cl_mask cl (N.of_nat (length bs))) /\
     PInv cr sk c' (w_disk w') (bs ++ batch) /\ c_keypair c' = c_keypair c).
  Proof.
    intros D P Hsk Hfit Hidx H.
    destruct (append_FInv cr Hcrc Hhash32 Hnonblank Hhashbytes Hsig64 Hsigbytes f batch c d j ev bs cl sk0 c' w' r
                D Hsk Hfit Hidx H) as [E|(E & D' & K')]; [left; exact E|right].
    split; [exact E|]. split; [exact D'|]. split; [|exact K'].
    unfold core_append in H. rewrite mbind_get_core, Hsk in H.
    destruct batch as [|b0 rest].
    - rewrite mbind_ret, mbind_get_core in H. unfold ret in H. injection H as <- <- _.
      rewrite app_nil_r. exact P.
    - cbv iota in H. fold (append_body cr f (b0 :: rest) sk0 c) in H.
      mstep H.
      + apply (append_body_FP f (b0 :: rest) c d j ev bs cl sk0) in Hm; try assumption; [|discriminate].
        destruct Hm as [Hm|(_ & _ & P1 & _)]; [discriminate Hm|].
        rewrite mbind_get_core in H. unfold ret in H. injection H as <- <- _. exact P1.
      + discriminate E.
      + discriminate E.
      + discriminate E.
  Qed.
End AppendP.

Section ClearP.
  Variable cr : crypto.
  Variable sk : bytes.
  Hypothesis Hcrc : crc_ok cr.
  Hypothesis Hhash32 : forall x, length (cr_hash cr x) = 32%nat.
  Hypothesis Hnonblank : forall x, all_zero (cr_hash cr x) = false.
  Hypothesis Hhashbytes : forall x, bytes_ok (cr_hash cr x) = true.

  (* the proof of Unified2.clear_FInv, carrying PInv along: a clear changes neither the tree, nor the signatures, nor
     the tree store; the entry it logs carries no upgrade *)
  Theorem clear_PInv f c d j ev bs cl start end_ c' w' r :
    let n := N.of_nat (length bs) in
    FInv cr c d bs cl -> PInv cr sk c d bs -> start < n -> start < end_ -> end_ <= u64_max ->
    core_clear cr f start end_ c (mkWorld d j ev) = (c', w', r) ->
    r = Ok tt /\ FInv cr c' (w_disk w') bs (cl_clear cl start end_) /\ PInv cr sk c' (w_disk w') bs /\
    c_keypair c' = c_keypair c.
  Proof.
    intros n D P Hsn Hse Hend H.
    pose proof P as (PK & PS & PH & PU & PF & PD).
    pose proof (FInv_CInv cr c d bs cl D) as W.
    assert (Hhc : hdr_desc' (c_keypair c) (c_header c) n).
    { destruct D as (_ & s0 & s1 & body & st0 & st1 & hf & l & kf & _ & _ & _ & _ & _ & Hhc & _). exact Hhc. }
    pose proof W as (T & Hbf & Hcg & Hd & Hl).
    pose proof T as (HL & HB & HF & HR & Hlook & Hun & Hs & Hn).
    unfold core_clear in H.
    destruct (N.leb_spec end_ start) as [L|_]; [lia|].
    rewrite mbind_get_core in H. cbv zeta in H. rewrite mbind_lift in H.
    destruct (clear_entry_logged cr (c_oplog c) start (end_ - start)) as (o' & fr & OA). rewrite OA in H.
    cbv iota in H.
    rewrite mbind_put_oplog, mbind_emit_SW, mbind_put_bitfield, mbind_cond_header in H.
    cbn [c_keypair c_oplog c_tree c_bitfield c_header c_skip w_disk w_journal w_events d_get] in H.
    rewrite mbind_get_disk in H. cbn [w_disk] in H.
    set (cl' := cl_clear cl start end_).
    set (u := mkBfUpdate true start (end_ - start)) in *.
    set (e := mkEntry [] None (Some u)) in *.
    set (b' := bf_set_range (c_bitfield c) start (end_ - start) false) in *.
    set (d1 := d_set d Oplog (f_write (d_oplog d) (ENTRIES_OFFSET + ol_entries_bytes (c_oplog c)) fr)) in *.
    assert (Dt : d_tree d1 = d_tree d) by (destruct d; reflexivity).
    assert (Dd : d_data d1 = d_data d) by (destruct d; reflexivity).
    assert (Db : d_bitfield d1 = d_bitfield d) by (destruct d; reflexivity).
    assert (Do : d_oplog d1 = f_write (d_oplog d) (ENTRIES_OFFSET + ol_entries_bytes (c_oplog c)) fr)
      by (destruct d; reflexivity).
    assert (Hb' : forall i, bf_get b' i = held n cl' i).
    { intros i. unfold b'. rewrite bf_get_set_range, Hbf. unfold held, cl', cl_clear.
      replace (start + (end_ - start)) with end_ by lia.
      destruct ((start <=? i) && (i <? end_)); [rewrite orb_true_r; cbn [negb]; rewrite andb_false_r; reflexivity|].
      rewrite orb_false_r. reflexivity. }
    assert (Hcl' : forall i, start <= i -> i < end_ -> cl' i = true).
    { intros i A B. unfold cl', cl_clear. assert ((start <=? i) && (i <? end_) = true) as -> by lia.
      apply orb_true_r. }
    assert (Hsub : forall i, held n cl' i = true -> held n cl i = true).
    { intros i. unfold held, cl', cl_clear. destruct (i <? n); [|intros E; exact E]. cbn [andb].
      destruct (cl i); [intros E; exact E|reflexivity]. }
    pose proof (hole_bounds b' n start end_ cl' Hb' Hsn Hse Hcl') as HB'. cbv zeta in HB'. fold n in HL.
    rewrite HL in H.
    set (s' := match bf_last_index_of_true b' start with Some i => i + 1 | None => 0 end) in *.
    set (e' := match bf_index_of_true b' end_ with Some i => i | None => n end) in *.
    destruct HB' as (B1 & B2 & B3 & B4 & B5).
    rewrite Dt in H.
    rewrite mbind_lift, (byte_offset_tinv cr (c_tree c) (d_tree d) bs s' T) in H by (fold n; lia).
    rewrite mbind_lift in H. unfold sub64 at 1 in H.
    destruct (N.leb_spec 1 e') as [_|L]; [|lia].
    rewrite mbind_lift, (byte_range_tinv cr (c_tree c) (d_tree d) bs (e' - 1) T) in H by (fold n; lia).
    cbv iota in H.
    assert (Pe : prefix_size bs (e' - 1) + len (nth (N.to_nat (e' - 1)) bs []) = prefix_size bs e').
    { change (nth (N.to_nat (e' - 1)) bs []) with (blk bs (e' - 1)). rewrite <- prefix_size_succ. f_equal. lia. }
    rewrite Pe in H. rewrite mbind_lift in H. unfold sub64 in H.
    pose proof (prefix_size_mono bs s' e' ltac:(lia)) as Pm.
    destruct (N.leb_spec (prefix_size bs s') (prefix_size bs e')) as [_|L]; [|lia].
    (* the state before the delete satisfies the invariant for the larger cleared set *)
    match type of H with
    | mbind _ _ ?c2 _ = _ => assert (W2 : CInv cr c2 d1 bs cl'); [|set (c2' := c2) in *]
    end.
    { unfold CInv. cbv zeta. cbn [c_tree c_bitfield c_header]. rewrite Dt, Dd. fold n.
      split; [exact T|]. split; [exact Hb'|]. split.
      - destruct Hcg as [G1 G2]. destruct (N.ltb_spec start (hd_contig (c_header c))) as [A|A].
        + cbn [set_contig hd_contig]. split.
          * intros i Hi. unfold b'. rewrite bf_get_set_range.
            assert ((start <=? i) && (i <? start + (end_ - start)) = false) as -> by lia. apply G1. lia.
          * unfold b'. rewrite bf_get_set_range.
            assert ((start <=? start) && (start <? start + (end_ - start)) = true) as -> by lia. reflexivity.
        + split.
          * intros i Hi. unfold b'. rewrite bf_get_set_range.
            assert ((start <=? i) && (i <? start + (end_ - start)) = false) as -> by lia. apply G1. lia.
          * unfold b'. rewrite bf_get_set_range.
            destruct ((start <=? hd_contig (c_header c)) && (hd_contig (c_header c) <? start + (end_ - start)));
              [reflexivity|exact G2].
      - split; [|exact Hl]. intros i Hi. apply Hd, Hsub, Hi. }
    assert (Hn64 : n <= u64_max) by (unfold NODE_SIZE in Hn; fold n in Hn; lia).
    assert (Hcd : cdesc e).
    { exists start, (end_ - start). split; [reflexivity|]. split; [lia|]. split; lia. }
    assert (F2 : FInv cr c2' d1 (bs ++ []) cl').
    { apply (log_entry_FInv cr Hcrc Hhash32 Hnonblank Hhashbytes c d bs cl [] e u o' fr c2' d1 cl' D);
        try reflexivity; try assumption.
      - apply cdesc_entry_ok, Hcd.
      - rewrite app_nil_r. exact W2.
      - intros kf0 l0 Hch0. rewrite app_nil_r. apply gchain_snoc_clear; assumption.
      - rewrite app_nil_r. fold n. unfold c2'. cbn [c_header].
        destruct (start <? hd_contig (c_header c)); [|exact Hhc]. apply hdr_desc'_contig; [exact Hhc|lia]. }
    rewrite app_nil_r in F2.
    assert (P2 : PInv cr sk c2' d1 bs).
    { unfold PInv. fold n. unfold c2'. cbn [c_keypair c_tree c_header]. rewrite Dt.
      split; [exact PK|]. split; [exact PS|].
      split. { destruct (start <? hd_contig (c_header c)); exact PH. }
      split; [exact PU|]. split; [exact PF|].
      destruct (log_entry_open cr Hcrc c d bs cl e o' fr _ D (cdesc_entry_ok e Hcd) OA Do)
        as (bits & hf0 & l0 & kf0 & Eold & Eopn & Hhf0 & Hch0).
      intros oo Hoo. rewrite Eopn in Hoo. injection Hoo as <-. cbn [stable_result oo_header oo_entries].
      destruct (PD _ Eold) as [PDh PDe]. cbn [stable_result oo_header oo_entries] in PDh, PDe.
      split; [exact PDh|]. apply Forall_app. split; [exact PDe|].
      constructor; [|constructor]. intros u0 Hu. discriminate Hu. }
    rewrite Dd in H.
    destruct ((0 <? prefix_size bs e' - prefix_size bs s') && (prefix_size bs s' <? f_len (d_data d))) eqn:G.
    - (* a delete is issued; it starts inside the store *)
      destruct (f_del_some (d_data d) (prefix_size bs s') (prefix_size bs e' - prefix_size bs s') ltac:(lia))
        as [f' Edel].
      rewrite (mbind_emit_SD_some Data _ _ f') in H by (cbn [w_disk d_get]; rewrite Dd; exact Edel).
      cbn [w_disk w_journal w_events] in H.
      destruct W2 as (T2 & Hbf2 & Hcg2 & Hd2 & Hl2). rewrite Dd in Hd2.
      destruct (del_hole_preserves bs cl' s' e' (d_data d) f' ltac:(lia) B4 Hd2 Hl Edel) as [Hd3 Hl3].
      assert (W3 : CInv cr c2' (d_set d1 Data f') bs cl').
      { unfold CInv. cbv zeta.
        assert (d_tree (d_set d1 Data f') = d_tree d1) as -> by (destruct d1; reflexivity).
        assert (d_data (d_set d1 Data f') = f') as -> by (destruct d1; reflexivity).
        split; [exact T2|]. split; [exact Hbf2|]. split; [exact Hcg2|]. split; [exact Hd3|exact Hl3]. }
      assert (F3 : FInv cr c2' (d_set d1 Data f') bs cl').
      { apply (FInv_data cr c2' d1 _ bs cl' F2 W3); destruct d1; reflexivity. }
      assert (P3 : PInv cr sk c2' (d_set d1 Data f') bs).
      { destruct P2 as (Q1 & Q2 & Q3 & Q4 & Q5 & Q6). unfold PInv.
        assert (d_tree (d_set d1 Data f') = d_tree d1) as -> by (destruct d1; reflexivity).
        assert (d_oplog (d_set d1 Data f') = d_oplog d1) as -> by (destruct d1; reflexivity).
        split; [exact Q1|]. split; [exact Q2|]. split; [exact Q3|]. split; [exact Q4|]. split; [exact Q5|exact Q6]. }
      pose proof (maybe_flush_PInv cr sk Hcrc Hhash32 Hnonblank Hhashbytes f c2' _ _ _ bs cl' _ _ _ F3 P3 H) as P4.
      apply (maybe_flush_FInv cr Hcrc Hhash32 Hnonblank Hhashbytes f c2' _ _ _ bs cl') in H; [|exact F3].
      destruct H as (-> & F4 & K4).
      split; [reflexivity|]. split; [exact F4|]. split; [exact P4|]. rewrite K4. reflexivity.
    - (* no delete is issued: the data store is unchanged *)
      rewrite mbind_ret in H.
      pose proof (maybe_flush_PInv cr sk Hcrc Hhash32 Hnonblank Hhashbytes f c2' _ _ _ bs cl' _ _ _ F2 P2 H) as P4.
      apply (maybe_flush_FInv cr Hcrc Hhash32 Hnonblank Hhashbytes f c2' _ _ _ bs cl') in H; [|exact F2].
      destruct H as (-> & F4 & K4).
      split; [reflexivity|]. split; [exact F4|]. split; [exact P4|]. rewrite K4. reflexivity.
  Qed.
End ClearP.

(* ====================================================================================== *)
(* H. PInv is preserved: reopen (tree_open + replay of the pending entries)                *)
(* ====================================================================================== *)

Lemma tree_open_sig ht tf t :
  tree_open ht tf = Ok t ->
  t_unflushed t = nm_empty /\ (length (ht_signature ht) = 64%nat -> t_signature t = Some (ht_signature ht)).
Proof.
  intros H. unfold tree_open in H. apply bind_ok in H. destruct H as ([[roots bl] l2] & _ & H).
  apply bind_ok in H. destruct H as (sg & Hsg & H). injection H as <-. cbn [t_unflushed t_signature].
  split; [reflexivity|]. intros L. destruct (ht_signature ht) as [|x s]; [discriminate L|].
  unfold parse_signature in Hsg. rewrite L in Hsg. cbn [Nat.eqb bind] in Hsg.
  replace (Nat.eqb 64 64) with true in Hsg by reflexivity. cbn [bind] in Hsg. injection Hsg as <-. reflexivity.
Qed.

Section ReplayP.
  Variable cr : crypto.

  (* what replaying an entry with an upgrade installs: the entry's signature in the tree AND in the header, the hash of
     the new roots and the new length in the header *)
  Lemma replay_entry_upgrade_inv tf t b h e u t' b' h' :
    replay_entry cr tf (t, b, h) e = Ok (t', b', h') -> e_upgrade e = Some u ->
    t_signature t' = Some (tu_signature u) /\
    ht_signature (hd_tree h') = tu_signature u /\
    ht_root_hash (hd_tree h') = tree_hash cr (t_roots t') /\
    ht_length (hd_tree h') = t_length t' /\ t_length t' = tu_length u /\
    t_unflushed t' = add_nodes (t_unflushed t) (e_nodes e).
  Proof.
    intros H Hu. unfold replay_entry in H. rewrite fold_add_node in H.
    destruct (match e_bitfield e with
              | Some u0 => let b'0 := bf_apply b u0 in (b'0, set_contig h (update_contig (hd_contig h) b'0 u0))
              | None => (b, h)
              end) as [b1 h1].
    rewrite Hu in H.
    apply bind_ok in H. destruct H as (cs & Hcs & H).
    apply bind_ok in H. destruct H as (sg & Hsg & H).
    apply bind_ok in H. destruct H as (t2 & Hc & H). injection H as <- <- <-.
    unfold tree_truncate in Hcs. apply bind_ok in Hcs. destruct Hcs as (roots & _ & Hcs). injection Hcs as <-.
    unfold parse_signature in Hsg. destruct (Nat.eqb (length (tu_signature u)) 64); [|discriminate Hsg].
    injection Hsg as <-.
    unfold tree_commit in Hc.
    match type of Hc with (if ?x then _ else _) = _ => destruct x; [discriminate Hc|] end.
    cbn [cs_upgraded cs_ancestors cs_orig_length cs_roots cs_length cs_byte_length cs_fork cs_signature cs_nodes
         cs_rnodes] in Hc.
    match type of Hc with (if ?x then _ else _) = _ => destruct x; [discriminate Hc|] end.
    injection Hc as <-.
    cbn [t_signature t_roots t_length t_unflushed set_tree hd_tree ht_signature ht_root_hash ht_length].
    repeat split; reflexivity.
  Qed.
End ReplayP.

Section ReopenP.
  Variable cr : crypto.
  Variable sk : bytes.
  Hypothesis Hcrc : crc_ok cr.
  Hypothesis Hhash32 : forall x, length (cr_hash cr x) = 32%nat.
  Hypothesis Hnonblank : forall x, all_zero (cr_hash cr x) = false.
  Hypothesis Hhashbytes : forall x, bytes_ok (cr_hash cr x) = true.
  Hypothesis Hsig64 : forall k m, length (cr_sign cr k m) = 64%nat.

  (* the signature part of the state of a replay that has reached length a (nf = the final length) *)
  Definition SR (bs : list bytes) (nf : N) (st : mtree * bitfield * header) (a : N) : Prop :=
    let '(t, b, h) := st in
    (0 < a -> t_signature t = Some (sigof cr sk bs a)) /\ hsig cr sk bs h /\ UClean cr bs nf t.

  Lemma replay_entries_SR bs tf kp b0 nf (l : list entry) : forall t b h a g t' b' h',
    sumN (map len bs) <= u64_max -> nf <= u64_max ->
    RInvU cr bs tf kp b0 (t, b, h) a g -> SR bs nf (t, b, h) a ->
    gchain cr bs a l nf -> Forall (esig cr sk bs) l ->
    replay_entries cr tf (t, b, h) l = Ok (t', b', h') ->
    SR bs nf (t', b', h') nf.
  Proof.
    induction l as [|e l IH]; intros t b h a g t' b' h' Hfit Hn R S C E H; cbn [gchain replay_entries] in *.
    - subst a. injection H as <- <- <-. exact S.
    - pose proof (Forall_inv E) as Ee. pose proof (Forall_inv_tail E) as El.
      destruct S as (S1 & S2 & S3).
      destruct C as [(m & He & C)|(He & C)]; pose proof (gchain_le _ _ _ _ _ C) as Le.
      + destruct (replay_append_ok cr Hhash32 Hnonblank Hhashbytes bs tf kp b0 t b h e a m g Hfit ltac:(lia) R He)
          as (t1 & b1 & h1 & E1 & R1).
        rewrite E1 in H. cbn [bind] in H.
        apply (IH t1 b1 h1 m _ t' b' h' Hfit Hn R1); [|exact C|exact El|exact H].
        destruct He as (Hlt & (sg & Hup & _) & _ & Hsound & _).
        destruct (replay_entry_upgrade_inv cr tf t b h e _ t1 b1 h1 E1 Hup) as (U1 & U2 & U3 & U4 & U5 & U6).
        cbn [tu_signature tu_length] in U1, U2, U5.
        pose proof (Ee _ Hup) as Esg. cbn [tu_signature tu_length] in Esg.
        destruct R1 as (HL1 & _ & _ & HR1 & _).
        split; [intros _; rewrite U1, Esg; reflexivity|].
        split.
        * intros _. rewrite U4, HL1, U2, U3, HR1. split; [exact Esg|reflexivity].
        * apply (UClean_add cr bs nf t t1 (e_nodes e)); [|exact U6|exact S3].
          intros x Hx. destruct (Hsound x Hx) as (jj & q & Ex & Hq). exists jj, q. split; [exact Ex|lia].
      + destruct (replay_clear_ok cr bs tf kp b0 t b h e a g ltac:(lia) R He) as (b1 & h1 & E1 & R1).
        rewrite E1 in H. cbn [bind] in H.
        apply (IH t b1 h1 a _ t' b' h' Hfit Hn R1); [|exact C|exact El|exact H].
        destruct He as (s & k & -> & _).
        unfold replay_entry in E1. cbn [e_nodes e_bitfield e_upgrade fold_left] in E1.
        injection E1 as <- <-.
        split; [exact S1|]. split; [|exact S3]. exact S2.
  Qed.

  (* Dropping the core and opening the same storage again re-establishes both invariants: the signature held by the
     reopened tree AND the signature and root hash in the reopened header are those of the last pending entry (or of
     the stored header when no append is pending) *)
  Theorem reopen_PInv c d bs cl :
    FInv cr c d bs cl -> PInv cr sk c d bs ->
    exists c', core_open cr None true d = (d, [], Ok c') /\
               FInv cr c' d bs cl /\ PInv cr sk c' d bs /\ c_keypair c' = c_keypair c.
  Proof.
    intros F P. destruct (reopen_FInv cr Hcrc Hhash32 Hnonblank Hhashbytes c d bs cl F) as (c' & E & F' & K).
    exists c'. split; [exact E|]. split; [exact F'|]. split; [|exact K].
    pose proof F as (W & s0 & s1 & body & st0 & st1 & hf & l & kf & Hcont & G & Hlen & Hbytes & Hhf & Hhc & Hch &
                     Hstore & Hbm & Hbnd & Hbex & Hrep & Hdirty).
    pose proof W as ((HL & HB & HF & HR & Hlook & Hun & Hs & Hn) & Hbf & Hcg & Hd & Hdl).
    destruct P as (PK & PS & PH & PU & PF & PD).
    set (n := N.of_nat (length bs)) in *.
    pose proof (good_open cr Hcrc _ _ _ _ _ _ _ _ G) as Eopen. rewrite <- Hcont in Eopen.
    destruct (PD _ Eopen) as [PDh PDe]. cbn [stable_result oo_header oo_entries] in PDh, PDe.
    unfold core_open in E. cbv iota in E. rewrite Eopen in E.
    cbn [stable_result oo_ops oo_header oo_entries oo_oplog apply_sops] in E.
    injection E as E.
    apply bind_ok in E. destruct E as (t0 & Ht0 & E).
    apply bind_ok in E. destruct E as ([[t1 b1] h1] & Hr & E). injection E as <-.
    pose proof Hhf as (Hok & Hkp & Hfk & Hln & Hrh & Hsg).
    destruct (tree_open_ref cr Hnonblank bs (d_tree d) (hd_tree hf) kf Hstore Hln Hsg) as [sg0 Hto].
    rewrite Hto in Ht0. injection Ht0 as <-. rewrite Hfk in Hr.
    destruct (tree_open_sig _ _ _ Hto) as [_ Hsg0]. cbn [t_signature] in Hsg0.
    set (t0 := mkTree (ref_roots cr bs kf) kf (prefix_size bs kf) 0 sg0 nm_empty) in *.
    set (b0 := fbit (d_bitfield d)) in *.
    assert (R0 : RInvU cr bs (d_tree d) (c_keypair c) b0 (t0, bf_open (d_bitfield d), hf) kf b0).
    { unfold RInvU, t0. cbn [t_length t_byte_length t_fork t_roots].
      split; [reflexivity|]. split; [reflexivity|]. split; [reflexivity|]. split; [reflexivity|].
      split. { intros dd o Hfull. rewrite <- (Hstore dd o Hfull). apply required_node_same_unflushed. reflexivity. }
      split. { intros i x H. cbn [t_unflushed] in H. rewrite nm_get_empty in H. discriminate H. }
      split. { intros i. apply bf_open_get, Hbm. }
      split; [exact Hbnd|].
      split. { intros i H. exfalso. apply H. reflexivity. }
      split; [exact Hhf|exact Hbex]. }
    assert (Hn64 : n <= u64_max) by (unfold NODE_SIZE in Hn; lia).
    assert (S0 : SR bs n (t0, bf_open (d_bitfield d), hf) kf).
    { split; [|split; [exact PDh|apply UClean_empty; reflexivity]].
      intros Hpos. pose proof PDh as PDh'. unfold hsig in PDh'. rewrite Hln in PDh'. destruct (PDh' Hpos) as [Es _].
      cbn [t0 t_signature]. rewrite Hsg0; [rewrite Es; reflexivity|]. rewrite Es. apply Hsig64. }
    pose proof (replay_entries_SR bs (d_tree d) (c_keypair c) b0 n l t0 _ hf kf b0 t1 b1 h1 Hs Hn64 R0 S0 Hch PDe Hr)
      as (T1 & T2 & T3).
    unfold PInv. cbn [c_keypair c_tree c_header]. fold n.
    split.
    { intros k Hk. apply PK. cbn [c_keypair] in K. rewrite <- K. exact Hk. }
    split; [exact T1|]. split; [exact T2|]. split; [exact T3|]. split; [exact PF|exact PD].
  Qed.
End ReopenP.

(* ====================================================================================== *)
(* I. PInv is established by creation                                                      *)
(* ====================================================================================== *)

Section ChainP.
  Variable cr : crypto.

  (* upgrades logged in a chain from a to b lie in (a, b] *)
  Lemma gchain_upgrade_range bs l : forall a b,
    gchain cr bs a l b -> Forall (fun e => forall u, e_upgrade e = Some u -> a < tu_length u /\ tu_length u <= b) l.
  Proof.
    induction l as [|e l IH]; intros a b H; cbn [gchain] in H; [constructor|].
    destruct H as [(m & (Hlt & (sg & Hup & _) & _) & H)|((s & k & -> & _) & H)].
    - pose proof (gchain_le cr bs l m b H) as Le.
      constructor.
      + intros u Hu. rewrite Hup in Hu. injection Hu as <-. cbn [tu_length]. lia.
      + apply (Forall_impl _ (fun e0 (Q : forall u, e_upgrade e0 = Some u -> m < tu_length u /\ tu_length u <= b) u Hu =>
                                  conj (N.lt_trans _ _ _ Hlt (proj1 (Q u Hu))) (proj2 (Q u Hu))) (IH m b H)).
    - constructor; [intros u Hu; discriminate Hu|apply (IH a b H)].
  Qed.

End ChainP.

Section InitP.
  Variable cr : crypto.
  Variable sk : bytes.
  Hypothesis Hcrc : crc_ok cr.
  Hypothesis Hhash32 : forall x, length (cr_hash cr x) = 32%nat.
  Hypothesis Hnonblank : forall x, all_zero (cr_hash cr x) = false.
  Hypothesis Hhashbytes : forall x, bytes_ok (cr_hash cr x) = true.

  (* opening an empty oplog file with a key pair: no entries, and only the oplog store is written *)
  Lemma oplog_open_nil_inv kp oo :
    oplog_open cr (Some kp) [] = Ok oo ->
    oo_entries oo = [] /\ Forall (fun o => sop_store o = Oplog) (oo_ops oo).
  Proof.
    unfold oplog_open.
    change (slot_leader cr [] 0 HEADER_SIZE) with (@None leader).
    change (slot_leader cr [] HEADER_SIZE ENTRIES_OFFSET) with (@None leader).
    cbv iota zeta. intros H. apply bind_ok in H. destruct H as ([[[o h] ops] fresh] & Hf & H).
    change (ENTRIES_OFFSET <? len []) with false in H. cbv iota in H. injection H as <-.
    cbn [oo_entries oo_ops]. split; [reflexivity|].
    apply bind_ok in Hf. destruct Hf as ([[o1 h1] ops1] & Hf & E). injection E as _ _ <- _.
    unfold oplog_fresh in Hf. apply bind_ok in Hf. destruct Hf as ([bits ops2] & Hi & E). injection E as _ _ <-.
    unfold insert_header in Hi. destruct (next_slot INITIAL_HEADER_BITS) as [[slot bit] bits'].
    apply bind_ok in Hi. destruct Hi as (fr & _ & Hi).
    match type of Hi with (if ?x then _ else _) = _ => destruct x; [discriminate Hi|] end.
    injection Hi as _ <-. repeat constructor.
  Qed.

  Theorem init_PInv kp :
    keypair_ok kp = true -> (forall k, kp_secret kp = Some k -> k = sk) ->
    exists d' ops c,
      core_open cr (Some kp) false disk_empty = (d', ops, Ok c) /\
      FInv cr c d' [] (fun _ => false) /\ PInv cr sk c d' [] /\ c_keypair c = kp.
  Proof.
    intros Hkp Hsk.
    destruct (FInv_init cr Hcrc Hhash32 Hnonblank Hhashbytes kp Hkp) as (d' & ops & c & E & F & K).
    exists d', ops, c. split; [exact E|]. split; [exact F|]. split; [|exact K].
    destruct (FInv_open cr Hcrc c d' [] _ F) as (bits & hf & l & kf & Eopen & Hhf & Hch & Hhc).
    change (N.of_nat (length (@nil bytes))) with 0 in *.
    (* the structure of the opened core *)
    unfold core_open in E. cbv iota in E.
    change (f_content (d_oplog disk_empty)) with (@nil N) in E.
    destruct (oplog_open cr (Some kp) []) as [oo| | |] eqn:Eo; try (injection E as _ _ E; discriminate E).
    destruct (oplog_open_nil_inv kp oo Eo) as [Hent Hops].
    destruct (apply_sops disk_empty (oo_ops oo)) as [d1|] eqn:Ea; [|injection E as _ _ E; discriminate E].
    injection E as <- _ E.
    apply bind_ok in E. destruct E as (t0 & Ht0 & E). rewrite Hent in E. cbn [replay_entries bind] in E.
    injection E as <-.
    assert (Ht : d_tree d1 = file_empty).
    { change (d_tree d1) with (d_get d1 Tree). rewrite (apply_sops_other _ _ _ Tree Ea); [reflexivity|].
      intros o Ho Heq. rewrite Forall_forall in Hops. rewrite (Hops o Ho) in Heq. discriminate Heq. }
    unfold PInv. cbn [c_keypair c_tree c_header length]. change (N.of_nat 0) with 0.
    split; [intros k Hk; apply Hsk; cbn [c_keypair] in K; rewrite <- K; exact Hk|].
    split; [intros Hlt; lia|].
    split. { intros Hlt. destruct Hhc as (_ & _ & _ & Hln & _). cbn [c_header] in Hln. lia. }
    split; [apply UClean_empty; apply (tree_open_sig _ _ _ Ht0)|].
    split; [rewrite Ht; apply FClean_empty|].
    intros oo' Hoo'. rewrite Eopen in Hoo'. injection Hoo' as <-. cbn [stable_result oo_header oo_entries].
    pose proof (gchain_le cr [] l kf 0 Hch) as Hk0.
    split.
    - intros Hlt. destruct Hhf as (_ & _ & _ & Hln & _). lia.
    - pose proof (gchain_upgrade_range cr [] l kf 0 Hch) as R. rewrite Forall_forall in *.
      intros e He u Hu. destruct (R e He u Hu). lia.
  Qed.
End InitP.

(* ====================================================================================== *)
(* J. PInv is preserved: make_read_only                                                    *)
(* ====================================================================================== *)

From HC Require Import CrashCore1 CrashCore2 CrashClear1 CrashClear2 ReadOnly ReadOnlyClear.

Section ReadOnlyP.
  Variable cr : crypto.
  Variable sk : bytes.
  Hypothesis Hcrc : crc_ok cr.
  Hypothesis Hhash32 : forall x, length (cr_hash cr x) = 32%nat.
  Hypothesis Hnonblank : forall x, all_zero (cr_hash cr x) = false.
  Hypothesis Hhashbytes : forall x, bytes_ok (cr_hash cr x) = true.

  (* make_read_only erases the secret key from memory and from both header slots, flushes everything — and keeps the
     signatures: the tree's signature, and the signature and root hash of the header now written to BOTH slots *)
  Theorem make_read_only_PInv c d j ev bs cl :
    FInv cr c d bs cl -> PInv cr sk c d bs ->
    exists c' w',
      core_make_read_only cr c (mkWorld d j ev) = (c', w', Ok (i_writeable (core_info c))) /\
      FInv cr c' (w_disk w') bs cl /\ PInv cr sk c' (w_disk w') bs /\ kp_secret (c_keypair c') = None.
  Proof.
    intros F P.
    pose proof (FInv_YInv cr c d bs cl F) as X.
    destruct (make_read_only_Y cr Hhash32 Hnonblank Hhashbytes c d j ev bs cl X)
      as (d' & E & Hap & X' & Hda & Hfile & _).
    exists (ro_core c). eexists. split; [exact E|]. cbn [w_disk].
    assert (F' : FInv cr (ro_core c) d' bs cl).
    { apply YInv_no_pending_FInv; [exact X'|reflexivity|rewrite Hda].
      destruct F as ((_ & _ & _ & _ & Hdl) & _). exact Hdl. }
    split; [exact F'|]. split; [|reflexivity].
    pose proof F as (W & s0 & s1 & body & st0 & st1 & hf & l & kf & _ & _ & _ & _ & _ & Hhc & _).
    pose proof W as ((_ & _ & _ & _ & _ & Hun & _) & _).
    destruct P as (PK & PS & PH & PU & PF & PD).
    (* the tree store after the call *)
    unfold ro_ops in Hap. rewrite apply_sops_app, apply_page_ops, apply_sops_app, apply_node_ops in Hap.
    assert (Ht : d_tree d' = write_nodes (d_tree d) (unflushed_nodes (c_tree c))).
    { change (d_tree d') with (d_get d' Tree). rewrite (apply_sops_other _ _ _ Tree Hap).
      - unfold disk_nodes. destruct d; reflexivity.
      - intros o Ho Heq. pose proof (ro_oplog_ops_store cr (ol_bits (c_oplog c)) (ro_header c)) as S.
        rewrite Forall_forall in S. rewrite (S o Ho) in Heq. discriminate Heq. }
    unfold PInv, ro_core. cbn [c_keypair c_tree c_header]. unfold ro_keypair, flushed_tree. cbn [kp_secret t_signature].
    split; [intros k Hk; discriminate Hk|]. split; [exact PS|].
    split; [exact PH|].
    split; [apply UClean_empty; reflexivity|].
    split.
    { rewrite Ht. apply (FClean_write_nodes cr Hhash32); [|exact PF].
      intros v Hv. apply (in_unflushed_nodes _ _ Hun) in Hv. split; [apply (PU _ v Hv)|].
      destruct (Hun _ v Hv) as (_ & _ & Hl). exact Hl. }
    intros oo Hoo. rewrite Hfile in Hoo. unfold ro_oplog_file in Hoo.
    pose proof (hdr_desc'_erase _ _ _ Hhc) as Hro. fold (ro_header c) in Hro.
    pose proof Hro as (Hok & _).
    pose proof (ro_file_good cr (negb (fst (ol_bits (c_oplog c)))) (negb (snd (ol_bits (c_oplog c)))) (ro_header c)
                  Hok (hdr_desc'_fits _ _ _ Hro)) as G.
    pose proof (good_open cr Hcrc _ _ _ _ _ _ _ _ G) as Eo. rewrite app_nil_r in Eo.
    rewrite Eo in Hoo. injection Hoo as <-. cbn [stable_result oo_header oo_entries].
    split; [exact PH|constructor].
  Qed.
End ReadOnlyP.

(* ====================================================================================== *)
(* K. Every state of a writer: creation, appends, clears, reopens, make_read_only           *)
(* ====================================================================================== *)

Section Reach.
  Variable cr : crypto.
  Variable kp : keypair.
  Variable sk : bytes.
  Hypothesis Hcrc : crc_ok cr.
  Hypothesis Hhash32 : forall x, length (cr_hash cr x) = 32%nat.
  Hypothesis Hnonblank : forall x, all_zero (cr_hash cr x) = false.
  Hypothesis Hhashbytes : forall x, bytes_ok (cr_hash cr x) = true.
  Hypothesis Hsig64 : forall k m, length (cr_sign cr k m) = 64%nat.
  Hypothesis Hsigbytes : forall k m, bytes_ok (cr_sign cr k m) = true.
  Hypothesis Hkp : keypair_ok kp = true.
  Hypothesis Hsk : kp_secret kp = Some sk.

  (* core c over disk d, after the blocks bs have been appended and the indices cl cleared: created with the key pair
     kp, then any number of appends that returned a value (guards: u64 totals), clears of a range that starts inside
     the log, close-and-reopen, make_read_only — under any flush decisions, from any journal and event list *)
  Inductive wreach : core -> disk -> list bytes -> (N -> bool) -> Prop :=
  | wr_init d ops c :
      core_open cr (Some kp) false disk_empty = (d, ops, Ok c) -> wreach c d [] (fun _ => false)
  | wr_append c d bs cl f batch j ev c' w' v :
      wreach c d bs cl ->
      sumN (map len (bs ++ batch)) <= u64_max ->
      NODE_SIZE * (2 * N.of_nat (length (bs ++ batch))) <= u64_max ->
      core_append cr f batch c (mkWorld d j ev) = (c', w', Ok v) ->
      wreach c' (w_disk w') (bs ++ batch) (cl_mask cl (N.of_nat (length bs)))
  | wr_clear c d bs cl f start end_ j ev c' w' r :
      wreach c d bs cl ->
      start < N.of_nat (length bs) -> start < end_ -> end_ <= u64_max ->
      core_clear cr f start end_ c (mkWorld d j ev) = (c', w', r) ->
      wreach c' (w_disk w') bs (cl_clear cl start end_)
  | wr_reopen c d bs cl d' ops c' :
      wreach c d bs cl ->
      core_open cr None true d = (d', ops, Ok c') ->
      wreach c' d' bs cl
  | wr_read_only c d bs cl j ev c' w' r :
      wreach c d bs cl ->
      core_make_read_only cr c (mkWorld d j ev) = (c', w', r) ->
      wreach c' (w_disk w') bs cl.

  Theorem wreach_inv c d bs cl : wreach c d bs cl -> FInv cr c d bs cl /\ PInv cr sk c d bs.
  Proof.
    induction 1 as [d ops c Ho
                   |c d bs cl f batch j ev c' w' v Hst [F P] Hfit Hidx Ha
                   |c d bs cl f start end_ j ev c' w' r Hst [F P] Hs He Hu Hc
                   |c d bs cl d' ops c' Hst [F P] Ho
                   |c d bs cl j ev c' w' r Hst [F P] Hm].
    - destruct (init_PInv cr sk Hcrc Hhash32 Hnonblank Hhashbytes kp Hkp) as (d0 & ops0 & c0 & Ho0 & F0 & P0 & _).
      { intros k Hk. rewrite Hsk in Hk. injection Hk as <-. reflexivity. }
      rewrite Ho in Ho0. injection Ho0 as <- _ <-. split; assumption.
    - destruct (kp_secret (c_keypair c)) as [sk0|] eqn:Esk.
      2:{ exfalso. unfold core_append in Ha. rewrite mbind_get_core, Esk in Ha. discriminate Ha. }
      destruct (append_PInv cr sk Hcrc Hhash32 Hnonblank Hhashbytes Hsig64 Hsigbytes f batch c d j ev bs cl sk0 c' w' _
                  F P Esk Hfit Hidx Ha) as [E|(_ & F' & P' & _)]; [discriminate E|]. split; assumption.
    - destruct (clear_PInv cr sk Hcrc Hhash32 Hnonblank Hhashbytes f c d j ev bs cl start end_ c' w' r F P Hs He Hu Hc)
        as (_ & F' & P' & _). split; assumption.
    - destruct (reopen_PInv cr sk Hcrc Hhash32 Hnonblank Hhashbytes Hsig64 c d bs cl F P) as (c1 & E1 & F' & P' & _).
      rewrite Ho in E1. injection E1 as -> _ ->. split; assumption.
    - destruct (make_read_only_PInv cr sk Hcrc Hhash32 Hnonblank Hhashbytes c d j ev bs cl F P)
        as (c1 & w1 & E1 & F' & P' & _).
      rewrite Hm in E1. injection E1 as -> -> _. split; assumption.
  Qed.

  (* ---------- the composed statements ---------- *)

  (* C05: in every state of the writer, every node of every section of a proof it serves is the node of the reference
     tree at its flat index (index, size and hash), the fork is 0, a block section carries the appended block, which
     is held; and (C03) a block that is not held — cleared, or beyond the length — yields no proof, never a wrong one *)
  Theorem C05_served_proof_is_the_reference_tree c d bs cl j ev block hash seek upgrade c' w' pf :
    wreach c d bs cl ->
    core_create_proof block hash seek upgrade c (mkWorld d j ev) = (c', w', Ok (Some pf)) ->
    let n := N.of_nat (length bs) in
    (forall x, In x (proof_nodes pf) -> x = ref_at cr bs (n_index x) /\ refnode cr bs n x) /\
    p_fork pf = 0 /\
    (forall b, p_block pf = Some b ->
       held n cl (db_index b) = true /\ db_index b < n /\ db_value b = nth (N.to_nat (db_index b)) bs [] /\
       exists rb, block = Some rb /\ db_index b = rb_index rb) /\
    (block = None -> p_block pf = None) /\
    c' = c /\ w' = mkWorld d j ev.
  Proof.
    intros R H. destruct (wreach_inv c d bs cl R) as [F P].
    exact (served_proof_is_reference cr sk Hnonblank c d bs cl j ev block hash seek upgrade c' w' pf F P H).
  Qed.

  Theorem C03_unheld_block_yields_no_proof c d bs cl j ev rb hash seek upgrade c' w' r :
    wreach c d bs cl ->
    held (N.of_nat (length bs)) cl (rb_index rb) = false ->
    core_create_proof (Some rb) hash seek upgrade c (mkWorld d j ev) = (c', w', r) ->
    c' = c /\
    match r with
    | Ok (Some _) => False
    | Ok None => w' = mkWorld d j (EvGet (rb_index rb) :: ev)
    | _ => w' = mkWorld d j ev /\
           r = match create_valueless_proof (c_tree c) (d_tree d) (Some rb) hash seek upgrade with
               | Ok _ => r | Err e => Err e | Panic s => Panic s | OutOfFuel => OutOfFuel end
    end.
  Proof.
    intros R Hh H. destruct (wreach_inv c d bs cl R) as [F _].
    exact (unheld_block_yields_no_proof cr c d bs cl j ev rb hash seek upgrade c' w' r F Hh H).
  Qed.

  (* C05: the stored and served signature.  In every state with at least one block, the signature in memory, the
     signature and root hash of the header in memory, of the header a reopen will read, and of every pending oplog
     entry are the writer's signature over (tree namespace, hash of the reference roots, length, fork 0) *)
  Theorem C05_stored_signature c d bs cl :
    wreach c d bs cl ->
    let n := N.of_nat (length bs) in
    let sig m := cr_sign cr sk (signable (tree_hash cr (ref_roots cr bs m)) m 0) in
    0 < n ->
    t_signature (c_tree c) = Some (sig n) /\
    ht_length (hd_tree (c_header c)) = n /\
    ht_signature (hd_tree (c_header c)) = sig n /\
    ht_root_hash (hd_tree (c_header c)) = tree_hash cr (ref_roots cr bs n) /\
    exists oo, oplog_open cr None (f_content (d_oplog d)) = Ok oo /\
      (0 < ht_length (hd_tree (oo_header oo)) ->
         ht_signature (hd_tree (oo_header oo)) = sig (ht_length (hd_tree (oo_header oo))) /\
         ht_root_hash (hd_tree (oo_header oo)) =
           tree_hash cr (ref_roots cr bs (ht_length (hd_tree (oo_header oo))))) /\
      (forall e u, In e (oo_entries oo) -> e_upgrade e = Some u ->
         tu_signature u = sig (tu_length u) /\ tu_length u <= n).
  Proof.
    intros R n sig Hn. destruct (wreach_inv c d bs cl R) as [F (PK & PS & PH & PU & PF & PD)].
    destruct (FInv_open cr Hcrc c d bs cl F) as (bits & hf & l & kf & Eopen & Hhf & Hch & Hhc).
    destruct Hhc as (_ & _ & _ & Hln & _). fold n in Hln, PS.
    split; [apply PS, Hn|]. split; [exact Hln|].
    unfold hsig in PH. rewrite Hln in PH. destruct (PH Hn) as [A B].
    split; [exact A|]. split; [exact B|].
    exists (stable_result bits hf l). split; [exact Eopen|].
    destruct (PD _ Eopen) as [PDh PDe]. cbn [stable_result oo_header oo_entries] in *.
    split; [exact PDh|].
    intros e u He Hu. pose proof (gchain_upgrade_range cr bs l kf _ Hch) as Rg.
    rewrite Forall_forall in PDe, Rg. split; [apply (PDe e He u Hu)|]. destruct (Rg e He u Hu) as [_ Q]. exact Q.
  Qed.

  Theorem C05_served_upgrade_is_signed c d bs cl j ev block hash seek upgrade c' w' pf u :
    wreach c d bs cl ->
    core_create_proof block hash seek upgrade c (mkWorld d j ev) = (c', w', Ok (Some pf)) ->
    p_upgrade pf = Some u ->
    let n := N.of_nat (length bs) in
    0 < n /\
    t_signature (c_tree c) = Some (du_signature u) /\
    du_signature u = cr_sign cr sk (signable (tree_hash cr (ref_roots cr bs n)) n 0) /\
    (exists ru, upgrade = Some ru /\ du_start u = ru_start ru /\ du_length u = ru_length ru) /\
    0 < du_length u /\ du_start u + du_length u <= n /\
    (forall pk, (forall m, cr_verify cr pk m (cr_sign cr sk m) = true) ->
       du_start u + du_length u = n ->
       cr_verify cr pk (signable (tree_hash cr (ref_roots cr bs (du_start u + du_length u)))
                                 (du_start u + du_length u) (p_fork pf)) (du_signature u) = true).
  Proof.
    intros R H Hu. destruct (wreach_inv c d bs cl R) as [F P].
    exact (served_upgrade_is_signed cr sk Hnonblank c d bs cl j ev block hash seek upgrade c' w' pf u F P H Hu).
  Qed.
End Reach.

(* ====================================================================================== *)
(* L. Scripts of operations, for the examples                                              *)
(* ====================================================================================== *)

Inductive pop :=
| PAppend (f : option bool) (batch : list bytes)
| PClear (f : option bool) (start end_ : N)
| PReopen
| PReadOnly.

(* run a script from (c, d); None as soon as an operation does not return a value *)
Fixpoint prun (cr : crypto) (ops : list pop) (c : core) (d : disk) : option (core * disk) :=
  match ops with
  | [] => Some (c, d)
  | PAppend f batch :: r =>
      match core_append cr f batch c (mkWorld d [] []) with
      | (c', w', Ok _) => prun cr r c' (w_disk w')
      | _ => None
      end
  | PClear f s e :: r =>
      match core_clear cr f s e c (mkWorld d [] []) with
      | (c', w', Ok _) => prun cr r c' (w_disk w')
      | _ => None
      end
  | PReopen :: r =>
      match core_open cr None true d with
      | (d', _, Ok c') => prun cr r c' d'
      | _ => None
      end
  | PReadOnly :: r =>
      match core_make_read_only cr c (mkWorld d [] []) with
      | (c', w', Ok _) => prun cr r c' (w_disk w')
      | _ => None
      end
  end.

(* the blocks appended and the indices cleared by a script *)
Fixpoint pspec (ops : list pop) (bs : list bytes) (cl : N -> bool) : list bytes * (N -> bool) :=
  match ops with
  | [] => (bs, cl)
  | PAppend _ batch :: r => pspec r (bs ++ batch) (cl_mask cl (N.of_nat (length bs)))
  | PClear _ s e :: r => pspec r bs (cl_clear cl s e)
  | PReopen :: r => pspec r bs cl
  | PReadOnly :: r => pspec r bs cl
  end.

(* the guards of the real code: u64 totals, clears that start inside the log *)
Fixpoint pwf (ops : list pop) (bs : list bytes) : Prop :=
  match ops with
  | [] => True
  | PAppend _ batch :: r =>
      sumN (map len (bs ++ batch)) <= u64_max /\ NODE_SIZE * (2 * N.of_nat (length (bs ++ batch))) <= u64_max /\
      pwf r (bs ++ batch)
  | PClear _ s e :: r => s < N.of_nat (length bs) /\ s < e /\ e <= u64_max /\ pwf r bs
  | PReopen :: r => pwf r bs
  | PReadOnly :: r => pwf r bs
  end.

Lemma prun_wreach cr kp (ops : list pop) : forall c d bs cl c' d',
  wreach cr kp c d bs cl -> pwf ops bs -> prun cr ops c d = Some (c', d') ->
  wreach cr kp c' d' (fst (pspec ops bs cl)) (snd (pspec ops bs cl)).
Proof.
  induction ops as [|o ops IH]; intros c d bs cl c' d' R W H; cbn [prun pspec pwf] in *.
  - injection H as <- <-. exact R.
  - destruct o as [f batch|f s e| |].
    + destruct W as (W1 & W2 & W).
      destruct (core_append cr f batch c (mkWorld d [] [])) as [[c1 w1] [v| | |]] eqn:E; try discriminate H.
      apply (IH c1 (w_disk w1) _ _ c' d'); [|exact W|exact H].
      apply (wr_append cr kp c d bs cl f batch [] [] c1 w1 v R W1 W2 E).
    + destruct W as (W1 & W2 & W3 & W).
      destruct (core_clear cr f s e c (mkWorld d [] [])) as [[c1 w1] [v| | |]] eqn:E; try discriminate H.
      apply (IH c1 (w_disk w1) _ _ c' d'); [|exact W|exact H].
      apply (wr_clear cr kp c d bs cl f s e [] [] c1 w1 _ R W1 W2 W3 E).
    + destruct (core_open cr None true d) as [[d1 ops1] [c1| | |]] eqn:E; try discriminate H.
      apply (IH c1 d1 _ _ c' d'); [|exact W|exact H].
      apply (wr_reopen cr kp c d bs cl d1 ops1 c1 R E).
    + destruct (core_make_read_only cr c (mkWorld d [] [])) as [[c1 w1] [v| | |]] eqn:E; try discriminate H.
      apply (IH c1 (w_disk w1) _ _ c' d'); [|exact W|exact H].
      apply (wr_read_only cr kp c d bs cl [] [] c1 w1 _ R E).
Qed.

(* creation followed by a script *)
Definition pstart (cr : crypto) (kp : keypair) (ops : list pop) : option (core * disk) :=
  match core_open cr (Some kp) false disk_empty with
  | (d0, _, Ok c0) => prun cr ops c0 d0
  | _ => None
  end.

Lemma pstart_wreach cr kp ops c d :
  pwf ops [] -> pstart cr kp ops = Some (c, d) ->
  wreach cr kp c d (fst (pspec ops [] (fun _ => false))) (snd (pspec ops [] (fun _ => false))).
Proof.
  unfold pstart. intros W H.
  destruct (core_open cr (Some kp) false disk_empty) as [[d0 ops0] [c0| | |]] eqn:E; try discriminate H.
  apply (prun_wreach cr kp ops c0 d0 [] _ c d); [|exact W|exact H].
  apply (wr_init cr kp d0 ops0 c0 E).
Qed.

(* ====================================================================================== *)
(* M. A decidable check of the signature clauses, for concrete states                      *)
(* ====================================================================================== *)

From HC Require Import Sound.

Definition hsig_b (cr : crypto) (sk : bytes) (bs : list bytes) (h : header) : bool :=
  let m := ht_length (hd_tree h) in
  if 0 <? m
  then bytes_eqb (ht_signature (hd_tree h)) (sigof cr sk bs m) &&
       bytes_eqb (ht_root_hash (hd_tree h)) (tree_hash cr (ref_roots cr bs m))
  else true.

Definition esig_b (cr : crypto) (sk : bytes) (bs : list bytes) (e : entry) : bool :=
  match e_upgrade e with Some u => bytes_eqb (tu_signature u) (sigof cr sk bs (tu_length u)) | None => true end.

(* the signature clauses of PInv, for the tree, the header in memory, the header on disk and the pending entries *)
Definition siginv_b (cr : crypto) (sk : bytes) (c : core) (d : disk) (bs : list bytes) : bool :=
  let n := N.of_nat (length bs) in
  (match t_signature (c_tree c) with Some s => bytes_eqb s (sigof cr sk bs n) | None => n =? 0 end) &&
  (ht_length (hd_tree (c_header c)) =? n) && hsig_b cr sk bs (c_header c) &&
  match oplog_open cr None (f_content (d_oplog d)) with
  | Ok oo => hsig_b cr sk bs (oo_header oo) && forallb (esig_b cr sk bs) (oo_entries oo)
  | _ => false
  end.

Lemma hsig_b_sound cr sk bs h : hsig_b cr sk bs h = true -> hsig cr sk bs h.
Proof.
  unfold hsig_b, hsig. intros H Hpos. destruct (N.ltb_spec 0 (ht_length (hd_tree h))) as [_|L]; [|lia].
  apply andb_prop in H as [A B]. apply bytes_eqb_eq in A. apply bytes_eqb_eq in B. split; assumption.
Qed.

Lemma esig_b_sound cr sk bs e : esig_b cr sk bs e = true -> esig cr sk bs e.
Proof.
  unfold esig_b, esig. intros H u Hu. rewrite Hu in H. apply bytes_eqb_eq, H.
Qed.

Lemma siginv_b_sound cr sk c d bs :
  siginv_b cr sk c d bs = true ->
  (0 < N.of_nat (length bs) -> t_signature (c_tree c) = Some (sigof cr sk bs (N.of_nat (length bs)))) /\
  hsig cr sk bs (c_header c) /\
  (forall oo, oplog_open cr None (f_content (d_oplog d)) = Ok oo ->
     hsig cr sk bs (oo_header oo) /\ Forall (esig cr sk bs) (oo_entries oo)).
Proof.
  unfold siginv_b. intros H. apply andb_prop in H as [H H4]. apply andb_prop in H as [H H3].
  apply andb_prop in H as [H1 H2].
  split.
  { intros Hpos. destruct (t_signature (c_tree c)) as [s|].
    - apply bytes_eqb_eq in H1. rewrite H1. reflexivity.
    - lia. }
  split; [apply hsig_b_sound, H3|].
  intros oo Hoo. rewrite Hoo in H4. apply andb_prop in H4 as [A B].
  split; [apply hsig_b_sound, A|]. apply Forall_forall. intros e He.
  apply esig_b_sound. rewrite forallb_forall in B. apply B, He.
Qed.

(* split conjunctions only (never an equation: that would convert without the VM), then compute *)
Ltac conj_vm := repeat match goal with |- _ /\ _ => split end; vm_compute; reflexivity.

(* ====================================================================================== *)
(* N. Examples on the toy instances                                                        *)
(* ====================================================================================== *)

(* append a batch of three (one empty block), append one more, close and reopen with BOTH entries pending in the
   oplog, clear [1,3), close and reopen with the three entries pending *)
Definition toy_script : list pop :=
  [PAppend (Some false) [[1; 2; 3]; []; [4]]; PAppend (Some false) [[5; 6]]; PReopen; PClear (Some false) 1 3; PReopen].

Definition toy_bs : list bytes := [[1; 2; 3]; []; [4]; [5; 6]].
Definition toy_cl : N -> bool := snd (pspec toy_script [] (fun _ => false)).
Definition toy_sk : bytes := repeat 2 32%nat.

Example toy_script_spec :
  fst (pspec toy_script [] (fun _ => false)) = toy_bs /\ map toy_cl [0; 1; 2; 3; 4] = [false; true; true; false; false].
Proof. split; vm_compute; reflexivity. Qed.

Example toy_script_wf : pwf toy_script [].
Proof. vm_compute. repeat split; discriminate. Qed.

(* the hypotheses of the theorems of section K are met: the toy crypto satisfies the six hypotheses on the primitives,
   the script reaches a state (c, d) in which three entries are pending in the oplog *)
Example toy_state_reached :
  exists c d,
    pstart toy_cr toy_keypair toy_script = Some (c, d) /\
    wreach toy_cr toy_keypair c d toy_bs toy_cl /\
    FInv toy_cr c d toy_bs toy_cl /\ PInv toy_cr toy_sk c d toy_bs /\
    ol_entries_len (c_oplog c) = 3 /\ t_length (c_tree c) = 4 /\ siginv_b toy_cr toy_sk c d toy_bs = true.
Proof.
  destruct (pstart toy_cr toy_keypair toy_script) as [[c d]|] eqn:E; [|vm_compute in E; discriminate E].
  pose proof (pstart_wreach toy_cr toy_keypair toy_script c d toy_script_wf E) as R.
  change (fst (pspec toy_script [] (fun _ => false))) with toy_bs in R. fold toy_cl in R.
  destruct (wreach_inv toy_cr toy_keypair toy_sk toy_crc_ok' Refine.toy_hash32 toy_nonblank toy_hashbytes toy_sig64 toy_sigbytes
              eq_refl eq_refl c d toy_bs toy_cl R) as [F P].
  exists c, d. split; [reflexivity|]. split; [exact R|]. split; [exact F|]. split; [exact P|].
  vm_compute in E. injection E as <- <-. conj_vm.
Qed.

(* A served proof with a block section and an upgrade that reaches the head: the theorems apply and give the reference
   nodes, the appended block and a signature that verifies *)
Example toy_served_block_and_upgrade :
  exists c d pf u,
    pstart toy_cr toy_keypair toy_script = Some (c, d) /\
    core_create_proof (Some (mkReqBlock 3 0)) None None (Some (mkReqUpgrade 0 4)) c (mkWorld d [] []) =
      (c, mkWorld d [] [], Ok (Some pf)) /\
    p_upgrade pf = Some u /\ du_start u + du_length u = 4 /\
    map n_index (proof_nodes pf) = [4; 1] /\
    (forall x, In x (proof_nodes pf) -> x = ref_at toy_cr toy_bs (n_index x)) /\
    option_map db_value (p_block pf) = Some [5; 6] /\
    du_signature u = cr_sign toy_cr toy_sk (signable (tree_hash toy_cr (ref_roots toy_cr toy_bs 4)) 4 0) /\
    cr_verify toy_cr (kp_public toy_keypair)
      (signable (tree_hash toy_cr (ref_roots toy_cr toy_bs (du_start u + du_length u))) (du_start u + du_length u)
                (p_fork pf)) (du_signature u) = true.
Proof.
  destruct (pstart toy_cr toy_keypair toy_script) as [[c d]|] eqn:E; [|vm_compute in E; discriminate E].
  pose proof (pstart_wreach toy_cr toy_keypair toy_script c d toy_script_wf E) as R.
  change (fst (pspec toy_script [] (fun _ => false))) with toy_bs in R. fold toy_cl in R.
  destruct (core_create_proof (Some (mkReqBlock 3 0)) None None (Some (mkReqUpgrade 0 4)) c (mkWorld d [] []))
    as [[c' w'] r] eqn:Ep.
  assert (Hr : exists pf u, r = Ok (Some pf) /\ p_upgrade pf = Some u /\ du_start u + du_length u = 4 /\
                            map n_index (proof_nodes pf) = [4; 1] /\ option_map db_value (p_block pf) = Some [5; 6]).
  { pose proof E as E'. vm_compute in E'. injection E' as <- <-. vm_compute in Ep. injection Ep as _ _ <-.
    do 2 eexists. split; [reflexivity|]. split; [reflexivity|]. conj_vm. }
  destruct Hr as (pf & u & -> & Hu & Hhead & Hidx & Hval).
  destruct (C05_served_proof_is_the_reference_tree toy_cr toy_keypair toy_sk toy_crc_ok' Refine.toy_hash32 toy_nonblank
              toy_hashbytes toy_sig64 toy_sigbytes eq_refl eq_refl c d toy_bs toy_cl [] [] _ _ _ _ c' w' pf R Ep)
    as (Hn & _ & _ & _ & -> & ->).
  destruct (C05_served_upgrade_is_signed toy_cr toy_keypair toy_sk toy_crc_ok' Refine.toy_hash32 toy_nonblank
              toy_hashbytes toy_sig64 toy_sigbytes eq_refl eq_refl c d toy_bs toy_cl [] [] _ _ _ _ c _ pf u R Ep Hu)
    as (_ & _ & Hs & _ & _ & _ & Hv).
  exists c, d, pf, u. split; [reflexivity|]. split; [exact Ep|]. split; [exact Hu|]. split; [exact Hhead|].
  split; [exact Hidx|]. split; [intros x Hx; apply (Hn x Hx)|]. split; [exact Hval|]. split; [exact Hs|].
  apply Hv; [intros m; reflexivity|exact Hhead].
Qed.

(* hash + upgrade + additional nodes, and block + seek: all four kinds of node lists are served from the reference *)
Example toy_served_other_sections :
  exists c d pf1 pf2,
    pstart toy_cr toy_keypair toy_script = Some (c, d) /\
    core_create_proof None (Some (mkReqBlock 0 1)) None (Some (mkReqUpgrade 2 1)) c (mkWorld d [] []) =
      (c, mkWorld d [] [], Ok (Some pf1)) /\
    core_create_proof (Some (mkReqBlock 0 2)) None (Some (mkReqSeek 5)) None c (mkWorld d [] []) =
      (c, mkWorld d [] [], Ok (Some pf2)) /\
    option_map (fun h => map n_index (dh_nodes h)) (p_hash pf1) = Some [0; 2] /\
    option_map (fun u => (map n_index (du_nodes u), map n_index (du_additional u))) (p_upgrade pf1) = Some ([4], [6]) /\
    option_map (fun b => (db_value b, map n_index (db_nodes b))) (p_block pf2) = Some ([1; 2; 3], [2]) /\
    option_map (fun s => map n_index (ds_nodes s)) (p_seek pf2) = Some [6; 4] /\
    (forall x, In x (proof_nodes pf1 ++ proof_nodes pf2) -> x = ref_at toy_cr toy_bs (n_index x)).
Proof.
  destruct (pstart toy_cr toy_keypair toy_script) as [[c d]|] eqn:E; [|vm_compute in E; discriminate E].
  pose proof (pstart_wreach toy_cr toy_keypair toy_script c d toy_script_wf E) as R.
  change (fst (pspec toy_script [] (fun _ => false))) with toy_bs in R. fold toy_cl in R.
  destruct (core_create_proof None (Some (mkReqBlock 0 1)) None (Some (mkReqUpgrade 2 1)) c (mkWorld d [] []))
    as [[c1 w1] r1] eqn:E1.
  destruct (core_create_proof (Some (mkReqBlock 0 2)) None (Some (mkReqSeek 5)) None c (mkWorld d [] []))
    as [[c2 w2] r2] eqn:E2.
  assert (Hr : exists pf1 pf2, r1 = Ok (Some pf1) /\ r2 = Ok (Some pf2) /\
            option_map (fun h => map n_index (dh_nodes h)) (p_hash pf1) = Some [0; 2] /\
            option_map (fun u => (map n_index (du_nodes u), map n_index (du_additional u))) (p_upgrade pf1) = Some ([4], [6]) /\
            option_map (fun b => (db_value b, map n_index (db_nodes b))) (p_block pf2) = Some ([1; 2; 3], [2]) /\
            option_map (fun s => map n_index (ds_nodes s)) (p_seek pf2) = Some [6; 4]).
  { pose proof E as E'. vm_compute in E'. injection E' as <- <-.
    vm_compute in E1. injection E1 as _ _ <-. vm_compute in E2. injection E2 as _ _ <-.
    do 2 eexists. split; [reflexivity|]. split; [reflexivity|]. conj_vm. }
  destruct Hr as (pf1 & pf2 & -> & -> & H1 & H2 & H3 & H4).
  destruct (C05_served_proof_is_the_reference_tree toy_cr toy_keypair toy_sk toy_crc_ok' Refine.toy_hash32 toy_nonblank
              toy_hashbytes toy_sig64 toy_sigbytes eq_refl eq_refl c d toy_bs toy_cl [] [] _ _ _ _ c1 w1 pf1 R E1)
    as (Hn1 & _ & _ & _ & -> & ->).
  destruct (C05_served_proof_is_the_reference_tree toy_cr toy_keypair toy_sk toy_crc_ok' Refine.toy_hash32 toy_nonblank
              toy_hashbytes toy_sig64 toy_sigbytes eq_refl eq_refl c d toy_bs toy_cl [] [] _ _ _ _ c2 w2 pf2 R E2)
    as (Hn2 & _ & _ & _ & -> & ->).
  exists c, d, pf1, pf2. split; [reflexivity|]. split; [exact E1|]. split; [exact E2|].
  split; [exact H1|]. split; [exact H2|]. split; [exact H3|]. split; [exact H4|].
  intros x Hx. apply in_app_or in Hx as [Hx|Hx]; [apply (Hn1 x Hx)|apply (Hn2 x Hx)].
Qed.

(* C03: block 1 is cleared, block 7 is beyond the length: no proof, one EvGet, nothing else changes — while the same
   request for the held block 0 is served *)
Example toy_cleared_block_no_proof :
  exists c d,
    pstart toy_cr toy_keypair toy_script = Some (c, d) /\
    held 4 toy_cl 1 = false /\ held 4 toy_cl 7 = false /\ held 4 toy_cl 0 = true /\
    core_create_proof (Some (mkReqBlock 1 2)) None None None c (mkWorld d [] []) =
      (c, mkWorld d [] [EvGet 1], Ok None) /\
    core_create_proof (Some (mkReqBlock 7 0)) None None None c (mkWorld d [] []) =
      (c, mkWorld d [] [EvGet 7], Ok None) /\
    exists pf, core_create_proof (Some (mkReqBlock 0 2)) None None None c (mkWorld d [] []) =
                 (c, mkWorld d [] [], Ok (Some pf)).
Proof.
  destruct (pstart toy_cr toy_keypair toy_script) as [[c d]|] eqn:E; [|vm_compute in E; discriminate E].
  pose proof (pstart_wreach toy_cr toy_keypair toy_script c d toy_script_wf E) as R.
  change (fst (pspec toy_script [] (fun _ => false))) with toy_bs in R. fold toy_cl in R.
  destruct (wreach_inv toy_cr toy_keypair toy_sk toy_crc_ok' Refine.toy_hash32 toy_nonblank toy_hashbytes toy_sig64 toy_sigbytes
              eq_refl eq_refl c d toy_bs toy_cl R) as [F P].
  exists c, d. split; [reflexivity|]. split; [vm_compute; reflexivity|]. split; [vm_compute; reflexivity|].
  split; [vm_compute; reflexivity|].
  assert (V1 : exists vp, create_valueless_proof (c_tree c) (d_tree d) (Some (mkReqBlock 1 2)) None None None = Ok vp).
  { pose proof E as E'. vm_compute in E'. injection E' as <- <-. eexists. vm_compute. reflexivity. }
  assert (V7 : exists vp, create_valueless_proof (c_tree c) (d_tree d) (Some (mkReqBlock 7 0)) None None None = Ok vp).
  { pose proof E as E'. vm_compute in E'. injection E' as <- <-. eexists. vm_compute. reflexivity. }
  destruct V1 as [vp1 V1]. destruct V7 as [vp7 V7].
  split; [apply (unheld_block_none toy_cr c d toy_bs toy_cl [] [] (mkReqBlock 1 2) None None None vp1 F);
          [vm_compute; reflexivity|exact V1]|].
  split; [apply (unheld_block_none toy_cr c d toy_bs toy_cl [] [] (mkReqBlock 7 0) None None None vp7 F);
          [vm_compute; reflexivity|exact V7]|].
  destruct (core_create_proof (Some (mkReqBlock 0 2)) None None None c (mkWorld d [] [])) as [[c0 w0] r0] eqn:E0.
  assert (Hr : exists pf, r0 = Ok (Some pf)).
  { pose proof E as E'. vm_compute in E'. injection E' as <- <-. vm_compute in E0. injection E0 as _ _ <-.
    eexists. reflexivity. }
  destruct Hr as [pf ->]. exists pf.
  destruct (C05_served_proof_is_the_reference_tree toy_cr toy_keypair toy_sk toy_crc_ok' Refine.toy_hash32 toy_nonblank
              toy_hashbytes toy_sig64 toy_sigbytes eq_refl eq_refl c d toy_bs toy_cl [] [] _ _ _ _ c0 w0 pf R E0)
    as (_ & _ & _ & _ & -> & ->). reflexivity.
Qed.

(* ====================================================================================== *)
(* O. End to end: the whole-log upgrade a writer serves is accepted by an empty replica     *)
(* ====================================================================================== *)

From HC Require Import NoPanic.

Lemma Forall2_required_eq (t : mtree) (tf : file) (g : N -> node) : forall (L : list N) (roots : list node),
  Forall2 (fun idx x => required_node t tf idx = Ok x) L roots ->
  (forall r, In r L -> required_node t tf r = Ok (g r)) -> roots = map g L.
Proof.
  induction 1 as [|idx x L roots Hx HF IH]; intros Hg; cbn [map]; [reflexivity|].
  f_equal.
  - rewrite (Hg idx (or_introl eq_refl)) in Hx. injection Hx as <-. reflexivity.
  - apply IH. intros r Hr. apply Hg. right. exact Hr.
Qed.

Section EndToEnd.
  Variable cr : crypto.
  Variable kp : keypair.
  Variable sk : bytes.
  Hypothesis Hcrc : crc_ok cr.
  Hypothesis Hhash32 : forall x, length (cr_hash cr x) = 32%nat.
  Hypothesis Hnonblank : forall x, all_zero (cr_hash cr x) = false.
  Hypothesis Hhashbytes : forall x, bytes_ok (cr_hash cr x) = true.
  Hypothesis Hsig64 : forall k m, length (cr_sign cr k m) = 64%nat.
  Hypothesis Hsigbytes : forall k m, bytes_ok (cr_sign cr k m) = true.
  Hypothesis Hkp : keypair_ok kp = true.
  Hypothesis Hsk : kp_secret kp = Some sk.

  (* In every writer state, the proof served for "upgrade from 0 to the writer's length" consists of exactly the
     reference roots and the writer's signature over them; any empty replica whose public key matches the signing key
     ACCEPTS it: the verifier rebuilds the reference roots, the length and the byte length, checks the signature, and
     the changeset is commitable *)
  Theorem C05_whole_log_upgrade_verifies c d bs cl j ev c' w' pf rt rtf pk :
    wreach cr kp c d bs cl ->
    let n := N.of_nat (length bs) in
    core_create_proof None None None (Some (mkReqUpgrade 0 n)) c (mkWorld d j ev) = (c', w', Ok (Some pf)) ->
    (forall m, cr_verify cr pk m (cr_sign cr sk m) = true) ->
    t_roots rt = [] -> t_length rt = 0 -> t_byte_length rt + sumN (map len bs) <= u64_max ->
    let sg := cr_sign cr sk (signable (tree_hash cr (ref_roots cr bs n)) n 0) in
    pf = mkProof 0 None None None (Some (mkDataUpgrade 0 n (ref_roots cr bs n) [] sg)) /\
    exists cs,
      verify_proof cr rt rtf pf pk = Ok cs /\
      cs_roots cs = ref_roots cr bs n /\ cs_length cs = n /\ cs_fork cs = 0 /\
      cs_byte_length cs = t_byte_length rt + sumN (map len bs) /\
      cs_signature cs = Some sg /\ cs_hash cs = Some (tree_hash cr (ref_roots cr bs n)) /\
      cs_nodes cs = ref_roots cr bs n /\ commitable rt cs = true.
  Proof.
    intros R n H Hpk Hr0 Hl0 Hbl sg.
    destruct (wreach_inv cr kp sk Hcrc Hhash32 Hnonblank Hhashbytes Hsig64 Hsigbytes Hkp Hsk c d bs cl R) as [F P].
    pose proof (FInv_CInv cr c d bs cl F) as ((HL & HB & HF & HR & Hlook & Hun & Hs & Hn) & _). fold n in HL, Hlook.
    rewrite (create_proof_run cr c d bs cl j ev None None None _ F) in H.
    destruct (create_valueless_proof (c_tree c) (d_tree d) None None None (Some (mkReqUpgrade 0 n))) as [vp|e|s|] eqn:E;
      try discriminate H.
    rewrite <- HL in E.
    assert (U : unflushed_indexed (c_tree c)).
    { intros k x G. destruct (Hun k x G) as (A & _). exact A. }
    destruct (upgrade_only_accepted cr _ _ rt rtf pk vp U E Hr0 Hl0) as (roots & sg0 & Evp & Hsg0 & _ & _ & Hacc).
    destruct (upgrade_only_roots_are_full_roots _ _ vp E) as (u & Hu & HF2 & _).
    rewrite Evp in Hu. cbn [vp_upgrade] in Hu. injection Hu as <-. cbn [du_nodes] in HF2.
    rewrite HL in HF2, Evp, Hacc.
    assert (Eroots : roots = ref_roots cr bs n).
    { apply (Forall2_required_eq _ _ (ref_at cr bs) _ _ HF2). intros r Hr.
      apply (lookups_full_roots cr bs _ _ n r Hlook Hr). }
    assert (Hpos : 0 < n).
    { rewrite <- HL. destruct (create_upgrade_range _ _ _ _ _ _ _ E) as [A _]. cbn [ru_length] in A. exact A. }
    destruct P as (_ & PS & _). specialize (PS Hpos). fold n in PS. rewrite PS in Hsg0. injection Hsg0 as <-.
    fold (sigof cr sk bs n) in sg. fold sg in Hacc, Evp.
    rewrite HF, Eroots in Hacc, Evp.
    subst vp. cbn [vp_block vp_fork vp_hash vp_seek vp_upgrade] in H. injection H as _ _ <-.
    split; [reflexivity|].
    destruct Hacc as (cs & Hv & A1 & A2 & A3 & A4 & _ & A6 & A7 & A8 & _ & A10).
    - unfold lens. rewrite ref_roots_size. unfold n. rewrite prefix_size_all. exact Hbl.
    - apply Hsig64.
    - apply Hpk.
    - exists cs. split; [exact Hv|]. split; [exact A1|]. split; [exact A2|]. split; [exact A3|].
      split.
      { rewrite A4. unfold lens. rewrite ref_roots_size. unfold n. rewrite prefix_size_all. reflexivity. }
      split; [exact A6|]. split; [exact A7|]. split; [exact A8|exact A10].
  Qed.
End EndToEnd.

(* ====================================================================================== *)
(* P. More examples: refuted variant, a content-sensitive crypto, the seeded defect         *)
(* ====================================================================================== *)

(* The statement "a request for a cleared block ALWAYS returns Ok None" is false: a malformed request (here: block 1,
   cleared, with 9 sibling nodes requested in a tree of 4 blocks) is refused with InvalidOperation by the construction
   of the valueless proof, before the block is looked at, and sends no event.  Hence the three-way statement of
   unheld_block_yields_no_proof / C03_unheld_block_yields_no_proof, and unheld_block_none for well-formed requests. *)
Example always_none_refuted :
  match pstart Refine.toy_cr Refine.toy_keypair toy_script with
  | Some (c, d) =>
      held 4 toy_cl 1 = false /\
      core_create_proof (Some (mkReqBlock 1 9)) None None None c (mkWorld d [] []) =
        (c, mkWorld d [] [], Err InvalidOperation)
  | None => False
  end.
Proof. vm_compute. split; reflexivity. Qed.

(* The whole-log upgrade of the toy state is accepted by an empty replica: the hypotheses of
   C05_whole_log_upgrade_verifies are met *)
Example toy_whole_log_upgrade_verifies :
  exists c d pf cs,
    pstart Refine.toy_cr Refine.toy_keypair toy_script = Some (c, d) /\
    core_create_proof None None None (Some (mkReqUpgrade 0 4)) c (mkWorld d [] []) = (c, mkWorld d [] [], Ok (Some pf)) /\
    verify_proof Refine.toy_cr empty_tree file_empty pf (kp_public Refine.toy_keypair) = Ok cs /\
    cs_roots cs = ref_roots Refine.toy_cr toy_bs 4 /\ map n_index (cs_roots cs) = [3] /\
    cs_length cs = 4 /\ cs_byte_length cs = 6 /\ commitable empty_tree cs = true.
Proof.
  destruct (pstart Refine.toy_cr Refine.toy_keypair toy_script) as [[c d]|] eqn:E; [|vm_compute in E; discriminate E].
  pose proof (pstart_wreach Refine.toy_cr Refine.toy_keypair toy_script c d toy_script_wf E) as R.
  change (fst (pspec toy_script [] (fun _ => false))) with toy_bs in R. fold toy_cl in R.
  destruct (core_create_proof None None None (Some (mkReqUpgrade 0 4)) c (mkWorld d [] [])) as [[c' w'] r] eqn:Ep.
  assert (Hr : exists pf, r = Ok (Some pf)).
  { pose proof E as E'. vm_compute in E'. injection E' as <- <-. vm_compute in Ep. injection Ep as _ _ <-.
    eexists. reflexivity. }
  destruct Hr as [pf ->].
  destruct (C05_served_proof_is_the_reference_tree Refine.toy_cr Refine.toy_keypair toy_sk toy_crc_ok' Refine.toy_hash32
              toy_nonblank toy_hashbytes toy_sig64 toy_sigbytes eq_refl eq_refl c d toy_bs toy_cl [] [] _ _ _ _ c' w' pf R Ep)
    as (_ & _ & _ & _ & -> & ->).
  destruct (C05_whole_log_upgrade_verifies Refine.toy_cr Refine.toy_keypair toy_sk toy_crc_ok' Refine.toy_hash32
              toy_nonblank toy_hashbytes toy_sig64 toy_sigbytes eq_refl eq_refl c d toy_bs toy_cl [] [] _ _ pf
              empty_tree file_empty (kp_public Refine.toy_keypair) R Ep (fun m => eq_refl) eq_refl eq_refl
              ltac:(vm_compute; discriminate))
    as (_ & cs & Hv & A1 & A2 & _ & A4 & _).
  exists c, d, pf, cs. split; [reflexivity|]. split; [exact Ep|]. split; [exact Hv|]. split; [exact A1|].
  split; [rewrite A1; vm_compute; reflexivity|]. split; [exact A2|]. split; [rewrite A4; reflexivity|].
  destruct (C05_whole_log_upgrade_verifies Refine.toy_cr Refine.toy_keypair toy_sk toy_crc_ok' Refine.toy_hash32
              toy_nonblank toy_hashbytes toy_sig64 toy_sigbytes eq_refl eq_refl c d toy_bs toy_cl [] [] _ _ pf
              empty_tree file_empty (kp_public Refine.toy_keypair) R Ep (fun m => eq_refl) eq_refl eq_refl
              ltac:(vm_compute; discriminate))
    as (_ & cs2 & Hv2 & _ & _ & _ & _ & _ & _ & _ & A10).
  rewrite Hv in Hv2. injection Hv2 as <-. exact A10.
Qed.

(* make_read_only erases the key, the signatures stay: after "..., make_read_only, reopen" the core has no secret key,
   the stored signature clauses of C05_stored_signature hold (their hypotheses are met), and the whole-log upgrade is
   still served with the writer's signature *)
Definition toy_script_ro : list pop := toy_script ++ [PReadOnly; PReopen].

Example toy_read_only_still_signed :
  exists c d pf u,
    pstart Refine.toy_cr Refine.toy_keypair toy_script_ro = Some (c, d) /\
    wreach Refine.toy_cr Refine.toy_keypair c d toy_bs toy_cl /\
    kp_secret (c_keypair c) = None /\
    t_signature (c_tree c) =
      Some (cr_sign Refine.toy_cr toy_sk (signable (tree_hash Refine.toy_cr (ref_roots Refine.toy_cr toy_bs 4)) 4 0)) /\
    ht_signature (hd_tree (c_header c)) =
      cr_sign Refine.toy_cr toy_sk (signable (tree_hash Refine.toy_cr (ref_roots Refine.toy_cr toy_bs 4)) 4 0) /\
    ht_root_hash (hd_tree (c_header c)) = tree_hash Refine.toy_cr (ref_roots Refine.toy_cr toy_bs 4) /\
    core_create_proof None None None (Some (mkReqUpgrade 0 4)) c (mkWorld d [] []) = (c, mkWorld d [] [], Ok (Some pf)) /\
    p_upgrade pf = Some u /\
    du_signature u = cr_sign Refine.toy_cr toy_sk (signable (tree_hash Refine.toy_cr (ref_roots Refine.toy_cr toy_bs 4)) 4 0).
Proof.
  destruct (pstart Refine.toy_cr Refine.toy_keypair toy_script_ro) as [[c d]|] eqn:E; [|vm_compute in E; discriminate E].
  assert (W : pwf toy_script_ro []) by (vm_compute; repeat split; discriminate).
  pose proof (pstart_wreach Refine.toy_cr Refine.toy_keypair toy_script_ro c d W E) as R.
  change (fst (pspec toy_script_ro [] (fun _ => false))) with toy_bs in R.
  change (snd (pspec toy_script_ro [] (fun _ => false))) with toy_cl in R.
  destruct (C05_stored_signature Refine.toy_cr Refine.toy_keypair toy_sk toy_crc_ok' Refine.toy_hash32 toy_nonblank
              toy_hashbytes toy_sig64 toy_sigbytes eq_refl eq_refl c d toy_bs toy_cl R ltac:(vm_compute; reflexivity))
    as (S1 & _ & S3 & S4 & _).
  destruct (core_create_proof None None None (Some (mkReqUpgrade 0 4)) c (mkWorld d [] [])) as [[c' w'] r] eqn:Ep.
  assert (Hr : (exists pf u, r = Ok (Some pf) /\ p_upgrade pf = Some u) /\ kp_secret (c_keypair c) = None).
  { pose proof E as E'. vm_compute in E'. injection E' as <- <-. vm_compute in Ep. injection Ep as _ _ <-.
    split; [do 2 eexists; split; reflexivity|reflexivity]. }
  destruct Hr as [(pf & u & -> & Hu) Hk].
  destruct (C05_served_upgrade_is_signed Refine.toy_cr Refine.toy_keypair toy_sk toy_crc_ok' Refine.toy_hash32 toy_nonblank
              toy_hashbytes toy_sig64 toy_sigbytes eq_refl eq_refl c d toy_bs toy_cl [] [] _ _ _ _ c' w' pf u R Ep Hu)
    as (_ & _ & Hs & _).
  destruct (C05_served_proof_is_the_reference_tree Refine.toy_cr Refine.toy_keypair toy_sk toy_crc_ok' Refine.toy_hash32
              toy_nonblank toy_hashbytes toy_sig64 toy_sigbytes eq_refl eq_refl c d toy_bs toy_cl [] [] _ _ _ _ c' w' pf R Ep)
    as (_ & _ & _ & _ & -> & ->).
  exists c, d, pf, u. split; [reflexivity|]. split; [exact R|]. split; [exact Hk|]. split; [exact S1|].
  split; [exact S3|]. split; [exact S4|]. split; [exact Ep|]. split; [exact Hu|exact Hs].
Qed.

(* The toy crypto has constant hashes and signatures; for the signature clauses a content-sensitive instance says more:
   Replicate.ex_cr hashes the message, signs (key, message), and verifies by recomputation.  The clauses hold after
   every prefix of "append, append, reopen, clear, reopen, append with flush, reopen, make_read_only, reopen"; at the
   first reopen two entries are pending, at the second three, and the stored header still describes the EMPTY tree:
   the signatures of the reopened tree and header come from the replayed entries *)
Definition ex_kp : keypair := mkKeypair ex_key (Some ex_key).
Definition ex_script1 : list pop := [PAppend (Some false) [[1; 2; 3]; []; [4]]; PAppend (Some false) [[5; 6]]].
Definition ex_script2 : list pop := ex_script1 ++ [PReopen].
Definition ex_script3 : list pop := ex_script2 ++ [PClear (Some false) 1 3].
Definition ex_script4 : list pop := ex_script3 ++ [PReopen].
Definition ex_script5 : list pop := ex_script4 ++ [PAppend (Some true) [[7]]; PReopen; PReadOnly; PReopen].

(* (signature clauses hold, (length in the stored header, number of pending entries)) *)
Definition ex_check (sc : list pop) : option (bool * option (N * nat)) :=
  match pstart ex_cr ex_kp sc with
  | Some (c, d) =>
      Some (siginv_b ex_cr ex_key c d (fst (pspec sc [] (fun _ => false))),
            match oplog_open ex_cr None (f_content (d_oplog d)) with
            | Ok oo => Some (ht_length (hd_tree (oo_header oo)), length (oo_entries oo))
            | _ => None
            end)
  | None => None
  end.

Example ex_signature_clauses_hold :
  ex_check ex_script1 = Some (true, Some (0, 2%nat)) /\
  ex_check ex_script2 = Some (true, Some (0, 2%nat)) /\
  ex_check ex_script3 = Some (true, Some (0, 3%nat)) /\
  ex_check ex_script4 = Some (true, Some (0, 3%nat)) /\
  ex_check ex_script5 = Some (true, Some (5, 0%nat)).
Proof. conj_vm. Qed.

(* The seeded defect "after replay the HEADER keeps a stale signature" is what the header clause excludes: put the
   signature of the 3-block header into the header of the reopened 4-block core, and the check fails *)
Definition with_stale_header_signature (c : core) (old : header) : core :=
  mkCore (c_keypair c) (c_oplog c) (c_tree c) (c_bitfield c)
         (set_tree (c_header c)
            (mkHeaderTree 0 (ht_length (hd_tree (c_header c))) (ht_root_hash (hd_tree (c_header c)))
                          (ht_signature (hd_tree old))))
         (c_skip c).

Example stale_header_signature_detected :
  match pstart ex_cr ex_kp [PAppend (Some false) [[1; 2; 3]; []; [4]]], pstart ex_cr ex_kp ex_script2 with
  | Some (c1, _), Some (c2, d2) =>
      siginv_b ex_cr ex_key c2 d2 (fst (pspec ex_script2 [] (fun _ => false))) = true /\
      siginv_b ex_cr ex_key (with_stale_header_signature c2 (c_header c1)) d2
               (fst (pspec ex_script2 [] (fun _ => false))) = false
  | _, _ => False
  end.
Proof. vm_compute. split; reflexivity. Qed.

Print Assumptions read_is_reference.
Print Assumptions create_proof_run.
Print Assumptions served_proof_is_reference.
Print Assumptions unheld_block_yields_no_proof.
Print Assumptions unheld_block_none.
Print Assumptions served_upgrade_is_signed.
Print Assumptions flush_all_PInv.
Print Assumptions maybe_flush_PInv.
Print Assumptions append_PInv.
Print Assumptions clear_PInv.
Print Assumptions reopen_PInv.
Print Assumptions init_PInv.
Print Assumptions make_read_only_PInv.
Print Assumptions wreach_inv.
Print Assumptions C05_served_proof_is_the_reference_tree.
Print Assumptions C03_unheld_block_yields_no_proof.
Print Assumptions C05_stored_signature.
Print Assumptions C05_served_upgrade_is_signed.
Print Assumptions C05_whole_log_upgrade_verifies.
Print Assumptions prun_wreach.
Print Assumptions pstart_wreach.
Print Assumptions siginv_b_sound.
Print Assumptions toy_state_reached.
Print Assumptions toy_served_block_and_upgrade.
Print Assumptions toy_served_other_sections.
Print Assumptions toy_cleared_block_no_proof.
Print Assumptions always_none_refuted.
Print Assumptions toy_whole_log_upgrade_verifies.
Print Assumptions toy_read_only_still_signed.
Print Assumptions ex_signature_clauses_hold.
Print Assumptions stale_header_signature_detected.

(* ADDED IN THE THIRD ROUND (CacheModel.v, CacheOps.v, PagedMem.v, PagedMemFacts.v): the lift to whole histories under any eviction
   (C14_cache_transparent_for_writer_histories) and the refinement of the flat file by random-access-memory's page map
   (C14_paged_memory_refines_flat_file); the remark 'Not proved here ... that the storage backends implement the file semantics' below is
   superseded for the in-memory backend.
   ---- header of the earlier rounds: ---- *)
(* C14 — behaviour is independent of the node cache (pinned statements; proofs in Cache.v).
   The crate looks a tree node up in the cache first, then in the unflushed map, then in the tree
   store; it caches what it read from the store; the cache library may evict anything at any time.
   What is proved: for every cache content that this rule can produce, under any eviction, every
   lookup answers exactly what the cache-less lookup answers, in both lookup modes.
   Not proved here (covered by the configuration sweep of tools/c14.py): that the storage backends
   implement the file semantics of Storage.v, moka internals, the OS file system. *)
From HC Require Import DiskFile DiskFileFacts.
From HC Require Import SoundCoreLib SoundCore ReplicaDisk1 ReplicaMiscA.
From HC Require Import SoundCoreLib SoundCore ReplicaCor ReplicaCorA ReplicaCorC.
From HC Require Import Core Refine ClearRefine Unified1 Unified3 CacheModel CacheOps.
From HC Require Import Base NMap Codec Crypto FlatTree Storage Oplog Merkle Cache.
From HC Require Import PagedMem PagedMemFacts.

Theorem C14_cache_transparent : forall cache t tf,
  cache_ok cache t tf -> forall i am, node_get_cached cache t tf i am = node_get t tf i am.
Proof. exact cached_lookup_transparent. Qed.

Theorem C14_cache_starts_valid : forall t tf, cache_ok nm_empty t tf.
Proof. exact cache_ok_empty. Qed.

Theorem C14_cache_insert_keeps_valid : forall cache t tf i am n,
  cache_ok cache t tf -> node_get t tf i am = Ok (Some n) -> cache_ok (nm_set i n cache) t tf.
Proof. exact cache_ok_insert. Qed.

Theorem C14_cache_any_eviction : forall cache cache' t tf,
  cache_ok cache t tf -> submap cache' cache -> cache_ok cache' t tf.
Proof. exact cache_ok_evict. Qed.

Theorem C14_cache_survives_immutable_updates : forall cache t tf n,
  cache_ok cache t tf -> node_blank n = false ->
  (forall m, nm_get (n_index n) cache = Some m -> m = n) ->
  cache_ok cache (tree_add_node t n) tf.
Proof. exact cache_ok_add_node. Qed.

Theorem C14_required_node_transparent : forall cache t tf i,
  cache_ok cache t tf -> required_node_cached cache t tf i = required_node t tf i.
Proof. exact required_node_cached_transparent. Qed.

(* non-vacuity: a cache holding a node that sits in the unflushed map is valid, and is consulted *)
Example C14_ex :
  let n := mkNode 4 7 (repeat 9 32) in
  let t := tree_add_node (mkTree [] 0 0 0 None nm_empty) n in
  cache_ok (nm_set 4 n nm_empty) t file_empty /\
  node_get_cached (nm_set 4 n nm_empty) t file_empty 4 false = Ok (Some n).
Proof.
  split; [|reflexivity].
  apply (cache_ok_insert nm_empty _ _ 4 false); [apply cache_ok_empty | reflexivity].
Qed.

Theorem C14_paged_memory_refines_flat_file :
  forall (ps : N) (ops : list op), 0 < ps -> run_ram ps ops = run_file ops.
Proof. exact ram_refines_file. Qed.

Theorem C14_paged_memory_step :
  forall (r : ram) (f : file) (o : op),
         ram_ok r ->
         refines r f ->
         snd (ram_step r o) = snd (file_step f o) /\
         ram_ok (fst (ram_step r o)) /\ refines (fst (ram_step r o)) (fst (file_step f o)).
Proof. exact step_refines. Qed.

Theorem C14_paged_memory_steps :
  forall (ops : list op) (r : ram) (f : file),
         ram_ok r ->
         refines r f ->
         fst (ram_steps r ops) = fst (file_steps f ops) /\
         ram_ok (snd (ram_steps r ops)) /\ refines (snd (ram_steps r ops)) (snd (file_steps f ops)).
Proof. exact ram_steps_refine. Qed.

Theorem C14_cache_transparent_for_histories :
  forall (cr : crypto) (ev : evo),
         evictor ev ->
         forall (ops : list hop) (st : cst) (c : core) (w : world),
         valid st c w -> hist_vm cr ops c w -> snd (hrun_c cr ev ops st c w) = hrun cr ops c w.
Proof. exact cache_transparent_history. Qed.

Theorem C14_cache_transparent_for_writer_histories :
  forall cr : crypto,
         OplogFacts.crc_ok cr ->
         (forall x : bytes, Datatypes.length (cr_hash cr x) = 32%nat) ->
         (forall x : bytes, all_zero (cr_hash cr x) = false) ->
         (forall x : bytes, bytes_ok (cr_hash cr x) = true) ->
         (forall sk m : bytes, Datatypes.length (cr_sign cr sk m) = 64%nat) ->
         (forall sk m : bytes, bytes_ok (cr_sign cr sk m) = true) ->
         forall (ev : evo) (ops : list hop) (c : core) (d : disk) (j : list sop) (evs : list event)
           (bs : list bytes) (cl : N -> bool) (sk : bytes) (st : cst),
         evictor ev ->
         FInv cr c d bs cl ->
         NInv cr c d bs ->
         kp_secret (c_keypair c) = Some sk ->
         cache_ok (k_cache st) (c_tree c) (d_tree d) ->
         wf_w ops (N.of_nat (Datatypes.length bs)) ->
         sumN (map len (bs ++ happended ops)) <= u64_max ->
         NODE_SIZE * (2 * N.of_nat (Datatypes.length (bs ++ happended ops))) <= u64_max ->
         snd (hrun_c cr ev ops st c {| w_disk := d; w_journal := j; w_events := evs |}) =
         hrun cr ops c {| w_disk := d; w_journal := j; w_events := evs |}.
Proof. exact writer_cache_transparent. Qed.

Theorem C14_cache_transparent_from_creation :
  forall cr : crypto,
         OplogFacts.crc_ok cr ->
         (forall x : bytes, Datatypes.length (cr_hash cr x) = 32%nat) ->
         (forall x : bytes, all_zero (cr_hash cr x) = false) ->
         (forall x : bytes, bytes_ok (cr_hash cr x) = true) ->
         (forall sk m : bytes, Datatypes.length (cr_sign cr sk m) = 64%nat) ->
         (forall sk m : bytes, bytes_ok (cr_sign cr sk m) = true) ->
         forall (ev : evo) (kp : keypair) (sk : bytes) (ops : list hop),
         evictor ev ->
         OplogFacts.keypair_ok kp = true ->
         kp_secret kp = Some sk ->
         wf_w ops 0 ->
         sumN (map len (happended ops)) <= u64_max ->
         NODE_SIZE * (2 * N.of_nat (Datatypes.length (happended ops))) <= u64_max ->
         exists (d0 : disk) (ops0 : list sop) (c0 : core),
           core_open cr (Some kp) false disk_empty = (d0, ops0, Ok c0) /\
           snd (core_open_c cr ev (Some kp) false disk_empty 0) = (d0, ops0, Ok c0) /\
           (forall st : cst,
            st = fst (core_open_c cr ev (Some kp) false disk_empty 0) \/ k_cache st = nm_empty ->
            snd (hrun_c cr ev ops st c0 {| w_disk := d0; w_journal := []; w_events := [] |}) =
            hrun cr ops c0 {| w_disk := d0; w_journal := []; w_events := [] |}).
Proof. exact fresh_writer_cache_transparent. Qed.

Theorem C14_cached_lookup_step :
  forall ev : evo,
         evictor ev ->
         forall (t : mtree) (tf : file) (i : N) (am : bool),
         csim t tf (node_get_c ev t tf i am) (node_get t tf i am).
Proof. exact csim_node_get. Qed.

Theorem C14_cached_proof_creation :
  forall ev : evo,
         evictor ev ->
         forall (t : mtree) (tf : file) (block hash : option req_block) (seek : option req_seek)
           (upgrade : option req_upgrade),
         csim t tf (create_valueless_proof_c ev t tf block hash seek upgrade)
           (create_valueless_proof t tf block hash seek upgrade).
Proof. exact csim_create_valueless_proof. Qed.

Theorem C14_cached_verification :
  forall ev : evo,
         evictor ev ->
         forall (t : mtree) (tf : file) (cr : crypto) (pf : proof) (pk : bytes),
         csim t tf (verify_proof_c ev cr t tf pf pk) (verify_proof cr t tf pf pk).
Proof. exact csim_verify_proof. Qed.

Theorem C14_cache_filled_at_open :
  forall (ht : header_tree) (tf : file) (tick : nat) (t : mtree),
         tree_open ht tf = Ok t ->
         f_len tf <= u64_max ->
         (forall r : node, In r (t_roots t) -> node_blank r = false) ->
         tree_open_c ht tf tick =
         ({| k_cache := add_nodes nm_empty (t_roots t); k_tick := tick; k_hits := 0 |}, Ok t) /\
         cache_ok (add_nodes nm_empty (t_roots t)) t tf.
Proof. exact tree_open_cached. Qed.

Theorem C14_replica_step_condition :
  forall (cr : crypto) (f : option bool) (pf : proof) (c : core) (w : world),
         flushable (c_tree c) ->
         proof_agrees cr c w pf ->
         step_vm cr (HApplyProof f pf) c w /\
         (let '(_, _, c', _) := hstep cr (HApplyProof f pf) c w in flushable (c_tree c')).
Proof. exact apply_proof_step_vm. Qed.

Theorem C14_cache_valid_after_history :
  forall (cr : crypto) (ev : evo),
         evictor ev ->
         forall (ops : list hop) (st : cst) (c : core) (w : world),
         valid st c w ->
         hist_vm cr ops c w ->
         hlive cr ops c w = true ->
         valid (fst (hrun_c cr ev ops st c w)) (snd (fst (snd (hrun_c cr ev ops st c w))))
           (snd (snd (hrun_c cr ev ops st c w))).
Proof. exact cache_valid_after_history. Qed.

Theorem C14_accepted_proofs_agree_with_visible_nodes :
  forall cr : crypto,
         (forall x : bytes, Datatypes.length (cr_hash cr x) = 32%nat) ->
         (forall x : bytes, all_zero (cr_hash cr x) = false) ->
         forall bs : list bytes,
         writer_fits bs ->
         forall (pf : proof) (c : core) (w : world),
         RInv cr bs c (w_disk w) ->
         SoundCoreBU.block_upgrade_ok pf ->
         proof_agrees cr c w pf \/ Sound.some_collision cr \/ forged_signature cr bs (kp_public (c_keypair c)).
Proof. exact replica_proof_agrees. Qed.

Theorem C14_cache_transparent_for_replica_histories :
  forall cr : crypto,
         (forall x : bytes, Datatypes.length (cr_hash cr x) = 32%nat) ->
         (forall x : bytes, all_zero (cr_hash cr x) = false) ->
         forall bs : list bytes,
         writer_fits bs ->
         forall (ev : evo) (ops : list hop) (st : cst) (c : core) (w : world),
         evictor ev ->
         RInv cr bs c (w_disk w) ->
         Forall replica_hop ops ->
         Forall not_reopen ops ->
         valid st c w ->
         snd (hrun_c cr ev ops st c w) = hrun cr ops c w \/
         Sound.some_collision cr \/ forged_signature cr bs (kp_public (c_keypair c)).
Proof. exact replica_cache_transparent_no_reopen. Qed.

Theorem C14_cache_transparent_for_replica_histories_with_reopen :
  forall cr : crypto,
         (forall x : bytes, Datatypes.length (cr_hash cr x) = 32%nat) ->
         (forall x : bytes, all_zero (cr_hash cr x) = false) ->
         forall bs : list bytes,
         writer_fits bs ->
         forall (ev : evo) (ops : list hop) (st : cst) (c : core) (w : world),
         evictor ev ->
         RInv cr bs c (w_disk w) ->
         Forall replica_hop ops ->
         reopen_hyps cr bs ops c w ->
         valid st c w ->
         snd (hrun_c cr ev ops st c w) = hrun cr ops c w \/
         Sound.some_collision cr \/ forged_signature cr bs (kp_public (c_keypair c)).
Proof. exact replica_cache_transparent. Qed.

Theorem C14_cache_transparent_for_replica_histories_incl_reopen :
  forall cr : crypto,
         OplogFacts.crc_ok cr ->
         (forall x : bytes, Datatypes.length (cr_hash cr x) = 32%nat) ->
         (forall x : bytes, all_zero (cr_hash cr x) = false) ->
         (forall x : bytes, bytes_ok (cr_hash cr x) = true) ->
         forall bs : list bytes,
         writer_fits bs ->
         forall (ev : evo) (ops : list hop) (st : cst) (c : core) (w : world) (H : N -> bool),
         evictor ev ->
         RDInv cr bs c (w_disk w) H ->
         Forall replica_hop_d ops ->
         valid st c w ->
         snd (hrun_c cr ev ops st c w) = hrun cr ops c w \/
         Sound.some_collision cr \/ forged_signature cr bs (kp_public (c_keypair c)).
Proof. exact replica_cache_transparent_reopen. Qed.

Theorem C14_replica_reopen_is_cache_safe :
  forall cr : crypto,
         OplogFacts.crc_ok cr ->
         (forall x : bytes, Datatypes.length (cr_hash cr x) = 32%nat) ->
         (forall x : bytes, all_zero (cr_hash cr x) = false) ->
         (forall x : bytes, bytes_ok (cr_hash cr x) = true) ->
         forall bs : list bytes,
         writer_fits bs ->
         forall (c : core) (d : disk) (H : N -> bool), RDInv cr bs c d H -> open_vm cr None true d.
Proof. exact open_vm_RDInv. Qed.

Theorem C14_cache_transparent_after_crash_and_reopen :
  forall cr : crypto,
         OplogFacts.crc_ok cr ->
         (forall x : bytes, Datatypes.length (cr_hash cr x) = 32%nat) ->
         (forall x : bytes, all_zero (cr_hash cr x) = false) ->
         (forall x : bytes, bytes_ok (cr_hash cr x) = true) ->
         forall bs : list bytes,
         writer_fits bs ->
         forall (ev : evo) (ops : list hop) (st : cst) (c : core) (w : world) (pk : bytes) 
           (H : N -> bool) (r : N),
         evictor ev ->
         RDisk cr bs pk (w_disk w) H r ->
         Forall replica_hop_d ops ->
         valid st c w ->
         snd (hrun_c cr ev (HReopen :: ops) st c w) = hrun cr (HReopen :: ops) c w \/
         Sound.some_collision cr \/ forged_signature cr bs pk.
Proof. exact replica_cache_transparent_crash_reopen. Qed.

Theorem C14_disk_backend_refines_flat_file :
  forall (cfg : dcfg) (ops : list dop),
         ops_tight file_empty ops = true ->
         forallb (dop_read_fits cfg) ops = true ->
         run_rad cfg ops = (fst (run_dfile ops), snd (run_dfile ops), snd (run_dfile ops)).
Proof. exact rad_refines_file. Qed.

Theorem C14_disk_backend_session_refines_flat_file :
  forall (cfg : dcfg) (ops : list op),
         forallb (op_read_fits cfg) ops = true ->
         let r := run_rad cfg (map Dop ops) in
         fst (fst r) = fst (run_file ops) /\
         snd (fst r) = snd (run_file ops) /\ (exists z : N, snd (run_file ops) = snd r ++ zeros_n z).
Proof. exact rad_session_refines_file. Qed.

Theorem C14_disk_backend_agrees_with_memory_backend :
  forall (cfg : dcfg) (ps : N) (ops : list op),
         0 < ps -> forallb (op_read_fits cfg) ops = true -> fst (run_rad cfg (map Dop ops)) = run_ram ps ops.
Proof. exact rad_session_agrees_with_ram. Qed.

Theorem C14_disk_backend_length_invariant :
  forall (cfg : dcfg) (d : rad) (o : op),
         rad_tight d -> rad_tight (fst (rad_step cfg d o)) <-> op_tight (rad_length d) o = true.
Proof. exact step_tight_iff. Qed.

Theorem C14_disk_file_is_content_up_to_zero_tail :
  forall (d : rad) (f : file),
         drefines d f -> f_content f = rad_raw d ++ zeros_n (rad_length d - os_size (rad_file d)).
Proof. exact raw_is_prefix. Qed.

Theorem C14_disk_del_variants_agree :
  forall (cap : option N) (ops : list dop),
         ops_tight file_empty ops = true ->
         forallb (dop_read_fits {| dc_sparse := true; dc_read_cap := cap |}) ops = true ->
         run_rad {| dc_sparse := true; dc_read_cap := cap |} ops =
         run_rad {| dc_sparse := false; dc_read_cap := cap |} ops.
Proof. exact del_variants_agree. Qed.

Print Assumptions C14_cache_transparent.
Print Assumptions C14_cache_starts_valid.
Print Assumptions C14_cache_insert_keeps_valid.
Print Assumptions C14_cache_any_eviction.
Print Assumptions C14_cache_survives_immutable_updates.
Print Assumptions C14_required_node_transparent.
Print Assumptions C14_paged_memory_refines_flat_file.
Print Assumptions C14_paged_memory_step.
Print Assumptions C14_paged_memory_steps.
Print Assumptions C14_cache_transparent_for_histories.
Print Assumptions C14_cache_transparent_for_writer_histories.
Print Assumptions C14_cache_transparent_from_creation.
Print Assumptions C14_cached_lookup_step.
Print Assumptions C14_cached_proof_creation.
Print Assumptions C14_cached_verification.
Print Assumptions C14_cache_filled_at_open.
Print Assumptions C14_replica_step_condition.
Print Assumptions C14_cache_valid_after_history.
Print Assumptions CacheOps.toy_writer_runs.
Print Assumptions CacheOps.toy_replica_runs.
Print Assumptions CacheOps.caching_a_miss_breaks_transparency.
Print Assumptions CacheOps.open_caches_blank_root_refuted.
Print Assumptions PagedMemFacts.with_buffers_exposes_content.
Print Assumptions PagedMemFacts.ex_state_ok.
Print Assumptions C14_accepted_proofs_agree_with_visible_nodes.
Print Assumptions C14_cache_transparent_for_replica_histories.
Print Assumptions C14_cache_transparent_for_replica_histories_with_reopen.
Print Assumptions C14_cache_transparent_for_replica_histories_incl_reopen.
Print Assumptions C14_replica_reopen_is_cache_safe.
Print Assumptions C14_cache_transparent_after_crash_and_reopen.
Print Assumptions C14_disk_backend_refines_flat_file.
Print Assumptions C14_disk_backend_session_refines_flat_file.
Print Assumptions C14_disk_backend_agrees_with_memory_backend.
Print Assumptions C14_disk_backend_length_invariant.
Print Assumptions C14_disk_file_is_content_up_to_zero_tail.
Print Assumptions C14_disk_del_variants_agree.

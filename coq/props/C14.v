(* C14 — behaviour is independent of the node cache (pinned statements; proofs in Cache.v).
   The crate looks a tree node up in the cache first, then in the unflushed map, then in the tree
   store; it caches what it read from the store; the cache library may evict anything at any time.
   What is proved: for every cache content that this rule can produce, under any eviction, every
   lookup answers exactly what the cache-less lookup answers, in both lookup modes.
   Not proved here (covered by the configuration sweep of tools/c14.py): that the storage backends
   implement the file semantics of Storage.v, moka internals, the OS file system. *)
From HC Require Import Base NMap Codec Crypto FlatTree Storage Oplog Merkle Cache.

Theorem C14_cache_transparent : forall cache t tf,
  cache_ok cache t tf -> forall i am, node_get_cached cache t tf i am = node_get t tf i am.
Proof. exact cached_lookup_transparent. Qed.

Theorem C14_cache_starts_valid : forall t tf, cache_ok nm_empty t tf.
Proof. exact cache_ok_empty. Qed.

Theorem C14_cache_insert_keeps_valid : forall cache t tf i am n,
  cache_ok cache t tf -> node_get t tf i am = Ok (Some n) -> cache_ok (nm_set i n cache) t tf.
Proof. exact cache_ok_insert. Qed.

Theorem C14_cache_any_eviction : forall cache cache' t tf,
  cache_ok cache t tf -> submap cache' cache -> cache_ok cache' t tf.
Proof. exact cache_ok_evict. Qed.

Theorem C14_cache_survives_immutable_updates : forall cache t tf n,
  cache_ok cache t tf -> node_blank n = false ->
  (forall m, nm_get (n_index n) cache = Some m -> m = n) ->
  cache_ok cache (tree_add_node t n) tf.
Proof. exact cache_ok_add_node. Qed.

Theorem C14_required_node_transparent : forall cache t tf i,
  cache_ok cache t tf -> required_node_cached cache t tf i = required_node t tf i.
Proof. exact required_node_cached_transparent. Qed.

(* non-vacuity: a cache holding a node that sits in the unflushed map is valid, and is consulted *)
Example C14_ex :
  let n := mkNode 4 7 (repeat 9 32) in
  let t := tree_add_node (mkTree [] 0 0 0 None nm_empty) n in
  cache_ok (nm_set 4 n nm_empty) t file_empty /\
  node_get_cached (nm_set 4 n nm_empty) t file_empty 4 false = Ok (Some n).
Proof.
  split; [|reflexivity].
  apply (cache_ok_insert nm_empty _ _ 4 false); [apply cache_ok_empty | reflexivity].
Qed.

Print Assumptions C14_cache_transparent.
Print Assumptions C14_cache_starts_valid.
Print Assumptions C14_cache_insert_keeps_valid.
Print Assumptions C14_cache_any_eviction.
Print Assumptions C14_cache_survives_immutable_updates.
Print Assumptions C14_required_node_transparent.

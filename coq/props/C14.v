(* C14 — placeholder *)
From HC Require Import Base.

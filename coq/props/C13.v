(* C13 — placeholder *)
From HC Require Import Base.

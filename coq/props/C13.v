(* C13 — replication events announce exactly the state changes that happened (pinned statements; proofs
   in CoreFacts.v). `w_events` is the list of events sent so far, newest first. For EVERY state and input:
   a successful non-empty append sends Upgrade then Have(old length, batch size); an accepted proof sends
   Upgrade iff it carried an upgrade section, then Have(index,1) iff it carried a block; get of an index that
   is not held sends exactly one Get(index) and returns None without touching core, disk or journal; clear,
   missing_nodes, make_read_only send nothing; every refused, failed or empty call sends nothing;
   create_proof sends nothing except the Get of its internal read of a block that is not held.
   Partial by nature: that every subscriber receives the same sequence is a property of async_broadcast
   (capacity 32), covered by tools/c13.py with 1-3 subscribers and < 32 undrained events. *)
From HC Require Import Base NMap Codec Crypto FlatTree Storage Bitfield Oplog Merkle Core CoreFacts.

Theorem C13_append_events : forall cr f batch c w c' w' r,
  core_append cr f batch c w = (c', w', r) ->
  w_events w' =
    match r with
    | Ok _ => match batch with
              | [] => []
              | _ :: _ => [EvHave (t_length (c_tree c)) (N.of_nat (length batch)) false; EvUpgrade]
              end
    | _ => []
    end ++ w_events w.
Proof. exact append_events. Qed.

Theorem C13_apply_events : forall cr f pf c w c' w' r,
  core_apply_proof cr f pf c w = (c', w', r) ->
  w_events w' =
    match r with
    | Ok true => match p_block pf with Some b => [EvHave (db_index b) 1 false] | None => [] end ++
                 match p_upgrade pf with Some _ => [EvUpgrade] | None => [] end
    | _ => []
    end ++ w_events w.
Proof. exact apply_events. Qed.

Theorem C13_get_events : forall i c w c' w' r,
  core_get i c w = (c', w', r) ->
  w_events w' = (if bf_get (c_bitfield c) i then [] else [EvGet i]) ++ w_events w /\
  (bf_get (c_bitfield c) i = false ->
     r = Ok None /\ c' = c /\ w_journal w' = w_journal w /\ w_disk w' = w_disk w).
Proof. exact get_events. Qed.

Theorem C13_clear_silent : forall cr f s e, silent (core_clear cr f s e).
Proof. exact clear_events. Qed.

Theorem C13_create_proof_events : forall blk h s u c w c' w' r,
  core_create_proof blk h s u c w = (c', w', r) ->
  w_events w' = match proof_missing_block blk h s u c w with Some i => [EvGet i] | None => [] end ++ w_events w /\
  (forall i, proof_missing_block blk h s u c w = Some i -> r = Ok None) /\
  c' = c /\ w_disk w' = w_disk w /\ w_journal w' = w_journal w.
Proof. exact create_proof_events. Qed.

Theorem C13_other_calls_silent : forall cr i,
  silent (core_make_read_only cr) /\ silent (core_missing_nodes i) /\ silent (core_missing_nodes_tree i).
Proof. intros cr i. split; [apply make_read_only_silent | apply missing_nodes_silent]. Qed.

Print Assumptions C13_append_events.
Print Assumptions C13_apply_events.
Print Assumptions C13_get_events.
Print Assumptions C13_clear_silent.
Print Assumptions C13_create_proof_events.
Print Assumptions C13_other_calls_silent.
Print Assumptions toy_append_get_events.
Print Assumptions toy_apply_events.

(* ADDED IN THE THIRD ROUND (EventsAvail.v): announced ranges = availability gained, per call and per history (C13_*_availability, C13_history_availability).
   ---- header of the earlier rounds: ---- *)
(* C13 — replication events announce exactly the state changes that happened (pinned statements; proofs
   in CoreFacts.v). `w_events` is the list of events sent so far, newest first. For EVERY state and input:
   a successful non-empty append sends Upgrade then Have(old length, batch size); an accepted proof sends
   Upgrade iff it carried an upgrade section, then Have(index,1) iff it carried a block; get of an index that
   is not held sends exactly one Get(index) and returns None without touching core, disk or journal; clear,
   missing_nodes, make_read_only send nothing; every refused, failed or empty call sends nothing;
   create_proof sends nothing except the Get of its internal read of a block that is not held.
   Partial by nature: that every subscriber receives the same sequence is a property of async_broadcast
   (capacity 32), covered by tools/c13.py with 1-3 subscribers and < 32 undrained events. *)
From HC Require Import Broadcast BroadcastLib BroadcastRefine BroadcastFacts BroadcastTrace.
From HC Require FaultReplicaEx.
From HC Require Import FaultReplica.
From HC Require AnyProofCorEx.
From HC Require Import AnyProofLib AnyProof AnyProofCorLib AnyProofCor.
From HC Require SrcOrder OrderTie OrderTieEvents.
From HC Require Import SoundCoreLib SoundCore ReplicaCor.
From HC Require Import Base NMap Codec Crypto FlatTree Storage Bitfield Oplog Merkle Core CoreFacts.
From HC Require Import EventsAvail.

Theorem C13_append_events : forall cr f batch c w c' w' r,
  core_append cr f batch c w = (c', w', r) ->
  w_events w' =
    match r with
    | Ok _ => match batch with
              | [] => []
              | _ :: _ => [EvHave (t_length (c_tree c)) (N.of_nat (length batch)) false; EvUpgrade]
              end
    | _ => []
    end ++ w_events w.
Proof. exact append_events. Qed.

Theorem C13_apply_events : forall cr f pf c w c' w' r,
  core_apply_proof cr f pf c w = (c', w', r) ->
  w_events w' =
    match r with
    | Ok true => match p_block pf with Some b => [EvHave (db_index b) 1 false] | None => [] end ++
                 match p_upgrade pf with Some _ => [EvUpgrade] | None => [] end
    | _ => []
    end ++ w_events w.
Proof. exact apply_events. Qed.

Theorem C13_get_events : forall i c w c' w' r,
  core_get i c w = (c', w', r) ->
  w_events w' = (if bf_get (c_bitfield c) i then [] else [EvGet i]) ++ w_events w /\
  (bf_get (c_bitfield c) i = false ->
     r = Ok None /\ c' = c /\ w_journal w' = w_journal w /\ w_disk w' = w_disk w).
Proof. exact get_events. Qed.

Theorem C13_clear_silent : forall cr f s e, silent (core_clear cr f s e).
Proof. exact clear_events. Qed.

Theorem C13_create_proof_events : forall blk h s u c w c' w' r,
  core_create_proof blk h s u c w = (c', w', r) ->
  w_events w' = match proof_missing_block blk h s u c w with Some i => [EvGet i] | None => [] end ++ w_events w /\
  (forall i, proof_missing_block blk h s u c w = Some i -> r = Ok None) /\
  c' = c /\ w_disk w' = w_disk w /\ w_journal w' = w_journal w.
Proof. exact create_proof_events. Qed.

Theorem C13_other_calls_silent : forall cr i,
  silent (core_make_read_only cr) /\ silent (core_missing_nodes i) /\ silent (core_missing_nodes_tree i).
Proof. intros cr i. split; [apply make_read_only_silent | apply missing_nodes_silent]. Qed.

Theorem C13_append_availability :
  forall (cr : crypto) (f : option bool) (batch : list bytes) (c : core) (w : world) 
           (c' : core) (w' : world) (x : N * N),
         core_append cr f batch c w = (c', w', Ok x) ->
         forall i : N,
         core_has c' i =
         core_has c i
         || (t_length (c_tree c) <=? i) && (i <? t_length (c_tree c) + N.of_nat (Datatypes.length batch)).
Proof. exact append_has. Qed.

Theorem C13_apply_availability :
  forall (cr : crypto) (f : option bool) (pf : proof) (c : core) (w : world) (c' : core) (w' : world),
         core_apply_proof cr f pf c w = (c', w', Ok true) ->
         forall i : N,
         core_has c' i = core_has c i || match p_block pf with
                                         | Some b => i =? db_index b
                                         | None => false
                                         end.
Proof. exact apply_has. Qed.

Theorem C13_refused_apply_changes_nothing :
  forall (cr : crypto) (f : option bool) (pf : proof) (c : core) (w : world) (c' : core) (w' : world),
         core_apply_proof cr f pf c w = (c', w', Ok false) -> c' = c /\ w' = w.
Proof. exact apply_refused. Qed.

Theorem C13_clear_only_removes :
  forall (cr : crypto) (f : option bool) (s e : N) (c : core) (w : world) (c' : core) 
           (w' : world) (u : unit),
         core_clear cr f s e c w = (c', w', Ok u) ->
         forall i : N, core_has c' i = core_has c i && negb ((s <=? i) && (i <? e)).
Proof. exact clear_has. Qed.

Theorem C13_reads_keep_availability :
  forall cr : crypto,
         (forall (i : N) (c : core) (w : world) (c' : core) (w' : world) (r : res (option bytes)),
          core_get i c w = (c', w', r) -> c' = c) /\
         (forall (b h : option req_block) (s : option req_seek) (u : option req_upgrade) 
            (c : core) (w : world) (c' : core) (w' : world) (r : res (option proof)),
          core_create_proof b h s u c w = (c', w', r) -> c' = c) /\
         (forall (i : N) (c : core) (w : world) (c' : core) (w' : world) (r : res N),
          core_missing_nodes i c w = (c', w', r) -> c' = c) /\
         (forall (i : N) (c : core) (w : world) (c' : core) (w' : world) (r : res N),
          core_missing_nodes_tree i c w = (c', w', r) -> c' = c) /\
         (forall (c : core) (w : world) (c' : core) (w' : world) (r : res bool),
          core_make_read_only cr c w = (c', w', r) ->
          (forall i : N, core_has c' i = core_has c i) /\ t_length (c_tree c') = t_length (c_tree c)).
Proof. exact read_only_calls_keep_availability. Qed.

Theorem C13_history_availability :
  forall (cr : crypto) (ops : list op) (c : core) (w : world) (c' : core) (w' : world) (oks : list bool),
         run_ops cr ops c w = (c', w', oks) ->
         exists evs : list event,
           w_events w' = evs ++ w_events w /\
           (forall i : N, core_has c i || announced evs i = true -> core_has c' i = true) /\
           (forallb (fun b : bool => b) oks = true ->
            forall i : N, core_has c' i = core_has c i || announced evs i).
Proof. exact history_avail. Qed.

Theorem C13_history_availability_upper :
  forall (cr : crypto) (ops : list op) (c : core) (w : world) (c' : core) (w' : world) (oks : list bool),
         run_ops cr ops c w = (c', w', oks) ->
         exists evs : list event,
           w_events w' = evs ++ w_events w /\
           (forall i : N,
            core_has c' i = true -> core_has c i || announced evs i || failed_ranges cr ops c w i = true).
Proof. exact history_avail_upper. Qed.

Theorem C13_writer_announcements_fresh :
  forall (cr : crypto) (ops : list op) (c : core) (w : world) (c' : core) (w' : world) (oks : list bool),
         forallb (fun o : op => negb (is_apply o)) ops = true ->
         run_ops cr ops c w = (c', w', oks) ->
         bounded c ->
         exists evs : list event,
           w_events w' = evs ++ w_events w /\
           bounded c' /\
           t_length (c_tree c) <= t_length (c_tree c') /\
           (forall i : N, announced evs i = true -> t_length (c_tree c) <= i /\ core_has c i = false).
Proof. exact writer_history_fresh. Qed.

Theorem C13_failed_append_characterised :
  forall (cr : crypto) (f : option bool) (batch : list bytes) (c : core) (w : world) 
           (c' : core) (w' : world) (r : res (N * N)),
         core_append cr f batch c w = (c', w', r) ->
         is_ok r = false ->
         let n := t_length (c_tree c) in
         let k := N.of_nat (Datatypes.length batch) in
         let data := SW Data (t_byte_length (c_tree c)) (concat batch) in
         w_events w' = w_events w /\
         ((forall i : N, core_has c' i = core_has c i) /\
          t_length (c_tree c') = n /\ (w_journal w' = w_journal w \/ w_journal w' = data :: w_journal w) \/
          (forall i : N, core_has c' i = core_has c i || in_range n k i) /\
          t_length (c_tree c') = n + k /\
          batch <> [] /\
          (exists (rest : list sop) (fr : bytes),
             w_journal w' =
             rest ++ SW Oplog (ENTRIES_OFFSET + ol_entries_bytes (c_oplog c)) fr :: data :: w_journal w)).
Proof. exact append_failure. Qed.

Theorem C13_failed_apply_characterised :
  forall (cr : crypto) (f : option bool) (pf : proof) (c : core) (w : world) 
           (c' : core) (w' : world) (r : res bool),
         core_apply_proof cr f pf c w = (c', w', r) ->
         is_ok r = false ->
         w_events w' = w_events w /\
         ((forall i : N, core_has c' i = core_has c i) /\
          c_tree c' = c_tree c /\
          (w_journal w' = w_journal w \/ (exists off : N, w_journal w' = block_write pf off ++ w_journal w)) \/
          (forall i : N, core_has c' i = core_has c i || carried pf i) /\
          apply_newlen cr pf c w c' /\
          (exists (rest : list sop) (fr : bytes) (off : N),
             w_journal w' =
             rest ++
             SW Oplog (ENTRIES_OFFSET + ol_entries_bytes (c_oplog c)) fr :: block_write pf off ++ w_journal w)).
Proof. exact apply_failure. Qed.

Theorem C13_replica_bits_below_length :
  forall (cr : crypto) (bs : list bytes) (c : core) (d : disk), RInv cr bs c d -> bounded c.
Proof. exact RInv_bounded. Qed.

Theorem C13_accepted_proof_keeps_bits_below_length :
  forall cr : crypto,
         (forall x : bytes, Datatypes.length (cr_hash cr x) = 32%nat) ->
         (forall x : bytes, all_zero (cr_hash cr x) = false) ->
         forall bs : list bytes,
         writer_fits bs ->
         forall (f : option bool) (pf : proof) (c : core) (d : disk) (j : list sop) 
           (ev : list event) (c' : core) (w' : world),
         RInv cr bs c d ->
         SoundCoreBU.block_upgrade_ok pf ->
         core_apply_proof cr f pf c {| w_disk := d; w_journal := j; w_events := ev |} = (c', w', Ok true) ->
         RInv cr bs c' (w_disk w') /\
         bounded c' /\
         t_length (c_tree c) <= t_length (c_tree c') /\
         (forall b : data_block, p_block pf = Some b -> db_index b < t_length (c_tree c')) \/
         Sound.some_collision cr \/ forged_signature cr bs (kp_public (c_keypair c)).
Proof. exact apply_keeps_bounded_replica. Qed.

Theorem C13_replica_history_availability :
  forall cr : crypto,
         (forall x : bytes, Datatypes.length (cr_hash cr x) = 32%nat) ->
         (forall x : bytes, all_zero (cr_hash cr x) = false) ->
         forall bs : list bytes,
         writer_fits bs ->
         forall (ops : list op) (c : core) (w : world) (c' : core) (w' : world) (oks : list bool),
         RInv cr bs c (w_disk w) ->
         kp_secret (c_keypair c) = None ->
         Forall replica_op ops ->
         run_ops cr ops c w = (c', w', oks) ->
         applies_ok ops oks ->
         RInv cr bs c' (w_disk w') /\
         bounded c' /\
         c_keypair c' = c_keypair c /\
         t_length (c_tree c) <= t_length (c_tree c') /\
         (exists evs : list event,
            w_events w' = evs ++ w_events w /\
            (forall i : N, core_has c' i = core_has c i || announced evs i) /\
            (forall i : N, announced evs i = true -> i < t_length (c_tree c'))) \/
         Sound.some_collision cr \/ forged_signature cr bs (kp_public (c_keypair c)).
Proof. exact replica_history_avail. Qed.

(* Tie to the source (tools/srcorder.py): in append_batch and verify_and_apply_proof the events are sent AFTER the checkpoint, the
   last storage operation of the call — so a call that fails at a storage operation has sent nothing. *)
Theorem C13_source_events_after_last_storage_operation :
  OrderTieEvents.tied_events SrcOrder.src_order_append_batch /\
  OrderTieEvents.tied_events SrcOrder.src_order_verify_and_apply_proof.
Proof. exact OrderTieEvents.source_sends_events_last. Qed.

Theorem C13_apply_any_accepted :
  forall cr : crypto,
         (forall x : bytes, Datatypes.length (cr_hash cr x) = 32%nat) ->
         forall bs : list bytes,
         writer_fits bs ->
         forall (f : option bool) (pf : proof) (c : core) (w : world) (c' : core) (w' : world),
         HBInv cr bs c (w_disk w) ->
         proof_wire pf ->
         core_apply_proof cr f pf c w = (c', w', Ok true) ->
         HBInv cr bs c' (w_disk w') /\
         t_length (c_tree c) <= t_length (c_tree c') /\
         (forall b : data_block,
          p_block pf = Some b -> db_value b = TreeRef.blk bs (db_index b) /\ db_index b < t_length (c_tree c')) /\
         (forall i : N, core_has c' i = core_has c i || carried pf i) \/
         Sound.some_collision cr \/ forged_signature cr bs (kp_public (c_keypair c)).
Proof. exact apply_any_accepted_HBInv. Qed.

Theorem C13_any_history_avail :
  forall cr : crypto,
         (forall x : bytes, Datatypes.length (cr_hash cr x) = 32%nat) ->
         forall bs : list bytes,
         writer_fits bs ->
         forall (ops : list op) (c : core) (w : world) (c' : core) (w' : world) (oks : list bool),
         HBInv cr bs c (w_disk w) ->
         kp_secret (c_keypair c) = None ->
         Forall (any_op cr) ops ->
         run_ops cr ops c w = (c', w', oks) ->
         HBInv cr bs c' (w_disk w') /\
         c_keypair c' = c_keypair c /\
         t_length (c_tree c) <= t_length (c_tree c') /\
         (exists evs : list event,
            w_events w' = evs ++ w_events w /\
            (forall i : N, core_has c i || announced evs i = true -> core_has c' i = true) /\
            (applies_ok ops oks -> forall i : N, core_has c' i = core_has c i || announced evs i) /\
            (forall i : N, announced evs i = true -> i < t_length (c_tree c'))) \/
         Sound.some_collision cr \/ forged_signature cr bs (kp_public (c_keypair c)).
Proof. exact any_history_avail. Qed.

Theorem C13_failed_call_emits_nothing :
  forall (cr : crypto) (limit : nat),
         (forall (f : option bool) (batch : list bytes) (c : core) (w : world) (c' : core) 
            (w' : world) (r : res (N * N)),
          CrashClear4.core_append_E cr (CrashClear4.emit_lim limit) f batch c w = (c', w', r) ->
          is_ok r = false -> w_events w' = w_events w) /\
         (forall (f : option bool) (s e : N) (c : core) (w : world) (c' : core) (w' : world) (r : res unit),
          CrashClear4.core_clear_E cr (CrashClear4.emit_lim limit) f s e c w = (c', w', r) ->
          w_events w' = w_events w) /\
         (forall (f : option bool) (pf : proof) (c : core) (w : world) (c' : core) (w' : world) (r : res bool),
          core_apply_proof_E cr (CrashClear4.emit_lim limit) f pf c w = (c', w', r) ->
          is_ok r = false -> w_events w' = w_events w) /\
         (forall (c : core) (w : world) (c' : core) (w' : world) (r : res bool),
          core_make_read_only_E cr (CrashClear4.emit_lim limit) c w = (c', w', r) -> w_events w' = w_events w).
Proof. exact failed_call_emits_nothing. Qed.

Theorem C13_beyond_end_same_events :
  forall cr : crypto,
         (forall (f : option bool) (batch : list bytes) (k : nat) (c : core) (d : disk) 
            (j : list sop) (ev : list event) (c' : core) (w' : world) (x : N * N) (delta : list sop),
          core_append cr f batch c {| w_disk := d; w_journal := j; w_events := ev |} = (c', w', Ok x) ->
          w_journal w' = rev delta ++ j ->
          (Datatypes.length delta <= k)%nat ->
          CrashClear4.core_append_E cr (CrashClear4.emit_lim (Datatypes.length j + k)) f batch c
            {| w_disk := d; w_journal := j; w_events := ev |} = (c', w', Ok x)) /\
         (forall (f : option bool) (s e : N) (k : nat) (c : core) (d : disk) (j : list sop) 
            (ev : list event) (c' : core) (w' : world) (x : unit) (delta : list sop),
          core_clear cr f s e c {| w_disk := d; w_journal := j; w_events := ev |} = (c', w', Ok x) ->
          w_journal w' = rev delta ++ j ->
          (Datatypes.length delta <= k)%nat ->
          CrashClear4.core_clear_E cr (CrashClear4.emit_lim (Datatypes.length j + k)) f s e c
            {| w_disk := d; w_journal := j; w_events := ev |} = (c', w', Ok x)) /\
         (forall (f : option bool) (pf : proof) (k : nat) (c : core) (d : disk) (j : list sop)
            (ev : list event) (c' : core) (w' : world) (x : bool) (delta : list sop),
          core_apply_proof cr f pf c {| w_disk := d; w_journal := j; w_events := ev |} = (c', w', Ok x) ->
          w_journal w' = rev delta ++ j ->
          (Datatypes.length delta <= k)%nat ->
          core_apply_proof_E cr (CrashClear4.emit_lim (Datatypes.length j + k)) f pf c
            {| w_disk := d; w_journal := j; w_events := ev |} = (c', w', Ok x)) /\
         (forall (k : nat) (c : core) (d : disk) (j : list sop) (ev : list event) (c' : core) 
            (w' : world) (x : bool) (delta : list sop),
          core_make_read_only cr c {| w_disk := d; w_journal := j; w_events := ev |} = (c', w', Ok x) ->
          w_journal w' = rev delta ++ j ->
          (Datatypes.length delta <= k)%nat ->
          core_make_read_only_E cr (CrashClear4.emit_lim (Datatypes.length j + k)) c
            {| w_disk := d; w_journal := j; w_events := ev |} = (c', w', Ok x)).
Proof. exact beyond_end_same_events. Qed.

Theorem C13_fanout_model_refines_abstract_reading :
  forall (A : Type) (cap : N) (ops : list (bop A)),
         0 < cap -> run_bc cap ops = fst (spec_steps (spec_new cap) ops).
Proof. exact run_refines. Qed.

Theorem C13_fanout_no_panic :
  forall (A : Type) (cap : N) (ops : list (bop A)), 0 < cap -> ~ In BoPanic (run_bc cap ops).
Proof. exact run_no_panic. Qed.

Theorem C13_fanout_exact_without_overflow :
  forall (A : Type) (s : spec A) (k : nat) (r : srcv A),
         ginv s ->
         nth_error (sp_rcv s) k = Some r ->
         no_overflow (sr_log r) -> received r ++ pending s r = sent_since s r.
Proof. exact fanout_exact. Qed.

Theorem C13_fanout_trace :
  forall (A : Type) (cap : N) (ops1 ops2 : list (bop A)),
         0 < cap ->
         let c1 := snd (bsys_steps (bsys_new cap) ops1) in
         let k := N.of_nat (Datatypes.length (bs_rcv c1)) in
         let tr2 := combine ops2 (fst (bsys_steps (fst (bsys_step c1 BNew)) ops2)) in
         snd (bsys_step c1 BNew) = BoNew k /\
         (exists got rest : list A,
            tr_sent tr2 = got ++ rest /\
            Forall2 fits (shape (tr_log k tr2)) got /\
            (no_overflow (tr_log k tr2) -> msgs_of (tr_log k tr2) = got)).
Proof. exact fanout_trace. Qed.

Theorem C13_fanout_lagging_subscriber :
  forall (A : Type) (cap : N) (l : list A) (n : N),
         0 < cap ->
         0 < n ->
         N.of_nat (Datatypes.length l) = cap + n ->
         exists obs_s : list (bobs A),
           run_bc cap (BNew :: map BSend l ++ repeat (BRecv 0) (S (N.to_nat cap)) ++ [BRecv 0]) =
           BoNew 0 :: obs_s ++ BoOverflowed n :: map BoMsg (skipn (N.to_nat n) l) ++ [BoEmpty] /\
           Forall (is_sent A) obs_s.
Proof. exact lagging_subscriber. Qed.

Theorem C13_fanout_send_without_subscriber :
  forall (A : Type) (cap : N) (ops1 : list (bop A)) (m : A) (ops2 : list (bop A)),
         0 < cap ->
         nlive (bs_rcv (snd (bsys_steps (bsys_new cap) ops1))) = 0 ->
         run_bc cap (ops1 ++ BSend m :: ops2) =
         fst (bsys_steps (bsys_new cap) ops1) ++
         BoInactive :: fst (bsys_steps (snd (bsys_steps (bsys_new cap) ops1)) ops2) /\
         run_bc cap (ops1 ++ ops2) =
         fst (bsys_steps (bsys_new cap) ops1) ++ fst (bsys_steps (snd (bsys_steps (bsys_new cap) ops1)) ops2).
Proof. exact send_without_subscriber_run. Qed.

Theorem C13_fanout_drained_subscriber_sees_all :
  forall (A : Type) (cap : N) (dr : nat) (chunks : list (list A)),
         0 < cap ->
         Forall (fun ch : list A => N.of_nat (Datatypes.length ch) <= cap /\ (Datatypes.length ch <= dr)%nat)
           chunks ->
         exists obs : list (bobs A),
           run_bc cap (BNew :: feed 0 dr chunks) = BoNew 0 :: obs /\
           msgs_of obs = concat chunks /\ no_overflow obs.
Proof. exact drained_subscriber_sees_all. Qed.

Theorem C13_fanout_core_history :
  forall (cr : crypto) (ops : list op) (c : core) (d : disk) (j : list sop) 
           (c' : core) (w' : world) (oks : list bool) (chunks : list (list event)),
         run_ops cr ops c {| w_disk := d; w_journal := j; w_events := [] |} = (c', w', oks) ->
         concat chunks = rev (w_events w') ->
         Forall (fun ch : list event => (Datatypes.length ch <= 32)%nat) chunks ->
         exists obs : list (bobs event),
           run_bc 32 (BNew :: feed 0 32 chunks) = BoNew 0 :: obs /\
           msgs_of obs = rev (w_events w') /\ no_overflow obs.
Proof. exact core_history_fanout. Qed.

Print Assumptions C13_append_events.
Print Assumptions C13_apply_events.
Print Assumptions C13_get_events.
Print Assumptions C13_clear_silent.
Print Assumptions C13_create_proof_events.
Print Assumptions C13_other_calls_silent.
Print Assumptions toy_append_get_events.
Print Assumptions toy_apply_events.
Print Assumptions C13_append_availability.
Print Assumptions C13_apply_availability.
Print Assumptions C13_refused_apply_changes_nothing.
Print Assumptions C13_clear_only_removes.
Print Assumptions C13_reads_keep_availability.
Print Assumptions C13_history_availability.
Print Assumptions C13_history_availability_upper.
Print Assumptions C13_writer_announcements_fresh.
Print Assumptions C13_failed_append_characterised.
Print Assumptions C13_failed_apply_characterised.
Print Assumptions EventsAvail.toy_writer_history.
Print Assumptions EventsAvail.toy_replica_history.
Print Assumptions EventsAvail.late_failure_breaks_equation.
Print Assumptions EventsAvail.apply_bounded_needs_store_invariant.
Print Assumptions C13_replica_bits_below_length.
Print Assumptions C13_accepted_proof_keeps_bits_below_length.
Print Assumptions C13_replica_history_availability.
Print Assumptions C13_source_events_after_last_storage_operation.
Print Assumptions C13_apply_any_accepted.
Print Assumptions C13_any_history_avail.
Print Assumptions AnyProofCorEx.sc_any_history_applies.
Print Assumptions C13_failed_call_emits_nothing.
Print Assumptions C13_beyond_end_same_events.
Print Assumptions FaultReplicaEx.toy_append_fault_events.
Print Assumptions C13_fanout_model_refines_abstract_reading.
Print Assumptions C13_fanout_no_panic.
Print Assumptions C13_fanout_exact_without_overflow.
Print Assumptions C13_fanout_trace.
Print Assumptions C13_fanout_lagging_subscriber.
Print Assumptions C13_fanout_send_without_subscriber.
Print Assumptions C13_fanout_drained_subscriber_sees_all.
Print Assumptions C13_fanout_core_history.

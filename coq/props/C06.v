(* ADDED IN THE THIRD ROUND: C06_reader_agrees_with_api_state (core_open over the four files reconstructs info/has/get in every reachable state);
   C06_source_constants (layout constants parsed from /repo/src on every run).
   ---- header of the earlier rounds: ---- *)
(* C06 — storage files follow the JavaScript on-disk layout (pinned statements; proofs in OplogFacts.v,
   BitfieldFacts.v). What is proved: every record the crate writes decodes back to itself under the
   layout rules — header (either slot), oplog entries with every combination of the flag bits 2/4/8,
   the CRC frame with its header bit and partial bit, 40-byte tree nodes — and, conversely, a sequence
   of well-formed frames carrying the current header bit is scanned completely, stops at the first
   frame that is missing, torn or carries the other bit, and trailing partial entries are dropped;
   the fuel Oplog::open uses always suffices (termination). Partial: the composition "reader of the four
   files = API state for every reachable state" is checked by the independent reader of tools/c06.py
   at every operation boundary, not proved; user_data / reorgs are outside the model. *)
From HC Require Import Core ClearRefine Unified1 CrashClear1 JsLayout JsLayoutOps.
From HC Require JsLayoutEx.
From HC Require Import Base Codec Crypto Storage Bitfield Oplog Merkle SrcConsts ConstTie ConstTieLayout.
From HC Require Import Base Codec CodecFacts Crypto Storage Bitfield Oplog OplogFacts.
From HC Require Merkle.
From HC Require Import Core Refine ClearRefine Unified1 Unified3.
From HC Require CodecTieLib.
From HC Require Import CodecDesc SrcCodec OplogTie.

Theorem C06_header_roundtrip : forall h r, header_ok h = true -> dec_header (enc_header h ++ r) = Ok (h, r).
Proof. exact dec_enc_header. Qed.

Theorem C06_entry_roundtrip : forall e b r,
  entry_ok e = true -> enc_entry e = Ok b -> dec_entry (b ++ r) = Ok (e, r).
Proof. exact dec_enc_entry. Qed.

Theorem C06_entry_encodes : forall e, entry_ok e = true -> exists b, enc_entry e = Ok b /\ bytes_ok b = true.
Proof. exact enc_entry_ok. Qed.

Theorem C06_frame_roundtrip : forall cr bit partial payload fr r,
  crc_ok cr -> payload <> [] -> frame cr bit partial payload = Ok fr ->
  validate_leader cr (fr ++ r) = Some (mkLeader bit partial (len payload) (payload ++ r)).
Proof. exact validate_frame. Qed.

Theorem C06_node_roundtrip : forall n,
  Nat.eqb (length (n_hash n)) 32 = true -> n_length n < 2 ^ 64 ->
  Merkle.node_from_bytes (n_index n) (Merkle.node_to_bytes n) = n.
Proof. exact node_bytes_roundtrip. Qed.

(* the converse direction: a JS-valid sequence of entries is read back completely, whatever follows *)
Theorem C06_scan_reads_js_entries : forall cr bit l body rest,
  crc_ok cr -> forallb (fun x => entry_ok (fst x)) l = true ->
  frames cr bit l = Ok body -> no_frame_here cr bit rest ->
  scan_entries cr (S (length (body ++ rest))) bit (body ++ rest) [] = Ok (scanned_of l).
Proof. exact scan_entries_open_fuel. Qed.

(* entries flagged as part of an unfinished atomic batch are dropped, and only those *)
Theorem C06_trailing_partials_dropped : forall l, exists removed,
  l = rev (drop_trailing_partials (rev l)) ++ removed /\
  Forall (fun x => is_partial x = true) removed /\
  (forall k x, rev (drop_trailing_partials (rev l)) = k ++ [x] -> is_partial x = false).
Proof. exact drop_trailing_partials_spec. Qed.

(* which header slot is current, and that a flush always writes the other one *)
Theorem C06_slot_rule : forall bits, let '(slot, _, bits') := next_slot bits in
  (slot = 0 <-> fst bits <> snd bits) /\ (Bool.eqb (fst bits') (snd bits') = true <-> slot = 0).
Proof. exact slot_choice. Qed.

(* Tie to the source, regenerated on every run: the crate's named constants (parsed from /repo/src by
   tools/srcconsts.py into SrcConsts.v) are the values the model uses; `tied None _` (constant renamed away) is True. *)
Theorem C06_source_constants :
  tied src_NODE_SIZE NODE_SIZE /\ tied src_MAX_OPLOG_ENTRIES_BYTE_SIZE MAX_OPLOG_ENTRIES_BYTE_SIZE /\
  tied src_HEADER_SIZE HEADER_SIZE /\ tied (option_map (N.mul 2) src_HEADER_SIZE) ENTRIES_OFFSET /\
  tied src_INITIAL_HEADER_BITS [fst INITIAL_HEADER_BITS; snd INITIAL_HEADER_BITS] /\
  tied src_FIXED_BITFIELD_BYTES_LENGTH PAGE_BYTES /\ tied (option_map (N.mul 4) src_FIXED_BITFIELD_LENGTH) PAGE_BYTES /\
  tied src_DEFAULT_NAMESPACE DEFAULT_NAMESPACE /\
  (forall cr bit partial payload fr, frame cr bit partial payload = Ok fr ->
     tied src_LEADER_SIZE (len fr - len payload) /\ tied src_CRC_SIZE (len (le_bytes 4 (cr_crc cr [])))).
Proof. exact source_layout_constants_are_the_models. Qed.

(* Tie of the oplog codecs to the source, regenerated on every run: tools/srccodec.py parses src/oplog/entry.rs and
   src/oplog/header.rs into SrcCodec.v — the macro-form impls (EntryTreeUpgrade, HeaderTree, HeaderHints) as field lists, the
   imperative impl of Entry as, for encoded_size / encode / decode separately, the sections with the flag bit that announces each
   (encode: `flags |= N`, decode: `flags & N != 0`), BitfieldUpdate as flag byte + fields, Header as leading bytes + key + fields.
   `tied_src None _` (impl no longer in the recognised form) is True. For every impl that was found, the codec of Oplog.v is the
   generic interpretation of the source's description (OplogTie.v): same fields, same order, same types, and for Entry the same
   bit for the same section in entry_flags / enc_entry AND in dec_entry (the model's `N.testbit flags k` is `flags & 2^k != 0`,
   C06_oplog_interpreter). Oplog.v has no function for the hints alone: enc_hints / dec_hints are the hints part of enc_header /
   dec_header (which the Header clause shows); it has no size functions: the size clauses say that the source's size list,
   interpreted, is the length of what the model's encoder writes. *)
Theorem C06_source_codecs :
  tied_src src_EntryTreeUpgrade (is_ocodec env_tree_upgrade build_tree_upgrade enc_tree_upgrade dec_tree_upgrade) /\
  tied_src src_HeaderTree (is_ocodec env_header_tree build_header_tree enc_header_tree dec_header_tree) /\
  tied_src src_HeaderHints (is_ocodec env_hints build_hints enc_hints dec_hints) /\
  tied_src2 src_BitfieldUpdate src_BitfieldUpdate_flag is_bf_update_codec /\
  tied_src src_Entry is_entry_codec /\
  tied_src2 src_Header src_Header_lead is_header_codec.
Proof. exact source_oplog_codecs_are_the_models. Qed.

(* what the statement above says, spelled out (the definitions live in OplogTie.v; these pin their meaning) *)
Theorem C06_source_codecs_meaning :
  (forall A (P : A -> Prop), tied_src None P <-> True) /\ (forall A d (P : A -> Prop), tied_src (Some d) P <-> P d) /\
  (forall A B d f (P : A -> B -> Prop), tied_src2 (Some d) (Some f) P <-> P d f) /\
  (forall A B f (P : A -> B -> Prop), tied_src2 None f P <-> True) /\
  (forall A B d (P : A -> B -> Prop), tied_src2 (Some d) None P <-> True) /\
  (forall A (envA : A -> oenv) buildA enc dec d,
     is_ocodec envA buildA enc dec d <->
     (forall x, Ok (enc x) = ogenc (cd_enc d) (envA x)) /\
     (forall x, Ok (len (enc x)) = ogsize (cd_size d) (envA x)) /\
     (forall b, dec b = ogdecode buildA (cd_dec_types d) (cd_ctor d) b) /\
     cd_dec_types d = map snd (cd_enc d) /\ cd_ctor d = map fst (cd_enc d) /\ cd_size d = cd_enc d) /\
  (forall d f,
     is_bf_update_codec d f <->
     (forall u, Ok (enc_bf_update u) =
                (fl <- oflagbyte (fb_enc f) (env_bf_update u) ;; body <- ogenc (cd_enc d) (env_bf_update u) ;;
                 Ok ([fl] ++ body))) /\
     (forall u, Ok (len (enc_bf_update u)) = (s <- ogsize (cd_size d) (env_bf_update u) ;; Ok (fb_size f + s))) /\
     (forall b, dec_bf_update b =
                ('(fl, r) <- dec_byte b ;; '(l, r') <- ogdec (cd_dec_types d) (cd_ctor d) r ;;
                 ofinish build_bf_update (oflagvals (fb_dec f) fl ++ l) r')) /\
     fb_dec f = fb_enc f /\ fb_size f = 1 /\
     cd_dec_types d = map snd (cd_enc d) /\ cd_ctor d = map fst (cd_enc d) /\ cd_size d = cd_enc d) /\
  (forall d,
     is_entry_codec d <->
     (forall e, Ok (entry_flags e) = oflags (fd_enc d) (env_entry e)) /\
     (forall e, enc_entry e = oenc_flagged (fd_enc d) (env_entry e)) /\
     (forall b, dec_entry b = odec_flagged build_entry (fd_dec d) b) /\
     (forall e b, enc_entry e = Ok b ->
                  Ok (len b) = (s <- osecs_size (fd_size d) (env_entry e) ;; Ok (fd_size_lead d + s))) /\
     fd_dec d = fd_enc d /\ fd_size d = map (fun x => (fst (fst x), snd x)) (fd_enc d) /\ fd_size_lead d = 1) /\
  (forall d l,
     is_header_codec d l <->
     (forall h, Ok (enc_header h) = (body <- ogenc (cd_enc d) (env_header h) ;; Ok (hl_bytes l ++ body))) /\
     (forall b, dec_header b =
                ('(_, r) <- dec_fixed (N.to_nat (hl_dec_skip l)) b ;;
                 ogdecode build_header (cd_dec_types d) (cd_ctor d) r)) /\
     hl_dec_skip l = len (hl_bytes l) /\ hl_size l = len (hl_bytes l) /\
     cd_dec_types d = map snd (cd_enc d) /\ cd_ctor d = map fst (cd_enc d) /\ cd_size d = cd_enc d).
Proof.
  repeat match goal with |- _ /\ _ => split end; intros;
    unfold tied_src, tied_src2, is_ocodec, is_bf_update_codec, is_entry_codec, is_header_codec;
    try destruct f; tauto.
Qed.

(* the generic interpreters, by their defining equations; in particular the decoder's bit test is `flags & bit != 0` and
   the model's `N.testbit flags k` is that test for bit 2^k *)
Theorem C06_oplog_interpreter :
  (forall flags bit, flag_set flags bit = negb (N.land flags bit =? 0)%N) /\
  (forall a k, N.testbit a k = flag_set a (2 ^ k)) /\
  (forall e, ogenc [] e = Ok [] /\ ogsize [] e = Ok 0%N /\ oflags [] e = Ok 0%N /\ obody [] e = Ok [] /\
             oflagbyte [] e = Ok 0%N) /\
  (forall name t r e,
     ogenc ((name, t) :: r) e = (a <- oenc_field t (e name) ;; b <- ogenc r e ;; Ok (a ++ b)%list) /\
     ogsize ((name, t) :: r) e = (a <- osize_field t (e name) ;; b <- ogsize r e ;; Ok (a + b)%N)) /\
  (forall name bit t r e,
     oflags ((name, bit, t) :: r) e =
       (p <- sec_present (e name) ;; f <- oflags r e ;; Ok (if p then N.lor bit f else f)) /\
     obody ((name, bit, t) :: r) e =
       (p <- sec_present (e name) ;; a <- (if p then sec_enc t (e name) else Ok []) ;; b <- obody r e ;;
        Ok (a ++ b)%list)) /\
  (forall l e, oenc_flagged l e = (f <- oflags l e ;; b <- obody l e ;; Ok ([f] ++ b)%list)) /\
  (forall flags b, osecs_dec [] flags b = Ok ([], b)) /\
  (forall name bit t r flags b,
     osecs_dec ((name, bit, t) :: r) flags b =
       ('(v, b1) <- (if flag_set flags bit then sec_dec t b else d <- sec_default t ;; Ok (d, b)) ;;
        '(rest, b2) <- osecs_dec r flags b1 ;; Ok ((name, v) :: rest, b2))) /\
  (forall A (build : oenv -> option A) l b,
     odec_flagged build l b = ('(flags, r) <- dec_byte b ;; '(vs, r') <- osecs_dec l flags r ;; ofinish build vs r')) /\
  (forall l, sec_present (Some (ONs l)) = Ok (match l with [] => false | _ => true end)) /\
  (forall o, sec_present (Some (OOptTU o)) = Ok (match o with Some _ => true | None => false end)) /\
  (forall o, sec_present (Some (OOptBU o)) = Ok (match o with Some _ => true | None => false end)) /\
  sec_present (Some OStrs) = Ok false /\
  (forall l, sec_enc FNodes (Some (ONs l)) = enc_nodes l) /\
  (forall u, sec_enc (FRec "EntryTreeUpgrade"%string) (Some (OOptTU (Some u))) = Ok (enc_tree_upgrade u)) /\
  (forall u, sec_enc (FRec "BitfieldUpdate"%string) (Some (OOptBU (Some u))) = Ok (enc_bf_update u)) /\
  (forall n, oenc_field FU64 (Some (OU n)) = Ok (enc_uint n)) /\
  (forall v, oenc_field FBytes (Some (OB v)) = Ok (enc_buffer v)) /\
  (forall h, oenc_field FHash32 (Some (OH h)) = Ok h) /\
  oenc_field FStrings (Some OStrs) = Ok [0%N] /\
  (forall ns pk, oenc_field (FRec "Manifest"%string) (Some (OManifest ns pk)) = Ok ([0; 0; 1] ++ [0] ++ ns ++ pk)%list%N) /\
  (forall k, oenc_field (FRec "PartialKeypair"%string) (Some (OKeypair k)) = Ok (enc_keypair k)) /\
  (forall t, oenc_field (FRec "HeaderTree"%string) (Some (OTree t)) = Ok (enc_header_tree t)) /\
  (forall c, oenc_field (FRec "HeaderHints"%string) (Some (OHints c)) = Ok ([0%N] ++ enc_uint c)%list) /\
  (forall t, oenc_field t None = Panic CodecTieLib.MISMATCH) /\
  (forall s v, oenc_field (FOther s) v = Panic CodecTieLib.MISMATCH) /\
  (forall x, build_tree_upgrade (env_tree_upgrade x) = Some x) /\
  (forall x, build_header_tree (env_header_tree x) = Some x) /\
  (forall x, build_hints (env_hints x) = Some x) /\
  (forall x, build_bf_update (env_bf_update x) = Some x) /\
  (forall x, build_entry (env_entry x) = Some x) /\
  (forall x, build_header (env_header x) = Some x).
Proof. exact oplog_interpreter_spec. Qed.

(* sensitivity: the repaired defect D1 (decode testing `flags & 2` for the tree_upgrade section), another version byte,
   HeaderTree fields in another order — none of them is the model *)
Example C06_ex_d1_wrong_decode_bit_refuted :
  ~ (forall b, dec_entry b =
       odec_flagged build_entry
         [("user_data", 1, FStrings); ("tree_nodes", 2, FNodes); ("tree_upgrade", 2, FRec "EntryTreeUpgrade");
          ("bitfield", 8, FRec "BitfieldUpdate")]%string b).
Proof. exact d1_wrong_decode_bit_refuted. Qed.
Example C06_ex_version_byte_refuted :
  ~ is_header_codec
      {| cd_size := []; cd_dec_types := []; cd_ctor := [];
         cd_enc := [("key", FHash32); ("manifest", FRec "Manifest"); ("key_pair", FRec "PartialKeypair");
                    ("user_data", FStrings); ("tree", FRec "HeaderTree"); ("hints", FRec "HeaderHints")]%string |}
      {| hl_bytes := [0; 6]; hl_dec_skip := 2; hl_size := 2 |}.
Proof. exact version_byte_refuted. Qed.
Example C06_ex_header_tree_swap_refuted :
  ~ (forall t, Ok (enc_header_tree t) =
       ogenc [("fork", FU64); ("length", FU64); ("signature", FBytes); ("root_hash", FBytes)]%string (env_header_tree t)).
Proof. exact header_tree_swap_refuted. Qed.

Theorem C06_reader_agrees_with_api_state :
  forall cr : crypto,
         crc_ok cr ->
         (forall x : bytes, Datatypes.length (cr_hash cr x) = 32%nat) ->
         (forall x : bytes, all_zero (cr_hash cr x) = false) ->
         (forall x : bytes, bytes_ok (cr_hash cr x) = true) ->
         forall (c : core) (d : disk) (bs : list bytes) (cl : N -> bool),
         FInv cr c d bs cl ->
         exists c' : core,
           core_open cr None true d = (d, [], Ok c') /\
           FInv cr c' d bs cl /\
           c_keypair c' = c_keypair c /\
           core_info c' = core_info c /\
           (forall i : N, core_has c' i = core_has c i) /\
           (forall (i : N) (j : list sop) (ev : list event),
            snd (core_get i c' {| w_disk := d; w_journal := j; w_events := ev |}) =
            snd (core_get i c {| w_disk := d; w_journal := j; w_events := ev |}) /\
            snd (fst (core_get i c' {| w_disk := d; w_journal := j; w_events := ev |})) =
            snd (fst (core_get i c {| w_disk := d; w_journal := j; w_events := ev |}))).
Proof. exact reopen_observations_U. Qed.

Theorem C06_js_layout_storage_opens :
  forall cr : crypto,
         crc_ok cr ->
         (forall x : bytes, Datatypes.length (cr_hash cr x) = 32%nat) ->
         (forall x : bytes, all_zero (cr_hash cr x) = false) ->
         (forall x : bytes, bytes_ok (cr_hash cr x) = true) ->
         forall (kp : keypair) (d : disk) (bs : list bytes) (cl : N -> bool),
         JsDisk cr kp d bs cl ->
         exists (c' : core) (d' : disk) (ops : list sop),
           core_open cr None true d = (d', ops, Ok c') /\
           JsInv cr c' d' bs cl /\
           obs_cleared c' d' bs cl /\
           c_keypair c' = kp /\
           c_skip c' = 0 /\
           d_tree d' = d_tree d /\
           d_data d' = d_data d /\
           d_bitfield d' = d_bitfield d /\
           (ops = [] /\ d' = d \/
            (exists m : N,
               ops = [ST Oplog m] /\ ENTRIES_OFFSET <= m < f_len (d_oplog d) /\ apply_sops d ops = Some d')) /\
           core_open cr None true d' = (d', [], Ok c').
Proof. exact open_JsDisk. Qed.

Theorem C06_js_layout_reopen :
  forall cr : crypto,
         crc_ok cr ->
         (forall x : bytes, Datatypes.length (cr_hash cr x) = 32%nat) ->
         (forall x : bytes, all_zero (cr_hash cr x) = false) ->
         (forall x : bytes, bytes_ok (cr_hash cr x) = true) ->
         forall (c : core) (d : disk) (bs : list bytes) (cl : N -> bool),
         JsInv cr c d bs cl ->
         exists c' : core,
           core_open cr None true d = (d, [], Ok c') /\
           JsInv cr c' d bs cl /\ obs_cleared c' d bs cl /\ c_keypair c' = c_keypair c /\ c_skip c' = 0.
Proof. exact reopen_JsInv. Qed.

Theorem C06_own_states_are_js_layout :
  forall cr : crypto,
         crc_ok cr ->
         forall (c : core) (d : disk) (bs : list bytes) (cl : N -> bool),
         FInv cr c d bs cl -> JsDisk cr (c_keypair c) d bs cl.
Proof. exact FInv_JsDisk. Qed.

Theorem C06_js_layout_observations :
  forall (cr : crypto) (c : core) (d : disk) (bs : list bytes) (cl : N -> bool),
         JsInv cr c d bs cl -> obs_cleared c d bs cl.
Proof. exact JsInv_observations. Qed.

Theorem C06_js_layout_then_append :
  forall cr : crypto,
         crc_ok cr ->
         (forall x : bytes, Datatypes.length (cr_hash cr x) = 32%nat) ->
         (forall x : bytes, all_zero (cr_hash cr x) = false) ->
         (forall x : bytes, bytes_ok (cr_hash cr x) = true) ->
         (forall sk m : bytes, Datatypes.length (cr_sign cr sk m) = 64%nat) ->
         (forall sk m : bytes, bytes_ok (cr_sign cr sk m) = true) ->
         forall (f : option bool) (batch : list bytes) (c : core) (d : disk) (j : list sop) 
           (ev : list event) (bs : list bytes) (cl : N -> bool) (sk : bytes) (c' : core) 
           (w' : world) (r : res (N * N)),
         JsInv cr c d bs cl ->
         kp_secret (c_keypair c) = Some sk ->
         sumN (map len (bs ++ batch)) <= u64_max ->
         NODE_SIZE * (2 * N.of_nat (Datatypes.length (bs ++ batch))) <= u64_max ->
         core_append cr f batch c {| w_disk := d; w_journal := j; w_events := ev |} = (c', w', r) ->
         r = Panic frame_msg \/
         r = Ok (N.of_nat (Datatypes.length (bs ++ batch)), sumN (map len (bs ++ batch))) /\
         JsInv cr c' (w_disk w') (bs ++ batch) (cl_mask cl (N.of_nat (Datatypes.length bs))) /\
         c_keypair c' = c_keypair c.
Proof. exact append_JsInv. Qed.

Theorem C06_js_layout_then_clear :
  forall cr : crypto,
         crc_ok cr ->
         (forall x : bytes, Datatypes.length (cr_hash cr x) = 32%nat) ->
         (forall x : bytes, all_zero (cr_hash cr x) = false) ->
         (forall x : bytes, bytes_ok (cr_hash cr x) = true) ->
         forall (f : option bool) (c : core) (d : disk) (j : list sop) (ev : list event) 
           (bs : list bytes) (cl : N -> bool) (start end_ : N) (c' : core) (w' : world) 
           (r : res unit),
         let n := N.of_nat (Datatypes.length bs) in
         JsInv cr c d bs cl ->
         start < n ->
         start < end_ ->
         end_ <= u64_max ->
         core_clear cr f start end_ c {| w_disk := d; w_journal := j; w_events := ev |} = (c', w', r) ->
         r = Ok tt /\ JsInv cr c' (w_disk w') bs (cl_clear cl start end_) /\ c_keypair c' = c_keypair c.
Proof. exact clear_JsInv. Qed.

Theorem C06_js_layout_open_append_clear_reopen :
  forall cr : crypto,
         crc_ok cr ->
         (forall x : bytes, Datatypes.length (cr_hash cr x) = 32%nat) ->
         (forall x : bytes, all_zero (cr_hash cr x) = false) ->
         (forall x : bytes, bytes_ok (cr_hash cr x) = true) ->
         (forall sk m : bytes, Datatypes.length (cr_sign cr sk m) = 64%nat) ->
         (forall sk m : bytes, bytes_ok (cr_sign cr sk m) = true) ->
         forall (kp : keypair) (d : disk) (bs : list bytes) (cl : N -> bool) (sk : bytes) 
           (f1 : option bool) (batch : list bytes) (f2 : option bool) (start end_ : N),
         JsDisk cr kp d bs cl ->
         kp_secret kp = Some sk ->
         sumN (map len (bs ++ batch)) <= u64_max ->
         NODE_SIZE * (2 * N.of_nat (Datatypes.length (bs ++ batch))) <= u64_max ->
         start < N.of_nat (Datatypes.length (bs ++ batch)) ->
         start < end_ ->
         end_ <= u64_max ->
         exists (c0 : core) (d0 : disk) (ops0 : list sop),
           core_open cr None true d = (d0, ops0, Ok c0) /\
           obs_cleared c0 d0 bs cl /\
           (forall (c1 : core) (w1 : world) (r1 : res (N * N)),
            core_append cr f1 batch c0 {| w_disk := d0; w_journal := []; w_events := [] |} = (c1, w1, r1) ->
            r1 = Panic frame_msg \/
            r1 = Ok (N.of_nat (Datatypes.length (bs ++ batch)), sumN (map len (bs ++ batch))) /\
            obs_cleared c1 (w_disk w1) (bs ++ batch) (cl_mask cl (N.of_nat (Datatypes.length bs))) /\
            (forall (c2 : core) (w2 : world) (r2 : res unit),
             core_clear cr f2 start end_ c1 w1 = (c2, w2, r2) ->
             r2 = Ok tt /\
             obs_cleared c2 (w_disk w2) (bs ++ batch)
               (cl_clear (cl_mask cl (N.of_nat (Datatypes.length bs))) start end_) /\
             (exists c3 : core,
                core_open cr None true (w_disk w2) = (w_disk w2, [], Ok c3) /\
                obs_cleared c3 (w_disk w2) (bs ++ batch)
                  (cl_clear (cl_mask cl (N.of_nat (Datatypes.length bs))) start end_) /\ 
                c_keypair c3 = kp))).
Proof. exact js_open_append_clear_reopen. Qed.

(* Tie of small pure EXPRESSIONS to the source, regenerated on every run: tools/srcfns.py parses, in src/oplog/mod.rs,
   build_len_and_info_header (returned word with its two `let x: u32 = if x { K } else { 0 }` inlined; the panic guard with MASK =
   3u32.rotate_right(2) folded), validate_leader (`buffer.len() < 8`, `combined >> 2`, `combined & 1 == 1`, `combined & 2 == 2`,
   `len == 0 || data_buff.len() < len`, the bounds of `&buffer[CRC_SIZE..LEADER_SIZE + len]`), get_current_header_bit,
   get_next_header_oplog_slot_and_bit_value (condition and the two (slot, bit) results, the slots replaced by the discriminants of
   `enum OplogSlot`), and in src/core.rs should_flush_bitfield_and_tree_and_oplog (condition, what each branch assigns to
   skip_flush_count, what it returns) into SrcFns.v, as expressions over named variables (FnDesc.v; meaning pinned by
   C06_source_functions_meaning). `tied_fn None _` (not found in the recognisable form) is True. For every expression that was
   found: in the stated range of the arguments its value is the model's function — the leader word is len_field, the guard is
   frame's, the model's WHOLE validate_leader is the program C06_leader_of_source assembled from the seven expressions (and the
   source's slice is in bounds whenever it is reached), current_bit / next_slot are the source's, and maybe_flush with the native
   cadence decides and updates skip_flush_count as the source does. The named constants in the expressions have the model's
   values, which C06_source_constants ties to the source. *)
From HC Require Import FnDesc SrcFns.
From HC Require FnTie.
Local Open Scope string_scope.
Local Open Scope list_scope.
Local Open Scope N_scope.

(* data_length, header_bit, partial_bit of build_len_and_info_header *)
Definition C06_env_word (n : N) (hb pb : bool) : string -> N :=
  env_of [("data_length", n); ("header_bit", N.b2n hb); ("partial_bit", N.b2n pb)].
(* buffer.len(), the second little-endian u32 of the buffer, the length of what follows the 8 leader bytes *)
Definition C06_env_leader (buflen combined datalen : N) : string -> N :=
  env_of [("buffer.len()", buflen); ("combined", combined); ("data_buff.len()", datalen); ("CRC_SIZE", 4); ("LEADER_SIZE", 8)].
Definition C06_env_bits (b0 b1 : bool) : string -> N :=
  env_of [("self.header_bits[0]", N.b2n b0); ("self.header_bits[1]", N.b2n b1);
          ("header_bits[0]", N.b2n b0); ("header_bits[1]", N.b2n b1); ("HEADER_SIZE", HEADER_SIZE)].
Definition C06_env_flush (c : core) : string -> N :=
  env_of [("self.skip_flush_count", c_skip c); ("self.oplog.entries_byte_length", ol_entries_bytes (c_oplog c));
          ("MAX_OPLOG_ENTRIES_BYTE_SIZE", MAX_OPLOG_ENTRIES_BYTE_SIZE)].

(* validate_leader of src/oplog/mod.rs read as a program over its seven expressions: the stored checksum is the first
   little-endian u32, `combined` the second, `data_buff` the rest; the checksum is computed over buffer[lo..hi] *)
Definition C06_leader_of_source (cr : crypto) (emin elen ebit epart enof elo ehi : rexpr) (buf : bytes) : option leader :=
  if truthy (reval (C06_env_leader (len buf) 0 0) emin) then None
  else
    let stored := le_val (firstn 4 buf) in
    let combined := le_val (firstn 4 (skipn 4 buf)) in
    let data := skipn 8 buf in
    let env := C06_env_leader (len buf) combined (len data) in
    if truthy (reval env enof) then None
    else
      let lo := reval env elo in
      let hi := reval env ehi in
      if cr_crc cr (firstn (N.to_nat (hi - lo)) (skipn (N.to_nat lo) buf)) =? stored
      then Some (mkLeader (truthy (reval env ebit)) (truthy (reval env epart)) (reval env elen) data)
      else None.

Theorem C06_source_functions :
  (* build_len_and_info_header: the word for a length that passed the guard; the guard on any u32 length *)
  tied_fn src_leader_word (fun e => forall n hb pb, n < 1073741824 -> reval (C06_env_word n hb pb) e = len_field n hb pb) /\
  tied_fn src_leader_guard (fun e => forall n, n < 4294967296 ->
     truthy (reval (C06_env_word n false false) e) = (1073741824 <=? n)) /\
  (* validate_leader, expression by expression *)
  tied_fn src_leader_min_len (fun e => forall cr buf,
     truthy (reval (C06_env_leader (len buf) 0 0) e) = true -> validate_leader cr buf = None) /\
  tied_fn src_leader_len (fun e => forall bl combined dl, reval (C06_env_leader bl combined dl) e = combined / 4) /\
  tied_fn src_leader_header_bit (fun e => forall bl combined dl,
     reval (C06_env_leader bl combined dl) e = N.b2n (N.odd combined)) /\
  tied_fn src_leader_partial_bit (fun e => forall bl combined dl,
     reval (C06_env_leader bl combined dl) e = N.b2n (N.odd (combined / 2))) /\
  tied_fn src_leader_no_frame (fun e => forall bl combined dl,
     truthy (reval (C06_env_leader bl combined dl) e) = ((combined / 4 =? 0) || (dl <? combined / 4))) /\
  tied_fn src_leader_zone_lo (fun e => forall bl combined dl, reval (C06_env_leader bl combined dl) e = 4) /\
  tied_fn src_leader_zone_hi (fun e => forall bl combined dl, reval (C06_env_leader bl combined dl) e = 8 + combined / 4) /\
  (* validate_leader as a whole, and its slice is in bounds *)
  tied_fn src_leader_min_len (fun emin => tied_fn src_leader_len (fun elen => tied_fn src_leader_header_bit (fun ebit =>
  tied_fn src_leader_partial_bit (fun epart => tied_fn src_leader_no_frame (fun enof => tied_fn src_leader_zone_lo (fun elo =>
  tied_fn src_leader_zone_hi (fun ehi =>
    (forall cr buf, validate_leader cr buf = C06_leader_of_source cr emin elen ebit epart enof elo ehi buf) /\
    (forall buf, let combined := le_val (firstn 4 (skipn 4 buf)) in
                 let env := C06_env_leader (len buf) combined (len (skipn 8 buf)) in
       truthy (reval (C06_env_leader (len buf) 0 0) emin) = false -> truthy (reval env enof) = false ->
       reval env elo <= reval env ehi <= len buf)))))))) /\
  (* the header slot automaton *)
  tied_fn src_current_bit (fun e => forall b0 b1, reval (C06_env_bits b0 b1) e = N.b2n (current_bit (b0, b1))) /\
  tied_fn src_next_slot_cond (fun c => tied_fn src_next_slot_then_slot (fun ts => tied_fn src_next_slot_then_bit (fun tb =>
  tied_fn src_next_slot_else_slot (fun es => tied_fn src_next_slot_else_bit (fun eb =>
    forall b0 b1, let env := C06_env_bits b0 b1 in
      fst (next_slot (b0, b1)) = if truthy (reval env c) then (reval env ts, truthy (reval env tb))
                                 else (reval env es, truthy (reval env eb))))))) /\
  (* should_flush_bitfield_and_tree_and_oplog: the `then` branch returns true, the other false; decision and counter *)
  tied_fn src_flush_cond (fun fc => tied_fn src_flush_skip_then (fun st => tied_fn src_flush_skip_else (fun se =>
  tied_fn src_flush_result_then (fun rt => tied_fn src_flush_result_else (fun re =>
    forall cr c w, let env := C06_env_flush c in
      truthy (reval env rt) = true /\ truthy (reval env re) = false /\
      maybe_flush cr None c w =
      (if truthy (reval env fc) then (put_skip (reval env st) ;;; flush_all cr false) else put_skip (reval env se)) c w))))).
Proof. exact FnTie.source_oplog_functions_are_the_models. Qed.

(* what the vocabulary means (the definitions live in FnDesc.v; this pins their meaning): unbounded naturals, booleans as 0 / 1 *)
Theorem C06_source_functions_meaning :
  (forall A (P : A -> Prop), tied_fn None P <-> True) /\ (forall A e (P : A -> Prop), tied_fn (Some e) P <-> P e) /\
  (forall env n, reval env (RLit n) = n) /\ (forall env x, reval env (RVar x) = env x) /\
  (forall env a, reval env (RNot a) = N.b2n (reval env a =? 0)) /\
  (forall env c a b, reval env (RIf c a b) = if reval env c =? 0 then reval env b else reval env a) /\
  (forall env a b, reval env (RBin OShl a b) = N.shiftl (reval env a) (reval env b)) /\
  (forall env a b, reval env (RBin OShr a b) = N.shiftr (reval env a) (reval env b)) /\
  (forall env a b, reval env (RBin OAnd a b) = N.land (reval env a) (reval env b)) /\
  (forall env a b, reval env (RBin OOr a b) = N.lor (reval env a) (reval env b)) /\
  (forall env a b, reval env (RBin OXor a b) = N.lxor (reval env a) (reval env b)) /\
  (forall env a b, reval env (RBin OAdd a b) = reval env a + reval env b) /\
  (forall env a b, reval env (RBin OSub a b) = reval env a - reval env b) /\
  (forall env a b, reval env (RBin OMul a b) = reval env a * reval env b) /\
  (forall env a b, reval env (RBin OEq a b) = N.b2n (reval env a =? reval env b)) /\
  (forall env a b, reval env (RBin ONe a b) = N.b2n (negb (reval env a =? reval env b))) /\
  (forall env a b, reval env (RBin OLt a b) = N.b2n (reval env a <? reval env b)) /\
  (forall env a b, reval env (RBin OLe a b) = N.b2n (reval env a <=? reval env b)) /\
  (forall env a b, reval env (RBin OGt a b) = N.b2n (reval env b <? reval env a)) /\
  (forall env a b, reval env (RBin OGe a b) = N.b2n (reval env b <=? reval env a)) /\
  (forall env a b, reval env (RBin OLAnd a b) = N.b2n (negb (reval env a =? 0) && negb (reval env b =? 0))) /\
  (forall env a b, reval env (RBin OLOr a b) = N.b2n (negb (reval env a =? 0) || negb (reval env b =? 0))) /\
  (forall n, truthy n = negb (n =? 0)) /\
  (forall x, env_of [] x = 0) /\
  (forall y v r x, env_of ((y, v) :: r) x = if String.eqb y x then v else env_of r x).
Proof. exact FnTie.fn_desc_meaning. Qed.

Print Assumptions C06_header_roundtrip.
Print Assumptions C06_entry_roundtrip.
Print Assumptions C06_entry_encodes.
Print Assumptions C06_frame_roundtrip.
Print Assumptions C06_node_roundtrip.
Print Assumptions C06_scan_reads_js_entries.
Print Assumptions C06_trailing_partials_dropped.
Print Assumptions C06_slot_rule.
Print Assumptions C06_source_constants.
Print Assumptions C06_reader_agrees_with_api_state.
Print Assumptions C06_source_codecs.
Print Assumptions C06_source_codecs_meaning.
Print Assumptions C06_oplog_interpreter.
Print Assumptions C06_js_layout_storage_opens.
Print Assumptions C06_js_layout_reopen.
Print Assumptions C06_own_states_are_js_layout.
Print Assumptions C06_js_layout_observations.
Print Assumptions C06_js_layout_then_append.
Print Assumptions C06_js_layout_then_clear.
Print Assumptions C06_js_layout_open_append_clear_reopen.
Print Assumptions JsLayoutEx.pattern_p_n_p_p_n_p.
Print Assumptions JsLayoutEx.toy_completed_batch.
Print Assumptions JsLayoutEx.toy_unfinished_batch.
Print Assumptions JsLayoutEx.toy_slot1_only.
Print Assumptions JsLayoutEx.open_result_is_YInv_refuted.
Print Assumptions JsLayoutEx.JsDisk_reflag.
Print Assumptions C06_source_functions.
Print Assumptions C06_source_functions_meaning.

(* ADDED IN THE THIRD ROUND: C06_reader_agrees_with_api_state (core_open over the four files reconstructs info/has/get in every reachable state);
   C06_source_constants (layout constants parsed from /repo/src on every run).
   ---- header of the earlier rounds: ---- *)
(* C06 — storage files follow the JavaScript on-disk layout (pinned statements; proofs in OplogFacts.v,
   BitfieldFacts.v). What is proved: every record the crate writes decodes back to itself under the
   layout rules — header (either slot), oplog entries with every combination of the flag bits 2/4/8,
   the CRC frame with its header bit and partial bit, 40-byte tree nodes — and, conversely, a sequence
   of well-formed frames carrying the current header bit is scanned completely, stops at the first
   frame that is missing, torn or carries the other bit, and trailing partial entries are dropped;
   the fuel Oplog::open uses always suffices (termination). Partial: the composition "reader of the four
   files = API state for every reachable state" is checked by the independent reader of tools/c06.py
   at every operation boundary, not proved; user_data / reorgs are outside the model. *)
From HC Require Import Base Codec Crypto Storage Bitfield Oplog Merkle SrcConsts ConstTie.
From HC Require Import Base Codec CodecFacts Crypto Storage Bitfield Oplog OplogFacts.
From HC Require Merkle.
From HC Require Import Core Refine ClearRefine Unified1 Unified3.

Theorem C06_header_roundtrip : forall h r, header_ok h = true -> dec_header (enc_header h ++ r) = Ok (h, r).
Proof. exact dec_enc_header. Qed.

Theorem C06_entry_roundtrip : forall e b r,
  entry_ok e = true -> enc_entry e = Ok b -> dec_entry (b ++ r) = Ok (e, r).
Proof. exact dec_enc_entry. Qed.

Theorem C06_entry_encodes : forall e, entry_ok e = true -> exists b, enc_entry e = Ok b /\ bytes_ok b = true.
Proof. exact enc_entry_ok. Qed.

Theorem C06_frame_roundtrip : forall cr bit partial payload fr r,
  crc_ok cr -> payload <> [] -> frame cr bit partial payload = Ok fr ->
  validate_leader cr (fr ++ r) = Some (mkLeader bit partial (len payload) (payload ++ r)).
Proof. exact validate_frame. Qed.

Theorem C06_node_roundtrip : forall n,
  Nat.eqb (length (n_hash n)) 32 = true -> n_length n < 2 ^ 64 ->
  Merkle.node_from_bytes (n_index n) (Merkle.node_to_bytes n) = n.
Proof. exact node_bytes_roundtrip. Qed.

(* the converse direction: a JS-valid sequence of entries is read back completely, whatever follows *)
Theorem C06_scan_reads_js_entries : forall cr bit l body rest,
  crc_ok cr -> forallb (fun x => entry_ok (fst x)) l = true ->
  frames cr bit l = Ok body -> no_frame_here cr bit rest ->
  scan_entries cr (S (length (body ++ rest))) bit (body ++ rest) [] = Ok (scanned_of l).
Proof. exact scan_entries_open_fuel. Qed.

(* entries flagged as part of an unfinished atomic batch are dropped, and only those *)
Theorem C06_trailing_partials_dropped : forall l, exists removed,
  l = rev (drop_trailing_partials (rev l)) ++ removed /\
  Forall (fun x => is_partial x = true) removed /\
  (forall k x, rev (drop_trailing_partials (rev l)) = k ++ [x] -> is_partial x = false).
Proof. exact drop_trailing_partials_spec. Qed.

(* which header slot is current, and that a flush always writes the other one *)
Theorem C06_slot_rule : forall bits, let '(slot, _, bits') := next_slot bits in
  (slot = 0 <-> fst bits <> snd bits) /\ (Bool.eqb (fst bits') (snd bits') = true <-> slot = 0).
Proof. exact slot_choice. Qed.

(* Tie to the source, regenerated on every run: the crate's named constants (parsed from /repo/src by
   tools/srcconsts.py into SrcConsts.v) are the values the model uses; `tied None _` (constant renamed away) is True. *)
Theorem C06_source_constants :
  tied src_NODE_SIZE NODE_SIZE /\ tied src_MAX_OPLOG_ENTRIES_BYTE_SIZE MAX_OPLOG_ENTRIES_BYTE_SIZE /\
  tied src_HEADER_SIZE HEADER_SIZE /\ tied (option_map (N.mul 2) src_HEADER_SIZE) ENTRIES_OFFSET /\
  tied src_INITIAL_HEADER_BITS [fst INITIAL_HEADER_BITS; snd INITIAL_HEADER_BITS] /\
  tied src_DYNAMIC_BITFIELD_PAGE_SIZE PAGE_BITS /\ tied src_FIXED_BITFIELD_BITS_LENGTH PAGE_BITS /\
  tied src_FIXED_BITFIELD_BYTES_LENGTH PAGE_BYTES /\ tied (option_map (N.mul 4) src_FIXED_BITFIELD_LENGTH) PAGE_BYTES /\
  tied src_TREE TREE_NS /\ tied src_DEFAULT_NAMESPACE DEFAULT_NAMESPACE /\
  tied src_LEAF_TYPE (firstn 1 (leaf_preimage [])) /\ tied src_ROOT_TYPE (firstn 1 (tree_preimage [])) /\
  (forall a b, tied src_PARENT_TYPE (firstn 1 (parent_preimage a b))) /\
  (forall cr bit partial payload fr, frame cr bit partial payload = Ok fr ->
     tied src_LEADER_SIZE (len fr - len payload) /\ tied src_CRC_SIZE (len (le_bytes 4 (cr_crc cr [])))).
Proof. exact source_constants_are_the_models. Qed.

Theorem C06_reader_agrees_with_api_state :
  forall cr : crypto,
         crc_ok cr ->
         (forall x : bytes, Datatypes.length (cr_hash cr x) = 32%nat) ->
         (forall x : bytes, all_zero (cr_hash cr x) = false) ->
         (forall x : bytes, bytes_ok (cr_hash cr x) = true) ->
         forall (c : core) (d : disk) (bs : list bytes) (cl : N -> bool),
         FInv cr c d bs cl ->
         exists c' : core,
           core_open cr None true d = (d, [], Ok c') /\
           FInv cr c' d bs cl /\
           c_keypair c' = c_keypair c /\
           core_info c' = core_info c /\
           (forall i : N, core_has c' i = core_has c i) /\
           (forall (i : N) (j : list sop) (ev : list event),
            snd (core_get i c' {| w_disk := d; w_journal := j; w_events := ev |}) =
            snd (core_get i c {| w_disk := d; w_journal := j; w_events := ev |}) /\
            snd (fst (core_get i c' {| w_disk := d; w_journal := j; w_events := ev |})) =
            snd (fst (core_get i c {| w_disk := d; w_journal := j; w_events := ev |}))).
Proof. exact reopen_observations_U. Qed.

Print Assumptions C06_header_roundtrip.
Print Assumptions C06_entry_roundtrip.
Print Assumptions C06_entry_encodes.
Print Assumptions C06_frame_roundtrip.
Print Assumptions C06_node_roundtrip.
Print Assumptions C06_scan_reads_js_entries.
Print Assumptions C06_trailing_partials_dropped.
Print Assumptions C06_slot_rule.
Print Assumptions C06_source_constants.
Print Assumptions C06_reader_agrees_with_api_state.

(* C06 — placeholder *)
From HC Require Import Base.

(* C11 — wire messages round-trip exactly and match the compact-encoding spec.
   This file contains only pinned statements; proofs live in CodecFacts.v. *)
From HC Require Import Base Codec CodecFacts.

Theorem C11_node : codec_law node_ok size_node enc_node dec_node.
Proof. exact law_node. Qed.
Theorem C11_request_block : codec_law req_block_ok size_req_block enc_req_block dec_req_block.
Proof. exact law_req_block. Qed.
Theorem C11_request_seek : codec_law req_seek_ok size_req_seek enc_req_seek dec_req_seek.
Proof. exact law_req_seek. Qed.
Theorem C11_request_upgrade : codec_law req_upgrade_ok size_req_upgrade enc_req_upgrade dec_req_upgrade.
Proof. exact law_req_upgrade. Qed.
Theorem C11_data_block : codec_law data_block_ok size_data_block enc_data_block dec_data_block.
Proof. exact law_data_block. Qed.
Theorem C11_data_hash : codec_law data_hash_ok size_data_hash enc_data_hash dec_data_hash.
Proof. exact law_data_hash. Qed.
Theorem C11_data_seek : codec_law data_seek_ok size_data_seek enc_data_seek dec_data_seek.
Proof. exact law_data_seek. Qed.
Theorem C11_data_upgrade : codec_law data_upgrade_ok size_data_upgrade enc_data_upgrade dec_data_upgrade.
Proof. exact law_data_upgrade. Qed.

(* a node whose hash is not 32 bytes is rejected by the encoder, not silently padded *)
Theorem C11_node_bad_hash : forall n, length (n_hash n) <> 32%nat -> enc_node n = Err EncodingErr.
Proof. exact enc_node_bad_hash. Qed.

(* the compact-encoding of an unsigned integer, stated against the spec directly *)
Theorem C11_uint_spec : forall v, fits_u64 v = true ->
  enc_uint v =
    (if v <? 253 then [v]
     else if v <=? 65535 then 253 :: le_bytes 2 v
     else if v <=? 4294967295 then 254 :: le_bytes 4 v
     else 255 :: le_bytes 8 v)
  /\ len (enc_uint v) = size_uint v
  /\ forall r, dec_uint (enc_uint v ++ r) = Ok (v, r).
Proof. intros v Hv. split; [reflexivity|]. split; [apply len_enc_uint | intros r; now apply dec_enc_uint]. Qed.

(* non-vacuity: concrete values meet the premises, and a concrete prefix is refused *)
Example C11_ex_ok :
  data_upgrade_ok (mkDataUpgrade 0 18446744073709551615
                     [mkNode 253 65536 (repeat 7 32)] [] (repeat 255 64)) = true
  /\ node_ok (mkNode 4294967296 0 (repeat 0 32)) = true.
Proof. split; vm_compute; reflexivity. Qed.
Example C11_ex_prefix :
  exists b, enc_node (mkNode 300 5 (repeat 9 32)) = Ok b /\ dec_node (removelast b) = Err EncodingErr.
Proof. eexists. split; vm_compute; reflexivity. Qed.

Print Assumptions C11_node.
Print Assumptions C11_request_block.
Print Assumptions C11_request_seek.
Print Assumptions C11_request_upgrade.
Print Assumptions C11_data_block.
Print Assumptions C11_data_hash.
Print Assumptions C11_data_seek.
Print Assumptions C11_data_upgrade.
Print Assumptions C11_node_bad_hash.
Print Assumptions C11_uint_spec.

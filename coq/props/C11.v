(* C11 — wire messages round-trip exactly and match the compact-encoding spec.
   This file contains only pinned statements; proofs live in CodecFacts.v and CodecTie.v. *)
From HC Require Import Base Codec CodecFacts CodecDesc SrcCodec CodecTieLib CodecTie.

Theorem C11_node : codec_law node_ok size_node enc_node dec_node.
Proof. exact law_node. Qed.
Theorem C11_request_block : codec_law req_block_ok size_req_block enc_req_block dec_req_block.
Proof. exact law_req_block. Qed.
Theorem C11_request_seek : codec_law req_seek_ok size_req_seek enc_req_seek dec_req_seek.
Proof. exact law_req_seek. Qed.
Theorem C11_request_upgrade : codec_law req_upgrade_ok size_req_upgrade enc_req_upgrade dec_req_upgrade.
Proof. exact law_req_upgrade. Qed.
Theorem C11_data_block : codec_law data_block_ok size_data_block enc_data_block dec_data_block.
Proof. exact law_data_block. Qed.
Theorem C11_data_hash : codec_law data_hash_ok size_data_hash enc_data_hash dec_data_hash.
Proof. exact law_data_hash. Qed.
Theorem C11_data_seek : codec_law data_seek_ok size_data_seek enc_data_seek dec_data_seek.
Proof. exact law_data_seek. Qed.
Theorem C11_data_upgrade : codec_law data_upgrade_ok size_data_upgrade enc_data_upgrade dec_data_upgrade.
Proof. exact law_data_upgrade. Qed.

(* a node whose hash is not 32 bytes is rejected by the encoder, not silently padded *)
Theorem C11_node_bad_hash : forall n, length (n_hash n) <> 32%nat -> enc_node n = Err EncodingErr.
Proof. exact enc_node_bad_hash. Qed.

(* the compact-encoding of an unsigned integer, stated against the spec directly *)
Theorem C11_uint_spec : forall v, fits_u64 v = true ->
  enc_uint v =
    (if v <? 253 then [v]
     else if v <=? 65535 then 253 :: le_bytes 2 v
     else if v <=? 4294967295 then 254 :: le_bytes 4 v
     else 255 :: le_bytes 8 v)
  /\ len (enc_uint v) = size_uint v
  /\ forall r, dec_uint (enc_uint v ++ r) = Ok (v, r).
Proof. intros v Hv. split; [reflexivity|]. split; [apply len_enc_uint | intros r; now apply dec_enc_uint]. Qed.

(* Tie to the source, regenerated on every run: tools/srccodec.py parses each `impl CompactEncoding for T` of
   /repo/src/encoding.rs (the field lists of sum_encoded_size! / map_encode! / map_decode! + the constructor, the field
   types from the struct definitions) into SrcCodec.v; `tied_codec None _` (impl no longer in the macro form) is True.
   For every impl that was found: the model's encoder is the generic interpretation [genc] of the source's field list
   (the same fields, in the source's order, with the source's types), the model's size is the interpretation [gsize] of
   the source's size list, the model's decoder is the interpretation [gdecode] of the source's type list and
   constructor, and the source's three functions agree with each other. *)
Theorem C11_source_codecs :
  tied_codec src_Node (is_codec env_node build_node enc_node size_node dec_node) /\
  tied_codec src_RequestBlock (is_codec env_req_block build_req_block enc_req_block size_req_block dec_req_block) /\
  tied_codec src_RequestSeek (is_codec env_req_seek build_req_seek enc_req_seek size_req_seek dec_req_seek) /\
  tied_codec src_RequestUpgrade
    (is_codec env_req_upgrade build_req_upgrade enc_req_upgrade size_req_upgrade dec_req_upgrade) /\
  tied_codec src_DataBlock (is_codec env_data_block build_data_block enc_data_block size_data_block dec_data_block) /\
  tied_codec src_DataHash (is_codec env_data_hash build_data_hash enc_data_hash size_data_hash dec_data_hash) /\
  tied_codec src_DataSeek (is_codec env_data_seek build_data_seek enc_data_seek size_data_seek dec_data_seek) /\
  tied_codec src_DataUpgrade
    (is_codec env_data_upgrade build_data_upgrade enc_data_upgrade size_data_upgrade dec_data_upgrade).
Proof. exact source_codecs_are_the_models. Qed.

(* what the statement above says, spelled out (the definitions live in CodecTie.v; these pin their meaning) *)
Theorem C11_tie_meaning :
  (forall P, tied_codec None P <-> True) /\ (forall d P, tied_codec (Some d) P <-> P d) /\
  (forall A (envA : A -> env) buildA enc size dec d,
     is_codec envA buildA enc size dec d <->
     (forall x, enc x = genc (cd_enc d) (envA x)) /\
     (forall x, Ok (size x) = gsize (cd_size d) (envA x)) /\
     (forall b, dec b = gdecode buildA (cd_dec_types d) (cd_ctor d) b) /\
     cd_dec_types d = map snd (cd_enc d) /\ cd_ctor d = map fst (cd_enc d) /\ cd_size d = cd_enc d).
Proof. split; [|split]; intros; unfold tied_codec, is_codec; tauto. Qed.

(* the generic interpreter uses the primitives of the model's codecs, field after field *)
Theorem C11_generic_interpreter :
  (forall e, genc [] e = Ok [] /\ gsize [] e = Ok 0) /\
  (forall name t r e,
     genc ((name, t) :: r) e = (a <- enc_field t (e name) ;; b <- genc r e ;; Ok (a ++ b)) /\
     gsize ((name, t) :: r) e = (a <- size_field t (e name) ;; b <- gsize r e ;; Ok (a + b))) /\
  (forall n, enc_field FU64 (Some (VU n)) = Ok (enc_uint n) /\ size_field FU64 (Some (VU n)) = Ok (size_uint n)) /\
  (forall v, enc_field FBytes (Some (VB v)) = Ok (enc_buffer v) /\ size_field FBytes (Some (VB v)) = Ok (size_buffer v)) /\
  (forall l, enc_field FNodes (Some (VNs l)) = enc_nodes l /\ size_field FNodes (Some (VNs l)) = Ok (size_nodes l)) /\
  (forall h, enc_field FHash32 (Some (VH h)) = (if Nat.eqb (length h) 32 then Ok h else Err EncodingErr) /\
             size_field FHash32 (Some (VH h)) = Ok 32) /\
  (forall t, enc_field t None = Panic MISMATCH /\ size_field t None = Panic MISMATCH) /\
  (forall s v, enc_field (FOther s) v = Panic MISMATCH /\ size_field (FOther s) v = Panic MISMATCH) /\
  (forall x, build_node (env_node x) = Some x) /\ (forall x, build_req_block (env_req_block x) = Some x) /\
  (forall x, build_req_seek (env_req_seek x) = Some x) /\ (forall x, build_req_upgrade (env_req_upgrade x) = Some x) /\
  (forall x, build_data_block (env_data_block x) = Some x) /\ (forall x, build_data_hash (env_data_hash x) = Some x) /\
  (forall x, build_data_seek (env_data_seek x) = Some x) /\ (forall x, build_data_upgrade (env_data_upgrade x) = Some x).
Proof. exact generic_interpreter_spec. Qed.

(* non-vacuity / sensitivity: a description that lists the two fields of DataHash in the other order is refuted *)
Example C11_ex_swapped_source_refuted :
  ~ is_codec env_data_hash build_data_hash enc_data_hash size_data_hash dec_data_hash
      {| cd_size := [("index", FU64); ("nodes", FNodes)]; cd_enc := [("nodes", FNodes); ("index", FU64)];
         cd_dec_types := [FU64; FNodes]; cd_ctor := ["index"; "nodes"] |}%string.
Proof. exact swapped_fields_refuted. Qed.

(* non-vacuity: concrete values meet the premises, and a concrete prefix is refused *)
Example C11_ex_ok :
  data_upgrade_ok (mkDataUpgrade 0 18446744073709551615
                     [mkNode 253 65536 (repeat 7 32)] [] (repeat 255 64)) = true
  /\ node_ok (mkNode 4294967296 0 (repeat 0 32)) = true.
Proof. split; vm_compute; reflexivity. Qed.
Example C11_ex_prefix :
  exists b, enc_node (mkNode 300 5 (repeat 9 32)) = Ok b /\ dec_node (removelast b) = Err EncodingErr.
Proof. eexists. split; vm_compute; reflexivity. Qed.

Print Assumptions C11_node.
Print Assumptions C11_request_block.
Print Assumptions C11_request_seek.
Print Assumptions C11_request_upgrade.
Print Assumptions C11_data_block.
Print Assumptions C11_data_hash.
Print Assumptions C11_data_seek.
Print Assumptions C11_data_upgrade.
Print Assumptions C11_node_bad_hash.
Print Assumptions C11_uint_spec.
Print Assumptions C11_source_codecs.
Print Assumptions C11_tie_meaning.
Print Assumptions C11_generic_interpreter.

(* ADDED IN THE THIRD ROUND: exactness in every reachable state with clears and reopens (C08_has_exact_in_every_state), after crash recovery
   (C08_exact_after_crash_recovery), replay over any bit mixture with set and drop updates; source-derived page constants.
   ---- header of the earlier rounds: ---- *)
(* C08 — has() and contiguous_length are exact (pinned statements; proofs in BitfieldFacts.v,
   ContigReplay.v, ContigBridge.v). All statements are for unbounded indices: any number of
   32768-bit pages, ranges straddling any number of page edges.
   Proved: (1) the bitfield after set_range / apply answers exactly the range semantics, so has(i) is
   true exactly for the indices set and not cleared; (2) every page whose content changed is marked
   dirty, and pages not marked dirty serialise to the same bytes, so a flush writes every changed page;
   (3) page (de)serialisation is exact at every page index; (4) the contiguous-length hint maintained by
   the crate's incremental rule is the smallest index not held, after every set/drop update, including
   the termination of the skip loop within its fuel; (5) replaying the oplog entries of a crashed core over
   ANY mixture of old and new bitfield pages yields the exact bitfield and the exact contiguous length.
   Partial: that the disk really holds such a mixture after a crash (flush schedule) and that has() is false
   beyond the length (no append ever sets a bit >= length) are established by the correspondence runs. *)
From HC Require Import FixedWords FixedWordsFacts FixedWordsBytes FixedWordsDyn FixedWordsDyn2 FixedWordsIndex FixedWordsIndexTie FixedWordsEx.
From HC Require Import SoundCoreLib SoundCore ReplicaDisk1.
From HC Require Import CrashClear1.
From HC Require Import Base Codec Crypto Storage Bitfield Oplog Merkle SrcConsts ConstTie ConstTieBits.
From HC Require Import Base NMap Storage Bitfield Core BitfieldFacts ContigBridge.
From HC Require ContigReplay.
From HC Require Import Core Refine ClearRefine Unified1 Corollaries CrashCore1.

Theorem C08_has_after_update : forall b u i,
  bf_get (bf_apply b u) i =
  if (bu_start u <=? i) && (i <? bu_start u + bu_length u) then negb (bu_drop u) else bf_get b i.
Proof. exact bf_get_apply. Qed.

Theorem C08_has_after_set_range : forall b s l v i,
  bf_get (bf_set_range b s l v) i = if (s <=? i) && (i <? s + l) then v else bf_get b i.
Proof. exact bf_get_set_range. Qed.

Theorem C08_changed_pages_are_dirty : forall b s l v i,
  bf_get (bf_set_range b s l v) i <> bf_get b i -> In (i / PAGE_BITS) (bf_dirty (bf_set_range b s l v)).
Proof. exact bf_dirty_set_range_sound. Qed.

Theorem C08_clean_pages_unchanged : forall b s l v p,
  ~ In p (bf_dirty (bf_set_range b s l v)) ->
  page_bytes (bf_bits (bf_set_range b s l v)) p = page_bytes (bf_bits b) p.
Proof. exact page_bytes_clean_set_range. Qed.

Theorem C08_page_bytes_exact : forall m p j,
  j < PAGE_BITS -> page_bit (page_bytes m p) j = nm_mem (p * PAGE_BITS + j) m.
Proof. exact page_bit_page_bytes. Qed.

Theorem C08_pages_reload_exactly : forall m n i,
  nm_mem i (load_bits nm_empty 0 (concat (map (page_bytes m) (nrange 0 n))))
  = (i <? N.of_nat n * PAGE_BITS) && nm_mem i m.
Proof. exact load_page_bytes. Qed.

Theorem C08_contiguous_length_exact : forall b u c,
  exact_contig b c -> 0 < bu_length u ->
  exact_contig (bf_apply b u) (update_contig c (bf_apply b u) u).
Proof. exact update_contig_exact. Qed.

Theorem C08_contiguous_length_unique : forall b c c', exact_contig b c -> exact_contig b c' -> c = c'.
Proof. exact exact_contig_unique. Qed.

Theorem C08_contiguous_initially : exact_contig bf_empty 0.
Proof. exact exact_contig_empty. Qed.

(* crash recovery: the model's replay loop (Core.replay_entries) over a disk bitfield d that is any
   bit-wise mixture of the pre-crash memory bitfield b and its final value *)
Theorem C08_replay_exact : forall cr tf es t d h t' b' h' b,
  replay_entries cr tf (t, d, h) es = Ok (t', b', h') ->
  drops_nonempty (updates_of es) ->
  exact_contig b (hd_contig h) ->
  (forall i, bf_get d i = bf_get b i \/ bf_get d i = bf_get (fold_left bf_apply (updates_of es) b) i) ->
  (forall i, bf_get b' i = bf_get (fold_left bf_apply (updates_of es) b) i) /\ exact_contig b' (hd_contig h').
Proof. exact replay_entries_contig_exact. Qed.

(* non-vacuity *)
Example C08_ex :
  let b := bf_apply bf_empty (mkBfUpdate false 0 40000) in
  let b2 := bf_apply b (mkBfUpdate true 32760 20) in
  bf_get b2 32759 = true /\ bf_get b2 32768 = false /\ bf_get b2 32780 = true /\ bf_get b2 40000 = false /\
  update_contig 40000 b2 (mkBfUpdate true 32760 20) = 32760.
Proof. vm_compute. repeat split; reflexivity. Qed.

(* Tie to the source, regenerated on every run: the crate's named constants (parsed from /repo/src by
   tools/srcconsts.py into SrcConsts.v) are the values the model uses; `tied None _` (constant renamed away) is True. *)
Theorem C08_source_constants :
  tied src_DYNAMIC_BITFIELD_PAGE_SIZE PAGE_BITS /\ tied src_FIXED_BITFIELD_BITS_LENGTH PAGE_BITS /\
  tied src_FIXED_BITFIELD_BYTES_LENGTH PAGE_BYTES /\ tied (option_map (N.mul 4) src_FIXED_BITFIELD_LENGTH) PAGE_BYTES.
Proof. exact source_bitfield_constants_are_the_models. Qed.

Theorem C08_has_exact_in_every_state :
  forall (cr : crypto) (c : core) (d : disk) (bs : list bytes) (cl : N -> bool),
         FInv cr c d bs cl ->
         (forall i : N, core_has c i = held (N.of_nat (Datatypes.length bs)) cl i) /\
         (forall i : N, N.of_nat (Datatypes.length bs) <= i -> core_has c i = false) /\
         i_contiguous (core_info c) = spec_contig bs cl.
Proof. exact has_exact_everywhere. Qed.

Theorem C08_replay_over_crash_store_exact :
  forall (cr : crypto) (bs : list bytes) (tf : file) (l : list entry) (t : mtree) 
           (d : bitfield) (h : header) (t' : mtree) (b' : bitfield) (h' : header) (kf n : N),
         replay_entries cr tf (t, d, h) l = Ok (t', b', h') ->
         Reopen.echain cr bs kf l n ->
         hd_contig h = kf ->
         (forall i : N, i < kf -> bf_get d i = true) ->
         (forall i : N, n <= i -> bf_get d i = false) ->
         (forall i : N, bf_get b' i = (i <? n)) /\ hd_contig h' = n /\ b' = fold_left bf_apply (updates_of l) d.
Proof. exact replay_bitfield. Qed.

Theorem C08_exact_after_crash_recovery :
  forall (cr : crypto) (c : core) (d : disk) (bs : list bytes) (cl : N -> bool),
         YInv cr c d bs cl -> obs_cleared c d bs cl.
Proof. exact YInv_observations. Qed.

Theorem C08_replay_over_any_bit_mixture_with_clears :
  forall (cr : crypto) (tf : file) (l : list entry) (t : mtree) (f : file) (h : header) 
           (t' : mtree) (b' : bitfield) (h' : header) (n : N) (cl : N -> bool),
         replay_entries cr tf (t, bf_open f, h) l = Ok (t', b', h') ->
         drops_nonempty (updates_of l) ->
         BfY f (updates_of l) (hd_contig h) n cl ->
         (forall i : N, bf_get b' i = held n cl i) /\
         exact_contig b' (hd_contig h') /\ b' = fold_left bf_apply (updates_of l) (bf_open f).
Proof. exact replay_bitfield_Y. Qed.

Theorem C08_replica_has_exact :
  forall (cr : crypto) (bs : list bytes) (c : core) (d : disk) (H : N -> bool) (i : N),
         RDInv cr bs c d H -> core_has c i = H i.
Proof. exact RD_has. Qed.

Theorem C08_replica_contiguous_exact :
  forall (cr : crypto) (bs : list bytes) (c : core) (d : disk) (H : N -> bool),
         RDInv cr bs c d H ->
         (forall i : N, i < i_contiguous (core_info c) -> H i = true) /\ H (i_contiguous (core_info c)) = false.
Proof. exact RD_contiguous. Qed.

(* Tie of update_contiguous_length to the source, regenerated on every run: tools/srcfns.py parses src/core.rs
   update_contiguous_length — `let end = start + length`, in the `if bitfield_update.drop` branch the condition and the value
   assigned to `c` (`c > bitfield_update.start`, `bitfield_update.start`; an earlier, since repaired, defect was a wrong condition
   here), in the other branch the condition (`c <= end && c >= bitfield_update.start`, `end` inlined) and the value from which the
   `while bitfield.get(c)` scan starts — into SrcFns.v as expressions over named variables (FnDesc.v; meaning pinned by
   C06_source_functions_meaning). `tied_fn None _` (not found in the recognisable form) is True. For every expression that was
   found: the model's update_contig — the function C08_contiguous_length_exact and the replay theorems are about — on a drop /
   on a set takes exactly the source's decision with the source's value, for all (unbounded) arguments. *)
From HC Require Import FnDesc SrcFns.
From HC Require FnTieContig.
From Coq Require FMapPositive.
Local Open Scope string_scope.
Local Open Scope list_scope.
Local Open Scope N_scope.

(* the running value `c` (initially header.hints.contiguous_length) and the two fields of the update *)
Definition C08_env_contig (c start length : N) : string -> N :=
  env_of [("c", c); ("bitfield_update.start", start); ("bitfield_update.length", length)].

Theorem C08_source_functions :
  tied_fn src_contig_end (fun e => forall c start length, reval (C08_env_contig c start length) e = start + length) /\
  tied_fn src_contig_drop_cond (fun dc => tied_fn src_contig_drop_value (fun dv =>
    forall c b start length, let env := C08_env_contig c start length in
      update_contig c b (mkBfUpdate true start length) = if truthy (reval env dc) then reval env dv else c)) /\
  tied_fn src_contig_set_cond (fun sc => tied_fn src_contig_set_from (fun sf =>
    forall c b start length, let env := C08_env_contig c start length in
      update_contig c b (mkBfUpdate false start length) =
      if truthy (reval env sc) then bf_skip_set (S (FMapPositive.PositiveMap.cardinal (bf_bits b))) b (reval env sf) else c)).
Proof. exact FnTieContig.source_contig_functions_are_the_models. Qed.

Theorem C08_words_get_is_the_bit :
  forall (p : page) (i : N), i < 32768 -> fw_get p i = Ok (fw_bits p i).
Proof. exact fw_get_bits. Qed.

Theorem C08_words_set_range_exact_and_changed_flag :
  forall (p : page) (start length : N) (v : bool),
         page_wf p ->
         start + length <= 32768 ->
         exists p' : page,
           fw_set_range p start length v = Ok (p', fbits_differ (fw_bits p) start (N.to_nat length) v) /\
           page_wf p' /\
           pg_dirty p' = pg_dirty p /\
           (Forall w32 (pg_words p) -> Forall w32 (pg_words p')) /\
           (forall k : N, fw_bits p' k = (if in_range start length k then v else fw_bits p k)).
Proof. exact fw_set_range_spec. Qed.

Theorem C08_words_changed_flag_is_bits_differ :
  forall (p : page) (start length : N) (v : bool) (m : nmap unit) (base : N),
         page_wf p ->
         start + length <= 32768 ->
         (forall k : N, k < 32768 -> nm_mem (base + k) m = fw_bits p k) ->
         exists p' : page,
           fw_set_range p start length v = Ok (p', bits_differ m (base + start) (N.to_nat length) v) /\
           page_wf p' /\
           pg_dirty p' = pg_dirty p /\
           (Forall w32 (pg_words p) -> Forall w32 (pg_words p')) /\
           (forall k : N, fw_bits p' k = (if in_range start length k then v else fw_bits p k)).
Proof. exact fw_set_range_bits_differ. Qed.

Theorem C08_words_set_range_panics_beyond_page :
  forall (p : page) (start length : N) (v : bool),
         0 < length -> 32768 < start + length -> exists s : string, fw_set_range p start length v = Panic s.
Proof. exact fw_set_range_panics. Qed.

Theorem C08_words_page_bytes :
  forall (p : page) (m : nmap unit) (pi : N),
         page_wf p ->
         (forall k : N, k < 32768 -> nm_mem (pi * 32768 + k) m = fw_bits p k) ->
         fw_to_bytes p = page_bytes m pi.
Proof. exact fw_to_bytes_page_bytes. Qed.

Theorem C08_words_from_data_loads_page :
  forall (pi : N) (data : bytes) (k : N),
         bytes_ok data = true ->
         len data mod 4 = 0 ->
         fw_bits (fw_from_data (pi * 4096) data) k =
         (k <? 32768) && nm_mem (pi * 32768 + k) (load_bits nm_empty 0 data).
Proof. exact fw_from_data_load_bits. Qed.

Theorem C08_words_from_to_bytes :
  forall (p : page) (k : N), page_wf p -> fw_bits (fw_from_data 0 (fw_to_bytes p)) k = fw_bits p k.
Proof. exact fw_from_to_bytes. Qed.

Theorem C08_dynamic_get_refines :
  forall (d : dyn) (i : N), dyn_inv d -> dw_get d i = Ok (bf_get (dw_abs d) i).
Proof. exact dw_get_abs. Qed.

Theorem C08_dynamic_set_range_refines :
  forall (d : dyn) (start length : N) (v : bool),
         dyn_inv d ->
         start mod 32768 + length <= u64_max ->
         exists d' : dyn,
           dw_set_range d start length v = Ok d' /\
           dyn_inv d' /\
           (forall k : N, bf_get (dw_abs d') k = bf_get (bf_set_range (dw_abs d) start length v) k) /\
           bf_dirty (dw_abs d') = bf_dirty (bf_set_range (dw_abs d) start length v).
Proof. exact dw_set_range_refines. Qed.

Theorem C08_dynamic_flush_refines :
  forall d : dyn,
         dyn_inv d ->
         (forall id : N, In id (dw_unflushed d) -> id * 4096 <= u64_max) ->
         exists (d' : dyn) (ws : list (N * bytes)),
           dw_flush d = Ok (d', ws) /\
           map (fun w : N * bytes => SW Bitfield (fst w) (snd w)) ws = snd (bf_flush (dw_abs d)) /\
           dyn_inv d' /\
           dw_unflushed d' = [] /\
           dw_biggest d' = dw_biggest d /\
           (forall k : N, bf_get (dw_abs d') k = bf_get (fst (bf_flush (dw_abs d))) k) /\
           bf_dirty (dw_abs d') = bf_dirty (fst (bf_flush (dw_abs d))).
Proof. exact dw_flush_refines. Qed.

Theorem C08_dynamic_open_refines :
  forall f : file,
         bytes_ok (f_content f) = true ->
         let d := dw_open (f_len f) (f_content f) in
         dyn_inv d /\
         (forall i : N, bf_get (dw_abs d) i = bf_get (bf_open f) i) /\
         bf_dirty (dw_abs d) = bf_dirty (bf_open f).
Proof. exact dw_open_refines. Qed.

Theorem C08_dynamic_index_of_true_refines :
  forall (d : dyn) (pos : N), dyn_inv d -> dw_index_of d true pos = Ok (bf_index_of_true (dw_abs d) pos).
Proof. exact dw_index_of_true_abs. Qed.

Theorem C08_dynamic_last_index_of_true_refines :
  forall (d : dyn) (pos : N),
         dyn_inv d -> dw_last_index_of d true pos = Ok (bf_last_index_of_true (dw_abs d) pos).
Proof. exact dw_last_index_of_true_abs. Qed.

Theorem C08_dynamic_index_of_false_characterised :
  forall (d : dyn) (pos : N),
         dyn_inv d ->
         exists o : option N,
           dw_index_of d false pos = Ok o /\
           match o with
           | Some j =>
               pos <= j /\
               bf_get (dw_abs d) j = false /\ (forall k : N, pos <= k < j -> bf_get (dw_abs d) k = true)
           | None =>
               forall k : N,
               pos <= k < (N.max (pos / 32768) (dw_biggest d) + 1) * 32768 -> bf_get (dw_abs d) k = true
           end.
Proof. exact dw_index_of_false_spec. Qed.

Theorem C08_dynamic_index_of_false_incomplete :
  exists (d : dyn) (pos j : N),
           dyn_inv d /\ pos <= j /\ bf_get (dw_abs d) j = false /\ dw_index_of d false pos = Ok None.
Proof. exact dw_index_of_false_complete_refuted. Qed.

Theorem C08_dynamic_last_index_of_false_panics :
  exists (d : dyn) (pos : N) (s : string),
           dyn_inv d /\
           (forall k : N, k <= pos -> bf_get (dw_abs d) k = true) /\ dw_last_index_of d false pos = Panic s.
Proof. exact dw_last_index_of_false_no_panic_refuted. Qed.

Print Assumptions C08_has_after_update.
Print Assumptions C08_has_after_set_range.
Print Assumptions C08_changed_pages_are_dirty.
Print Assumptions C08_clean_pages_unchanged.
Print Assumptions C08_page_bytes_exact.
Print Assumptions C08_pages_reload_exactly.
Print Assumptions C08_contiguous_length_exact.
Print Assumptions C08_contiguous_length_unique.
Print Assumptions C08_contiguous_initially.
Print Assumptions C08_replay_exact.
Print Assumptions C08_source_constants.
Print Assumptions C08_has_exact_in_every_state.
Print Assumptions C08_replay_over_crash_store_exact.
Print Assumptions C08_exact_after_crash_recovery.
Print Assumptions C08_replay_over_any_bit_mixture_with_clears.
Print Assumptions C08_replica_has_exact.
Print Assumptions C08_replica_contiguous_exact.
Print Assumptions C08_source_functions.
Print Assumptions C08_words_get_is_the_bit.
Print Assumptions C08_words_set_range_exact_and_changed_flag.
Print Assumptions C08_words_changed_flag_is_bits_differ.
Print Assumptions C08_words_set_range_panics_beyond_page.
Print Assumptions C08_words_page_bytes.
Print Assumptions C08_words_from_data_loads_page.
Print Assumptions C08_words_from_to_bytes.
Print Assumptions C08_dynamic_get_refines.
Print Assumptions C08_dynamic_set_range_refines.
Print Assumptions C08_dynamic_flush_refines.
Print Assumptions C08_dynamic_open_refines.
Print Assumptions C08_dynamic_index_of_true_refines.
Print Assumptions C08_dynamic_last_index_of_true_refines.
Print Assumptions C08_dynamic_index_of_false_characterised.
Print Assumptions C08_dynamic_index_of_false_incomplete.
Print Assumptions C08_dynamic_last_index_of_false_panics.

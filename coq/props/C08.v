(* C08 — placeholder *)
From HC Require Import Base.

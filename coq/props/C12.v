(* C12 — placeholder *)
From HC Require Import Base.

(* ADDED IN THE THIRD ROUND (ReadOnly.v): make_read_only end to end from any append-only writer state — exact oplog file, observations, reopen read-only,
   second call, every cut, and the regression of the repaired defect D25 (C12_secret_gone_after_any_completed_call). Since that repair the call
   rewrites both slots also on a read-only instance; the sentence 'make_read_only on such a core returns false and changes nothing' below now
   reads: returns false and changes no observation (C12_second_call_changes_no_observation).
   ---- header of the earlier rounds: ---- *)
(* C12 — secret key hygiene (pinned statements; proofs in CoreFacts.v).
   Proved for every state: append on a core without secret key returns NotWritable and changes NOTHING (same
   core, same disk, empty journal delta, no event); make_read_only on such a core returns false and changes
   nothing; on a writer it erases the secret from the in-memory key pair and header whatever the outcome;
   and — secret-freedom as non-interference — the whole outcome of make_read_only (new core, every byte of
   the four files, journal, events, result) is the same for any two secret keys: so no byte it writes can
   depend on the key. The rewritten header slots encode the key pair as the public key followed by a zero byte.
   Partial: 'no file contains the key' additionally needs that the bytes written BEFORE (tree, bitfield, data,
   entries) never contained it; the model never writes the secret anywhere but the header (by inspection of
   enc_entry / node / page codecs); tools/c12.py searches the raw bytes of all four files for every 16-byte
   window of the key and enumerates all crash points inside make_read_only. *)
From HC Require Import KeyIndepWf KeyIndepWfEx KeyIndepReplica.
From HC Require Import KeyIndep KeyIndepHist KeyIndepEx.
From HC Require Import SoundCoreLib SoundCore ReplicaDisk1 ReplicaMiscB.
From HC Require Import ClearRefine Unified1 CrashClear1 ReadOnlyClear.
From HC Require Import Base NMap Codec Crypto FlatTree Storage Bitfield Oplog Merkle Core CoreFacts.
From HC Require Import Refine Reopen ReadOnly.

Theorem C12_not_writable : forall cr f batch c w,
  kp_secret (c_keypair c) = None -> core_append cr f batch c w = (c, w, Err NotWritable).
Proof. exact append_not_writable. Qed.

(* Since the repair of finding D25 (known_findings.txt) make_read_only rewrites both header slots also on an instance that
   is already read-only; it REPORTS whether the instance was writable (a second call reports false), and whatever the state
   and the outcome no secret remains in memory. That a second call changes no observation: C12_second_call_* below. *)
Theorem C12_call_reports_writability : forall cr c w c' w' b,
  core_make_read_only cr c w = (c', w', Ok b) ->
  b = match kp_secret (c_keypair c) with Some _ => true | None => false end.
Proof. exact make_read_only_result. Qed.

Theorem C12_secret_erased_in_every_case : forall cr c w c' w' r,
  core_make_read_only cr c w = (c', w', r) ->
  kp_secret (c_keypair c') = None /\ kp_secret (hd_keypair (c_header c')) = None.
Proof. exact make_read_only_erases_any. Qed.

Theorem C12_secret_erased : forall cr c w c' w' r sk,
  kp_secret (c_keypair c) = Some sk ->
  core_make_read_only cr c w = (c', w', r) ->
  kp_secret (c_keypair c') = None /\ kp_secret (hd_keypair (c_header c')) = None.
Proof. exact make_read_only_erases. Qed.

Theorem C12_secret_independent : forall cr c w s1 s2,
  core_make_read_only cr (with_secret c (Some s1)) w = core_make_read_only cr (with_secret c (Some s2)) w.
Proof. exact make_read_only_secret_independent. Qed.

Theorem C12_header_without_secret : forall h,
  kp_secret (hd_keypair h) = None ->
  enc_header h =
    [1; 6] ++ hd_key h ++ ([0; 0; 1] ++ [0] ++ hd_ns h ++ hd_mpk h) ++
    (enc_buffer (kp_public (hd_keypair h)) ++ [0]) ++
    [0] ++ enc_header_tree (hd_tree h) ++ [0] ++ enc_uint (hd_contig h).
Proof. exact enc_header_secret_none. Qed.

Theorem C12_make_read_only_correct :
  forall cr : crypto,
         OplogFacts.crc_ok cr ->
         (forall x : bytes, Datatypes.length (cr_hash cr x) = 32%nat) ->
         (forall x : bytes, all_zero (cr_hash cr x) = false) ->
         (forall x : bytes, bytes_ok (cr_hash cr x) = true) ->
         forall (c : core) (d : disk) (j : list sop) (ev : list event) (bs : list bytes),
         DInv cr c d bs ->
         let bits := ol_bits (c_oplog c) in
         exists d' : disk,
           core_make_read_only cr c {| w_disk := d; w_journal := j; w_events := ev |} =
           (ro_core c, {| w_disk := d'; w_journal := rev (ro_ops cr c) ++ j; w_events := ev |},
            Ok (i_writeable (core_info c))) /\
           apply_sops d (ro_ops cr c) = Some d' /\
           DInv cr (ro_core c) d' bs /\
           d_data d' = d_data d /\
           f_content (d_oplog d') =
           slot_bytes cr (negb (fst bits)) (ro_header c) ++ slot_bytes cr (negb (snd bits)) (ro_header c) /\
           f_len (d_oplog d') = ENTRIES_OFFSET.
Proof. exact make_read_only_correct. Qed.

Theorem C12_make_read_only_observations :
  forall cr : crypto,
         OplogFacts.crc_ok cr ->
         (forall x : bytes, Datatypes.length (cr_hash cr x) = 32%nat) ->
         (forall x : bytes, all_zero (cr_hash cr x) = false) ->
         (forall x : bytes, bytes_ok (cr_hash cr x) = true) ->
         forall (c : core) (d : disk) (j : list sop) (ev : list event) (bs : list bytes),
         DInv cr c d bs ->
         exists (c' : core) (w' : world),
           core_make_read_only cr c {| w_disk := d; w_journal := j; w_events := ev |} =
           (c', w', Ok (i_writeable (core_info c))) /\
           w_events w' = ev /\
           DInv cr c' (w_disk w') bs /\
           same_reads c d c' (w_disk w') /\
           i_writeable (core_info c') = false /\
           c_keypair c' = {| kp_public := kp_public (c_keypair c); kp_secret := None |} /\
           kp_secret (hd_keypair (c_header c')) = None /\
           ol_entries_len (c_oplog c') = 0 /\
           ol_entries_bytes (c_oplog c') = 0 /\
           f_len (d_oplog (w_disk w')) = 8192 /\
           f_content (d_oplog (w_disk w')) = ro_oplog_file cr c /\
           (forall (f : option bool) (batch : list bytes) (w : world),
            core_append cr f batch c' w = (c', w, Err NotWritable)).
Proof. exact make_read_only_observations. Qed.

Theorem C12_second_call_changes_no_observation :
  forall cr : crypto,
         OplogFacts.crc_ok cr ->
         (forall x : bytes, Datatypes.length (cr_hash cr x) = 32%nat) ->
         (forall x : bytes, all_zero (cr_hash cr x) = false) ->
         (forall x : bytes, bytes_ok (cr_hash cr x) = true) ->
         forall (c : core) (d : disk) (j : list sop) (ev : list event) (bs : list bytes),
         DInv cr c d bs ->
         exists (c1 : core) (w1 : world) (c2 : core) (w2 : world),
           core_make_read_only cr c {| w_disk := d; w_journal := j; w_events := ev |} =
           (c1, w1, Ok (i_writeable (core_info c))) /\
           core_make_read_only cr c1 w1 = (c2, w2, Ok false) /\
           w_events w2 = ev /\
           DInv cr c2 (w_disk w2) bs /\
           same_reads c d c2 (w_disk w2) /\
           i_writeable (core_info c2) = false /\
           kp_secret (c_keypair c2) = None /\
           kp_secret (hd_keypair (c_header c2)) = None /\
           ol_entries_len (c_oplog c2) = 0 /\
           ol_entries_bytes (c_oplog c2) = 0 /\
           f_len (d_oplog (w_disk w2)) = 8192 /\ f_content (d_oplog (w_disk w2)) = ro_oplog_file cr c1.
Proof. exact make_read_only_twice. Qed.

Theorem C12_reopens_read_only :
  forall cr : crypto,
         OplogFacts.crc_ok cr ->
         (forall x : bytes, Datatypes.length (cr_hash cr x) = 32%nat) ->
         (forall x : bytes, all_zero (cr_hash cr x) = false) ->
         (forall x : bytes, bytes_ok (cr_hash cr x) = true) ->
         forall (c : core) (d : disk) (j : list sop) (ev : list event) (bs : list bytes),
         DInv cr c d bs ->
         exists (c' : core) (w' : world) (c'' : core),
           core_make_read_only cr c {| w_disk := d; w_journal := j; w_events := ev |} =
           (c', w', Ok (i_writeable (core_info c))) /\
           core_open cr None true (w_disk w') = (w_disk w', [], Ok c'') /\
           DInv cr c'' (w_disk w') bs /\
           c_keypair c'' = {| kp_public := kp_public (c_keypair c); kp_secret := None |} /\
           hd_keypair (c_header c'') = {| kp_public := kp_public (c_keypair c); kp_secret := None |} /\
           i_writeable (core_info c'') = false /\
           same_reads c d c'' (w_disk w') /\
           (forall (f : option bool) (batch : list bytes) (w : world),
            core_append cr f batch c'' w = (c'', w, Err NotWritable)) /\
           (forall (j2 : list sop) (ev2 : list event),
            exists (c3 : core) (w3 : world),
              core_make_read_only cr c'' {| w_disk := w_disk w'; w_journal := j2; w_events := ev2 |} =
              (c3, w3, Ok false) /\
              DInv cr c3 (w_disk w3) bs /\
              same_reads c d c3 (w_disk w3) /\
              i_writeable (core_info c3) = false /\
              f_len (d_oplog (w_disk w3)) = 8192 /\ f_content (d_oplog (w_disk w3)) = ro_oplog_file cr c'').
Proof. exact read_only_reopen. Qed.

Theorem C12_open_with_key_pair_rejected :
  forall (cr : crypto) (kp : keypair) (d : disk),
         core_open cr (Some kp) true d = (d, [], Err BadArgument).
Proof. exact open_with_keypair_rejected. Qed.

Theorem C12_oplog_file_after :
  forall cr : crypto,
         OplogFacts.crc_ok cr ->
         (forall x : bytes, Datatypes.length (cr_hash cr x) = 32%nat) ->
         (forall x : bytes, all_zero (cr_hash cr x) = false) ->
         (forall x : bytes, bytes_ok (cr_hash cr x) = true) ->
         forall (c : core) (d : disk) (j : list sop) (ev : list event) (bs : list bytes),
         DInv cr c d bs ->
         exists (c' : core) (w' : world),
           core_make_read_only cr c {| w_disk := d; w_journal := j; w_events := ev |} =
           (c', w', Ok (i_writeable (core_info c))) /\
           f_len (d_oplog (w_disk w')) = 8192 /\
           f_content (d_oplog (w_disk w')) = ro_oplog_file cr c /\
           d_data (w_disk w') = d_data d /\
           (forall s : option bytes, ro_oplog_file cr c = ro_oplog_file cr (with_secret c s)).
Proof. exact read_only_oplog_file. Qed.

Theorem C12_crash_inside_recovers :
  forall cr : crypto,
         OplogFacts.crc_ok cr ->
         (forall x : bytes, Datatypes.length (cr_hash cr x) = 32%nat) ->
         (forall x : bytes, all_zero (cr_hash cr x) = false) ->
         (forall x : bytes, bytes_ok (cr_hash cr x) = true) ->
         forall (c : core) (d : disk) (bs : list bytes) (sk : bytes) (k : nat),
         DInv cr c d bs ->
         kp_secret (c_keypair c) = Some sk ->
         let np := (Datatypes.length (page_ops (c_bitfield c)) + Datatypes.length (node_ops (c_tree c)))%nat in
         exists dk : disk,
           apply_sops d (firstn k (ro_ops cr c)) = Some dk /\
           (exists (dk' : disk) (ops : list sop) (ck : core),
              core_open cr None true dk = (dk', ops, Ok ck) /\
              d_tree dk' = d_tree dk /\
              d_data dk' = d_data dk /\
              d_bitfield dk' = d_bitfield dk /\
              WInv cr ck dk' bs /\
              same_reads c d ck dk' /\
              hd_keypair (c_header ck) = c_keypair ck /\
              kp_public (c_keypair ck) = kp_public (c_keypair c) /\
              ((k <= np)%nat -> c_keypair ck = c_keypair c /\ i_writeable (core_info ck) = true) /\
              ((np < k)%nat ->
               c_keypair ck = {| kp_public := kp_public (c_keypair c); kp_secret := None |} /\
               i_writeable (core_info ck) = false)).
Proof. exact make_read_only_crash. Qed.

Theorem C12_secret_gone_after_any_completed_call :
  forall cr : crypto,
         OplogFacts.crc_ok cr ->
         (forall x : bytes, Datatypes.length (cr_hash cr x) = 32%nat) ->
         (forall x : bytes, all_zero (cr_hash cr x) = false) ->
         (forall x : bytes, bytes_ok (cr_hash cr x) = true) ->
         forall (c : core) (d : disk) (bs : list bytes) (sk : bytes) (k : nat),
         DInv cr c d bs ->
         kp_secret (c_keypair c) = Some sk ->
         exists dk : disk,
           apply_sops d (firstn k (ro_ops cr c)) = Some dk /\
           (exists (dk' : disk) (ops : list sop) (ck : core),
              core_open cr None true dk = (dk', ops, Ok ck) /\
              same_reads c d ck dk' /\
              (forall (j : list sop) (ev : list event),
               exists (c2 : core) (d2 : disk),
                 core_make_read_only cr ck {| w_disk := dk'; w_journal := j; w_events := ev |} =
                 (c2, {| w_disk := d2; w_journal := rev (ro_ops cr ck) ++ j; w_events := ev |},
                  Ok (i_writeable (core_info ck))) /\
                 f_len (d_oplog d2) = 8192 /\
                 f_content (d_oplog d2) = ro_oplog_file cr ck /\
                 (forall s : option bytes, ro_oplog_file cr ck = ro_oplog_file cr (with_secret ck s)) /\
                 DInv cr c2 d2 bs /\
                 same_reads c d c2 d2 /\
                 i_writeable (core_info c2) = false /\
                 kp_secret (c_keypair c2) = None /\
                 kp_secret (hd_keypair (c_header c2)) = None /\
                 kp_public (c_keypair c2) = kp_public (c_keypair c))).
Proof. exact secret_gone_after_any_completed_call. Qed.

Theorem C12_with_clears_make_read_only :
  forall cr : crypto,
         (forall x : bytes, Datatypes.length (cr_hash cr x) = 32%nat) ->
         (forall x : bytes, all_zero (cr_hash cr x) = false) ->
         (forall x : bytes, bytes_ok (cr_hash cr x) = true) ->
         forall (c : core) (d : disk) (j : list sop) (ev : list event) (bs : list bytes) (cl : N -> bool),
         YInv cr c d bs cl ->
         let n := N.of_nat (Datatypes.length bs) in
         exists d' : disk,
           core_make_read_only cr c {| w_disk := d; w_journal := j; w_events := ev |} =
           (ro_core c, {| w_disk := d'; w_journal := rev (ro_ops cr c) ++ j; w_events := ev |},
            Ok (i_writeable (core_info c))) /\
           apply_sops d (ro_ops cr c) = Some d' /\
           YInv cr (ro_core c) d' bs cl /\
           d_data d' = d_data d /\
           f_content (d_oplog d') = ro_oplog_file cr c /\
           f_len (d_oplog d') = ENTRIES_OFFSET /\
           (forall i : N, fbit (d_bitfield d') i = held n cl i) /\
           lookups cr tE (d_tree d') bs n /\
           (forall k : nat,
            exists dk : disk,
              apply_sops d (firstn k (ro_ops cr c)) = Some dk /\
              YDisk cr (if (k <=? ro_np c)%nat then c_keypair c else ro_keypair c) dk bs cl).
Proof. exact make_read_only_Y. Qed.

Theorem C12_with_clears_observations :
  forall cr : crypto,
         (forall x : bytes, Datatypes.length (cr_hash cr x) = 32%nat) ->
         (forall x : bytes, all_zero (cr_hash cr x) = false) ->
         (forall x : bytes, bytes_ok (cr_hash cr x) = true) ->
         forall (c : core) (d : disk) (j : list sop) (ev : list event) (bs : list bytes) (cl : N -> bool),
         YInv cr c d bs cl ->
         exists (c' : core) (w' : world),
           core_make_read_only cr c {| w_disk := d; w_journal := j; w_events := ev |} =
           (c', w', Ok (i_writeable (core_info c))) /\
           w_events w' = ev /\
           w_journal w' = rev (ro_ops cr c) ++ j /\
           YInv cr c' (w_disk w') bs cl /\
           obs_cleared c d bs cl /\
           obs_cleared c' (w_disk w') bs cl /\
           same_reads c d c' (w_disk w') /\
           i_writeable (core_info c') = false /\
           c_keypair c' = {| kp_public := kp_public (c_keypair c); kp_secret := None |} /\
           kp_secret (hd_keypair (c_header c')) = None /\
           ol_entries_len (c_oplog c') = 0 /\
           ol_entries_bytes (c_oplog c') = 0 /\
           d_data (w_disk w') = d_data d /\
           f_len (d_oplog (w_disk w')) = 8192 /\
           f_content (d_oplog (w_disk w')) = ro_oplog_file cr c /\
           (forall s : option bytes, ro_oplog_file cr c = ro_oplog_file cr (with_secret c s)) /\
           (forall (f : option bool) (batch : list bytes) (w : world),
            core_append cr f batch c' w = (c', w, Err NotWritable)).
Proof. exact make_read_only_observations_Y. Qed.

Theorem C12_with_clears_second_call :
  forall cr : crypto,
         (forall x : bytes, Datatypes.length (cr_hash cr x) = 32%nat) ->
         (forall x : bytes, all_zero (cr_hash cr x) = false) ->
         (forall x : bytes, bytes_ok (cr_hash cr x) = true) ->
         forall (c : core) (d : disk) (j : list sop) (ev : list event) (bs : list bytes) (cl : N -> bool),
         YInv cr c d bs cl ->
         exists (c1 : core) (w1 : world) (c2 : core) (w2 : world),
           core_make_read_only cr c {| w_disk := d; w_journal := j; w_events := ev |} =
           (c1, w1, Ok (i_writeable (core_info c))) /\
           core_make_read_only cr c1 w1 = (c2, w2, Ok false) /\
           w_events w2 = ev /\
           YInv cr c2 (w_disk w2) bs cl /\
           obs_cleared c2 (w_disk w2) bs cl /\
           same_reads c1 (w_disk w1) c2 (w_disk w2) /\
           same_reads c d c2 (w_disk w2) /\
           i_writeable (core_info c2) = false /\
           kp_secret (c_keypair c2) = None /\
           c_keypair c2 = c_keypair c1 /\
           hd_keypair (c_header c2) = hd_keypair (c_header c1) /\
           kp_secret (hd_keypair (c_header c2)) = None /\
           ol_entries_len (c_oplog c2) = 0 /\
           ol_entries_bytes (c_oplog c2) = 0 /\
           d_data (w_disk w2) = d_data d /\
           f_len (d_oplog (w_disk w2)) = 8192 /\ f_content (d_oplog (w_disk w2)) = ro_oplog_file cr c1.
Proof. exact make_read_only_twice_Y. Qed.

Theorem C12_with_clears_reopens_read_only :
  forall cr : crypto,
         OplogFacts.crc_ok cr ->
         (forall x : bytes, Datatypes.length (cr_hash cr x) = 32%nat) ->
         (forall x : bytes, all_zero (cr_hash cr x) = false) ->
         (forall x : bytes, bytes_ok (cr_hash cr x) = true) ->
         forall (c : core) (d : disk) (j : list sop) (ev : list event) (bs : list bytes) (cl : N -> bool),
         YInv cr c d bs cl ->
         exists (c' : core) (w' : world) (c'' : core),
           core_make_read_only cr c {| w_disk := d; w_journal := j; w_events := ev |} =
           (c', w', Ok (i_writeable (core_info c))) /\
           core_open cr None true (w_disk w') = (w_disk w', [], Ok c'') /\
           YInv cr c'' (w_disk w') bs cl /\
           c_keypair c'' = {| kp_public := kp_public (c_keypair c); kp_secret := None |} /\
           hd_keypair (c_header c'') = {| kp_public := kp_public (c_keypair c); kp_secret := None |} /\
           i_writeable (core_info c'') = false /\
           obs_cleared c'' (w_disk w') bs cl /\
           same_reads c d c'' (w_disk w') /\
           (forall (f : option bool) (batch : list bytes) (w : world),
            core_append cr f batch c'' w = (c'', w, Err NotWritable)) /\
           (forall (j2 : list sop) (ev2 : list event),
            exists (c3 : core) (w3 : world),
              core_make_read_only cr c'' {| w_disk := w_disk w'; w_journal := j2; w_events := ev2 |} =
              (c3, w3, Ok false) /\
              YInv cr c3 (w_disk w3) bs cl /\
              same_reads c d c3 (w_disk w3) /\
              i_writeable (core_info c3) = false /\
              f_len (d_oplog (w_disk w3)) = 8192 /\ f_content (d_oplog (w_disk w3)) = ro_oplog_file cr c'').
Proof. exact read_only_reopen_Y. Qed.

Theorem C12_with_clears_crash_inside_recovers :
  forall cr : crypto,
         OplogFacts.crc_ok cr ->
         (forall x : bytes, Datatypes.length (cr_hash cr x) = 32%nat) ->
         (forall x : bytes, all_zero (cr_hash cr x) = false) ->
         (forall x : bytes, bytes_ok (cr_hash cr x) = true) ->
         forall (c : core) (d : disk) (bs : list bytes) (cl : N -> bool) (k : nat),
         YInv cr c d bs cl ->
         exists dk : disk,
           apply_sops d (firstn k (ro_ops cr c)) = Some dk /\
           (exists (dk' : disk) (ops : list sop) (ck : core),
              core_open cr None true dk = (dk', ops, Ok ck) /\
              d_tree dk' = d_tree dk /\
              d_data dk' = d_data dk /\
              d_bitfield dk' = d_bitfield dk /\
              (ops = [] /\ dk' = dk \/ ops = [ST Oplog ENTRIES_OFFSET]) /\
              YInv cr ck dk' bs cl /\
              obs_cleared ck dk' bs cl /\
              same_reads c d ck dk' /\
              hd_keypair (c_header ck) = c_keypair ck /\
              kp_public (c_keypair ck) = kp_public (c_keypair c) /\
              ((k <= ro_np c)%nat ->
               c_keypair ck = c_keypair c /\ i_writeable (core_info ck) = i_writeable (core_info c)) /\
              ((ro_np c < k)%nat ->
               c_keypair ck = {| kp_public := kp_public (c_keypair c); kp_secret := None |} /\
               i_writeable (core_info ck) = false)).
Proof. exact make_read_only_crash_Y. Qed.

Theorem C12_with_clears_secret_gone_after_any_completed_call :
  forall cr : crypto,
         OplogFacts.crc_ok cr ->
         (forall x : bytes, Datatypes.length (cr_hash cr x) = 32%nat) ->
         (forall x : bytes, all_zero (cr_hash cr x) = false) ->
         (forall x : bytes, bytes_ok (cr_hash cr x) = true) ->
         forall (c : core) (d : disk) (bs : list bytes) (cl : N -> bool) (k : nat),
         YInv cr c d bs cl ->
         exists dk : disk,
           apply_sops d (firstn k (ro_ops cr c)) = Some dk /\
           (exists (dk' : disk) (ops : list sop) (ck : core),
              core_open cr None true dk = (dk', ops, Ok ck) /\
              obs_cleared ck dk' bs cl /\
              same_reads c d ck dk' /\
              (forall (j : list sop) (ev : list event),
               exists (c2 : core) (d2 : disk),
                 core_make_read_only cr ck {| w_disk := dk'; w_journal := j; w_events := ev |} =
                 (c2, {| w_disk := d2; w_journal := rev (ro_ops cr ck) ++ j; w_events := ev |},
                  Ok (i_writeable (core_info ck))) /\
                 f_len (d_oplog d2) = 8192 /\
                 f_content (d_oplog d2) = ro_oplog_file cr ck /\
                 (forall s : option bytes, ro_oplog_file cr ck = ro_oplog_file cr (with_secret ck s)) /\
                 (exists (x0 x1 : list N) (h : header) (v0 v1 : bool),
                    f_content (d_oplog d2) = x0 ++ x1 /\
                    Crash.slot_is cr x0 (Crash.SValid h v0) /\
                    Crash.slot_is cr x1 (Crash.SValid h v1) /\ kp_secret (hd_keypair h) = None) /\
                 YInv cr c2 d2 bs cl /\
                 obs_cleared c2 d2 bs cl /\
                 same_reads c d c2 d2 /\
                 i_writeable (core_info c2) = false /\
                 kp_secret (c_keypair c2) = None /\
                 kp_secret (hd_keypair (c_header c2)) = None /\
                 kp_public (c_keypair c2) = kp_public (c_keypair c))).
Proof. exact secret_gone_after_any_completed_call_Y. Qed.

Theorem C12_replica_make_read_only :
  forall cr : crypto,
         OplogFacts.crc_ok cr ->
         (forall x : bytes, Datatypes.length (cr_hash cr x) = 32%nat) ->
         (forall x : bytes, all_zero (cr_hash cr x) = false) ->
         (forall x : bytes, bytes_ok (cr_hash cr x) = true) ->
         forall bs : list bytes,
         writer_fits bs ->
         forall (c : core) (d : disk) (j : list sop) (ev : list event) (H : N -> bool),
         RDInv cr bs c d H ->
         let bits := ol_bits (c_oplog c) in
         exists d' : disk,
           core_make_read_only cr c {| w_disk := d; w_journal := j; w_events := ev |} =
           (ro_core c, {| w_disk := d'; w_journal := rev (ro_ops cr c) ++ j; w_events := ev |}, Ok false) /\
           apply_sops d (ro_ops cr c) = Some d' /\
           RDInv cr bs (ro_core c) d' H /\
           c_keypair (ro_core c) = c_keypair c /\
           c_header (ro_core c) = c_header c /\
           kp_secret (hd_keypair (c_header c)) = None /\
           t_length (c_tree (ro_core c)) = t_length (c_tree c) /\
           t_unflushed (c_tree (ro_core c)) = nm_empty /\
           bf_dirty (c_bitfield (ro_core c)) = [] /\
           ol_entries_len (c_oplog (ro_core c)) = 0 /\
           ol_entries_bytes (c_oplog (ro_core c)) = 0 /\
           d_data d' = d_data d /\
           f_content (d_oplog d') =
           slot_bytes cr (negb (fst bits)) (c_header c) ++ slot_bytes cr (negb (snd bits)) (c_header c) /\
           f_len (d_oplog d') = ENTRIES_OFFSET.
Proof. exact replica_make_read_only. Qed.

Theorem C12_replica_make_read_only_observations :
  forall cr : crypto,
         OplogFacts.crc_ok cr ->
         (forall x : bytes, Datatypes.length (cr_hash cr x) = 32%nat) ->
         (forall x : bytes, all_zero (cr_hash cr x) = false) ->
         (forall x : bytes, bytes_ok (cr_hash cr x) = true) ->
         forall bs : list bytes,
         writer_fits bs ->
         forall (c : core) (d : disk) (j : list sop) (ev : list event) (H : N -> bool),
         RDInv cr bs c d H ->
         let r := t_length (c_tree c) in
         exists d' : disk,
           core_make_read_only cr c {| w_disk := d; w_journal := j; w_events := ev |} =
           (ro_core c, {| w_disk := d'; w_journal := rev (ro_ops cr c) ++ j; w_events := ev |}, Ok false) /\
           RDInv cr bs (ro_core c) d' H /\
           obs_replica bs c d H r /\
           obs_replica bs (ro_core c) d' H r /\
           core_info (ro_core c) = core_info c /\
           i_writeable (core_info c) = false /\
           i_length (core_info (ro_core c)) = r /\
           (forall i : N, core_has (ro_core c) i = core_has c i) /\
           (forall (i : N) (j' : list sop) (ev' : list event),
            snd (core_get i (ro_core c) {| w_disk := d'; w_journal := j'; w_events := ev' |}) =
            snd (core_get i c {| w_disk := d; w_journal := j'; w_events := ev' |}) /\
            w_events (snd (fst (core_get i (ro_core c) {| w_disk := d'; w_journal := j'; w_events := ev' |}))) =
            w_events (snd (fst (core_get i c {| w_disk := d; w_journal := j'; w_events := ev' |})))) /\
           (forall (f : option bool) (batch : list bytes) (w : world),
            core_append cr f batch c w = (c, w, Err NotWritable)) /\
           (forall (f : option bool) (batch : list bytes) (w : world),
            core_append cr f batch (ro_core c) w = (ro_core c, w, Err NotWritable)).
Proof. exact replica_make_read_only_observations. Qed.

Theorem C12_replica_append_refused :
  forall (cr : crypto) (bs : list bytes) (c : core) (d : disk) (H : N -> bool) 
           (f : option bool) (batch : list bytes) (w : world),
         RDInv cr bs c d H -> core_append cr f batch c w = (c, w, Err NotWritable).
Proof. exact replica_append_refused. Qed.

Theorem C12_replica_read_only_reopen :
  forall cr : crypto,
         OplogFacts.crc_ok cr ->
         (forall x : bytes, Datatypes.length (cr_hash cr x) = 32%nat) ->
         (forall x : bytes, all_zero (cr_hash cr x) = false) ->
         (forall x : bytes, bytes_ok (cr_hash cr x) = true) ->
         forall bs : list bytes,
         writer_fits bs ->
         forall (c : core) (d : disk) (j : list sop) (ev : list event) (H : N -> bool),
         RDInv cr bs c d H ->
         exists (d' : disk) (c2 : core),
           core_make_read_only cr c {| w_disk := d; w_journal := j; w_events := ev |} =
           (ro_core c, {| w_disk := d'; w_journal := rev (ro_ops cr c) ++ j; w_events := ev |}, Ok false) /\
           core_open cr None true d' = (d', [], Ok c2) /\
           RDInv cr bs c2 d' H /\
           c_tree c2 = flushed_tree (c_tree c) /\
           c_header c2 = c_header c /\
           c_keypair c2 = c_keypair c /\
           kp_secret (c_keypair c2) = None /\
           ol_entries_len (c_oplog c2) = 0 /\
           obs_replica bs c2 d' H (t_length (c_tree c)) /\
           core_info c2 = core_info c /\
           i_writeable (core_info c2) = false /\
           (forall i : N, core_has c2 i = core_has c i) /\
           (forall (i : N) (j' : list sop) (ev' : list event),
            snd (core_get i c2 {| w_disk := d'; w_journal := j'; w_events := ev' |}) =
            snd (core_get i c {| w_disk := d; w_journal := j'; w_events := ev' |}) /\
            w_events (snd (fst (core_get i c2 {| w_disk := d'; w_journal := j'; w_events := ev' |}))) =
            w_events (snd (fst (core_get i c {| w_disk := d; w_journal := j'; w_events := ev' |})))) /\
           (forall (f : option bool) (batch : list bytes) (w : world),
            core_append cr f batch c2 w = (c2, w, Err NotWritable)).
Proof. exact replica_read_only_reopen. Qed.

Theorem C12_replica_make_read_only_crash_recovers :
  forall cr : crypto,
         OplogFacts.crc_ok cr ->
         (forall x : bytes, Datatypes.length (cr_hash cr x) = 32%nat) ->
         (forall x : bytes, all_zero (cr_hash cr x) = false) ->
         (forall x : bytes, bytes_ok (cr_hash cr x) = true) ->
         forall bs : list bytes,
         writer_fits bs ->
         forall (c : core) (d : disk) (j : list sop) (ev : list event) (H : N -> bool),
         RDInv cr bs c d H ->
         exists (ops : list sop) (d' : disk),
           core_make_read_only cr c {| w_disk := d; w_journal := j; w_events := ev |} =
           (ro_core c, {| w_disk := d'; w_journal := rev ops ++ j; w_events := ev |}, Ok false) /\
           ops = ro_ops cr c /\
           apply_sops d ops = Some d' /\
           (forall k : nat,
            exists dk : disk,
              apply_sops d (firstn k ops) = Some dk /\
              RDisk cr bs (kp_public (c_keypair c)) dk H (t_length (c_tree c)) /\
              (exists (c2 : core) (d2 : disk) (rops : list sop),
                 core_open cr None true dk = (d2, rops, Ok c2) /\
                 RDInv cr bs c2 d2 H /\
                 obs_replica bs c2 d2 H (t_length (c_tree c)) /\
                 c_keypair c2 = c_keypair c /\
                 t_length (c_tree c2) = t_length (c_tree c) /\
                 core_info c2 = core_info c /\
                 (forall i : N, core_has c2 i = core_has c i) /\
                 (forall (i : N) (j' : list sop) (ev' : list event),
                  snd (core_get i c2 {| w_disk := d2; w_journal := j'; w_events := ev' |}) =
                  snd (core_get i c {| w_disk := d; w_journal := j'; w_events := ev' |})) /\
                 (forall (f : option bool) (batch : list bytes) (w : world),
                  core_append cr f batch c2 w = (c2, w, Err NotWritable)))).
Proof. exact replica_make_read_only_crash_recovers. Qed.

Theorem C12_other_files_independent_of_secret :
  forall cr : crypto,
         (forall sk sk' m : bytes, Datatypes.length (cr_sign cr sk m) = Datatypes.length (cr_sign cr sk' m)) ->
         forall (ops : list hop) (k1 k2 : keypair),
         kp_sim k1 k2 ->
         match start cr k1 with
         | Some (c1, w1) =>
             match start cr k2 with
             | Some (c2, w2) =>
                 reopen_ok cr ops c1 w1 c2 w2 ->
                 let r1 := hrun cr ops c1 w1 in
                 let r2 := hrun cr ops c2 w2 in
                 d_tree (w_disk (snd r1)) = d_tree (w_disk (snd r2)) /\
                 d_bitfield (w_disk (snd r1)) = d_bitfield (w_disk (snd r2)) /\
                 d_data (w_disk (snd r1)) = d_data (w_disk (snd r2)) /\
                 f_len (d_oplog (w_disk (snd r1))) = f_len (d_oplog (w_disk (snd r2))) /\
                 fst (fst r1) = fst (fst r2) /\
                 w_events (snd r1) = w_events (snd r2) /\
                 Forall2 sop_sim (w_journal (snd r1)) (w_journal (snd r2)) /\
                 filter not_oplog (w_journal (snd r1)) = filter not_oplog (w_journal (snd r2))
             | None => False
             end
         | None => match start cr k2 with
                   | Some _ => False
                   | None => True
                   end
         end.
Proof. exact other_files_independent_of_secret. Qed.

Theorem C12_other_files_independent_of_secret_no_reopen :
  forall cr : crypto,
         (forall sk sk' m : bytes, Datatypes.length (cr_sign cr sk m) = Datatypes.length (cr_sign cr sk' m)) ->
         forall (ops : list hop) (k1 k2 : keypair),
         kp_sim k1 k2 ->
         no_reopen ops = true ->
         match start cr k1 with
         | Some (c1, w1) =>
             match start cr k2 with
             | Some (c2, w2) =>
                 let r1 := hrun cr ops c1 w1 in
                 let r2 := hrun cr ops c2 w2 in
                 d_tree (w_disk (snd r1)) = d_tree (w_disk (snd r2)) /\
                 d_bitfield (w_disk (snd r1)) = d_bitfield (w_disk (snd r2)) /\
                 d_data (w_disk (snd r1)) = d_data (w_disk (snd r2)) /\
                 f_len (d_oplog (w_disk (snd r1))) = f_len (d_oplog (w_disk (snd r2))) /\
                 fst (fst r1) = fst (fst r2) /\
                 filter not_oplog (w_journal (snd r1)) = filter not_oplog (w_journal (snd r2))
             | None => False
             end
         | None => match start cr k2 with
                   | Some _ => False
                   | None => True
                   end
         end.
Proof. exact other_files_independent_of_secret_no_reopen. Qed.

Theorem C12_key_independence_of_histories :
  forall cr : crypto,
         (forall sk sk' m : bytes, Datatypes.length (cr_sign cr sk m) = Datatypes.length (cr_sign cr sk' m)) ->
         forall (ops : list hop) (c1 : core) (w1 : world) (c2 : core) (w2 : world),
         sim c1 c2 ->
         w_sim w1 w2 -> reopen_ok cr ops c1 w1 c2 w2 -> run_sim (hrun cr ops c1 w1) (hrun cr ops c2 w2).
Proof. exact history_sim. Qed.

Theorem C12_key_independence_example :
  match start kx_cr kpA with
         | Some (c1, w1) =>
             match start kx_cr kpB with
             | Some (c2, w2) =>
                 let r1 := hrun kx_cr kx_hist c1 w1 in
                 let r2 := hrun kx_cr kx_hist c2 w2 in
                 d_tree (w_disk (snd r1)) = d_tree (w_disk (snd r2)) /\
                 d_bitfield (w_disk (snd r1)) = d_bitfield (w_disk (snd r2)) /\
                 d_data (w_disk (snd r1)) = d_data (w_disk (snd r2)) /\ fst (fst r1) = fst (fst r2)
             | None => False
             end
         | None => False
         end.
Proof. exact kx_main. Qed.

Theorem C12_key_independence_example_stores :
  kx_check = true.
Proof. exact kx_same_stores_different_oplogs. Qed.

Theorem C12_other_files_independent_of_secret_wellformed :
  forall cr : crypto,
         OplogFacts.crc_ok cr ->
         (forall x : bytes, Datatypes.length (cr_hash cr x) = 32%nat) ->
         (forall x : bytes, all_zero (cr_hash cr x) = false) ->
         (forall x : bytes, bytes_ok (cr_hash cr x) = true) ->
         (forall sk m : bytes, Datatypes.length (cr_sign cr sk m) = 64%nat) ->
         (forall sk m : bytes, bytes_ok (cr_sign cr sk m) = true) ->
         forall (ops : list hop) (k1 k2 : keypair) (sk1 sk2 : bytes),
         OplogFacts.keypair_ok k1 = true ->
         OplogFacts.keypair_ok k2 = true ->
         kp_secret k1 = Some sk1 ->
         kp_secret k2 = Some sk2 ->
         wf_h ops 0 ->
         sumN (map len (happended ops)) <= u64_max ->
         NODE_SIZE * (2 * N.of_nat (Datatypes.length (happended ops))) <= u64_max ->
         exists (c1 : core) (w1 : world) (c2 : core) (w2 : world),
           start cr k1 = Some (c1, w1) /\
           start cr k2 = Some (c2, w2) /\
           (let r1 := hrun cr ops c1 w1 in
            let r2 := hrun cr ops c2 w2 in
            d_tree (w_disk (snd r1)) = d_tree (w_disk (snd r2)) /\
            d_bitfield (w_disk (snd r1)) = d_bitfield (w_disk (snd r2)) /\
            d_data (w_disk (snd r1)) = d_data (w_disk (snd r2)) /\
            f_len (d_oplog (w_disk (snd r1))) = f_len (d_oplog (w_disk (snd r2))) /\
            fst (fst r1) = fst (fst r2) /\
            w_events (snd r1) = w_events (snd r2) /\
            Forall2 sop_sim (w_journal (snd r1)) (w_journal (snd r2)) /\
            filter not_oplog (w_journal (snd r1)) = filter not_oplog (w_journal (snd r2))).
Proof. exact other_files_independent_of_secret_wf. Qed.

Theorem C12_reopen_premise_holds_for_wellformed_histories :
  forall cr : crypto,
         OplogFacts.crc_ok cr ->
         (forall x : bytes, Datatypes.length (cr_hash cr x) = 32%nat) ->
         (forall x : bytes, all_zero (cr_hash cr x) = false) ->
         (forall x : bytes, bytes_ok (cr_hash cr x) = true) ->
         (forall sk m : bytes, Datatypes.length (cr_sign cr sk m) = 64%nat) ->
         (forall sk m : bytes, bytes_ok (cr_sign cr sk m) = true) ->
         forall (ops : list hop) (c1 : core) (d1 : disk) (j1 : list sop) (ev1 : list event) 
           (c2 : core) (d2 : disk) (j2 : list sop) (ev2 : list event) (bs : list bytes) 
           (cl : N -> bool),
         sim c1 c2 ->
         w_sim {| w_disk := d1; w_journal := j1; w_events := ev1 |}
           {| w_disk := d2; w_journal := j2; w_events := ev2 |} ->
         PInv cr c1 d1 c2 d2 bs cl ->
         wf_h ops (N.of_nat (Datatypes.length bs)) ->
         sumN (map len (bs ++ happended ops)) <= u64_max ->
         NODE_SIZE * (2 * N.of_nat (Datatypes.length (bs ++ happended ops))) <= u64_max ->
         reopen_ok cr ops c1 {| w_disk := d1; w_journal := j1; w_events := ev1 |} c2
           {| w_disk := d2; w_journal := j2; w_events := ev2 |}.
Proof. exact wf_reopen_ok. Qed.

Theorem C12_key_independence_wellformed_example :
  exists (c1 : core) (w1 : world) (c2 : core) (w2 : world),
           start kw_cr kwA = Some (c1, w1) /\
           start kw_cr kwB = Some (c2, w2) /\
           (let r1 := hrun kw_cr kw_hist c1 w1 in
            let r2 := hrun kw_cr kw_hist c2 w2 in
            d_tree (w_disk (snd r1)) = d_tree (w_disk (snd r2)) /\
            d_bitfield (w_disk (snd r1)) = d_bitfield (w_disk (snd r2)) /\
            d_data (w_disk (snd r1)) = d_data (w_disk (snd r2)) /\ fst (fst r1) = fst (fst r2)).
Proof. exact kw_main. Qed.

Theorem C12_proof_application_ignores_secret :
  forall (cr : crypto) (f : option bool) (pf : proof) (c : core) (w : world) (s1 s2 : option bytes),
         olen s1 s2 ->
         let x := core_apply_proof cr f pf (with_secret c s1) w in
         let y := core_apply_proof cr f pf (with_secret c s2) w in
         snd x = snd y /\
         d_tree (w_disk (snd (fst x))) = d_tree (w_disk (snd (fst y))) /\
         d_bitfield (w_disk (snd (fst x))) = d_bitfield (w_disk (snd (fst y))) /\
         d_data (w_disk (snd (fst x))) = d_data (w_disk (snd (fst y))) /\
         w_events (snd (fst x)) = w_events (snd (fst y)).
Proof. exact apply_proof_ignores_secret. Qed.

Theorem C12_proof_application_key_independent :
  forall (cr : crypto) (f : option bool) (pf : proof) (c1 : core) (w1 : world) (c2 : core) (w2 : world),
         sim c1 c2 ->
         w_sim w1 w2 ->
         kp_public (c_keypair c1) = kp_public (c_keypair c2) ->
         sim (fst (fst (core_apply_proof cr f pf c1 w1))) (fst (fst (core_apply_proof cr f pf c2 w2))) /\
         w_sim (snd (fst (core_apply_proof cr f pf c1 w1))) (snd (fst (core_apply_proof cr f pf c2 w2))) /\
         snd (core_apply_proof cr f pf c1 w1) = snd (core_apply_proof cr f pf c2 w2).
Proof. exact apply_proof_sim. Qed.

Print Assumptions C12_not_writable.
Print Assumptions C12_call_reports_writability.
Print Assumptions C12_secret_erased_in_every_case.
Print Assumptions C12_secret_erased.
Print Assumptions C12_secret_independent.
Print Assumptions C12_header_without_secret.
Print Assumptions toy_read_only.
Print Assumptions ReadOnly.toy_read_only_run.
Print Assumptions ReadOnly.toy_secret_gone.
Print Assumptions ReadOnly.toy_secret_gone_after_crash_then_second_call.
Print Assumptions ReadOnly.toy_state_DInv.
Print Assumptions C12_make_read_only_correct.
Print Assumptions C12_make_read_only_observations.
Print Assumptions C12_second_call_changes_no_observation.
Print Assumptions C12_reopens_read_only.
Print Assumptions C12_open_with_key_pair_rejected.
Print Assumptions C12_oplog_file_after.
Print Assumptions C12_crash_inside_recovers.
Print Assumptions C12_secret_gone_after_any_completed_call.
Print Assumptions C12_with_clears_make_read_only.
Print Assumptions C12_with_clears_observations.
Print Assumptions C12_with_clears_second_call.
Print Assumptions C12_with_clears_reopens_read_only.
Print Assumptions C12_with_clears_crash_inside_recovers.
Print Assumptions C12_with_clears_secret_gone_after_any_completed_call.
Print Assumptions ReadOnlyClear.toy_read_only_clear_run.
Print Assumptions ReadOnlyClear.toy_read_only_clear_crash.
Print Assumptions ReadOnlyClear.toy_clear_secret_gone_after_crash_then_second_call.
Print Assumptions ReadOnlyClear.toy_cstate_YInv.
Print Assumptions C12_replica_make_read_only.
Print Assumptions C12_replica_make_read_only_observations.
Print Assumptions C12_replica_append_refused.
Print Assumptions C12_replica_read_only_reopen.
Print Assumptions C12_replica_make_read_only_crash_recovers.
Print Assumptions C12_other_files_independent_of_secret.
Print Assumptions C12_other_files_independent_of_secret_no_reopen.
Print Assumptions C12_key_independence_of_histories.
Print Assumptions C12_key_independence_example.
Print Assumptions C12_key_independence_example_stores.
Print Assumptions C12_other_files_independent_of_secret_wellformed.
Print Assumptions C12_reopen_premise_holds_for_wellformed_histories.
Print Assumptions C12_key_independence_wellformed_example.
Print Assumptions C12_proof_application_ignores_secret.
Print Assumptions C12_proof_application_key_independent.

(* C12 — secret key hygiene (pinned statements; proofs in CoreFacts.v).
   Proved for every state: append on a core without secret key returns NotWritable and changes NOTHING (same
   core, same disk, empty journal delta, no event); make_read_only on such a core returns false and changes
   nothing; on a writer it erases the secret from the in-memory key pair and header whatever the outcome;
   and — secret-freedom as non-interference — the whole outcome of make_read_only (new core, every byte of
   the four files, journal, events, result) is the same for any two secret keys: so no byte it writes can
   depend on the key. The rewritten header slots encode the key pair as the public key followed by a zero byte.
   Partial: 'no file contains the key' additionally needs that the bytes written BEFORE (tree, bitfield, data,
   entries) never contained it; the model never writes the secret anywhere but the header (by inspection of
   enc_entry / node / page codecs); tools/c12.py searches the raw bytes of all four files for every 16-byte
   window of the key and enumerates all crash points inside make_read_only. *)
From HC Require Import Base NMap Codec Crypto FlatTree Storage Bitfield Oplog Merkle Core CoreFacts.

Theorem C12_not_writable : forall cr f batch c w,
  kp_secret (c_keypair c) = None -> core_append cr f batch c w = (c, w, Err NotWritable).
Proof. exact append_not_writable. Qed.

Theorem C12_second_call_noop : forall cr c w,
  kp_secret (c_keypair c) = None -> core_make_read_only cr c w = (c, w, Ok false).
Proof. exact make_read_only_noop. Qed.

Theorem C12_secret_erased : forall cr c w c' w' r sk,
  kp_secret (c_keypair c) = Some sk ->
  core_make_read_only cr c w = (c', w', r) ->
  kp_secret (c_keypair c') = None /\ kp_secret (hd_keypair (c_header c')) = None.
Proof. exact make_read_only_erases. Qed.

Theorem C12_secret_independent : forall cr c w s1 s2,
  core_make_read_only cr (with_secret c (Some s1)) w = core_make_read_only cr (with_secret c (Some s2)) w.
Proof. exact make_read_only_secret_independent. Qed.

Theorem C12_header_without_secret : forall h,
  kp_secret (hd_keypair h) = None ->
  enc_header h =
    [1; 6] ++ hd_key h ++ ([0; 0; 1] ++ [0] ++ hd_ns h ++ hd_mpk h) ++
    (enc_buffer (kp_public (hd_keypair h)) ++ [0]) ++
    [0] ++ enc_header_tree (hd_tree h) ++ [0] ++ enc_uint (hd_contig h).
Proof. exact enc_header_secret_none. Qed.

Print Assumptions C12_not_writable.
Print Assumptions C12_second_call_noop.
Print Assumptions C12_secret_erased.
Print Assumptions C12_secret_independent.
Print Assumptions C12_header_without_secret.
Print Assumptions toy_read_only.

(* C03 — placeholder: theorems land with Replicate.v *)
From HC Require Import Base.

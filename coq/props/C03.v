(* C03 — any honest proof is accepted and replicas converge to the writer's data (pinned statements, generated from
   the types Coq reports; proofs in Replicate.v on top of Sound.v, NoPanic.v, FlatTreeFacts.v, TreeRef.v).
   T is the writer's tree as a function from flat index to node, hash-consistent along the climbed path (true of the
   reference tree, C05).
   Proved: (no fabrication) every node of every proof the writer creates — block, hash, seek, upgrade, additional —
   was read from the writer's own tree, the signature is the tree's, the fork the tree's; create_proof returns None
   exactly when its internal read finds the block not held, else the value read;
   (block requests) for a replica no longer than the writer whose stored nodes carry the writer's hashes and whose own
   missing-node count ends on a stored node, the writer creates the proof, the replica's verifier accepts it, the
   changeset is commitable and contains the leaf and every sibling (C03_block_request_served); prover and verifier walk
   the same sibling sequence; honest inputs recompute the honest root (converse of C04's reduction);
   (missing-node query) the count returned is the number of missing levels and ends on a stored node or at the head;
   (upgrade-only, empty replica, whole log) prover and verifier run in lockstep over the full roots, the verifier ends with
   exactly the roots sent and the writer's length, and accepts when the signature verifies.
   NOT proved: upgrades of a non-empty replica (grow / connect branch), partial upgrades with additional nodes, block+upgrade,
   hash and seek sections, the head case of the missing-node query for a synced replica, and the storage side of
   verify_and_apply_proof (byte offset of the received block, replica reopen). These request classes are decided on every
   run by tools/c03.py: replication worlds (writer growth, clears, full and partial upgrades, block/hash/seek requests built
   from the replica's own missing-node query, replica reopen) on crate and model, with the oracle that every honest proof is
   accepted and every held block is byte-identical to the writer's. *)
From HC Require Import Base NMap Codec CodecFacts Crypto FlatTree Storage Bitfield Oplog Merkle Core FlatTreeFacts Sound NoPanic Replicate.

Theorem C03_block_request_served :
  forall (cr : crypto) (T : N -> node) (t : mtree) (tf : file) (rt : mtree) 
           (rtf : file) (i k : N) (v pk : bytes),
         unflushed_indexed t ->
         (forall (j : N) (n : node), required_node t tf j = Ok n -> n = T j) ->
         (forall idx : N,
          In idx (sib_indices (N.to_nat k) (it_new (2 * i))) -> exists n : node, required_node t tf idx = Ok n) ->
         (forall (j : N) (n : node), optional_node rt rtf j = Ok (Some n) -> n_hash n = n_hash (T j)) ->
         missing_nodes rt rtf (2 * i) = Ok k ->
         2 * i < 2 * t_length rt ->
         t_length rt <= t_length t ->
         i * 2 <= u64_max ->
         it_contains (it_up_n (N.to_nat k) (it_new (2 * i))) (2 * t_length rt) = false ->
         consistent_path cr T (N.to_nat k) (it_new (2 * i)) ->
         T (2 * i) = block_node cr (2 * i) v ->
         len v + sumN (map (fun idx : N => n_length (T idx)) (sib_indices (N.to_nat k) (it_new (2 * i)))) <=
         u64_max ->
         exists (ns : list node) (cs : changeset),
           create_valueless_proof t tf (Some {| rb_index := i; rb_nodes := k |}) None None None =
           Ok
             {|
               vp_fork := t_fork t;
               vp_block := Some {| dh_index := i; dh_nodes := ns |};
               vp_hash := None;
               vp_seek := None;
               vp_upgrade := None
             |} /\
           Datatypes.length ns = N.to_nat k /\
           verify_proof cr rt rtf
             {|
               p_fork := t_fork t;
               p_block := Some {| db_index := i; db_value := v; db_nodes := ns |};
               p_hash := None;
               p_seek := None;
               p_upgrade := None
             |} pk = Ok cs /\
           cs_upgraded cs = false /\
           commitable rt cs = true /\
           (forall n : node, In n ns -> In n (cs_nodes cs)) /\ In (block_node cr (2 * i) v) (cs_nodes cs).
Proof. exact block_request_served. Qed.

Theorem C03_block_only_end_to_end :
  forall (cr : crypto) (T : N -> node) (t : mtree) (tf : file) (rt : mtree) 
           (rtf : file) (i nodes : N) (v pk : bytes) (vp : vproof),
         unflushed_indexed t ->
         (forall (j : N) (n : node), required_node t tf j = Ok n -> n = T j) ->
         create_valueless_proof t tf (Some {| rb_index := i; rb_nodes := nodes |}) None None None = Ok vp ->
         consistent_path cr T (N.to_nat nodes) (it_new (2 * i)) ->
         T (2 * i) = block_node cr (2 * i) v ->
         (forall ns : list node,
          vp_block vp = Some {| dh_index := i; dh_nodes := ns |} -> len v + lens ns <= u64_max) ->
         (exists n : node,
            required_node rt rtf (it_index (it_up_n (N.to_nat nodes) (it_new (2 * i)))) = Ok n /\
            n_hash n = n_hash (T (it_index (it_up_n (N.to_nat nodes) (it_new (2 * i)))))) ->
         exists (ns : list node) (cs : changeset),
           vp =
           {|
             vp_fork := t_fork t;
             vp_block := Some {| dh_index := i; dh_nodes := ns |};
             vp_hash := None;
             vp_seek := None;
             vp_upgrade := None
           |} /\
           Datatypes.length ns = N.to_nat nodes /\
           verify_proof cr rt rtf
             {|
               p_fork := vp_fork vp;
               p_block := Some {| db_index := i; db_value := v; db_nodes := ns |};
               p_hash := None;
               p_seek := None;
               p_upgrade := None
             |} pk = Ok cs /\
           cs_upgraded cs = false /\
           commitable rt cs = true /\
           (forall n : node, In n ns -> In n (cs_nodes cs)) /\
           In (block_node cr (2 * i) v) (cs_nodes cs) /\ Forall (fun n : node => n = T (n_index n)) ns.
Proof. exact block_only_end_to_end. Qed.

Theorem C03_block_only_accepted :
  forall (cr : crypto) (T : N -> node) (rt : mtree) (rtf : file) (fork i : N) 
           (v : bytes) (ns : list node) (pk : bytes),
         consistent_path cr T (Datatypes.length ns) (it_new (2 * i)) ->
         T (2 * i) = block_node cr (2 * i) v ->
         Forall (fun n : node => n = T (n_index n)) ns ->
         Forall2 (fun (idx : N) (n : node) => n_index n = idx)
           (sib_indices (Datatypes.length ns) (it_new (2 * i))) ns ->
         i * 2 <= u64_max ->
         len v + lens ns <= u64_max ->
         (forall ri : N,
          ri = it_index (it_up_n (Datatypes.length ns) (it_new (2 * i))) ->
          exists n : node, required_node rt rtf ri = Ok n /\ n_hash n = n_hash (T ri)) ->
         exists (r : node) (visited : list node),
           (r, visited) = climb_ref cr ns (it_new (2 * i)) (block_node cr (2 * i) v) [block_node cr (2 * i) v] /\
           n_index r = it_index (it_up_n (Datatypes.length ns) (it_new (2 * i))) /\
           n_hash r = n_hash (T (n_index r)) /\
           n_length r = n_length (T (n_index r)) /\
           verify_proof cr rt rtf
             {|
               p_fork := fork;
               p_block := Some {| db_index := i; db_value := v; db_nodes := ns |};
               p_hash := None;
               p_seek := None;
               p_upgrade := None
             |} pk = Ok (cs_push_nodes (tree_changeset rt) visited).
Proof. exact block_only_accepted. Qed.

Theorem C03_honest_inputs_give_honest_root :
  forall (cr : crypto) (T : N -> node) (i : N) (v : bytes) (ns : list node),
         consistent_path cr T (Datatypes.length ns) (it_new (2 * i)) ->
         T (2 * i) = block_node cr (2 * i) v ->
         Forall (fun n : node => n = T (n_index n)) ns ->
         Forall2 (fun (idx : N) (n : node) => n_index n = idx)
           (sib_indices (Datatypes.length ns) (it_new (2 * i))) ns ->
         let r := fst (climb_ref cr ns (it_new (2 * i)) (block_node cr (2 * i) v) [block_node cr (2 * i) v]) in
         n_hash r = n_hash (T (n_index r)) /\ n_length r = n_length (T (n_index r)).
Proof. exact block_only_root_honest. Qed.

Theorem C03_prover_and_verifier_walk_agree :
  forall (cr : crypto) (i : N) (v : bytes) (ns : list node) (c : changeset),
         Forall2 (fun (idx : N) (n : node) => n_index n = idx)
           (sib_indices (Datatypes.length ns) (it_new (2 * i))) ns ->
         i * 2 <= u64_max ->
         len v + lens ns <= u64_max ->
         exists (r : node) (visited : list node),
           verify_tree cr (Some {| db_index := i; db_value := v; db_nodes := ns |}) None None c =
           Ok (Some r, cs_push_nodes c visited) /\
           (r, visited) = climb_ref cr ns (it_new (2 * i)) (block_node cr (2 * i) v) [block_node cr (2 * i) v] /\
           n_index r = it_index (it_up_n (Datatypes.length ns) (it_new (2 * i))) /\
           n_length r = len v + lens ns /\
           (exists ext : list node,
              visited = block_node cr (2 * i) v :: ext /\
              Datatypes.length ext = (2 * Datatypes.length ns)%nat /\ (forall n : node, In n ns -> In n ext)).
Proof. exact block_only_climb_agrees. Qed.

Theorem C03_block_proof_shape :
  forall (t : mtree) (tf : file) (i nodes : N) (vp : vproof),
         create_valueless_proof t tf (Some {| rb_index := i; rb_nodes := nodes |}) None None None = Ok vp ->
         exists ns : list node,
           vp =
           {|
             vp_fork := t_fork t;
             vp_block := Some {| dh_index := i; dh_nodes := ns |};
             vp_hash := None;
             vp_seek := None;
             vp_upgrade := None
           |} /\
           Datatypes.length ns = N.to_nat nodes /\
           Forall2 (fun (idx : N) (n : node) => required_node t tf idx = Ok n)
             (sib_indices (N.to_nat nodes) (it_new (2 * i))) ns /\
           (forall (k : nat) (n : node),
            nth_error ns k = Some n ->
            required_node t tf (it_index (it_sibling (it_up_n k (it_new (2 * i))))) = Ok n) /\
           nodes_to_root (2 * i) nodes (2 * t_length t) =
           Ok (it_index (it_up_n (N.to_nat nodes) (it_new (2 * i)))) /\
           (forall j : nat,
            (0 < j <= N.to_nat nodes)%nat -> it_contains (it_up_n j (it_new (2 * i))) (2 * t_length t) = false) /\
           fits_u64 (i * 2) = true /\ 0 < t_length t.
Proof. exact block_only_proof_shape. Qed.

Theorem C03_no_fabrication :
  forall (t : mtree) (tf : file) (block hash : option req_block) (seek : option req_seek)
           (upgrade : option req_upgrade) (vp : vproof),
         create_valueless_proof t tf block hash seek upgrade = Ok vp ->
         vp_all (from_writer t tf) vp /\
         vp_fork vp = t_fork t /\
         (forall b : data_hash,
          vp_block vp = Some b -> exists rb : req_block, block = Some rb /\ dh_index b = rb_index rb) /\
         (forall h : data_hash,
          vp_hash vp = Some h ->
          exists rh : req_block, block = None /\ hash = Some rh /\ dh_index h = rb_index rh) /\
         (forall s : data_seek,
          vp_seek vp = Some s -> exists rs : req_seek, seek = Some rs /\ ds_bytes s = rs_bytes rs) /\
         (forall u : data_upgrade,
          vp_upgrade vp = Some u ->
          exists ru : req_upgrade,
            upgrade = Some ru /\
            du_start u = ru_start ru /\ du_length u = ru_length ru /\ t_signature t = Some (du_signature u)) /\
         (upgrade = None -> vp_upgrade vp = None).
Proof. exact create_proof_no_fabrication. Qed.

Theorem C03_create_proof_value_or_none :
  forall (block hash : option req_block) (seek : option req_seek) (upgrade : option req_upgrade)
           (c : core) (w : world) (c' : core) (w' : world) (r : option proof),
         core_create_proof block hash seek upgrade c w = (c', w', Ok r) ->
         exists vp : vproof,
           create_valueless_proof (c_tree c) (d_tree (w_disk w)) block hash seek upgrade = Ok vp /\
           vp_all (from_writer (c_tree c) (d_tree (w_disk w))) vp /\
           match vp_block vp with
           | Some b =>
               exists v : option bytes,
                 core_get (dh_index b) c w = (c', w', Ok v) /\
                 r =
                 match v with
                 | Some value =>
                     Some
                       {|
                         p_fork := vp_fork vp;
                         p_block :=
                           Some {| db_index := dh_index b; db_value := value; db_nodes := dh_nodes b |};
                         p_hash := vp_hash vp;
                         p_seek := vp_seek vp;
                         p_upgrade := vp_upgrade vp
                       |}
                 | None => None
                 end
           | None =>
               c' = c /\
               w' = w /\
               r =
               Some
                 {|
                   p_fork := vp_fork vp;
                   p_block := None;
                   p_hash := vp_hash vp;
                   p_seek := vp_seek vp;
                   p_upgrade := vp_upgrade vp
                 |}
           end.
Proof. exact core_create_proof_inv. Qed.

Theorem C03_missing_nodes_meaning :
  forall (rt : mtree) (rtf : file) (i k : N),
         missing_nodes rt rtf (2 * i) = Ok k ->
         2 * i < 2 * t_length rt ->
         let itk := it_up_n (N.to_nat k) (it_new (2 * i)) in
         (N.to_nat k < CLIMB)%nat /\
         (forall j : nat,
          (j < N.to_nat k)%nat ->
          it_contains (it_up_n j (it_new (2 * i))) (2 * t_length rt) = false /\
          optional_node rt rtf (it_index (it_up_n j (it_new (2 * i)))) = Ok None) /\
         (it_contains itk (2 * t_length rt) = true \/
          it_contains itk (2 * t_length rt) = false /\
          (exists n : node, optional_node rt rtf (it_index itk) = Ok (Some n))).
Proof. exact missing_nodes_gives_stored_root. Qed.

Theorem C03_missing_nodes_request_wellformed :
  forall (rt : mtree) (rtf : file) (i k L : N),
         missing_nodes rt rtf (2 * i) = Ok k ->
         2 * i < 2 * t_length rt ->
         t_length rt <= L ->
         it_contains (it_up_n (N.to_nat k) (it_new (2 * i))) (2 * t_length rt) = false ->
         nodes_to_root (2 * i) k (2 * L) = Ok (it_index (it_up_n (N.to_nat k) (it_new (2 * i)))) /\
         (exists n : node,
            optional_node rt rtf (it_index (it_up_n (N.to_nat k) (it_new (2 * i)))) = Ok (Some n)).
Proof. exact missing_nodes_request_wellformed. Qed.

Theorem C03_block_only_changeset_commitable :
  forall (cr : crypto) (rt : mtree) (rtf : file) (fork : N) (ob : option data_block)
           (oh : option data_hash) (os : option data_seek) (pk : bytes) (cs : changeset),
         verify_proof cr rt rtf
           {| p_fork := fork; p_block := ob; p_hash := oh; p_seek := os; p_upgrade := None |} pk = 
         Ok cs ->
         cs_upgraded cs = false /\
         cs_orig_length cs = t_length rt /\
         cs_orig_fork cs = t_fork rt /\
         cs_roots cs = t_roots rt /\
         cs_length cs = t_length rt /\
         commitable rt cs = true /\
         tree_commit rt cs =
         Ok
           {|
             t_roots := t_roots rt;
             t_length := t_length rt;
             t_byte_length := t_byte_length rt;
             t_fork := t_fork rt;
             t_signature := t_signature rt;
             t_unflushed := add_nodes (t_unflushed rt) (cs_nodes cs)
           |}.
Proof. exact verify_proof_commitable_block_only. Qed.

Theorem C03_upgrade_only_accepted :
  forall (cr : crypto) (t : mtree) (tf : file) (rt : mtree) (rtf : file) (pk : bytes) (vp : vproof),
         unflushed_indexed t ->
         create_valueless_proof t tf None None None (Some {| ru_start := 0; ru_length := t_length t |}) = Ok vp ->
         t_roots rt = [] ->
         t_length rt = 0 ->
         exists (roots : list node) (sg : bytes),
           vp =
           {|
             vp_fork := t_fork t;
             vp_block := None;
             vp_hash := None;
             vp_seek := None;
             vp_upgrade :=
               Some
                 {|
                   du_start := 0;
                   du_length := t_length t;
                   du_nodes := roots;
                   du_additional := [];
                   du_signature := sg
                 |}
           |} /\
           t_signature t = Some sg /\
           roots <> [] /\
           Forall (from_writer t tf) roots /\
           (t_byte_length rt + lens roots <= u64_max ->
            Datatypes.length sg = 64%nat ->
            cr_verify cr pk (signable (tree_hash cr roots) (t_length t) (t_fork t)) sg = true ->
            exists cs : changeset,
              verify_proof cr rt rtf
                {|
                  p_fork := t_fork t;
                  p_block := None;
                  p_hash := None;
                  p_seek := None;
                  p_upgrade :=
                    Some
                      {|
                        du_start := 0;
                        du_length := t_length t;
                        du_nodes := roots;
                        du_additional := [];
                        du_signature := sg
                      |}
                |} pk = Ok cs /\
              cs_roots cs = roots /\
              cs_length cs = t_length t /\
              cs_fork cs = t_fork t /\
              cs_byte_length cs = t_byte_length rt + lens roots /\
              cs_upgraded cs = true /\
              cs_signature cs = Some sg /\
              cs_hash cs = Some (tree_hash cr roots) /\
              cs_nodes cs = roots /\ cs_ancestors cs = 0 /\ commitable rt cs = true).
Proof. exact upgrade_only_accepted. Qed.

Theorem C03_upgrade_nodes_are_full_roots :
  forall (t : mtree) (tf : file) (vp : vproof),
         create_valueless_proof t tf None None None (Some {| ru_start := 0; ru_length := t_length t |}) = Ok vp ->
         exists u : data_upgrade,
           vp_upgrade vp = Some u /\
           Forall2 (fun (idx : N) (n : node) => required_node t tf idx = Ok n) (ft_full_roots (2 * t_length t))
             (du_nodes u) /\ (unflushed_indexed t -> map n_index (du_nodes u) = ft_full_roots (2 * t_length t)).
Proof. exact upgrade_only_roots_are_full_roots. Qed.

Print Assumptions C03_block_request_served.
Print Assumptions C03_block_only_end_to_end.
Print Assumptions C03_block_only_accepted.
Print Assumptions C03_honest_inputs_give_honest_root.
Print Assumptions C03_prover_and_verifier_walk_agree.
Print Assumptions C03_block_proof_shape.
Print Assumptions C03_no_fabrication.
Print Assumptions C03_create_proof_value_or_none.
Print Assumptions C03_missing_nodes_meaning.
Print Assumptions C03_missing_nodes_request_wellformed.
Print Assumptions C03_block_only_changeset_commitable.
Print Assumptions C03_upgrade_only_accepted.
Print Assumptions C03_upgrade_nodes_are_full_roots.
Print Assumptions ex_core_replication.
Print Assumptions ex_block_request_served.
Print Assumptions ex_block_proof_tampered.

(* C03 — any honest proof is accepted and replicas converge to the writer's data (pinned statements, generated from
   the types Coq reports; proofs in Replicate.v on top of Sound.v, NoPanic.v, FlatTreeFacts.v, TreeRef.v).
   T is the writer's tree as a function from flat index to node, hash-consistent along the climbed path (true of the
   reference tree, C05).
   Proved: (no fabrication) every node of every proof the writer creates — block, hash, seek, upgrade, additional —
   was read from the writer's own tree, the signature is the tree's, the fork the tree's; create_proof returns None
   exactly when its internal read finds the block not held, else the value read;
   (block requests) for a replica no longer than the writer whose stored nodes carry the writer's hashes and whose own
   missing-node count ends on a stored node, the writer creates the proof, the replica's verifier accepts it, the
   changeset is commitable and contains the leaf and every sibling (C03_block_request_served); prover and verifier walk
   the same sibling sequence; honest inputs recompute the honest root (converse of C04's reduction);
   (missing-node query) the count returned is the number of missing levels and ends on a stored node or at the head;
   (upgrade-only, empty replica, whole log) prover and verifier run in lockstep over the full roots, the verifier ends with
   exactly the roots sent and the writer's length, and accepts when the signature verifies.
   NOT proved: upgrades of a non-empty replica (grow / connect branch), partial upgrades with additional nodes, block+upgrade,
   hash and seek sections, the head case of the missing-node query for a synced replica, and the storage side of
   verify_and_apply_proof (byte offset of the received block, replica reopen). These request classes are decided on every
   run by tools/c03.py: replication worlds (writer growth, clears, full and partial upgrades, block/hash/seek requests built
   from the replica's own missing-node query, replica reopen) on crate and model, with the oracle that every honest proof is
   accepted and every held block is byte-identical to the writer's. *)
From HC Require Import FrameGuardLib FrameGuard.
From HC Require HonestApplyEx.
From HC Require Import HonestApply1 HonestApply2 HonestApply3 HonestApply.
From HC Require Import AcceptAll1 AcceptAll2 AcceptAll AcceptAllCore3 AcceptAllHist.
From HC Require AcceptAllEx.
From HC Require Import ClearRefine Unified1 ProofContent.
From HC Require Import Replicate2E.
From HC Require Import Replicate2 Replicate2Z Replicate2D.
From HC Require Import Core SoundCoreLib SoundCore ReplicaDisk1 ReplicaDisk2 ReplicaDisk3 ReplicaDisk5.
From HC Require ReplicaDisk6 ReplicaDisk7.
From HC Require Import Base NMap Codec CodecFacts Crypto FlatTree Storage Bitfield Oplog Merkle Core FlatTreeFacts Sound NoPanic Replicate.

Theorem C03_block_request_served :
  forall (cr : crypto) (T : N -> node) (t : mtree) (tf : file) (rt : mtree) 
           (rtf : file) (i k : N) (v pk : bytes),
         unflushed_indexed t ->
         (forall (j : N) (n : node), required_node t tf j = Ok n -> n = T j) ->
         (forall idx : N,
          In idx (sib_indices (N.to_nat k) (it_new (2 * i))) -> exists n : node, required_node t tf idx = Ok n) ->
         (forall (j : N) (n : node), optional_node rt rtf j = Ok (Some n) -> n_hash n = n_hash (T j)) ->
         missing_nodes rt rtf (2 * i) = Ok k ->
         2 * i < 2 * t_length rt ->
         t_length rt <= t_length t ->
         i * 2 <= u64_max ->
         it_contains (it_up_n (N.to_nat k) (it_new (2 * i))) (2 * t_length rt) = false ->
         consistent_path cr T (N.to_nat k) (it_new (2 * i)) ->
         T (2 * i) = block_node cr (2 * i) v ->
         len v + sumN (map (fun idx : N => n_length (T idx)) (sib_indices (N.to_nat k) (it_new (2 * i)))) <=
         u64_max ->
         exists (ns : list node) (cs : changeset),
           create_valueless_proof t tf (Some {| rb_index := i; rb_nodes := k |}) None None None =
           Ok
             {|
               vp_fork := t_fork t;
               vp_block := Some {| dh_index := i; dh_nodes := ns |};
               vp_hash := None;
               vp_seek := None;
               vp_upgrade := None
             |} /\
           Datatypes.length ns = N.to_nat k /\
           verify_proof cr rt rtf
             {|
               p_fork := t_fork t;
               p_block := Some {| db_index := i; db_value := v; db_nodes := ns |};
               p_hash := None;
               p_seek := None;
               p_upgrade := None
             |} pk = Ok cs /\
           cs_upgraded cs = false /\
           commitable rt cs = true /\
           (forall n : node, In n ns -> In n (cs_nodes cs)) /\ In (block_node cr (2 * i) v) (cs_nodes cs).
Proof. exact block_request_served. Qed.

Theorem C03_block_only_end_to_end :
  forall (cr : crypto) (T : N -> node) (t : mtree) (tf : file) (rt : mtree) 
           (rtf : file) (i nodes : N) (v pk : bytes) (vp : vproof),
         unflushed_indexed t ->
         (forall (j : N) (n : node), required_node t tf j = Ok n -> n = T j) ->
         create_valueless_proof t tf (Some {| rb_index := i; rb_nodes := nodes |}) None None None = Ok vp ->
         consistent_path cr T (N.to_nat nodes) (it_new (2 * i)) ->
         T (2 * i) = block_node cr (2 * i) v ->
         (forall ns : list node,
          vp_block vp = Some {| dh_index := i; dh_nodes := ns |} -> len v + lens ns <= u64_max) ->
         (exists n : node,
            required_node rt rtf (it_index (it_up_n (N.to_nat nodes) (it_new (2 * i)))) = Ok n /\
            n_hash n = n_hash (T (it_index (it_up_n (N.to_nat nodes) (it_new (2 * i)))))) ->
         exists (ns : list node) (cs : changeset),
           vp =
           {|
             vp_fork := t_fork t;
             vp_block := Some {| dh_index := i; dh_nodes := ns |};
             vp_hash := None;
             vp_seek := None;
             vp_upgrade := None
           |} /\
           Datatypes.length ns = N.to_nat nodes /\
           verify_proof cr rt rtf
             {|
               p_fork := vp_fork vp;
               p_block := Some {| db_index := i; db_value := v; db_nodes := ns |};
               p_hash := None;
               p_seek := None;
               p_upgrade := None
             |} pk = Ok cs /\
           cs_upgraded cs = false /\
           commitable rt cs = true /\
           (forall n : node, In n ns -> In n (cs_nodes cs)) /\
           In (block_node cr (2 * i) v) (cs_nodes cs) /\ Forall (fun n : node => n = T (n_index n)) ns.
Proof. exact block_only_end_to_end. Qed.

Theorem C03_block_only_accepted :
  forall (cr : crypto) (T : N -> node) (rt : mtree) (rtf : file) (fork i : N) 
           (v : bytes) (ns : list node) (pk : bytes),
         consistent_path cr T (Datatypes.length ns) (it_new (2 * i)) ->
         T (2 * i) = block_node cr (2 * i) v ->
         Forall (fun n : node => n = T (n_index n)) ns ->
         Forall2 (fun (idx : N) (n : node) => n_index n = idx)
           (sib_indices (Datatypes.length ns) (it_new (2 * i))) ns ->
         i * 2 <= u64_max ->
         len v + lens ns <= u64_max ->
         (forall ri : N,
          ri = it_index (it_up_n (Datatypes.length ns) (it_new (2 * i))) ->
          exists n : node, required_node rt rtf ri = Ok n /\ n_hash n = n_hash (T ri)) ->
         exists (r : node) (visited : list node),
           (r, visited) = climb_ref cr ns (it_new (2 * i)) (block_node cr (2 * i) v) [block_node cr (2 * i) v] /\
           n_index r = it_index (it_up_n (Datatypes.length ns) (it_new (2 * i))) /\
           n_hash r = n_hash (T (n_index r)) /\
           n_length r = n_length (T (n_index r)) /\
           verify_proof cr rt rtf
             {|
               p_fork := fork;
               p_block := Some {| db_index := i; db_value := v; db_nodes := ns |};
               p_hash := None;
               p_seek := None;
               p_upgrade := None
             |} pk = Ok (cs_push_nodes (tree_changeset rt) visited).
Proof. exact block_only_accepted. Qed.

Theorem C03_honest_inputs_give_honest_root :
  forall (cr : crypto) (T : N -> node) (i : N) (v : bytes) (ns : list node),
         consistent_path cr T (Datatypes.length ns) (it_new (2 * i)) ->
         T (2 * i) = block_node cr (2 * i) v ->
         Forall (fun n : node => n = T (n_index n)) ns ->
         Forall2 (fun (idx : N) (n : node) => n_index n = idx)
           (sib_indices (Datatypes.length ns) (it_new (2 * i))) ns ->
         let r := fst (climb_ref cr ns (it_new (2 * i)) (block_node cr (2 * i) v) [block_node cr (2 * i) v]) in
         n_hash r = n_hash (T (n_index r)) /\ n_length r = n_length (T (n_index r)).
Proof. exact block_only_root_honest. Qed.

Theorem C03_prover_and_verifier_walk_agree :
  forall (cr : crypto) (i : N) (v : bytes) (ns : list node) (c : changeset),
         Forall2 (fun (idx : N) (n : node) => n_index n = idx)
           (sib_indices (Datatypes.length ns) (it_new (2 * i))) ns ->
         i * 2 <= u64_max ->
         len v + lens ns <= u64_max ->
         exists (r : node) (visited : list node),
           verify_tree cr (Some {| db_index := i; db_value := v; db_nodes := ns |}) None None c =
           Ok (Some r, cs_push_nodes c visited) /\
           (r, visited) = climb_ref cr ns (it_new (2 * i)) (block_node cr (2 * i) v) [block_node cr (2 * i) v] /\
           n_index r = it_index (it_up_n (Datatypes.length ns) (it_new (2 * i))) /\
           n_length r = len v + lens ns /\
           (exists ext : list node,
              visited = block_node cr (2 * i) v :: ext /\
              Datatypes.length ext = (2 * Datatypes.length ns)%nat /\ (forall n : node, In n ns -> In n ext)).
Proof. exact block_only_climb_agrees. Qed.

Theorem C03_block_proof_shape :
  forall (t : mtree) (tf : file) (i nodes : N) (vp : vproof),
         create_valueless_proof t tf (Some {| rb_index := i; rb_nodes := nodes |}) None None None = Ok vp ->
         exists ns : list node,
           vp =
           {|
             vp_fork := t_fork t;
             vp_block := Some {| dh_index := i; dh_nodes := ns |};
             vp_hash := None;
             vp_seek := None;
             vp_upgrade := None
           |} /\
           Datatypes.length ns = N.to_nat nodes /\
           Forall2 (fun (idx : N) (n : node) => required_node t tf idx = Ok n)
             (sib_indices (N.to_nat nodes) (it_new (2 * i))) ns /\
           (forall (k : nat) (n : node),
            nth_error ns k = Some n ->
            required_node t tf (it_index (it_sibling (it_up_n k (it_new (2 * i))))) = Ok n) /\
           nodes_to_root (2 * i) nodes (2 * t_length t) =
           Ok (it_index (it_up_n (N.to_nat nodes) (it_new (2 * i)))) /\
           (forall j : nat,
            (0 < j <= N.to_nat nodes)%nat -> it_contains (it_up_n j (it_new (2 * i))) (2 * t_length t) = false) /\
           fits_u64 (i * 2) = true /\ 0 < t_length t.
Proof. exact block_only_proof_shape. Qed.

Theorem C03_no_fabrication :
  forall (t : mtree) (tf : file) (block hash : option req_block) (seek : option req_seek)
           (upgrade : option req_upgrade) (vp : vproof),
         create_valueless_proof t tf block hash seek upgrade = Ok vp ->
         vp_all (from_writer t tf) vp /\
         vp_fork vp = t_fork t /\
         (forall b : data_hash,
          vp_block vp = Some b -> exists rb : req_block, block = Some rb /\ dh_index b = rb_index rb) /\
         (forall h : data_hash,
          vp_hash vp = Some h ->
          exists rh : req_block, block = None /\ hash = Some rh /\ dh_index h = rb_index rh) /\
         (forall s : data_seek,
          vp_seek vp = Some s -> exists rs : req_seek, seek = Some rs /\ ds_bytes s = rs_bytes rs) /\
         (forall u : data_upgrade,
          vp_upgrade vp = Some u ->
          exists ru : req_upgrade,
            upgrade = Some ru /\
            du_start u = ru_start ru /\ du_length u = ru_length ru /\ t_signature t = Some (du_signature u)) /\
         (upgrade = None -> vp_upgrade vp = None).
Proof. exact create_proof_no_fabrication. Qed.

Theorem C03_create_proof_value_or_none :
  forall (block hash : option req_block) (seek : option req_seek) (upgrade : option req_upgrade)
           (c : core) (w : world) (c' : core) (w' : world) (r : option proof),
         core_create_proof block hash seek upgrade c w = (c', w', Ok r) ->
         exists vp : vproof,
           create_valueless_proof (c_tree c) (d_tree (w_disk w)) block hash seek upgrade = Ok vp /\
           vp_all (from_writer (c_tree c) (d_tree (w_disk w))) vp /\
           match vp_block vp with
           | Some b =>
               exists v : option bytes,
                 core_get (dh_index b) c w = (c', w', Ok v) /\
                 r =
                 match v with
                 | Some value =>
                     Some
                       {|
                         p_fork := vp_fork vp;
                         p_block :=
                           Some {| db_index := dh_index b; db_value := value; db_nodes := dh_nodes b |};
                         p_hash := vp_hash vp;
                         p_seek := vp_seek vp;
                         p_upgrade := vp_upgrade vp
                       |}
                 | None => None
                 end
           | None =>
               c' = c /\
               w' = w /\
               r =
               Some
                 {|
                   p_fork := vp_fork vp;
                   p_block := None;
                   p_hash := vp_hash vp;
                   p_seek := vp_seek vp;
                   p_upgrade := vp_upgrade vp
                 |}
           end.
Proof. exact core_create_proof_inv. Qed.

Theorem C03_missing_nodes_meaning :
  forall (rt : mtree) (rtf : file) (i k : N),
         missing_nodes rt rtf (2 * i) = Ok k ->
         2 * i < 2 * t_length rt ->
         let itk := it_up_n (N.to_nat k) (it_new (2 * i)) in
         (N.to_nat k < CLIMB)%nat /\
         (forall j : nat,
          (j < N.to_nat k)%nat ->
          it_contains (it_up_n j (it_new (2 * i))) (2 * t_length rt) = false /\
          optional_node rt rtf (it_index (it_up_n j (it_new (2 * i)))) = Ok None) /\
         (it_contains itk (2 * t_length rt) = true \/
          it_contains itk (2 * t_length rt) = false /\
          (exists n : node, optional_node rt rtf (it_index itk) = Ok (Some n))).
Proof. exact missing_nodes_gives_stored_root. Qed.

Theorem C03_missing_nodes_request_wellformed :
  forall (rt : mtree) (rtf : file) (i k L : N),
         missing_nodes rt rtf (2 * i) = Ok k ->
         2 * i < 2 * t_length rt ->
         t_length rt <= L ->
         it_contains (it_up_n (N.to_nat k) (it_new (2 * i))) (2 * t_length rt) = false ->
         nodes_to_root (2 * i) k (2 * L) = Ok (it_index (it_up_n (N.to_nat k) (it_new (2 * i)))) /\
         (exists n : node,
            optional_node rt rtf (it_index (it_up_n (N.to_nat k) (it_new (2 * i)))) = Ok (Some n)).
Proof. exact missing_nodes_request_wellformed. Qed.

Theorem C03_block_only_changeset_commitable :
  forall (cr : crypto) (rt : mtree) (rtf : file) (fork : N) (ob : option data_block)
           (oh : option data_hash) (os : option data_seek) (pk : bytes) (cs : changeset),
         verify_proof cr rt rtf
           {| p_fork := fork; p_block := ob; p_hash := oh; p_seek := os; p_upgrade := None |} pk = 
         Ok cs ->
         cs_upgraded cs = false /\
         cs_orig_length cs = t_length rt /\
         cs_orig_fork cs = t_fork rt /\
         cs_roots cs = t_roots rt /\
         cs_length cs = t_length rt /\
         commitable rt cs = true /\
         tree_commit rt cs =
         Ok
           {|
             t_roots := t_roots rt;
             t_length := t_length rt;
             t_byte_length := t_byte_length rt;
             t_fork := t_fork rt;
             t_signature := t_signature rt;
             t_unflushed := add_nodes (t_unflushed rt) (cs_nodes cs)
           |}.
Proof. exact verify_proof_commitable_block_only. Qed.

Theorem C03_upgrade_only_accepted :
  forall (cr : crypto) (t : mtree) (tf : file) (rt : mtree) (rtf : file) (pk : bytes) (vp : vproof),
         unflushed_indexed t ->
         create_valueless_proof t tf None None None (Some {| ru_start := 0; ru_length := t_length t |}) = Ok vp ->
         t_roots rt = [] ->
         t_length rt = 0 ->
         exists (roots : list node) (sg : bytes),
           vp =
           {|
             vp_fork := t_fork t;
             vp_block := None;
             vp_hash := None;
             vp_seek := None;
             vp_upgrade :=
               Some
                 {|
                   du_start := 0;
                   du_length := t_length t;
                   du_nodes := roots;
                   du_additional := [];
                   du_signature := sg
                 |}
           |} /\
           t_signature t = Some sg /\
           roots <> [] /\
           Forall (from_writer t tf) roots /\
           (t_byte_length rt + lens roots <= u64_max ->
            Datatypes.length sg = 64%nat ->
            cr_verify cr pk (signable (tree_hash cr roots) (t_length t) (t_fork t)) sg = true ->
            exists cs : changeset,
              verify_proof cr rt rtf
                {|
                  p_fork := t_fork t;
                  p_block := None;
                  p_hash := None;
                  p_seek := None;
                  p_upgrade :=
                    Some
                      {|
                        du_start := 0;
                        du_length := t_length t;
                        du_nodes := roots;
                        du_additional := [];
                        du_signature := sg
                      |}
                |} pk = Ok cs /\
              cs_roots cs = roots /\
              cs_length cs = t_length t /\
              cs_fork cs = t_fork t /\
              cs_byte_length cs = t_byte_length rt + lens roots /\
              cs_upgraded cs = true /\
              cs_signature cs = Some sg /\
              cs_hash cs = Some (tree_hash cr roots) /\
              cs_nodes cs = roots /\ cs_ancestors cs = 0 /\ commitable rt cs = true).
Proof. exact upgrade_only_accepted. Qed.

Theorem C03_upgrade_nodes_are_full_roots :
  forall (t : mtree) (tf : file) (vp : vproof),
         create_valueless_proof t tf None None None (Some {| ru_start := 0; ru_length := t_length t |}) = Ok vp ->
         exists u : data_upgrade,
           vp_upgrade vp = Some u /\
           Forall2 (fun (idx : N) (n : node) => required_node t tf idx = Ok n) (ft_full_roots (2 * t_length t))
             (du_nodes u) /\ (unflushed_indexed t -> map n_index (du_nodes u) = ft_full_roots (2 * t_length t)).
Proof. exact upgrade_only_roots_are_full_roots. Qed.

Theorem C03_fresh_replica_invariant :
  forall cr : crypto,
         OplogFacts.crc_ok cr ->
         (forall x : bytes, Datatypes.length (cr_hash cr x) = 32%nat) ->
         (forall x : bytes, all_zero (cr_hash cr x) = false) ->
         forall (bs : list bytes) (kp : keypair),
         OplogFacts.keypair_ok kp = true ->
         kp_secret kp = None ->
         exists (d' : disk) (ops : list sop) (c : core),
           core_open cr (Some kp) false disk_empty = (d', ops, Ok c) /\
           RDInv cr bs c d' (fun _ : N => false) /\ c_keypair c = kp /\ t_length (c_tree c) = 0.
Proof. exact RDInv_fresh. Qed.

Theorem C03_replica_reads_are_the_writers :
  forall (cr : crypto) (bs : list bytes),
         writer_fits bs ->
         forall (c : core) (d : disk) (H : N -> bool) (j : list sop) (ev : list event) (i : N),
         RDInv cr bs c d H ->
         core_get i c {| w_disk := d; w_journal := j; w_events := ev |} =
         (if H i
          then (c, {| w_disk := d; w_journal := j; w_events := ev |}, Ok (Some (TreeRef.blk bs i)))
          else (c, {| w_disk := d; w_journal := j; w_events := EvGet i :: ev |}, Ok None)).
Proof. exact RD_get. Qed.

Theorem C03_replica_info :
  forall (cr : crypto) (bs : list bytes) (c : core) (d : disk) (H : N -> bool),
         RDInv cr bs c d H ->
         let r := t_length (c_tree c) in
         core_info c =
         {|
           i_length := r;
           i_byte_length := TreeRef.prefix_size bs r;
           i_contiguous := hd_contig (c_header c);
           i_fork := 0;
           i_writeable := false
         |} /\ r <= N.of_nat (Datatypes.length bs) /\ Unified1.fexact H (hd_contig (c_header c)).
Proof. exact RD_info. Qed.

Theorem C03_accepted_proof_keeps_replica_invariant :
  forall cr : crypto,
         OplogFacts.crc_ok cr ->
         (forall x : bytes, Datatypes.length (cr_hash cr x) = 32%nat) ->
         (forall x : bytes, all_zero (cr_hash cr x) = false) ->
         (forall x : bytes, bytes_ok (cr_hash cr x) = true) ->
         forall bs : list bytes,
         writer_fits bs ->
         forall (f : option bool) (pf : proof) (c : core) (d : disk) (j : list sop) 
           (ev : list event) (H : N -> bool) (c' : core) (w' : world),
         RDInv cr bs c d H ->
         rd_proof_ok pf ->
         core_apply_proof cr f pf c {| w_disk := d; w_journal := j; w_events := ev |} = (c', w', Ok true) ->
         RDInv cr bs c' (w_disk w') (hold H (p_block pf)) /\
         c_keypair c' = c_keypair c /\
         t_length (c_tree c) <= t_length (c_tree c') /\
         (p_upgrade pf = None -> t_length (c_tree c') = t_length (c_tree c)) /\
         (exists cs : changeset,
            verifier_says cr c {| w_disk := d; w_journal := j; w_events := ev |} pf = Ok cs /\
            t_length (c_tree c') = (if cs_upgraded cs then cs_length cs else t_length (c_tree c))) \/
         some_collision cr \/ forged_signature cr bs (kp_public (c_keypair c)).
Proof. exact apply_keeps_RDInv. Qed.

Theorem C03_replica_reopen_changes_no_observation :
  forall cr : crypto,
         OplogFacts.crc_ok cr ->
         (forall x : bytes, all_zero (cr_hash cr x) = false) ->
         forall bs : list bytes,
         writer_fits bs ->
         forall (c : core) (d : disk) (H : N -> bool),
         RDInv cr bs c d H ->
         exists c' : core,
           core_open cr None true d = (d, [], Ok c') /\
           RDInv cr bs c' d H /\
           core_info c' = core_info c /\
           i_writeable (core_info c') = false /\
           (forall i : N, core_has c' i = core_has c i) /\
           (forall (i : N) (j : list sop) (ev : list event),
            snd (core_get i c' {| w_disk := d; w_journal := j; w_events := ev |}) =
            snd (core_get i c {| w_disk := d; w_journal := j; w_events := ev |}) /\
            snd (fst (core_get i c' {| w_disk := d; w_journal := j; w_events := ev |})) =
            snd (fst (core_get i c {| w_disk := d; w_journal := j; w_events := ev |}))).
Proof. exact reopen_RDInv_observations. Qed.

Theorem C03_replica_reopen_reestablishes_invariant :
  forall cr : crypto,
         OplogFacts.crc_ok cr ->
         (forall x : bytes, all_zero (cr_hash cr x) = false) ->
         forall bs : list bytes,
         writer_fits bs ->
         forall (c : core) (d : disk) (H : N -> bool),
         RDInv cr bs c d H ->
         exists c' : core,
           core_open cr None true d = (d, [], Ok c') /\
           RDInv cr bs c' d H /\
           c_tree c' = c_tree c /\
           c_header c' = c_header c /\
           c_keypair c' = c_keypair c /\
           c_oplog c' = c_oplog c /\
           (forall i : N, bf_get (c_bitfield c') i = bf_get (c_bitfield c) i) /\ c_skip c' = 0.
Proof. exact reopen_RDInv. Qed.

Theorem C03_sparse_tree_truncate_recomputes_roots :
  forall cr : crypto,
         (forall x : bytes, all_zero (cr_hash cr x) = false) ->
         forall (bs : list bytes) (t : mtree) (tf : file) (a m fork : N),
         t_roots t = TreeRef.ref_roots cr bs a ->
         (forall x : node, In x (TreeRef.ref_roots cr bs m) -> required_node t tf (n_index x) = Ok x) ->
         tree_truncate t tf m fork =
         Ok
           {|
             cs_length := m;
             cs_ancestors := m;
             cs_byte_length := TreeRef.prefix_size bs m;
             cs_batch_length := 0;
             cs_fork := fork;
             cs_roots := TreeRef.ref_roots cr bs m;
             cs_rnodes := [];
             cs_hash := None;
             cs_signature := None;
             cs_upgraded := true;
             cs_orig_length := t_length t;
             cs_orig_fork := t_fork t
           |}.
Proof. exact tree_truncate_sparse. Qed.

Theorem C03_replica_history :
  forall (cr : crypto) (bs : list bytes),
         OplogFacts.crc_ok cr ->
         (forall x : bytes, Datatypes.length (cr_hash cr x) = 32%nat) ->
         (forall x : bytes, all_zero (cr_hash cr x) = false) ->
         (forall x : bytes, bytes_ok (cr_hash cr x) = true) ->
         writer_fits bs ->
         forall (ops : list rdop) (c : core) (d : disk) (j : list sop) (ev : list event) (H : N -> bool),
         RDInv cr bs c d H ->
         Forall rdop_ok ops ->
         rd_ok bs H (t_length (c_tree c)) ops
           (rd_run cr ops c {| w_disk := d; w_journal := j; w_events := ev |}) \/
         some_collision cr \/ forged_signature cr bs (kp_public (c_keypair c)).
Proof. exact replica_history. Qed.

Theorem C03_fresh_replica_history :
  forall (cr : crypto) (bs : list bytes),
         OplogFacts.crc_ok cr ->
         (forall x : bytes, Datatypes.length (cr_hash cr x) = 32%nat) ->
         (forall x : bytes, all_zero (cr_hash cr x) = false) ->
         (forall x : bytes, bytes_ok (cr_hash cr x) = true) ->
         writer_fits bs ->
         forall (kp : keypair) (ops : list rdop),
         OplogFacts.keypair_ok kp = true ->
         kp_secret kp = None ->
         Forall rdop_ok ops ->
         exists (d0 : disk) (ops0 : list sop) (c0 : core),
           core_open cr (Some kp) false disk_empty = (d0, ops0, Ok c0) /\
           (rd_ok bs (fun _ : N => false) 0 ops
              (rd_run cr ops c0 {| w_disk := d0; w_journal := []; w_events := [] |}) \/
            some_collision cr \/ forged_signature cr bs (kp_public kp)).
Proof. exact fresh_replica_history. Qed.

Theorem C03_partial_upgrade_accepted :
  forall (cr : crypto) (bs : list bytes),
         sumN (map len bs) <= u64_max ->
         forall (t : mtree) (tf : file) (rt : mtree) (rtf : file) (w r u : N) (sg pk : bytes),
         Refine.lookups cr t tf bs w ->
         t_length t = w ->
         t_signature t = Some sg ->
         t_roots rt = TreeRef.ref_roots cr bs r ->
         t_length rt = r ->
         t_byte_length rt = TreeRef.prefix_size bs r ->
         0 < r ->
         r < u ->
         u <= w ->
         2 * w <= u64_max ->
         Datatypes.length sg = 64%nat ->
         cr_verify cr pk (signable (tree_hash cr (TreeRef.ref_roots cr bs w)) w (t_fork t)) sg = true ->
         let up :=
           {|
             du_start := r;
             du_length := u - r;
             du_nodes := map (TreeRef.rn cr bs) (upg_idx g64 0 r u);
             du_additional := if u <? w then map (TreeRef.rn cr bs) (upg_idx g64 0 u w) else [];
             du_signature := sg
           |} in
         exists cs : changeset,
           create_valueless_proof t tf None None None (Some {| ru_start := r; ru_length := u - r |}) =
           Ok
             {|
               vp_fork := t_fork t; vp_block := None; vp_hash := None; vp_seek := None; vp_upgrade := Some up
             |} /\
           verify_proof cr rt rtf
             {| p_fork := t_fork t; p_block := None; p_hash := None; p_seek := None; p_upgrade := Some up |} pk =
           Ok cs /\
           cs_roots cs = TreeRef.ref_roots cr bs w /\
           cs_length cs = w /\
           cs_byte_length cs = TreeRef.prefix_size bs w /\
           cs_fork cs = t_fork t /\
           cs_upgraded cs = true /\
           cs_signature cs = Some sg /\
           cs_hash cs = Some (tree_hash cr (TreeRef.ref_roots cr bs w)) /\
           cs_ancestors cs = r /\
           Forall (TreeRef.is_ref cr bs) (cs_nodes cs) /\
           commitable rt cs = true /\
           tree_commit rt cs =
           Ok
             {|
               t_roots := TreeRef.ref_roots cr bs w;
               t_length := w;
               t_byte_length := TreeRef.prefix_size bs w;
               t_fork := t_fork t;
               t_signature := Some sg;
               t_unflushed := add_nodes (t_unflushed rt) (cs_nodes cs)
             |}.
Proof. exact partial_upgrade_accepted. Qed.

Theorem C03_upgrade_of_nonempty_replica_accepted :
  forall (cr : crypto) (bs : list bytes),
         sumN (map len bs) <= u64_max ->
         forall (t : mtree) (tf : file) (rt : mtree) (rtf : file) (w r : N) (sg pk : bytes),
         Refine.lookups cr t tf bs w ->
         t_length t = w ->
         t_signature t = Some sg ->
         t_roots rt = TreeRef.ref_roots cr bs r ->
         t_length rt = r ->
         t_byte_length rt = TreeRef.prefix_size bs r ->
         0 < r ->
         r < w ->
         2 * w <= u64_max ->
         Datatypes.length sg = 64%nat ->
         cr_verify cr pk (signable (tree_hash cr (TreeRef.ref_roots cr bs w)) w (t_fork t)) sg = true ->
         exists cs : changeset,
           create_valueless_proof t tf None None None (Some {| ru_start := r; ru_length := w - r |}) =
           Ok
             {|
               vp_fork := t_fork t;
               vp_block := None;
               vp_hash := None;
               vp_seek := None;
               vp_upgrade :=
                 Some
                   {|
                     du_start := r;
                     du_length := w - r;
                     du_nodes := map (TreeRef.rn cr bs) (upg_idx g64 0 r w);
                     du_additional := [];
                     du_signature := sg
                   |}
             |} /\
           verify_proof cr rt rtf
             {|
               p_fork := t_fork t;
               p_block := None;
               p_hash := None;
               p_seek := None;
               p_upgrade :=
                 Some
                   {|
                     du_start := r;
                     du_length := w - r;
                     du_nodes := map (TreeRef.rn cr bs) (upg_idx g64 0 r w);
                     du_additional := [];
                     du_signature := sg
                   |}
             |} pk = Ok cs /\
           cs_roots cs = TreeRef.ref_roots cr bs w /\
           cs_length cs = w /\
           cs_byte_length cs = TreeRef.prefix_size bs w /\
           cs_fork cs = t_fork t /\
           cs_upgraded cs = true /\
           cs_signature cs = Some sg /\
           cs_hash cs = Some (tree_hash cr (TreeRef.ref_roots cr bs w)) /\
           cs_ancestors cs = r /\
           Forall (TreeRef.is_ref cr bs) (cs_nodes cs) /\
           commitable rt cs = true /\
           tree_commit rt cs =
           Ok
             {|
               t_roots := TreeRef.ref_roots cr bs w;
               t_length := w;
               t_byte_length := TreeRef.prefix_size bs w;
               t_fork := t_fork t;
               t_signature := Some sg;
               t_unflushed := add_nodes (t_unflushed rt) (cs_nodes cs)
             |}.
Proof. exact upgrade_nonempty_accepted. Qed.

Theorem C03_upgrade_from_empty_replica_accepted :
  forall (cr : crypto) (bs : list bytes),
         sumN (map len bs) <= u64_max ->
         forall (t : mtree) (tf : file) (rt : mtree) (rtf : file) (w u : N) (sg pk : bytes),
         Refine.lookups cr t tf bs w ->
         t_length t = w ->
         t_signature t = Some sg ->
         t_roots rt = [] ->
         t_length rt = 0 ->
         t_byte_length rt = 0 ->
         0 < u ->
         u <= w ->
         2 * w <= u64_max ->
         Datatypes.length sg = 64%nat ->
         cr_verify cr pk (signable (tree_hash cr (TreeRef.ref_roots cr bs w)) w (t_fork t)) sg = true ->
         let up :=
           {|
             du_start := 0;
             du_length := u;
             du_nodes := map (TreeRef.rn cr bs) (roots_from g64 0 u);
             du_additional := if u <? w then map (TreeRef.rn cr bs) (upg_idx g64 0 u w) else [];
             du_signature := sg
           |} in
         exists cs : changeset,
           create_valueless_proof t tf None None None (Some {| ru_start := 0; ru_length := u |}) =
           Ok
             {|
               vp_fork := t_fork t; vp_block := None; vp_hash := None; vp_seek := None; vp_upgrade := Some up
             |} /\
           verify_proof cr rt rtf
             {| p_fork := t_fork t; p_block := None; p_hash := None; p_seek := None; p_upgrade := Some up |} pk =
           Ok cs /\
           cs_roots cs = TreeRef.ref_roots cr bs w /\
           cs_length cs = w /\
           cs_byte_length cs = TreeRef.prefix_size bs w /\
           cs_fork cs = t_fork t /\
           cs_upgraded cs = true /\
           cs_signature cs = Some sg /\
           cs_hash cs = Some (tree_hash cr (TreeRef.ref_roots cr bs w)) /\
           cs_ancestors cs = 0 /\
           Forall (TreeRef.is_ref cr bs) (cs_nodes cs) /\
           commitable rt cs = true /\
           tree_commit rt cs =
           Ok
             {|
               t_roots := TreeRef.ref_roots cr bs w;
               t_length := w;
               t_byte_length := TreeRef.prefix_size bs w;
               t_fork := t_fork t;
               t_signature := Some sg;
               t_unflushed := add_nodes (t_unflushed rt) (cs_nodes cs)
             |}.
Proof. exact empty_upgrade_accepted. Qed.

Theorem C03_block_below_with_partial_upgrade_accepted :
  forall (cr : crypto) (bs : list bytes),
         sumN (map len bs) <= u64_max ->
         forall (t : mtree) (tf : file) (rt : mtree) (rtf : file) (w r u i k : N) (sg pk : bytes),
         Refine.lookups cr t tf bs w ->
         t_length t = w ->
         t_signature t = Some sg ->
         t_roots rt = TreeRef.ref_roots cr bs r ->
         t_length rt = r ->
         t_byte_length rt = TreeRef.prefix_size bs r ->
         (forall (j : N) (n : node),
          optional_node rt rtf j = Ok (Some n) -> n_hash n = n_hash (TreeRef.ref_at cr bs j)) ->
         0 < r ->
         r < u ->
         u <= w ->
         2 * w <= u64_max ->
         i < r ->
         missing_nodes rt rtf (2 * i) = Ok k ->
         it_contains (it_up_n (N.to_nat k) (it_new (2 * i))) (2 * t_length rt) = false ->
         Datatypes.length sg = 64%nat ->
         cr_verify cr pk (signable (tree_hash cr (TreeRef.ref_roots cr bs w)) w (t_fork t)) sg = true ->
         let ns := path_nodes cr bs (N.to_nat k) i in
         let up :=
           {|
             du_start := r;
             du_length := u - r;
             du_nodes := map (TreeRef.rn cr bs) (upg_idx g64 0 r u);
             du_additional := if u <? w then map (TreeRef.rn cr bs) (upg_idx g64 0 u w) else [];
             du_signature := sg
           |} in
         exists cs : changeset,
           create_valueless_proof t tf (Some {| rb_index := i; rb_nodes := k |}) None None
             (Some {| ru_start := r; ru_length := u - r |}) =
           Ok
             {|
               vp_fork := t_fork t;
               vp_block := Some {| dh_index := i; dh_nodes := ns |};
               vp_hash := None;
               vp_seek := None;
               vp_upgrade := Some up
             |} /\
           verify_proof cr rt rtf
             {|
               p_fork := t_fork t;
               p_block := Some {| db_index := i; db_value := TreeRef.blk bs i; db_nodes := ns |};
               p_hash := None;
               p_seek := None;
               p_upgrade := Some up
             |} pk = Ok cs /\
           cs_roots cs = TreeRef.ref_roots cr bs w /\
           cs_length cs = w /\
           cs_byte_length cs = TreeRef.prefix_size bs w /\
           cs_fork cs = t_fork t /\
           cs_upgraded cs = true /\
           cs_signature cs = Some sg /\
           cs_ancestors cs = r /\
           Forall (TreeRef.is_ref cr bs) (cs_nodes cs) /\
           In (TreeRef.ref_node cr bs 0 i) (cs_nodes cs) /\
           (forall n : node, In n ns -> In n (cs_nodes cs)) /\ commitable rt cs = true.
Proof. exact block_partial_upgrade_below_accepted. Qed.

Theorem C03_block_inside_partial_upgrade_accepted :
  forall (cr : crypto) (bs : list bytes),
         sumN (map len bs) <= u64_max ->
         forall (t : mtree) (tf : file) (rt : mtree) (rtf : file) (w r u i k : N) (sg pk : bytes),
         Refine.lookups cr t tf bs w ->
         t_length t = w ->
         t_signature t = Some sg ->
         t_roots rt = TreeRef.ref_roots cr bs r ->
         t_length rt = r ->
         t_byte_length rt = TreeRef.prefix_size bs r ->
         0 < r ->
         r < u ->
         u <= w ->
         2 * w <= u64_max ->
         r <= i ->
         i < u ->
         Datatypes.length sg = 64%nat ->
         cr_verify cr pk (signable (tree_hash cr (TreeRef.ref_roots cr bs w)) w (t_fork t)) sg = true ->
         exists (l1 : list (nat * N)) (y : nat * N) (l2 : list (nat * N)) (cs : changeset),
           upg_idx g64 0 r u = l1 ++ y :: l2 /\
           covers y i = true /\
           (let ns := path_nodes cr bs (fst y) i in
            let up :=
              {|
                du_start := r;
                du_length := u - r;
                du_nodes := map (TreeRef.rn cr bs) (l1 ++ l2);
                du_additional := if u <? w then map (TreeRef.rn cr bs) (upg_idx g64 0 u w) else [];
                du_signature := sg
              |} in
            create_valueless_proof t tf (Some {| rb_index := i; rb_nodes := k |}) None None
              (Some {| ru_start := r; ru_length := u - r |}) =
            Ok
              {|
                vp_fork := t_fork t;
                vp_block := Some {| dh_index := i; dh_nodes := ns |};
                vp_hash := None;
                vp_seek := None;
                vp_upgrade := Some up
              |} /\
            verify_proof cr rt rtf
              {|
                p_fork := t_fork t;
                p_block := Some {| db_index := i; db_value := TreeRef.blk bs i; db_nodes := ns |};
                p_hash := None;
                p_seek := None;
                p_upgrade := Some up
              |} pk = Ok cs /\
            cs_roots cs = TreeRef.ref_roots cr bs w /\
            cs_length cs = w /\
            cs_byte_length cs = TreeRef.prefix_size bs w /\
            cs_fork cs = t_fork t /\
            cs_upgraded cs = true /\
            cs_signature cs = Some sg /\
            cs_ancestors cs = r /\
            Forall (TreeRef.is_ref cr bs) (cs_nodes cs) /\
            In (TreeRef.ref_node cr bs 0 i) (cs_nodes cs) /\
            (forall n : node, In n ns -> In n (cs_nodes cs)) /\ commitable rt cs = true).
Proof. exact block_partial_upgrade_inside_accepted. Qed.

Theorem C03_missing_nodes_beyond_length :
  forall bs : list bytes,
         sumN (map len bs) <= u64_max ->
         forall (rt : mtree) (rtf : file) (i : N), t_length rt <= i -> missing_nodes rt rtf (2 * i) = Ok 0.
Proof. exact missing_nodes_beyond. Qed.

Theorem C03_hash_request_served :
  forall (cr : crypto) (bs : list bytes),
         sumN (map len bs) <= u64_max ->
         forall (t : mtree) (tf : file) (rt : mtree) (rtf : file) (w : N) (d : nat) (a k : N) (pk : bytes),
         Refine.lookups cr t tf bs w ->
         t_length t = w ->
         0 < w ->
         t_length rt <= w ->
         2 * w <= u64_max ->
         (forall (j : N) (n : node),
          optional_node rt rtf j = Ok (Some n) -> n_hash n = n_hash (TreeRef.ref_at cr bs j)) ->
         (a + 1) * OffsetFacts.p2 d <= t_length rt ->
         missing_nodes rt rtf (ft_index (N.of_nat d) a) = Ok k ->
         let kk := N.to_nat k in
         (a / OffsetFacts.p2 kk + 1) * OffsetFacts.p2 (d + kk) <= t_length rt ->
         let ns := hash_nodes cr bs kk d a in
         exists cs : changeset,
           create_valueless_proof t tf None (Some {| rb_index := ft_index (N.of_nat d) a; rb_nodes := k |})
             None None =
           Ok
             {|
               vp_fork := t_fork t;
               vp_block := None;
               vp_hash := Some {| dh_index := ft_index (N.of_nat d) a; dh_nodes := ns |};
               vp_seek := None;
               vp_upgrade := None
             |} /\
           verify_proof cr rt rtf
             {|
               p_fork := t_fork t;
               p_block := None;
               p_hash := Some {| dh_index := ft_index (N.of_nat d) a; dh_nodes := ns |};
               p_seek := None;
               p_upgrade := None
             |} pk = Ok cs /\
           cs_upgraded cs = false /\
           commitable rt cs = true /\
           cs_roots cs = t_roots rt /\
           Forall (TreeRef.is_ref cr bs) (cs_nodes cs) /\ (forall n : node, In n ns -> In n (cs_nodes cs)).
Proof. exact hash_request_served. Qed.

Theorem C03_hash_below_with_upgrade_accepted :
  forall (cr : crypto) (bs : list bytes),
         sumN (map len bs) <= u64_max ->
         forall (t : mtree) (tf : file) (rt : mtree) (rtf : file) (w r u : N) (d0 : nat) 
           (a0 k : N) (sg pk : bytes),
         Refine.lookups cr t tf bs w ->
         t_length t = w ->
         t_signature t = Some sg ->
         t_roots rt = TreeRef.ref_roots cr bs r ->
         t_length rt = r ->
         t_byte_length rt = TreeRef.prefix_size bs r ->
         (forall (j : N) (n : node),
          optional_node rt rtf j = Ok (Some n) -> n_hash n = n_hash (TreeRef.ref_at cr bs j)) ->
         0 < r ->
         r < u ->
         u <= w ->
         2 * w <= u64_max ->
         (a0 + 1) * OffsetFacts.p2 d0 <= r ->
         missing_nodes rt rtf (ft_index (N.of_nat d0) a0) = Ok k ->
         let kk := N.to_nat k in
         (a0 / OffsetFacts.p2 kk + 1) * OffsetFacts.p2 (d0 + kk) <= r ->
         Datatypes.length sg = 64%nat ->
         cr_verify cr pk (signable (tree_hash cr (TreeRef.ref_roots cr bs w)) w (t_fork t)) sg = true ->
         let idx := ft_index (N.of_nat d0) a0 in
         let ns := hash_nodes cr bs kk d0 a0 in
         let up :=
           {|
             du_start := r;
             du_length := u - r;
             du_nodes := map (TreeRef.rn cr bs) (upg_idx g64 0 r u);
             du_additional := if u <? w then map (TreeRef.rn cr bs) (upg_idx g64 0 u w) else [];
             du_signature := sg
           |} in
         exists cs : changeset,
           create_valueless_proof t tf None (Some {| rb_index := idx; rb_nodes := k |}) None
             (Some {| ru_start := r; ru_length := u - r |}) =
           Ok
             {|
               vp_fork := t_fork t;
               vp_block := None;
               vp_hash := Some {| dh_index := idx; dh_nodes := ns |};
               vp_seek := None;
               vp_upgrade := Some up
             |} /\
           verify_proof cr rt rtf
             {|
               p_fork := t_fork t;
               p_block := None;
               p_hash := Some {| dh_index := idx; dh_nodes := ns |};
               p_seek := None;
               p_upgrade := Some up
             |} pk = Ok cs /\
           cs_roots cs = TreeRef.ref_roots cr bs w /\
           cs_length cs = w /\
           cs_byte_length cs = TreeRef.prefix_size bs w /\
           cs_fork cs = t_fork t /\
           cs_upgraded cs = true /\
           cs_signature cs = Some sg /\
           cs_ancestors cs = r /\
           Forall (TreeRef.is_ref cr bs) (cs_nodes cs) /\
           In (TreeRef.ref_node cr bs d0 a0) (cs_nodes cs) /\ commitable rt cs = true.
Proof. exact hash_upgrade_below_accepted. Qed.

Theorem C03_hash_inside_upgrade_accepted :
  forall (cr : crypto) (bs : list bytes),
         sumN (map len bs) <= u64_max ->
         forall (t : mtree) (tf : file) (rt : mtree) (rtf : file) (w r u : N) (d0 : nat) 
           (a0 k : N) (sg pk : bytes) (l1 : list (nat * N)) (d : nat) (o : N) (l2 : list (nat * N)),
         Refine.lookups cr t tf bs w ->
         t_length t = w ->
         t_signature t = Some sg ->
         t_roots rt = TreeRef.ref_roots cr bs r ->
         t_length rt = r ->
         t_byte_length rt = TreeRef.prefix_size bs r ->
         0 < r ->
         r < u ->
         u <= w ->
         2 * w <= u64_max ->
         upg_idx g64 0 r u = l1 ++ (d, o) :: l2 ->
         (d0 <= d)%nat ->
         o * OffsetFacts.p2 (d - d0) <= a0 ->
         a0 < (o + 1) * OffsetFacts.p2 (d - d0) ->
         Datatypes.length sg = 64%nat ->
         cr_verify cr pk (signable (tree_hash cr (TreeRef.ref_roots cr bs w)) w (t_fork t)) sg = true ->
         let idx := ft_index (N.of_nat d0) a0 in
         let ns := hash_nodes cr bs (d - d0) d0 a0 in
         let up :=
           {|
             du_start := r;
             du_length := u - r;
             du_nodes := map (TreeRef.rn cr bs) (l1 ++ l2);
             du_additional := if u <? w then map (TreeRef.rn cr bs) (upg_idx g64 0 u w) else [];
             du_signature := sg
           |} in
         exists cs : changeset,
           create_valueless_proof t tf None (Some {| rb_index := idx; rb_nodes := k |}) None
             (Some {| ru_start := r; ru_length := u - r |}) =
           Ok
             {|
               vp_fork := t_fork t;
               vp_block := None;
               vp_hash := Some {| dh_index := idx; dh_nodes := ns |};
               vp_seek := None;
               vp_upgrade := Some up
             |} /\
           verify_proof cr rt rtf
             {|
               p_fork := t_fork t;
               p_block := None;
               p_hash := Some {| dh_index := idx; dh_nodes := ns |};
               p_seek := None;
               p_upgrade := Some up
             |} pk = Ok cs /\
           cs_roots cs = TreeRef.ref_roots cr bs w /\
           cs_length cs = w /\
           cs_byte_length cs = TreeRef.prefix_size bs w /\
           cs_fork cs = t_fork t /\
           cs_upgraded cs = true /\
           cs_signature cs = Some sg /\
           cs_ancestors cs = r /\
           Forall (TreeRef.is_ref cr bs) (cs_nodes cs) /\
           In (TreeRef.ref_node cr bs d0 a0) (cs_nodes cs) /\ commitable rt cs = true.
Proof. exact hash_upgrade_inside_accepted. Qed.

Theorem C03_seek_with_upgrade_accepted :
  forall (cr : crypto) (bs : list bytes),
         sumN (map len bs) <= u64_max ->
         forall (t : mtree) (tf : file) (rt : mtree) (rtf : file) (w r u bytes0 : N) (sg pk : bytes),
         Refine.lookups cr t tf bs w ->
         t_length t = w ->
         t_signature t = Some sg ->
         t_roots rt = TreeRef.ref_roots cr bs r ->
         t_length rt = r ->
         t_byte_length rt = TreeRef.prefix_size bs r ->
         0 < r ->
         r < u ->
         u <= w ->
         2 * w <= u64_max ->
         Datatypes.length sg = 64%nat ->
         cr_verify cr pk (signable (tree_hash cr (TreeRef.ref_roots cr bs w)) w (t_fork t)) sg = true ->
         exists (vp : vproof) (cs : changeset),
           create_valueless_proof t tf None None (Some {| rs_bytes := bytes0 |})
             (Some {| ru_start := r; ru_length := u - r |}) = Ok vp /\
           vp_block vp = None /\
           vp_hash vp = None /\
           vp_fork vp = t_fork t /\
           verify_proof cr rt rtf (vp_to_proof vp None) pk = Ok cs /\
           cs_roots cs = TreeRef.ref_roots cr bs w /\
           cs_length cs = w /\
           cs_byte_length cs = TreeRef.prefix_size bs w /\
           cs_fork cs = t_fork t /\
           cs_upgraded cs = true /\
           cs_signature cs = Some sg /\
           cs_ancestors cs = r /\ Forall (TreeRef.is_ref cr bs) (cs_nodes cs) /\ commitable rt cs = true.
Proof. exact seek_upgrade_accepted. Qed.

Theorem C03_honest_block_proof_applied_end_to_end :
  forall cr : crypto,
         (forall x : bytes, Datatypes.length (cr_hash cr x) = 32%nat) ->
         (forall x : bytes, all_zero (cr_hash cr x) = false) ->
         forall (bs : list bytes) (c : core) (d : disk) (jn : list sop) (ev : list event) 
           (r i : N) (k : nat) (o : N),
         Replicate2E.RInv cr bs c d r ->
         i < r ->
         (k < CLIMB)%nat ->
         o * OffsetFacts.p2 k <= i ->
         i < (o + 1) * OffsetFacts.p2 k ->
         (o + 1) * OffsetFacts.p2 k <= r ->
         (exists n0 : node, optional_node (c_tree c) (d_tree d) (ft_index (N.of_nat k) o) = Ok (Some n0)) ->
         path_reads cr bs (c_tree c) (d_tree d) r (o * OffsetFacts.p2 k) ->
         (forall b : bytes,
          enc_entry
            {|
              e_nodes := TreeRef.ref_node cr bs 0 i :: path_vis cr bs k 0 i;
              e_upgrade := None;
              e_bitfield := Some {| bu_drop := false; bu_start := i; bu_length := 1 |}
            |} = Ok b -> len b < 1073741824) ->
         exists (c' : core) (d' : disk) (jn' : list sop),
           core_apply_proof cr (Some false) (block_proof cr bs (t_fork (c_tree c)) i k) c
             {| w_disk := d; w_journal := jn; w_events := ev |} =
           (c', {| w_disk := d'; w_journal := jn'; w_events := EvHave i 1 false :: ev |}, Ok true) /\
           Replicate2E.RInv cr bs c' d' r /\
           core_has c' i = true /\
           d_data d' = f_write (d_data d) (TreeRef.prefix_size bs i) (TreeRef.blk bs i) /\
           f_read (d_data d') (TreeRef.prefix_size bs i) (len (TreeRef.blk bs i)) = Some (TreeRef.blk bs i) /\
           (forall (jn2 : list sop) (ev2 : list event),
            core_get i c' {| w_disk := d'; w_journal := jn2; w_events := ev2 |} =
            (c', {| w_disk := d'; w_journal := jn2; w_events := ev2 |}, Ok (Some (TreeRef.blk bs i)))) /\
           (forall j : N, core_has c j = true -> core_has c' j = true).
Proof. exact apply_block_proof. Qed.

Theorem C03_honest_upgrade_proof_applied_end_to_end :
  forall cr : crypto,
         (forall x : bytes, Datatypes.length (cr_hash cr x) = 32%nat) ->
         (forall x : bytes, all_zero (cr_hash cr x) = false) ->
         forall (bs : list bytes) (c : core) (d : disk) (jn : list sop) (ev : list event) 
           (r w : N) (up : data_upgrade) (cs : changeset) (hash sg : bytes),
         Replicate2E.RInv cr bs c d r ->
         r <= w ->
         2 * w <= u64_max ->
         verify_proof cr (c_tree c) (d_tree d)
           {|
             p_fork := t_fork (c_tree c); p_block := None; p_hash := None; p_seek := None; p_upgrade := Some up
           |} (kp_public (c_keypair c)) = Ok cs ->
         cs_roots cs = TreeRef.ref_roots cr bs w ->
         cs_length cs = w ->
         cs_byte_length cs = TreeRef.prefix_size bs w ->
         cs_upgraded cs = true ->
         cs_hash cs = Some hash ->
         cs_signature cs = Some sg ->
         cs_ancestors cs = r ->
         Forall (TreeRef.is_ref cr bs) (cs_nodes cs) ->
         commitable (c_tree c) cs = true ->
         (forall b : bytes,
          enc_entry
            {|
              e_nodes := cs_nodes cs;
              e_upgrade :=
                Some
                  {|
                    tu_fork := cs_fork cs;
                    tu_ancestors := cs_ancestors cs;
                    tu_length := cs_length cs;
                    tu_signature := sg
                  |};
              e_bitfield := None
            |} = Ok b -> len b < 1073741824) ->
         exists (c' : core) (d' : disk) (jn' : list sop),
           core_apply_proof cr (Some false)
             {|
               p_fork := t_fork (c_tree c);
               p_block := None;
               p_hash := None;
               p_seek := None;
               p_upgrade := Some up
             |} c {| w_disk := d; w_journal := jn; w_events := ev |} =
           (c', {| w_disk := d'; w_journal := jn'; w_events := EvUpgrade :: ev |}, Ok true) /\
           Replicate2E.RInv cr bs c' d' w /\
           d_data d' = d_data d /\ c_bitfield c' = c_bitfield c /\ t_length (c_tree c') = w.
Proof. exact apply_upgrade_proof. Qed.

Theorem C03_block_stored_at_prefix_sum_offset :
  forall (cr : crypto) (bs : list bytes),
         sumN (map len bs) <= u64_max ->
         forall (rt : mtree) (rtf : file) (r i : N) (k : nat) (o : N),
         t_roots rt = TreeRef.ref_roots cr bs r ->
         t_length rt = r ->
         i < r ->
         i * 2 <= u64_max ->
         o * OffsetFacts.p2 k <= i ->
         i < (o + 1) * OffsetFacts.p2 k ->
         (position_of (ft_index (N.of_nat k) o) (t_roots rt) 0 = None ->
          byte_offset_from_nodes rt rtf (ft_index (N.of_nat k) o) =
          Ok (TreeRef.prefix_size bs (o * OffsetFacts.p2 k))) ->
         forall cs : changeset,
         cs_nodes cs = TreeRef.ref_node cr bs 0 i :: path_vis cr bs k 0 i ->
         cs_roots cs = t_roots rt -> byte_offset_in_changeset rt rtf i cs = Ok (TreeRef.prefix_size bs i).
Proof. exact block_offset_in_changeset. Qed.

Theorem C03_unheld_block_yields_no_proof :
  forall (cr : crypto) (kp : keypair) (sk : bytes),
         OplogFacts.crc_ok cr ->
         (forall x : bytes, Datatypes.length (cr_hash cr x) = 32%nat) ->
         (forall x : bytes, all_zero (cr_hash cr x) = false) ->
         (forall x : bytes, bytes_ok (cr_hash cr x) = true) ->
         (forall k m : bytes, Datatypes.length (cr_sign cr k m) = 64%nat) ->
         (forall k m : bytes, bytes_ok (cr_sign cr k m) = true) ->
         OplogFacts.keypair_ok kp = true ->
         kp_secret kp = Some sk ->
         forall (c : core) (d : disk) (bs : list bytes) (cl : N -> bool) (j : list sop) 
           (ev : list event) (rb : req_block) (hash : option req_block) (seek : option req_seek)
           (upgrade : option req_upgrade) (c' : core) (w' : world) (r : res (option proof)),
         wreach cr kp c d bs cl ->
         held (N.of_nat (Datatypes.length bs)) cl (rb_index rb) = false ->
         core_create_proof (Some rb) hash seek upgrade c {| w_disk := d; w_journal := j; w_events := ev |} =
         (c', w', r) ->
         c' = c /\
         match r with
         | Ok (Some _) => False
         | Ok None => w' = {| w_disk := d; w_journal := j; w_events := EvGet (rb_index rb) :: ev |}
         | Err _ =>
             w' = {| w_disk := d; w_journal := j; w_events := ev |} /\
             r =
             match create_valueless_proof (c_tree c) (d_tree d) (Some rb) hash seek upgrade with
             | Ok _ => r
             | Err e0 => Err e0
             | Panic s => Panic s
             | OutOfFuel => OutOfFuel
             end
         | _ =>
             w' = {| w_disk := d; w_journal := j; w_events := ev |} /\
             r =
             match create_valueless_proof (c_tree c) (d_tree d) (Some rb) hash seek upgrade with
             | Ok _ => r
             | Err e => Err e
             | Panic s => Panic s
             | OutOfFuel => OutOfFuel
             end
         end.
Proof. exact C03_unheld_block_yields_no_proof. Qed.

Theorem C03_create_proof_determined :
  forall (cr : crypto) (c : core) (d : disk) (bs : list bytes) (cl : N -> bool) 
           (j : list sop) (ev : list event) (block hash : option req_block) (seek : option req_seek)
           (upgrade : option req_upgrade),
         FInv cr c d bs cl ->
         core_create_proof block hash seek upgrade c {| w_disk := d; w_journal := j; w_events := ev |} =
         match create_valueless_proof (c_tree c) (d_tree d) block hash seek upgrade with
         | Ok vp =>
             match vp_block vp with
             | Some b =>
                 if held (N.of_nat (Datatypes.length bs)) cl (dh_index b)
                 then
                  (c, {| w_disk := d; w_journal := j; w_events := ev |},
                   Ok
                     (Some
                        {|
                          p_fork := vp_fork vp;
                          p_block :=
                            Some
                              {|
                                db_index := dh_index b;
                                db_value := nth (N.to_nat (dh_index b)) bs [];
                                db_nodes := dh_nodes b
                              |};
                          p_hash := vp_hash vp;
                          p_seek := vp_seek vp;
                          p_upgrade := vp_upgrade vp
                        |}))
                 else (c, {| w_disk := d; w_journal := j; w_events := EvGet (dh_index b) :: ev |}, Ok None)
             | None =>
                 (c, {| w_disk := d; w_journal := j; w_events := ev |},
                  Ok
                    (Some
                       {|
                         p_fork := vp_fork vp;
                         p_block := None;
                         p_hash := vp_hash vp;
                         p_seek := vp_seek vp;
                         p_upgrade := vp_upgrade vp
                       |}))
             end
         | Err e => (c, {| w_disk := d; w_journal := j; w_events := ev |}, Err e)
         | Panic s => (c, {| w_disk := d; w_journal := j; w_events := ev |}, Panic s)
         | OutOfFuel => (c, {| w_disk := d; w_journal := j; w_events := ev |}, OutOfFuel)
         end.
Proof. exact create_proof_run. Qed.

Theorem C03_every_wellformed_request_accepted :
  forall (cr : crypto) (bs : list bytes),
         sumN (map len bs) <= u64_max ->
         forall (t : mtree) (tf : file) (w : N) (sg : bytes),
         Refine.lookups cr t tf bs w ->
         t_length t = w ->
         t_roots t = TreeRef.ref_roots cr bs w ->
         t_signature t = Some sg ->
         2 * w <= u64_max ->
         forall (rt : mtree) (rtf : file) (r : N),
         t_roots rt = TreeRef.ref_roots cr bs r ->
         t_length rt = r ->
         t_byte_length rt = TreeRef.prefix_size bs r ->
         r <= w ->
         (forall (j : N) (n : node),
          optional_node rt rtf j = Ok (Some n) -> n_hash n = n_hash (TreeRef.ref_at cr bs j)) ->
         forall pk : bytes,
         Datatypes.length sg = 64%nat ->
         cr_verify cr pk (signable (tree_hash cr (TreeRef.ref_roots cr bs w)) w (t_fork t)) sg = true ->
         forall rq : request, wf_request bs rt rtf w rq -> accepted cr bs t tf rt rtf w sg pk rq.
Proof. exact wellformed_request_accepted. Qed.

Theorem C03_first_contact_block_with_upgrade_accepted :
  forall (cr : crypto) (bs : list bytes),
         sumN (map len bs) <= u64_max ->
         forall (t : mtree) (tf : file) (rt : mtree) (rtf : file) (w u i k : N) (sg pk : bytes),
         Refine.lookups cr t tf bs w ->
         t_length t = w ->
         t_signature t = Some sg ->
         t_roots rt = [] ->
         t_length rt = 0 ->
         t_byte_length rt = 0 ->
         0 < u ->
         u <= w ->
         2 * w <= u64_max ->
         i < u ->
         Datatypes.length sg = 64%nat ->
         cr_verify cr pk (signable (tree_hash cr (TreeRef.ref_roots cr bs w)) w (t_fork t)) sg = true ->
         exists (l1 : list (nat * N)) (y : nat * N) (l2 : list (nat * N)) (cs : changeset),
           roots_from g64 0 u = l1 ++ y :: l2 /\
           covers y i = true /\
           (let ns := path_nodes cr bs (fst y) i in
            let up :=
              {|
                du_start := 0;
                du_length := u;
                du_nodes := map (TreeRef.rn cr bs) (l1 ++ l2);
                du_additional := if u <? w then map (TreeRef.rn cr bs) (upg_idx g64 0 u w) else [];
                du_signature := sg
              |} in
            create_valueless_proof t tf (Some {| rb_index := i; rb_nodes := k |}) None None
              (Some {| ru_start := 0; ru_length := u |}) =
            Ok
              {|
                vp_fork := t_fork t;
                vp_block := Some {| dh_index := i; dh_nodes := ns |};
                vp_hash := None;
                vp_seek := None;
                vp_upgrade := Some up
              |} /\
            verify_proof cr rt rtf
              {|
                p_fork := t_fork t;
                p_block := Some {| db_index := i; db_value := TreeRef.blk bs i; db_nodes := ns |};
                p_hash := None;
                p_seek := None;
                p_upgrade := Some up
              |} pk = Ok cs /\
            cs_roots cs = TreeRef.ref_roots cr bs w /\
            cs_length cs = w /\
            cs_byte_length cs = TreeRef.prefix_size bs w /\
            cs_fork cs = t_fork t /\
            cs_upgraded cs = true /\
            cs_signature cs = Some sg /\
            cs_hash cs = Some (tree_hash cr (TreeRef.ref_roots cr bs w)) /\
            cs_ancestors cs = 0 /\
            Forall (TreeRef.is_ref cr bs) (cs_nodes cs) /\
            In (TreeRef.ref_node cr bs 0 i) (cs_nodes cs) /\
            (forall n : node, In n ns -> In n (cs_nodes cs)) /\ commitable rt cs = true).
Proof. exact block_upgrade_empty_accepted. Qed.

Theorem C03_seek_with_block_served :
  forall (cr : crypto) (bs : list bytes),
         sumN (map len bs) <= u64_max ->
         forall (t : mtree) (tf : file) (rt : mtree) (rtf : file) (w i k bytes0 : N) (pk : bytes),
         Refine.lookups cr t tf bs w ->
         t_length t = w ->
         t_roots t = TreeRef.ref_roots cr bs w ->
         t_length rt <= w ->
         2 * w <= u64_max ->
         (forall (j : N) (n : node),
          optional_node rt rtf j = Ok (Some n) -> n_hash n = n_hash (TreeRef.ref_at cr bs j)) ->
         i < t_length rt ->
         missing_nodes rt rtf (2 * i) = Ok k ->
         let kk := N.to_nat k in
         let o := i / OffsetFacts.p2 kk in
         (o + 1) * OffsetFacts.p2 kk <= t_length rt ->
         seek_in_range (TreeRef.prefix_size bs (o * OffsetFacts.p2 kk))
           (TreeRef.prefix_size bs ((o + 1) * OffsetFacts.p2 kk)) bytes0 ->
         exists (sk : option (list node)) (ns : list node) (cs : changeset),
           create_valueless_proof t tf (Some {| rb_index := i; rb_nodes := k |}) None
             (Some {| rs_bytes := bytes0 |}) None =
           Ok
             {|
               vp_fork := t_fork t;
               vp_block := Some {| dh_index := i; dh_nodes := ns |};
               vp_hash := None;
               vp_seek := option_map (mkDataSeek bytes0) sk;
               vp_upgrade := None
             |} /\
           verify_proof cr rt rtf
             {|
               p_fork := t_fork t;
               p_block := Some {| db_index := i; db_value := TreeRef.blk bs i; db_nodes := ns |};
               p_hash := None;
               p_seek := option_map (mkDataSeek bytes0) sk;
               p_upgrade := None
             |} pk = Ok cs /\
           cs_upgraded cs = false /\
           commitable rt cs = true /\
           cs_roots cs = t_roots rt /\
           Forall (TreeRef.is_ref cr bs) (cs_nodes cs) /\ In (TreeRef.ref_node cr bs 0 i) (cs_nodes cs).
Proof. exact seek_block_served. Qed.

Theorem C03_seek_with_hash_served :
  forall (cr : crypto) (bs : list bytes),
         sumN (map len bs) <= u64_max ->
         forall (t : mtree) (tf : file) (rt : mtree) (rtf : file) (w : N) (d0 : nat) 
           (a0 k bytes0 : N) (pk : bytes),
         Refine.lookups cr t tf bs w ->
         t_length t = w ->
         t_roots t = TreeRef.ref_roots cr bs w ->
         t_length rt <= w ->
         2 * w <= u64_max ->
         (forall (j : N) (n : node),
          optional_node rt rtf j = Ok (Some n) -> n_hash n = n_hash (TreeRef.ref_at cr bs j)) ->
         (a0 + 1) * OffsetFacts.p2 d0 <= t_length rt ->
         missing_nodes rt rtf (ft_index (N.of_nat d0) a0) = Ok k ->
         let kk := N.to_nat k in
         let o := a0 / OffsetFacts.p2 kk in
         (o + 1) * OffsetFacts.p2 (d0 + kk) <= t_length rt ->
         seek_in_range (TreeRef.prefix_size bs (o * OffsetFacts.p2 (d0 + kk)))
           (TreeRef.prefix_size bs ((o + 1) * OffsetFacts.p2 (d0 + kk))) bytes0 ->
         let idx := ft_index (N.of_nat d0) a0 in
         exists (sk : option (list node)) (ns : list node) (cs : changeset),
           create_valueless_proof t tf None (Some {| rb_index := idx; rb_nodes := k |})
             (Some {| rs_bytes := bytes0 |}) None =
           Ok
             {|
               vp_fork := t_fork t;
               vp_block := None;
               vp_hash := Some {| dh_index := idx; dh_nodes := ns |};
               vp_seek := option_map (mkDataSeek bytes0) sk;
               vp_upgrade := None
             |} /\
           verify_proof cr rt rtf
             {|
               p_fork := t_fork t;
               p_block := None;
               p_hash := Some {| dh_index := idx; dh_nodes := ns |};
               p_seek := option_map (mkDataSeek bytes0) sk;
               p_upgrade := None
             |} pk = Ok cs /\
           cs_upgraded cs = false /\
           commitable rt cs = true /\
           cs_roots cs = t_roots rt /\
           Forall (TreeRef.is_ref cr bs) (cs_nodes cs) /\ In (TreeRef.ref_node cr bs d0 a0) (cs_nodes cs).
Proof. exact seek_hash_served. Qed.

Theorem C03_seek_block_upgrade_accepted :
  forall (cr : crypto) (bs : list bytes),
         sumN (map len bs) <= u64_max ->
         forall (t : mtree) (tf : file) (rt : mtree) (rtf : file) (w r u i k bytes0 : N) (sg pk : bytes),
         Refine.lookups cr t tf bs w ->
         t_length t = w ->
         t_roots t = TreeRef.ref_roots cr bs w ->
         t_signature t = Some sg ->
         t_roots rt = TreeRef.ref_roots cr bs r ->
         t_length rt = r ->
         t_byte_length rt = TreeRef.prefix_size bs r ->
         (forall (j : N) (n : node),
          optional_node rt rtf j = Ok (Some n) -> n_hash n = n_hash (TreeRef.ref_at cr bs j)) ->
         0 < r ->
         r < u ->
         u <= w ->
         2 * w <= u64_max ->
         i < r ->
         missing_nodes rt rtf (2 * i) = Ok k ->
         let kk := N.to_nat k in
         let o := i / OffsetFacts.p2 kk in
         (o + 1) * OffsetFacts.p2 kk <= r ->
         seek_in_range (TreeRef.prefix_size bs (o * OffsetFacts.p2 kk))
           (TreeRef.prefix_size bs ((o + 1) * OffsetFacts.p2 kk)) bytes0 ->
         Datatypes.length sg = 64%nat ->
         cr_verify cr pk (signable (tree_hash cr (TreeRef.ref_roots cr bs w)) w (t_fork t)) sg = true ->
         let up :=
           {|
             du_start := r;
             du_length := u - r;
             du_nodes := map (TreeRef.rn cr bs) (upg_idx g64 0 r u);
             du_additional := if u <? w then map (TreeRef.rn cr bs) (upg_idx g64 0 u w) else [];
             du_signature := sg
           |} in
         exists (sk : option (list node)) (ns : list node) (cs : changeset),
           create_valueless_proof t tf (Some {| rb_index := i; rb_nodes := k |}) None
             (Some {| rs_bytes := bytes0 |}) (Some {| ru_start := r; ru_length := u - r |}) =
           Ok
             {|
               vp_fork := t_fork t;
               vp_block := Some {| dh_index := i; dh_nodes := ns |};
               vp_hash := None;
               vp_seek := option_map (mkDataSeek bytes0) sk;
               vp_upgrade := Some up
             |} /\
           verify_proof cr rt rtf
             {|
               p_fork := t_fork t;
               p_block := Some {| db_index := i; db_value := TreeRef.blk bs i; db_nodes := ns |};
               p_hash := None;
               p_seek := option_map (mkDataSeek bytes0) sk;
               p_upgrade := Some up
             |} pk = Ok cs /\
           cs_roots cs = TreeRef.ref_roots cr bs w /\
           cs_length cs = w /\
           cs_byte_length cs = TreeRef.prefix_size bs w /\
           cs_fork cs = t_fork t /\
           cs_upgraded cs = true /\
           cs_signature cs = Some sg /\
           cs_hash cs = Some (tree_hash cr (TreeRef.ref_roots cr bs w)) /\
           cs_ancestors cs = r /\
           Forall (TreeRef.is_ref cr bs) (cs_nodes cs) /\
           In (TreeRef.ref_node cr bs 0 i) (cs_nodes cs) /\ commitable rt cs = true.
Proof. exact seek_block_upgrade_accepted. Qed.

Theorem C03_replication_round_at_core_level :
  forall cr : crypto,
         OplogFacts.crc_ok cr ->
         (forall x : bytes, Datatypes.length (cr_hash cr x) = 32%nat) ->
         (forall x : bytes, all_zero (cr_hash cr x) = false) ->
         (forall x : bytes, bytes_ok (cr_hash cr x) = true) ->
         forall bs : list bytes,
         writer_fits bs ->
         forall (f : option bool) (cw : core) (dw : disk) (bw : list bytes) (sg : bytes) 
           (jw : list sop) (evw : list event) (c : core) (d : disk) (j : list sop) 
           (ev : list event) (H : N -> bool) (rq : request),
         let w := N.of_nat (Datatypes.length bw) in
         let pk := kp_public (c_keypair c) in
         writer_at cr bs cw dw bw pk sg ->
         RCInv cr bs c d H ->
         t_length (c_tree c) <= w ->
         wf_request bs (c_tree c) (d_tree d) w rq ->
         AcceptAllCore1.core_scope w rq ->
         (forall vp : vproof,
          create_valueless_proof (c_tree cw) (d_tree dw) (rq_block rq) (rq_hash rq) 
            (rq_seek rq) (rq_upgrade rq) = Ok vp -> frame_guard cr c d (vp_to_proof vp (rq_value bs rq))) ->
         exists pf : proof,
           core_create_proof (rq_block rq) (rq_hash rq) (rq_seek rq) (rq_upgrade rq) cw
             {| w_disk := dw; w_journal := jw; w_events := evw |} =
           (cw, {| w_disk := dw; w_journal := jw; w_events := evw |}, Ok (Some pf)) /\
           (forall i : N,
            hold H (p_block pf) i =
            match rq_block rq with
            | Some b => (i =? rb_index b) || H i
            | None => H i
            end) /\
           ((exists (c' : core) (w' : world),
               core_apply_proof cr f pf c {| w_disk := d; w_journal := j; w_events := ev |} = (c', w', Ok true) /\
               RCInv cr bs c' (w_disk w') (hold H (p_block pf)) /\
               t_length (c_tree c') = rq_target (c_tree c) (rq_upgrade rq) /\ c_keypair c' = c_keypair c) \/
            some_collision cr \/ forged_signature cr bs pk).
Proof. exact replication_round. Qed.

Theorem C03_replicas_converge :
  forall cr : crypto,
         OplogFacts.crc_ok cr ->
         (forall x : bytes, Datatypes.length (cr_hash cr x) = 32%nat) ->
         (forall x : bytes, all_zero (cr_hash cr x) = false) ->
         (forall x : bytes, bytes_ok (cr_hash cr x) = true) ->
         forall bs : list bytes,
         writer_fits bs ->
         forall (es : list revent) (c : core) (d : disk) (j : list sop) (ev : list event) (H : N -> bool),
         RCInv cr bs c d H ->
         hist cr bs es c {| w_disk := d; w_journal := j; w_events := ev |} ->
         (exists (c' : core) (w' : world),
            run cr es c {| w_disk := d; w_journal := j; w_events := ev |} = Some (c', w') /\
            RCInv cr bs c' (w_disk w') (held_all H es) /\
            c_keypair c' = c_keypair c /\
            t_length (c_tree c) <= t_length (c_tree c') /\
            (forall i : N, requested es i -> core_has c' i = true) /\
            (forall i : N, H i = true -> core_has c' i = true) /\
            (forall (i : N) (j2 : list sop) (ev2 : list event),
             core_has c' i = true ->
             core_get i c' {| w_disk := w_disk w'; w_journal := j2; w_events := ev2 |} =
             (c', {| w_disk := w_disk w'; w_journal := j2; w_events := ev2 |}, Ok (Some (TreeRef.blk bs i))))) \/
         some_collision cr \/ forged_signature cr bs (kp_public (c_keypair c)).
Proof. exact replicas_converge. Qed.

Theorem C03_fresh_replicas_converge :
  forall cr : crypto,
         OplogFacts.crc_ok cr ->
         (forall x : bytes, Datatypes.length (cr_hash cr x) = 32%nat) ->
         (forall x : bytes, all_zero (cr_hash cr x) = false) ->
         (forall x : bytes, bytes_ok (cr_hash cr x) = true) ->
         forall bs : list bytes,
         writer_fits bs ->
         forall (kp : keypair) (es : list revent),
         OplogFacts.keypair_ok kp = true ->
         kp_secret kp = None ->
         exists (d0 : disk) (ops0 : list sop) (c0 : core),
           core_open cr (Some kp) false disk_empty = (d0, ops0, Ok c0) /\
           (hist cr bs es c0 {| w_disk := d0; w_journal := []; w_events := [] |} ->
            (exists (c' : core) (w' : world),
               run cr es c0 {| w_disk := d0; w_journal := []; w_events := [] |} = Some (c', w') /\
               RCInv cr bs c' (w_disk w') (held_all (fun _ : N => false) es) /\
               (forall i : N, requested es i -> core_has c' i = true) /\
               (forall (i : N) (j2 : list sop) (ev2 : list event),
                core_has c' i = true ->
                core_get i c' {| w_disk := w_disk w'; w_journal := j2; w_events := ev2 |} =
                (c', {| w_disk := w_disk w'; w_journal := j2; w_events := ev2 |}, Ok (Some (TreeRef.blk bs i))))) \/
            some_collision cr \/ forged_signature cr bs (kp_public kp)).
Proof. exact fresh_replicas_converge. Qed.

Theorem C03_honest_round_every_wellformed_request :
  forall cr : crypto,
         OplogFacts.crc_ok cr ->
         (forall x : bytes, Datatypes.length (cr_hash cr x) = 32%nat) ->
         (forall x : bytes, all_zero (cr_hash cr x) = false) ->
         (forall x : bytes, bytes_ok (cr_hash cr x) = true) ->
         forall bs : list bytes,
         writer_fits bs ->
         forall (f : option bool) (cw : core) (dw : disk) (bw : list bytes) (sg : bytes) 
           (jw : list sop) (evw : list event) (c : core) (d : disk) (j : list sop) 
           (ev : list event) (H : N -> bool) (rq : request),
         let w := N.of_nat (Datatypes.length bw) in
         let pk := kp_public (c_keypair c) in
         writer_at cr bs cw dw bw pk sg ->
         RCInv cr bs c d H ->
         t_length (c_tree c) <= w ->
         wf_request bs (c_tree c) (d_tree d) w rq ->
         (forall vp : vproof,
          create_valueless_proof (c_tree cw) (d_tree dw) (rq_block rq) (rq_hash rq) 
            (rq_seek rq) (rq_upgrade rq) = Ok vp -> frame_guard cr c d (vp_to_proof vp (rq_value bs rq))) ->
         exists (pf : proof) (cs : changeset) (c' : core) (w' : world),
           core_create_proof (rq_block rq) (rq_hash rq) (rq_seek rq) (rq_upgrade rq) cw
             {| w_disk := dw; w_journal := jw; w_events := evw |} =
           (cw, {| w_disk := dw; w_journal := jw; w_events := evw |}, Ok (Some pf)) /\
           verifier_says cr c {| w_disk := d; w_journal := j; w_events := ev |} pf = Ok cs /\
           core_apply_proof cr f pf c {| w_disk := d; w_journal := j; w_events := ev |} = (c', w', Ok true) /\
           RCInv cr bs c' (w_disk w') (held_rq H rq) /\
           t_length (c_tree c') = match rq_upgrade rq with
                                  | Some _ => w
                                  | None => t_length (c_tree c)
                                  end /\
           t_byte_length (c_tree c') = TreeRef.prefix_size bs (t_length (c_tree c')) /\
           c_keypair c' = c_keypair c /\
           (forall x : node,
            In x (cs_nodes cs) ->
            required_node (c_tree c') (d_tree (w_disk w')) (n_index x) = Ok (TreeRef.ref_at cr bs (n_index x))) /\
           (forall k : N,
            rq_node rq = Some k ->
            required_node (c_tree c') (d_tree (w_disk w')) k = Ok (TreeRef.ref_at cr bs k)).
Proof. exact honest_round. Qed.

Theorem C03_honest_replicas_converge :
  forall cr : crypto,
         OplogFacts.crc_ok cr ->
         (forall x : bytes, Datatypes.length (cr_hash cr x) = 32%nat) ->
         (forall x : bytes, all_zero (cr_hash cr x) = false) ->
         (forall x : bytes, bytes_ok (cr_hash cr x) = true) ->
         forall bs : list bytes,
         writer_fits bs ->
         forall (es : list revent) (c : core) (d : disk) (j : list sop) (ev : list event) (H : N -> bool),
         RCInv cr bs c d H ->
         hist_all cr bs es c {| w_disk := d; w_journal := j; w_events := ev |} ->
         exists (c' : core) (w' : world),
           run cr es c {| w_disk := d; w_journal := j; w_events := ev |} = Some (c', w') /\
           RCInv cr bs c' (w_disk w') (held_all H es) /\
           c_keypair c' = c_keypair c /\
           t_length (c_tree c') = len_all (t_length (c_tree c)) es /\
           t_byte_length (c_tree c') = TreeRef.prefix_size bs (t_length (c_tree c')) /\
           t_length (c_tree c) <= t_length (c_tree c') /\
           (forall i : N, requested es i -> core_has c' i = true) /\
           (forall i : N, H i = true -> core_has c' i = true) /\
           (forall (i : N) (j2 : list sop) (ev2 : list event),
            core_has c' i = true ->
            core_get i c' {| w_disk := w_disk w'; w_journal := j2; w_events := ev2 |} =
            (c', {| w_disk := w_disk w'; w_journal := j2; w_events := ev2 |}, Ok (Some (TreeRef.blk bs i)))).
Proof. exact honest_replicas_converge. Qed.

Theorem C03_honest_fresh_replicas_converge :
  forall cr : crypto,
         OplogFacts.crc_ok cr ->
         (forall x : bytes, Datatypes.length (cr_hash cr x) = 32%nat) ->
         (forall x : bytes, all_zero (cr_hash cr x) = false) ->
         (forall x : bytes, bytes_ok (cr_hash cr x) = true) ->
         forall bs : list bytes,
         writer_fits bs ->
         forall (kp : keypair) (es : list revent),
         OplogFacts.keypair_ok kp = true ->
         kp_secret kp = None ->
         exists (d0 : disk) (ops0 : list sop) (c0 : core),
           core_open cr (Some kp) false disk_empty = (d0, ops0, Ok c0) /\
           (hist_all cr bs es c0 {| w_disk := d0; w_journal := []; w_events := [] |} ->
            exists (c' : core) (w' : world),
              run cr es c0 {| w_disk := d0; w_journal := []; w_events := [] |} = Some (c', w') /\
              RCInv cr bs c' (w_disk w') (held_all (fun _ : N => false) es) /\
              t_length (c_tree c') = len_all 0 es /\
              (forall i : N, requested es i -> core_has c' i = true) /\
              (forall (i : N) (j2 : list sop) (ev2 : list event),
               core_has c' i = true ->
               core_get i c' {| w_disk := w_disk w'; w_journal := j2; w_events := ev2 |} =
               (c', {| w_disk := w_disk w'; w_journal := j2; w_events := ev2 |}, Ok (Some (TreeRef.blk bs i))))).
Proof. exact honest_fresh_replicas_converge. Qed.

Theorem C03_apply_tail_honest :
  forall cr : crypto,
         OplogFacts.crc_ok cr ->
         (forall x : bytes, Datatypes.length (cr_hash cr x) = 32%nat) ->
         (forall x : bytes, all_zero (cr_hash cr x) = false) ->
         (forall x : bytes, bytes_ok (cr_hash cr x) = true) ->
         forall bs : list bytes,
         writer_fits bs ->
         forall (f : option bool) (pf : proof) (c : core) (d : disk) (j : list sop) 
           (ev : list event) (H : N -> bool) (cs : changeset),
         RCInv cr bs c d H ->
         p_fork pf = t_fork (c_tree c) ->
         verifier_says cr c {| w_disk := d; w_journal := j; w_events := ev |} pf = Ok cs ->
         commitable (c_tree c) cs = true ->
         honest_changeset cr bs c pf cs ->
         frame_guard cr c d pf ->
         exists (c' : core) (w' : world),
           core_apply_proof cr f pf c {| w_disk := d; w_journal := j; w_events := ev |} = (c', w', Ok true) /\
           RCInv cr bs c' (w_disk w') (hold H (p_block pf)) /\
           t_length (c_tree c') = (if cs_upgraded cs then cs_length cs else t_length (c_tree c)) /\
           c_keypair c' = c_keypair c /\
           (forall x : node,
            In x (cs_nodes cs) ->
            required_node (c_tree c') (d_tree (w_disk w')) (n_index x) = Ok (TreeRef.ref_at cr bs (n_index x))).
Proof. exact apply_tail_honest. Qed.

Theorem C03_offset_value :
  forall (cr : crypto) (bs : list bytes) (t : mtree) (tf : file) (r : N),
         AcceptAllClo.ClosedR t tf ->
         t_roots t = TreeRef.ref_roots cr bs r ->
         t_byte_length t = TreeRef.prefix_size bs r ->
         t_length t = r ->
         (forall (j : N) (n : node), required_node t tf j = Ok n -> n = TreeRef.ref_at cr bs j /\ in_len r j) ->
         2 * r <= u64_max ->
         sumN (map len bs) <= u64_max ->
         forall (i : N) (cs : changeset) (m : N),
         i * 2 <= u64_max ->
         Forall (TreeRef.is_ref cr bs) (cs_nodes cs) ->
         In (TreeRef.ref_node cr bs 0 i) (cs_nodes cs) ->
         cs_roots cs = TreeRef.ref_roots cr bs m ->
         (forall (l1 : list node) (x : node) (l2 : list node),
          cs_nodes cs = l1 ++ x :: l2 ->
          In (n_index x) (map n_index (cs_roots cs)) \/
          AcceptAllClo.navail t tf (n_index x) \/ In (ft_parent (n_index x)) (map n_index l2)) ->
         byte_offset_in_changeset t tf i cs = Ok (TreeRef.prefix_size bs i).
Proof. exact offset_value. Qed.

Theorem C03_frame_guard_discharged_for_honest_proofs :
  forall cr : crypto,
         (forall x : bytes, Datatypes.length (cr_hash cr x) = 32%nat) ->
         forall (c : core) (d : disk) (t : mtree) (tf : file) (block hash : option req_block)
           (seek : option req_seek) (upgrade : option req_upgrade) (vp : vproof) (v : option bytes),
         create_valueless_proof t tf block hash seek upgrade = Ok vp ->
         (Datatypes.length (t_roots (c_tree c)) <= 64)%nat -> frame_guard cr c d (vp_to_proof vp v).
Proof. exact frame_guard_discharged. Qed.

Theorem C03_honest_round_without_frame_premise :
  forall cr : crypto,
         OplogFacts.crc_ok cr ->
         (forall x : bytes, Datatypes.length (cr_hash cr x) = 32%nat) ->
         (forall x : bytes, all_zero (cr_hash cr x) = false) ->
         (forall x : bytes, bytes_ok (cr_hash cr x) = true) ->
         forall bs : list bytes,
         writer_fits bs ->
         forall (f : option bool) (cw : core) (dw : disk) (bw : list bytes) (sg : bytes) 
           (jw : list sop) (evw : list event) (c : core) (d : disk) (j : list sop) 
           (ev : list event) (H : N -> bool) (rq : request),
         let w := N.of_nat (Datatypes.length bw) in
         let pk := kp_public (c_keypair c) in
         writer_at cr bs cw dw bw pk sg ->
         RCInv cr bs c d H ->
         t_length (c_tree c) <= w ->
         wf_request bs (c_tree c) (d_tree d) w rq ->
         exists (pf : proof) (cs : changeset) (c' : core) (w' : world),
           core_create_proof (rq_block rq) (rq_hash rq) (rq_seek rq) (rq_upgrade rq) cw
             {| w_disk := dw; w_journal := jw; w_events := evw |} =
           (cw, {| w_disk := dw; w_journal := jw; w_events := evw |}, Ok (Some pf)) /\
           verifier_says cr c {| w_disk := d; w_journal := j; w_events := ev |} pf = Ok cs /\
           core_apply_proof cr f pf c {| w_disk := d; w_journal := j; w_events := ev |} = (c', w', Ok true) /\
           RCInv cr bs c' (w_disk w') (held_rq H rq) /\
           t_length (c_tree c') = match rq_upgrade rq with
                                  | Some _ => w
                                  | None => t_length (c_tree c)
                                  end /\
           t_byte_length (c_tree c') = TreeRef.prefix_size bs (t_length (c_tree c')) /\
           c_keypair c' = c_keypair c /\
           (forall x : node,
            In x (cs_nodes cs) ->
            required_node (c_tree c') (d_tree (w_disk w')) (n_index x) = Ok (TreeRef.ref_at cr bs (n_index x))) /\
           (forall k : N,
            rq_node rq = Some k ->
            required_node (c_tree c') (d_tree (w_disk w')) k = Ok (TreeRef.ref_at cr bs k)).
Proof. exact honest_round_no_guard. Qed.

Theorem C03_honest_replicas_converge_without_frame_premise :
  forall cr : crypto,
         OplogFacts.crc_ok cr ->
         (forall x : bytes, Datatypes.length (cr_hash cr x) = 32%nat) ->
         (forall x : bytes, all_zero (cr_hash cr x) = false) ->
         (forall x : bytes, bytes_ok (cr_hash cr x) = true) ->
         forall bs : list bytes,
         writer_fits bs ->
         forall (es : list revent) (c : core) (d : disk) (j : list sop) (ev : list event) (H : N -> bool),
         RCInv cr bs c d H ->
         hist_all_ng cr bs es c {| w_disk := d; w_journal := j; w_events := ev |} ->
         exists (c' : core) (w' : world),
           run cr es c {| w_disk := d; w_journal := j; w_events := ev |} = Some (c', w') /\
           RCInv cr bs c' (w_disk w') (held_all H es) /\
           c_keypair c' = c_keypair c /\
           t_length (c_tree c') = len_all (t_length (c_tree c)) es /\
           t_byte_length (c_tree c') = TreeRef.prefix_size bs (t_length (c_tree c')) /\
           t_length (c_tree c) <= t_length (c_tree c') /\
           (forall i : N, requested es i -> core_has c' i = true) /\
           (forall i : N, H i = true -> core_has c' i = true) /\
           (forall (i : N) (j2 : list sop) (ev2 : list event),
            core_has c' i = true ->
            core_get i c' {| w_disk := w_disk w'; w_journal := j2; w_events := ev2 |} =
            (c', {| w_disk := w_disk w'; w_journal := j2; w_events := ev2 |}, Ok (Some (TreeRef.blk bs i)))).
Proof. exact honest_replicas_converge_no_guard. Qed.

Theorem C03_fresh_honest_replicas_converge_without_frame_premise :
  forall cr : crypto,
         OplogFacts.crc_ok cr ->
         (forall x : bytes, Datatypes.length (cr_hash cr x) = 32%nat) ->
         (forall x : bytes, all_zero (cr_hash cr x) = false) ->
         (forall x : bytes, bytes_ok (cr_hash cr x) = true) ->
         forall bs : list bytes,
         writer_fits bs ->
         forall (kp : keypair) (es : list revent),
         OplogFacts.keypair_ok kp = true ->
         kp_secret kp = None ->
         exists (d0 : disk) (ops0 : list sop) (c0 : core),
           core_open cr (Some kp) false disk_empty = (d0, ops0, Ok c0) /\
           (hist_all_ng cr bs es c0 {| w_disk := d0; w_journal := []; w_events := [] |} ->
            exists (c' : core) (w' : world),
              run cr es c0 {| w_disk := d0; w_journal := []; w_events := [] |} = Some (c', w') /\
              RCInv cr bs c' (w_disk w') (held_all (fun _ : N => false) es) /\
              t_length (c_tree c') = len_all 0 es /\
              (forall i : N, requested es i -> core_has c' i = true) /\
              (forall (i : N) (j2 : list sop) (ev2 : list event),
               core_has c' i = true ->
               core_get i c' {| w_disk := w_disk w'; w_journal := j2; w_events := ev2 |} =
               (c', {| w_disk := w_disk w'; w_journal := j2; w_events := ev2 |}, Ok (Some (TreeRef.blk bs i))))).
Proof. exact honest_fresh_replicas_converge_no_guard. Qed.

Print Assumptions C03_block_request_served.
Print Assumptions C03_block_only_end_to_end.
Print Assumptions C03_block_only_accepted.
Print Assumptions C03_honest_inputs_give_honest_root.
Print Assumptions C03_prover_and_verifier_walk_agree.
Print Assumptions C03_block_proof_shape.
Print Assumptions C03_no_fabrication.
Print Assumptions C03_create_proof_value_or_none.
Print Assumptions C03_missing_nodes_meaning.
Print Assumptions C03_missing_nodes_request_wellformed.
Print Assumptions C03_block_only_changeset_commitable.
Print Assumptions C03_upgrade_only_accepted.
Print Assumptions C03_upgrade_nodes_are_full_roots.
Print Assumptions ex_core_replication.
Print Assumptions ex_block_request_served.
Print Assumptions ex_block_proof_tampered.
Print Assumptions C03_fresh_replica_invariant.
Print Assumptions C03_replica_reads_are_the_writers.
Print Assumptions C03_replica_info.
Print Assumptions C03_accepted_proof_keeps_replica_invariant.
Print Assumptions C03_replica_reopen_changes_no_observation.
Print Assumptions C03_replica_reopen_reestablishes_invariant.
Print Assumptions C03_sparse_tree_truncate_recomputes_roots.
Print Assumptions C03_replica_history.
Print Assumptions C03_fresh_replica_history.
Print Assumptions ReplicaDisk6.sc_crash_cuts_computed.
Print Assumptions ReplicaDisk6.sc_history_computed.
Print Assumptions ReplicaDisk7.sc_synced_RDInv.
Print Assumptions ReplicaDisk7.sc_synced_reopens.
Print Assumptions C03_partial_upgrade_accepted.
Print Assumptions C03_upgrade_of_nonempty_replica_accepted.
Print Assumptions C03_upgrade_from_empty_replica_accepted.
Print Assumptions C03_block_below_with_partial_upgrade_accepted.
Print Assumptions C03_block_inside_partial_upgrade_accepted.
Print Assumptions C03_missing_nodes_beyond_length.
Print Assumptions C03_hash_request_served.
Print Assumptions C03_hash_below_with_upgrade_accepted.
Print Assumptions C03_hash_inside_upgrade_accepted.
Print Assumptions C03_seek_with_upgrade_accepted.
Print Assumptions C03_honest_block_proof_applied_end_to_end.
Print Assumptions C03_honest_upgrade_proof_applied_end_to_end.
Print Assumptions C03_block_stored_at_prefix_sum_offset.
Print Assumptions C03_unheld_block_yields_no_proof.
Print Assumptions C03_create_proof_determined.
Print Assumptions C03_every_wellformed_request_accepted.
Print Assumptions C03_first_contact_block_with_upgrade_accepted.
Print Assumptions C03_seek_with_block_served.
Print Assumptions C03_seek_with_hash_served.
Print Assumptions C03_seek_block_upgrade_accepted.
Print Assumptions C03_replication_round_at_core_level.
Print Assumptions C03_replicas_converge.
Print Assumptions C03_fresh_replicas_converge.
Print Assumptions AcceptAllEx.sc_run_computed.
Print Assumptions AcceptAll.ex_first_contact_accepted.
Print Assumptions C03_honest_round_every_wellformed_request.
Print Assumptions C03_honest_replicas_converge.
Print Assumptions C03_honest_fresh_replicas_converge.
Print Assumptions C03_apply_tail_honest.
Print Assumptions C03_offset_value.
Print Assumptions HonestApplyEx.ha_out_of_scope.
Print Assumptions HonestApplyEx.ha_run_computed.
Print Assumptions HonestApplyEx.ha_proofs_computed.
Print Assumptions HonestApplyEx.ha_replicas_converge_applies.
Print Assumptions HonestApplyEx.ha_round_applies.
Print Assumptions HonestApplyEx.ha_fresh_applies.
Print Assumptions HonestApplyEx.ha_supplied_in_changeset.
Print Assumptions C03_frame_guard_discharged_for_honest_proofs.
Print Assumptions C03_honest_round_without_frame_premise.
Print Assumptions C03_honest_replicas_converge_without_frame_premise.
Print Assumptions C03_fresh_honest_replicas_converge_without_frame_premise.

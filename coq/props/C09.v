(* C09 — no request or proof from a peer can panic the node (pinned statements; proofs in NoPanic.v).
   In the model every u64 overflow, index out of bounds, unwrap of None and loop of the crate's proof code is
   an explicit Panic / OutOfFuel outcome; `returns r = true` means r is a value or an error.
   Proved, for numeric fields below LIM = 2^40 and node lists of ANY length, hashes, signatures and values
   arbitrary: verification of every proof WITHOUT an upgrade section returns (never Panic, never OutOfFuel),
   against every tree and tree store; the computed root index stays below 2^42 so that the store offset
   40*index cannot overflow; verification of proofs WITH an upgrade section never panics provided the byte
   lengths carried by the node lists cannot overflow u64 in sum (true for lists up to 2^20 nodes; a list of
   2^24 maximal nodes — a gigabyte-sized message — could overflow the crate's `byte_length += length` in a debug
   build: recorded in DESIGN 12 as an observation outside the property's per-field bound); creation of a
   block proof returns for every block index and node count whatever the peer asks.
   Partial: freedom from fuel exhaustion (termination) of the upgrade loops is proved only under the size
   conditions stated in NoPanic.v (upgrade_roots_loop_returns, extra_rest_returns), not for arbitrary hostile
   lists; proof creation with hash / seek / upgrade requests is not covered by a theorem. Both are covered on
   every run by tools/c09.py: boundary request tuples on six core shapes, structurally arbitrary proofs and the
   C04 alteration set, under catch_unwind + watchdog in a build with overflow checks, compared with the model. *)
From HC Require Import Base NMap Codec CodecFacts Crypto FlatTree Storage Oplog Merkle NoPanic.

Theorem C09_verify_returns_without_upgrade : forall cr t tf pf pk,
  p_upgrade pf = None ->
  block_lim (p_block pf) = true -> hash_lim (p_hash pf) = true -> seek_lim (p_seek pf) = true ->
  returns (verify_proof cr t tf pf pk) = true.
Proof. exact verify_proof_returns. Qed.

Theorem C09_verify_tree_returns : forall cr block hash seek c,
  block_lim block = true -> hash_lim hash = true -> seek_lim seek = true ->
  returns (verify_tree cr block hash seek c) = true /\
  (forall root c', verify_tree cr block hash seek c = Ok (root, c') ->
     same_tree c c' /\ (forall r, root = Some r -> n_index r < 4 * LIM /\ n_length r <= 87 * LIM)).
Proof. exact verify_tree_returns. Qed.

Theorem C09_verify_never_panics : forall cr t tf pf pk,
  block_lim (p_block pf) = true -> hash_lim (p_hash pf) = true -> seek_lim (p_seek pf) = true ->
  proof_upgrade_ok t pf -> no_panic (verify_proof cr t tf pf pk) = true.
Proof. exact verify_proof_no_panic. Qed.

Theorem C09_upgrade_side_condition : forall t pf u,
  p_upgrade pf = Some u -> upgrade_lim u = true ->
  nodes_lim (du_nodes u) = true -> nodes_lim (du_additional u) = true ->
  N.of_nat (length (du_nodes u)) <= MAXN -> N.of_nat (length (du_additional u)) <= MAXN ->
  lens (t_roots t) <= t_byte_length t -> t_byte_length t < 2 ^ 62 -> proof_upgrade_ok t pf.
Proof. exact proof_upgrade_ok_of_lim. Qed.

Theorem C09_upgrade_fuel_sources : forall cr fork u block_root pk c,
  verify_upgrade cr fork u block_root pk c = OutOfFuel ->
  (exists to grow, upgrade_roots_loop cr CLIMB c (mkQ (du_nodes u) block_root) (it_new 0) to 0 grow = OutOfFuel) \/
  (exists it0 n, In n (du_additional u) /\ descend_to CLIMB it0 (n_index n) = OutOfFuel).
Proof. exact verify_upgrade_fuel_sources. Qed.

Theorem C09_create_block_proof_returns : forall t tf b,
  rb_index b < LIM -> t_length t < LIM ->
  returns (create_valueless_proof t tf (Some b) None None None) = true.
Proof. exact create_block_proof_returns. Qed.

Print Assumptions C09_verify_returns_without_upgrade.
Print Assumptions C09_verify_tree_returns.
Print Assumptions C09_verify_never_panics.
Print Assumptions C09_upgrade_side_condition.
Print Assumptions C09_upgrade_fuel_sources.
Print Assumptions C09_create_block_proof_returns.
Print Assumptions verify_proof_returns_ex.
Print Assumptions verify_proof_no_panic_ex.

(* ADDED IN THE THIRD ROUND (NoPanic2.v): proof creation returns for EVERY request class on well-formed trees (all reachable writer states), the
   verifier never runs out of fuel for lists of any length; the remarks 'proof creation with hash / seek / upgrade requests is not covered' and
   'freedom from fuel exhaustion ... only under size conditions' below are superseded.
   ---- header of the earlier rounds: ---- *)
(* C09 — no request or proof from a peer can panic the node (pinned statements; proofs in NoPanic.v).
   In the model every u64 overflow, index out of bounds, unwrap of None and loop of the crate's proof code is
   an explicit Panic / OutOfFuel outcome; `returns r = true` means r is a value or an error.
   Proved, for numeric fields below LIM = 2^40 and node lists of ANY length, hashes, signatures and values
   arbitrary: verification of every proof WITHOUT an upgrade section returns (never Panic, never OutOfFuel),
   against every tree and tree store; the computed root index stays below 2^42 so that the store offset
   40*index cannot overflow; verification of proofs WITH an upgrade section never panics provided the byte
   lengths carried by the node lists cannot overflow u64 in sum (true for lists up to 2^20 nodes; a list of
   2^24 maximal nodes — a gigabyte-sized message — could overflow the crate's `byte_length += length` in a debug
   build: recorded in DESIGN 12 as an observation outside the property's per-field bound); creation of a
   block proof returns for every block index and node count whatever the peer asks.
   Partial: freedom from fuel exhaustion (termination) of the upgrade loops is proved only under the size
   conditions stated in NoPanic.v (upgrade_roots_loop_returns, extra_rest_returns), not for arbitrary hostile
   lists; proof creation with hash / seek / upgrade requests is not covered by a theorem. Both are covered on
   every run by tools/c09.py: boundary request tuples on six core shapes, structurally arbitrary proofs and the
   C04 alteration set, under catch_unwind + watchdog in a build with overflow checks, compared with the model. *)
From HC Require Import AnyReopenA AnyReopenB AnyReopenC AnyReopenD AnyReopen1 AnyReopen2 C09Plain.
From HC Require Import FrameGuardLib FrameGuard FrameGuardHist.
From HC Require AnyProofCorEx.
From HC Require Import AnyProofLib AnyProof AnyProofCorLib AnyProofCor.
From HC Require Import Core SoundCoreLib SoundCore ReplicaCor ReplicaCorA.
From HC Require Import Core NoPanic2.
From HC Require Import Base NMap Codec CodecFacts Crypto FlatTree Storage Oplog Merkle NoPanic.

Theorem C09_verify_returns_without_upgrade : forall cr t tf pf pk,
  p_upgrade pf = None ->
  block_lim (p_block pf) = true -> hash_lim (p_hash pf) = true -> seek_lim (p_seek pf) = true ->
  returns (verify_proof cr t tf pf pk) = true.
Proof. exact verify_proof_returns. Qed.

Theorem C09_verify_tree_returns : forall cr block hash seek c,
  block_lim block = true -> hash_lim hash = true -> seek_lim seek = true ->
  returns (verify_tree cr block hash seek c) = true /\
  (forall root c', verify_tree cr block hash seek c = Ok (root, c') ->
     same_tree c c' /\ (forall r, root = Some r -> n_index r < 4 * LIM /\ n_length r <= 87 * LIM)).
Proof. exact verify_tree_returns. Qed.

Theorem C09_verify_never_panics : forall cr t tf pf pk,
  block_lim (p_block pf) = true -> hash_lim (p_hash pf) = true -> seek_lim (p_seek pf) = true ->
  proof_upgrade_ok t pf -> no_panic (verify_proof cr t tf pf pk) = true.
Proof. exact verify_proof_no_panic. Qed.

Theorem C09_upgrade_side_condition : forall t pf u,
  p_upgrade pf = Some u -> upgrade_lim u = true ->
  nodes_lim (du_nodes u) = true -> nodes_lim (du_additional u) = true ->
  N.of_nat (length (du_nodes u)) <= MAXN -> N.of_nat (length (du_additional u)) <= MAXN ->
  lens (t_roots t) <= t_byte_length t -> t_byte_length t < 2 ^ 62 -> proof_upgrade_ok t pf.
Proof. exact proof_upgrade_ok_of_lim. Qed.

Theorem C09_upgrade_fuel_sources : forall cr fork u block_root pk c,
  verify_upgrade cr fork u block_root pk c = OutOfFuel ->
  (exists to grow, upgrade_roots_loop cr CLIMB c (mkQ (du_nodes u) block_root) (it_new 0) to 0 grow = OutOfFuel) \/
  (exists it0 n, In n (du_additional u) /\ descend_to CLIMB it0 (n_index n) = OutOfFuel).
Proof. exact verify_upgrade_fuel_sources. Qed.

Theorem C09_create_block_proof_returns : forall t tf b,
  rb_index b < LIM -> t_length t < LIM ->
  returns (create_valueless_proof t tf (Some b) None None None) = true.
Proof. exact create_block_proof_returns. Qed.

Theorem C09_create_proof_returns_for_every_request :
  forall (t : mtree) (tf : file) (block hash : option req_block) (seek : option req_seek)
           (upgrade : option req_upgrade),
         tree_wf t ->
         rblock_lim block = true ->
         rblock_lim hash = true ->
         rupgrade_lim upgrade = true -> returns (create_valueless_proof t tf block hash seek upgrade) = true.
Proof. exact create_valueless_proof_returns. Qed.

Theorem C09_core_create_proof_returns :
  forall (block hash : option req_block) (seek : option req_seek) (upgrade : option req_upgrade)
           (c : core) (w : world) (c' : core) (w' : world) (r : res (option proof)),
         tree_wf (c_tree c) ->
         rblock_lim block = true ->
         rblock_lim hash = true ->
         rupgrade_lim upgrade = true ->
         core_create_proof block hash seek upgrade c w = (c', w', r) ->
         returns r = true /\ c' = c /\ w_disk w' = w_disk w /\ w_journal w' = w_journal w.
Proof. exact core_create_proof_returns. Qed.

Theorem C09_create_proof_total_on_writer_states :
  forall cr : crypto,
         (forall x : bytes, Datatypes.length (cr_hash cr x) = 32%nat) ->
         (forall x : bytes, all_zero (cr_hash cr x) = false) ->
         forall (c : core) (d : disk) (bs : list bytes) (j : list sop) (ev : list event)
           (block hash : option req_block) (seek : option req_seek) (upgrade : option req_upgrade) 
           (c' : core) (w' : world) (r : res (option proof)),
         wstate cr c d bs ->
         N.of_nat (Datatypes.length bs) < LIM ->
         rblock_lim block = true ->
         rblock_lim hash = true ->
         rupgrade_lim upgrade = true ->
         core_create_proof block hash seek upgrade c {| w_disk := d; w_journal := j; w_events := ev |} =
         (c', w', r) -> returns r = true /\ c' = c /\ w_disk w' = d /\ w_journal w' = j.
Proof. exact create_proof_total_on_writer_states. Qed.

Theorem C09_writer_states_are_wellformed :
  forall cr : crypto,
         (forall x : bytes, Datatypes.length (cr_hash cr x) = 32%nat) ->
         (forall x : bytes, all_zero (cr_hash cr x) = false) ->
         forall (c : core) (d : disk) (bs : list bytes),
         wstate cr c d bs -> N.of_nat (Datatypes.length bs) < LIM -> tree_wf (c_tree c).
Proof. exact wstate_tree_wf. Qed.

Theorem C09_verify_upgrade_never_out_of_fuel :
  forall (cr : crypto) (fork : N) (u : data_upgrade) (block_root : option node) 
           (pk : bytes) (c : changeset),
         upgrade_lim u = true ->
         nodes_lim (du_nodes u) = true ->
         nodes_lim (du_additional u) = true ->
         (forall e : node, block_root = Some e -> n_index e < 4 * LIM) ->
         (forall r : node, In r (cs_roots c) -> n_index r < 4 * LIM) ->
         verify_upgrade cr fork u block_root pk c <> OutOfFuel.
Proof. exact verify_upgrade_fuel. Qed.

Theorem C09_verify_never_out_of_fuel :
  forall (cr : crypto) (t : mtree) (tf : file) (pf : proof) (pk : bytes),
         block_lim (p_block pf) = true ->
         hash_lim (p_hash pf) = true ->
         seek_lim (p_seek pf) = true ->
         upgrade_nodes_lim pf -> own_roots_lim t -> verify_proof cr t tf pf pk <> OutOfFuel.
Proof. exact verify_proof_not_out_of_fuel. Qed.

Theorem C09_verify_returns_for_lists_of_any_length :
  forall (cr : crypto) (t : mtree) (tf : file) (pf : proof) (pk : bytes),
         block_lim (p_block pf) = true ->
         hash_lim (p_hash pf) = true ->
         seek_lim (p_seek pf) = true ->
         proof_upgrade_ok t pf ->
         upgrade_nodes_lim pf -> own_roots_lim t -> returns (verify_proof cr t tf pf pk) = true.
Proof. exact verify_proof_returns_any_length. Qed.

Theorem C09_replica_trees_are_wellformed :
  forall (cr : crypto) (bs : list bytes) (c : core) (d : disk),
         RInv cr bs c d -> N.of_nat (Datatypes.length bs) < LIM -> sig_ok (c_tree c) -> tree_wf (c_tree c).
Proof. exact RInv_tree_wf. Qed.

Theorem C09_create_proof_returns_on_replicas :
  forall (cr : crypto) (bs : list bytes) (c : core) (w : world) (block hash : option req_block)
           (seek : option req_seek) (upgrade : option req_upgrade) (c' : core) (w' : world)
           (r : res (option proof)),
         RInv cr bs c (w_disk w) ->
         N.of_nat (Datatypes.length bs) < LIM ->
         sig_ok (c_tree c) ->
         rblock_lim block = true ->
         rblock_lim hash = true ->
         rupgrade_lim upgrade = true ->
         core_create_proof block hash seek upgrade c w = (c', w', r) ->
         returns r = true /\ c' = c /\ w_disk w' = w_disk w /\ w_journal w' = w_journal w.
Proof. exact replica_create_proof_returns. Qed.

Theorem C09_create_proof_returns_after_replica_histories :
  forall cr : crypto,
         (forall x : bytes, Datatypes.length (cr_hash cr x) = 32%nat) ->
         (forall x : bytes, all_zero (cr_hash cr x) = false) ->
         forall bs : list bytes,
         writer_fits bs ->
         forall (ops : list EventsAvail.op) (c : core) (w : world) (c' : core) (w' : world) 
           (oks : list bool) (block hash : option req_block) (seek : option req_seek)
           (upgrade : option req_upgrade) (c2 : core) (w2 : world) (r : res (option proof)),
         RInv cr bs c (w_disk w) ->
         sig_ok (c_tree c) ->
         kp_secret (c_keypair c) = None ->
         N.of_nat (Datatypes.length bs) < LIM ->
         Forall replica_op ops ->
         EventsAvail.run_ops cr ops c w = (c', w', oks) ->
         applies_ok ops oks ->
         rblock_lim block = true ->
         rblock_lim hash = true ->
         rupgrade_lim upgrade = true ->
         core_create_proof block hash seek upgrade c' w' = (c2, w2, r) ->
         returns r = true /\ c2 = c' /\ w_disk w2 = w_disk w' /\ w_journal w2 = w_journal w' \/
         Sound.some_collision cr \/ forged_signature cr bs (kp_public (c_keypair c)).
Proof. exact replica_history_create_proof_returns. Qed.

Theorem C09_apply_returns_on_replicas :
  forall cr : crypto,
         (forall x : bytes, Datatypes.length (cr_hash cr x) = 32%nat) ->
         (forall x : bytes, all_zero (cr_hash cr x) = false) ->
         forall bs : list bytes,
         writer_fits bs ->
         forall (f : option bool) (pf : proof) (c : core) (w : world) (c' : core) (w' : world) (r : res bool),
         RInv cr bs c (w_disk w) ->
         N.of_nat (Datatypes.length bs) < LIM ->
         SoundCoreBU.block_upgrade_ok pf ->
         block_lim (p_block pf) = true ->
         upgrade_nodes_lim pf ->
         announced_sizes_fit c pf ->
         core_apply_proof cr f pf c w = (c', w', r) ->
         returns r = true \/
         r = Panic Refine.frame_msg \/
         Sound.some_collision cr \/ forged_signature cr bs (kp_public (c_keypair c)).
Proof. exact apply_replica_returns. Qed.

Theorem C09_apply_outcome_classified :
  forall cr : crypto,
         (forall x : bytes, Datatypes.length (cr_hash cr x) = 32%nat) ->
         (forall x : bytes, all_zero (cr_hash cr x) = false) ->
         forall bs : list bytes,
         writer_fits bs ->
         forall (f : option bool) (pf : proof) (c : core) (w : world) (c' : core) (w' : world) (r : res bool),
         RInv cr bs c (w_disk w) ->
         SoundCoreBU.block_upgrade_ok pf ->
         core_apply_proof cr f pf c w = (c', w', r) ->
         r = Ok true /\ RInv cr bs c' (w_disk w') \/
         c' = c /\ w' = w /\ unchanged_outcome cr pf c w r \/
         r = Panic Refine.frame_msg \/
         Sound.some_collision cr \/ forged_signature cr bs (kp_public (c_keypair c)).
Proof. exact apply_replica_outcome. Qed.

Theorem C09_any_history_create_proof_returns :
  forall cr : crypto,
         (forall x : bytes, Datatypes.length (cr_hash cr x) = 32%nat) ->
         forall bs : list bytes,
         writer_fits bs ->
         forall (ops : list EventsAvail.op) (c : core) (w : world) (c' : core) (w' : world) 
           (oks : list bool) (block hash : option req_block) (seek : option req_seek)
           (upgrade : option req_upgrade) (c2 : core) (w2 : world) (r : res (option proof)),
         HInv cr bs c (w_disk w) ->
         sig_ok (c_tree c) ->
         kp_secret (c_keypair c) = None ->
         N.of_nat (Datatypes.length bs) < LIM ->
         Forall (any_op cr) ops ->
         EventsAvail.run_ops cr ops c w = (c', w', oks) ->
         rblock_lim block = true ->
         rblock_lim hash = true ->
         rupgrade_lim upgrade = true ->
         core_create_proof block hash seek upgrade c' w' = (c2, w2, r) ->
         returns r = true /\ c2 = c' /\ w_disk w2 = w_disk w' /\ w_journal w2 = w_journal w' \/
         Sound.some_collision cr \/ forged_signature cr bs (kp_public (c_keypair c)).
Proof. exact any_history_create_proof_returns. Qed.

Theorem C09_fresh_any_history_create_proof_returns :
  forall cr : crypto,
         (forall x : bytes, Datatypes.length (cr_hash cr x) = 32%nat) ->
         (forall x : bytes, all_zero (cr_hash cr x) = false) ->
         forall bs : list bytes,
         writer_fits bs ->
         forall (kp : keypair) (ops : list EventsAvail.op) (block hash : option req_block)
           (seek : option req_seek) (upgrade : option req_upgrade),
         len (enc_header (header_new kp)) < 1073741824 ->
         kp_secret kp = None ->
         N.of_nat (Datatypes.length bs) < LIM ->
         Forall (any_op cr) ops ->
         rblock_lim block = true ->
         rblock_lim hash = true ->
         rupgrade_lim upgrade = true ->
         exists (d0 : disk) (ops0 : list sop) (c0 : core),
           core_open cr (Some kp) false disk_empty = (d0, ops0, Ok c0) /\
           (forall (j : list sop) (ev : list event) (c' : core) (w' : world) (oks : list bool) 
              (c2 : core) (w2 : world) (r : res (option proof)),
            EventsAvail.run_ops cr ops c0 {| w_disk := d0; w_journal := j; w_events := ev |} = (c', w', oks) ->
            core_create_proof block hash seek upgrade c' w' = (c2, w2, r) ->
            returns r = true /\ c2 = c' /\ w_disk w2 = w_disk w' /\ w_journal w2 = w_journal w' \/
            Sound.some_collision cr \/ forged_signature cr bs (kp_public kp)).
Proof. exact fresh_any_history_create_proof_returns. Qed.

Theorem C09_apply_any_outcome :
  forall cr : crypto,
         (forall x : bytes, Datatypes.length (cr_hash cr x) = 32%nat) ->
         (forall x : bytes, all_zero (cr_hash cr x) = false) ->
         forall bs : list bytes,
         writer_fits bs ->
         forall (f : option bool) (pf : proof) (c : core) (w : world) (c' : core) (w' : world) (r : res bool),
         HInv cr bs c (w_disk w) ->
         proof_wire pf ->
         core_apply_proof cr f pf c w = (c', w', r) ->
         r = Ok true /\ HInv cr bs c' (w_disk w') \/
         c' = c /\ w' = w /\ unchanged_outcome cr pf c w r \/
         r = Panic Refine.frame_msg /\ HInv cr bs c' (w_disk w') \/
         Sound.some_collision cr \/ forged_signature cr bs (kp_public (c_keypair c)).
Proof. exact apply_any_outcome. Qed.

Theorem C09_apply_any_returns :
  forall cr : crypto,
         (forall x : bytes, Datatypes.length (cr_hash cr x) = 32%nat) ->
         (forall x : bytes, all_zero (cr_hash cr x) = false) ->
         forall bs : list bytes,
         writer_fits bs ->
         forall (f : option bool) (pf : proof) (c : core) (w : world) (c' : core) (w' : world) (r : res bool),
         HInv cr bs c (w_disk w) ->
         N.of_nat (Datatypes.length bs) < LIM ->
         proof_wire pf ->
         block_lim (p_block pf) = true ->
         hash_lim (p_hash pf) = true ->
         seek_lim (p_seek pf) = true ->
         upgrade_nodes_lim pf ->
         announced_sizes_fit_any c pf ->
         core_apply_proof cr f pf c w = (c', w', r) ->
         returns r = true \/
         r = Panic Refine.frame_msg \/
         Sound.some_collision cr \/ forged_signature cr bs (kp_public (c_keypair c)).
Proof. exact apply_any_returns. Qed.

Theorem C09_any_history_apply_returns :
  forall cr : crypto,
         (forall x : bytes, Datatypes.length (cr_hash cr x) = 32%nat) ->
         (forall x : bytes, all_zero (cr_hash cr x) = false) ->
         forall bs : list bytes,
         writer_fits bs ->
         forall (ops : list EventsAvail.op) (c : core) (w : world) (c1 : core) (w1 : world) 
           (oks : list bool) (f : option bool) (pf : proof) (c' : core) (w' : world) 
           (r : res bool),
         HInv cr bs c (w_disk w) ->
         kp_secret (c_keypair c) = None ->
         N.of_nat (Datatypes.length bs) < LIM ->
         Forall (any_op cr) ops ->
         EventsAvail.run_ops cr ops c w = (c1, w1, oks) ->
         proof_wire pf ->
         block_lim (p_block pf) = true ->
         hash_lim (p_hash pf) = true ->
         seek_lim (p_seek pf) = true ->
         upgrade_nodes_lim pf ->
         announced_sizes_fit_any c1 pf ->
         core_apply_proof cr f pf c1 w1 = (c', w', r) ->
         returns r = true \/
         r = Panic Refine.frame_msg \/
         Sound.some_collision cr \/ forged_signature cr bs (kp_public (c_keypair c)).
Proof. exact any_history_apply_returns. Qed.

Theorem C09_block_offset_returns_any :
  forall cr : crypto,
         (forall x : bytes, Datatypes.length (cr_hash cr x) = 32%nat) ->
         forall bs : list bytes,
         writer_fits bs ->
         forall (pf : proof) (c : core) (w : world) (b : data_block) (cs : changeset),
         HInv cr bs c (w_disk w) ->
         N.of_nat (Datatypes.length bs) < LIM ->
         proof_wire pf ->
         p_block pf = Some b ->
         verifier_says cr c w pf = Ok cs ->
         returns (byte_offset_in_changeset (c_tree c) (d_tree (w_disk w)) (db_index b) cs) = true \/
         Sound.some_collision cr \/ forged_signature cr bs (kp_public (c_keypair c)).
Proof. exact hinv_block_offset_returns. Qed.

Theorem C09_entry_size_bound :
  forall (e : entry) (b : bytes), enc_entry e = Ok b -> len b <= entry_size_bound e.
Proof. exact enc_entry_len_bound. Qed.

Theorem C09_frame_panic_has_one_of_four_causes :
  forall (cr : crypto) (f : option bool) (pf : proof) (c : core) (w : world) (c' : core) (w' : world),
         core_apply_proof cr f pf c w = (c', w', Panic Refine.frame_msg) ->
         verifier_says cr c w pf = Panic Refine.frame_msg /\ c' = c /\ w' = w \/
         (exists cs : changeset,
            verifier_says cr c w pf = Ok cs /\
            ((exists b : data_block,
                p_block pf = Some b /\
                c' = c /\
                w' = w /\
                byte_offset_in_changeset (c_tree c) (d_tree (w_disk w)) (db_index b) cs =
                Panic Refine.frame_msg) \/
             (exists (e : entry) (h : header) (bb : bytes),
                entry_of_changeset cs (proof_bu pf) (c_header c) = Ok (e, h) /\
                enc_entry e = Ok bb /\ FRAME_LIMIT <= len bb) \/
             (exists (e : entry) (h h2 : header),
                entry_of_changeset cs (proof_bu pf) (c_header c) = Ok (e, h) /\
                (h2 = h \/ (exists cg : N, h2 = set_contig h cg)) /\ FRAME_LIMIT <= len (enc_header h2)))).
Proof. exact apply_frame_cause. Qed.

Theorem C09_apply_any_returns_no_panic :
  forall cr : crypto,
         (forall x : bytes, Datatypes.length (cr_hash cr x) = 32%nat) ->
         (forall x : bytes, all_zero (cr_hash cr x) = false) ->
         forall bs : list bytes,
         writer_fits bs ->
         forall (f : option bool) (pf : proof) (c : core) (w : world) (c' : core) (w' : world) (r : res bool),
         HInv cr bs c (w_disk w) ->
         N.of_nat (Datatypes.length bs) < LIM ->
         proof_wire pf ->
         block_lim (p_block pf) = true ->
         hash_lim (p_hash pf) = true ->
         seek_lim (p_seek pf) = true ->
         upgrade_nodes_lim pf ->
         announced_sizes_fit_any c pf ->
         N.of_nat (proof_carried pf) <= MAX_PROOF_NODES ->
         header_room c ->
         core_apply_proof cr f pf c w = (c', w', r) ->
         returns r = true \/ Sound.some_collision cr \/ forged_signature cr bs (kp_public (c_keypair c)).
Proof. exact apply_any_returns_no_panic. Qed.

Theorem C09_apply_any_outcome_no_panic :
  forall cr : crypto,
         (forall x : bytes, Datatypes.length (cr_hash cr x) = 32%nat) ->
         (forall x : bytes, all_zero (cr_hash cr x) = false) ->
         forall bs : list bytes,
         writer_fits bs ->
         forall (f : option bool) (pf : proof) (c : core) (w : world) (c' : core) (w' : world) (r : res bool),
         HInv cr bs c (w_disk w) ->
         proof_wire pf ->
         N.of_nat (proof_carried pf) <= MAX_PROOF_NODES ->
         header_room c ->
         core_apply_proof cr f pf c w = (c', w', r) ->
         r = Ok true /\ HInv cr bs c' (w_disk w') \/
         c' = c /\ w' = w /\ unchanged_outcome cr pf c w r \/
         Sound.some_collision cr \/ forged_signature cr bs (kp_public (c_keypair c)).
Proof. exact apply_any_outcome_no_panic. Qed.

Theorem C09_any_history_apply_returns_no_panic :
  forall cr : crypto,
         (forall x : bytes, Datatypes.length (cr_hash cr x) = 32%nat) ->
         (forall x : bytes, all_zero (cr_hash cr x) = false) ->
         forall bs : list bytes,
         writer_fits bs ->
         forall (ops : list EventsAvail.op) (c : core) (w : world) (c1 : core) (w1 : world) 
           (oks : list bool) (f : option bool) (pf : proof) (c' : core) (w' : world) 
           (r : res bool),
         HInv cr bs c (w_disk w) ->
         kp_secret (c_keypair c) = None ->
         N.of_nat (Datatypes.length bs) < LIM ->
         hdr_small (c_header c) ->
         Forall (any_op cr) ops ->
         EventsAvail.run_ops cr ops c w = (c1, w1, oks) ->
         proof_wire pf ->
         block_lim (p_block pf) = true ->
         hash_lim (p_hash pf) = true ->
         seek_lim (p_seek pf) = true ->
         upgrade_nodes_lim pf ->
         announced_sizes_fit_any c1 pf ->
         N.of_nat (proof_carried pf) <= MAX_PROOF_NODES ->
         core_apply_proof cr f pf c1 w1 = (c', w', r) ->
         returns r = true \/ Sound.some_collision cr \/ forged_signature cr bs (kp_public (c_keypair c)).
Proof. exact any_history_apply_returns_no_panic_init. Qed.

Theorem C09_frame_guard_is_real :
  forall (cr : crypto) (hb pb : bool) (payload : bytes),
         FRAME_LIMIT <= len payload -> frame cr hb pb payload = Panic Refine.frame_msg.
Proof. exact frame_guard_fires. Qed.

Theorem C09_create_proof_returns_after_histories_with_reopen :
  forall cr : crypto,
         OplogFacts.crc_ok cr ->
         (forall x : bytes, Datatypes.length (cr_hash cr x) = 32%nat) ->
         (forall x : bytes, all_zero (cr_hash cr x) = false) ->
         (forall x : bytes, bytes_ok (cr_hash cr x) = true) ->
         forall bs : list bytes,
         writer_fits bs ->
         forall (ops : list hop) (c : core) (w : world) (H : N -> bool) (c1 : core) 
           (w1 : world) (block hash : option req_block) (seek : option req_seek) (upgrade : option req_upgrade)
           (c' : core) (w' : world) (r : res (option proof)),
         HDInvR cr bs c (w_disk w) H ->
         N.of_nat (Datatypes.length bs) < LIM ->
         Forall hop_ok ops ->
         run_hops cr ops c w = (c1, w1) ->
         rblock_lim block = true ->
         rblock_lim hash = true ->
         rupgrade_lim upgrade = true ->
         core_create_proof block hash seek upgrade c1 w1 = (c', w', r) ->
         returns r = true /\ c' = c1 /\ w_disk w' = w_disk w1 /\ w_journal w' = w_journal w1 \/
         Sound.some_collision cr \/ forged_signature cr bs (kp_public (c_keypair c)).
Proof. exact history_create_proof_returns. Qed.

Theorem C09_apply_returns_after_histories_with_reopen :
  forall cr : crypto,
         OplogFacts.crc_ok cr ->
         (forall x : bytes, Datatypes.length (cr_hash cr x) = 32%nat) ->
         (forall x : bytes, all_zero (cr_hash cr x) = false) ->
         (forall x : bytes, bytes_ok (cr_hash cr x) = true) ->
         forall bs : list bytes,
         writer_fits bs ->
         forall (ops : list hop) (c : core) (w : world) (H : N -> bool) (c1 : core) 
           (w1 : world) (f : option bool) (pf : proof) (c' : core) (w' : world) (r : res bool),
         HDInvR cr bs c (w_disk w) H ->
         N.of_nat (Datatypes.length bs) < LIM ->
         Forall hop_ok ops ->
         run_hops cr ops c w = (c1, w1) ->
         proof_wireS pf ->
         block_lim (p_block pf) = true ->
         hash_lim (p_hash pf) = true ->
         seek_lim (p_seek pf) = true ->
         upgrade_nodes_lim pf ->
         announced_sizes_fit_any c1 pf ->
         core_apply_proof cr f pf c1 w1 = (c', w', r) ->
         returns r = true \/
         r = Panic Refine.frame_msg \/
         Sound.some_collision cr \/ forged_signature cr bs (kp_public (c_keypair c)).
Proof. exact history_apply_returns. Qed.

Theorem C09_announced_sizes_fit_under_the_property_bounds :
  forall (c : core) (pf : proof),
         upgrade_nodes_lim pf ->
         N.of_nat (proof_carried pf) <= MAX_PROOF_NODES ->
         t_byte_length (c_tree c) < SIZE_LIMIT -> announced_sizes_fit_any c pf.
Proof. exact announced_sizes_fit_of_carried. Qed.

Theorem C09_replica_byte_length_is_bounded :
  forall cr : crypto,
         (forall x : bytes, Datatypes.length (cr_hash cr x) = 32%nat) ->
         forall bs : list bytes,
         N.of_nat (Datatypes.length bs) < LIM ->
         sumN (map len bs) < SIZE_LIMIT ->
         forall (ops : list EventsAvail.op) (c : core) (w : world) (c1 : core) (w1 : world) (oks : list bool),
         HInv cr bs c (w_disk w) ->
         kp_secret (c_keypair c) = None ->
         Forall (any_op cr) ops ->
         EventsAvail.run_ops cr ops c w = (c1, w1, oks) ->
         t_byte_length (c_tree c1) < SIZE_LIMIT \/
         Sound.some_collision cr \/ forged_signature cr bs (kp_public (c_keypair c)).
Proof. exact any_history_byte_length. Qed.

Theorem C09_plain :
  forall cr : crypto,
         (forall x : bytes, Datatypes.length (cr_hash cr x) = 32%nat) ->
         (forall x : bytes, all_zero (cr_hash cr x) = false) ->
         forall bs : list bytes,
         N.of_nat (Datatypes.length bs) < LIM ->
         sumN (map len bs) < SIZE_LIMIT ->
         forall kp : keypair,
         Datatypes.length (kp_public kp) = 32%nat ->
         kp_secret kp = None ->
         forall ops : list EventsAvail.op,
         Forall (any_op cr) ops ->
         exists (d0 : disk) (ops0 : list sop) (c0 : core),
           core_open cr (Some kp) false disk_empty = (d0, ops0, Ok c0) /\
           (forall (j : list sop) (ev : list event) (c1 : core) (w1 : world) (oks : list bool),
            EventsAvail.run_ops cr ops c0 {| w_disk := d0; w_journal := j; w_events := ev |} = (c1, w1, oks) ->
            (forall (f : option bool) (pf : proof) (c' : core) (w' : world) (r : res bool),
             proof_wire pf ->
             proof_lim pf ->
             N.of_nat (proof_carried pf) <= MAX_PROOF_NODES ->
             core_apply_proof cr f pf c1 w1 = (c', w', r) ->
             returns r = true \/ Sound.some_collision cr \/ forged_signature cr bs (kp_public kp)) /\
            (forall (block hash : option req_block) (seek : option req_seek) (upgrade : option req_upgrade)
               (c2 : core) (w2 : world) (r : res (option proof)),
             request_lim block hash upgrade ->
             core_create_proof block hash seek upgrade c1 w1 = (c2, w2, r) ->
             returns r = true /\ c2 = c1 /\ w_disk w2 = w_disk w1 /\ w_journal w2 = w_journal w1 \/
             Sound.some_collision cr \/ forged_signature cr bs (kp_public kp))).
Proof. exact C09_plain. Qed.

Print Assumptions C09_verify_returns_without_upgrade.
Print Assumptions C09_verify_tree_returns.
Print Assumptions C09_verify_never_panics.
Print Assumptions C09_upgrade_side_condition.
Print Assumptions C09_upgrade_fuel_sources.
Print Assumptions C09_create_block_proof_returns.
Print Assumptions verify_proof_returns_ex.
Print Assumptions verify_proof_no_panic_ex.
Print Assumptions C09_create_proof_returns_for_every_request.
Print Assumptions C09_core_create_proof_returns.
Print Assumptions C09_create_proof_total_on_writer_states.
Print Assumptions C09_writer_states_are_wellformed.
Print Assumptions C09_verify_upgrade_never_out_of_fuel.
Print Assumptions C09_verify_never_out_of_fuel.
Print Assumptions C09_verify_returns_for_lists_of_any_length.
Print Assumptions NoPanic2.sig_ok_needed_refuted.
Print Assumptions NoPanic2.roots_ok_needed_refuted.
Print Assumptions NoPanic2.index_lim_needed_refuted.
Print Assumptions NoPanic2.sum_condition_needed_refuted.
Print Assumptions NoPanic2.create_classes_ok.
Print Assumptions NoPanic2.create_boundary_returns.
Print Assumptions NoPanic2.hostile_grow_ex.
Print Assumptions NoPanic2.long_lists_ex.
Print Assumptions C09_replica_trees_are_wellformed.
Print Assumptions C09_create_proof_returns_on_replicas.
Print Assumptions C09_create_proof_returns_after_replica_histories.
Print Assumptions C09_apply_returns_on_replicas.
Print Assumptions C09_apply_outcome_classified.
Print Assumptions C09_any_history_create_proof_returns.
Print Assumptions C09_fresh_any_history_create_proof_returns.
Print Assumptions C09_apply_any_outcome.
Print Assumptions C09_apply_any_returns.
Print Assumptions C09_any_history_apply_returns.
Print Assumptions C09_block_offset_returns_any.
Print Assumptions AnyProofCorEx.sc_any_history_applies.
Print Assumptions AnyProofCorEx.sc_any_history_failed_apply_applies.
Print Assumptions AnyProofCorEx.sc_apply_any_returns_applies.
Print Assumptions C09_entry_size_bound.
Print Assumptions C09_frame_panic_has_one_of_four_causes.
Print Assumptions C09_apply_any_returns_no_panic.
Print Assumptions C09_apply_any_outcome_no_panic.
Print Assumptions C09_any_history_apply_returns_no_panic.
Print Assumptions C09_frame_guard_is_real.
Print Assumptions C09_create_proof_returns_after_histories_with_reopen.
Print Assumptions C09_apply_returns_after_histories_with_reopen.
Print Assumptions C09_announced_sizes_fit_under_the_property_bounds.
Print Assumptions C09_replica_byte_length_is_bounded.
Print Assumptions C09_plain.

(* C09 — placeholder *)
From HC Require Import Base.

(* C02 — a crash between any two storage operations recovers to the before-or-after state (pinned statements,
   generated from the types Coq reports for the lemmas of Crash.v; see also props/C08.v for the bitfield and
   contiguous-length replay and props/C01.v for the journal order of an append).
   Proved at the level of the oplog FILE CONTENT and Oplog::open (crc_ok cr: the CRC fits 32 bits — no other
   assumption on the checksum): in a stable state `good` (both slots valid or one invalid, entries carrying the
   current entry bit), for an APPEND of one entry, a FLUSH (header into the non-current slot, then truncate) and
   MAKE_READ_ONLY (slot, truncate, slot, truncate), EVERY cut point of the operation's storage journal reopens to
   exactly the (header, entries) before the operation or exactly the one after it; after the last operation the
   state is stable again (so the argument iterates); the entries of the previous epoch are never replayed
   (their header bit differs) and are cut off by open; in make_read_only the entries are gone before the second
   slot is rewritten (the repaired defect D20, with the counterfactual showing the old entries would reappear);
   creation: a crash before the truncate leaves storage that open reports as empty (the before state).
   Partial: the tree store, bitfield store and data store are not part of these theorems (replay insensitivity
   of the tree is argued in DESIGN 5.1; the bitfield part is C08_replay_exact); the composition with
   Hypercore::new over all four stores is decided on every run by tools/c02.py, which recovers every crash
   point of every generated history on the crate and on the model under the before-or-after oracle. *)
From HC Require Import Base NMap Codec CodecFacts Crypto Storage Bitfield Oplog OplogFacts StorageFacts Crash.

Theorem C02_stable_state_reopens :
  forall cr : crypto,
         crc_ok cr ->
         forall (s0 s1 body : bytes) (st0 st1 : slot_state) (bits : bool * bool) (hc : header) (l : list entry),
         good cr s0 s1 body st0 st1 bits hc l ->
         oplog_open cr None (s0 ++ s1 ++ body) = Ok (stable_result bits hc l).
Proof. exact good_open. Qed.

Theorem C02_append_every_cut :
  forall cr : crypto,
         crc_ok cr ->
         forall (s0 s1 body : bytes) (st0 st1 : slot_state) (bits : bool * bool) (hc : header) 
           (l : list entry) (e : entry) (o' : oplog) (ops : list sop),
         good cr s0 s1 body st0 st1 bits hc l ->
         entry_ok e = true ->
         oplog_append cr (oo_oplog (stable_result bits hc l)) e = Ok (o', ops) ->
         let c := s0 ++ s1 ++ body in
         exists fr : bytes,
           ops = [SW Oplog (len c) fr] /\
           oplog_open cr None c = Ok (stable_result bits hc l) /\
           c_write c (len c) fr = s0 ++ s1 ++ body ++ fr /\
           good cr s0 s1 (body ++ fr) st0 st1 bits hc (l ++ [e]) /\
           oplog_open cr None (c_write c (len c) fr) = Ok (stable_result bits hc (l ++ [e])) /\
           o' = oo_oplog (stable_result bits hc (l ++ [e])) /\
           (forall t : nat,
            (t < Datatypes.length fr)%nat ->
            oplog_open cr None (c_write c (len c) (firstn t fr)) =
            Ok
              {|
                oo_oplog := oo_oplog (stable_result bits hc l);
                oo_header := hc;
                oo_ops := if 0 <? N.of_nat t then [ST Oplog (len c)] else [];
                oo_entries := l
              |} /\ c_truncate (c_write c (len c) (firstn t fr)) (len c) = c).
Proof. exact append_crash. Qed.

Theorem C02_flush_every_cut :
  forall cr : crypto,
         crc_ok cr ->
         forall (s0 s1 body : bytes) (st0 st1 : slot_state) (bits : bool * bool) (hc : header) 
           (l : list entry) (hn : header) (o o' : oplog) (ops : list sop),
         good cr s0 s1 body st0 st1 bits hc l ->
         header_ok hn = true ->
         hdr_fits false hn ->
         ol_bits o = bits ->
         oplog_flush cr o hn false = Ok (o', ops) ->
         let c := s0 ++ s1 ++ body in
         exists (w : sop) (s0' s1' : list N) (st0' st1' : slot_state),
           ops = [w; ST Oplog (ENTRIES_OFFSET + 0)] /\
           oplog_open cr None c = Ok (stable_result bits hc l) /\
           c_apply c w = Some (s0' ++ s1' ++ body) /\
           oplog_open cr None (s0' ++ s1' ++ body) =
           Ok
             {|
               oo_oplog := {| ol_bits := ol_bits o'; ol_entries_len := 0; ol_entries_bytes := 0 |};
               oo_header := hn;
               oo_ops := if 0 <? len body then [ST Oplog ENTRIES_OFFSET] else [];
               oo_entries := []
             |} /\
           c_apply (s0' ++ s1' ++ body) (ST Oplog (ENTRIES_OFFSET + 0)) = Some (s0' ++ s1' ++ []) /\
           good cr s0' s1' [] st0' st1' (ol_bits o') hn [] /\
           oplog_open cr None (s0' ++ s1' ++ []) = Ok (stable_result (ol_bits o') hn []) /\
           o' = oo_oplog (stable_result (ol_bits o') hn []).
Proof. exact flush_crash. Qed.

Theorem C02_make_read_only_every_cut :
  forall cr : crypto,
         crc_ok cr ->
         forall (s0 s1 body : bytes) (st0 st1 : slot_state) (bits : bool * bool) (hc : header) 
           (l : list entry) (hn : header) (o o' : oplog) (ops : list sop),
         good cr s0 s1 body st0 st1 bits hc l ->
         header_ok hn = true ->
         ol_bits o = bits ->
         oplog_flush cr o hn true = Ok (o', ops) ->
         let c := s0 ++ s1 ++ body in
         let T := ST Oplog (ENTRIES_OFFSET + 0) in
         exists
           (w1 w2 : sop) (a0 a1 : list N) (sa0 sa1 : slot_state) (bits1 : bool * bool) 
         (b0 b1 : list N) (sb0 sb1 : slot_state),
           ops = [w1; T; w2; T] /\
           oplog_open cr None c = Ok (stable_result bits hc l) /\
           c_apply c w1 = Some (a0 ++ a1 ++ body) /\
           oplog_open cr None (a0 ++ a1 ++ body) =
           Ok
             {|
               oo_oplog := {| ol_bits := bits1; ol_entries_len := 0; ol_entries_bytes := 0 |};
               oo_header := hn;
               oo_ops := if 0 <? len body then [ST Oplog ENTRIES_OFFSET] else [];
               oo_entries := []
             |} /\
           c_apply (a0 ++ a1 ++ body) T = Some (a0 ++ a1 ++ []) /\
           good cr a0 a1 [] sa0 sa1 bits1 hn [] /\
           oplog_open cr None (a0 ++ a1 ++ []) = Ok (stable_result bits1 hn []) /\
           c_apply (a0 ++ a1 ++ []) w2 = Some (b0 ++ b1 ++ []) /\
           good cr b0 b1 [] sb0 sb1 (ol_bits o') hn [] /\
           oplog_open cr None (b0 ++ b1 ++ []) = Ok (stable_result (ol_bits o') hn []) /\
           (exists b b' : bool, sb0 = SValid hn b /\ sb1 = SValid hn b') /\
           c_apply (b0 ++ b1 ++ []) T = Some (b0 ++ b1 ++ []) /\
           o' = oo_oplog (stable_result (ol_bits o') hn []) /\
           (exists x0 x1 : list N,
              c_apply (a0 ++ a1 ++ body) w2 = Some (x0 ++ x1 ++ body) /\
              oplog_open cr None (x0 ++ x1 ++ body) = Ok (stable_result (ol_bits o') hn l)).
Proof. exact read_only_crash. Qed.

Theorem C02_entries_gone_before_second_slot :
  forall cr : crypto,
         crc_ok cr ->
         forall (s0 s1 body : bytes) (st0 st1 : slot_state) (bits : bool * bool) (hc : header) 
           (l : list entry) (hn : header) (o o' : oplog) (ops : list sop) (c2 : bytes),
         good cr s0 s1 body st0 st1 bits hc l ->
         header_ok hn = true ->
         ol_bits o = bits ->
         oplog_flush cr o hn true = Ok (o', ops) ->
         c_apply_all (s0 ++ s1 ++ body) (firstn 2 ops) = Some c2 ->
         len c2 = ENTRIES_OFFSET /\
         (exists (w2 : sop) (c3 : bytes),
            nth_error ops 2 = Some w2 /\
            c_apply c2 w2 = Some c3 /\ oplog_open cr None c3 = Ok (stable_result (ol_bits o') hn [])).
Proof. exact second_slot_write_sees_no_entries. Qed.

Theorem C02_creation_every_cut :
  forall cr : crypto,
         crc_ok cr ->
         forall kp : keypair,
         keypair_ok kp = true ->
         exists (buf : bytes) (s0 : list N),
           oplog_fresh cr kp =
           Ok
             ({| ol_bits := (false, false); ol_entries_len := 0; ol_entries_bytes := 0 |}, 
              header_new kp, [SW Oplog 0 buf; ST Oplog (ENTRIES_OFFSET + 0)]) /\
           (forall t : nat, oplog_open cr None (c_write [] 0 (firstn t buf)) = Err EmptyStorage) /\
           oplog_open cr None (c_write [] 0 buf) = Err EmptyStorage /\
           c_apply_all [] [SW Oplog 0 buf; ST Oplog (ENTRIES_OFFSET + 0)] = Some (s0 ++ zeros SLOT ++ []) /\
           good cr s0 (zeros SLOT) [] (SValid (header_new kp) false) SInvalid (false, false) (header_new kp) [] /\
           slot_dead cr (zeros SLOT) /\
           oplog_open cr None (s0 ++ zeros SLOT ++ []) = Ok (stable_result (false, false) (header_new kp) []).
Proof. exact oplog_fresh_then_open. Qed.

Theorem C02_open_reads_layout :
  forall cr : crypto,
         crc_ok cr ->
         forall (s0 s1 body : bytes) (h0 h1 : header) (b0 b1 : bool) (l : list (entry * bool)) (rest : bytes),
         header_ok h0 = true ->
         header_ok h1 = true ->
         slot_holds cr s0 h0 b0 ->
         slot_holds cr s1 h1 b1 ->
         body_holds cr (xorb b0 b1) l rest body ->
         oplog_open cr None (s0 ++ s1 ++ body) =
         Ok (open_result (b0, b1) (if eqb b0 b1 then h0 else h1) l (ENTRIES_OFFSET + len body)).
Proof. exact open_two_slots. Qed.

Theorem C02_content_model_is_the_file :
  forall (ops : list sop) (d d' : disk) (c' : bytes),
         Forall (fun o : sop => sop_store o = Oplog) ops ->
         apply_sops d ops = Some d' ->
         c_apply_all (f_content (d_oplog d)) ops = Some c' -> f_content (d_oplog d') = c'.
Proof. exact c_apply_all_sound. Qed.

Theorem C02_real_headers_fit_a_slot :
  forall h : header,
         header_ok h = true ->
         len (ht_root_hash (hd_tree h)) <= 32 -> len (ht_signature (hd_tree h)) <= 64 -> hdr_fits false h.
Proof. exact hdr_fits_real. Qed.

Print Assumptions C02_stable_state_reopens.
Print Assumptions C02_append_every_cut.
Print Assumptions C02_flush_every_cut.
Print Assumptions C02_make_read_only_every_cut.
Print Assumptions C02_entries_gone_before_second_slot.
Print Assumptions C02_creation_every_cut.
Print Assumptions C02_open_reads_layout.
Print Assumptions C02_content_model_is_the_file.
Print Assumptions C02_real_headers_fit_a_slot.

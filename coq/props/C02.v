(* ADDED IN THE THIRD ROUND (CrashCore1-3.v, CrashClear1-4.v, ReadOnly.v): the composition over ALL FOUR stores and core_open — every cut of an
   append, a clear, creation, recovery itself and make_read_only reopens to before/after with a crash-tolerant invariant re-established;
   histories with crashes (C02_append_every_cut_recovers_*, C02_clear_every_cut_recovers, C02_history_with_crashes*, C02_creation_every_cut_recovers,
   C02_make_read_only_every_cut_recovers_all_stores). The remark 'Partial: the tree store, bitfield store and data store are not part of these
   theorems' below applies to the older oplog-level theorems only. Still not proved: cuts of proof application on replicas.
   ---- header of the earlier rounds: ---- *)
(* C02 — a crash between any two storage operations recovers to the before-or-after state (pinned statements,
   generated from the types Coq reports for the lemmas of Crash.v; see also props/C08.v for the bitfield and
   contiguous-length replay and props/C01.v for the journal order of an append).
   Proved at the level of the oplog FILE CONTENT and Oplog::open (crc_ok cr: the CRC fits 32 bits — no other
   assumption on the checksum): in a stable state `good` (both slots valid or one invalid, entries carrying the
   current entry bit), for an APPEND of one entry, a FLUSH (header into the non-current slot, then truncate) and
   MAKE_READ_ONLY (slot, truncate, slot, truncate), EVERY cut point of the operation's storage journal reopens to
   exactly the (header, entries) before the operation or exactly the one after it; after the last operation the
   state is stable again (so the argument iterates); the entries of the previous epoch are never replayed
   (their header bit differs) and are cut off by open; in make_read_only the entries are gone before the second
   slot is rewritten (the repaired defect D20, with the counterfactual showing the old entries would reappear);
   creation: a crash before the truncate leaves storage that open reports as empty (the before state).
   Partial: the tree store, bitfield store and data store are not part of these theorems (replay insensitivity
   of the tree is argued in DESIGN 5.1; the bitfield part is C08_replay_exact); the composition with
   Hypercore::new over all four stores is decided on every run by tools/c02.py, which recovers every crash
   point of every generated history on the crate and on the model under the before-or-after oracle. *)
From HC Require Import HonestCrash1 HonestCrash2.
From HC Require SrcOrder OrderTie OrderTieStorage.
From HC Require Import SoundCoreLib SoundCore ReplicaDisk1 ReplicaDisk2 ReplicaDisk3 ReplicaDisk4.
From HC Require Import ClearRefine Unified1 Unified3 CrashClear1 CrashClear2 CrashClear3 CrashClear4.
From HC Require Import Base NMap Codec CodecFacts Crypto Storage Bitfield Oplog OplogFacts StorageFacts Crash.
From HC Require Import FlatTree Merkle Core Refine Reopen CrashCore1 CrashCore2 CrashCore3 ReadOnly.

Theorem C02_stable_state_reopens :
  forall cr : crypto,
         crc_ok cr ->
         forall (s0 s1 body : bytes) (st0 st1 : slot_state) (bits : bool * bool) (hc : header) (l : list entry),
         good cr s0 s1 body st0 st1 bits hc l ->
         oplog_open cr None (s0 ++ s1 ++ body) = Ok (stable_result bits hc l).
Proof. exact good_open. Qed.

Theorem C02_append_every_cut :
  forall cr : crypto,
         crc_ok cr ->
         forall (s0 s1 body : bytes) (st0 st1 : slot_state) (bits : bool * bool) (hc : header) 
           (l : list entry) (e : entry) (o' : oplog) (ops : list sop),
         good cr s0 s1 body st0 st1 bits hc l ->
         entry_ok e = true ->
         oplog_append cr (oo_oplog (stable_result bits hc l)) e = Ok (o', ops) ->
         let c := s0 ++ s1 ++ body in
         exists fr : bytes,
           ops = [SW Oplog (len c) fr] /\
           oplog_open cr None c = Ok (stable_result bits hc l) /\
           c_write c (len c) fr = s0 ++ s1 ++ body ++ fr /\
           good cr s0 s1 (body ++ fr) st0 st1 bits hc (l ++ [e]) /\
           oplog_open cr None (c_write c (len c) fr) = Ok (stable_result bits hc (l ++ [e])) /\
           o' = oo_oplog (stable_result bits hc (l ++ [e])) /\
           (forall t : nat,
            (t < Datatypes.length fr)%nat ->
            oplog_open cr None (c_write c (len c) (firstn t fr)) =
            Ok
              {|
                oo_oplog := oo_oplog (stable_result bits hc l);
                oo_header := hc;
                oo_ops := if 0 <? N.of_nat t then [ST Oplog (len c)] else [];
                oo_entries := l
              |} /\ c_truncate (c_write c (len c) (firstn t fr)) (len c) = c).
Proof. exact append_crash. Qed.

Theorem C02_flush_every_cut :
  forall cr : crypto,
         crc_ok cr ->
         forall (s0 s1 body : bytes) (st0 st1 : slot_state) (bits : bool * bool) (hc : header) 
           (l : list entry) (hn : header) (o o' : oplog) (ops : list sop),
         good cr s0 s1 body st0 st1 bits hc l ->
         header_ok hn = true ->
         hdr_fits false hn ->
         ol_bits o = bits ->
         oplog_flush cr o hn false = Ok (o', ops) ->
         let c := s0 ++ s1 ++ body in
         exists (w : sop) (s0' s1' : list N) (st0' st1' : slot_state),
           ops = [w; ST Oplog (ENTRIES_OFFSET + 0)] /\
           oplog_open cr None c = Ok (stable_result bits hc l) /\
           c_apply c w = Some (s0' ++ s1' ++ body) /\
           oplog_open cr None (s0' ++ s1' ++ body) =
           Ok
             {|
               oo_oplog := {| ol_bits := ol_bits o'; ol_entries_len := 0; ol_entries_bytes := 0 |};
               oo_header := hn;
               oo_ops := if 0 <? len body then [ST Oplog ENTRIES_OFFSET] else [];
               oo_entries := []
             |} /\
           c_apply (s0' ++ s1' ++ body) (ST Oplog (ENTRIES_OFFSET + 0)) = Some (s0' ++ s1' ++ []) /\
           good cr s0' s1' [] st0' st1' (ol_bits o') hn [] /\
           oplog_open cr None (s0' ++ s1' ++ []) = Ok (stable_result (ol_bits o') hn []) /\
           o' = oo_oplog (stable_result (ol_bits o') hn []).
Proof. exact flush_crash. Qed.

Theorem C02_make_read_only_every_cut :
  forall cr : crypto,
         crc_ok cr ->
         forall (s0 s1 body : bytes) (st0 st1 : slot_state) (bits : bool * bool) (hc : header) 
           (l : list entry) (hn : header) (o o' : oplog) (ops : list sop),
         good cr s0 s1 body st0 st1 bits hc l ->
         header_ok hn = true ->
         ol_bits o = bits ->
         oplog_flush cr o hn true = Ok (o', ops) ->
         let c := s0 ++ s1 ++ body in
         let T := ST Oplog (ENTRIES_OFFSET + 0) in
         exists
           (w1 w2 : sop) (a0 a1 : list N) (sa0 sa1 : slot_state) (bits1 : bool * bool) 
         (b0 b1 : list N) (sb0 sb1 : slot_state),
           ops = [w1; T; w2; T] /\
           oplog_open cr None c = Ok (stable_result bits hc l) /\
           c_apply c w1 = Some (a0 ++ a1 ++ body) /\
           oplog_open cr None (a0 ++ a1 ++ body) =
           Ok
             {|
               oo_oplog := {| ol_bits := bits1; ol_entries_len := 0; ol_entries_bytes := 0 |};
               oo_header := hn;
               oo_ops := if 0 <? len body then [ST Oplog ENTRIES_OFFSET] else [];
               oo_entries := []
             |} /\
           c_apply (a0 ++ a1 ++ body) T = Some (a0 ++ a1 ++ []) /\
           good cr a0 a1 [] sa0 sa1 bits1 hn [] /\
           oplog_open cr None (a0 ++ a1 ++ []) = Ok (stable_result bits1 hn []) /\
           c_apply (a0 ++ a1 ++ []) w2 = Some (b0 ++ b1 ++ []) /\
           good cr b0 b1 [] sb0 sb1 (ol_bits o') hn [] /\
           oplog_open cr None (b0 ++ b1 ++ []) = Ok (stable_result (ol_bits o') hn []) /\
           (exists b b' : bool, sb0 = SValid hn b /\ sb1 = SValid hn b') /\
           c_apply (b0 ++ b1 ++ []) T = Some (b0 ++ b1 ++ []) /\
           o' = oo_oplog (stable_result (ol_bits o') hn []) /\
           (exists x0 x1 : list N,
              c_apply (a0 ++ a1 ++ body) w2 = Some (x0 ++ x1 ++ body) /\
              oplog_open cr None (x0 ++ x1 ++ body) = Ok (stable_result (ol_bits o') hn l)).
Proof. exact read_only_crash. Qed.

Theorem C02_entries_gone_before_second_slot :
  forall cr : crypto,
         crc_ok cr ->
         forall (s0 s1 body : bytes) (st0 st1 : slot_state) (bits : bool * bool) (hc : header) 
           (l : list entry) (hn : header) (o o' : oplog) (ops : list sop) (c2 : bytes),
         good cr s0 s1 body st0 st1 bits hc l ->
         header_ok hn = true ->
         ol_bits o = bits ->
         oplog_flush cr o hn true = Ok (o', ops) ->
         c_apply_all (s0 ++ s1 ++ body) (firstn 2 ops) = Some c2 ->
         len c2 = ENTRIES_OFFSET /\
         (exists (w2 : sop) (c3 : bytes),
            nth_error ops 2 = Some w2 /\
            c_apply c2 w2 = Some c3 /\ oplog_open cr None c3 = Ok (stable_result (ol_bits o') hn [])).
Proof. exact second_slot_write_sees_no_entries. Qed.

Theorem C02_creation_every_cut :
  forall cr : crypto,
         crc_ok cr ->
         forall kp : keypair,
         keypair_ok kp = true ->
         exists (buf : bytes) (s0 : list N),
           oplog_fresh cr kp =
           Ok
             ({| ol_bits := (false, false); ol_entries_len := 0; ol_entries_bytes := 0 |}, 
              header_new kp, [SW Oplog 0 buf; ST Oplog (ENTRIES_OFFSET + 0)]) /\
           (forall t : nat, oplog_open cr None (c_write [] 0 (firstn t buf)) = Err EmptyStorage) /\
           oplog_open cr None (c_write [] 0 buf) = Err EmptyStorage /\
           c_apply_all [] [SW Oplog 0 buf; ST Oplog (ENTRIES_OFFSET + 0)] = Some (s0 ++ zeros SLOT ++ []) /\
           good cr s0 (zeros SLOT) [] (SValid (header_new kp) false) SInvalid (false, false) (header_new kp) [] /\
           slot_dead cr (zeros SLOT) /\
           oplog_open cr None (s0 ++ zeros SLOT ++ []) = Ok (stable_result (false, false) (header_new kp) []).
Proof. exact oplog_fresh_then_open. Qed.

Theorem C02_open_reads_layout :
  forall cr : crypto,
         crc_ok cr ->
         forall (s0 s1 body : bytes) (h0 h1 : header) (b0 b1 : bool) (l : list (entry * bool)) (rest : bytes),
         header_ok h0 = true ->
         header_ok h1 = true ->
         slot_holds cr s0 h0 b0 ->
         slot_holds cr s1 h1 b1 ->
         body_holds cr (xorb b0 b1) l rest body ->
         oplog_open cr None (s0 ++ s1 ++ body) =
         Ok (open_result (b0, b1) (if eqb b0 b1 then h0 else h1) l (ENTRIES_OFFSET + len body)).
Proof. exact open_two_slots. Qed.

Theorem C02_content_model_is_the_file :
  forall (ops : list sop) (d d' : disk) (c' : bytes),
         Forall (fun o : sop => sop_store o = Oplog) ops ->
         apply_sops d ops = Some d' ->
         c_apply_all (f_content (d_oplog d)) ops = Some c' -> f_content (d_oplog d') = c'.
Proof. exact c_apply_all_sound. Qed.

Theorem C02_real_headers_fit_a_slot :
  forall h : header,
         header_ok h = true ->
         len (ht_root_hash (hd_tree h)) <= 32 -> len (ht_signature (hd_tree h)) <= 64 -> hdr_fits false h.
Proof. exact hdr_fits_real. Qed.

Theorem C02_append_every_cut_recovers_all_stores :
  forall cr : crypto,
         crc_ok cr ->
         (forall x : bytes, Datatypes.length (cr_hash cr x) = 32%nat) ->
         (forall x : bytes, all_zero (cr_hash cr x) = false) ->
         (forall x : bytes, bytes_ok (cr_hash cr x) = true) ->
         (forall sk m : bytes, Datatypes.length (cr_sign cr sk m) = 64%nat) ->
         (forall sk m : bytes, bytes_ok (cr_sign cr sk m) = true) ->
         forall (f : option bool) (batch : list bytes) (c : core) (d : disk) (j : list sop) 
           (ev : list event) (bs : list bytes) (sk : bytes) (c' : core) (w' : world) 
           (x : N * N) (delta : list sop),
         DInv cr c d bs ->
         kp_secret (c_keypair c) = Some sk ->
         sumN (map len (bs ++ batch)) <= u64_max ->
         NODE_SIZE * (2 * N.of_nat (Datatypes.length (bs ++ batch))) <= u64_max ->
         core_append cr f batch c {| w_disk := d; w_journal := j; w_events := ev |} = (c', w', Ok x) ->
         w_journal w' = rev delta ++ j ->
         forall k : nat,
         exists dk : disk,
           apply_sops d (firstn k delta) = Some dk /\
           (exists (ck : core) (dk' : disk) (ops : list sop),
              core_open cr None true dk = (dk', ops, Ok ck) /\
              (XInv cr ck dk' bs \/ XInv cr ck dk' (bs ++ batch)) /\
              c_keypair ck = c_keypair c /\ c_skip ck = 0).
Proof. exact append_cut_recovers. Qed.

Theorem C02_append_every_cut_recovers_iterated :
  forall cr : crypto,
         crc_ok cr ->
         (forall x : bytes, Datatypes.length (cr_hash cr x) = 32%nat) ->
         (forall x : bytes, all_zero (cr_hash cr x) = false) ->
         (forall x : bytes, bytes_ok (cr_hash cr x) = true) ->
         (forall sk m : bytes, Datatypes.length (cr_sign cr sk m) = 64%nat) ->
         (forall sk m : bytes, bytes_ok (cr_sign cr sk m) = true) ->
         forall (f : option bool) (batch : list bytes) (c : core) (d : disk) (j : list sop) 
           (ev : list event) (bs : list bytes) (sk : bytes) (c' : core) (w' : world) 
           (x : N * N) (delta : list sop),
         XInv cr c d bs ->
         kp_secret (c_keypair c) = Some sk ->
         sumN (map len (bs ++ batch)) <= u64_max ->
         NODE_SIZE * (2 * N.of_nat (Datatypes.length (bs ++ batch))) <= u64_max ->
         core_append cr f batch c {| w_disk := d; w_journal := j; w_events := ev |} = (c', w', Ok x) ->
         w_journal w' = rev delta ++ j ->
         forall k : nat,
         exists dk : disk,
           apply_sops d (firstn k delta) = Some dk /\
           (exists (ck : core) (dk' : disk) (ops : list sop),
              core_open cr None true dk = (dk', ops, Ok ck) /\
              XInv cr ck dk' (if (k <? 2)%nat then bs else bs ++ batch) /\
              c_keypair ck = c_keypair c /\ c_skip ck = 0).
Proof. exact append_cut_recovers_X. Qed.

Theorem C02_append_cut_observations :
  forall cr : crypto,
         crc_ok cr ->
         (forall x : bytes, Datatypes.length (cr_hash cr x) = 32%nat) ->
         (forall x : bytes, all_zero (cr_hash cr x) = false) ->
         (forall x : bytes, bytes_ok (cr_hash cr x) = true) ->
         (forall sk m : bytes, Datatypes.length (cr_sign cr sk m) = 64%nat) ->
         (forall sk m : bytes, bytes_ok (cr_sign cr sk m) = true) ->
         forall (f : option bool) (batch : list bytes) (c : core) (d : disk) (j : list sop) 
           (ev : list event) (bs : list bytes) (sk : bytes) (c' : core) (w' : world) 
           (x : N * N) (delta : list sop),
         XInv cr c d bs ->
         kp_secret (c_keypair c) = Some sk ->
         sumN (map len (bs ++ batch)) <= u64_max ->
         NODE_SIZE * (2 * N.of_nat (Datatypes.length (bs ++ batch))) <= u64_max ->
         core_append cr f batch c {| w_disk := d; w_journal := j; w_events := ev |} = (c', w', Ok x) ->
         w_journal w' = rev delta ++ j ->
         forall k : nat,
         exists dk : disk,
           apply_sops d (firstn k delta) = Some dk /\
           (exists (ck : core) (dk' : disk) (ops : list sop),
              core_open cr None true dk = (dk', ops, Ok ck) /\
              (obs_list ck dk' bs \/ obs_list ck dk' (bs ++ batch))).
Proof. exact append_cut_observations. Qed.

Theorem C02_crash_disk_reopens :
  forall cr : crypto,
         crc_ok cr ->
         (forall x : bytes, Datatypes.length (cr_hash cr x) = 32%nat) ->
         (forall x : bytes, all_zero (cr_hash cr x) = false) ->
         (forall x : bytes, bytes_ok (cr_hash cr x) = true) ->
         forall (kp : keypair) (d : disk) (bs : list bytes),
         XDisk cr kp d bs ->
         exists (c' : core) (d' : disk) (ops : list sop),
           core_open cr None true d = (d', ops, Ok c') /\
           XInv cr c' d' bs /\
           c_keypair c' = kp /\
           c_skip c' = 0 /\
           d_tree d' = d_tree d /\
           d_data d' = d_data d /\
           d_bitfield d' = d_bitfield d /\ (ops = [] /\ d' = d \/ ops = [ST Oplog ENTRIES_OFFSET]).
Proof. exact reopen_X. Qed.

Theorem C02_crash_tolerant_invariant_from_stable :
  forall (cr : crypto) (c : core) (d : disk) (bs : list bytes), DInv cr c d bs -> XInv cr c d bs.
Proof. exact DInv_XInv. Qed.

Theorem C02_crash_tolerant_invariant_observations :
  forall cr : crypto,
         (forall x : bytes, Datatypes.length (cr_hash cr x) = 32%nat) ->
         (forall x : bytes, all_zero (cr_hash cr x) = false) ->
         forall (c : core) (d : disk) (bs : list bytes), XInv cr c d bs -> obs_list c d bs.
Proof. exact XInv_observations. Qed.

Theorem C02_append_preserves_crash_tolerant_invariant :
  forall cr : crypto,
         crc_ok cr ->
         (forall x : bytes, Datatypes.length (cr_hash cr x) = 32%nat) ->
         (forall x : bytes, all_zero (cr_hash cr x) = false) ->
         (forall x : bytes, bytes_ok (cr_hash cr x) = true) ->
         (forall sk m : bytes, Datatypes.length (cr_sign cr sk m) = 64%nat) ->
         (forall sk m : bytes, bytes_ok (cr_sign cr sk m) = true) ->
         forall (f : option bool) (batch : list bytes) (c : core) (d : disk) (j : list sop) 
           (ev : list event) (bs : list bytes) (sk : bytes) (c' : core) (w' : world) 
           (r : res (N * N)),
         XInv cr c d bs ->
         kp_secret (c_keypair c) = Some sk ->
         sumN (map len (bs ++ batch)) <= u64_max ->
         NODE_SIZE * (2 * N.of_nat (Datatypes.length (bs ++ batch))) <= u64_max ->
         core_append cr f batch c {| w_disk := d; w_journal := j; w_events := ev |} = (c', w', r) ->
         r = Panic frame_msg \/
         r = Ok (N.of_nat (Datatypes.length (bs ++ batch)), sumN (map len (bs ++ batch))) /\
         XInv cr c' (w_disk w') (bs ++ batch) /\ c_keypair c' = c_keypair c.
Proof. exact append_XInv. Qed.

Theorem C02_history_with_crashes :
  forall cr : crypto,
         crc_ok cr ->
         (forall x : bytes, Datatypes.length (cr_hash cr x) = 32%nat) ->
         (forall x : bytes, all_zero (cr_hash cr x) = false) ->
         (forall x : bytes, bytes_ok (cr_hash cr x) = true) ->
         (forall sk m : bytes, Datatypes.length (cr_sign cr sk m) = 64%nat) ->
         (forall sk m : bytes, bytes_ok (cr_sign cr sk m) = true) ->
         forall (ops : list xop) (c : core) (d : disk) (j : list sop) (ev : list event) 
           (bs : list bytes) (sk : bytes),
         XInv cr c d bs ->
         kp_secret (c_keypair c) = Some sk ->
         sumN (map len (bs ++ xappended ops)) <= u64_max ->
         NODE_SIZE * (2 * N.of_nat (Datatypes.length (bs ++ xappended ops))) <= u64_max ->
         xrun_obs cr ops c {| w_disk := d; w_journal := j; w_events := ev |} = xspec_obs ops bs \/
         (exists k : nat,
            xrun_obs cr ops c {| w_disk := d; w_journal := j; w_events := ev |} =
            firstn k (xspec_obs ops bs) ++ [XOAppend (Panic frame_msg)]).
Proof. exact history_with_crashes_correct. Qed.

Theorem C02_history_with_crashes_choice :
  forall cr : crypto,
         crc_ok cr ->
         (forall x : bytes, Datatypes.length (cr_hash cr x) = 32%nat) ->
         (forall x : bytes, all_zero (cr_hash cr x) = false) ->
         (forall x : bytes, bytes_ok (cr_hash cr x) = true) ->
         (forall sk m : bytes, Datatypes.length (cr_sign cr sk m) = 64%nat) ->
         (forall sk m : bytes, bytes_ok (cr_sign cr sk m) = true) ->
         forall (ops : list xop) (c : core) (d : disk) (j : list sop) (ev : list event) 
           (bs : list bytes) (sk : bytes),
         XInv cr c d bs ->
         kp_secret (c_keypair c) = Some sk ->
         sumN (map len (bs ++ xappended ops)) <= u64_max ->
         NODE_SIZE * (2 * N.of_nat (Datatypes.length (bs ++ xappended ops))) <= u64_max ->
         exists ch : list bool,
           xrun_obs cr ops c {| w_disk := d; w_journal := j; w_events := ev |} = xspec_choice ops ch bs \/
           (exists k : nat,
              xrun_obs cr ops c {| w_disk := d; w_journal := j; w_events := ev |} =
              firstn k (xspec_choice ops ch bs) ++ [XOAppend (Panic frame_msg)]).
Proof. exact history_with_crashes_choice. Qed.

Theorem C02_fresh_history_with_crashes :
  forall cr : crypto,
         crc_ok cr ->
         (forall x : bytes, Datatypes.length (cr_hash cr x) = 32%nat) ->
         (forall x : bytes, all_zero (cr_hash cr x) = false) ->
         (forall x : bytes, bytes_ok (cr_hash cr x) = true) ->
         (forall sk m : bytes, Datatypes.length (cr_sign cr sk m) = 64%nat) ->
         (forall sk m : bytes, bytes_ok (cr_sign cr sk m) = true) ->
         forall (kp : keypair) (sk : bytes) (ops : list xop),
         keypair_ok kp = true ->
         kp_secret kp = Some sk ->
         sumN (map len (xappended ops)) <= u64_max ->
         NODE_SIZE * (2 * N.of_nat (Datatypes.length (xappended ops))) <= u64_max ->
         exists (d0 : disk) (ops0 : list sop) (c0 : core),
           core_open cr (Some kp) false disk_empty = (d0, ops0, Ok c0) /\
           (xrun_obs cr ops c0 {| w_disk := d0; w_journal := []; w_events := [] |} = xspec_obs ops [] \/
            (exists k : nat,
               xrun_obs cr ops c0 {| w_disk := d0; w_journal := []; w_events := [] |} =
               firstn k (xspec_obs ops []) ++ [XOAppend (Panic frame_msg)])).
Proof. exact fresh_history_with_crashes_correct. Qed.

Theorem C02_panicking_append_recovers :
  forall cr : crypto,
         crc_ok cr ->
         (forall x : bytes, Datatypes.length (cr_hash cr x) = 32%nat) ->
         (forall x : bytes, all_zero (cr_hash cr x) = false) ->
         (forall x : bytes, bytes_ok (cr_hash cr x) = true) ->
         (forall sk m : bytes, Datatypes.length (cr_sign cr sk m) = 64%nat) ->
         (forall sk m : bytes, bytes_ok (cr_sign cr sk m) = true) ->
         forall (f : option bool) (batch : list bytes) (c : core) (d : disk) (j : list sop) 
           (ev : list event) (bs : list bytes) (sk : bytes) (c' : core) (w' : world) 
           (s : string),
         XInv cr c d bs ->
         kp_secret (c_keypair c) = Some sk ->
         sumN (map len (bs ++ batch)) <= u64_max ->
         NODE_SIZE * (2 * N.of_nat (Datatypes.length (bs ++ batch))) <= u64_max ->
         core_append cr f batch c {| w_disk := d; w_journal := j; w_events := ev |} = (c', w', Panic s) ->
         s = frame_msg /\
         c' = c /\
         w_events w' = ev /\
         (exists o : sop,
            w_journal w' = o :: j /\
            apply_sop d o = Some (w_disk w') /\
            (exists (ck : core) (dk' : disk) (ops : list sop),
               core_open cr None true (w_disk w') = (dk', ops, Ok ck) /\
               XInv cr ck dk' bs /\ c_keypair ck = c_keypair c)).
Proof. exact append_panic_recovers. Qed.

Theorem C02_make_read_only_every_cut_recovers_all_stores :
  forall cr : crypto,
         crc_ok cr ->
         (forall x : bytes, Datatypes.length (cr_hash cr x) = 32%nat) ->
         (forall x : bytes, all_zero (cr_hash cr x) = false) ->
         (forall x : bytes, bytes_ok (cr_hash cr x) = true) ->
         forall (c : core) (d : disk) (bs : list bytes) (sk : bytes) (k : nat),
         DInv cr c d bs ->
         kp_secret (c_keypair c) = Some sk ->
         let np := (Datatypes.length (page_ops (c_bitfield c)) + Datatypes.length (node_ops (c_tree c)))%nat in
         exists dk : disk,
           apply_sops d (firstn k (ro_ops cr c)) = Some dk /\
           (exists (dk' : disk) (ops : list sop) (ck : core),
              core_open cr None true dk = (dk', ops, Ok ck) /\
              d_tree dk' = d_tree dk /\
              d_data dk' = d_data dk /\
              d_bitfield dk' = d_bitfield dk /\
              WInv cr ck dk' bs /\
              same_reads c d ck dk' /\
              hd_keypair (c_header ck) = c_keypair ck /\
              kp_public (c_keypair ck) = kp_public (c_keypair c) /\
              ((k <= np)%nat -> c_keypair ck = c_keypair c /\ i_writeable (core_info ck) = true) /\
              ((np < k)%nat ->
               c_keypair ck = {| kp_public := kp_public (c_keypair c); kp_secret := None |} /\
               i_writeable (core_info ck) = false)).
Proof. exact make_read_only_crash. Qed.

Theorem C02_stable_state_is_crash_tolerant_with_clears :
  forall (cr : crypto) (c : core) (d : disk) (bs : list bytes) (cl : N -> bool),
         FInv cr c d bs cl -> YInv cr c d bs cl.
Proof. exact FInv_YInv. Qed.

Theorem C02_crash_disk_with_clears_reopens :
  forall cr : crypto,
         crc_ok cr ->
         (forall x : bytes, Datatypes.length (cr_hash cr x) = 32%nat) ->
         (forall x : bytes, all_zero (cr_hash cr x) = false) ->
         (forall x : bytes, bytes_ok (cr_hash cr x) = true) ->
         forall (kp : keypair) (d : disk) (bs : list bytes) (cl : N -> bool),
         YDisk cr kp d bs cl ->
         exists (c' : core) (d' : disk) (ops : list sop),
           core_open cr None true d = (d', ops, Ok c') /\
           YInv cr c' d' bs cl /\
           c_keypair c' = kp /\
           c_skip c' = 0 /\
           d_tree d' = d_tree d /\
           d_data d' = d_data d /\
           d_bitfield d' = d_bitfield d /\ (ops = [] /\ d' = d \/ ops = [ST Oplog ENTRIES_OFFSET]).
Proof. exact reopen_Y. Qed.

Theorem C02_append_every_cut_recovers_with_clears :
  forall cr : crypto,
         crc_ok cr ->
         (forall x : bytes, Datatypes.length (cr_hash cr x) = 32%nat) ->
         (forall x : bytes, all_zero (cr_hash cr x) = false) ->
         (forall x : bytes, bytes_ok (cr_hash cr x) = true) ->
         (forall sk m : bytes, Datatypes.length (cr_sign cr sk m) = 64%nat) ->
         (forall sk m : bytes, bytes_ok (cr_sign cr sk m) = true) ->
         forall (f : option bool) (batch : list bytes) (c : core) (d : disk) (j : list sop) 
           (ev : list event) (bs : list bytes) (cl : N -> bool) (sk : bytes) (c' : core) 
           (w' : world) (x : N * N) (delta : list sop),
         YInv cr c d bs cl ->
         kp_secret (c_keypair c) = Some sk ->
         sumN (map len (bs ++ batch)) <= u64_max ->
         NODE_SIZE * (2 * N.of_nat (Datatypes.length (bs ++ batch))) <= u64_max ->
         core_append cr f batch c {| w_disk := d; w_journal := j; w_events := ev |} = (c', w', Ok x) ->
         w_journal w' = rev delta ++ j ->
         forall k : nat,
         exists dk : disk,
           apply_sops d (firstn k delta) = Some dk /\
           (exists (ck : core) (dk' : disk) (ops : list sop),
              core_open cr None true dk = (dk', ops, Ok ck) /\
              (if (k <? 2)%nat
               then YInv cr ck dk' bs cl
               else YInv cr ck dk' (bs ++ batch) (cl_mask cl (N.of_nat (Datatypes.length bs)))) /\
              c_keypair ck = c_keypair c /\ c_skip ck = 0).
Proof. exact append_cut_recovers_Y. Qed.

Theorem C02_clear_every_cut_recovers :
  forall cr : crypto,
         crc_ok cr ->
         (forall x : bytes, Datatypes.length (cr_hash cr x) = 32%nat) ->
         (forall x : bytes, all_zero (cr_hash cr x) = false) ->
         (forall x : bytes, bytes_ok (cr_hash cr x) = true) ->
         forall (f : option bool) (c : core) (d : disk) (j : list sop) (ev : list event) 
           (bs : list bytes) (cl : N -> bool) (start end_ : N) (c' : core) (w' : world) 
           (r : res unit) (delta : list sop),
         let n := N.of_nat (Datatypes.length bs) in
         YInv cr c d bs cl ->
         start < n ->
         start < end_ ->
         end_ <= u64_max ->
         core_clear cr f start end_ c {| w_disk := d; w_journal := j; w_events := ev |} = (c', w', r) ->
         w_journal w' = rev delta ++ j ->
         r = Ok tt /\
         (forall k : nat,
          exists dk : disk,
            apply_sops d (firstn k delta) = Some dk /\
            (exists (ck : core) (dk' : disk) (ops : list sop),
               core_open cr None true dk = (dk', ops, Ok ck) /\
               YInv cr ck dk' bs (if (k <? 1)%nat then cl else cl_clear cl start end_) /\
               c_keypair ck = c_keypair c /\ c_skip ck = 0)).
Proof. exact clear_cut_recovers_Y. Qed.

Theorem C02_crash_during_recovery_recovers :
  forall cr : crypto,
         crc_ok cr ->
         (forall x : bytes, Datatypes.length (cr_hash cr x) = 32%nat) ->
         (forall x : bytes, all_zero (cr_hash cr x) = false) ->
         (forall x : bytes, bytes_ok (cr_hash cr x) = true) ->
         forall (kp : keypair) (d : disk) (bs : list bytes) (cl : N -> bool),
         YDisk cr kp d bs cl ->
         exists (c' : core) (d' : disk) (ops : list sop),
           core_open cr None true d = (d', ops, Ok c') /\
           (forall k : nat, exists dk : disk, apply_sops d (firstn k ops) = Some dk /\ YDisk cr kp dk bs cl).
Proof. exact reopen_cuts_Y. Qed.

Theorem C02_history_with_crashes_in_appends_and_clears :
  forall cr : crypto,
         crc_ok cr ->
         (forall x : bytes, Datatypes.length (cr_hash cr x) = 32%nat) ->
         (forall x : bytes, all_zero (cr_hash cr x) = false) ->
         (forall x : bytes, bytes_ok (cr_hash cr x) = true) ->
         (forall sk m : bytes, Datatypes.length (cr_sign cr sk m) = 64%nat) ->
         (forall sk m : bytes, bytes_ok (cr_sign cr sk m) = true) ->
         forall (ops : list yop) (c : core) (d : disk) (j : list sop) (ev : list event) 
           (bs : list bytes) (cl : N -> bool) (sk : bytes),
         YInv cr c d bs cl ->
         kp_secret (c_keypair c) = Some sk ->
         wf_y ops (N.of_nat (Datatypes.length bs)) ->
         sumN (map len (bs ++ yappended ops)) <= u64_max ->
         NODE_SIZE * (2 * N.of_nat (Datatypes.length (bs ++ yappended ops))) <= u64_max ->
         yrun cr ops c {| w_disk := d; w_journal := j; w_events := ev |} = yspec ops bs cl \/
         (exists k : nat,
            yrun cr ops c {| w_disk := d; w_journal := j; w_events := ev |} =
            firstn k (yspec ops bs cl) ++ [YOAppend (Panic frame_msg)]).
Proof. exact history_crash_clear_correct. Qed.

Theorem C02_fresh_history_with_crashes_in_appends_and_clears :
  forall cr : crypto,
         crc_ok cr ->
         (forall x : bytes, Datatypes.length (cr_hash cr x) = 32%nat) ->
         (forall x : bytes, all_zero (cr_hash cr x) = false) ->
         (forall x : bytes, bytes_ok (cr_hash cr x) = true) ->
         (forall sk m : bytes, Datatypes.length (cr_sign cr sk m) = 64%nat) ->
         (forall sk m : bytes, bytes_ok (cr_sign cr sk m) = true) ->
         forall (kp : keypair) (sk : bytes) (ops : list yop),
         keypair_ok kp = true ->
         kp_secret kp = Some sk ->
         wf_y ops 0 ->
         sumN (map len (yappended ops)) <= u64_max ->
         NODE_SIZE * (2 * N.of_nat (Datatypes.length (yappended ops))) <= u64_max ->
         exists (d0 : disk) (ops0 : list sop) (c0 : core),
           core_open cr (Some kp) false disk_empty = (d0, ops0, Ok c0) /\
           (yrun cr ops c0 {| w_disk := d0; w_journal := []; w_events := [] |} =
            yspec ops [] (fun _ : N => false) \/
            (exists k : nat,
               yrun cr ops c0 {| w_disk := d0; w_journal := []; w_events := [] |} =
               firstn k (yspec ops [] (fun _ : N => false)) ++ [YOAppend (Panic frame_msg)])).
Proof. exact fresh_history_crash_clear_correct. Qed.

Theorem C02_creation_every_cut_recovers :
  forall cr : crypto,
         crc_ok cr ->
         (forall x : bytes, Datatypes.length (cr_hash cr x) = 32%nat) ->
         (forall x : bytes, all_zero (cr_hash cr x) = false) ->
         (forall x : bytes, bytes_ok (cr_hash cr x) = true) ->
         forall kp kp' : keypair,
         keypair_ok kp = true ->
         keypair_ok kp' = true ->
         exists (d' : disk) (J : list sop) (c : core),
           core_open cr (Some kp) false disk_empty = (d', J, Ok c) /\
           (forall k : nat,
            exists dk : disk,
              apply_sops disk_empty (firstn k J) = Some dk /\
              (core_open cr None true dk = (dk, [], Err EmptyStorage) /\
               (exists (d2 : disk) (J2 : list sop) (c2 : core),
                  core_open cr (Some kp') false dk = (d2, J2, Ok c2) /\
                  FInv cr c2 d2 [] (fun _ : N => false) /\ c_keypair c2 = kp') \/
               (exists c2 : core,
                  core_open cr None true dk = (dk, [], Ok c2) /\
                  FInv cr c2 dk [] (fun _ : N => false) /\ c_keypair c2 = kp))).
Proof. exact creation_cut_recovers. Qed.

Theorem C02_proof_application_every_cut :
  forall cr : crypto,
         crc_ok cr ->
         (forall x : bytes, Datatypes.length (cr_hash cr x) = 32%nat) ->
         (forall x : bytes, all_zero (cr_hash cr x) = false) ->
         (forall x : bytes, bytes_ok (cr_hash cr x) = true) ->
         forall bs : list bytes,
         writer_fits bs ->
         forall (f : option bool) (pf : proof) (c : core) (d : disk) (j : list sop) 
           (ev : list event) (H : N -> bool) (c' : core) (w' : world),
         RDInv cr bs c d H ->
         rd_proof_ok pf ->
         core_apply_proof cr f pf c {| w_disk := d; w_journal := j; w_events := ev |} = (c', w', Ok true) ->
         (let pk := kp_public (c_keypair c) in
          let H' := hold H (p_block pf) in
          exists (pre : list sop) (off : N) (fr : bytes) (fl : list sop),
            w_journal w' = rev (pre ++ SW Oplog off fr :: fl) ++ j /\
            Datatypes.length pre = commit_point pf /\
            (forall o : sop, In o pre -> sop_store o = Data) /\
            apply_sops d (pre ++ SW Oplog off fr :: fl) = Some (w_disk w') /\
            RDInv cr bs c' (w_disk w') H' /\
            (forall k : nat,
             exists dk : disk,
               apply_sops d (firstn k (pre ++ SW Oplog off fr :: fl)) = Some dk /\
               (if (k <=? commit_point pf)%nat
                then RDisk cr bs pk dk H (t_length (c_tree c))
                else RDisk cr bs pk dk H' (t_length (c_tree c'))))) \/
         Sound.some_collision cr \/ forged_signature cr bs (kp_public (c_keypair c)).
Proof. exact apply_crash_cuts. Qed.

Theorem C02_proof_application_every_cut_recovers :
  forall cr : crypto,
         crc_ok cr ->
         (forall x : bytes, Datatypes.length (cr_hash cr x) = 32%nat) ->
         (forall x : bytes, all_zero (cr_hash cr x) = false) ->
         (forall x : bytes, bytes_ok (cr_hash cr x) = true) ->
         forall bs : list bytes,
         writer_fits bs ->
         forall (f : option bool) (pf : proof) (c : core) (d : disk) (j : list sop) 
           (ev : list event) (H : N -> bool) (c' : core) (w' : world),
         RDInv cr bs c d H ->
         rd_proof_ok pf ->
         core_apply_proof cr f pf c {| w_disk := d; w_journal := j; w_events := ev |} = (c', w', Ok true) ->
         (exists ops : list sop,
            w_journal w' = rev ops ++ j /\
            apply_sops d ops = Some (w_disk w') /\
            (forall k : nat,
             exists dk : disk,
               apply_sops d (firstn k ops) = Some dk /\
               (exists (c'' : core) (d'' : disk) (rops : list sop),
                  core_open cr None true dk = (d'', rops, Ok c'') /\
                  c_keypair c'' = c_keypair c /\
                  (if (k <=? commit_point pf)%nat
                   then
                    RDInv cr bs c'' d'' H /\
                    obs_replica bs c'' d'' H (t_length (c_tree c)) /\
                    t_length (c_tree c'') = t_length (c_tree c)
                   else
                    RDInv cr bs c'' d'' (hold H (p_block pf)) /\
                    obs_replica bs c'' d'' (hold H (p_block pf)) (t_length (c_tree c')) /\
                    t_length (c_tree c'') = t_length (c_tree c'))))) \/
         Sound.some_collision cr \/ forged_signature cr bs (kp_public (c_keypair c)).
Proof. exact apply_crash_recovers. Qed.

Theorem C02_replica_crash_disk_reopens :
  forall cr : crypto,
         crc_ok cr ->
         (forall x : bytes, Datatypes.length (cr_hash cr x) = 32%nat) ->
         (forall x : bytes, all_zero (cr_hash cr x) = false) ->
         (forall x : bytes, bytes_ok (cr_hash cr x) = true) ->
         forall bs : list bytes,
         writer_fits bs ->
         forall (pk : bytes) (d : disk) (H : N -> bool) (r : N),
         RDisk cr bs pk d H r ->
         exists (c' : core) (d' : disk) (ops : list sop),
           core_open cr None true d = (d', ops, Ok c') /\
           RDInv cr bs c' d' H /\
           t_length (c_tree c') = r /\
           c_keypair c' = {| kp_public := pk; kp_secret := None |} /\
           c_skip c' = 0 /\
           d_tree d' = d_tree d /\
           d_data d' = d_data d /\
           d_bitfield d' = d_bitfield d /\ (ops = [] /\ d' = d \/ ops = [ST Oplog ENTRIES_OFFSET]).
Proof. exact reopen_RDisk. Qed.

(* Tie to the source, regenerated on every run (tools/srcorder.py -> SrcOrder.v): the ORDER of the protocol steps inside the crate's
   mutating calls (data write, oplog entry = commit point, in-memory commits, checkpoint, events; bitfield, tree, oplog inside a
   checkpoint) is the order the model implements and the theorems above are about; None (function restructured) is trivially true. *)
Theorem C02_source_step_order :
  OrderTie.tied_order (option_map OrderTie.storage_steps SrcOrder.src_order_append_batch) (OrderTie.storage_steps OrderTie.model_order_append) /\
  OrderTie.tied_order (option_map OrderTie.storage_steps SrcOrder.src_order_clear) (OrderTie.storage_steps OrderTie.model_order_clear) /\
  OrderTie.tied_order (option_map OrderTie.storage_steps SrcOrder.src_order_verify_and_apply_proof) (OrderTie.storage_steps OrderTie.model_order_apply) /\
  OrderTie.tied_order (option_map OrderTie.storage_steps SrcOrder.src_order_make_read_only) (OrderTie.storage_steps OrderTie.model_order_read_only) /\
  OrderTie.tied_order (option_map OrderTie.storage_steps SrcOrder.src_order_flush_bitfield_and_tree_and_oplog) (OrderTie.storage_steps OrderTie.model_order_flush).
Proof. exact OrderTieStorage.source_storage_order_is_the_models. Qed.

Theorem C02_honest_round_every_cut :
  forall cr : crypto,
         crc_ok cr ->
         (forall x : bytes, Datatypes.length (cr_hash cr x) = 32%nat) ->
         (forall x : bytes, all_zero (cr_hash cr x) = false) ->
         (forall x : bytes, bytes_ok (cr_hash cr x) = true) ->
         forall bs : list bytes,
         writer_fits bs ->
         forall (f : option bool) (cw : core) (dw : disk) (bw : list bytes) (sg : bytes) 
           (jw : list sop) (evw : list event) (c : core) (d : disk) (j : list sop) 
           (ev : list event) (H : N -> bool) (rq : AcceptAll.request),
         let w := N.of_nat (Datatypes.length bw) in
         let pk := kp_public (c_keypair c) in
         AcceptAllCore3.writer_at cr bs cw dw bw pk sg ->
         AcceptAllCore3.RCInv cr bs c d H ->
         t_length (c_tree c) <= w ->
         AcceptAll.wf_request bs (c_tree c) (d_tree d) w rq ->
         (forall vp : vproof,
          create_valueless_proof (c_tree cw) (d_tree dw) (AcceptAll.rq_block rq) (AcceptAll.rq_hash rq)
            (AcceptAll.rq_seek rq) (AcceptAll.rq_upgrade rq) = Ok vp ->
          AcceptAllCore3.frame_guard cr c d (Replicate.vp_to_proof vp (AcceptAll.rq_value bs rq))) ->
         let H' := HonestApply3.held_rq H rq in
         let r' := match AcceptAll.rq_upgrade rq with
                   | Some _ => w
                   | None => t_length (c_tree c)
                   end in
         exists (pf : proof) (c' : core) (w' : world) (pre : list sop) (off : N) (fr : bytes) 
         (fl : list sop),
           core_create_proof (AcceptAll.rq_block rq) (AcceptAll.rq_hash rq) (AcceptAll.rq_seek rq)
             (AcceptAll.rq_upgrade rq) cw {| w_disk := dw; w_journal := jw; w_events := evw |} =
           (cw, {| w_disk := dw; w_journal := jw; w_events := evw |}, Ok (Some pf)) /\
           core_apply_proof cr f pf c {| w_disk := d; w_journal := j; w_events := ev |} = (c', w', Ok true) /\
           w_journal w' = rev (pre ++ SW Oplog off fr :: fl) ++ j /\
           Datatypes.length pre = rq_commit_point rq /\
           (forall o : sop, In o pre -> sop_store o = Data) /\
           apply_sops d (pre ++ SW Oplog off fr :: fl) = Some (w_disk w') /\
           AcceptAllCore3.RCInv cr bs c' (w_disk w') H' /\
           t_length (c_tree c') = r' /\
           c_keypair c' = c_keypair c /\
           (forall k : nat,
            exists dk : disk,
              apply_sops d (firstn k (pre ++ SW Oplog off fr :: fl)) = Some dk /\
              (if (k <=? rq_commit_point rq)%nat
               then RCDisk cr bs pk dk H (t_length (c_tree c))
               else RCDisk cr bs pk dk H' r')).
Proof. exact honest_round_crash_cuts. Qed.

Theorem C02_honest_round_every_cut_recovers :
  forall cr : crypto,
         crc_ok cr ->
         (forall x : bytes, Datatypes.length (cr_hash cr x) = 32%nat) ->
         (forall x : bytes, all_zero (cr_hash cr x) = false) ->
         (forall x : bytes, bytes_ok (cr_hash cr x) = true) ->
         forall bs : list bytes,
         writer_fits bs ->
         forall (f : option bool) (cw : core) (dw : disk) (bw : list bytes) (sg : bytes) 
           (jw : list sop) (evw : list event) (c : core) (d : disk) (j : list sop) 
           (ev : list event) (H : N -> bool) (rq : AcceptAll.request),
         let w := N.of_nat (Datatypes.length bw) in
         let pk := kp_public (c_keypair c) in
         AcceptAllCore3.writer_at cr bs cw dw bw pk sg ->
         AcceptAllCore3.RCInv cr bs c d H ->
         t_length (c_tree c) <= w ->
         AcceptAll.wf_request bs (c_tree c) (d_tree d) w rq ->
         (forall vp : vproof,
          create_valueless_proof (c_tree cw) (d_tree dw) (AcceptAll.rq_block rq) (AcceptAll.rq_hash rq)
            (AcceptAll.rq_seek rq) (AcceptAll.rq_upgrade rq) = Ok vp ->
          AcceptAllCore3.frame_guard cr c d (Replicate.vp_to_proof vp (AcceptAll.rq_value bs rq))) ->
         let H' := HonestApply3.held_rq H rq in
         let r' := match AcceptAll.rq_upgrade rq with
                   | Some _ => w
                   | None => t_length (c_tree c)
                   end in
         exists (pf : proof) (c' : core) (w' : world) (ops : list sop),
           core_create_proof (AcceptAll.rq_block rq) (AcceptAll.rq_hash rq) (AcceptAll.rq_seek rq)
             (AcceptAll.rq_upgrade rq) cw {| w_disk := dw; w_journal := jw; w_events := evw |} =
           (cw, {| w_disk := dw; w_journal := jw; w_events := evw |}, Ok (Some pf)) /\
           core_apply_proof cr f pf c {| w_disk := d; w_journal := j; w_events := ev |} = (c', w', Ok true) /\
           w_journal w' = rev ops ++ j /\
           apply_sops d ops = Some (w_disk w') /\
           AcceptAllCore3.RCInv cr bs c' (w_disk w') H' /\
           t_length (c_tree c') = r' /\
           (forall k : nat,
            exists dk : disk,
              apply_sops d (firstn k ops) = Some dk /\
              (exists (c'' : core) (d'' : disk) (rops : list sop),
                 core_open cr None true dk = (d'', rops, Ok c'') /\
                 c_keypair c'' = c_keypair c /\
                 (if (k <=? rq_commit_point rq)%nat
                  then
                   AcceptAllCore3.RCInv cr bs c'' d'' H /\
                   obs_replica bs c'' d'' H (t_length (c_tree c)) /\
                   t_length (c_tree c'') = t_length (c_tree c)
                  else
                   AcceptAllCore3.RCInv cr bs c'' d'' H' /\
                   obs_replica bs c'' d'' H' r' /\ t_length (c_tree c'') = r'))).
Proof. exact honest_round_crash_recovers. Qed.

Theorem C02_crash_disk_of_any_honest_round_reopens :
  forall cr : crypto,
         crc_ok cr ->
         (forall x : bytes, Datatypes.length (cr_hash cr x) = 32%nat) ->
         (forall x : bytes, all_zero (cr_hash cr x) = false) ->
         (forall x : bytes, bytes_ok (cr_hash cr x) = true) ->
         forall bs : list bytes,
         writer_fits bs ->
         forall (pk : bytes) (d : disk) (H : N -> bool) (r : N),
         RCDisk cr bs pk d H r ->
         exists (c' : core) (d' : disk) (ops : list sop),
           core_open cr None true d = (d', ops, Ok c') /\
           AcceptAllCore3.RCInv cr bs c' d' H /\
           obs_replica bs c' d' H r /\
           t_length (c_tree c') = r /\
           c_keypair c' = {| kp_public := pk; kp_secret := None |} /\
           c_skip c' = 0 /\
           d_tree d' = d_tree d /\
           d_data d' = d_data d /\
           d_bitfield d' = d_bitfield d /\ (ops = [] /\ d' = d \/ ops = [ST Oplog ENTRIES_OFFSET]).
Proof. exact reopen_RCDisk. Qed.

Theorem C02_honest_histories_with_crashes :
  forall cr : crypto,
         crc_ok cr ->
         (forall x : bytes, Datatypes.length (cr_hash cr x) = 32%nat) ->
         (forall x : bytes, all_zero (cr_hash cr x) = false) ->
         (forall x : bytes, bytes_ok (cr_hash cr x) = true) ->
         forall bs : list bytes,
         writer_fits bs ->
         forall (es : list cevent) (c : core) (d : disk) (j : list sop) (ev : list event) (H : N -> bool),
         AcceptAllCore3.RCInv cr bs c d H ->
         chist cr bs es c {| w_disk := d; w_journal := j; w_events := ev |} ->
         exists (c' : core) (w' : world),
           crun cr es c {| w_disk := d; w_journal := j; w_events := ev |} = Some (c', w') /\
           AcceptAllCore3.RCInv cr bs c' (w_disk w') (cheld_all H es) /\
           c_keypair c' = c_keypair c /\
           t_length (c_tree c') = clen_all (t_length (c_tree c)) es /\
           t_byte_length (c_tree c') = TreeRef.prefix_size bs (t_length (c_tree c')) /\
           t_length (c_tree c) <= t_length (c_tree c') /\
           (forall i : N, ccommitted es i -> core_has c' i = true) /\
           (forall i : N, H i = true -> core_has c' i = true) /\
           (forall i : N, core_has c' i = cheld_all H es i) /\
           (forall (i : N) (j2 : list sop) (ev2 : list event),
            core_has c' i = true ->
            core_get i c' {| w_disk := w_disk w'; w_journal := j2; w_events := ev2 |} =
            (c', {| w_disk := w_disk w'; w_journal := j2; w_events := ev2 |}, Ok (Some (TreeRef.blk bs i)))).
Proof. exact honest_crash_histories. Qed.

Theorem C02_fresh_honest_histories_with_crashes :
  forall cr : crypto,
         crc_ok cr ->
         (forall x : bytes, Datatypes.length (cr_hash cr x) = 32%nat) ->
         (forall x : bytes, all_zero (cr_hash cr x) = false) ->
         (forall x : bytes, bytes_ok (cr_hash cr x) = true) ->
         forall bs : list bytes,
         writer_fits bs ->
         forall (kp : keypair) (es : list cevent),
         keypair_ok kp = true ->
         kp_secret kp = None ->
         exists (d0 : disk) (ops0 : list sop) (c0 : core),
           core_open cr (Some kp) false disk_empty = (d0, ops0, Ok c0) /\
           (chist cr bs es c0 {| w_disk := d0; w_journal := []; w_events := [] |} ->
            exists (c' : core) (w' : world),
              crun cr es c0 {| w_disk := d0; w_journal := []; w_events := [] |} = Some (c', w') /\
              AcceptAllCore3.RCInv cr bs c' (w_disk w') (cheld_all (fun _ : N => false) es) /\
              t_length (c_tree c') = clen_all 0 es /\
              (forall i : N, ccommitted es i -> core_has c' i = true) /\
              (forall i : N, core_has c' i = cheld_all (fun _ : N => false) es i) /\
              (forall (i : N) (j2 : list sop) (ev2 : list event),
               core_has c' i = true ->
               core_get i c' {| w_disk := w_disk w'; w_journal := j2; w_events := ev2 |} =
               (c', {| w_disk := w_disk w'; w_journal := j2; w_events := ev2 |}, Ok (Some (TreeRef.blk bs i))))).
Proof. exact honest_fresh_crash_histories. Qed.

Print Assumptions C02_stable_state_reopens.
Print Assumptions C02_append_every_cut.
Print Assumptions C02_flush_every_cut.
Print Assumptions C02_make_read_only_every_cut.
Print Assumptions C02_entries_gone_before_second_slot.
Print Assumptions C02_creation_every_cut.
Print Assumptions C02_open_reads_layout.
Print Assumptions C02_content_model_is_the_file.
Print Assumptions C02_real_headers_fit_a_slot.
Print Assumptions C02_append_every_cut_recovers_all_stores.
Print Assumptions C02_append_every_cut_recovers_iterated.
Print Assumptions C02_append_cut_observations.
Print Assumptions C02_crash_disk_reopens.
Print Assumptions C02_crash_tolerant_invariant_from_stable.
Print Assumptions C02_crash_tolerant_invariant_observations.
Print Assumptions C02_append_preserves_crash_tolerant_invariant.
Print Assumptions C02_history_with_crashes.
Print Assumptions C02_history_with_crashes_choice.
Print Assumptions C02_fresh_history_with_crashes.
Print Assumptions C02_panicking_append_recovers.
Print Assumptions C02_make_read_only_every_cut_recovers_all_stores.
Print Assumptions C02_stable_state_is_crash_tolerant_with_clears.
Print Assumptions C02_crash_disk_with_clears_reopens.
Print Assumptions C02_append_every_cut_recovers_with_clears.
Print Assumptions C02_clear_every_cut_recovers.
Print Assumptions C02_crash_during_recovery_recovers.
Print Assumptions C02_history_with_crashes_in_appends_and_clears.
Print Assumptions C02_fresh_history_with_crashes_in_appends_and_clears.
Print Assumptions C02_creation_every_cut_recovers.
Print Assumptions CrashCore3.toy_history_with_crashes.
Print Assumptions CrashCore3.toy_every_cut_of_a_flushing_append.
Print Assumptions CrashClear3.toy_history_crash_clear.
Print Assumptions CrashClear3.toy_every_cut_of_a_flushing_clear.
Print Assumptions CrashClear3.toy_every_cut_of_a_truncating_clear.
Print Assumptions CrashClear4.toy_creation_cuts.
Print Assumptions ReadOnly.toy_read_only_crash.
Print Assumptions C02_proof_application_every_cut.
Print Assumptions C02_proof_application_every_cut_recovers.
Print Assumptions C02_replica_crash_disk_reopens.
Print Assumptions C02_source_step_order.
Print Assumptions C02_honest_round_every_cut.
Print Assumptions C02_honest_round_every_cut_recovers.
Print Assumptions C02_crash_disk_of_any_honest_round_reopens.
Print Assumptions C02_honest_histories_with_crashes.
Print Assumptions C02_fresh_honest_histories_with_crashes.

(* C02 — placeholder *)
From HC Require Import Base.

(* ADDED IN THE THIRD ROUND (CrashClear4.v): a failing storage operation of an append or clear is the journal cut at that operation, the call answers
   the error, and reopening recovers before/after (C10_fault_is_a_cut_of_the_call, C10_failed_append_recovers, C10_failed_clear_recovers).
   ---- header of the earlier rounds: ---- *)
(* C10 — a storage error surfaces as an error and is recoverable by reopening (pinned statements; proofs in
   Fault.v). Storage::flush_infos applies storage operations in order and stops at the first failure.
   Proved: a flush in which operation number k fails reports the I/O error, leaves core and events untouched,
   and leaves on disk (and in the journal) exactly the first k operations: the cut of the fault-free journal
   at k; for every operation of the core, every prefix of the operations it writes is a well-defined disk from
   which the remaining operations lead to the final disk. Hence every state a single failing WRITE, DELETE or
   TRUNCATE can leave is one of the crash states of C02, whose recovery C02/C07/C08 treat.
   Partial by nature: that the crate propagates every Result with `?` (instead of dropping it, unwrapping it or
   carrying on), and failing READS / length queries, cannot be expressed in the model; they are decided on every
   run by tools/c10.py, which injects one I/O error at EVERY storage operation (reads and length queries
   included, during open too) of every generated history: the call must answer an error — never success, a panic
   or a hang — and reopening must show the before-or-after state with everything earlier intact. *)
From HC Require Import HonestCrash1 HonestCrash2 HonestFault.
From HC Require FaultReplicaEx.
From HC Require Import FaultReplica.
From HC Require SrcOrder OrderTie OrderTieResult OrderTieStorage.
From HC Require Import Refine ClearRefine Unified1 CrashClear1 CrashClear2 CrashClear4.
From HC Require Import Base NMap Codec Crypto FlatTree Storage Bitfield Oplog Merkle Core CoreFacts Fault.

Theorem C10_failed_flush_is_a_cut : forall ops k c w c1 w1,
  (k < length ops)%nat ->
  emit ops c w = (c1, w1, Ok tt) ->
  exists wk,
    emit_fail k ops c w = (c, wk, Err IOErr) /\
    w_journal wk = rev (firstn k ops) ++ w_journal w /\
    apply_sops (w_disk w) (firstn k ops) = Some (w_disk wk) /\
    apply_sops (w_disk wk) (skipn k ops) = Some (w_disk w1) /\
    w_events wk = w_events w.
Proof. exact emit_fail_is_cut. Qed.

Theorem C10_fault_states_are_crash_cuts : forall cr,
  (forall f batch, fault_states_are_cuts (core_append cr f batch)) /\
  (forall f s e, fault_states_are_cuts (core_clear cr f s e)) /\
  (forall f pf, fault_states_are_cuts (core_apply_proof cr f pf)) /\
  fault_states_are_cuts (core_make_read_only cr) /\
  (forall i, fault_states_are_cuts (core_get i)).
Proof. exact operations_fault_states. Qed.

Theorem C10_journal_prefixes_apply : forall d l d' k,
  apply_sops d l = Some d' ->
  exists dk, apply_sops d (firstn k l) = Some dk /\ apply_sops dk (skipn k l) = Some d'.
Proof. exact apply_sops_prefix. Qed.

Theorem C10_fault_is_a_cut_of_the_call :
  forall (A : Type) (m mf : M A) (k : nat) (c : core) (d : disk) (j : list sop) (ev : list event) 
           (c' : core) (w' : world) (x : A) (delta : list sop),
         fsim (Datatypes.length j + k) m mf ->
         m c {| w_disk := d; w_journal := j; w_events := ev |} = (c', w', Ok x) ->
         w_journal w' = rev delta ++ j ->
         (k < Datatypes.length delta)%nat ->
         exists (ck : core) (wk : world),
           mf c {| w_disk := d; w_journal := j; w_events := ev |} = (ck, wk, Err IOErr) /\
           w_journal wk = rev (firstn k delta) ++ j /\ apply_sops d (firstn k delta) = Some (w_disk wk).
Proof. intros A. exact fault_is_cut. Qed.

Theorem C10_fault_beyond_the_call :
  forall (A : Type) (m mf : M A) (k : nat) (c : core) (d : disk) (j : list sop) (ev : list event) 
           (c' : core) (w' : world) (x : A) (delta : list sop),
         fsim (Datatypes.length j + k) m mf ->
         m c {| w_disk := d; w_journal := j; w_events := ev |} = (c', w', Ok x) ->
         w_journal w' = rev delta ++ j ->
         (Datatypes.length delta <= k)%nat ->
         mf c {| w_disk := d; w_journal := j; w_events := ev |} = (c', w', Ok x).
Proof. intros A. exact fault_beyond_end. Qed.

Theorem C10_failed_append_recovers :
  forall cr : crypto,
         OplogFacts.crc_ok cr ->
         (forall x : bytes, Datatypes.length (cr_hash cr x) = 32%nat) ->
         (forall x : bytes, all_zero (cr_hash cr x) = false) ->
         (forall x : bytes, bytes_ok (cr_hash cr x) = true) ->
         (forall sk m : bytes, Datatypes.length (cr_sign cr sk m) = 64%nat) ->
         (forall sk m : bytes, bytes_ok (cr_sign cr sk m) = true) ->
         forall (f : option bool) (batch : list bytes) (c : core) (d : disk) (j : list sop) 
           (ev : list event) (bs : list bytes) (cl : N -> bool) (sk : bytes) (c' : core) 
           (w' : world) (x : N * N) (delta : list sop) (k : nat),
         YInv cr c d bs cl ->
         kp_secret (c_keypair c) = Some sk ->
         sumN (map len (bs ++ batch)) <= u64_max ->
         NODE_SIZE * (2 * N.of_nat (Datatypes.length (bs ++ batch))) <= u64_max ->
         core_append cr f batch c {| w_disk := d; w_journal := j; w_events := ev |} = (c', w', Ok x) ->
         w_journal w' = rev delta ++ j ->
         (k < Datatypes.length delta)%nat ->
         exists (ck : core) (wk : world),
           core_append_E cr (emit_lim (Datatypes.length j + k)) f batch c
             {| w_disk := d; w_journal := j; w_events := ev |} = (ck, wk, Err IOErr) /\
           w_journal wk = rev (firstn k delta) ++ j /\
           apply_sops d (firstn k delta) = Some (w_disk wk) /\
           (exists (c2 : core) (d2 : disk) (ops2 : list sop),
              core_open cr None true (w_disk wk) = (d2, ops2, Ok c2) /\
              (if (k <? 2)%nat
               then YInv cr c2 d2 bs cl
               else YInv cr c2 d2 (bs ++ batch) (cl_mask cl (N.of_nat (Datatypes.length bs)))) /\
              c_keypair c2 = c_keypair c).
Proof. exact append_fault_recovers. Qed.

Theorem C10_failed_clear_recovers :
  forall cr : crypto,
         OplogFacts.crc_ok cr ->
         (forall x : bytes, Datatypes.length (cr_hash cr x) = 32%nat) ->
         (forall x : bytes, all_zero (cr_hash cr x) = false) ->
         (forall x : bytes, bytes_ok (cr_hash cr x) = true) ->
         forall (f : option bool) (c : core) (d : disk) (j : list sop) (ev : list event) 
           (bs : list bytes) (cl : N -> bool) (start end_ : N) (c' : core) (w' : world) 
           (r : res unit) (delta : list sop) (k : nat),
         let n := N.of_nat (Datatypes.length bs) in
         YInv cr c d bs cl ->
         start < n ->
         start < end_ ->
         end_ <= u64_max ->
         core_clear cr f start end_ c {| w_disk := d; w_journal := j; w_events := ev |} = (c', w', r) ->
         w_journal w' = rev delta ++ j ->
         (k < Datatypes.length delta)%nat ->
         exists (ck : core) (wk : world),
           core_clear_E cr (emit_lim (Datatypes.length j + k)) f start end_ c
             {| w_disk := d; w_journal := j; w_events := ev |} = (ck, wk, Err IOErr) /\
           w_journal wk = rev (firstn k delta) ++ j /\
           apply_sops d (firstn k delta) = Some (w_disk wk) /\
           (exists (c2 : core) (d2 : disk) (ops2 : list sop),
              core_open cr None true (w_disk wk) = (d2, ops2, Ok c2) /\
              YInv cr c2 d2 bs (if (k <? 1)%nat then cl else cl_clear cl start end_) /\
              c_keypair c2 = c_keypair c).
Proof. exact clear_fault_recovers. Qed.

(* Tie to the source, regenerated on every run (tools/srcorder.py): in append_batch, clear, verify_and_apply_proof, make_read_only and the
   checkpoint EVERY storage call (Storage::flush_info(s), the checkpoint itself) is followed by `.await?`, i.e. its Result is
   propagated — the syntactic half of what the model cannot express (the other half: fault injection on the crate). *)
Theorem C10_source_propagates_every_storage_result :
  OrderTie.tied_order SrcOrder.src_unpropagated_append_batch 0%N /\
  OrderTie.tied_order SrcOrder.src_unpropagated_clear 0%N /\
  OrderTie.tied_order SrcOrder.src_unpropagated_verify_and_apply_proof 0%N /\
  OrderTie.tied_order SrcOrder.src_unpropagated_make_read_only 0%N /\
  OrderTie.tied_order SrcOrder.src_unpropagated_flush_bitfield_and_tree_and_oplog 0%N.
Proof. exact OrderTieResult.source_propagates_every_storage_result. Qed.

(* ... and the ORDER of the storage-relevant steps (data write, oplog entry = commit point, in-memory commits, checkpoint; bitfield,
   tree, oplog inside a checkpoint) is the one the model implements — the order the recovery of a failed call relies on. *)
Theorem C10_source_step_order :
  OrderTie.tied_order (option_map OrderTie.storage_steps SrcOrder.src_order_append_batch) (OrderTie.storage_steps OrderTie.model_order_append) /\
  OrderTie.tied_order (option_map OrderTie.storage_steps SrcOrder.src_order_clear) (OrderTie.storage_steps OrderTie.model_order_clear) /\
  OrderTie.tied_order (option_map OrderTie.storage_steps SrcOrder.src_order_verify_and_apply_proof) (OrderTie.storage_steps OrderTie.model_order_apply) /\
  OrderTie.tied_order (option_map OrderTie.storage_steps SrcOrder.src_order_make_read_only) (OrderTie.storage_steps OrderTie.model_order_read_only) /\
  OrderTie.tied_order (option_map OrderTie.storage_steps SrcOrder.src_order_flush_bitfield_and_tree_and_oplog) (OrderTie.storage_steps OrderTie.model_order_flush).
Proof. exact OrderTieStorage.source_storage_order_is_the_models. Qed.

Theorem C10_failed_apply_recovers :
  forall cr : crypto,
         OplogFacts.crc_ok cr ->
         (forall x : bytes, Datatypes.length (cr_hash cr x) = 32%nat) ->
         (forall x : bytes, all_zero (cr_hash cr x) = false) ->
         (forall x : bytes, bytes_ok (cr_hash cr x) = true) ->
         forall bs : list bytes,
         SoundCoreLib.writer_fits bs ->
         forall (f : option bool) (pf : proof) (c : core) (d : disk) (j : list sop) 
           (ev : list event) (H : N -> bool) (c' : core) (w' : world) (delta : list sop) 
           (k : nat),
         ReplicaDisk1.RDInv cr bs c d H ->
         ReplicaDisk3.rd_proof_ok pf ->
         core_apply_proof cr f pf c {| w_disk := d; w_journal := j; w_events := ev |} = (c', w', Ok true) ->
         w_journal w' = rev delta ++ j ->
         (k < Datatypes.length delta)%nat ->
         exists (ck : core) (wk : world),
           core_apply_proof_E cr (emit_lim (Datatypes.length j + k)) f pf c
             {| w_disk := d; w_journal := j; w_events := ev |} = (ck, wk, Err IOErr) /\
           w_journal wk = rev (firstn k delta) ++ j /\
           apply_sops d (firstn k delta) = Some (w_disk wk) /\
           w_events wk = ev /\
           ((exists (c2 : core) (d2 : disk) (rops : list sop),
               core_open cr None true (w_disk wk) = (d2, rops, Ok c2) /\
               c_keypair c2 = c_keypair c /\
               (if (k <=? ReplicaDisk4.commit_point pf)%nat
                then
                 ReplicaDisk1.RDInv cr bs c2 d2 H /\
                 ReplicaDisk1.obs_replica bs c2 d2 H (t_length (c_tree c)) /\
                 t_length (c_tree c2) = t_length (c_tree c)
                else
                 ReplicaDisk1.RDInv cr bs c2 d2 (ReplicaDisk3.hold H (p_block pf)) /\
                 ReplicaDisk1.obs_replica bs c2 d2 (ReplicaDisk3.hold H (p_block pf)) (t_length (c_tree c')) /\
                 t_length (c_tree c2) = t_length (c_tree c'))) \/
            Sound.some_collision cr \/ SoundCore.forged_signature cr bs (kp_public (c_keypair c))).
Proof. exact failed_apply_recovers. Qed.

Theorem C10_refused_apply_no_fault :
  forall (cr : crypto) (f : option bool) (pf : proof) (c : core) (d : disk) 
           (j : list sop) (ev : list event) (c' : core) (w' : world) (k : nat),
         core_apply_proof cr f pf c {| w_disk := d; w_journal := j; w_events := ev |} = (c', w', Ok false) ->
         core_apply_proof_E cr (emit_lim (Datatypes.length j + k)) f pf c
           {| w_disk := d; w_journal := j; w_events := ev |} =
         (c, {| w_disk := d; w_journal := j; w_events := ev |}, Ok false).
Proof. exact refused_apply_no_fault. Qed.

Theorem C10_failed_make_read_only_recovers :
  forall cr : crypto,
         OplogFacts.crc_ok cr ->
         (forall x : bytes, Datatypes.length (cr_hash cr x) = 32%nat) ->
         (forall x : bytes, all_zero (cr_hash cr x) = false) ->
         (forall x : bytes, bytes_ok (cr_hash cr x) = true) ->
         forall (c : core) (d : disk) (j : list sop) (ev : list event) (bs : list bytes) 
           (cl : N -> bool) (k : nat),
         YInv cr c d bs cl ->
         (k < Datatypes.length (ReadOnly.ro_ops cr c))%nat ->
         exists (ck : core) (wk : world),
           core_make_read_only_E cr (emit_lim (Datatypes.length j + k)) c
             {| w_disk := d; w_journal := j; w_events := ev |} = (ck, wk, Err IOErr) /\
           w_journal wk = rev (firstn k (ReadOnly.ro_ops cr c)) ++ j /\
           apply_sops d (firstn k (ReadOnly.ro_ops cr c)) = Some (w_disk wk) /\
           w_events wk = ev /\
           (exists (d2 : disk) (rops : list sop) (c2 : core),
              core_open cr None true (w_disk wk) = (d2, rops, Ok c2) /\
              (rops = [] /\ d2 = w_disk wk \/ rops = [ST Oplog ENTRIES_OFFSET]) /\
              YInv cr c2 d2 bs cl /\
              obs_cleared c2 d2 bs cl /\
              ReadOnly.same_reads c d c2 d2 /\
              kp_public (c_keypair c2) = kp_public (c_keypair c) /\
              ((k <= ReadOnlyClear.ro_np c)%nat ->
               c_keypair c2 = c_keypair c /\ i_writeable (core_info c2) = i_writeable (core_info c)) /\
              ((ReadOnlyClear.ro_np c < k)%nat ->
               c_keypair c2 = {| kp_public := kp_public (c_keypair c); kp_secret := None |} /\
               i_writeable (core_info c2) = false) /\
              (forall (j2 : list sop) (ev2 : list event),
               exists (c3 : core) (d3 : disk),
                 core_make_read_only cr c2 {| w_disk := d2; w_journal := j2; w_events := ev2 |} =
                 (c3, {| w_disk := d3; w_journal := rev (ReadOnly.ro_ops cr c2) ++ j2; w_events := ev2 |},
                  Ok (i_writeable (core_info c2))) /\
                 f_content (d_oplog d3) = ReadOnly.ro_oplog_file cr c2 /\
                 YInv cr c3 d3 bs cl /\
                 ReadOnly.same_reads c d c3 d3 /\
                 kp_secret (c_keypair c3) = None /\ kp_secret (hd_keypair (c_header c3)) = None)).
Proof. exact failed_make_read_only_recovers. Qed.

Theorem C10_failed_replica_make_read_only_recovers :
  forall cr : crypto,
         OplogFacts.crc_ok cr ->
         (forall x : bytes, Datatypes.length (cr_hash cr x) = 32%nat) ->
         (forall x : bytes, all_zero (cr_hash cr x) = false) ->
         (forall x : bytes, bytes_ok (cr_hash cr x) = true) ->
         forall bs : list bytes,
         SoundCoreLib.writer_fits bs ->
         forall (c : core) (d : disk) (j : list sop) (ev : list event) (H : N -> bool) (k : nat),
         ReplicaDisk1.RDInv cr bs c d H ->
         (k < Datatypes.length (ReadOnly.ro_ops cr c))%nat ->
         exists (ck : core) (wk : world),
           core_make_read_only_E cr (emit_lim (Datatypes.length j + k)) c
             {| w_disk := d; w_journal := j; w_events := ev |} = (ck, wk, Err IOErr) /\
           w_journal wk = rev (firstn k (ReadOnly.ro_ops cr c)) ++ j /\
           apply_sops d (firstn k (ReadOnly.ro_ops cr c)) = Some (w_disk wk) /\
           w_events wk = ev /\
           (exists (c2 : core) (d2 : disk) (rops : list sop),
              core_open cr None true (w_disk wk) = (d2, rops, Ok c2) /\
              ReplicaDisk1.RDInv cr bs c2 d2 H /\
              ReplicaDisk1.obs_replica bs c2 d2 H (t_length (c_tree c)) /\
              c_keypair c2 = c_keypair c /\
              t_length (c_tree c2) = t_length (c_tree c) /\
              core_info c2 = core_info c /\
              (forall i : N, core_has c2 i = core_has c i) /\
              (forall (i : N) (j' : list sop) (ev' : list event),
               snd (core_get i c2 {| w_disk := d2; w_journal := j'; w_events := ev' |}) =
               snd (core_get i c {| w_disk := d; w_journal := j'; w_events := ev' |}))).
Proof. exact failed_replica_make_read_only_recovers. Qed.

Theorem C10_fault_surfaces_as_io_error :
  forall (cr : crypto) (k : nat),
         (forall (f : option bool) (batch : list bytes) (c : core) (d : disk) (j : list sop) 
            (ev : list event) (c' : core) (w' : world) (r : res (N * N)),
          core_append cr f batch c {| w_disk := d; w_journal := j; w_events := ev |} = (c', w', r) ->
          let r' :=
            snd
              (core_append_E cr (emit_lim (Datatypes.length j + k)) f batch c
                 {| w_disk := d; w_journal := j; w_events := ev |}) in
          r' = r \/ r' = Err IOErr) /\
         (forall (f : option bool) (s e : N) (c : core) (d : disk) (j : list sop) (ev : list event) 
            (c' : core) (w' : world) (r : res unit),
          core_clear cr f s e c {| w_disk := d; w_journal := j; w_events := ev |} = (c', w', r) ->
          let r' :=
            snd
              (core_clear_E cr (emit_lim (Datatypes.length j + k)) f s e c
                 {| w_disk := d; w_journal := j; w_events := ev |}) in
          r' = r \/ r' = Err IOErr) /\
         (forall (f : option bool) (pf : proof) (c : core) (d : disk) (j : list sop) 
            (ev : list event) (c' : core) (w' : world) (r : res bool),
          core_apply_proof cr f pf c {| w_disk := d; w_journal := j; w_events := ev |} = (c', w', r) ->
          let r' :=
            snd
              (core_apply_proof_E cr (emit_lim (Datatypes.length j + k)) f pf c
                 {| w_disk := d; w_journal := j; w_events := ev |}) in
          r' = r \/ r' = Err IOErr) /\
         (forall (c : core) (d : disk) (j : list sop) (ev : list event) (c' : core) (w' : world) (r : res bool),
          core_make_read_only cr c {| w_disk := d; w_journal := j; w_events := ev |} = (c', w', r) ->
          let r' :=
            snd
              (core_make_read_only_E cr (emit_lim (Datatypes.length j + k)) c
                 {| w_disk := d; w_journal := j; w_events := ev |}) in
          r' = r \/ r' = Err IOErr).
Proof. exact fault_surfaces_as_io_error. Qed.

Theorem C10_fault_any_outcome :
  forall (A : Type) (m mf : M A) (k : nat) (c : core) (d : disk) (j : list sop) (ev : list event) 
           (c' : core) (w' : world) (r : res A) (delta : list sop),
         fsimA (Datatypes.length j + k) m mf ->
         m c {| w_disk := d; w_journal := j; w_events := ev |} = (c', w', r) ->
         w_journal w' = rev delta ++ j ->
         (Datatypes.length delta <= k)%nat /\
         mf c {| w_disk := d; w_journal := j; w_events := ev |} = (c', w', r) \/
         (k <= Datatypes.length delta)%nat /\
         (exists (ck : core) (wk : world),
            mf c {| w_disk := d; w_journal := j; w_events := ev |} = (ck, wk, Err IOErr) /\
            w_journal wk = rev (firstn k delta) ++ j /\ apply_sops d (firstn k delta) = Some (w_disk wk)).
Proof. intros A. exact fault_any_outcome. Qed.

Theorem C10_failed_open_recovers_writer :
  forall cr : crypto,
         OplogFacts.crc_ok cr ->
         (forall x : bytes, Datatypes.length (cr_hash cr x) = 32%nat) ->
         (forall x : bytes, all_zero (cr_hash cr x) = false) ->
         (forall x : bytes, bytes_ok (cr_hash cr x) = true) ->
         forall (kp : keypair) (d : disk) (bs : list bytes) (cl : N -> bool) (k : nat),
         YDisk cr kp d bs cl ->
         exists (c' : core) (d' : disk) (ops : list sop),
           core_open cr None true d = (d', ops, Ok c') /\
           YInv cr c' d' bs cl /\
           c_keypair c' = kp /\
           ((Datatypes.length ops <= k)%nat /\ core_open_F cr k None true d = (d', ops, Ok c') \/
            (k < Datatypes.length ops)%nat /\ core_open_F cr k None true d = (d, [], Err IOErr)).
Proof. exact failed_open_recovers_Y. Qed.

Theorem C10_failed_open_recovers_replica :
  forall cr : crypto,
         OplogFacts.crc_ok cr ->
         (forall x : bytes, Datatypes.length (cr_hash cr x) = 32%nat) ->
         (forall x : bytes, all_zero (cr_hash cr x) = false) ->
         (forall x : bytes, bytes_ok (cr_hash cr x) = true) ->
         forall (bs : list bytes) (pk : bytes) (d : disk) (H : N -> bool) (r : N) (k : nat),
         SoundCoreLib.writer_fits bs ->
         ReplicaDisk1.RDisk cr bs pk d H r ->
         exists (c' : core) (d' : disk) (ops : list sop),
           core_open cr None true d = (d', ops, Ok c') /\
           ReplicaDisk1.RDInv cr bs c' d' H /\
           t_length (c_tree c') = r /\
           c_keypair c' = {| kp_public := pk; kp_secret := None |} /\
           ((Datatypes.length ops <= k)%nat /\ core_open_F cr k None true d = (d', ops, Ok c') \/
            (k < Datatypes.length ops)%nat /\ core_open_F cr k None true d = (d, [], Err IOErr)).
Proof. exact failed_open_recovers_R. Qed.

Theorem C10_failed_create_recovers :
  forall cr : crypto,
         OplogFacts.crc_ok cr ->
         (forall x : bytes, Datatypes.length (cr_hash cr x) = 32%nat) ->
         (forall x : bytes, all_zero (cr_hash cr x) = false) ->
         (forall x : bytes, bytes_ok (cr_hash cr x) = true) ->
         forall (kp kp' : keypair) (k : nat),
         OplogFacts.keypair_ok kp = true ->
         OplogFacts.keypair_ok kp' = true ->
         (k < 2)%nat ->
         exists (d' : disk) (J : list sop) (c : core),
           core_open cr (Some kp) false disk_empty = (d', J, Ok c) /\
           Datatypes.length J = 2%nat /\
           (exists dk : disk,
              core_open_F cr k (Some kp) false disk_empty = (dk, firstn k J, Err IOErr) /\
              apply_sops disk_empty (firstn k J) = Some dk /\
              blank_disk dk /\
              core_open cr None true dk = (dk, [], Err EmptyStorage) /\
              (exists (d2 : disk) (J2 : list sop) (c2 : core),
                 core_open cr (Some kp') false dk = (d2, J2, Ok c2) /\
                 FInv cr c2 d2 [] (fun _ : N => false) /\ c_keypair c2 = kp')).
Proof. exact failed_create_recovers. Qed.

Theorem C10_failed_honest_round_recovers :
  forall cr : crypto,
         OplogFacts.crc_ok cr ->
         (forall x : bytes, Datatypes.length (cr_hash cr x) = 32%nat) ->
         (forall x : bytes, all_zero (cr_hash cr x) = false) ->
         (forall x : bytes, bytes_ok (cr_hash cr x) = true) ->
         forall bs : list bytes,
         SoundCoreLib.writer_fits bs ->
         forall (f : option bool) (cw : core) (dw : disk) (bw : list bytes) (sg : bytes) 
           (jw : list sop) (evw : list event) (c : core) (d : disk) (j : list sop) 
           (ev : list event) (H : N -> bool) (rq : AcceptAll.request) (k : nat),
         let w := N.of_nat (Datatypes.length bw) in
         let pk := kp_public (c_keypair c) in
         AcceptAllCore3.writer_at cr bs cw dw bw pk sg ->
         AcceptAllCore3.RCInv cr bs c d H ->
         t_length (c_tree c) <= w ->
         AcceptAll.wf_request bs (c_tree c) (d_tree d) w rq ->
         (forall vp : vproof,
          create_valueless_proof (c_tree cw) (d_tree dw) (AcceptAll.rq_block rq) (AcceptAll.rq_hash rq)
            (AcceptAll.rq_seek rq) (AcceptAll.rq_upgrade rq) = Ok vp ->
          AcceptAllCore3.frame_guard cr c d (Replicate.vp_to_proof vp (AcceptAll.rq_value bs rq))) ->
         let H' := HonestApply3.held_rq H rq in
         let r' := match AcceptAll.rq_upgrade rq with
                   | Some _ => w
                   | None => t_length (c_tree c)
                   end in
         exists (pf : proof) (c' : core) (w' : world) (ops : list sop),
           core_create_proof (AcceptAll.rq_block rq) (AcceptAll.rq_hash rq) (AcceptAll.rq_seek rq)
             (AcceptAll.rq_upgrade rq) cw {| w_disk := dw; w_journal := jw; w_events := evw |} =
           (cw, {| w_disk := dw; w_journal := jw; w_events := evw |}, Ok (Some pf)) /\
           core_apply_proof cr f pf c {| w_disk := d; w_journal := j; w_events := ev |} = (c', w', Ok true) /\
           w_journal w' = rev ops ++ j /\
           (rq_commit_point rq < Datatypes.length ops)%nat /\
           AcceptAllCore3.RCInv cr bs c' (w_disk w') H' /\
           t_length (c_tree c') = r' /\
           c_keypair c' = c_keypair c /\
           ((Datatypes.length ops <= k)%nat ->
            core_apply_proof_E cr (emit_lim (Datatypes.length j + k)) f pf c
              {| w_disk := d; w_journal := j; w_events := ev |} = (c', w', Ok true)) /\
           ((k < Datatypes.length ops)%nat ->
            exists (ck : core) (wk : world),
              core_apply_proof_E cr (emit_lim (Datatypes.length j + k)) f pf c
                {| w_disk := d; w_journal := j; w_events := ev |} = (ck, wk, Err IOErr) /\
              w_journal wk = rev (firstn k ops) ++ j /\
              apply_sops d (firstn k ops) = Some (w_disk wk) /\
              w_events wk = ev /\
              (exists (c2 : core) (d2 : disk) (rops : list sop),
                 core_open cr None true (w_disk wk) = (d2, rops, Ok c2) /\
                 c_keypair c2 = c_keypair c /\
                 (if (k <=? rq_commit_point rq)%nat
                  then
                   AcceptAllCore3.RCInv cr bs c2 d2 H /\
                   ReplicaDisk1.obs_replica bs c2 d2 H (t_length (c_tree c)) /\
                   t_length (c_tree c2) = t_length (c_tree c)
                  else
                   AcceptAllCore3.RCInv cr bs c2 d2 H' /\
                   ReplicaDisk1.obs_replica bs c2 d2 H' r' /\ t_length (c_tree c2) = r'))).
Proof. exact failed_honest_round. Qed.

Theorem C10_fault_during_recovery_of_any_honest_round :
  forall cr : crypto,
         OplogFacts.crc_ok cr ->
         (forall x : bytes, Datatypes.length (cr_hash cr x) = 32%nat) ->
         (forall x : bytes, all_zero (cr_hash cr x) = false) ->
         (forall x : bytes, bytes_ok (cr_hash cr x) = true) ->
         forall bs : list bytes,
         SoundCoreLib.writer_fits bs ->
         forall (pk : bytes) (d : disk) (H : N -> bool) (r : N) (k : nat),
         RCDisk cr bs pk d H r ->
         exists (c' : core) (d' : disk) (ops : list sop),
           core_open cr None true d = (d', ops, Ok c') /\
           AcceptAllCore3.RCInv cr bs c' d' H /\
           ReplicaDisk1.obs_replica bs c' d' H r /\
           t_length (c_tree c') = r /\
           c_keypair c' = {| kp_public := pk; kp_secret := None |} /\
           ((Datatypes.length ops <= k)%nat /\ core_open_F cr k None true d = (d', ops, Ok c') \/
            (k < Datatypes.length ops)%nat /\ core_open_F cr k None true d = (d, [], Err IOErr)).
Proof. exact failed_open_recovers_RC. Qed.

Theorem C10_honest_histories_with_faults :
  forall cr : crypto,
         OplogFacts.crc_ok cr ->
         (forall x : bytes, Datatypes.length (cr_hash cr x) = 32%nat) ->
         (forall x : bytes, all_zero (cr_hash cr x) = false) ->
         (forall x : bytes, bytes_ok (cr_hash cr x) = true) ->
         forall bs : list bytes,
         SoundCoreLib.writer_fits bs ->
         forall (es : list fevent) (c : core) (d : disk) (j : list sop) (ev : list event) (H : N -> bool),
         AcceptAllCore3.RCInv cr bs c d H ->
         fhist cr bs es c {| w_disk := d; w_journal := j; w_events := ev |} ->
         exists (c' : core) (w' : world),
           frun cr es c {| w_disk := d; w_journal := j; w_events := ev |} = Some (c', w') /\
           AcceptAllCore3.RCInv cr bs c' (w_disk w') (fheld_all H es) /\
           c_keypair c' = c_keypair c /\
           t_length (c_tree c') = flen_all (t_length (c_tree c)) es /\
           t_byte_length (c_tree c') = TreeRef.prefix_size bs (t_length (c_tree c')) /\
           t_length (c_tree c) <= t_length (c_tree c') /\
           (forall i : N, fcommitted es i -> core_has c' i = true) /\
           (forall i : N, H i = true -> core_has c' i = true) /\
           (forall i : N, core_has c' i = fheld_all H es i) /\
           (forall (i : N) (j2 : list sop) (ev2 : list event),
            core_has c' i = true ->
            core_get i c' {| w_disk := w_disk w'; w_journal := j2; w_events := ev2 |} =
            (c', {| w_disk := w_disk w'; w_journal := j2; w_events := ev2 |}, Ok (Some (TreeRef.blk bs i)))).
Proof. exact honest_fault_histories. Qed.

Print Assumptions C10_failed_flush_is_a_cut.
Print Assumptions C10_fault_states_are_crash_cuts.
Print Assumptions C10_journal_prefixes_apply.
Print Assumptions C10_fault_is_a_cut_of_the_call.
Print Assumptions C10_fault_beyond_the_call.
Print Assumptions C10_failed_append_recovers.
Print Assumptions C10_failed_clear_recovers.
Print Assumptions CrashClear4.toy_fault_in_clear.
Print Assumptions CrashClear4.fault_then_continue_loses_acknowledged_appends.
Print Assumptions C10_source_propagates_every_storage_result.
Print Assumptions C10_failed_apply_recovers.
Print Assumptions C10_refused_apply_no_fault.
Print Assumptions C10_failed_make_read_only_recovers.
Print Assumptions C10_failed_replica_make_read_only_recovers.
Print Assumptions C10_fault_surfaces_as_io_error.
Print Assumptions C10_fault_any_outcome.
Print Assumptions C10_failed_open_recovers_writer.
Print Assumptions C10_failed_open_recovers_replica.
Print Assumptions C10_failed_create_recovers.
Print Assumptions FaultReplicaEx.sc_fault_at_every_operation_of_apply.
Print Assumptions FaultReplicaEx.sc_failed_apply_theorem_applies.
Print Assumptions FaultReplicaEx.toy_fault_at_every_operation_of_make_read_only.
Print Assumptions FaultReplicaEx.toy_failed_make_read_only_theorem_applies.
Print Assumptions FaultReplicaEx.sc_fault_at_every_operation_of_replica_make_read_only.
Print Assumptions FaultReplicaEx.toy_fault_in_creation.
Print Assumptions FaultReplicaEx.toy_fault_in_repairing_open.
Print Assumptions FaultReplicaEx.toy_failed_open_theorem_applies.
Print Assumptions C10_source_step_order.
Print Assumptions C10_failed_honest_round_recovers.
Print Assumptions C10_fault_during_recovery_of_any_honest_round.
Print Assumptions C10_honest_histories_with_faults.

(* C10 — a storage error surfaces as an error and is recoverable by reopening (pinned statements; proofs in
   Fault.v). Storage::flush_infos applies storage operations in order and stops at the first failure.
   Proved: a flush in which operation number k fails reports the I/O error, leaves core and events untouched,
   and leaves on disk (and in the journal) exactly the first k operations: the cut of the fault-free journal
   at k; for every operation of the core, every prefix of the operations it writes is a well-defined disk from
   which the remaining operations lead to the final disk. Hence every state a single failing WRITE, DELETE or
   TRUNCATE can leave is one of the crash states of C02, whose recovery C02/C07/C08 treat.
   Partial by nature: that the crate propagates every Result with `?` (instead of dropping it, unwrapping it or
   carrying on), and failing READS / length queries, cannot be expressed in the model; they are decided on every
   run by tools/c10.py, which injects one I/O error at EVERY storage operation (reads and length queries
   included, during open too) of every generated history: the call must answer an error — never success, a panic
   or a hang — and reopening must show the before-or-after state with everything earlier intact. *)
From HC Require Import Base NMap Codec Crypto FlatTree Storage Bitfield Oplog Merkle Core CoreFacts Fault.

Theorem C10_failed_flush_is_a_cut : forall ops k c w c1 w1,
  (k < length ops)%nat ->
  emit ops c w = (c1, w1, Ok tt) ->
  exists wk,
    emit_fail k ops c w = (c, wk, Err IOErr) /\
    w_journal wk = rev (firstn k ops) ++ w_journal w /\
    apply_sops (w_disk w) (firstn k ops) = Some (w_disk wk) /\
    apply_sops (w_disk wk) (skipn k ops) = Some (w_disk w1) /\
    w_events wk = w_events w.
Proof. exact emit_fail_is_cut. Qed.

Theorem C10_fault_states_are_crash_cuts : forall cr,
  (forall f batch, fault_states_are_cuts (core_append cr f batch)) /\
  (forall f s e, fault_states_are_cuts (core_clear cr f s e)) /\
  (forall f pf, fault_states_are_cuts (core_apply_proof cr f pf)) /\
  fault_states_are_cuts (core_make_read_only cr) /\
  (forall i, fault_states_are_cuts (core_get i)).
Proof. exact operations_fault_states. Qed.

Theorem C10_journal_prefixes_apply : forall d l d' k,
  apply_sops d l = Some d' ->
  exists dk, apply_sops d (firstn k l) = Some dk /\ apply_sops dk (skipn k l) = Some d'.
Proof. exact apply_sops_prefix. Qed.

Print Assumptions C10_failed_flush_is_a_cut.
Print Assumptions C10_fault_states_are_crash_cuts.
Print Assumptions C10_journal_prefixes_apply.

(* C10 — placeholder *)
From HC Require Import Base.

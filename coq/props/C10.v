(* ADDED IN THE THIRD ROUND (CrashClear4.v): a failing storage operation of an append or clear is the journal cut at that operation, the call answers
   the error, and reopening recovers before/after (C10_fault_is_a_cut_of_the_call, C10_failed_append_recovers, C10_failed_clear_recovers).
   ---- header of the earlier rounds: ---- *)
(* C10 — a storage error surfaces as an error and is recoverable by reopening (pinned statements; proofs in
   Fault.v). Storage::flush_infos applies storage operations in order and stops at the first failure.
   Proved: a flush in which operation number k fails reports the I/O error, leaves core and events untouched,
   and leaves on disk (and in the journal) exactly the first k operations: the cut of the fault-free journal
   at k; for every operation of the core, every prefix of the operations it writes is a well-defined disk from
   which the remaining operations lead to the final disk. Hence every state a single failing WRITE, DELETE or
   TRUNCATE can leave is one of the crash states of C02, whose recovery C02/C07/C08 treat.
   Partial by nature: that the crate propagates every Result with `?` (instead of dropping it, unwrapping it or
   carrying on), and failing READS / length queries, cannot be expressed in the model; they are decided on every
   run by tools/c10.py, which injects one I/O error at EVERY storage operation (reads and length queries
   included, during open too) of every generated history: the call must answer an error — never success, a panic
   or a hang — and reopening must show the before-or-after state with everything earlier intact. *)
From HC Require SrcOrder OrderTie.
From HC Require Import Refine ClearRefine Unified1 CrashClear1 CrashClear2 CrashClear4.
From HC Require Import Base NMap Codec Crypto FlatTree Storage Bitfield Oplog Merkle Core CoreFacts Fault.

Theorem C10_failed_flush_is_a_cut : forall ops k c w c1 w1,
  (k < length ops)%nat ->
  emit ops c w = (c1, w1, Ok tt) ->
  exists wk,
    emit_fail k ops c w = (c, wk, Err IOErr) /\
    w_journal wk = rev (firstn k ops) ++ w_journal w /\
    apply_sops (w_disk w) (firstn k ops) = Some (w_disk wk) /\
    apply_sops (w_disk wk) (skipn k ops) = Some (w_disk w1) /\
    w_events wk = w_events w.
Proof. exact emit_fail_is_cut. Qed.

Theorem C10_fault_states_are_crash_cuts : forall cr,
  (forall f batch, fault_states_are_cuts (core_append cr f batch)) /\
  (forall f s e, fault_states_are_cuts (core_clear cr f s e)) /\
  (forall f pf, fault_states_are_cuts (core_apply_proof cr f pf)) /\
  fault_states_are_cuts (core_make_read_only cr) /\
  (forall i, fault_states_are_cuts (core_get i)).
Proof. exact operations_fault_states. Qed.

Theorem C10_journal_prefixes_apply : forall d l d' k,
  apply_sops d l = Some d' ->
  exists dk, apply_sops d (firstn k l) = Some dk /\ apply_sops dk (skipn k l) = Some d'.
Proof. exact apply_sops_prefix. Qed.

Theorem C10_fault_is_a_cut_of_the_call :
  forall (A : Type) (m mf : M A) (k : nat) (c : core) (d : disk) (j : list sop) (ev : list event) 
           (c' : core) (w' : world) (x : A) (delta : list sop),
         fsim (Datatypes.length j + k) m mf ->
         m c {| w_disk := d; w_journal := j; w_events := ev |} = (c', w', Ok x) ->
         w_journal w' = rev delta ++ j ->
         (k < Datatypes.length delta)%nat ->
         exists (ck : core) (wk : world),
           mf c {| w_disk := d; w_journal := j; w_events := ev |} = (ck, wk, Err IOErr) /\
           w_journal wk = rev (firstn k delta) ++ j /\ apply_sops d (firstn k delta) = Some (w_disk wk).
Proof. intros A. exact fault_is_cut. Qed.

Theorem C10_fault_beyond_the_call :
  forall (A : Type) (m mf : M A) (k : nat) (c : core) (d : disk) (j : list sop) (ev : list event) 
           (c' : core) (w' : world) (x : A) (delta : list sop),
         fsim (Datatypes.length j + k) m mf ->
         m c {| w_disk := d; w_journal := j; w_events := ev |} = (c', w', Ok x) ->
         w_journal w' = rev delta ++ j ->
         (Datatypes.length delta <= k)%nat ->
         mf c {| w_disk := d; w_journal := j; w_events := ev |} = (c', w', Ok x).
Proof. intros A. exact fault_beyond_end. Qed.

Theorem C10_failed_append_recovers :
  forall cr : crypto,
         OplogFacts.crc_ok cr ->
         (forall x : bytes, Datatypes.length (cr_hash cr x) = 32%nat) ->
         (forall x : bytes, all_zero (cr_hash cr x) = false) ->
         (forall x : bytes, bytes_ok (cr_hash cr x) = true) ->
         (forall sk m : bytes, Datatypes.length (cr_sign cr sk m) = 64%nat) ->
         (forall sk m : bytes, bytes_ok (cr_sign cr sk m) = true) ->
         forall (f : option bool) (batch : list bytes) (c : core) (d : disk) (j : list sop) 
           (ev : list event) (bs : list bytes) (cl : N -> bool) (sk : bytes) (c' : core) 
           (w' : world) (x : N * N) (delta : list sop) (k : nat),
         YInv cr c d bs cl ->
         kp_secret (c_keypair c) = Some sk ->
         sumN (map len (bs ++ batch)) <= u64_max ->
         NODE_SIZE * (2 * N.of_nat (Datatypes.length (bs ++ batch))) <= u64_max ->
         core_append cr f batch c {| w_disk := d; w_journal := j; w_events := ev |} = (c', w', Ok x) ->
         w_journal w' = rev delta ++ j ->
         (k < Datatypes.length delta)%nat ->
         exists (ck : core) (wk : world),
           core_append_E cr (emit_lim (Datatypes.length j + k)) f batch c
             {| w_disk := d; w_journal := j; w_events := ev |} = (ck, wk, Err IOErr) /\
           w_journal wk = rev (firstn k delta) ++ j /\
           apply_sops d (firstn k delta) = Some (w_disk wk) /\
           (exists (c2 : core) (d2 : disk) (ops2 : list sop),
              core_open cr None true (w_disk wk) = (d2, ops2, Ok c2) /\
              (if (k <? 2)%nat
               then YInv cr c2 d2 bs cl
               else YInv cr c2 d2 (bs ++ batch) (cl_mask cl (N.of_nat (Datatypes.length bs)))) /\
              c_keypair c2 = c_keypair c).
Proof. exact append_fault_recovers. Qed.

Theorem C10_failed_clear_recovers :
  forall cr : crypto,
         OplogFacts.crc_ok cr ->
         (forall x : bytes, Datatypes.length (cr_hash cr x) = 32%nat) ->
         (forall x : bytes, all_zero (cr_hash cr x) = false) ->
         (forall x : bytes, bytes_ok (cr_hash cr x) = true) ->
         forall (f : option bool) (c : core) (d : disk) (j : list sop) (ev : list event) 
           (bs : list bytes) (cl : N -> bool) (start end_ : N) (c' : core) (w' : world) 
           (r : res unit) (delta : list sop) (k : nat),
         let n := N.of_nat (Datatypes.length bs) in
         YInv cr c d bs cl ->
         start < n ->
         start < end_ ->
         end_ <= u64_max ->
         core_clear cr f start end_ c {| w_disk := d; w_journal := j; w_events := ev |} = (c', w', r) ->
         w_journal w' = rev delta ++ j ->
         (k < Datatypes.length delta)%nat ->
         exists (ck : core) (wk : world),
           core_clear_E cr (emit_lim (Datatypes.length j + k)) f start end_ c
             {| w_disk := d; w_journal := j; w_events := ev |} = (ck, wk, Err IOErr) /\
           w_journal wk = rev (firstn k delta) ++ j /\
           apply_sops d (firstn k delta) = Some (w_disk wk) /\
           (exists (c2 : core) (d2 : disk) (ops2 : list sop),
              core_open cr None true (w_disk wk) = (d2, ops2, Ok c2) /\
              YInv cr c2 d2 bs (if (k <? 1)%nat then cl else cl_clear cl start end_) /\
              c_keypair c2 = c_keypair c).
Proof. exact clear_fault_recovers. Qed.

(* Tie to the source, regenerated on every run (tools/srcorder.py): in append_batch, clear, verify_and_apply_proof, make_read_only and the
   checkpoint EVERY storage call (Storage::flush_info(s), the checkpoint itself) is followed by `.await?`, i.e. its Result is
   propagated — the syntactic half of what the model cannot express (the other half: fault injection on the crate). *)
Theorem C10_source_propagates_every_storage_result :
  OrderTie.tied_order SrcOrder.src_unpropagated_append_batch 0%N /\
  OrderTie.tied_order SrcOrder.src_unpropagated_clear 0%N /\
  OrderTie.tied_order SrcOrder.src_unpropagated_verify_and_apply_proof 0%N /\
  OrderTie.tied_order SrcOrder.src_unpropagated_make_read_only 0%N /\
  OrderTie.tied_order SrcOrder.src_unpropagated_flush_bitfield_and_tree_and_oplog 0%N.
Proof. exact OrderTie.source_propagates_every_storage_result. Qed.

Print Assumptions C10_failed_flush_is_a_cut.
Print Assumptions C10_fault_states_are_crash_cuts.
Print Assumptions C10_journal_prefixes_apply.
Print Assumptions C10_fault_is_a_cut_of_the_call.
Print Assumptions C10_fault_beyond_the_call.
Print Assumptions C10_failed_append_recovers.
Print Assumptions C10_failed_clear_recovers.
Print Assumptions CrashClear4.toy_fault_in_clear.
Print Assumptions CrashClear4.fault_then_continue_loses_acknowledged_appends.
Print Assumptions C10_source_propagates_every_storage_result.
